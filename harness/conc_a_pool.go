package main

// C18, tie (a3) for pooled package-level objects: the sync.Pool inventory.
//
// A sync.Pool is exempt from the lock inventory (it synchronises itself), but it carries its own
// obligation: an object obtained by Get has one owner and is Put back at most once.  On every run
// the whole module is re-parsed (go/ast) and for every sync.Pool (package-level variable or struct
// field) every Get and Put site is listed: the function, the argument, the number of control-flow
// paths through the function on which the Put is executed, the maximal number of Puts of that
// pool on one path, the branch conditions under which the Put is reached (so a Put that moves onto
// an error branch shows), and — for Close-like functions, which callers may run twice — whether
// the Put is protected by a `closed` flag that persists (pointer receiver / captured variable).
//
// Oracle (independent of the reviewed list): a path with two Puts of one pool is a violation
// (pool-put-twice); a Put or Get site in a function that is not on the reviewed list is a
// violation (pool-site-unreviewed) naming the function.  The full inventory is the
// correspondence line `CONC poolinv`, compared with `poolInventory` in
// lean/PdfVerif/Model/CONCProg.lean (theorem `pool_inventory_put_once`).

import (
	"bytes"
	"fmt"
	"go/ast"
	"go/parser"
	"go/printer"
	"go/token"
	"os"
	"path/filepath"
	"sort"
	"strings"
)

func init() {
	addRun("C18", "sync.Pool inventory re-extracted from the Go sources of the whole module: every Get/Put site with its function, argument, path count, maximal number of Puts per path, guarding branch conditions and Close-idempotence guard, compared with the reviewed inventory. One case.", runConcPoolInventory)
	addReplay("C18", "poolinv", func(string) (bool, string) {
		line, viol, err := concPoolInventory(concRepo())
		if err != nil {
			return false, err.Error()
		}
		if len(viol) == 0 {
			return true, line
		}
		return false, strings.Join(viol, "\n") + "\n" + line
	})
}

// reviewed sites: pool/function
var concPoolReviewed = map[string]bool{
	"pdf.zlibWriterPool/encodeFlateLZW":            true, // Get; Put in the close closure after the first successful zlib Close; closed flag
	"pdf.zlibReaderPool/zlibNewReader":             true, // Get (+Reset); an object whose Reset fails is dropped
	"pdf.zlibReaderPool/(*pooledZlibReader).Close": true, // Put after the first successful Close (ErrChecksum tolerated); closed flag
}

type poolSite struct {
	pool, fn, kind, arg string
	paths, maxPut       int
	conds               []string
	guard               string
}

func concExprText(fset *token.FileSet, e ast.Node) string {
	var b bytes.Buffer
	printer.Fprint(&b, fset, e)
	return strings.Join(strings.Fields(b.String()), "")
}

type poolPath struct {
	conds []string
	puts  map[string]int // pool -> number of Puts so far
	hit   map[int]bool   // site ids executed on this path
}

func (p poolPath) clone() poolPath {
	q := poolPath{conds: append([]string{}, p.conds...), puts: map[string]int{}, hit: map[int]bool{}}
	for k, v := range p.puts {
		q.puts[k] = v
	}
	for k := range p.hit {
		q.hit[k] = true
	}
	return q
}

type poolFuncScan struct {
	fset    *token.FileSet
	pkg     string
	poolOf  func(ast.Expr) string // "" if the expression is not a pool
	sites   []*poolSite
	siteIdx map[token.Pos]int
	fn      string
	done    []poolPath // finished paths
}

// calls finds the Get/Put calls inside an expression or simple statement, in source order.
func (s *poolFuncScan) calls(n ast.Node, p *poolPath) {
	if n == nil {
		return
	}
	ast.Inspect(n, func(n ast.Node) bool {
		if _, ok := n.(*ast.FuncLit); ok {
			return false // closures are scanned as functions of their own
		}
		call, ok := n.(*ast.CallExpr)
		if !ok {
			return true
		}
		sel, ok := call.Fun.(*ast.SelectorExpr)
		if !ok || (sel.Sel.Name != "Put" && sel.Sel.Name != "Get") {
			return true
		}
		pool := s.poolOf(sel.X)
		if pool == "" {
			return true
		}
		id, ok := s.siteIdx[call.Pos()]
		if !ok {
			arg := "-"
			if len(call.Args) == 1 {
				arg = concExprText(s.fset, call.Args[0])
			}
			s.sites = append(s.sites, &poolSite{pool: pool, fn: s.fn, kind: strings.ToLower(sel.Sel.Name), arg: arg})
			id = len(s.sites) - 1
			s.siteIdx[call.Pos()] = id
		}
		p.hit[id] = true
		if sel.Sel.Name == "Put" {
			p.puts[pool]++
		}
		return true
	})
}

// walk enumerates the control-flow paths of a statement list (loops: body zero or one time).
func (s *poolFuncScan) walk(stmts []ast.Stmt, in []poolPath) (out []poolPath) {
	cur := in
	for _, st := range stmts {
		if len(cur) == 0 {
			break
		}
		if len(cur) > 200 {
			cur = cur[:200]
		}
		var next []poolPath
		switch x := st.(type) {
		case *ast.ReturnStmt:
			for _, p := range cur {
				for _, r := range x.Results {
					s.calls(r, &p)
				}
				s.done = append(s.done, p)
			}
			return nil
		case *ast.IfStmt:
			cond := concExprText(s.fset, x.Cond)
			for _, p := range cur {
				if x.Init != nil {
					s.calls(x.Init, &p)
				}
				s.calls(x.Cond, &p)
				pt := p.clone()
				pt.conds = append(pt.conds, cond)
				next = append(next, s.walk(x.Body.List, []poolPath{pt})...)
				pe := p.clone()
				pe.conds = append(pe.conds, "!("+cond+")")
				if x.Else != nil {
					switch e := x.Else.(type) {
					case *ast.BlockStmt:
						next = append(next, s.walk(e.List, []poolPath{pe})...)
					default:
						next = append(next, s.walk([]ast.Stmt{e}, []poolPath{pe})...)
					}
				} else {
					next = append(next, pe)
				}
			}
		case *ast.BlockStmt:
			next = s.walk(x.List, cur)
		case *ast.ForStmt:
			for _, p := range cur {
				if x.Init != nil {
					s.calls(x.Init, &p)
				}
				if x.Cond != nil {
					s.calls(x.Cond, &p)
				}
				next = append(next, p.clone())
				next = append(next, s.walk(x.Body.List, []poolPath{p.clone()})...)
			}
		case *ast.RangeStmt:
			for _, p := range cur {
				s.calls(x.X, &p)
				next = append(next, p.clone())
				next = append(next, s.walk(x.Body.List, []poolPath{p.clone()})...)
			}
		case *ast.SwitchStmt, *ast.TypeSwitchStmt, *ast.SelectStmt:
			var body *ast.BlockStmt
			switch y := x.(type) {
			case *ast.SwitchStmt:
				body = y.Body
			case *ast.TypeSwitchStmt:
				body = y.Body
			case *ast.SelectStmt:
				body = y.Body
			}
			for _, p := range cur {
				if sw, ok := x.(*ast.SwitchStmt); ok {
					if sw.Init != nil {
						s.calls(sw.Init, &p)
					}
					if sw.Tag != nil {
						s.calls(sw.Tag, &p)
					}
				}
				hasDefault := false
				for i, cl := range body.List {
					var list []ast.Stmt
					label := fmt.Sprintf("case#%d", i)
					switch c := cl.(type) {
					case *ast.CaseClause:
						list = c.Body
						if c.List == nil {
							hasDefault = true
							label = "default"
						} else {
							label = "case:" + concExprText(s.fset, c.List[0])
						}
					case *ast.CommClause:
						list = c.Body
						if c.Comm == nil {
							hasDefault = true
						}
					}
					pc := p.clone()
					pc.conds = append(pc.conds, label)
					next = append(next, s.walk(list, []poolPath{pc})...)
				}
				if !hasDefault {
					next = append(next, p.clone())
				}
			}
		case *ast.DeferStmt:
			// a deferred Put runs once at function exit: count it on every path from here
			for _, p := range cur {
				s.calls(x.Call, &p)
				next = append(next, p)
			}
		case *ast.LabeledStmt:
			next = s.walk([]ast.Stmt{x.Stmt}, cur)
		case *ast.BranchStmt:
			// break/continue/goto: the path goes on after the enclosing construct (approximation)
			next = cur
		default:
			for _, p := range cur {
				s.calls(st, &p)
				next = append(next, p)
			}
		}
		cur = next
	}
	return cur
}

// closeGuard reports whether a Close-like function protects its Put with a persisting flag.
func concCloseGuard(fset *token.FileSet, body *ast.BlockStmt, recvIsValue bool, recvName string) string {
	flags := map[string]bool{}
	ast.Inspect(body, func(n ast.Node) bool {
		if as, ok := n.(*ast.AssignStmt); ok && len(as.Lhs) == 1 && len(as.Rhs) == 1 {
			if id, ok := as.Rhs[0].(*ast.Ident); ok && id.Name == "true" {
				flags[concExprText(fset, as.Lhs[0])] = true
			}
		}
		return true
	})
	for _, st := range body.List {
		ifs, ok := st.(*ast.IfStmt)
		if !ok {
			continue
		}
		cond := concExprText(fset, ifs.Cond)
		if !flags[cond] || len(ifs.Body.List) == 0 {
			continue
		}
		if _, ok := ifs.Body.List[len(ifs.Body.List)-1].(*ast.ReturnStmt); !ok {
			continue
		}
		if recvIsValue && recvName != "" && strings.HasPrefix(cond, recvName+".") {
			return "flag-on-value-receiver:" + cond
		}
		return "flag:" + cond
	}
	return "none"
}

func concPoolInventory(repo string) (string, []string, error) {
	var sites []*poolSite
	var viol []string
	fset := token.NewFileSet()
	// group files by directory; only directories with a file mentioning sync.Pool are parsed
	dirs := map[string][]string{}
	filepath.Walk(repo, func(path string, info os.FileInfo, err error) error {
		if err != nil {
			return nil
		}
		if info.IsDir() {
			n := info.Name()
			if path != repo && (strings.HasPrefix(n, ".") || n == "testdata" || n == "vendor") {
				return filepath.SkipDir
			}
			return nil
		}
		if strings.HasSuffix(path, ".go") && !strings.HasSuffix(path, "_test.go") && !strings.HasPrefix(info.Name(), "verif_") {
			dirs[filepath.Dir(path)] = append(dirs[filepath.Dir(path)], path)
		}
		return nil
	})
	var dirNames []string
	for d := range dirs {
		dirNames = append(dirNames, d)
	}
	sort.Strings(dirNames)
	for _, d := range dirNames {
		has := false
		var srcs [][]byte
		for _, f := range dirs[d] {
			b, err := os.ReadFile(f)
			if err != nil {
				return "", nil, err
			}
			srcs = append(srcs, b)
			if bytes.Contains(b, []byte("sync.Pool")) {
				has = true
			}
		}
		if !has {
			continue
		}
		var files []*ast.File
		pkg := ""
		for i, f := range dirs[d] {
			af, err := parser.ParseFile(fset, f, srcs[i], 0)
			if err != nil {
				return "", nil, err
			}
			if af.Name.Name == "main" {
				continue
			}
			pkg = af.Name.Name
			files = append(files, af)
		}
		isPoolType := func(e ast.Expr) bool {
			if st, ok := e.(*ast.StarExpr); ok {
				e = st.X
			}
			sel, ok := e.(*ast.SelectorExpr)
			if !ok {
				return false
			}
			id, ok := sel.X.(*ast.Ident)
			return ok && id.Name == "sync" && sel.Sel.Name == "Pool"
		}
		poolVars := map[string]bool{}
		poolFields := map[string]bool{}
		for _, af := range files {
			ast.Inspect(af, func(n ast.Node) bool {
				switch x := n.(type) {
				case *ast.ValueSpec:
					for i, name := range x.Names {
						ok := x.Type != nil && isPoolType(x.Type)
						if !ok && i < len(x.Values) {
							v := x.Values[i]
							if u, isU := v.(*ast.UnaryExpr); isU {
								v = u.X
							}
							if cl, isCl := v.(*ast.CompositeLit); isCl && cl.Type != nil && isPoolType(cl.Type) {
								ok = true
							}
						}
						if ok {
							poolVars[name.Name] = true
						}
					}
				case *ast.StructType:
					for _, fl := range x.Fields.List {
						if isPoolType(fl.Type) {
							for _, name := range fl.Names {
								poolFields[name.Name] = true
							}
						}
					}
				}
				return true
			})
		}
		poolOf := func(e ast.Expr) string {
			switch x := e.(type) {
			case *ast.Ident:
				if poolVars[x.Name] {
					return pkg + "." + x.Name
				}
			case *ast.SelectorExpr:
				if poolFields[x.Sel.Name] {
					return pkg + ".(field)" + x.Sel.Name
				}
			case *ast.ParenExpr:
				return ""
			}
			return ""
		}
		scanFunc := func(name string, body *ast.BlockStmt, closeLike, recvIsValue bool, recvName string) {
			s := &poolFuncScan{fset: fset, pkg: pkg, poolOf: poolOf, siteIdx: map[token.Pos]int{}, fn: name}
			rest := s.walk(body.List, []poolPath{{puts: map[string]int{}, hit: map[int]bool{}}})
			s.done = append(s.done, rest...)
			if len(s.sites) == 0 {
				return
			}
			guard := "-"
			if closeLike {
				guard = concCloseGuard(fset, body, recvIsValue, recvName)
			}
			for id, site := range s.sites {
				condSet := map[string]bool{}
				for _, p := range s.done {
					if !p.hit[id] {
						continue
					}
					site.paths++
					if p.puts[site.pool] > site.maxPut {
						site.maxPut = p.puts[site.pool]
					}
					for _, c := range p.conds {
						condSet[c] = true
					}
				}
				// keep only the conditions which hold on every path through the site
				for c := range condSet {
					all := true
					for _, p := range s.done {
						if !p.hit[id] {
							continue
						}
						found := false
						for _, pc := range p.conds {
							if pc == c {
								found = true
							}
						}
						if !found {
							all = false
						}
					}
					if all {
						site.conds = append(site.conds, c)
					}
				}
				sort.Strings(site.conds)
				if site.kind == "put" {
					site.guard = guard
				} else {
					site.guard = "-"
					site.maxPut = 0
				}
				sites = append(sites, site)
			}
		}
		for _, af := range files {
			for _, dcl := range af.Decls {
				fd, ok := dcl.(*ast.FuncDecl)
				if !ok || fd.Body == nil {
					continue
				}
				name := fd.Name.Name
				recvIsValue, recvName := false, ""
				if fd.Recv != nil && len(fd.Recv.List) > 0 {
					_, isPtr := fd.Recv.List[0].Type.(*ast.StarExpr)
					recvIsValue = !isPtr
					if len(fd.Recv.List[0].Names) > 0 {
						recvName = fd.Recv.List[0].Names[0].Name
					}
					rn := concRecvName(fd.Recv)
					name = "(" + rn + ")." + name
				}
				scanFunc(name, fd.Body, fd.Name.Name == "Close", recvIsValue, recvName)
				// closures: scanned on their own; a closure bound to a name containing "close" is Close-like
				ast.Inspect(fd.Body, func(n ast.Node) bool {
					switch x := n.(type) {
					case *ast.AssignStmt:
						for i, r := range x.Rhs {
							if fl, ok := r.(*ast.FuncLit); ok && i < len(x.Lhs) {
								lhs := concExprText(fset, x.Lhs[i])
								scanFunc(name+"$"+lhs, fl.Body, strings.Contains(strings.ToLower(lhs), "close"), false, "")
							}
						}
					case *ast.CallExpr:
						for _, a := range x.Args {
							if fl, ok := a.(*ast.FuncLit); ok {
								scanFunc(name+"$func", fl.Body, false, false, "")
							}
						}
					case *ast.KeyValueExpr:
						if fl, ok := x.Value.(*ast.FuncLit); ok {
							scanFunc(name+"$"+concExprText(fset, x.Key), fl.Body, false, false, "")
						}
					}
					return true
				})
			}
		}
	}
	var items []string
	for _, s := range sites {
		conds := "-"
		if len(s.conds) > 0 {
			conds = strings.Join(s.conds, "&")
		}
		items = append(items, fmt.Sprintf("%s/%s/%s(%s)/paths=%d/maxput=%d/if=%s/guard=%s", s.pool, s.fn, s.kind, s.arg, s.paths, s.maxPut, conds, s.guard))
		key := s.pool + "/" + strings.SplitN(s.fn, "$", 2)[0]
		if s.kind == "put" && s.maxPut > 1 {
			viol = append(viol, fmt.Sprintf("pool-put-twice\x00%s: %s puts %s into the pool %d times on one path", s.pool, s.fn, s.arg, s.maxPut))
		}
		if s.kind == "put" && s.guard != "-" && !strings.HasPrefix(s.guard, "flag:") {
			viol = append(viol, fmt.Sprintf("pool-double-close\x00%s: %s puts %s into the pool and can be run twice (a second Close), but no persisting closed flag protects the Put (guard=%s): after Close(); Close() two later decodes share the object", s.pool, s.fn, s.arg, s.guard))
		}
		if !concPoolReviewed[key] {
			viol = append(viol, fmt.Sprintf("pool-site-unreviewed\x00%s: new %s site in %s (argument %s) — an object may now be put into the pool on a path on which it is put again later (e.g. by Close), after which two decodes share it", s.pool, strings.ToUpper(s.kind[:1])+s.kind[1:], s.fn, s.arg))
		}
	}
	sort.Strings(items)
	// several Put sites for one pool in one function family are listed; duplicates across
	// functions for the same object cannot be matched syntactically and are left to the reviewed list
	line := strings.Join(items, " ")
	if line == "" {
		line = "-"
	}
	return line, viol, nil
}

func runConcPoolInventory(c *Ctx) {
	line, viol, err := concPoolInventory(concRepo())
	if err != nil {
		c.Violate("poolinv", "inventory-extraction", "cannot extract the sync.Pool inventory: "+err.Error(), "")
		return
	}
	c.Case("sync.Pool inventory", true)
	c.Emit("CONC poolinv", line)
	c.Sample("sync.Pool sites: " + line)
	c.StatN("sync.Pool Get/Put sites", len(strings.Fields(line)))
	for _, v := range viol {
		kd := strings.SplitN(v, "\x00", 2)
		c.Violate("poolinv", kd[0], kd[1], kd[1])
	}
}

package main

import (
	"bytes"
	"fmt"
	"image"
	"image/color"
	"image/jpeg"
	"io"
	"runtime"
	"strconv"
	"strings"
	"time"

	"seehuhn.de/go/membudget"
	"seehuhn.de/go/pdf"
	"seehuhn.de/go/pdf/font/glyphdata"
	"seehuhn.de/go/pdf/font/glyphdata/type1glyphs"
	"seehuhn.de/go/pdf/font/verifhook"
	pdfimage "seehuhn.de/go/pdf/graphics/image"
	"seehuhn.de/go/pdf/page"
	"seehuhn.de/go/pdf/pagetree"
	"seehuhn.de/go/postscript/type1"
)

// Property C05, goroutine lifetime on SUCCESS paths.
//
// The library has two producers that feed an io.Pipe from a helper goroutine
// (grep "io.Pipe()" / "go func" outside cmd/ and tests): type1glyphs.FromStream
// (the font program is written into a pipe that type1.Read parses) and
// internal/filter/dct.Decode (the JPEG decoder writes pixels into a pipe that
// the caller drains).  Both must end their goroutine also when the consumer
// is done SUCCESSFULLY before the producer has written everything: a Type 1
// program that parses fine but is followed by more bytes (the 512 zeros and
// cleartomark of the PDF form, padding behind the 0x80 0x03 segment of a PFB
// file, arbitrary trailing bytes), a JPEG with data after EOI, a decoded
// stream that is closed after a part of it was read.  rob_c05.go counts
// goroutines around whole-file walks, which mostly end in failing parses;
// the families here are valid inputs plus trailing bytes.
//
// A case is replayed by its descriptor ("t1 <form> <trail> <fill> <chunk>",
// "dct <image> <trail> <fill> <consume>").

const c05gWatchdog = 20 * time.Second

// c05gSettle waits up to a second for the goroutine count to come back to
// before and returns what is left over.
func c05gSettle(before int) int {
	deadline := time.Now().Add(time.Second)
	for i := 0; runtime.NumGoroutine() > before && time.Now().Before(deadline); i++ {
		if i < 50 {
			runtime.Gosched()
		} else {
			time.Sleep(time.Millisecond)
		}
	}
	return runtime.NumGoroutine() - before
}

func c05gFill(kind string, n int) []byte {
	out := make([]byte, n)
	switch kind {
	case "zero":
	case "space":
		for i := range out {
			out[i] = ' '
		}
	case "text":
		pat := "0000000000000000000000000000000000000000000000000000000000000000\ncleartomark\n"
		for i := range out {
			out[i] = pat[i%len(pat)]
		}
	default: // "junk": deterministic noise
		x := uint32(2463534242)
		for i := range out {
			x ^= x << 13
			x ^= x >> 17
			x ^= x << 5
			out[i] = byte(x >> 11)
		}
	}
	return out
}

// ---- Type 1 ----

var c05gT1Forms = []string{"pdf", "pfa", "pfb", "binary", "noeexec"}

var c05gT1Cache = map[string][]byte{}

func c05gT1Bytes(form string) ([]byte, error) {
	if b, ok := c05gT1Cache[form]; ok {
		return b, nil
	}
	f := verifhook.Type1()
	var buf bytes.Buffer
	var err error
	switch form {
	case "pdf":
		_, _, err = f.WritePDF(&buf)
	case "pfa":
		err = f.Write(&buf, &type1.WriterOptions{Format: type1.FormatPFA})
	case "pfb":
		err = f.Write(&buf, &type1.WriterOptions{Format: type1.FormatPFB})
	case "binary":
		err = f.Write(&buf, &type1.WriterOptions{Format: type1.FormatBinary})
	default:
		err = f.Write(&buf, &type1.WriterOptions{Format: type1.FormatNoEExec})
	}
	if err != nil {
		return nil, err
	}
	c05gT1Cache[form] = buf.Bytes()
	return buf.Bytes(), nil
}

// c05gType1 runs one Type 1 case: ok reports whether the property held.
func c05gType1(form string, trail int, fill string, chunk int) (ok bool, nontrivial bool, key, desc string) {
	prog, err := c05gT1Bytes(form)
	if err != nil {
		return true, false, "", "cannot build the font: " + err.Error()
	}
	data := append(append([]byte{}, prog...), c05gFill(fill, trail)...)
	stm := &glyphdata.Stream{
		Type: glyphdata.Type1,
		WriteTo: func(w io.Writer, _ *glyphdata.Lengths) error {
			switch {
			case chunk == 0: // everything in one Write
				_, err := w.Write(data)
				return err
			case chunk < 0: // the program, then the trailing bytes
				if _, err := w.Write(data[:len(prog)]); err != nil {
					return err
				}
				if trail > 0 {
					_, err := w.Write(data[len(prog):])
					return err
				}
				return nil
			}
			for p := 0; p < len(data); p += chunk {
				if _, err := w.Write(data[p:min(p+chunk, len(data))]); err != nil {
					return err
				}
			}
			return nil
		},
	}
	before := runtime.NumGoroutine()
	type res struct {
		font *type1.Font
		err  error
		pan  any
	}
	done := make(chan res, 1)
	go func() {
		var r res
		defer func() {
			r.pan = recover()
			done <- r
		}()
		r.font, r.err = type1glyphs.FromStream(stm)
	}()
	var r res
	select {
	case r = <-done:
	case <-time.After(c05gWatchdog):
		return false, true, "C05-hang", fmt.Sprintf("type1glyphs.FromStream did not return within %v", c05gWatchdog)
	}
	if r.pan != nil {
		return false, true, "C05-panic-type1glyphs.FromStream", fmt.Sprintf("panic: %v", r.pan)
	}
	if r.font == nil && r.err == nil {
		return false, true, "C05-nil-result-without-error", "type1glyphs.FromStream returned (nil, nil)"
	}
	left := c05gSettle(before)
	if left > 0 {
		if n, info := c05LibGoroutines(); n > 0 {
			return false, r.err == nil, "C05-goroutine-leak-type1-fromstream",
				fmt.Sprintf("%d goroutine(s) still running after FromStream returned (err=%v, %d glyphs), e.g. in %s", n, r.err, c05gGlyphs(r.font), info)
		}
	}
	return true, r.err == nil, "", fmt.Sprintf("err=%v glyphs=%d", r.err, c05gGlyphs(r.font))
}

func c05gGlyphs(f *type1.Font) int {
	if f == nil {
		return 0
	}
	return len(f.Glyphs)
}

// ---- DCT ----

var c05gJPEGCache = map[string][]byte{}

func c05gJPEG(kind string) []byte {
	if b, ok := c05gJPEGCache[kind]; ok {
		return b
	}
	var img image.Image
	switch kind {
	case "gray32":
		g := image.NewGray(image.Rect(0, 0, 32, 32))
		for i := range g.Pix {
			g.Pix[i] = byte(i * 7)
		}
		img = g
	case "rgb64":
		m := image.NewRGBA(image.Rect(0, 0, 64, 64))
		for y := 0; y < 64; y++ {
			for x := 0; x < 64; x++ {
				m.Set(x, y, color.RGBA{byte(4 * x), byte(4 * y), byte(x * y), 255})
			}
		}
		img = m
	default: // "rgb400": 480000 bytes of output, far more than any pipe or bufio buffer
		m := image.NewRGBA(image.Rect(0, 0, 400, 400))
		for y := 0; y < 400; y++ {
			for x := 0; x < 400; x++ {
				m.Set(x, y, color.RGBA{byte(x), byte(y), byte(x ^ y), 255})
			}
		}
		img = m
	}
	var buf bytes.Buffer
	if err := jpeg.Encode(&buf, img, &jpeg.Options{Quality: 80}); err != nil {
		return nil
	}
	c05gJPEGCache[kind] = buf.Bytes()
	return buf.Bytes()
}

func c05gDCT(kind string, trail int, fill string, consume string) (ok bool, nontrivial bool, key, desc string) {
	body := c05gJPEG(kind)
	if body == nil {
		return true, false, "", "cannot encode the image"
	}
	var tail []byte
	if fill == "jpeg" {
		for len(tail) < trail {
			tail = append(tail, body...)
		}
		tail = tail[:trail]
	} else {
		tail = c05gFill(fill, trail)
	}
	data := append(append([]byte{}, body...), tail...)
	before := runtime.NumGoroutine()
	type res struct {
		n   int
		err error
		pan any
	}
	done := make(chan res, 1)
	go func() {
		var r res
		defer func() {
			r.pan = recover()
			done <- r
		}()
		budget := membudget.New(int64(8<<20) + min(int64(1024*len(data)), 256<<20)) // limits.StreamBudget
		rd, err := pdf.FilterDCT{}.Decode(pdf.V2_0, bytes.NewReader(data), budget)
		if err != nil {
			r.err = err
			return
		}
		limit := 1 << 30
		switch consume {
		case "none":
			limit = 0
		case "one":
			limit = 1
		case "half":
			limit = 3100 // a part of the image, not a multiple of any buffer size
		}
		buf := make([]byte, 4096)
		for r.n < limit {
			k, err := rd.Read(buf[:min(len(buf), limit-r.n)])
			r.n += k
			if err == io.EOF {
				break
			}
			if err != nil {
				r.err = err
				break
			}
		}
		if cerr := rd.Close(); cerr != nil && r.err == nil && consume == "all" {
			r.err = cerr
		}
	}()
	var r res
	select {
	case r = <-done:
	case <-time.After(c05gWatchdog):
		return false, true, "C05-hang", fmt.Sprintf("DCTDecode read/Close did not return within %v", c05gWatchdog)
	}
	if r.pan != nil {
		return false, true, "C05-panic-dct.Decode", fmt.Sprintf("panic: %v", r.pan)
	}
	left := c05gSettle(before)
	if left > 0 {
		if n, info := c05LibGoroutines(); n > 0 {
			return false, r.n > 0, "C05-goroutine-leak-dct-decode",
				fmt.Sprintf("%d goroutine(s) still running after the decoded stream was closed (%d bytes read, err=%v), e.g. in %s", n, r.n, r.err, info)
		}
	}
	return true, r.n > 0 || consume == "none", "", fmt.Sprintf("read=%d err=%v", r.n, r.err)
}

// ---- a failing layer ABOVE a DCT layer ----
//
// /Filter [/DCTDecode /X] with X in {ASCIIHexDecode, LZWDecode, FlateDecode}: the JPEG is valid and
// large (256 x 256 gray, 64 KiB of pixels, far more than the pipe and the buffers hold), the pixels
// are what X reads — and they are not valid X data: X fails in the middle of the stream.  The readers
// of these three filters report their latched error again from Close.  Life cycle: read until the
// error, Close (its error is of no interest), settle: the goroutine of dct.Decode, parked in a pipe
// write with most of its output pending, must be gone — DecodeStream's reader has to close EVERY
// layer, whatever the top layer's Close returns.  Directly through DecodeStream and through the page
// (page.Decode, the image XObject of the resources, Pixels()), in the three error-handling modes.
// Descriptor "chain <AHx|LZW|Fl> <mode 0..2> <direct|page> 0".

var c05gChainCache = map[string][]byte{}

// c05gChainJPEG: the JPEG whose pixels the upper layer reads.  AHx: the upper half is 'A' (0x41),
// exactly (uniform 8x8 blocks at quality 100), the lower half 'Z': 16 KiB of output, then the error.
// LZW, Fl: noise; the first of 64 seeds for which the upper layer delivers output before it fails
// (else the first for which it fails at all).
func c05gChainJPEG(top string) []byte {
	if b, ok := c05gChainCache[top]; ok {
		return b
	}
	enc := func(fill func(pix []byte)) []byte {
		g := image.NewGray(image.Rect(0, 0, 256, 256))
		fill(g.Pix)
		var buf bytes.Buffer
		if jpeg.Encode(&buf, g, &jpeg.Options{Quality: 100}) != nil {
			return nil
		}
		return buf.Bytes()
	}
	var best []byte
	if top == "AHx" {
		best = enc(func(pix []byte) {
			for i := range pix {
				pix[i] = 'A'
				if i >= len(pix)/2 {
					pix[i] = 'Z'
				}
			}
		})
	} else {
		var f pdf.Filter = pdf.FilterLZW{}
		if top == "Fl" {
			f = pdf.FilterFlate{}
		}
		for seed := uint32(1); seed <= 64; seed++ {
			j := enc(func(pix []byte) {
				x := seed
				for i := range pix {
					x = x*1664525 + 1013904223
					pix[i] = byte(x >> 24)
				}
				if top == "Fl" { // a zlib header and a stored block of 4096 pixels, as far as JPEG keeps them
					copy(pix, []byte{0x78, 0x01, 0x00, 0x00, 0x10, 0xFF, 0xEF})
				}
			})
			budget := membudget.New(64 << 20)
			px, err := pdf.FilterDCT{}.Decode(pdf.V2_0, bytes.NewReader(j), budget)
			if err != nil {
				continue
			}
			pixels, _ := io.ReadAll(px)
			px.Close()
			rd, err := f.Decode(pdf.V2_0, bytes.NewReader(pixels), budget)
			if err != nil {
				continue // a failing construction is another family (filtersB: cfail)
			}
			n, err := io.Copy(io.Discard, rd)
			rd.Close()
			if err == nil {
				continue
			}
			if best == nil {
				best = j
			}
			if n > 0 {
				best = j
				break
			}
		}
	}
	c05gChainCache[top] = best
	return best
}

func c05gChainDoc(top string) []byte {
	j := c05gChainJPEG(top)
	if j == nil {
		return nil
	}
	name := map[string]string{"AHx": "ASCIIHexDecode", "LZW": "LZWDecode", "Fl": "FlateDecode"}[top]
	content := "q 100 0 0 100 0 0 cm /Im0 Do Q"
	return c05eFile([]string{"<< /Type /Catalog /Pages 2 0 R >>", "<< /Type /Pages /Kids [3 0 R] /Count 1 >>",
		"<< /Type /Page /Parent 2 0 R /MediaBox [0 0 100 100] /Contents 5 0 R /Resources << /XObject << /Im0 4 0 R >> >> >>",
		fmt.Sprintf("<< /Type /XObject /Subtype /Image /Width 256 /Height 128 /ColorSpace /DeviceGray /BitsPerComponent 8 /Filter [/DCTDecode /%s] /Length %d >>\nstream\n%s\nendstream", name, len(j), j),
		fmt.Sprintf("<< /Length %d >>\nstream\n%s\nendstream", len(content), content)})
}

func c05gChain(top string, mode int, via string) (ok bool, nontrivial bool, key, desc string) {
	data := c05gChainDoc(top)
	if data == nil {
		return true, false, "", "no image for this chain"
	}
	before := runtime.NumGoroutine()
	type res struct {
		n    int
		err  error
		cerr error
		pan  any
	}
	done := make(chan res, 1)
	go func() {
		var r res
		defer func() {
			r.pan = recover()
			done <- r
		}()
		rdr, err := pdf.NewReader(bytes.NewReader(data), int64(len(data)), &pdf.ReaderOptions{ErrorHandling: c05ModeValue(mode)})
		if err != nil {
			r.err = err
			return
		}
		defer rdr.Close()
		if via == "direct" {
			obj, err := rdr.Get(pdf.NewReference(4, 0), true)
			stm, _ := obj.(*pdf.Stream)
			if err != nil || stm == nil {
				r.err = fmt.Errorf("no stream: %v", err)
				return
			}
			rd, err := pdf.DecodeStream(rdr, nil, stm)
			if err != nil {
				r.err = err
				return
			}
			buf := make([]byte, 512)
			for r.err == nil {
				var k int
				k, r.err = rd.Read(buf)
				r.n += k
			}
			r.cerr = rd.Close()
			return
		}
		x := pdf.NewExtractor(rdr)
		for _, dict := range pagetree.NewIterator(rdr).All() {
			pg, err := pdf.Decode(pdf.CursorAt(x, nil), dict, page.Decode)
			if err != nil || pg == nil || pg.Resources == nil {
				r.err = fmt.Errorf("no page: %v", err)
				continue
			}
			for _, xo := range pg.Resources.XObject {
				if img, isImg := xo.(*pdfimage.Dict); isImg && img.Data != nil {
					px, err := img.Data.Pixels()
					r.n, r.err = len(px), err
				}
			}
		}
	}()
	var r res
	select {
	case r = <-done:
	case <-time.After(c05gWatchdog):
		return false, true, "C05-hang", fmt.Sprintf("reading/closing the chain did not return within %v", c05gWatchdog)
	}
	if r.pan != nil {
		return false, true, "C05-panic-filter-chain", fmt.Sprintf("panic: %v", r.pan)
	}
	failed := r.err != nil && r.err != io.EOF
	left := c05gSettle(before)
	if left > 0 {
		if n, info := c05LibGoroutines(); n > 0 {
			return false, failed, "C05-goroutine-leak-dct-below-failing-layer",
				fmt.Sprintf("%d goroutine(s) still running after the decoded stream was closed (%d bytes read, err=%v, Close=%v), e.g. in %s", n, r.n, r.err, r.cerr, info)
		}
	}
	// non-trivial: the upper layer did fail at read time (after construction)
	return true, failed, "", fmt.Sprintf("read=%d err=%v close=%v", r.n, r.err, r.cerr)
}

// ---- run and replay ----

func c05gRunCase(desc string) (ok bool, nontrivial bool, key, detail string) {
	f := strings.Fields(desc)
	if len(f) != 5 {
		return true, false, "", "bad descriptor"
	}
	trail, _ := strconv.Atoi(f[2])
	switch f[0] {
	case "t1":
		chunk, _ := strconv.Atoi(f[4])
		return c05gType1(f[1], trail, f[3], chunk)
	case "dct":
		return c05gDCT(f[1], trail, f[3], f[4])
	case "chain":
		return c05gChain(f[1], trail, f[3])
	}
	return true, false, "", "bad descriptor"
}

func robC05gRun(c *Ctx) {
	trails := []int{0, 1, 7, 512, 4096, 65536}
	var descs []string
	for _, form := range c05gT1Forms {
		for _, trail := range trails {
			fills := []string{"zero"}
			if trail > 0 {
				fills = []string{"zero", "junk", "text"}
			}
			if trail >= 4096 && !c.Thorough {
				fills = []string{"zero", "junk"}
			}
			for _, fill := range fills {
				for _, chunk := range []int{0, -1, 1024} {
					if trail == 0 && chunk == -1 {
						continue
					}
					descs = append(descs, fmt.Sprintf("t1 %s %d %s %d", form, trail, fill, chunk))
				}
			}
		}
	}
	for _, kind := range []string{"gray32", "rgb64", "rgb400"} {
		for _, trail := range []int{0, 1, 512, 65536} {
			fills := []string{"zero"}
			if trail > 0 {
				fills = []string{"zero", "junk", "jpeg"}
			}
			for _, fill := range fills {
				for _, consume := range []string{"all", "half", "one", "none"} {
					descs = append(descs, fmt.Sprintf("dct %s %d %s %s", kind, trail, fill, consume))
				}
			}
		}
	}
	for _, top := range []string{"AHx", "LZW", "Fl"} {
		for mode := 0; mode < 3; mode++ {
			for _, via := range []string{"direct", "page"} {
				descs = append(descs, fmt.Sprintf("chain %s %d %s 0", top, mode, via))
			}
		}
	}
	leaks := map[string]int{}
	for _, d := range descs {
		fam := strings.Fields(d)[0]
		if leaks[fam] >= 4 { // every further case of the family would only repeat the finding
			continue
		}
		ok, nontrivial, key, detail := c05gRunCase(d)
		c.Case("c05g "+d, nontrivial)
		c.Stat("c05g_" + strings.Fields(d)[0])
		if nontrivial {
			c.Stat("c05g_" + strings.Fields(d)[0] + "_success_path")
		}
		if !ok {
			c.Violate("c05g", key, detail+" in case "+d, d)
			leaks[fam]++
		}
	}
}

func replayC05g(input string) (bool, string) {
	ok, _, key, detail := c05gRunCase(strings.TrimSpace(input))
	if ok {
		return true, input + ": " + detail
	}
	return false, input + ": " + key + ": " + detail
}

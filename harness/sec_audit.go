package main

import (
	"bytes"
	"encoding/hex"
	"fmt"
	"strings"

	"seehuhn.de/go/pdf"
)

// Directed cases which an independent audit of C09 found missing from the
// generators: strings at the reader's length limit under AES, a file ID that
// changes between NewWriter and Close, and /Crypt filters named in the stream
// dictionary (alone or together with a filters argument).

func init() {
	addRun("C09", "directed: (1) a string within 16 bytes of the 16 MiB string limit written under AES must read back; (2) the /ID given to NewWriter is re-used, replaced, cleared or modified before Close: if Close succeeds both passwords must open the file; (3) every combination of a filter chain in the stream dictionary (none, ASCIIHex, /Crypt Identity, /Crypt StdCF, Crypt not first) with a filters argument (none, Crypt Identity, ASCIIHex, both) at PDF 1.5/1.7/2.0: if OpenStream accepts it, the stream must read back with the password", func(c *Ctx) { runSecAudit(c, "C09") })
	addRun("C10", "directed: /Crypt filters in the stream dictionary combined with a filters argument: if OpenStream accepts the combination, the stream body may be visible in the file only when the written chain starts with /Crypt /Identity", func(c *Ctx) { runSecAudit(c, "C10") })
	addReplay("C09", "audit", replaySecAudit)
	addReplay("C10", "audit", replaySecAudit)
}

// auditClassicalXRef makes auditWriter write a classical xref table and trailer
// (which trailerEncrypt can find without the library's xref reader).
var auditClassicalXRef bool

func auditWriter(version pdf.Version, ids [][]byte) (*pdf.Writer, *memWriter, pdf.Reference, error) {
	out := &memWriter{}
	w, err := pdf.NewWriter(out, version, &pdf.WriterOptions{UserPassword: "user", OwnerPassword: "owner", UserPermissions: pdf.PermCopy, ID: ids, HumanReadable: auditClassicalXRef})
	if err != nil {
		return nil, nil, 0, err
	}
	pages := w.Alloc()
	w.GetMeta().Catalog.Pages = pages
	if err := w.Put(pages, pdf.Dict{"Type": pdf.Name("Pages"), "Kids": pdf.Array{}, "Count": pdf.Integer(0)}); err != nil {
		return nil, nil, 0, err
	}
	return w, out, w.Alloc(), nil
}

func auditOpen(data []byte, pw string) (*pdf.Reader, error) {
	return pdf.NewReader(bytes.NewReader(data), int64(len(data)), &pdf.ReaderOptions{Password: pw, ErrorHandling: pdf.ErrorHandlingStop})
}

// ---- (1) long strings ----

func auditLongString(version pdf.Version, n int) (key, desc string) {
	defer func() {
		if p := recover(); p != nil {
			key, desc = "C09-long-string-aes-unreadable", fmt.Sprintf("panic: %v", p)
		}
	}()
	w, out, ref, err := auditWriter(version, nil)
	if err != nil {
		return "", "NewWriter: " + err.Error()
	}
	s := bytes.Repeat([]byte("0123456789abcdef"), n/16+1)[:n]
	if err := w.Put(ref, pdf.Dict{"S": pdf.String(s)}); err != nil {
		return "", "Put refused: " + err.Error()
	}
	if err := w.Close(); err != nil {
		return "", "Close refused: " + err.Error()
	}
	for _, pw := range []string{"user", "owner"} {
		rd, err := auditOpen(out.Bytes(), pw)
		if err != nil {
			return "C09-long-string-aes-unreadable", fmt.Sprintf("version %s, string of %d bytes: %s password rejected: %v", verName(version), n, pw, err)
		}
		obj, err := rd.Get(ref, true)
		dict, _ := obj.(pdf.Dict)
		got, _ := dict["S"].(pdf.String)
		rd.Close()
		if err != nil || !bytes.Equal(got, s) {
			return "C09-long-string-aes-unreadable", fmt.Sprintf("version %s: a string of %d bytes (limit %d) was written without error but does not read back with the %s password: %v (got %d bytes)", verName(version), n, 16<<20, pw, err, len(got))
		}
	}
	return "", "read back"
}

// ---- (2) the ID between NewWriter and Close ----

// auditIDLast is the file written by the last auditID call whose Close succeeded.
var auditIDLast []byte

// auditID returns the violation (if any), whether Close refused, and the
// closeid correspondence line.
func auditID(version pdf.Version, variant string) (key, desc string, refused bool, op, impl string) {
	ids := [][]byte{[]byte("0123456789abcdef"), []byte("fedcba9876543210")}
	switch {
	case strings.HasPrefix(variant, "generated"):
		ids = nil // the Writer draws the ID itself (both elements may share one slice)
	case strings.HasPrefix(variant, "one-given"):
		ids = ids[:1]
	}
	w, out, ref, err := auditWriter(version, ids)
	if err != nil {
		return "", "NewWriter: " + err.Error(), true, "", ""
	}
	secID := bytes.Clone(pdf.VerifWriterEnc(w).Sec().ID)
	obj := pdf.Dict{"S": pdf.String("NEEDLE-ID-" + variant)}
	if err := w.Put(ref, obj); err != nil {
		return "", "Put: " + err.Error(), true, "", ""
	}
	switch variant {
	case "reuse-callers-slices": // the caller re-uses the buffers it passed in WriterOptions.ID
		copy(ids[0], "XXXXXXXXXXXXXXXX")
		copy(ids[1], "YYYYYYYYYYYYYYYY")
	case "replace":
		w.GetMeta().ID = [][]byte{[]byte("another-id-01234"), []byte("another-id-56789")}
	case "clear":
		w.GetMeta().ID = nil
	case "modify-in-place":
		w.GetMeta().ID[0][0] ^= 0x55
	case "second-only":
		w.GetMeta().ID = [][]byte{bytes.Clone(w.GetMeta().ID[0]), []byte("a-new-second-id!")}
	case "edit-byte-0", "generated-edit-byte-0", "one-given-edit-byte-0":
		// an in-place edit of the bytes MetaInfo hands out: Close must notice (the handler keeps
		// its own copy of ID[0]) or the file must still open
		w.GetMeta().ID[0][3] ^= 0xff
	case "edit-byte-1", "generated-edit-byte-1", "one-given-edit-byte-1":
		w.GetMeta().ID[1][3] ^= 0xff
	}
	atClose := "nil"
	if cur := w.GetMeta().ID; cur != nil {
		atClose = hexList(cur)
	}
	op = fmt.Sprintf("SEC closeid %s %s", hexWire(secID), atClose)
	if err := w.Close(); err != nil {
		return "", "Close refused: " + err.Error(), true, op, "err " + errClass(err)
	}
	impl = "ok"
	auditIDLast = out.Bytes()
	for _, pw := range []string{"user", "owner"} {
		rd, err := auditOpen(out.Bytes(), pw)
		if err != nil {
			return "C09-id-changed-after-newwriter", fmt.Sprintf("version %s, /ID %s before Close: Close succeeds but the %s password does not open the file: %v", verName(version), variant, pw, err), false, op, impl
		}
		got, err := rd.Get(ref, true)
		rd.Close()
		if err != nil || wireNorm(got) != wireNorm(obj) {
			return "C09-id-changed-after-newwriter", fmt.Sprintf("version %s, /ID %s before Close: content not recovered with the %s password (%v)", verName(version), variant, pw, err), false, op, impl
		}
	}
	return "", "opens", false, op, impl
}

var auditIDVariants = []string{"unchanged", "reuse-callers-slices", "replace", "clear", "modify-in-place", "second-only",
	"edit-byte-0", "edit-byte-1", "generated", "generated-edit-byte-0", "generated-edit-byte-1",
	"one-given-edit-byte-0", "one-given-edit-byte-1"}

// ---- (3) filter chains with /Crypt ----

// chainDict builds /Filter and /DecodeParms for a chain given as letters:
// I = /Crypt (Identity), S = /Crypt /Name /StdCF, N = /Crypt /Name /Other, F = /ASCIIHexDecode.
func chainDict(chain string) pdf.Dict {
	d := pdf.Dict{}
	if chain == "-" {
		return d
	}
	var names pdf.Array
	var parms pdf.Array
	hasParms := false
	for _, c := range chain {
		switch c {
		case 'I':
			names = append(names, pdf.Name("Crypt"))
			parms = append(parms, nil)
		case 'S':
			names = append(names, pdf.Name("Crypt"))
			parms = append(parms, pdf.Dict{"Name": pdf.Name("StdCF")})
			hasParms = true
		case 'F':
			names = append(names, pdf.Name("ASCIIHexDecode"))
			parms = append(parms, nil)
		}
	}
	if len(names) == 1 {
		d["Filter"] = names[0]
		if hasParms {
			d["DecodeParms"] = parms[0]
		}
	} else {
		d["Filter"] = names
		if hasParms {
			d["DecodeParms"] = parms
		}
	}
	return d
}

func chainArgs(chain string) []pdf.Filter {
	var fs []pdf.Filter
	if chain == "-" {
		return nil
	}
	for _, c := range chain {
		switch c {
		case 'I':
			fs = append(fs, pdf.FilterCryptIdentity{})
		case 'F':
			fs = append(fs, pdf.FilterASCIIHex{})
		}
	}
	return fs
}

var auditChains = [][2]string{
	{"-", "-"}, {"-", "I"}, {"-", "F"}, {"-", "IF"},
	{"F", "-"}, {"F", "I"},
	{"I", "-"}, {"IF", "-"}, {"I", "I"},
	{"S", "-"}, {"SF", "-"}, {"FI", "-"}, {"FS", "-"},
}

// auditChain writes one stream with the given dictionary chain and filters
// argument.  prop selects which property's oracle is evaluated.
func auditChain(prop string, version pdf.Version, dictChain, argChain string) (key, desc, op, impl string) {
	defer func() {
		if p := recover(); p != nil {
			key, desc = prop+"-crypt-chain-panic", fmt.Sprintf("panic: %v", p)
		}
	}()
	w, out, ref, err := auditWriter(version, nil)
	if err != nil {
		return "", "NewWriter: " + err.Error(), "", ""
	}
	// crypt filters exist if the encryption dictionary has /V 4 or 5
	encV, _ := w.GetMeta().Trailer["Encrypt"].(pdf.Dict)["V"].(pdf.Integer)
	op = fmt.Sprintf("SEC chain %s %s %d", dictChain, argChain, secB2i(encV >= 4))
	needle := []byte("NEEDLE-CHAIN-" + dictChain + "-" + argChain + "-0123456789")
	data := needle
	if strings.Contains(dictChain, "F") {
		data = []byte(hex.EncodeToString(needle) + ">") // the dictionary says the data are encoded already
	}
	dict := chainDict(dictChain)
	dict["Tag"] = pdf.Integer(1)
	sw, err := w.OpenStream(ref, dict, chainArgs(argChain)...)
	if err != nil {
		return "", "OpenStream refused: " + err.Error(), op, "err " + errClass(err)
	}
	if _, err := sw.Write(data); err != nil {
		return "", "Write: " + err.Error(), op, "err " + errClass(err)
	}
	if err := sw.Close(); err != nil {
		return "", "stream Close: " + err.Error(), op, "err " + errClass(err)
	}
	if err := w.Close(); err != nil {
		return "", "Close: " + err.Error(), op, "err " + errClass(err)
	}
	file := out.Bytes()
	merged := strings.ReplaceAll(dictChain+argChain, "-", "")
	visible := bytes.Contains(file, needle) || bytes.Contains(file, []byte(hex.EncodeToString(needle)))
	m := merged
	if m == "" {
		m = "-"
	}
	impl = fmt.Sprintf("ok %s skip=%d", m, secB2i(visible))
	cause := ""
	switch {
	case encV < 4 && strings.HasPrefix(merged, "I"):
		cause = "crypt-filter-without-crypt-filters"
	case len(merged) > 1 && strings.ContainsAny(merged[1:], "IS"):
		cause = "crypt-filter-not-first"
	case strings.HasPrefix(merged, "S"):
		cause = "crypt-nonidentity-in-dict"
	}
	if prop == "C10" {
		if visible && (!strings.HasPrefix(merged, "I") || encV < 4) {
			k := "C10-stream-plaintext-visible"
			if cause != "" {
				k = "C10-" + cause + "-plaintext"
			}
			return k, fmt.Sprintf("version %s, stream dictionary chain %q + filters argument %q: accepted, and the stream body is stored in the clear although the written chain %q does not start with /Crypt /Identity in a file with crypt filters (/V %d)", verName(version), dictChain, argChain, merged, encV), op, impl
		}
		return "", "no leak", op, impl
	}
	for _, pw := range []string{"user", "owner"} {
		rd, err := auditOpen(file, pw)
		if err != nil {
			return "C09-correct-password-rejected", fmt.Sprintf("chain %q+%q: %v", dictChain, argChain, err), op, impl
		}
		var body []byte
		obj, err := rd.Get(ref, true)
		if stm, ok := obj.(*pdf.Stream); ok && err == nil {
			body, err = pdf.ReadAll(rd, nil, stm, 1<<20)
		} else if err == nil {
			err = fmt.Errorf("%T instead of a stream", obj)
		}
		rd.Close()
		if err != nil || !bytes.Equal(body, needle) {
			k := "C09-content-not-recovered"
			if cause != "" {
				k = "C09-" + cause
			}
			return k, fmt.Sprintf("version %s, stream dictionary chain %q + filters argument %q: OpenStream accepts it and writes the chain %q, but the stream does not read back with the %s password: %v", verName(version), dictChain, argChain, merged, pw, err), op, impl
		}
	}
	return "", "reads back", op, impl
}

func runSecAudit(c *Ctx, prop string) {
	versions := []pdf.Version{pdf.V1_4, pdf.V1_5, pdf.V1_7, pdf.V2_0}
	for _, v := range versions {
		for _, ch := range auditChains {
			key, desc, op, impl := auditChain(prop, v, ch[0], ch[1])
			c.Case(fmt.Sprintf("chain %s %s %s", verName(v), ch[0], ch[1]), true)
			if op != "" && impl != "" {
				c.Emit(op, impl)
			}
			if strings.HasPrefix(impl, "err") {
				c.Stat("audit-chain-refused")
			} else {
				c.Stat("audit-chain-accepted")
			}
			if key != "" {
				c.Violate("audit", key, desc, fmt.Sprintf("chain %s %d %s %s", prop, int(v), ch[0], ch[1]))
			}
		}
	}
	for _, v := range []pdf.Version{pdf.V1_4, pdf.V1_7, pdf.V2_0} {
		for _, mode := range []string{"seekable,set-after", "seekable,set-before", "plain,set-before", "plain,set-after"} {
			key, desc := auditPlaceholder(prop, v, mode)
			c.Case(fmt.Sprintf("placeholder %s %s", verName(v), mode), true)
			c.Stat("audit-placeholder")
			if key != "" {
				c.Violate("audit", key, desc, fmt.Sprintf("placeholder %s %d %s", prop, int(v), mode))
			}
		}
		for _, variant := range []string{"unchanged", "replace-trailer", "delete-encrypt", "edit-P", "plain-writer-with-encrypt"} {
			key, desc, refused := auditTrailer(prop, v, variant)
			c.Case(fmt.Sprintf("trailer %s %s", verName(v), variant), true)
			if refused {
				c.Stat("audit-trailer-close-refused")
			} else {
				c.Stat("audit-trailer-written")
			}
			if key != "" {
				c.Violate("audit", key, desc, fmt.Sprintf("trailer %s %d %s", prop, int(v), variant))
			}
		}
	}
	for vi, v := range []pdf.Version{pdf.V1_3, pdf.V1_4, pdf.V1_7, pdf.V2_0} {
		for ki, kind := range []string{"string", "array", "dict"} {
			for mi, mode := range []string{"seekable", "set-after-first", "plain"} {
				n := 2 + (vi+ki+mi)%4
				key, desc := auditPlaceholderMulti(prop, v, kind, n, mode)
				c.Case(fmt.Sprintf("placeholder-multi %s %s %d %s", verName(v), kind, n, mode), true)
				c.Stat("audit-placeholder-multi")
				if key != "" {
					c.Violate("audit", key, desc, fmt.Sprintf("phmulti %s %d %s %d %s", prop, int(v), kind, n, mode))
				}
			}
		}
	}
	if prop == "C10" {
		auditPlaceholderSpec(c)
		auditIDSpec(c)
	}
	if prop != "C09" {
		return
	}
	for _, v := range []pdf.Version{pdf.V1_3, pdf.V1_4, pdf.V1_7, pdf.V2_0} {
		for _, variant := range auditIDVariants {
			key, desc, refused, op, impl := auditID(v, variant)
			c.Case(fmt.Sprintf("id %s %s", verName(v), variant), true)
			if op != "" && impl != "" {
				c.Emit(op, impl)
			}
			if refused {
				c.Stat("audit-id-close-refused")
			} else {
				c.Stat("audit-id-written")
			}
			if key != "" {
				c.Violate("audit", key, desc, fmt.Sprintf("id %d %s", int(v), variant))
			}
		}
	}
	type ls struct {
		v pdf.Version
		n int
	}
	cases := []ls{{pdf.V1_7, 16<<20 - 16}}
	if c.Thorough {
		cases = nil
		for _, v := range []pdf.Version{pdf.V1_5, pdf.V1_6, pdf.V2_0} {
			for _, n := range []int{16<<20 - 33, 16<<20 - 17, 16<<20 - 16, 16<<20 - 15, 16<<20 - 1, 16 << 20} {
				cases = append(cases, ls{v, n})
			}
		}
	}
	for _, l := range cases {
		key, desc := auditLongString(l.v, l.n)
		c.Case(fmt.Sprintf("long %s %d", verName(l.v), l.n), true)
		c.Stat("audit-long-string")
		if key != "" {
			c.Violate("audit", key, desc, fmt.Sprintf("long %d %d", int(l.v), l.n))
		}
	}
}

// ---- strings delivered through a Placeholder ----

func auditPlaceholder(prop string, version pdf.Version, mode string) (key, desc string) {
	defer func() {
		if p := recover(); p != nil {
			key, desc = prop+"-placeholder-panic", fmt.Sprintf("panic: %v", p)
		}
	}()
	seekable := strings.HasPrefix(mode, "seekable")
	setBefore := strings.HasSuffix(mode, "set-before")
	var out secOutput = &memWriter{}
	if seekable {
		out = &memSeekWriter{}
	}
	w, err := pdf.NewWriter(out, version, &pdf.WriterOptions{UserPassword: "user", OwnerPassword: "owner", HumanReadable: true})
	if err != nil {
		return "", "NewWriter: " + err.Error()
	}
	pages := w.Alloc()
	w.GetMeta().Catalog.Pages = pages
	if err := w.Put(pages, pdf.Dict{"Type": pdf.Name("Pages"), "Kids": pdf.Array{}, "Count": pdf.Integer(0)}); err != nil {
		return "", err.Error()
	}
	secret := []byte("NEEDLE-PLACEHOLDER-" + mode)
	ph := pdf.NewPlaceholder(w, 120)
	ref := w.Alloc()
	if setBefore {
		if err := ph.Set(pdf.String(secret)); err != nil {
			return "", "Set refused: " + err.Error()
		}
	}
	if err := w.Put(ref, pdf.Dict{"Title": ph, "Other": pdf.String("NEEDLE-OTHER-STRING")}); err != nil {
		return "", "Put refused: " + err.Error()
	}
	if !setBefore {
		if err := ph.Set(pdf.String(secret)); err != nil {
			return "", "Set refused: " + err.Error()
		}
	}
	if err := w.Close(); err != nil {
		return "", "Close refused: " + err.Error()
	}
	data := out.Bytes()
	if prop == "C10" {
		for _, nd := range [][]byte{secret, []byte("NEEDLE-OTHER-STRING")} {
			if bytes.Contains(data, nd) || bytes.Contains(bytes.ToLower(data), []byte(hex.EncodeToString(nd))) {
				return "C10-placeholder-string-plaintext", fmt.Sprintf("version %s, %s: the string %q delivered through Placeholder.Set is visible in the encrypted file", verName(version), mode, nd)
			}
		}
		return "", "not visible"
	}
	for _, pw := range []string{"user", "owner"} {
		rd, err := auditOpen(data, pw)
		if err != nil {
			return "C09-correct-password-rejected", fmt.Sprintf("placeholder %s: %v", mode, err)
		}
		obj, err := pdf.Resolve(rd, ref)
		dict, _ := obj.(pdf.Dict)
		got, err2 := pdf.Resolve(rd, dict["Title"])
		rd.Close()
		gs, _ := got.(pdf.String)
		if err != nil || err2 != nil || !bytes.Equal(gs, secret) {
			return "C09-placeholder-string-not-recovered", fmt.Sprintf("version %s, %s: a string set through a Placeholder does not read back with the %s password: %v %v, got %q", verName(version), mode, pw, err, err2, gs)
		}
	}
	return "", "reads back"
}

// auditPlaceholderMulti formats one Placeholder into n different indirect
// objects (and twice into the first one) before its value is set; the value
// is a string, or an array or dictionary holding one.  Each blank must get
// the ciphertext made with the key of the object it sits in.
func auditPlaceholderMulti(prop string, version pdf.Version, kind string, n int, mode string) (key, desc string) {
	defer func() {
		if p := recover(); p != nil {
			key, desc = prop+"-placeholder-panic", fmt.Sprintf("panic: %v", p)
		}
	}()
	var out secOutput = &memSeekWriter{}
	if mode == "plain" {
		out = &memWriter{}
	}
	w, err := pdf.NewWriter(out, version, &pdf.WriterOptions{UserPassword: "user", OwnerPassword: "owner", HumanReadable: version < pdf.V1_5 || n%2 == 0})
	if err != nil {
		return "", "NewWriter: " + err.Error()
	}
	pages := w.Alloc()
	w.GetMeta().Catalog.Pages = pages
	if err := w.Put(pages, pdf.Dict{"Type": pdf.Name("Pages"), "Kids": pdf.Array{}, "Count": pdf.Integer(0)}); err != nil {
		return "", err.Error()
	}
	secret := pdf.String("NEEDLE-MULTI-" + kind + "-" + mode)
	var val pdf.Native = secret
	switch kind {
	case "array":
		val = pdf.Array{pdf.Integer(7), secret}
	case "dict":
		val = pdf.Dict{"V": secret}
	}
	wenc := pdf.VerifWriterEnc(w)
	fileKey := bytes.Clone(wenc.Sec().Key)
	encV, _ := w.GetMeta().Trailer["Encrypt"].(pdf.Dict)["V"].(pdf.Integer)
	method := methodOfCF(wenc.StrF(), int(encV))
	ph := pdf.NewPlaceholder(w, 160)
	refs := make([]pdf.Reference, n)
	for i := range refs {
		refs[i] = w.Alloc()
		if i%2 == 1 {
			refs[i] = pdf.NewReference(refs[i].Number(), uint16(i)) // different generations too
		}
		obj := pdf.Dict{"T": ph, "I": pdf.Integer(i)}
		if i == 0 {
			obj["T2"] = ph // twice in the same object
		}
		if err := w.Put(refs[i], obj); err != nil {
			return "", "Put refused: " + err.Error()
		}
		if mode == "set-after-first" && i == 0 {
			if err := ph.Set(val); err != nil {
				return "", "Set refused: " + err.Error()
			}
		}
	}
	if mode != "set-after-first" {
		if err := ph.Set(val); err != nil {
			return "", "Set refused: " + err.Error()
		}
	}
	if err := w.Close(); err != nil {
		return "", "Close refused: " + err.Error()
	}
	data := out.Bytes()
	if prop == "C10" {
		if bytes.Contains(data, secret) || bytes.Contains(bytes.ToLower(data), []byte(hex.EncodeToString(secret))) {
			return "C10-placeholder-string-plaintext", fmt.Sprintf("version %s, %s placeholder in %d objects (%s): the string is visible in the encrypted file", verName(version), kind, n, mode)
		}
		// every blank must hold the ciphertext under the key of the object it sits in: the
		// stored strings are handed to the Spec (batch in auditPlaceholderSpec)
		raw, err := auditOpen(data, "user")
		if err != nil {
			return "C10-placeholder-string-undecryptable", fmt.Sprintf("placeholder multi: %v", err)
		}
		defer raw.Close()
		pdf.VerifReaderEnc(raw).DropFilters()
		for _, ref := range refs {
			obj, err := pdf.Resolve(raw, ref)
			if err != nil {
				continue
			}
			dict, _ := obj.(pdf.Dict)
			for _, k := range []pdf.Name{"T", "T2"} {
				v := dict[k]
				target := ref
				if r2, isRef := v.(pdf.Reference); isRef { // value written as an object of its own
					target = r2
					v, _ = pdf.Resolve(raw, r2)
				}
				var strs [][]byte
				allStrings(v, &strs)
				for _, st := range strs {
					auditPhQueries = append(auditPhQueries, auditPhQuery{
						op:     fmt.Sprintf("SEC spec.dec %s %s %d %d %s", method, hexWire(fileKey), target.Number(), target.Generation(), hexWire(st)),
						want:   "ok " + hexWire(secret),
						desc:   fmt.Sprintf("version %s: Placeholder holding a %s, formatted into %d objects (%s): the string stored in object %v entry /%s", verName(version), kind, n, mode, ref, k),
						replay: fmt.Sprintf("phmulti %s %d %s %d %s", prop, int(version), kind, n, mode),
					})
				}
			}
		}
		return "", "not visible"
	}
	for _, pw := range []string{"user", "owner"} {
		rd, err := auditOpen(data, pw)
		if err != nil {
			return "C09-correct-password-rejected", fmt.Sprintf("placeholder multi: %v", err)
		}
		for i, ref := range refs {
			obj, err := pdf.Resolve(rd, ref)
			dict, _ := obj.(pdf.Dict)
			keys := []pdf.Name{"T"}
			if i == 0 {
				keys = append(keys, "T2")
			}
			for _, k := range keys {
				got, err2 := pdf.Resolve(rd, dict[k])
				if err != nil || err2 != nil || wireNorm(got) != wireNorm(val) {
					rd.Close()
					return "C09-placeholder-string-not-recovered", fmt.Sprintf("version %s: a Placeholder holding a %s with a string was formatted into %d objects (%s) before Set; object %v entry /%s reads back (%s password) as %s, want %s (%v %v)", verName(version), kind, n, mode, ref, k, pw, wireNorm(got), wireNorm(val), err, err2)
				}
			}
		}
		rd.Close()
	}
	return "", "reads back"
}

type auditPhQuery struct{ op, want, desc, replay string }

var auditPhQueries []auditPhQuery

// auditPlaceholderSpec lets the Lean Spec decrypt every string a Placeholder
// left in the files of auditPlaceholderMulti, each under its own object's key.
func auditPlaceholderSpec(c *Ctx) {
	qs := auditPhQueries
	auditPhQueries = nil
	if len(qs) == 0 {
		return
	}
	ops := make([]string, len(qs))
	for i := range qs {
		ops[i] = qs[i].op
	}
	ans, err := askDriver(ops)
	if err != nil {
		panic("C10 needs the compiled Lean driver: " + err.Error())
	}
	for i, a := range ans {
		if a == qs[i].want {
			c.Emit(qs[i].op, a)
			continue
		}
		c.Violate("audit", "C10-placeholder-string-wrong-key", fmt.Sprintf("%s does not decrypt under that object's key: the Spec answers %q, written was %q", qs[i].desc, a, qs[i].want), qs[i].replay)
	}
}

// ---- the /Encrypt entry of the trailer between NewWriter and Close ----

func auditTrailer(prop string, version pdf.Version, variant string) (key, desc string, refused bool) {
	defer func() {
		if p := recover(); p != nil {
			key, desc = prop+"-trailer-panic", fmt.Sprintf("panic: %v", p)
		}
	}()
	w, out, ref, err := auditWriter(version, nil)
	if err != nil {
		return "", "NewWriter: " + err.Error(), true
	}
	secret := []byte("NEEDLE-TRAILER-" + variant)
	obj := pdf.Dict{"S": pdf.String(secret)}
	password := true
	switch variant {
	case "replace-trailer": // e.g. to add private entries
		w.GetMeta().Trailer = pdf.Dict{"Private": pdf.Integer(1)}
	case "delete-encrypt":
		delete(w.GetMeta().Trailer, "Encrypt")
	case "edit-P":
		if ed, ok := w.GetMeta().Trailer["Encrypt"].(pdf.Dict); ok {
			ed["P"] = pdf.Integer(-1)
		}
	case "plain-writer-with-encrypt":
		// the trailer entries of an encrypted source carried over to a writer without password
		encDict := w.GetMeta().Trailer["Encrypt"]
		out = &memWriter{}
		w, err = pdf.NewWriter(out, version, &pdf.WriterOptions{ID: [][]byte{[]byte("0123456789abcdef"), []byte("0123456789abcdef")}})
		if err != nil {
			return "", "NewWriter: " + err.Error(), true
		}
		pages := w.Alloc()
		w.GetMeta().Catalog.Pages = pages
		if err := w.Put(pages, pdf.Dict{"Type": pdf.Name("Pages"), "Kids": pdf.Array{}, "Count": pdf.Integer(0)}); err != nil {
			return "", err.Error(), true
		}
		ref = w.Alloc()
		w.GetMeta().Trailer["Encrypt"] = encDict
		password = false
	}
	if err := w.Put(ref, obj); err != nil {
		return "", "Put: " + err.Error(), true
	}
	if err := w.Close(); err != nil {
		return "", "Close refused: " + err.Error(), true
	}
	data := out.Bytes()
	if prop == "C10" {
		visible := bytes.Contains(data, secret)
		declares := bytes.Contains(data, []byte("/Encrypt"))
		switch {
		case password && !declares:
			return "C10-encrypt-entry-missing", fmt.Sprintf("version %s, %s: the file was written with passwords (strings and streams are encrypted) but its trailer has no /Encrypt entry", verName(version), variant), false
		case password && visible:
			return "C10-plaintext-visible", fmt.Sprintf("version %s, %s: plaintext visible", verName(version), variant), false
		case !password && declares:
			return "C10-encrypt-entry-in-unencrypted-file", fmt.Sprintf("version %s, %s: the file was written without password (everything in the clear) but its trailer declares /Encrypt", verName(version), variant), false
		}
		return "", "consistent", false
	}
	pws := []string{"user", "owner"}
	if !password {
		pws = []string{""}
	}
	for _, pw := range pws {
		rd, err := auditOpen(data, pw)
		if err != nil {
			return "C09-encrypt-entry-changed-after-newwriter", fmt.Sprintf("version %s, trailer %s before Close: Close succeeds but the file does not open (password %q): %v", verName(version), variant, pw, err), false
		}
		got, err := rd.Get(ref, true)
		rd.Close()
		if err != nil || wireNorm(got) != wireNorm(obj) {
			return "C09-encrypt-entry-changed-after-newwriter", fmt.Sprintf("version %s, trailer %s before Close: Close succeeds but the content is not returned as written (password %q): %v, got %s", verName(version), variant, pw, err, wireNorm(got)), false
		}
	}
	return "", "opens", false
}

// auditIDSpec (C10): for every ID variant whose Close succeeds, the Lean Spec
// must authenticate both passwords against the Encrypt dictionary and the /ID
// which are actually in the trailer of the written file.
func auditIDSpec(c *Ctx) {
	type q struct {
		op, variant, who string
		v                pdf.Version
	}
	var qs []q
	auditClassicalXRef = true
	defer func() { auditClassicalXRef = false }()
	for _, v := range []pdf.Version{pdf.V1_3, pdf.V1_4, pdf.V1_7} {
		for _, variant := range auditIDVariants {
			auditIDLast = nil
			_, _, refused, _, _ := auditID(v, variant)
			if refused || auditIDLast == nil {
				c.Stat("audit-id-close-refused")
				continue
			}
			c.Stat("audit-id-written")
			dict, id0, ok := trailerEncrypt(auditIDLast)
			if !ok {
				c.Violate("audit", "C10-id-changed-after-newwriter", fmt.Sprintf("version %s, /ID %s: the written file has no readable /Encrypt and /ID in its trailer", verName(v), variant), fmt.Sprintf("id %d %s", int(v), variant))
				continue
			}
			for _, who := range []string{"user", "owner"} {
				qs = append(qs, q{fmt.Sprintf("SEC spec.auth %s %s %s %s", wire(dict), hexWire(id0), pwPDFDoc(who), pwSASL(who)), variant, who, v})
			}
		}
	}
	ops := make([]string, len(qs))
	for i := range qs {
		ops[i] = qs[i].op
	}
	ans, err := askDriver(ops)
	if err != nil {
		panic("C10 needs the compiled Lean driver: " + err.Error())
	}
	for i, a := range ans {
		good := strings.Contains(a, qs[i].who+"=") && !strings.Contains(a, qs[i].who+"=!")
		if good {
			c.Emit(qs[i].op, a)
			continue
		}
		c.Violate("audit", "C10-id-changed-after-newwriter", fmt.Sprintf("version %s, /ID %s before Close: Close succeeds, but the Spec cannot authenticate the %s password against the /ID in the trailer (%s)", verName(qs[i].v), qs[i].variant, qs[i].who, a), fmt.Sprintf("id %d %s", int(qs[i].v), qs[i].variant))
	}
}

// trailerEncrypt finds /Encrypt and /ID[0] of a file with a classical or
// stream trailer by opening it without a password and looking at the error
// free parts: the Reader refuses, so the trailer is parsed here.
func trailerEncrypt(data []byte) (pdf.Dict, []byte, bool) {
	i := bytes.LastIndex(data, []byte("trailer"))
	if i < 0 {
		return nil, nil, false
	}
	s := pdf.NewVerifScanner(bytes.NewReader(data[i+len("trailer"):]), nil, nil)
	if err := s.SkipWhiteSpace(); err != nil {
		return nil, nil, false
	}
	d, err := s.ReadDict()
	if err != nil {
		return nil, nil, false
	}
	enc, ok1 := d["Encrypt"].(pdf.Dict)
	ids, ok2 := d["ID"].(pdf.Array)
	if !ok1 || !ok2 || len(ids) != 2 {
		return nil, nil, false
	}
	id0, ok := ids[0].(pdf.String)
	return enc, []byte(id0), ok
}

func replaySecAudit(input string) (bool, string) {
	f := strings.Fields(input)
	if len(f) == 0 {
		return true, "bad replay input"
	}
	var v, n int
	switch f[0] {
	case "chain":
		if len(f) != 5 {
			return true, "bad replay input"
		}
		fmt.Sscan(f[2], &v)
		key, desc, _, _ := auditChain(f[1], pdf.Version(v), f[3], f[4])
		return key == "", desc
	case "phmulti":
		if len(f) != 6 {
			return true, "bad replay input"
		}
		fmt.Sscan(f[2], &v)
		fmt.Sscan(f[4], &n)
		key, desc := auditPlaceholderMulti(f[1], pdf.Version(v), f[3], n, f[5])
		return key == "", desc
	case "placeholder":
		if len(f) != 4 {
			return true, "bad replay input"
		}
		fmt.Sscan(f[2], &v)
		key, desc := auditPlaceholder(f[1], pdf.Version(v), f[3])
		return key == "", desc
	case "trailer":
		if len(f) != 4 {
			return true, "bad replay input"
		}
		fmt.Sscan(f[2], &v)
		key, desc, _ := auditTrailer(f[1], pdf.Version(v), f[3])
		return key == "", desc
	case "id":
		if len(f) != 3 {
			return true, "bad replay input"
		}
		fmt.Sscan(f[1], &v)
		key, desc, _, _, _ := auditID(pdf.Version(v), f[2])
		return key == "", desc
	case "long":
		if len(f) != 3 {
			return true, "bad replay input"
		}
		fmt.Sscan(f[1], &v)
		fmt.Sscan(f[2], &n)
		key, desc := auditLongString(pdf.Version(v), n)
		return key == "", desc
	}
	return true, "bad replay input"
}

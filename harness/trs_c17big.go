package main

import (
	"bytes"
	"errors"
	"fmt"
	"strconv"
	"strings"
	"time"

	"seehuhn.de/go/pdf"
	"seehuhn.de/go/pdf/nametree"
)

// C17, the third power of the fan-out: with more than F^3 entries the writer has to merge
// F nodes of depth 1 into a node of depth 2 while entries are still arriving (mergeTail
// cascading over two levels) and collapse() has to finish a tail with three depths.  Trees of
// that size are too big for the line protocol with the Lean model (whose theorems hold for
// every size and depth); they are judged by the oracle alone.

func init() {
	addRun("C17", "number trees with F^3-1, F^3, F^3+1, F^3+F+2 entries (quick: F^3+1 through Write; thorough: all four sizes through Write and InMemory.Embed), small integer values, written under a watchdog of 10 s into a sink that refuses more than 64 MB: structure walk with /Limits and fan-out at every level, exact key sequence, streaming All() count and order, Size, in-memory extraction, lookups in the last leaf and at both ends of the last depth-1 and depth-2 nodes, absent keys in gaps, below and above. Non-trivial always; distinct by size and writer.", runC17Cube)
	addReplay("C17", "cube", replayC17Cube)
}

// trsCapWriter refuses to grow beyond max bytes, so that a writer that never stops ends with an error.
type trsCapWriter struct {
	buf bytes.Buffer
	max int
}

func (w *trsCapWriter) Write(p []byte) (int, error) {
	if w.buf.Len()+len(p) > w.max {
		return 0, errors.New("harness: output larger than any tree of this size can be")
	}
	return w.buf.Write(p)
}

func trsCubeKey(i int) pdf.Integer { return pdf.Integer(3*i - 1000) }

func trsRunCube(n, via int) (fails []trsFail) {
	api := &trsNumAPI
	fail := func(key, format string, a ...any) {
		if len(fails) < 6 {
			fails = append(fails, trsFail{key, fmt.Sprintf(format, a...)})
		}
	}
	F := trsFanout()
	type written struct {
		data []byte
		root pdf.Reference
		err  error
	}
	done := make(chan written, 1)
	go func() {
		var res written
		defer func() {
			if p := recover(); p != nil {
				res.err = fmt.Errorf("panic: %v", p)
			}
			done <- res
		}()
		sink := &trsCapWriter{max: 64 << 20}
		w, err := pdf.NewWriter(sink, pdf.V1_7, nil)
		if err != nil {
			panic(err)
		}
		if via == 2 {
			m := make(map[pdf.Integer]pdf.Object, n)
			for i := 0; i < n; i++ {
				m[trsCubeKey(i)] = pdf.Integer(i % 7)
			}
			rm := pdf.NewResourceManager(w)
			nat, err := api.embedMem(rm, m)
			if err == nil {
				err = rm.Close()
			}
			if err != nil {
				res.err = err
				return
			}
			res.root, _ = nat.(pdf.Reference)
		} else {
			res.root, res.err = api.write(w, func(yield func(pdf.Integer, pdf.Object) bool) {
				for i := 0; i < n; i++ {
					if !yield(trsCubeKey(i), pdf.Integer(i%7)) {
						return
					}
				}
			})
			if res.err != nil {
				return
			}
		}
		pages := w.Alloc()
		if err := w.Put(pages, pdf.Dict{"Type": pdf.Name("Pages"), "Kids": pdf.Array{}, "Count": pdf.Integer(0)}); err != nil {
			res.err = err
			return
		}
		w.GetMeta().Catalog.Pages = pages
		if err := w.Close(); err != nil {
			res.err = err
			return
		}
		res.data = sink.buf.Bytes()
	}()
	var wr written
	select {
	case wr = <-done:
	case <-time.After(10 * time.Second):
		fail("write-hang", "writing %d entries did not finish within 10 s (the unchanged writer needs well under 1 s)", n)
		return fails
	}
	if wr.err != nil || wr.root == 0 {
		fail("write-error", "writing %d entries: root %v, %v", n, wr.root, wr.err)
		return fails
	}
	rd, err := pdf.NewReader(bytes.NewReader(wr.data), int64(len(wr.data)), nil)
	if err != nil {
		fail("write-error", "the written file cannot be opened: %v", err)
		return fails
	}
	defer rd.Close()

	// structure: /Limits and fan-out at every level, keys ascending, exactly the keys given
	sw := &trsShapeWalker[pdf.Integer]{api: api, rd: rd}
	var sb strings.Builder
	sw.walk(wr.root, true, 0, &sb)
	fails = append(fails, sw.fails...)
	if len(sw.keys) != n {
		fail("shape", "the tree holds %d keys, %d were written", len(sw.keys), n)
	} else {
		for i, k := range sw.keys {
			if k != trsCubeKey(i) {
				fail("shape", "key %d of the tree is %d, written was %d", i, k, trsCubeKey(i))
				break
			}
		}
	}
	// height: what full nodes need, plus the root
	depth, maxDepth := 0, 0
	for _, ch := range sb.String() {
		switch ch {
		case '(':
			depth++
			if depth > maxDepth {
				maxDepth = depth
			}
		case ')':
			depth--
		}
	}
	wantDepth := 0
	for c := F; c < n; c *= F {
		wantDepth++
	}
	if n > F {
		wantDepth++ // the root is a node of its own above the last merged node (which carries /Limits)
	}
	if maxDepth != wantDepth {
		fail("shape", "%d entries are stored %d node levels deep, full nodes and the root need %d", n, maxDepth, wantDepth)
	}

	stream, err1 := api.fromFile(rd, wr.root)
	mem, err2 := api.inMemory(rd, wr.root)
	if err1 != nil || err2 != nil {
		fail("write-error", "extract: %v / %v", err1, err2)
		return fails
	}
	cnt := 0
	for k, v := range stream.All() {
		if k != trsCubeKey(cnt) || v != pdf.Object(pdf.Integer(cnt%7)) {
			fail("all-order", "FromFile.All() entry %d is %d = %v", cnt, k, v)
			break
		}
		cnt++
	}
	if cnt != n && len(fails) == 0 {
		fail("all-order", "FromFile.All() gave %d entries, want %d", cnt, n)
	}
	if sz, err := api.size(rd, wr.root); err != nil || sz != n {
		fail("size", "Size = %d, %v; want %d", sz, err, n)
	}
	cm := 0
	for range mem.All() {
		cm++
	}
	if cm != n {
		fail("readers-disagree", "InMemory.All() gave %d entries, FromFile.All() %d", cm, cnt)
	}

	// lookups: the last leaf, both ends of the last depth-1 and depth-2 nodes, the ends of the first ones
	seen := map[int]bool{}
	var idx []int
	add := func(i int) {
		if i >= 0 && i < n && !seen[i] {
			seen[i] = true
			idx = append(idx, i)
		}
	}
	for i := (n - 1) / F * F; i < n; i++ {
		add(i)
	}
	for _, unit := range []int{F, F * F, F * F * F} {
		start := (n - 1) / unit * unit
		for _, d := range []int{-unit, -unit + 1, -2, -1, 0, 1, 2, unit - 1} {
			add(start + d)
		}
		add(unit - 1)
		add(unit)
	}
	add(0)
	add(n - 1)
	for _, i := range idx {
		for ri, rdr := range []trsTreeReader[pdf.Integer]{stream, mem} {
			name := []string{"FromFile", "InMemory"}[ri]
			v, err := rdr.Lookup(trsCubeKey(i))
			if err != nil || v != pdf.Object(pdf.Integer(i%7)) {
				fail("lookup-present", "%s.Lookup(entry %d of %d) = %v, %v; want %d", name, i, n, v, err, i%7)
			}
			for _, d := range []pdf.Integer{-1, 1} { // the gaps next to it, incl. below the first and above the last key
				if v, err := rdr.Lookup(trsCubeKey(i) + d); !errors.Is(err, nametree.ErrKeyNotFound) {
					fail("lookup-absent", "%s.Lookup(absent key next to entry %d of %d) = %v, %v", name, i, n, v, err)
				}
			}
		}
	}
	return fails
}

func replayC17Cube(input string) (bool, string) {
	parts := strings.Split(input, "|")
	if len(parts) != 2 {
		return true, "bad replay input"
	}
	n, e1 := strconv.Atoi(parts[0])
	via, e2 := strconv.Atoi(parts[1])
	if e1 != nil || e2 != nil || n < 1 || n > 2000000 {
		return true, "bad replay input"
	}
	if fails := trsRunCube(n, via); len(fails) > 0 {
		return false, fails[0].key + ": " + fails[0].desc
	}
	return true, fmt.Sprintf("%d entries written and read back", n)
}

func runC17Cube(c *Ctx) {
	F := trsFanout()
	cube := F * F * F
	type cs struct{ n, via int }
	cases := []cs{{cube + 1, 0}}
	if c.Thorough {
		cases = nil
		for _, via := range []int{0, 2} {
			for _, n := range []int{cube - 1, cube, cube + 1, cube + F + 2} {
				cases = append(cases, cs{n, via})
			}
		}
	}
	for _, x := range cases {
		enc := fmt.Sprintf("%d|%d", x.n, x.via)
		t0 := time.Now()
		fails := trsRunCube(x.n, x.via)
		c.Case("cube:"+enc, true)
		c.Stat(fmt.Sprintf("cube_via%d", x.via))
		c.StatN("cube_ms", int(time.Since(t0).Milliseconds()))
		for _, f := range fails {
			c.Violate("cube", f.key, f.desc, enc)
		}
		hung := false
		for _, f := range fails {
			if f.key == "write-hang" {
				hung = true
			}
		}
		if hung {
			break // the writer is still running; do not start another one next to it
		}
	}
}

package main

import (
	"bytes"
	"encoding/hex"
	"fmt"
	"regexp"
	"strings"

	"seehuhn.de/go/pdf"
)

// Targeted whole-file cases for C05 that random mutation reaches too rarely:
// inputs that END inside a structure whose parser indexes a fixed-size
// window (cross-reference table entries, "N G obj" headers, the header
// line), and the documented cap on filter chains.  Evaluated with the same
// walk and oracle as rob_c05.go.

var c05ObjHeaderRe = regexp.MustCompile(`\n[0-9]+ [0-9]+ obj`)

// c05xCutXRefTable builds a file whose last bytes are a cross-reference
// table cut after cut bytes of its entries; "startxref" is placed before
// the table so that the reader still finds it.
func c05xCutXRefTable(data []byte, cut int) []byte {
	p := bytes.LastIndex(data, []byte("\nxref\n"))
	if p < 0 {
		return nil
	}
	p++
	t := bytes.Index(data[p:], []byte("trailer"))
	if t < 0 {
		return nil
	}
	table := data[p : p+t]
	// first line "xref", second line "0 N": keep both, cut inside the entries
	i := bytes.IndexByte(table, '\n')
	j := i + 1 + bytes.IndexByte(table[i+1:], '\n') + 1
	if j+cut > len(table) {
		cut = len(table) - j
	}
	head := data[:p]
	pos := len(head)
	for k := 0; k < 3; k++ { // the position depends on its own number of digits
		pos = len(head) + len(fmt.Sprintf("startxref\n%d\n%%%%EOF\n", pos))
	}
	var out bytes.Buffer
	out.Write(head)
	fmt.Fprintf(&out, "startxref\n%d\n%%%%EOF\n", pos)
	out.Write(table[:j+cut])
	return out.Bytes()
}

// c05xOffsetFiles: offsets the reader takes from the file and passes to
// scannerFrom (finding ROB-5): /XRefStm at the ends of the int64 range, and a
// cross-reference stream entry whose offset plus the header offset overflows.
func c05xOffsetFiles() (out [][]byte) {
	body := "%PDF-1.5\n1 0 obj\n<</Type/Catalog/Pages 2 0 R>>\nendobj\n2 0 obj\n<</Type/Pages/Kids[]/Count 0>>\nendobj\n"
	for _, v := range []string{"-1", "-9223372036854775808", "-9223372036854775807", "9223372036854775807", "0"} {
		x := len(body)
		out = append(out, []byte(body+fmt.Sprintf("xref\n0 3\n0000000000 65535 f\r\n%010d 00000 n\r\n%010d 00000 n\r\ntrailer\n<</Size 3/Root 1 0 R/XRefStm %s>>\nstartxref\n%d\n%%%%EOF\n",
			9, strings.Index(body, "2 0 obj"), v, x)))
	}
	for _, junk := range []string{"", "xx\n", strings.Repeat("j", 1000) + "\n"} {
		for _, off := range []uint64{0x7fffffffffffffff, 0x7ffffffffffffffe, 0x7ffffffffffffc00, 1 << 62} {
			var ent bytes.Buffer
			put := func(tp byte, a uint64, b byte) {
				ent.WriteByte(tp)
				for i := 7; i >= 0; i-- {
					ent.WriteByte(byte(a >> (8 * i)))
				}
				ent.WriteByte(b)
			}
			x := len(body)
			put(0, 0, 255)
			put(1, 9, 0)
			put(1, off, 0)
			put(1, uint64(x), 0)
			out = append(out, []byte(junk+body+fmt.Sprintf("3 0 obj\n<</Type/XRef/Size 4/W[1 8 1]/Root 1 0 R/Length %d>>\nstream\n%s\nendstream\nendobj\nstartxref\n%d\n%%%%EOF\n", ent.Len(), ent.String(), x)))
		}
	}
	return out
}

// c05xObjStmFiles: object streams whose members exercise the look-ahead of
// getFromObjStm/scanner.readReferenceTail (first version: referenceTail in reader.go, a hand
// parser over a 64-byte window): an integer member followed by what
// may or may not complete "n g R" within the member's extent, which ends at
// the next larger offset of the index (64 bytes at most).  Members 6, 7, 8 of
// object stream 5; index = the given offsets, body = the given bytes.
func c05xObjStmFiles() (out [][]byte, notes []string) {
	type lay struct {
		note string
		offs [3]int
		body string
	}
	sp70 := strings.Repeat(" ", 70)
	pad := func(t string, n int) string { return t + strings.Repeat(" ", max(0, n-len(t))) }
	lays := []lay{
		{"member '2 0 R'", [3]int{0, 6, 12}, "2 0 R 7 0 R (x)"},
		{"integer at the very end", [3]int{0, 4, 8}, "(a) (b) 7"},
		{"'2 0 R' at the very end", [3]int{0, 4, 8}, "(a) (b) 2 0 R"},
		{"'2 0' at the very end", [3]int{0, 4, 8}, "(a) (b) 2 0"},
		{"'2 ' at the very end", [3]int{0, 4, 8}, "(a) (b) 2 "},
		{"offsets out of order", [3]int{12, 6, 0}, "2 0 R 7 0 R 3 0 R"},
		{"offsets equal", [3]int{0, 0, 0}, "2 0 R 7 0 R"},
		{"two offsets equal, third behind", [3]int{0, 0, 4}, "2 0 R 7 0 R"},
		{"next offset inside the integer", [3]int{0, 2, 3}, "12345 0 R 8"},
		{"next offset right behind the integer", [3]int{0, 1, 2}, "2 0 R"},
		{"next offset inside the generation", [3]int{0, 3, 5}, "2 10 R 9"},
		{"next offset before R", [3]int{0, 4, 9}, "2 0 R 7 0 R"},
		{"next offset behind R", [3]int{0, 5, 9}, "2 0 R7 0 Rx"},
		{"70 spaces behind the integer", [3]int{0, 80, 90}, "2" + sp70 + "0 R      (x)       (y)"},
		{"70 spaces behind the generation", [3]int{0, 80, 90}, "2 0" + sp70 + "R     (x)       (y)"},
		{"63 spaces then 0 R", [3]int{0, 80, 90}, "2" + strings.Repeat(" ", 63) + "0 R             (x)       (y)"},
		{"60 spaces, 0 R across the 64-byte window", [3]int{0, 80, 90}, "2" + strings.Repeat(" ", 60) + "0 R                (x)       (y)"},
		{"seven digits of generation", [3]int{0, 14, 18}, "2 1234567 R   (a) (b)"},
		{"six digits of generation", [3]int{0, 14, 18}, "2 123456 R    (a) (b)"},
		{"generation 65535", [3]int{0, 14, 18}, "2 65535 R     (a) (b)"},
		{"generation 65536", [3]int{0, 14, 18}, "2 65536 R     (a) (b)"},
		{"'2 0 Rx'", [3]int{0, 14, 18}, "2 0 Rx        (a) (b)"},
		{"'2 0 R/'", [3]int{0, 14, 18}, "2 0 R/N       (a) (b)"},
		{"'2 0 R]'", [3]int{0, 14, 18}, "2 0 R]        (a) (b)"},
		{"'2 0R'", [3]int{0, 14, 18}, "2 0R          (a) (b)"},
		{"'2 R'", [3]int{0, 14, 18}, "2 R           (a) (b)"},
		{"'2  0  R' with mixed white space", [3]int{0, 14, 18}, "2\t\n0\r\x00R     (a) (b)"},
		{"negative number", [3]int{0, 14, 18}, "-1 0 R        (a) (b)"},
		{"number 16777216", [3]int{0, 14, 18}, "16777216 0 R  (a) (b)"},
		{"number 16777215", [3]int{0, 14, 18}, "16777215 0 R  (a) (b)"},
		{"number beyond int64", [3]int{0, 30, 34}, "99999999999999999999 0 R      (a) (b)"},
		{"high bytes behind the integer", [3]int{0, 14, 18}, "2\xff\x80 0 R     (a) (b)"},
		{"R followed by a high byte", [3]int{0, 14, 18}, "2 0 R\xff       (a) (b)"},
		{"reference to the object stream itself", [3]int{0, 14, 18}, "5 0 R         (a) (b)"},
		{"reference to itself", [3]int{0, 14, 18}, "6 0 R         (a) (b)"},
		{"offset beyond the data", [3]int{0, 1000, 2000}, "2 0 R"},
		{"real number, not an integer", [3]int{0, 14, 18}, "2.0 0 R       (a) (b)"},
		{"empty body", [3]int{0, 0, 0}, ""},
		// readReferenceTail (scanner.go) reads the tail with the scanner: no 64-byte window any more
		{"comment between integer and generation", [3]int{0, 14, 18}, "2 %c\n 0 R    (a) (b)"},
		{"signed generation", [3]int{0, 14, 18}, "2 +0 R        (a) (b)"},
		{"generation with seven zeros", [3]int{0, 14, 18}, "2 0000000 R   (a) (b)"},
		{"2000-byte comment between integer and generation", [3]int{0, 2100, 2110}, pad("2 %"+strings.Repeat("c", 2000)+"\n0 R", 2100) + "(a)       (b)"},
		{"2000-byte comment, never ended", [3]int{0, 2100, 2110}, pad("2 %"+strings.Repeat("c", 2000), 2100) + "(a)       (b)"},
		{"5000 blanks behind the integer", [3]int{0, 5100, 5110}, pad("2"+strings.Repeat(" ", 5000)+"0 R", 5100) + "(a)       (b)"},
		{"5000 blanks behind the generation", [3]int{0, 5100, 5110}, pad("2 0"+strings.Repeat(" ", 5000)+"R", 5100) + "(a)       (b)"},
		{"5000 blanks, then the end of the stream", [3]int{0, 0, 0}, "2" + strings.Repeat(" ", 5000)},
		{"5000 blanks and 0 R as the last member", [3]int{4, 8, 0}, "2   (a) (b) 3" + strings.Repeat(" ", 5000) + "0 R"},
		{"R beyond the next offset", [3]int{0, 1030, 1040}, pad("2"+strings.Repeat(" ", 1024)+"0 R", 1040) + "(b)"},
		{"300 digits of generation", [3]int{0, 400, 410}, pad("2 "+strings.Repeat("7", 300)+" R", 400) + "(a)       (b)"},
		{"generation is a real number", [3]int{0, 14, 18}, "2 0.0 R       (a) (b)"},
		{"generation negative", [3]int{0, 14, 18}, "2 -1 R        (a) (b)"},
	}
	for _, l := range lays {
		body := l.body
		for _, flate := range []bool{false, true} {
			var f bytes.Buffer
			f.WriteString("%PDF-1.7\n%\x80\x80\x80\x80\n")
			offs := make([]int, 10)
			obj := func(n int, text string) {
				offs[n] = f.Len()
				fmt.Fprintf(&f, "%d 0 obj\n%s\nendobj\n", n, text)
			}
			obj(1, "<</Type/Catalog/Pages 2 0 R>>")
			obj(2, "<</Type/Pages/Kids[3 0 R]/Count 1>>")
			obj(3, "<</Type/Page/Parent 2 0 R/MediaBox[0 0 10 10]/Resources<<>>>>")
			idx := fmt.Sprintf("6 %d 7 %d 8 %d ", l.offs[0], l.offs[1], l.offs[2])
			data := []byte(idx + body)
			dict := fmt.Sprintf("/Type/ObjStm/N 3/First %d", len(idx))
			if flate {
				data = c05Zlib(data)
				dict += "/Filter/FlateDecode"
			}
			offs[5] = f.Len()
			fmt.Fprintf(&f, "5 0 obj\n<<%s/Length %d>>\nstream\n", dict, len(data))
			f.Write(data)
			f.WriteString("\nendstream\nendobj\n")
			xoff := f.Len()
			offs[4] = xoff
			var x bytes.Buffer
			x.Write([]byte{0, 0, 0, 255})
			for n := 1; n <= 5; n++ {
				x.Write([]byte{1, byte(offs[n] >> 8), byte(offs[n]), 0})
			}
			for i := 0; i < 3; i++ {
				x.Write([]byte{2, 0, 5, byte(i)})
			}
			fmt.Fprintf(&f, "4 0 obj\n<</Type/XRef/Size 9/W[1 2 1]/Root 1 0 R/Length %d>>\nstream\n", x.Len())
			f.Write(x.Bytes())
			fmt.Fprintf(&f, "\nendstream\nendobj\nstartxref\n%d\n%%%%EOF\n", xoff)
			out = append(out, f.Bytes())
			notes = append(notes, fmt.Sprintf("object stream member look-ahead: %s (flate=%v)", l.note, flate))
		}
	}
	return out, notes
}

func robC05xRun(c *Ctx) {
	r := c.R.Fork()
	nDocs := 3
	if c.Thorough {
		nDocs = 40
	}
	eval := func(kind, note string, data []byte, pw string) {
		if data == nil {
			return
		}
		cs := &c05Case{kind: kind, note: note, data: data, pw: pw}
		c05Plan(cs)
		for mode := 0; mode < 3; mode++ {
			o := c05Eval(cs, mode)
			c.Case(c05DataKey(data, mode), true)
			c.Stat("c05x_" + kind)
			for _, f := range c05Judge(cs, mode, &o) {
				c.Violate("c05", f.key, f.desc, fmt.Sprintf("seed=0 mode=%d data=%s", mode, hex.EncodeToString(data)))
			}
		}
	}
	osFiles, osNotes := c05xObjStmFiles()
	for i, data := range osFiles {
		eval("objstm-reference-tail", osNotes[i], data, "")
	}
	for _, data := range c05xOffsetFiles() {
		eval("extreme-offset", "offset at the end of the int64 range in /XRefStm or in an xref stream entry", data, "")
	}
	for i := 0; i < nDocs; i++ {
		spec := genDocSpec(r)
		spec.Human = true
		spec.OwnerPW, spec.UserPW = "", ""
		spec.NPages = 1 + r.Intn(2)
		doc, err := buildDoc(spec, nil)
		if err != nil {
			continue
		}
		// every cut position inside the first two entries, then some later ones
		for cut := 0; cut <= 45; cut++ {
			eval("cut-xref-table", fmt.Sprintf("xref table cut %d bytes into its entries", cut), c05xCutXRefTable(doc.Data, cut), "")
		}
		for k := 0; k < 6; k++ {
			cut := 46 + r.Intn(200)
			eval("cut-xref-table", fmt.Sprintf("xref table cut %d bytes into its entries", cut), c05xCutXRefTable(doc.Data, cut), "")
		}
		// the file cut 0..12 bytes after each "N G obj" header and after the header line
		for _, m := range c05ObjHeaderRe.FindAllIndex(doc.Data, 6) {
			for d := 0; d <= 12; d += 1 + r.Intn(3) {
				if m[1]+d <= len(doc.Data) {
					eval("cut-after-obj-header", "file cut after an object header", doc.Data[:m[1]+d], "")
				}
			}
		}
		for d := 0; d <= 12; d++ {
			eval("cut-header-line", "file cut inside the header line", doc.Data[:min(d, len(doc.Data))], "")
		}
	}
}

// ---- documented cap on filter chains (container.go: maxFilterChainLength) ----

const robMaxFilterChainLength = 8 // documented budget; the models take it from Generated/FactsROB

// robFilterChainRun asks GetFilters for chains of 1..40 filters.
func robFilterChainRun(c *Ctx) {
	r := c.R.Fork()
	names := []pdf.Name{"ASCIIHexDecode", "ASCII85Decode", "RunLengthDecode", "FlateDecode", "LZWDecode"}
	n := 60
	if c.Thorough {
		n = 600
	}
	for i := 0; i < n; i++ {
		k := 1 + r.Intn(40)
		if i < 12 {
			k = 5 + i // 5..16: both sides of the cap, always
		}
		var arr pdf.Array
		for j := 0; j < k; j++ {
			arr = append(arr, Pick(r, names))
		}
		g := &stubGetter{}
		fs, err := pdf.GetFilters(g, nil, pdf.Dict{"Filter": arr})
		key := fmt.Sprintf("filterchain %d %v", k, arr)
		c.Case(key, true)
		switch {
		case k > robMaxFilterChainLength && err == nil:
			c.Stat("filterchain_long_accepted")
			c.Violate("filterchain", "C05-filter-chain-cap", fmt.Sprintf("GetFilters accepted a chain of %d filters (documented cap %d), returned %d", k, robMaxFilterChainLength, len(fs)), strings.TrimPrefix(key, "filterchain "))
		case k > robMaxFilterChainLength:
			c.Stat("filterchain_long_rejected")
			if !pdf.IsMalformed(err) {
				c.Stat("filterchain_long_rejected_not_malformed")
			}
		case err != nil:
			c.Stat("filterchain_short_rejected")
		default:
			c.Stat("filterchain_short_accepted")
		}
	}
}

func replayFilterChain(input string) (bool, string) {
	var k int
	fmt.Sscanf(input, "%d", &k)
	var arr pdf.Array
	for j := 0; j < k; j++ {
		arr = append(arr, pdf.Name("ASCIIHexDecode"))
	}
	_, err := pdf.GetFilters(&stubGetter{}, nil, pdf.Dict{"Filter": arr})
	if k > robMaxFilterChainLength && err == nil {
		return false, fmt.Sprintf("GetFilters accepted %d filters", k)
	}
	return true, fmt.Sprintf("%d filters: %v", k, err)
}

package main

// C18: "a read-only API call writes to memory shared between goroutines" — deterministic oracle.
//
// (1) Every read-only entry point (Reader.Get on every reference, Resolve, DecodeStream + ReadAll,
// raw stream reads, GetMeta/GetVersion, the typed Cursor accessors, Decode / DecodeExclusive /
// StoreOrLoadPair through an Extractor) is run SEQUENTIALLY on readers of every encryption kind
// (none, RC4-40, RC4 with 40 < bits < 128 via /Length, RC4-128, AES-128, AES-256), with a deep
// snapshot (conc_snap.go) of everything reachable from the *pdf.Reader — and from the Extractor —
// before and after each call.  Nothing may change except what the reviewed allow-list names
// (the Extractor's lock-protected cache may gain entries).  A change is the violation
// `shared-state-written-by-read` with the field path, e.g. `Reader.enc.sec.key`.
// (2) The same calls from several goroutines (GOMAXPROCS > 1) on RC4-40 files with many strings,
// compared with the sequential answers.

import (
	"bytes"
	"crypto/sha256"
	"fmt"
	"io"
	"runtime"
	"strings"
	"sync"

	"seehuhn.de/go/pdf"
)

func init() {
	addRun("C18", "read-only calls do not write shared state: deep snapshots (reflect, incl. unexported fields; slices hashed up to their capacity) of the *pdf.Reader and of the Extractor before and after every sequential Get / Resolve / DecodeStream / raw read / Cursor accessor / Decode call on files of every encryption kind (none, RC4-40, RC4-56/64/96 via /Length, RC4-128, AES-128, AES-256); then 2-4 goroutines x all references on RC4-40 files with many strings, answers compared with the sequential ones. A case is one call on one file; distinct by file kind + call.", runConcShared)
	addReplay("C18", "shared", replayConcShared)
}

// ---- hand-assembled RC4 files with an arbitrary key length

type concRawFile struct {
	kind    string
	data    []byte
	pw      string
	refs    []pdf.Reference
	streams []pdf.Reference
}

// concRawRC4File assembles a file by hand: n dictionaries with encrypted strings and a few
// encrypted streams, standard security handler, RC4 with the given key length.
func concRawRC4File(bits, n int, seed int) (*concRawFile, error) {
	id := bytes.Repeat([]byte{byte(seed), byte(bits)}, 8)
	V := 2
	if bits == 40 {
		V = 1
	}
	sec, err := pdf.VerifCreateStdSec(id, "user", "owner", pdf.PermAll, bits, V, false)
	if err != nil {
		return nil, err
	}
	enc := pdf.VerifNewEncInfo("rc4", sec.R, bits/8, sec.Key)
	f := &concRawFile{kind: fmt.Sprintf("rc4-%d", bits), pw: "user"}
	var buf bytes.Buffer
	var offs []int
	buf.WriteString("%PDF-1.4\n%\xe2\xe3\xcf\xd3\n")
	obj := func(body string) {
		offs = append(offs, buf.Len())
		fmt.Fprintf(&buf, "%d 0 obj\n%s\nendobj\n", len(offs), body)
	}
	hexEnc := func(ref pdf.Reference, plain string) string {
		b, err2 := enc.EncryptBytes(ref, []byte(plain))
		if err2 != nil {
			err = err2
		}
		return fmt.Sprintf("<%x>", b)
	}
	obj("<< /Type /Catalog /Pages 2 0 R >>")
	obj("<< /Type /Pages /Kids [] /Count 0 >>")
	for i := 0; i < n; i++ {
		ref := pdf.NewReference(uint32(len(offs)+1), 0)
		next := 3 + (i+1)%n
		obj(fmt.Sprintf("<< /V %d /S %s /T %s /A [ %s %s ] /Next %d 0 R >>", i,
			hexEnc(ref, fmt.Sprintf("string S of object %d, seed %d", i, seed)),
			hexEnc(ref, strings.Repeat("t", i%17)+fmt.Sprint(i)),
			hexEnc(ref, fmt.Sprintf("first array element %d", i*i)),
			hexEnc(ref, fmt.Sprintf("second %d", i)), next))
		f.refs = append(f.refs, ref)
	}
	for i := 0; i < 3; i++ {
		ref := pdf.NewReference(uint32(len(offs)+1), 0)
		plain := bytes.Repeat([]byte(fmt.Sprintf("stream %d of seed %d. ", i, seed)), 20+i*7)
		b, err2 := enc.EncryptBytes(ref, plain)
		if err2 != nil {
			return nil, err2
		}
		offs = append(offs, buf.Len())
		fmt.Fprintf(&buf, "%d 0 obj\n<< /Length %d /K %s >>\nstream\n", len(offs), len(b), hexEnc(ref, "stream dict string"))
		buf.Write(b)
		buf.WriteString("\nendstream\nendobj\n")
		f.refs = append(f.refs, ref)
		f.streams = append(f.streams, ref)
	}
	if err != nil {
		return nil, err
	}
	xref := buf.Len()
	fmt.Fprintf(&buf, "xref\n0 %d\n0000000000 65535 f \n", len(offs)+1)
	for _, o := range offs {
		fmt.Fprintf(&buf, "%010d 00000 n \n", o)
	}
	lengthEntry := ""
	if bits != 40 {
		lengthEntry = fmt.Sprintf(" /Length %d", bits)
	}
	fmt.Fprintf(&buf, "trailer\n<< /Size %d /Root 1 0 R /ID [<%x> <%x>] /Encrypt << /Filter /Standard /V %d /R %d%s /O <%x> /U <%x> /P %d >> >>\nstartxref\n%d\n%%%%EOF\n",
		len(offs)+1, id, id, V, sec.R, lengthEntry, sec.O, sec.U, int32(sec.P), xref)
	f.data = buf.Bytes()
	return f, nil
}

func (f *concRawFile) open() (*pdf.Reader, error) {
	return pdf.NewReader(bytes.NewReader(f.data), int64(len(f.data)), &pdf.ReaderOptions{Password: f.pw})
}

// ---- the allow-list

// concSharedAllowed: field paths of the Reader / Extractor which a read-only call may change.
func concSharedAllowed(path string) bool {
	switch {
	case strings.HasPrefix(path, "Extractor.cache"), strings.HasPrefix(path, "Extractor.wip"):
		// lock-protected caches of the inventory: grow-only (checked per entry)
		return true
	case strings.HasPrefix(path, "Extractor.mu"):
		return true
	}
	return false
}

func concSharedGrowOnly(path string) bool { return path == "Extractor.cache" }

type concSharedCall struct {
	name string
	f    func() string
}

func concCanon(obj pdf.Object, err error) string {
	if err != nil {
		return "err: " + err.Error()
	}
	if stm, ok := obj.(*pdf.Stream); ok {
		return "stream " + pdf.AsString(stm.Dict)
	}
	if obj == nil {
		return "null"
	}
	return pdf.AsString(obj)
}

// concSharedCalls lists the read-only entry points for one open file.
func concSharedCalls(rd *pdf.Reader, cur pdf.Cursor, refs []pdf.Reference, doc *concDoc) []concSharedCall {
	var calls []concSharedCall
	calls = append(calls, concSharedCall{"GetMeta", func() string { m := rd.GetMeta(); return fmt.Sprint(m.Version, len(m.ID)) }})
	calls = append(calls, concSharedCall{"GetVersion", func() string { return fmt.Sprint(pdf.GetVersion(rd)) }})
	for _, ref := range refs {
		ref := ref
		calls = append(calls,
			concSharedCall{fmt.Sprintf("Get(%v)", ref), func() string { return concCanon(rd.Get(ref, true)) }},
			concSharedCall{fmt.Sprintf("Get(%v,noObjStm)", ref), func() string { return concCanon(rd.Get(ref, false)) }},
			concSharedCall{fmt.Sprintf("Resolve(%v)", ref), func() string { return concCanon(pdf.Resolve(rd, ref)) }},
			concSharedCall{fmt.Sprintf("Cursor.Dict(%v)", ref), func() string {
				d, err := cur.Dict(ref)
				if err != nil {
					return "err"
				}
				s, _ := cur.String(d["S"])
				t, _ := cur.TextString(d["L"])
				a, _ := cur.Array(d["A"])
				return fmt.Sprint(len(d), string(s), t, len(a))
			}},
			concSharedCall{fmt.Sprintf("DecodeStream(%v)", ref), func() string {
				obj, err := rd.Get(ref, true)
				stm, ok := obj.(*pdf.Stream)
				if err != nil || !ok {
					return "no stream"
				}
				raw, _ := io.ReadAll(stm.NewReader())
				in, err := pdf.DecodeStream(rd, nil, stm)
				if err != nil {
					return "err: " + err.Error()
				}
				body, err := io.ReadAll(in)
				in.Close()
				if err != nil {
					return "err: " + err.Error()
				}
				body2, _ := pdf.ReadAll(rd, nil, stm, 1<<22)
				return fmt.Sprintf("raw %d decoded %d %x %v", len(raw), len(body), sha256.Sum256(body), bytes.Equal(body, body2))
			}})
	}
	if doc != nil {
		for kind := 2; kind <= 7; kind++ {
			var list []pdf.Reference
			switch kind {
			case 2:
				list = doc.nodes
			case 3:
				list = doc.chains
			case 4:
				list = doc.cyc
			case 5:
				list = doc.nodes[:1]
			default:
				list = doc.merged
			}
			for _, ref := range list {
				op := concFileOp{kind, ref}
				calls = append(calls, concSharedCall{fmt.Sprintf("decode kind %d (%v)", kind, ref), func() string {
					res, _ := concFileCall(rd, cur, doc, op)
					return res
				}})
			}
		}
	}
	return calls
}

type concSharedFile struct {
	kind string
	open func() (*pdf.Reader, error)
	refs []pdf.Reference
	doc  *concDoc
}

func concSharedFiles(r *Rand) ([]*concSharedFile, error) {
	var files []*concSharedFile
	for _, bits := range []int{40, 56, 64, 96, 128} {
		f, err := concRawRC4File(bits, 12, 7)
		if err != nil {
			return nil, fmt.Errorf("rc4-%d: %w", bits, err)
		}
		files = append(files, &concSharedFile{kind: f.kind, open: f.open, refs: f.refs})
	}
	for _, k := range []struct {
		name string
		v    pdf.Version
		pw   string
	}{{"none-1.4", pdf.V1_4, ""}, {"none-1.7", pdf.V1_7, ""}, {"rc4-40-writer", pdf.V1_3, "pw"}, {"rc4-128-writer", pdf.V1_4, "pw"}, {"aes-128", pdf.V1_6, "pw"}, {"aes-256", pdf.V2_0, "pw"}} {
		d, err := concMakeDocEnc(r.Fork(), false, k.v, k.pw)
		if err != nil {
			return nil, fmt.Errorf("%s: %w", k.name, err)
		}
		all := append(append(append(append([]pdf.Reference{}, d.nodes...), d.chains...), d.streams...), d.cyc...)
		all = append(all, d.merged...)
		files = append(files, &concSharedFile{kind: k.name, refs: all, doc: d, open: func() (*pdf.Reader, error) {
			var opt *pdf.ReaderOptions
			if d.password != "" {
				opt = &pdf.ReaderOptions{Password: d.password}
			}
			return pdf.NewReader(bytes.NewReader(d.data), int64(len(d.data)), opt)
		}})
	}
	return files, nil
}

// concSharedSequential runs every call once, sequentially, with snapshots around it.
func concSharedSequential(f *concSharedFile) (answers map[string]string, viol []string, err error) {
	rd, err := f.open()
	if err != nil {
		return nil, nil, err
	}
	cur := pdf.NewCursor(rd)
	x := cur.Extractor()
	answers = map[string]string{}
	calls := concSharedCalls(rd, cur, f.refs, f.doc)
	before := concSnap(rd, nil)
	xBefore := concSnap(x, concSharedGrowOnly)
	for _, c := range calls {
		res := func() (res string) {
			defer func() {
				if r := recover(); r != nil {
					res = fmt.Sprintf("PANIC: %v", r)
				}
			}()
			return c.f()
		}()
		answers[c.name] = res
		after := concSnap(rd, nil)
		xAfter := concSnap(x, concSharedGrowOnly)
		// the Extractor points to the Reader: differences below Extractor.R are the Reader's
		for _, p := range concSnapDiff(before, after, concSharedAllowed) {
			viol = append(viol, fmt.Sprintf("%s changed %s", c.name, p))
		}
		for _, p := range concSnapDiff(xBefore, xAfter, func(p string) bool { return concSharedAllowed(p) || strings.HasPrefix(p, "Extractor.R") }) {
			viol = append(viol, fmt.Sprintf("%s changed %s", c.name, p))
		}
		before, xBefore = after, xAfter
		if len(viol) > 6 {
			break
		}
	}
	return answers, viol, nil
}

// concSharedParallel: ng goroutines run all Get/Resolve/Cursor calls iters times on one Reader.
func concSharedParallel(f *concSharedFile, answers map[string]string, ng, iters int) []string {
	rd, err := f.open()
	if err != nil {
		return []string{"open: " + err.Error()}
	}
	cur := pdf.NewCursor(rd)
	calls := concSharedCalls(rd, cur, f.refs, nil)
	var mu sync.Mutex
	var fails []string
	var wg sync.WaitGroup
	for g := 0; g < ng; g++ {
		wg.Add(1)
		go func(g int) {
			defer wg.Done()
			defer func() {
				if r := recover(); r != nil {
					mu.Lock()
					fails = append(fails, fmt.Sprintf("goroutine %d panicked: %v", g, r))
					mu.Unlock()
				}
			}()
			for it := 0; it < iters; it++ {
				for i := range calls {
					c := calls[(i+g*5)%len(calls)]
					if got := c.f(); got != answers[c.name] {
						mu.Lock()
						if len(fails) < 4 {
							fails = append(fails, fmt.Sprintf("goroutine %d, %s returned %.120q, sequentially it returns %.120q", g, c.name, got, answers[c.name]))
						}
						mu.Unlock()
						return
					}
				}
			}
		}(g)
	}
	wg.Wait()
	return fails
}

func runConcShared(c *Ctx) {
	files, err := concSharedFiles(c.R.Fork())
	if err != nil {
		c.Violate("shared", "shared-fixture", "cannot build the test files: "+err.Error(), "")
		return
	}
	var rc4 []*concSharedFile
	answersOf := map[*concSharedFile]map[string]string{}
	for _, f := range files {
		answers, viol, err := concSharedSequential(f)
		if err != nil {
			c.Violate("shared", "shared-fixture", "cannot open the "+f.kind+" file: "+err.Error(), f.kind)
			continue
		}
		answersOf[f] = answers
		for name, a := range answers {
			c.Case(f.kind+" "+name, true)
			if strings.HasPrefix(a, "PANIC") {
				c.Violate("shared", "read-call-panicked", fmt.Sprintf("%s file: %s: %s", f.kind, name, a), f.kind)
			}
		}
		c.StatN("read-only calls with snapshots around them", len(answers))
		c.Stat("files snapshotted: " + f.kind)
		for i, v := range viol {
			if i < 3 {
				c.Violate("shared", "shared-state-written-by-read", fmt.Sprintf("%s file: the read-only call %s (state reachable from the Reader is shared by all goroutines using it)", f.kind, v), f.kind)
			}
		}
		if strings.HasPrefix(f.kind, "rc4-40") || f.kind == "rc4-56" {
			rc4 = append(rc4, f)
		}
	}
	if concUnlocked {
		return
	}
	// parallel: RC4-40 files with many strings
	if big, err := concRawRC4File(40, 60, 11); err == nil {
		bf := &concSharedFile{kind: "rc4-40-many-strings", open: big.open, refs: big.refs}
		if answers, _, err := concSharedSequential(bf); err == nil {
			answersOf[bf] = answers
			rc4 = append(rc4, bf)
		}
	}
	iters := 40
	if c.Thorough {
		iters = 400
	}
	if c.rep.Property == "C18race" {
		iters = 25
	}
	defer runtime.GOMAXPROCS(runtime.GOMAXPROCS(max(4, runtime.GOMAXPROCS(0))))
	for i, f := range rc4 {
		ng := 2 + (i+int(c.R.U64()%3))%3
		n := iters
		if f.kind == "rc4-40-many-strings" {
			n = iters * 3
		}
		fails := concSharedParallel(f, answersOf[f], ng, n)
		c.Case("parallel "+f.kind, true)
		c.StatN("parallel read iterations (goroutines x iterations)", ng*n)
		for _, fl := range fails {
			c.Violate("shared", "parallel-read-differs", f.kind+" file: "+fl, f.kind)
		}
	}
}

func replayConcShared(input string) (bool, string) {
	files, err := concSharedFiles(NewRand(1))
	if err != nil {
		return false, err.Error()
	}
	for _, f := range files {
		if f.kind != strings.TrimSpace(input) {
			continue
		}
		_, viol, err := concSharedSequential(f)
		if err != nil {
			return false, err.Error()
		}
		if len(viol) == 0 {
			return true, "no read-only call changed the state reachable from the Reader of the " + f.kind + " file"
		}
		return false, f.kind + " file: " + strings.Join(viol, "; ")
	}
	return true, "unknown file kind " + input
}

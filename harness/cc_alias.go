package main

import (
	"bytes"
	"fmt"
	"strconv"
	"strings"

	"seehuhn.de/go/pdf/font/charcode"
)

// C12 — ownership of returned values and independence of earlier constructions.
//
// (1) Values returned by the codec API are the caller's: the harness deep-snapshots the result
//     of Codec.CodeSpaceRange(), mutates the returned value in place (elements, bytes of Low and
//     High, length), calls again on the same receiver (also on the package-level SimpleCodec)
//     and demands the snapshot again; Decode/AppendCode must still implement the original range
//     set.  The range set handed to NewCodec is the caller's too: NewCodec must not change it,
//     and changing it afterwards must not change the codec.  AppendCode must only append.
// (2) No state is carried from one construction to the next: codecs for several different
//     range sets are built in one process in varying orders — among them sets whose flattened
//     Low/High bytes coincide — all are kept alive, and each is then checked against the
//     reference semantics and (correspondence) against the model, which has no state.
//
// Class keys: returned-value-aliased, input-aliased, append-not-append-only, build-order-dependent.

func init() {
	addRun("C12", "ownership/aliasing and cross-construction state: for corpus and random range sets the result of Codec.CodeSpaceRange() is deep-copied, mutated in place and requested again (same receiver; also charcode.SimpleCodec), the input of NewCodec is snapshotted before and mutated after the call, AppendCode is called with prefixes that have spare capacity; groups of range sets whose flattened Low/High bytes coincide ({<00>-<00>,<FF>-<FF>} vs {<0000>-<FFFF>}, {<20>-<7F>,<8140>-<FEFE>} vs {<207F81>-<40FEFE>}, random ones) are built in varying orders in one process and every codec is compared with the reference semantics and with the model afterwards. A case is one range set (or one group); distinct by wire form and order.", runC12Alias)
	for _, o := range []string{"returned-value-aliased", "input-aliased", "append-not-append-only", "build-order-dependent"} {
		addReplay("C12", o, replayC12Alias)
	}
}

func ccCloneCSR(csr charcode.CodeSpaceRange) charcode.CodeSpaceRange {
	if csr == nil {
		return nil
	}
	out := make(charcode.CodeSpaceRange, len(csr))
	for i, r := range csr {
		out[i] = charcode.Range{Low: append([]byte{}, r.Low...), High: append([]byte{}, r.High...)}
	}
	return out
}

// ccScramble mutates a returned range set in place: every byte of every Low and High, the
// order of the elements, and (through the slice header the caller holds) the elements themselves.
func ccScramble(csr charcode.CodeSpaceRange) {
	for i := range csr {
		for j := range csr[i].Low {
			csr[i].Low[j] ^= 0xa5
		}
		for j := range csr[i].High {
			csr[i].High[j] = ^csr[i].High[j]
		}
	}
	for i, j := 0, len(csr)-1; i < j; i, j = i+1, j-1 {
		csr[i], csr[j] = csr[j], csr[i]
	}
	if len(csr) > 0 {
		csr[0] = charcode.Range{Low: []byte{9, 9, 9}, High: []byte{1}}
		// writing behind the length, where a shared backing array would live on
		full := csr[:cap(csr)]
		for i := len(csr); i < len(full); i++ {
			full[i] = charcode.Range{Low: []byte{7}, High: []byte{8}}
		}
	}
}

// ccDecodeAgrees: Decode and AppendCode of the codec still implement csr (reference semantics).
func ccDecodeAgrees(r *Rand, codec *charcode.Codec, csr charcode.CodeSpaceRange) string {
	for _, s := range ccTestStrings(r, 4, 250, csr) {
		d, p := ccDecode(codec, s)
		wc, wn, wv := ccSpecDecode(csr, s)
		if p != nil || uint32(d.code) != wc || d.consumed != wn || d.valid != wv {
			return fmt.Sprintf("Decode(%x) = (%d,%d,%v) panic=%v, the range set %s gives (%d,%d,%v)", s, d.code, d.consumed, d.valid, p, ccCSRWire(csr), wc, wn, wv)
		}
		if d.valid {
			back, p := ccAppend(codec, d.code)
			if p != nil || !bytes.Equal(back, s[:d.consumed]) {
				return fmt.Sprintf("AppendCode(%d) = %x panic=%v, want %x", d.code, back, p, s[:d.consumed])
			}
		}
	}
	return ""
}

// ccOwnership runs the ownership oracles on one (valid, accepted) range set.
func ccOwnership(c *Ctx, r *Rand, csr charcode.CodeSpaceRange) (viol [][2]string) {
	bad := func(o, d string) { viol = append(viol, [2]string{o, d}) }
	defer func() {
		if p := recover(); p != nil {
			bad("no-panic", fmt.Sprintf("panic: %v", p))
		}
	}()
	w := ccCSRWire(csr)

	// the input belongs to the caller
	input := ccCloneCSR(csr)
	before := ccCSRWire(input)
	codec, err := charcode.NewCodec(input)
	if ccCSRWire(input) != before {
		bad("input-aliased", fmt.Sprintf("NewCodec changed its argument: %s -> %s", before, ccCSRWire(input)))
	}
	if err != nil {
		return
	}
	nodes0 := fmt.Sprint(codec.VerifNodes())
	ccScramble(input)
	if fmt.Sprint(codec.VerifNodes()) != nodes0 {
		bad("input-aliased", w+": changing the range set after NewCodec changed the codec's nodes")
	}
	if d := ccDecodeAgrees(r, codec, csr); d != "" {
		bad("input-aliased", w+": after the caller changed the range set it had passed to NewCodec: "+d)
	}

	// the result of CodeSpaceRange() belongs to the caller
	if len(codec.VerifNodes()) <= 1500 {
		rep1 := codec.CodeSpaceRange()
		snap := ccCloneCSR(rep1)
		snapW := ccCSRWire(snap)
		ccScramble(rep1)
		rep2 := codec.CodeSpaceRange()
		if got := ccCSRWire(rep2); got != snapW {
			bad("returned-value-aliased", fmt.Sprintf("%s: CodeSpaceRange() returned %s, the caller changed that value, the next call returns %s", w, snapW, got))
		}
		// two results must not share memory with each other either
		rep3 := codec.CodeSpaceRange()
		ccScramble(rep2)
		if got := ccCSRWire(rep3); got != snapW {
			bad("returned-value-aliased", fmt.Sprintf("%s: two results of CodeSpaceRange() share memory: after changing one the other reads %s, want %s", w, got, snapW))
		}
		if fmt.Sprint(codec.VerifNodes()) != nodes0 {
			bad("returned-value-aliased", w+": changing the result of CodeSpaceRange() changed the codec's nodes")
		}
		if d := ccDecodeAgrees(r, codec, csr); d != "" {
			bad("returned-value-aliased", w+": after the caller changed the result of CodeSpaceRange(): "+d)
		}
		if !snap.Equivalent(csr) {
			bad("csr-equivalent", w+": reported "+snapW)
		}
		if c != nil {
			c.Emit("CC csr "+w, "ok "+ccCSRWire(codec.CodeSpaceRange()))
		}
	}

	// AppendCode only appends
	for i := 0; i < 6; i++ {
		prefix := r.Bytes(r.Intn(5))
		buf := make([]byte, len(prefix), len(prefix)+8)
		copy(buf, prefix)
		guard := buf[len(prefix):cap(buf)]
		for j := range guard {
			guard[j] = 0xee
		}
		code := charcode.Code(r.U64())
		if i%2 == 0 {
			if d, p := ccDecode(codec, cmRandomCodeBytesOr(r, csr)); p == nil {
				code = d.code
			}
		}
		alone := codec.AppendCode(nil, code)
		out := codec.AppendCode(buf, code)
		if !bytes.Equal(out[:min(len(out), len(prefix))], prefix) || !bytes.Equal(out[min(len(out), len(prefix)):], alone) {
			bad("append-not-append-only", fmt.Sprintf("%s: AppendCode(%x, %d) = %x, AppendCode(nil, %d) = %x", w, prefix, code, out, code, alone))
		}
		if !bytes.Equal(buf, prefix) {
			bad("append-not-append-only", fmt.Sprintf("%s: AppendCode changed the bytes of its first argument: %x -> %x", w, prefix, buf))
		}
	}
	return
}

func cmRandomCodeBytesOr(r *Rand, csr charcode.CodeSpaceRange) []byte {
	if len(csr) == 0 {
		return r.Bytes(1 + r.Intn(4))
	}
	return append(cmRandomCodeBytes(r, csr), r.Bytes(r.Intn(3))...)
}

// ---- groups of range sets whose flattened bytes coincide ----

func ccFlatGroups(r *Rand, nRandom int) [][]charcode.CodeSpaceRange {
	h := func(s string) []byte { b, _ := ccUnhex(s); return b }
	R := func(lo, hi string) charcode.Range { return charcode.Range{Low: h(lo), High: h(hi)} }
	groups := [][]charcode.CodeSpaceRange{
		{{R("00", "00"), R("ff", "ff")}, {R("0000", "ffff")}, {R("00ff", "00ff")}, {R("00", "ff")}},
		{{R("20", "7f"), R("8140", "fefe")}, {R("207f81", "40fefe")}, {R("2081", "7ffe"), R("40", "fe")}},
		{{R("00", "7f"), R("8000", "ffff")}, {R("007f80", "00ffff")}, {R("0080", "7fff"), R("00", "ff")}},
		{{R("00", "10"), R("20", "30"), R("40", "50"), R("60", "70")}, {R("0010", "2030"), R("4050", "6070")}, {R("00102030", "40506070")}},
		{charcode.Simple, charcode.UCS2, charcode.UTF8, {R("00", "ff")}},
	}
	for i := 0; i < nRandom; i++ {
		// two 1-byte ranges [a-b],[c-d] and their re-groupings
		a, b := byte(r.Intn(128)), byte(r.Intn(256))
		if a > b {
			a, b = b, a
		}
		c0, d := byte(128+r.Intn(64)), byte(128+r.Intn(128))
		if c0 > d {
			c0, d = d, c0
		}
		if b >= c0 { // keep the 1-byte ranges disjoint
			b = c0 - 1
			if a > b {
				a = b
			}
		}
		g := []charcode.CodeSpaceRange{
			{{Low: []byte{a}, High: []byte{b}}, {Low: []byte{c0}, High: []byte{d}}},
		}
		// per-range concatenation  a b c d  ->  <a b>-<c d>
		if a <= c0 && b <= d {
			g = append(g, charcode.CodeSpaceRange{{Low: []byte{a, b}, High: []byte{c0, d}}})
		}
		// lows then highs  a c | b d  ->  <a c>-<b d>
		if c0 <= d {
			g = append(g, charcode.CodeSpaceRange{{Low: []byte{a, c0}, High: []byte{b, d}}})
		}
		// a 1-byte and a 2-byte range against one 3-byte range
		e, f := byte(r.Intn(200)), byte(200+r.Intn(56))
		g = append(g, charcode.CodeSpaceRange{{Low: []byte{a}, High: []byte{b}}, {Low: []byte{c0, e}, High: []byte{d, f}}})
		if a <= e && b <= d && c0 <= f {
			g = append(g, charcode.CodeSpaceRange{{Low: []byte{a, b, c0}, High: []byte{e, d, f}}})
		}
		groups = append(groups, g)
	}
	return groups
}

// ccBuildGroup builds every set of the group in the given order, keeps all codecs, and only then
// checks each of them.
func ccBuildGroup(c *Ctx, r *Rand, group []charcode.CodeSpaceRange, order []int) (viol [][2]string) {
	bad := func(o, d string) { viol = append(viol, [2]string{o, d}) }
	defer func() {
		if p := recover(); p != nil {
			bad("no-panic", fmt.Sprintf("panic: %v", p))
		}
	}()
	type built struct {
		csr   charcode.CodeSpaceRange
		codec *charcode.Codec
		err   error
		nodes string
	}
	var all []built
	for _, k := range order {
		csr := ccCloneCSR(group[k])
		codec, err := charcode.NewCodec(csr)
		b := built{csr: ccCloneCSR(group[k]), codec: codec, err: err}
		if err == nil {
			b.nodes = ccNodesWire(codec)
		}
		all = append(all, b)
	}
	var orderW []string
	for _, k := range order {
		orderW = append(orderW, ccCSRWire(group[k]))
	}
	ctx := "built in the order " + strings.Join(orderW, " ; ")
	for _, b := range all {
		w := ccCSRWire(b.csr)
		wantOK := true
		for _, rg := range b.csr {
			wantOK = wantOK && ccRangeValid(rg)
		}
		wantOK = wantOK && ccPrefixFree(b.csr)
		if (b.err == nil) != wantOK {
			bad("build-order-dependent", fmt.Sprintf("%s: NewCodec error=%v but valid and prefix-free=%v (%s)", w, b.err, wantOK, ctx))
			continue
		}
		if b.err != nil {
			if c != nil {
				c.Emit("CC new "+w, "err invalid")
			}
			continue
		}
		// a codec built alone, now, must look the same
		fresh, err := charcode.NewCodec(ccCloneCSR(b.csr))
		if err != nil || ccNodesWire(fresh) != b.nodes || ccNodesWire(b.codec) != b.nodes {
			bad("build-order-dependent", fmt.Sprintf("%s: the nodes differ between constructions (%s): first %s, now %s, fresh %s err=%v", w, ctx, b.nodes, ccNodesWire(b.codec), ccNodesWire(fresh), err))
		}
		if d := ccDecodeAgrees(r, b.codec, b.csr); d != "" {
			bad("build-order-dependent", fmt.Sprintf("%s (%s): %s", w, ctx, d))
		}
		if c != nil {
			// the model has no state: same nodes, same decode results
			c.Emit("CC new "+w, "ok "+b.nodes)
			strs := ccTestStrings(r, 3, 60, b.csr)
			outs := make([]string, len(strs))
			for i, s := range strs {
				d, _ := ccDecode(b.codec, s)
				outs[i] = ccDecStr(d)
			}
			c.Emit("CC dec "+w+" "+ccBytesList(strs), "ok "+ccJoin(outs))
		}
	}
	return
}

func ccNodesWire(codec *charcode.Codec) string {
	nodes := codec.VerifNodes()
	parts := make([]string, len(nodes))
	for i, n := range nodes {
		parts[i] = strconv.Itoa(n[0]) + ":" + strconv.Itoa(n[1])
	}
	return ccJoinComma(parts)
}

func ccPermutation(r *Rand, n int) []int {
	p := make([]int, n)
	for i := range p {
		p[i] = i
	}
	for i := n - 1; i > 0; i-- {
		j := r.Intn(i + 1)
		p[i], p[j] = p[j], p[i]
	}
	return p
}

func replayC12Alias(input string) (bool, string) {
	parts := strings.Fields(input)
	if len(parts) != 2 {
		return true, "bad replay input"
	}
	st, _ := strconv.ParseUint(parts[1], 10, 64)
	var viol [][2]string
	switch parts[0] {
	case "own":
		csr, err := ccCSRUnwire(strings.TrimSpace(strings.SplitN(input, " ", 2)[1]))
		if err == nil {
			viol = ccOwnership(nil, NewRand(1), csr)
		}
	case "ownrand":
		rr := &Rand{s: st}
		viol = ccOwnership(nil, rr, ccRandomSet(rr, 6))
	case "group":
		rr := &Rand{s: st}
		groups := ccFlatGroups(rr, 40)
		g := Pick(rr, groups)
		viol = ccBuildGroup(nil, rr, g, ccPermutation(rr, len(g)))
	case "shared":
		viol = ccSharedObjects(nil, NewRand(st))
	case "fixedgroups":
		viol = ccFixedGroups(nil, NewRand(st))
	}
	if len(viol) == 0 {
		return true, "all ownership / construction-order oracles hold for " + input
	}
	var sb strings.Builder
	for i, v := range viol {
		if i < 5 {
			sb.WriteString(v[0] + ": " + v[1] + "\n")
		}
	}
	return false, sb.String()
}

// ccSharedObjects: the package-level shared values.
func ccSharedObjects(c *Ctx, r *Rand) (viol [][2]string) {
	bad := func(o, d string) { viol = append(viol, [2]string{o, d}) }
	defer func() {
		if p := recover(); p != nil {
			bad("no-panic", fmt.Sprintf("panic: %v", p))
		}
	}()
	rep := charcode.SimpleCodec.CodeSpaceRange()
	snap := ccCSRWire(rep)
	ccScramble(rep)
	if got := ccCSRWire(charcode.SimpleCodec.CodeSpaceRange()); got != snap || got != "00:ff" {
		bad("returned-value-aliased", fmt.Sprintf("charcode.SimpleCodec.CodeSpaceRange() = %s after the caller changed the previous result %s", got, snap))
	}
	if d := ccDecodeAgrees(r, charcode.SimpleCodec, charcode.CodeSpaceRange{{Low: []byte{0}, High: []byte{0xff}}}); d != "" {
		bad("returned-value-aliased", "charcode.SimpleCodec: "+d)
	}
	// building codecs from the exported range sets must leave them alone
	for name, v := range map[string]*charcode.CodeSpaceRange{"Simple": &charcode.Simple, "UCS2": &charcode.UCS2, "UTF8": &charcode.UTF8} {
		before := ccCSRWire(*v)
		codec, err := charcode.NewCodec(*v)
		if err != nil || ccCSRWire(*v) != before {
			bad("input-aliased", fmt.Sprintf("NewCodec(charcode.%s): err=%v, the exported value reads %s afterwards (was %s)", name, err, ccCSRWire(*v), before))
			continue
		}
		rep := codec.CodeSpaceRange()
		ccScramble(rep)
		if ccCSRWire(*v) != before {
			bad("returned-value-aliased", fmt.Sprintf("changing CodeSpaceRange() of NewCodec(charcode.%s) changed charcode.%s to %s", name, name, ccCSRWire(*v)))
		}
	}
	if want := "00:7f,c280:dfbf,e08080:efbfbf,f0808080:f4bfbfbf"; ccCSRWire(charcode.UTF8) != want {
		bad("input-aliased", "charcode.UTF8 reads "+ccCSRWire(charcode.UTF8))
	}
	return
}

func runC12Alias(c *Ctx) {
	r := c.R
	report := func(viol [][2]string, replay string) {
		for _, v := range viol {
			c.Violate(v[0], v[0], v[1], replay)
		}
	}
	report(ccSharedObjects(c, r.Fork()), "shared 1")
	c.Case("shared objects", true)

	// ownership on the corpus and on random sets
	for _, csr := range ccCorpus() {
		report(ccOwnership(c, r.Fork(), csr), "own "+ccCSRWire(csr))
		c.Case("own "+ccCSRWire(csr), true)
	}
	nOwn := 300
	nGroups := 120
	if c.Thorough {
		nOwn = 6000
		nGroups = 2500
	}
	for i := 0; i < nOwn; i++ {
		rr := r.Fork()
		st := rr.s
		csr := ccRandomSet(rr, 6)
		report(ccOwnership(c, rr, csr), "ownrand "+strconv.FormatUint(st, 10))
		c.Case("own "+ccCSRWire(csr), true)
		c.Stat("ownership_sets")
	}
	report(ccSharedObjects(c, r.Fork()), "shared 2")

	// groups with coinciding flattened bytes, in varying orders
	report(ccFixedGroups(c, NewRand(1)), "fixedgroups 1")
	for i := 0; i < nGroups; i++ {
		rr := r.Fork()
		st := rr.s
		groups := ccFlatGroups(rr, 40)
		g := Pick(rr, groups)
		order := ccPermutation(rr, len(g))
		report(ccBuildGroup(c, rr, g, order), "group "+strconv.FormatUint(st, 10))
		c.Case("group "+ccCSRWire(g[order[0]])+" first of "+strconv.Itoa(len(g)), true)
		c.Stat("flat_groups")
	}
}

// ccFixedGroups: the hand-written groups in the written order, in reverse, and in two random orders.
func ccFixedGroups(c *Ctx, r *Rand) (viol [][2]string) {
	for _, g := range ccFlatGroups(r, 0) {
		n := len(g)
		fwd := make([]int, n)
		rev := make([]int, n)
		for k := range fwd {
			fwd[k] = k
			rev[k] = n - 1 - k
		}
		for _, order := range [][]int{fwd, rev, ccPermutation(r, n), ccPermutation(r, n)} {
			viol = append(viol, ccBuildGroup(c, r, g, order)...)
			if c != nil {
				c.Case("fixed group "+ccCSRWire(g[order[0]])+" first", true)
				c.Stat("flat_groups")
			}
		}
	}
	return
}

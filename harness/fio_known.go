package main

import (
	"bytes"
	"fmt"

	"seehuhn.de/go/pdf"
)

// FIO work package: fixed witnesses of the findings of notes/C02.md which need
// programs larger than the random generator makes (F1, F2) and the two small
// ones (F3, F4).  Each is evaluated with the C02 oracle (write, reopen, compare)
// on every run and reported under its class key.

func init() {
	addRun("C02", "fixed witnesses: 10001 objects in one WriteCompressed; 30000 objects in three object streams; Put under number 20000 without Alloc and 200000 unused Allocs (xref stream and table form); Put of a stream object while a stream is open; WriteCompressed without objects", runFIOKnown)
	addReplay("C02", "fio-fixed", replayFIOKnown)
}

type fioFixed struct {
	name, key string
	run       func() (ok bool, detail string)
}

func fioManyCompressed(total, per int) (bool, string) {
	buf := &bytes.Buffer{}
	w, err := pdf.NewWriter(buf, pdf.V1_7, nil)
	if err != nil {
		return false, err.Error()
	}
	w.GetMeta().Catalog.Pages = w.Alloc()
	var all []pdf.Reference
	for done := 0; done < total; done += per {
		var refs []pdf.Reference
		var objs []pdf.Object
		for i := 0; i < per && done+i < total; i++ {
			refs = append(refs, w.Alloc())
			objs = append(objs, pdf.Integer(7))
		}
		if err := w.WriteCompressed(refs, objs...); err != nil {
			return true, "the writer refuses the program: " + err.Error()
		}
		all = append(all, refs...)
	}
	if err := w.Close(); err != nil {
		return true, "the writer refuses the program: " + err.Error()
	}
	r, err := pdf.NewReader(bytes.NewReader(buf.Bytes()), int64(buf.Len()), nil)
	if err != nil {
		return false, fmt.Sprintf("%d objects in object streams of %d: file of %d bytes written without error, NewReader: %v", total, per, buf.Len(), err)
	}
	for _, ref := range []pdf.Reference{all[0], all[len(all)/2], all[len(all)-1]} {
		o, err := r.Get(ref, true)
		if err != nil || o != pdf.Integer(7) {
			return false, fmt.Sprintf("%d objects in object streams of %d: Get(%v) = %v, %v", total, per, ref, o, err)
		}
	}
	return true, "all objects read back"
}

func fioSparse(num uint32, allocs int) (bool, string) { return fioSparseV(num, allocs, pdf.V1_7) }

func fioSparseV(num uint32, allocs int, v pdf.Version) (bool, string) {
	buf := &bytes.Buffer{}
	w, err := pdf.NewWriter(buf, v, nil)
	if err != nil {
		return false, err.Error()
	}
	w.GetMeta().Catalog.Pages = w.Alloc()
	ref := w.Alloc()
	if num != 0 {
		ref = pdf.NewReference(num, 0)
	}
	for i := 0; i < allocs; i++ {
		w.Alloc()
	}
	if err := w.Put(ref, pdf.Dict{"A": pdf.Integer(1)}); err != nil {
		return true, "the writer refuses the program: " + err.Error()
	}
	if err := w.Close(); err != nil {
		return true, "the writer refuses the program: " + err.Error()
	}
	r, err := pdf.NewReader(bytes.NewReader(buf.Bytes()), int64(buf.Len()), nil)
	if err != nil {
		return false, fmt.Sprintf("Put(%v) after %d unused Alloc calls at %v: file of %d bytes written without error, NewReader: %v", ref, allocs, v, buf.Len(), err)
	}
	o, err := r.Get(ref, true)
	if d, ok := o.(pdf.Dict); err != nil || !ok || d["A"] != pdf.Integer(1) {
		return false, fmt.Sprintf("Get(%v) = %v, %v", ref, o, err)
	}
	return true, "read back"
}

var fioFixedCases = []fioFixed{
	{"objstm-10001", "objstm-more-than-10000-objects", func() (bool, string) { return fioManyCompressed(10001, 10001) }},
	{"objstm-10000", "objstm-10000-objects", func() (bool, string) { return fioManyCompressed(10000, 10000) }},
	{"xref-30000", "xref-stream-entry-cap", func() (bool, string) { return fioManyCompressed(30000, 10000) }},
	{"xref-20000", "xref-stream-20000", func() (bool, string) { return fioManyCompressed(20000, 10000) }},
	{"sparse-20000", "xref-stream-entry-cap", func() (bool, string) {
		// Put under a number nobody allocated: numbers 2..19999 become free entries
		return fioSparse(20000, 0)
	}},
	{"alloc-200000", "xref-stream-entry-cap", func() (bool, string) { return fioSparse(0, 200000) }},
	{"sparse-20000-table", "xref-table-sparse", func() (bool, string) { return fioSparseV(20000, 0, pdf.V1_4) }},
	{"stream-in-stream", "put-stream-while-stream-open", func() (bool, string) {
		p, _ := fioParseProg("8~0~1~0~0~0~-~-~-~0~-|A|A|O~2~0~d>~-~-1|W~68656c6c6f|S~3~0~d>~696e6e6572~-~-1|C")
		res := fioExec(p, nil)
		if res.failedAt != -1 {
			return false, fmt.Sprintf("Put(stream) while a stream is open is accepted, then op %d fails: %v", res.failedAt, res.err)
		}
		if v := oracleFileRoundTrip(res); len(v) > 0 {
			return false, v[0].key + ": " + v[0].desc
		}
		return true, "deferred stream written"
	}},
	{"writecompressed-empty", "writecompressed-empty-panic", func() (bool, string) {
		p, _ := fioParseProg("8~0~1~0~0~0~-~-~-~0~-|A|Z")
		res := fioExec(p, nil)
		if res.panicked {
			return false, "WriteCompressed() without objects: " + res.err.Error()
		}
		if res.failedAt != -1 {
			return true, "refused: " + res.err.Error()
		}
		if v := oracleFileRoundTrip(res); len(v) > 0 {
			return false, v[0].key + ": " + v[0].desc
		}
		return true, "no-op"
	}},
}

// fioSplitCorrespondence: 10001 members in one WriteCompressed call; the
// model must split them over two object streams exactly like the code.
func fioSplitCorrespondence(c *Ctx) {
	p := &fioProg{version: pdf.V1_7, seekable: true}
	n := 10001
	for i := 0; i < n; i++ {
		p.ops = append(p.ops, fioOp{kind: 'A', same: -1})
	}
	op := fioOp{kind: 'Z', same: -1}
	for i := 0; i < n; i++ {
		op.refs = append(op.refs, pdf.NewReference(uint32(2+i), 0)) // 1 is the Pages reference
		op.objs = append(op.objs, pdf.Integer(i%7))
	}
	p.ops = append(p.ops, op)
	res := fioExec(p, nil)
	c.Case("fixed split-10001", true)
	if res.failedAt != -1 {
		c.Violate("fio-fixed", "objstm-more-than-10000-objects", fmt.Sprintf("10001 members: op %d failed: %v", res.failedAt, res.err), "objstm-10001")
		return
	}
	// (the read-back oracle for this program is the fixed case objstm-10001)
	line, err := fioModelLine(res)
	if err != nil {
		c.Violate("fio-fixed", "file-not-parseable", err.Error(), "objstm-10001")
		return
	}
	c.Stat("fixed_split_correspondence")
	c.Emit(line, "ok "+hexWire(res.file))
}

func runFIOKnown(c *Ctx) {
	wireNilDict = true
	if c.Thorough {
		// the model needs about 25 s for this one line (association-list lookups)
		fioSplitCorrespondence(c)
	}
	for _, fc := range fioFixedCases {
		c.Case("fixed "+fc.name, true)
		c.Stat("fixed_cases")
		ok, detail := fc.run()
		if !ok {
			c.Violate("fio-fixed", fc.key, detail, fc.name)
		}
	}
}

func replayFIOKnown(input string) (bool, string) {
	for _, fc := range fioFixedCases {
		if fc.name == input {
			return fc.run()
		}
	}
	return true, "unknown fixed case " + input
}

package main

import (
	"bytes"
	"crypto/aes"
	"crypto/cipher"
	"crypto/md5"
	"crypto/rc4"
	"crypto/sha256"
	"crypto/sha512"
	"fmt"
	"io"

	"seehuhn.de/go/pdf"
)

// Unit-level correspondence lines of the security work package: known-answer
// lines for the executable Lean primitives (against Go's crypto/*) and the
// functions of crypto.go one by one (against Model/SECSecurity.lean).
// Registered for both C09 and C10 because both rely on the primitives.

func secKAT(c *Ctx) {
	r := c.R.Fork()
	n := 60
	if c.Thorough {
		n = 600
	}
	lens := []int{0, 1, 3, 55, 56, 57, 63, 64, 65, 111, 112, 113, 119, 120, 127, 128, 129, 200, 1000}
	for i := 0; i < n; i++ {
		var l int
		if i < len(lens) {
			l = lens[i]
		} else {
			l = r.Intn(300)
		}
		x := r.Bytes(l)
		m := md5.Sum(x)
		c.Emit("SEC md5 "+hexWire(x), hexWire(m[:]))
		s2 := sha256.Sum256(x)
		c.Emit("SEC sha256 "+hexWire(x), hexWire(s2[:]))
		s3 := sha512.Sum384(x)
		c.Emit("SEC sha384 "+hexWire(x), hexWire(s3[:]))
		s5 := sha512.Sum512(x)
		c.Emit("SEC sha512 "+hexWire(x), hexWire(s5[:]))

		key := r.Bytes(1 + r.Intn(32))
		if i%7 == 0 {
			key = r.Bytes(1 + r.Intn(256))
		}
		rc, _ := rc4.NewCipher(key)
		out := make([]byte, len(x))
		rc.XORKeyStream(out, x)
		c.Emit("SEC rc4 "+hexWire(key)+" "+hexWire(x), hexWire(out))

		ak := r.Bytes(Pick(r, []int{16, 24, 32}))
		blk := r.Bytes(16)
		ac, _ := aes.NewCipher(ak)
		eb := make([]byte, 16)
		ac.Encrypt(eb, blk)
		c.Emit("SEC aesenc "+hexWire(ak)+" "+hexWire(blk), hexWire(eb))
		db := make([]byte, 16)
		ac.Decrypt(db, blk)
		c.Emit("SEC aesdec "+hexWire(ak)+" "+hexWire(blk), hexWire(db))

		nb := r.Intn(6)
		data := r.Bytes(16 * nb)
		iv := r.Bytes(16)
		ce := make([]byte, len(data))
		cipher.NewCBCEncrypter(ac, iv).CryptBlocks(ce, data)
		c.Emit("SEC cbcenc "+hexWire(ak)+" "+hexWire(iv)+" "+hexWire(data), hexWire(ce))
		cd := make([]byte, len(data))
		cipher.NewCBCDecrypter(ac, iv).CryptBlocks(cd, data)
		c.Emit("SEC cbcdec "+hexWire(ak)+" "+hexWire(iv)+" "+hexWire(data), hexWire(cd))
		c.Stat("kat-round")
	}
}

func showBytesRes(b []byte, err error) string {
	if err != nil {
		return "err " + errClass(err)
	}
	return "ok " + hexWire(b)
}

// chunkReader delivers data as the model's Src does: at most sizes[i] bytes
// on the i-th call (then as many as asked for), io.EOF together with the
// last bytes or on the following call.
type chunkReader struct {
	rest        []byte
	sizes       []int
	eofWithData bool
}

func (s *chunkReader) Read(p []byte) (int, error) {
	want := len(p)
	if len(s.sizes) > 0 {
		if s.sizes[0] < want {
			want = s.sizes[0]
		}
		s.sizes = s.sizes[1:]
	}
	n := want
	if n > len(s.rest) {
		n = len(s.rest)
	}
	copy(p, s.rest[:n])
	s.rest = s.rest[n:]
	if len(s.rest) == 0 && (s.eofWithData || n == 0) {
		return n, io.EOF
	}
	return n, nil
}

// readWants reads r to the end using buffers of the given sizes (then 512).
func readWants(r io.Reader, wants []int) ([]byte, error) {
	var out []byte
	for i := 0; ; i++ {
		w := 512
		if i < len(wants) {
			w = wants[i]
		}
		buf := make([]byte, w)
		n, err := r.Read(buf)
		out = append(out, buf[:n]...)
		if err == io.EOF {
			return out, nil
		}
		if err != nil {
			return nil, err
		}
		if i > 1<<20 {
			return nil, fmt.Errorf("reader does not end")
		}
	}
}

type nopWC struct{ bytes.Buffer }

func (n *nopWC) Close() error { return nil }

func secGenRef(r *Rand) pdf.Reference {
	var num uint32
	switch r.Intn(5) {
	case 0:
		num = uint32(1 + r.Intn(50))
	case 1:
		num = uint32(Pick(r, []int{1, 255, 256, 257, 65535, 65536, 65537, 1<<24 - 1, 0x010203, 0xa1b2c3}))
	default:
		num = uint32(1 + r.Intn(1<<24-1))
	}
	gen := uint16(0)
	if r.P(1, 2) {
		gen = uint16(Pick(r, []int{1, 2, 255, 256, 257, 65535, r.Intn(65536)}))
	}
	return pdf.NewReference(num, gen)
}

func secUnit(c *Ctx) {
	r := c.R.Fork()
	scale := 1
	if c.Thorough {
		scale = 12
	}

	// --- password preparation
	for i := 0; i < 150*scale; i++ {
		pw := genPassword(r)
		b, err := pdf.VerifPadPasswd(pw)
		c.Emit("SEC pad "+pwPDFDoc(pw), showBytesRes(b, err))
		b, err = pdf.VerifUtf8Passwd(pw)
		c.Emit("SEC utf8 "+pwSASL(pw), showBytesRes(b, err))
		if err != nil {
			c.Stat("pw-sasl-rejected")
		}
		if _, ok := pdf.PDFDocEncode(pw); !ok {
			c.Stat("pw-no-pdfdoc")
		}
		c.Stat(fmt.Sprintf("pw-len-class-%d", lenClass(len(pw))))
	}

	// --- permission algebra: exhaustive on the arguments that matter
	for p := 0; p < 128; p++ {
		c.Emit(fmt.Sprintf("SEC permtop %d", p), fmt.Sprint(pdf.VerifPermToP(pdf.Perm(p))))
		cr := "f"
		if pdf.VerifCanR2(pdf.Perm(p)) {
			cr = "t"
		}
		c.Emit(fmt.Sprintf("SEC canr2 %d", p), cr)
	}
	pbits := []uint{2, 3, 4, 5, 8, 10, 11} // bits 3,4,5,6,9,11,12
	for _, R := range []int{2, 3, 4, 5, 6} {
		for m := 0; m < 128; m++ {
			var P uint32
			for j, b := range pbits {
				if m>>uint(j)&1 == 1 {
					P |= 1 << b
				}
			}
			for _, other := range []uint32{0, 0xfffff0c0, uint32(r.U64()) &^ 0xd3c} {
				Pv := P | (other &^ 0xd3c)
				c.Emit(fmt.Sprintf("SEC ptoperm %d %d", R, Pv), fmt.Sprint(int(pdf.VerifPToPerm(R, Pv))))
			}
		}
	}
	c.Stat("perm-table-exhaustive")

	// --- PKCS#7
	for i := 0; i < 400*scale; i++ {
		var buf []byte
		switch r.Intn(6) {
		case 0: // valid
			n := r.Intn(70)
			pad := 16 - n%16
			buf = append(r.Bytes(n), bytes.Repeat([]byte{byte(pad)}, pad)...)
		case 1: // wrong length
			buf = r.Bytes(r.Intn(50))
		case 2: // one padding byte damaged
			n := r.Intn(40)
			pad := 16 - n%16
			buf = append(r.Bytes(n), bytes.Repeat([]byte{byte(pad)}, pad)...)
			buf[len(buf)-1-r.Intn(pad)] ^= byte(1 + r.Intn(255))
		case 3: // pad byte 0 or > 16
			buf = r.Bytes(16 * (1 + r.Intn(3)))
			buf[len(buf)-1] = Pick(r, []byte{0, 17, 18, 32, 255})
		case 4: // whole block of 16
			buf = append(r.Bytes(16*r.Intn(3)), bytes.Repeat([]byte{16}, 16)...)
		default:
			buf = r.Bytes(16 * r.Intn(4))
		}
		in := bytes.Clone(buf)
		b, err := pdf.VerifUnpadPKCS7(buf)
		c.Emit("SEC unpad "+hexWire(in), showBytesRes(b, err))
		if err != nil {
			c.Stat("unpad-err")
		} else {
			c.Stat("unpad-ok")
		}
	}

	// --- tryCrop
	for i := 0; i < 60*scale; i++ {
		l := Pick(r, []int{32, 48})
		n := l - 3 + r.Intn(12)
		s := r.Bytes(n)
		if n > l && r.P(2, 3) {
			for j := l; j < n; j++ {
				s[j] = 0
			}
			if r.P(1, 4) {
				s[l+r.Intn(n-l)] = 1
			}
		}
		c.Emit(fmt.Sprintf("SEC trycrop %s %d", hexWire(s), l), hexWire([]byte(pdf.VerifTryCrop(pdf.String(s), l))))
	}

	// --- KeyForRef, EncryptBytes, DecryptBytes
	for i := 0; i < 300*scale; i++ {
		R := Pick(r, []int{2, 3, 4, 6})
		ciph := "rc4"
		kb := 5
		switch R {
		case 2:
			kb = 5
		case 3:
			kb = Pick(r, []int{5, 6, 7, 10, 11, 12, 15, 16})
		case 4:
			kb = 16
			ciph = Pick(r, []string{"aes", "aes", "rc4"})
		case 6:
			kb = 32
			ciph = Pick(r, []string{"aes", "aes", "aes", "rc4"})
		}
		if r.P(1, 25) {
			ciph = "none"
		}
		key := r.Bytes(kb)
		keyS := hexWire(key)
		if r.P(1, 20) {
			key = nil
			keyS = "!"
		}
		ref := secGenRef(r)
		if r.P(1, 12) {
			// a reference value outside what NewReference admits: the number
			// field is 32 bits wide, KeyForRef uses its low three bytes
			ref = pdf.Reference(uint64(uint32(r.U64())) | uint64(r.Intn(65536))<<32)
		}
		num, gen := ref.Number(), ref.Generation()
		enc := pdf.VerifNewEncInfo(ciph, R, kb, key)
		k, err := enc.KeyForRef(ciph == "aes", ref)
		c.Emit(fmt.Sprintf("SEC keyforref %d %d %d %s %d %d", R, kb, secB2i(ciph == "aes"), keyS, num, gen), showBytesRes(k, err))

		plain := r.Bytes(r.Intn(70))
		if r.P(1, 6) {
			plain = r.Bytes(16 * r.Intn(5))
		}
		var ct []byte
		var used int
		withRecRand(r, func(rec *recRand) {
			ct, err = enc.EncryptBytes(ref, bytes.Clone(plain))
			used = len(rec.log)
			ivs := hexWire(append(bytes.Clone(rec.log), r.Bytes(8)...))
			if err != nil {
				c.Emit(fmt.Sprintf("SEC encbytes %s %d %d %s %d %d %s %s", ciph, R, kb, keyS, num, gen, ivs, hexWire(plain)), "err "+errClass(err))
			} else {
				c.Emit(fmt.Sprintf("SEC encbytes %s %d %d %s %d %d %s %s", ciph, R, kb, keyS, num, gen, ivs, hexWire(plain)),
					fmt.Sprintf("ok %s used=%d", hexWire(ct), used))
			}
		})
		if err == nil {
			// oracle (C09): decrypt(encrypt x) == x
			back, derr := enc.DecryptBytes(ref, bytes.Clone(ct))
			if derr != nil || !bytes.Equal(back, plain) {
				c.Violate("bytes-roundtrip", "C09-bytes-roundtrip", fmt.Sprintf("DecryptBytes(EncryptBytes(x)) != x for %s R=%d", ciph, R),
					fmt.Sprintf("%s %d %d %s %d %d %s", ciph, R, kb, keyS, num, gen, hexWire(plain)))
			}
			c.Case(fmt.Sprintf("bytes %s %d %d %x", ciph, R, len(plain), plain), len(plain) > 0)
			// decryption of valid and damaged ciphertext
			d := bytes.Clone(ct)
			switch r.Intn(5) {
			case 0:
				if len(d) > 0 {
					d[r.Intn(len(d))] ^= byte(1 + r.Intn(255))
				}
			case 1:
				d = d[:r.Intn(len(d)+1)]
			case 2:
				d = append(d, r.Bytes(1+r.Intn(20))...)
			}
			in := bytes.Clone(d)
			p2, derr := enc.DecryptBytes(ref, d)
			c.Emit(fmt.Sprintf("SEC decbytes %s %d %d %s %d %d %s", ciph, R, kb, keyS, num, gen, hexWire(in)), showBytesRes(p2, derr))
			if derr != nil {
				c.Stat("decbytes-err")
			}
		} else {
			c.Stat("encbytes-err-" + errClass(err))
		}
	}

	// --- EncryptStream / DecryptStream as machines under chunking
	for i := 0; i < 200*scale; i++ {
		R := Pick(r, []int{2, 3, 4, 6})
		ciph := "rc4"
		kb := 5
		switch R {
		case 3:
			kb = Pick(r, []int{5, 16})
		case 4:
			kb = 16
			ciph = Pick(r, []string{"aes", "aes", "rc4"})
		case 6:
			kb = 32
			ciph = "aes"
		}
		key := r.Bytes(kb)
		keyS := hexWire(key)
		ref := secGenRef(r)
		num, gen := ref.Number(), ref.Generation()
		enc := pdf.VerifNewEncInfo(ciph, R, kb, key)
		total := r.Intn(120)
		if r.P(1, 5) {
			total = 16 * r.Intn(6)
		}
		plain := r.Bytes(total)
		// split into chunks
		var chunks [][]byte
		rest := plain
		for len(rest) > 0 {
			k := 1 + r.Intn(40)
			if r.P(1, 6) {
				k = 16
			}
			if k > len(rest) {
				k = len(rest)
			}
			chunks = append(chunks, rest[:k])
			rest = rest[k:]
			if r.P(1, 10) {
				chunks = append(chunks, nil)
			}
		}
		var out nopWC
		var rngLog []byte
		var werr error
		withRecRand(r, func(rec *recRand) {
			var w io.WriteCloser
			w, werr = enc.EncryptStream(ref, &out)
			if werr == nil {
				for _, ch := range chunks {
					if _, werr = w.Write(ch); werr != nil {
						break
					}
				}
				if werr == nil {
					werr = w.Close()
				}
			}
			rngLog = rec.log
		})
		op := fmt.Sprintf("SEC encstream %s %d %d %s %d %d %s %s", ciph, R, kb, keyS, num, gen, hexWire(append(bytes.Clone(rngLog), 7, 7)), hexList(chunks))
		if werr != nil {
			c.Emit(op, "err "+errClass(werr))
			continue
		}
		c.Emit(op, fmt.Sprintf("ok %s used=%d", hexWire(out.Bytes()), len(rngLog)))

		// read back under a random chunking of the underlying reader
		data := bytes.Clone(out.Bytes())
		switch r.Intn(8) {
		case 0:
			if len(data) > 0 {
				data = data[:r.Intn(len(data)+1)]
			}
		case 1:
			data = append(data, r.Bytes(1+r.Intn(17))...)
		case 2:
			if len(data) > 0 {
				data[len(data)-1-r.Intn(min(16, len(data)))] ^= byte(1 + r.Intn(255))
			}
		}
		var sizes, wants []int
		for j := r.Intn(30); j > 0; j-- {
			sizes = append(sizes, Pick(r, []int{0, 1, 1, 2, 7, 15, 16, 17, 31, 32, 33, 100}))
		}
		for j := r.Intn(12); j > 0; j-- {
			wants = append(wants, Pick(r, []int{1, 2, 5, 15, 16, 17, 32, 100}))
		}
		eofWith := r.Bool()
		src := &chunkReader{rest: bytes.Clone(data), sizes: append([]int(nil), sizes...), eofWithData: eofWith}
		var got []byte
		dr, derr := enc.DecryptStream(ref, src)
		if derr == nil {
			got, derr = readWants(dr, wants)
		}
		c.Emit(fmt.Sprintf("SEC decstream %s %d %d %s %d %d %s %s %d %s", ciph, R, kb, keyS, num, gen, hexWire(data), intList(sizes), secB2i(eofWith), intList(wants)),
			showBytesRes(got, derr))
		if derr != nil {
			c.Stat("decstream-err")
		} else {
			c.Stat("decstream-ok")
		}
		if bytes.Equal(data, out.Bytes()) {
			// oracle (C09): stream round trip under any chunking
			if derr != nil || !bytes.Equal(got, plain) {
				c.Violate("stream-roundtrip", "C09-stream-roundtrip", fmt.Sprintf("DecryptStream(EncryptStream(x)) != x for %s R=%d len=%d (%v)", ciph, R, len(plain), derr),
					fmt.Sprintf("%s %d %d %s %d %d %s", ciph, R, kb, keyS, num, gen, hexWire(plain)))
			}
			c.Case(fmt.Sprintf("stream %s %d %x", ciph, R, plain), len(plain) > 0)
		}
	}

	// --- Algorithm 2.B
	nh := 6
	if c.Thorough {
		nh = 40
	}
	for i := 0; i < nh; i++ {
		pw := r.Bytes(r.Intn(40))
		if i == 0 {
			pw = nil
		}
		if i == 1 {
			pw = r.Bytes(127)
		}
		salt := r.Bytes(8)
		var u []byte
		if r.Bool() {
			u = r.Bytes(48)
		}
		c.Emit(fmt.Sprintf("SEC slowhash %s %s %s", hexWire(pw), hexWire(salt), hexWire(u)), hexWire(pdf.VerifSlowHash(pw, salt, u)))
	}

	// boundary inputs of the loop condition "last byte of E > round - 32": found with an
	// instrumented copy of the algorithm (used for selecting inputs only)
	nb := 0
	for try := 0; try < 4000 && nb < 6; try++ {
		pw := r.Bytes(r.Intn(12))
		salt := r.Bytes(8)
		if slowHashBoundary(pw, salt, nil) {
			nb++
			c.Emit(fmt.Sprintf("SEC slowhash %s %s -", hexWire(pw), hexWire(salt)), hexWire(pdf.VerifSlowHash(pw, salt, nil)))
			c.Stat("slowhash-boundary-input")
		}
	}

	// --- createStdSecHandler
	nc := 40 * scale
	r6 := 0
	for i := 0; i < nc; i++ {
		V := Pick(r, []int{1, 1, 2, 2, 4, 4, 5, 3, 0, 6})
		length := 40
		switch V {
		case 2, 3:
			length = Pick(r, []int{40, 48, 56, 64, 80, 96, 104, 120, 128})
		case 4:
			length = 128
		case 5:
			length = 256
		}
		if V == 5 {
			r6++
			if r6 > 3*scale {
				V, length = 4, 128
			}
		}
		user, owner := genPassword(r), genPassword(r)
		perm := pdf.Perm(r.Intn(128))
		um := r.P(1, 3)
		id := r.Bytes(Pick(r, []int{0, 1, 16, 16, 20, 32}))
		var sec *pdf.VerifSec
		var err error
		var log []byte
		withRecRand(r, func(rec *recRand) {
			sec, err = pdf.VerifCreateStdSec(id, user, owner, perm, length, V, um)
			log = rec.log
		})
		op := fmt.Sprintf("SEC create %d %d %d %d %s %s %s %s %s %d %s", V, length, int(perm), secB2i(um), hexWire(id),
			pwPDFDoc(user), pwSASL(user), pwPDFDoc(owner), pwSASL(owner), secB2i(owner == ""), hexWire(append(bytes.Clone(log), 1, 2, 3)))
		if err != nil {
			c.Emit(op, "err "+errClass(err))
			c.Stat("create-err")
			continue
		}
		c.Emit(op, fmt.Sprintf("ok %s used=%d", secShow(sec), len(log)))
		c.Stat(fmt.Sprintf("create-R%d", sec.R))
	}
}

func lenClass(n int) int {
	switch {
	case n == 0:
		return 0
	case n <= 32:
		return 32
	case n <= 127:
		return 127
	}
	return 128
}

// slowHashBoundary runs Algorithm 2.B and reports whether at some check from
// round 64 on the last byte of E was exactly at the boundary of the loop
// condition (equal to round-32 or round-31), so that an off-by-one in the
// condition changes the number of rounds.
func slowHashBoundary(pw, salt, u []byte) bool {
	h := sha256.New()
	h.Write(pw)
	h.Write(salt)
	h.Write(u)
	K := h.Sum(nil)
	hit := false
	var last byte
	for i := 0; ; i++ {
		if i >= 64 {
			if int(last) == i-32 || int(last) == i-31 {
				hit = true
			}
			if int(last) <= i-32 {
				break
			}
		}
		var k1 []byte
		for j := 0; j < 64; j++ {
			k1 = append(k1, pw...)
			k1 = append(k1, K...)
			k1 = append(k1, u...)
		}
		blk, _ := aes.NewCipher(K[:16])
		cipher.NewCBCEncrypter(blk, K[16:32]).CryptBlocks(k1, k1)
		sum := 0
		for _, b := range k1[:16] {
			sum += int(b)
		}
		switch sum % 3 {
		case 0:
			x := sha256.Sum256(k1)
			K = x[:]
		case 1:
			x := sha512.Sum384(k1)
			K = x[:]
		default:
			x := sha512.Sum512(k1)
			K = x[:]
		}
		last = k1[len(k1)-1]
	}
	return hit
}

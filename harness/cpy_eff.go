package main

import (
	"bytes"
	"fmt"
	"strconv"
	"strings"

	"seehuhn.de/go/pdf"
)

// C11 — sources the library's Writer cannot produce: files with crypt filters in which /StmF,
// /StrF and /EFF select the standard crypt filter or Identity independently (e.g. "encrypt
// attachments only": /StmF /Identity /StrF /Identity /EFF /StdCF).  They are encrypted by the
// Lean Spec of the standard security handler and assembled by hand (specFile of sec_c10.go, the
// builder of C10's "files made by the Spec"): strings, an ordinary stream, an /EmbeddedFile
// stream and (AES) the catalog's XMP metadata stream, each with a known plaintext.  A source is
// used only if the real Reader recovers every plaintext from it (specFile.check).
//
// Which crypt filter a stream was stored with is the Reader's business (x.crypt, decided per
// stream: /EFF for /Type /EmbeddedFile, /StmF otherwise): the Copier has to install what the
// Reader decrypts, whatever /StmF says.

var cpyEffSelections = []string{"SSS", "SSI", "SIS", "SII", "ISS", "ISI", "IIS", "III"}

// genSpecFile indices: 5 = V4 with RC4 (CFM V2), 6 = V4 with AESV2, 4 = V5 with AESV3
var cpyEffMethods = []int{5, 6, 4}

type cpyForeign struct {
	seed uint64
	k    int // selection and method: k%8, k/8%3
	f    *specFile
	data []byte
}

func (fo *cpyForeign) item(ref pdf.Reference) *specItem {
	for i := range fo.f.items {
		if fo.f.items[i].ref == ref {
			return &fo.f.items[i]
		}
	}
	return nil
}

// cpyEffSpec regenerates the Spec's description of the source file of case (seed, k)
func cpyEffSpec(seed uint64, k int) *specFile {
	f := genSpecFile(&Rand{s: seed}, cpyEffMethods[k/8%3])
	f.sel = cpyEffSelections[k%8]
	return f
}

// cpyEffCase makes the copier case around an assembled file
func cpyEffCase(seed uint64, k int, f *specFile, data []byte) *cpyCase {
	r := &Rand{s: seed ^ 0x0eff0eff}
	cs := &cpyCase{seed: seed, features: map[string]bool{}, srcSeekable: true}
	switch f.method {
	case "v2cf":
		cs.srcVer = pdf.V1_5
	case "aesv2":
		cs.srcVer = pdf.V1_6
	default:
		cs.srcVer = pdf.V2_0
	}
	cs.srcPw = f.owner // never empty
	cs.tgtVer = Pick(r, cpyVersions)
	if r.P(1, 2) {
		cs.tgtPw = "tgt-" + string(rune('a'+r.Intn(26)))
	}
	cs.tgtSeekable = r.P(4, 5)
	cs.tgtHuman = r.P(1, 6)
	if r.P(1, 5) {
		cs.tgtOpen = true
		cs.features["target-stream-open"] = true
	}
	cs.features["crypt-filter-selection"] = true
	cs.features["sel-"+f.method+"-"+f.sel] = true
	cs.foreign = &cpyForeign{seed: seed, k: k, f: f, data: data}
	for i := range f.items {
		it := &f.items[i]
		nd := &cpyNode{ref: it.ref, kind: nkObj, noTruth: true}
		if it.isStream {
			nd.kind = nkStream
			nd.meta = it.kind == 'm'
		} else {
			nd.obj = pdf.Dict{"S": pdf.String(it.plain)} // (only tells the program generator that there is something to copy)
		}
		cs.nodes = append(cs.nodes, nd)
	}
	return cs
}

// buildForeign opens the assembled file with the real Reader
func buildForeign(cs *cpyCase) (*cpyBuilt, error) {
	fo := cs.foreign
	rd, err := pdf.NewReader(bytes.NewReader(fo.data), int64(len(fo.data)), &pdf.ReaderOptions{Password: cs.srcPw, ErrorHandling: pdf.ErrorHandlingReport})
	if err != nil {
		return nil, fmt.Errorf("source NewReader (Spec-made file): %w", err)
	}
	b := &cpyBuilt{cs: cs, srcData: fo.data, reader: rd, S: &cpySrc{r: rd, nodes: map[pdf.Reference]*cpyNode{}}}
	for _, nd := range cs.nodes {
		b.S.nodes[nd.ref] = nd
	}
	return b, nil
}

// genCpyEffCases: n cases, every (method, selection) in turn; one call of the Lean driver encrypts
// all the files
func genCpyEffCases(rr *Rand, n int) (cases []*cpyCase, inputs []string, skipped []string) {
	type pend struct {
		seed uint64
		k    int
		f    *specFile
	}
	var ps []pend
	var lines []string
	for i := 0; i < n; i++ {
		seed := rr.U64()
		f := cpyEffSpec(seed, i%24)
		ps = append(ps, pend{seed, i % 24, f})
		lines = append(lines, f.opLine())
	}
	ans, err := askDriver(lines)
	if err != nil {
		return nil, nil, []string{"the Lean driver did not encrypt the sources: " + err.Error()}
	}
	for i, p := range ps {
		data, err := p.f.assemble(ans[i])
		if err != nil {
			skipped = append(skipped, p.f.describe()+": assemble: "+err.Error())
			continue
		}
		if k, desc, _ := p.f.check(data); k != "" {
			// the SOURCE has to decode before a copy of it says anything (a finding for C10, not here)
			skipped = append(skipped, p.f.describe()+": the Reader does not recover the source: "+k+": "+desc)
			continue
		}
		cases = append(cases, cpyEffCase(p.seed, p.k, p.f, data))
		inputs = append(inputs, fmt.Sprintf("eff %d:%d", p.seed, p.k))
	}
	return
}

// cpyEffReplay: "eff <seed>:<k>"
func cpyEffReplay(arg string) (*cpyCase, string) {
	parts := strings.Split(arg, ":")
	if len(parts) != 2 {
		return nil, "bad replay input"
	}
	seed, err1 := strconv.ParseUint(parts[0], 10, 64)
	k, err2 := strconv.Atoi(parts[1])
	if err1 != nil || err2 != nil || k < 0 || k >= 24 {
		return nil, "bad replay input"
	}
	f := cpyEffSpec(seed, k)
	ans, err := askDriver([]string{f.opLine()})
	if err != nil {
		return nil, "driver: " + err.Error()
	}
	data, err := f.assemble(ans[0])
	if err != nil {
		return nil, "assemble: " + err.Error()
	}
	if key, desc, _ := f.check(data); key != "" {
		return nil, "the Reader does not recover the source: " + key + ": " + desc
	}
	return cpyEffCase(seed, k, f, data), ""
}

// cpyEffTruth: what the target holds under t, the copy of the source item it, must be the
// plaintext the Spec encrypted — independent of every read path of the library on the source.
func cpyEffTruth(T pdf.Getter, fo *cpyForeign, it *specItem, t pdf.Reference) (string, string) {
	tv, err := T.Get(t, true)
	if err != nil {
		return "target-unreadable", fmt.Sprintf("target %v: %v", t, err)
	}
	kind := map[byte]string{'s': "strings", 't': "ordinary stream", 'e': "embedded file stream", 'm': "metadata stream"}[it.kind]
	where := fmt.Sprintf("source %v (%s; crypt filters /StmF /StrF /EFF = %s, %s)", it.ref, kind, fo.f.sel, fo.f.method)
	if it.isStream {
		ts, ok := tv.(*pdf.Stream)
		if !ok {
			return "stream-became-null", fmt.Sprintf("%s: the copy %v is a %T", where, t, tv)
		}
		td, err := pdf.ReadAll(T, nil, ts, 1<<24)
		if err != nil {
			return "stream-undecodable", fmt.Sprintf("%s: the copy %v does not decode: %v", where, t, err)
		}
		if !bytes.Equal(td, it.plain) {
			return "stream-plaintext", fmt.Sprintf("%s: the copy %v decodes to %d bytes %.40x, the plaintext is %d bytes %.40x", where, t, len(td), td, len(it.plain), it.plain)
		}
		return "", ""
	}
	d, _ := tv.(pdf.Dict)
	s, _ := d["S"].(pdf.String)
	arr, _ := d["A"].(pdf.Array)
	var a0 pdf.String
	if len(arr) > 0 {
		a0, _ = arr[0].(pdf.String)
	}
	if !bytes.Equal(s, it.plain) || !bytes.Equal(a0, it.plain) {
		return "string-plaintext", fmt.Sprintf("%s: the copy %v holds the strings %x / %x, the plaintext is %x", where, t, []byte(s), []byte(a0), it.plain)
	}
	return "", ""
}

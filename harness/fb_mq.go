package main

// An MQ arithmetic ENCODER with the integer (Annex A.2) and IAID (A.3) encoding procedures of
// ITU-T T.88, written from the standard (Annex E, figures E.3-E.11) for the harness: it lets the
// structured JBIG2 generators (fb_audit.go) emit arithmetic-coded segments the library's hooks
// do not offer — symbol dictionaries with SDREFAGG=1 — without importing library internals.

// fbMQRow is one row of table E.1: Qe, NMPS, NLPS, SWITCH.
type fbMQRow struct {
	qe         uint32
	nmps, nlps uint8
	sw         uint8
}

var fbMQTable = [47]fbMQRow{
	{0x5601, 1, 1, 1}, {0x3401, 2, 6, 0}, {0x1801, 3, 9, 0}, {0x0AC1, 4, 12, 0},
	{0x0521, 5, 29, 0}, {0x0221, 38, 33, 0}, {0x5601, 7, 6, 1}, {0x5401, 8, 14, 0},
	{0x4801, 9, 14, 0}, {0x3801, 10, 14, 0}, {0x3001, 11, 17, 0}, {0x2401, 12, 18, 0},
	{0x1C01, 13, 20, 0}, {0x1601, 29, 21, 0}, {0x5601, 15, 14, 1}, {0x5401, 16, 14, 0},
	{0x5101, 17, 15, 0}, {0x4801, 18, 16, 0}, {0x3801, 19, 17, 0}, {0x3401, 20, 18, 0},
	{0x3001, 21, 19, 0}, {0x2801, 22, 19, 0}, {0x2401, 23, 20, 0}, {0x2201, 24, 21, 0},
	{0x1C01, 25, 22, 0}, {0x1801, 26, 23, 0}, {0x1601, 27, 24, 0}, {0x1401, 28, 25, 0},
	{0x1201, 29, 26, 0}, {0x1101, 30, 27, 0}, {0x0AC1, 31, 28, 0}, {0x09C1, 32, 29, 0},
	{0x08A1, 33, 30, 0}, {0x0521, 34, 31, 0}, {0x0441, 35, 32, 0}, {0x02A1, 36, 33, 0},
	{0x0221, 37, 34, 0}, {0x0141, 38, 35, 0}, {0x0111, 39, 36, 0}, {0x0085, 40, 37, 0},
	{0x0049, 41, 38, 0}, {0x0025, 42, 39, 0}, {0x0015, 43, 40, 0}, {0x0009, 44, 41, 0},
	{0x0005, 45, 42, 0}, {0x0001, 45, 43, 0}, {0x5601, 46, 46, 0},
}

// fbMQCx is one adaptive context: table index and the more probable symbol.
type fbMQCx struct {
	i   uint8
	mps uint8
}

// fbMQEnc is the encoder state of figure E.3; out[0] is the byte "before the first byte"
// (BP = BPST - 1) and is dropped at the end.
type fbMQEnc struct {
	a, c uint32
	ct   int
	out  []byte
}

func fbNewMQEnc() *fbMQEnc {
	return &fbMQEnc{a: 0x8000, ct: 12, out: []byte{0}}
}

func (e *fbMQEnc) byteOut() {
	last := len(e.out) - 1
	if e.out[last] == 0xFF {
		e.out = append(e.out, byte(e.c>>20))
		e.c &= 0xFFFFF
		e.ct = 7
		return
	}
	if e.c < 0x8000000 {
		e.out = append(e.out, byte(e.c>>19))
		e.c &= 0x7FFFF
		e.ct = 8
		return
	}
	e.out[last]++
	if e.out[last] == 0xFF {
		e.c &= 0x7FFFFFF
		e.out = append(e.out, byte(e.c>>20))
		e.c &= 0xFFFFF
		e.ct = 7
		return
	}
	e.out = append(e.out, byte(e.c>>19))
	e.c &= 0x7FFFF
	e.ct = 8
}

func (e *fbMQEnc) renorm() {
	for {
		e.a <<= 1
		e.c <<= 1
		e.ct--
		if e.ct == 0 {
			e.byteOut()
		}
		if e.a&0x8000 != 0 {
			return
		}
	}
}

// encode codes decision d (0 or 1) in context cx.
func (e *fbMQEnc) encode(cx *fbMQCx, d int) {
	row := fbMQTable[cx.i]
	if uint8(d) == cx.mps { // CODEMPS
		e.a -= row.qe
		if e.a&0x8000 == 0 {
			if e.a < row.qe {
				e.a = row.qe
			} else {
				e.c += row.qe
			}
			cx.i = row.nmps
			e.renorm()
		} else {
			e.c += row.qe
		}
		return
	}
	// CODELPS
	e.a -= row.qe
	if e.a < row.qe {
		e.c += row.qe
	} else {
		e.a = row.qe
	}
	if row.sw == 1 {
		cx.mps = 1 - cx.mps
	}
	cx.i = row.nlps
	e.renorm()
}

// flush ends the code stream (FLUSH, figure E.11) with the marker 0xFF 0xAC and returns it.
func (e *fbMQEnc) flush() []byte {
	tempC := e.c + e.a
	e.c |= 0xFFFF
	if e.c >= tempC {
		e.c -= 0x8000
	}
	e.c <<= uint(e.ct)
	e.byteOut()
	e.c <<= uint(e.ct)
	e.byteOut()
	if e.out[len(e.out)-1] != 0xFF {
		e.out = append(e.out, 0xFF)
	}
	e.out = append(e.out, 0xAC)
	return e.out[1:]
}

// fbMQInt is the context set of one integer encoding procedure (IAxx): 512 contexts.
type fbMQInt struct{ cx [512]fbMQCx }

func (ic *fbMQInt) bits(e *fbMQEnc, bits []int) {
	prev := 1
	for _, d := range bits {
		e.encode(&ic.cx[prev], d)
		if prev < 256 {
			prev = prev<<1 | d
		} else {
			prev = (prev<<1|d)&511 | 256
		}
	}
}

// encode codes the integer v (Annex A.2, table A.1).
func (ic *fbMQInt) encode(e *fbMQEnc, v int64) {
	s := 0
	if v < 0 {
		s, v = 1, -v
	}
	var prefix []int
	var n int
	var base int64
	switch {
	case v <= 3:
		prefix, n, base = []int{0}, 2, 0
	case v <= 19:
		prefix, n, base = []int{1, 0}, 4, 4
	case v <= 83:
		prefix, n, base = []int{1, 1, 0}, 6, 20
	case v <= 339:
		prefix, n, base = []int{1, 1, 1, 0}, 8, 84
	case v <= 4435:
		prefix, n, base = []int{1, 1, 1, 1, 0}, 12, 340
	default:
		prefix, n, base = []int{1, 1, 1, 1, 1}, 32, 4436
	}
	bits := append([]int{s}, prefix...)
	for i := n - 1; i >= 0; i-- {
		bits = append(bits, int((v-base)>>uint(i))&1)
	}
	ic.bits(e, bits)
}

// oob codes the out-of-band value (S=1, magnitude 0).
func (ic *fbMQInt) oob(e *fbMQEnc) { ic.bits(e, []int{1, 0, 0, 0}) }

// fbMQIAID is the context set of the symbol ID procedure for code lengths up to the given one.
// reset returns it to the initial state in time proportional to the codes written since.
type fbMQIAID struct {
	cx      []fbMQCx
	touched []int
}

func fbNewMQIAID(codeLen int) *fbMQIAID { return &fbMQIAID{cx: make([]fbMQCx, 1<<codeLen)} }

func (ic *fbMQIAID) reset() {
	for _, i := range ic.touched {
		ic.cx[i] = fbMQCx{}
	}
	ic.touched = ic.touched[:0]
}

func (ic *fbMQIAID) encode(e *fbMQEnc, codeLen, id int) {
	prev := 1
	for i := codeLen - 1; i >= 0; i-- {
		d := id >> uint(i) & 1
		ic.touched = append(ic.touched, prev)
		e.encode(&ic.cx[prev], d)
		prev = prev<<1 | d
	}
}

package main

import (
	"bytes"
	"fmt"
	"slices"
	"sort"
	"strconv"
	"strings"
	"unicode/utf8"

	"seehuhn.de/go/pdf"
	"seehuhn.de/go/pdf/font"
	"seehuhn.de/go/pdf/font/charcode"
	"seehuhn.de/go/pdf/font/cmap"
	"seehuhn.de/go/postscript/cid"
)

// C13 — CMap and ToUnicode mappings survive construction, embedding and extraction.
//
// Correspondence lines (key "CC"): ridx / cir / setmap / lookup / notdef / all / next /
// tunew / tulookup / tuall.

func init() {
	addRun("C13", "code-to-CID and code-to-text maps over eight code space range sets (1-4 byte and mixed lengths): runs of consecutive codes and values of random length, runs crossing the last-byte boundary (..FE,..FF,..00), CID wrap-around at 2^32, astral and multi-rune text, neighbours of the surrogate gap and of U+10FFFF (U+D7FF, U+E000, U+FFFD, U+FFFE), parent chains of depth 0-2 with shadowing and equal entries, notdef singles and ranges; hand-built files with overlapping/invalid/rectangular ranges and short value lists; hand-built files over (almost) all 4-byte codes with notdef ranges and cidranges of more than 2^31 codes, probed at the low end, the middle, positions 2^31-1, 2^31, 2^31+1 and the top of every range and just outside (LookupCID and LookupNotdefCID against a reference semantics, before and after the file round trip; only the enumeration is left out there); every map is built, looked up for every mapped code and for unmapped neighbours, enumerated, written into a real PDF file (pretty and compressed, two versions), read back with a Reader and compared structurally, by lookup and by enumeration. A case is one (construction or file, probe set); non-trivial when the map has a run of length >= 2 or a parent; distinct by wire form.", runC13)
	for _, o := range []string{"lookup-mapped", "lookup-unmapped", "all-enumerates", "embed-extract", "tu-lookup", "tu-all", "tu-embed-extract", "rangeindex-enum", "c13-no-panic", "notdef-position-independent"} {
		addReplay("C13", o, replayC13)
	}
}

// ---- wire ----

func cmSingles(xs []cmap.Single) string {
	if len(xs) == 0 {
		return "_"
	}
	parts := make([]string, len(xs))
	for i, x := range xs {
		parts[i] = hexWire(x.Code) + "=" + strconv.FormatUint(uint64(x.Value), 10)
	}
	return strings.Join(parts, ";")
}

func cmRanges(xs []cmap.Range) string {
	if len(xs) == 0 {
		return "_"
	}
	parts := make([]string, len(xs))
	for i, x := range xs {
		parts[i] = hexWire(x.First) + ":" + hexWire(x.Last) + "=" + strconv.FormatUint(uint64(x.Value), 10)
	}
	return strings.Join(parts, ";")
}

func cmFileWire(f *cmap.File) string {
	return ccCSRWire(f.CodeSpaceRange) + "|" + cmSingles(f.CIDSingles) + "|" + cmRanges(f.CIDRanges) + "|" +
		cmSingles(f.NotdefSingles) + "|" + cmRanges(f.NotdefRanges)
}

func cmChainWire(f *cmap.File) string {
	if f == nil {
		return "_"
	}
	var parts []string
	for g := f; g != nil; g = g.Parent {
		parts = append(parts, cmFileWire(g))
	}
	return strings.Join(parts, "~")
}

func cmTextWire(s string) string {
	rr := []rune(s)
	if len(rr) == 0 {
		return "-"
	}
	parts := make([]string, len(rr))
	for i, r := range rr {
		parts[i] = strconv.FormatInt(int64(r), 16)
	}
	return strings.Join(parts, ".")
}

func cmTextUnwire(s string) string {
	if s == "-" {
		return ""
	}
	var rr []rune
	for _, p := range strings.Split(s, ".") {
		v, _ := strconv.ParseInt(p, 16, 32)
		rr = append(rr, rune(v))
	}
	return string(rr)
}

func cmTUFileWire(f *cmap.ToUnicodeFile) string {
	var sb strings.Builder
	sb.WriteString(ccCSRWire(f.CodeSpaceRange))
	sb.WriteString("|")
	if len(f.Singles) == 0 {
		sb.WriteString("_")
	}
	for i, s := range f.Singles {
		if i > 0 {
			sb.WriteString(";")
		}
		sb.WriteString(hexWire(s.Code) + "=" + cmTextWire(s.Value))
	}
	sb.WriteString("|")
	if len(f.Ranges) == 0 {
		sb.WriteString("_")
	}
	for i, r := range f.Ranges {
		if i > 0 {
			sb.WriteString(";")
		}
		sb.WriteString(hexWire(r.First) + ":" + hexWire(r.Last) + "=")
		if len(r.Values) == 0 {
			sb.WriteString("!")
		}
		for j, v := range r.Values {
			if j > 0 {
				sb.WriteString("^")
			}
			sb.WriteString(cmTextWire(v))
		}
	}
	return sb.String()
}

func cmTUChainWire(f *cmap.ToUnicodeFile) string {
	if f == nil {
		return "_"
	}
	var parts []string
	for g := f; g != nil; g = g.Parent {
		parts = append(parts, cmTUFileWire(g))
	}
	return strings.Join(parts, "~")
}

func cmDataWire(data map[charcode.Code]cid.CID) string {
	if len(data) == 0 {
		return "_"
	}
	keys := make([]charcode.Code, 0, len(data))
	for k := range data {
		keys = append(keys, k)
	}
	slices.Sort(keys)
	parts := make([]string, len(keys))
	for i, k := range keys {
		parts[i] = strconv.FormatUint(uint64(k), 10) + "=" + strconv.FormatUint(uint64(data[k]), 10)
	}
	return strings.Join(parts, ";")
}

func cmTDataWire(data map[charcode.Code]string) string {
	if len(data) == 0 {
		return "_"
	}
	keys := make([]charcode.Code, 0, len(data))
	for k := range data {
		keys = append(keys, k)
	}
	slices.Sort(keys)
	parts := make([]string, len(keys))
	for i, k := range keys {
		parts[i] = strconv.FormatUint(uint64(k), 10) + "=" + cmTextWire(data[k])
	}
	return strings.Join(parts, ";")
}

// ---- code spaces used by the generators ----

type cmSpace struct {
	name string
	csr  charcode.CodeSpaceRange
}

func cmSpaces() []cmSpace {
	h := func(lo, hi string) charcode.Range {
		a, _ := ccUnhex(lo)
		b, _ := ccUnhex(hi)
		return charcode.Range{Low: a, High: b}
	}
	return []cmSpace{
		{"simple", charcode.Simple},
		{"ucs2", charcode.UCS2},
		{"utf8", charcode.UTF8},
		{"mixed12", charcode.CodeSpaceRange{h("00", "7f"), h("8000", "ffff")}},
		{"rksj", charcode.CodeSpaceRange{h("00", "80"), h("8140", "9ffc"), h("a0", "df"), h("e040", "fcfc")}},
		{"three", charcode.CodeSpaceRange{h("000000", "02ffff")}},
		{"four", charcode.CodeSpaceRange{h("00000000", "0100ffff"), h("80", "8f")}},
		{"all1234", charcode.CodeSpaceRange{h("00", "3f"), h("4000", "7fff"), h("800000", "bfffff"), h("c0000000", "ffffffff")}},
	}
}

// cmRandomCodeBytes picks a valid code of the code space as bytes.
func cmRandomCodeBytes(r *Rand, csr charcode.CodeSpaceRange) []byte {
	rg := Pick(r, csr)
	out := make([]byte, len(rg.Low))
	for i := range out {
		span := int(rg.High[i]) - int(rg.Low[i]) + 1
		switch r.Intn(4) {
		case 0:
			out[i] = rg.Low[i]
		case 1:
			out[i] = rg.High[i]
		default:
			out[i] = rg.Low[i] + byte(r.Intn(span))
		}
	}
	return out
}

// cmSucc returns the byte string following b in big-endian counting (nil on overflow).
func cmSucc(b []byte) []byte {
	out := append([]byte{}, b...)
	for i := len(out) - 1; i >= 0; i-- {
		out[i]++
		if out[i] != 0 {
			return out
		}
	}
	return nil
}

// cmCodeOf returns the code of the byte string if it is exactly one valid code.
func cmCodeOf(codec *charcode.Codec, b []byte) (charcode.Code, bool) {
	code, k, ok := codec.Decode(b)
	return code, ok && k == len(b)
}

// cmGenCodes picks code byte strings in runs: consecutive in big-endian counting, so that runs
// cross the last-byte boundary.
func cmGenCodes(r *Rand, codec *charcode.Codec, csr charcode.CodeSpaceRange, nRuns int) [][]byte {
	var out [][]byte
	seen := map[string]bool{}
	for i := 0; i < nRuns; i++ {
		start := cmRandomCodeBytes(r, csr)
		if r.P(1, 3) && len(start) > 0 {
			// start just below a last-byte boundary
			start[len(start)-1] = byte(0xfb + r.Intn(5))
		}
		n := 1
		switch r.Intn(5) {
		case 0:
			n = 1
		case 1:
			n = 2
		case 2:
			n = 2 + r.Intn(6)
		case 3:
			n = 3 + r.Intn(30)
		default:
			n = 1 + r.Intn(3)
		}
		b := start
		for j := 0; j < n && b != nil; j++ {
			if _, ok := cmCodeOf(codec, b); ok && !seen[string(b)] {
				seen[string(b)] = true
				out = append(out, b)
			}
			b = cmSucc(b)
			if r.P(1, 12) && b != nil {
				b = cmSucc(b) // a hole in the run
			}
		}
	}
	return out
}

var cmCIDStarts = []uint32{0, 1, 2, 100, 255, 256, 65534, 65535, 65536, 0x7fffffff, 0xfffffff0, 0xfffffffe, 0xffffffff}

// cmGenCIDMap: values consecutive along the code order in stretches, with breaks.
func cmGenCIDMap(r *Rand, codec *charcode.Codec, codes [][]byte) map[charcode.Code]cid.CID {
	data := map[charcode.Code]cid.CID{}
	sorted := append([][]byte{}, codes...)
	sort.Slice(sorted, func(i, j int) bool {
		if len(sorted[i]) != len(sorted[j]) {
			return len(sorted[i]) < len(sorted[j])
		}
		return bytes.Compare(sorted[i], sorted[j]) < 0
	})
	var cur uint32
	for i, b := range sorted {
		code, _ := cmCodeOf(codec, b)
		switch {
		case i == 0 || r.P(1, 6):
			if r.Bool() {
				cur = Pick(r, cmCIDStarts)
			} else {
				cur = uint32(r.Intn(70000))
			}
		case r.P(1, 10):
			// same value again (no run), or a step of two
			if r.Bool() {
				cur += 2
			}
		default:
			cur++
		}
		data[code] = cid.CID(cur)
	}
	return data
}

var cmRunes = []rune{0x41, 0x7a, 0x7f, 0x80, 0xff, 0x100, 0x7ff, 0x800, 0xd7fd, 0xd7fe, 0xd7ff, 0xe000, 0xe001, 0xfffc, 0xfffd, 0xfffe, 0xffff, 0x10000, 0x1f600, 0x10fffd, 0x10fffe, 0x10ffff, 0x20, 0x30a, 0x65e5}

func cmGenText(r *Rand) string {
	n := 1
	switch r.Intn(8) {
	case 0:
		n = 0
	case 1, 2:
		n = 2 + r.Intn(3)
	}
	rr := make([]rune, n)
	for i := range rr {
		if r.P(2, 3) {
			rr[i] = Pick(r, cmRunes)
		} else {
			for {
				rr[i] = rune(r.Intn(0x110000))
				if utf8.ValidRune(rr[i]) {
					break
				}
			}
		}
	}
	return string(rr)
}

// cmBump increments the last rune the way a reader of a bfrange does, but
// returns ok=false where the result is not a valid scalar value.
func cmBump(s string, inc int) (string, bool) {
	rr := []rune(s)
	if len(rr) == 0 {
		return "", true
	}
	v := rr[len(rr)-1] + rune(inc)
	if !utf8.ValidRune(v) {
		return "", false
	}
	rr[len(rr)-1] = v
	return string(rr), true
}

func cmGenTextMap(r *Rand, codec *charcode.Codec, codes [][]byte) map[charcode.Code]string {
	data := map[charcode.Code]string{}
	sorted := append([][]byte{}, codes...)
	sort.Slice(sorted, func(i, j int) bool {
		if len(sorted[i]) != len(sorted[j]) {
			return len(sorted[i]) < len(sorted[j])
		}
		return bytes.Compare(sorted[i], sorted[j]) < 0
	})
	cur := ""
	for i, b := range sorted {
		code, _ := cmCodeOf(codec, b)
		switch {
		case i == 0 || r.P(1, 5):
			cur = cmGenText(r)
		case r.P(1, 12):
			// keep the same text
		default:
			next, ok := cmBump(cur, 1)
			if !ok {
				// step over the gap the way a careless producer would: U+D7FF -> U+E000, or to U+FFFD
				rr := []rune(cur)
				switch r.Intn(3) {
				case 0:
					next = string(rr[:len(rr)-1]) + "\ue000"
				case 1:
					next = string(rr[:len(rr)-1]) + "\ufffd"
				default:
					next = cmGenText(r)
				}
			}
			cur = next
		}
		data[code] = cur
	}
	return data
}

// ---- writing into a real PDF file and reading back ----

type cmWriteOpt struct {
	pretty bool
	v      pdf.Version
	types  bool
}

func (o cmWriteOpt) String() string {
	return fmt.Sprintf("pretty=%v version=%v", o.pretty, o.v)
}

func cmRoundTripFile(o cmWriteOpt, emb pdf.Embedder) (*pdf.Reader, pdf.Object, error) {
	buf := &bytes.Buffer{}
	w, err := pdf.NewWriter(buf, o.v, &pdf.WriterOptions{HumanReadable: o.pretty})
	if err != nil {
		return nil, nil, err
	}
	rm := pdf.NewResourceManager(w)
	obj, err := rm.Embed(emb)
	if err != nil {
		return nil, nil, fmt.Errorf("Embed: %w", err)
	}
	if err := rm.Close(); err != nil {
		return nil, nil, fmt.Errorf("rm.Close: %w", err)
	}
	pages := w.Alloc()
	w.Put(pages, pdf.Dict{"Type": pdf.Name("Pages"), "Kids": pdf.Array{}, "Count": pdf.Integer(0)})
	w.GetMeta().Catalog.Pages = pages
	if err := w.Close(); err != nil {
		return nil, nil, fmt.Errorf("w.Close: %w", err)
	}
	r, err := pdf.NewReader(bytes.NewReader(buf.Bytes()), int64(buf.Len()), nil)
	if err != nil {
		return nil, nil, fmt.Errorf("NewReader: %w", err)
	}
	return r, obj, nil
}

func cmBytesEq(a, b []byte) bool { return bytes.Equal(a, b) }

// cmCSREq: the same ranges, in any order (the reader sorts code space ranges by length).
func cmCSREq(a, b charcode.CodeSpaceRange) bool {
	if len(a) != len(b) {
		return false
	}
	key := func(csr charcode.CodeSpaceRange) []string {
		out := make([]string, len(csr))
		for i, r := range csr {
			out[i] = hexWire(r.Low) + ":" + hexWire(r.High)
		}
		sort.Strings(out)
		return out
	}
	return slices.Equal(key(a), key(b))
}

func cmRangeOK(first, last []byte) bool {
	if len(first) != len(last) || len(first) == 0 {
		return false
	}
	for i := range first {
		if first[i] > last[i] {
			return false
		}
	}
	return true
}

func cmInBox(first, last, code []byte) bool {
	if len(first) != len(code) || len(last) != len(code) {
		return false
	}
	for i := range code {
		if code[i] < first[i] || code[i] > last[i] {
			return false
		}
	}
	return true
}

// cmSortedSeq sorts the items of an enumeration string ("a=b;c=d").
func cmSortedSeq(s string) string {
	parts := strings.Split(s, ";")
	sort.Strings(parts)
	return strings.Join(parts, ";")
}

// cmCollect: the map collected from an enumeration (later items win), in sorted order.
func cmCollect(s string) string {
	m := map[string]string{}
	for _, p := range strings.Split(s, ";") {
		k, v, _ := strings.Cut(p, "=")
		m[k] = v
	}
	keys := make([]string, 0, len(m))
	for k := range m {
		keys = append(keys, k)
	}
	sort.Strings(keys)
	var sb strings.Builder
	for _, k := range keys {
		sb.WriteString(k + "=" + m[k] + ";")
	}
	return sb.String()
}

func cmHasDupCode(s string) bool {
	seen := map[string]bool{}
	for _, p := range strings.Split(s, ";") {
		k, _, _ := strings.Cut(p, "=")
		if seen[k] {
			return true
		}
		seen[k] = true
	}
	return false
}

// cmFileDiff compares two CMap files structurally (one level).
func cmFileDiff(a, b *cmap.File) string {
	if !cmCSREq(a.CodeSpaceRange, b.CodeSpaceRange) {
		return "code space ranges differ: " + ccCSRWire(a.CodeSpaceRange) + " vs " + ccCSRWire(b.CodeSpaceRange)
	}
	// the reader orders entries by code length first; entries are compared as multisets
	if cmSortedSeq(cmSingles(a.CIDSingles)) != cmSortedSeq(cmSingles(b.CIDSingles)) {
		return "CIDSingles differ: " + truncate(cmSingles(a.CIDSingles)) + " vs " + truncate(cmSingles(b.CIDSingles))
	}
	if cmSortedSeq(cmRanges(a.CIDRanges)) != cmSortedSeq(cmRanges(b.CIDRanges)) {
		return "CIDRanges differ: " + truncate(cmRanges(a.CIDRanges)) + " vs " + truncate(cmRanges(b.CIDRanges))
	}
	if cmSortedSeq(cmSingles(a.NotdefSingles)) != cmSortedSeq(cmSingles(b.NotdefSingles)) {
		return "NotdefSingles differ"
	}
	if cmSortedSeq(cmRanges(a.NotdefRanges)) != cmSortedSeq(cmRanges(b.NotdefRanges)) {
		return "NotdefRanges differ"
	}
	if a.WMode != b.WMode {
		return "WMode differs"
	}
	if a.Name != b.Name {
		return fmt.Sprintf("Name differs: %q vs %q", a.Name, b.Name)
	}
	if (a.ROS == nil) != (b.ROS == nil) || (a.ROS != nil && *a.ROS != *b.ROS) {
		return "ROS differs"
	}
	return ""
}

func cmAllSeq(f *cmap.File, codec *charcode.Codec) string {
	var sb strings.Builder
	n := 0
	for code, v := range f.All(codec) {
		if n > 0 {
			sb.WriteByte(';')
		}
		n++
		sb.WriteString(strconv.FormatUint(uint64(code), 10))
		sb.WriteByte('=')
		sb.WriteString(strconv.FormatUint(uint64(v), 10))
	}
	if n == 0 {
		return "_"
	}
	return sb.String()
}

func cmTUAllSeq(f *cmap.ToUnicodeFile, codec *charcode.Codec) string {
	var sb strings.Builder
	n := 0
	for code, v := range f.All(codec) {
		if n > 0 {
			sb.WriteByte(';')
		}
		n++
		sb.WriteString(strconv.FormatUint(uint64(code), 10))
		sb.WriteByte('=')
		sb.WriteString(cmTextWire(v))
	}
	if n == 0 {
		return "_"
	}
	return sb.String()
}

// cmProbes: the given codes, their neighbours in big-endian counting, and a few random byte strings.
func cmProbes(r *Rand, csr charcode.CodeSpaceRange, codes [][]byte, extra int) [][]byte {
	seen := map[string]bool{}
	var out [][]byte
	add := func(b []byte) {
		if b != nil && !seen[string(b)] && len(out) < 4000 {
			seen[string(b)] = true
			out = append(out, b)
		}
	}
	for _, b := range codes {
		add(b)
		add(cmSucc(b))
		if len(b) > 0 {
			p := append([]byte{}, b...)
			for i := len(p) - 1; i >= 0; i-- {
				p[i]--
				if p[i] != 0xff {
					break
				}
			}
			add(p)
		}
	}
	for i := 0; i < extra; i++ {
		if len(csr) > 0 {
			add(cmRandomCodeBytes(r, csr))
		}
		add(r.Bytes(1 + r.Intn(4)))
	}
	add([]byte{})
	return out
}

// ---- oracles: CID maps ----

type cmViol struct{ oracle, desc string }

func cmSetMappingSafe(f *cmap.File, codec *charcode.Codec, data map[charcode.Code]cid.CID) (p any) {
	defer func() { p = recover() }()
	f.SetMapping(codec, data)
	return nil
}

// cmCheckCIDFile: lookups, enumeration and the file round trip for a file f
// (with parents) against the expectation `want` (nil = no expectation, only
// self-consistency and the round trip).
func cmCheckCIDFile(c *Ctx, r *Rand, f *cmap.File, codec *charcode.Codec, codecCSR charcode.CodeSpaceRange,
	probes [][]byte, opts []cmWriteOpt, emit bool, structural bool, skipEnum bool) (viol []cmViol) {
	bad := func(o, d string) { viol = append(viol, cmViol{o, d}) }
	defer func() {
		if p := recover(); p != nil {
			bad("c13-no-panic", fmt.Sprintf("panic: %v", p))
		}
	}()

	look := make([]string, len(probes))
	nd := make([]string, len(probes))
	for i, b := range probes {
		look[i] = strconv.FormatUint(uint64(f.LookupCID(b)), 10)
		nd[i] = strconv.FormatUint(uint64(f.LookupNotdefCID(b)), 10)
	}
	// (skipEnum: files with huge ranges — the enumeration only runs into the MaxCMapMappings cap;
	// every lookup oracle is kept, only the enumeration is left out)
	allSeq := ""
	if !skipEnum {
		allSeq = cmAllSeq(f, codec)
	}
	if c != nil && emit {
		cw := cmChainWire(f)
		pw := ccBytesList(probes)
		c.Emit("CC lookup "+cw+" "+pw, "ok "+ccJoin(look))
		c.Emit("CC notdef "+cw+" "+pw, "ok "+ccJoin(nd))
		if !skipEnum && len(allSeq) < 200000 {
			c.Emit("CC all "+cw+" "+ccCSRWire(codecCSR), "ok "+allSeq)
		}
	}

	// file round trip
	wellFormed := true
	for g := f; g != nil; g = g.Parent {
		for _, rg := range g.CIDRanges {
			wellFormed = wellFormed && cmRangeOK(rg.First, rg.Last)
		}
		for _, rg := range g.NotdefRanges {
			wellFormed = wellFormed && cmRangeOK(rg.First, rg.Last)
		}
	}
	if !wellFormed {
		// a range with first > last or unequal lengths is rejected by the PostScript reader
		if c != nil {
			c.Stat("cid_illformed_not_written")
		}
		return
	}
	// number of entries of one level that cover a code (overlapping entries are outside the
	// property: the reader re-orders entries, and lookup takes the first match)
	covered := func(code []byte) int {
		worst := 0
		for g := f; g != nil; g = g.Parent {
			n := 0
			for _, s := range g.CIDSingles {
				if bytes.Equal(s.Code, code) {
					n++
				}
			}
			for _, rg := range g.CIDRanges {
				if cmInBox(rg.First, rg.Last, code) {
					n++
				}
			}
			worst = max(worst, n)
			n = 0
			for _, s := range g.NotdefSingles {
				if bytes.Equal(s.Code, code) {
					n++
				}
			}
			for _, rg := range g.NotdefRanges {
				if cmInBox(rg.First, rg.Last, code) {
					n++
				}
			}
			worst = max(worst, n)
		}
		return worst
	}
	for _, o := range opts {
		rd, obj, err := cmRoundTripFile(o, f)
		if err != nil {
			bad("embed-extract", fmt.Sprintf("%v: %v", o, err))
			continue
		}
		g, err := cmap.Extract(pdf.NewCursor(rd), obj, false)
		if err != nil {
			bad("embed-extract", fmt.Sprintf("%v: Extract: %v", o, err))
			continue
		}
		a, b := f, g
		depth := 0
		for a != nil && b != nil {
			if !structural {
				if !cmCSREq(a.CodeSpaceRange, b.CodeSpaceRange) {
					bad("embed-extract", fmt.Sprintf("%v: level %d: code space ranges differ", o, depth))
				}
			} else if d := cmFileDiff(a, b); d != "" {
				bad("embed-extract", fmt.Sprintf("%v: level %d: %s", o, depth, d))
				break
			}
			a, b = a.Parent, b.Parent
			depth++
		}
		if (a == nil) != (b == nil) {
			bad("embed-extract", fmt.Sprintf("%v: parent chain has a different length after extraction", o))
		}
		for i, pb := range probes {
			if !structural && covered(pb) > 1 {
				continue
			}
			if got := strconv.FormatUint(uint64(g.LookupCID(pb)), 10); got != look[i] {
				bad("embed-extract", fmt.Sprintf("%v: LookupCID(%x) = %s after extraction, %s before", o, pb, got, look[i]))
				break
			}
			if got := strconv.FormatUint(uint64(g.LookupNotdefCID(pb)), 10); got != nd[i] {
				bad("embed-extract", fmt.Sprintf("%v: LookupNotdefCID(%x) = %s after extraction, %s before", o, pb, got, nd[i]))
				break
			}
		}
		if skipEnum {
			if c != nil {
				c.Stat("cid_roundtrips")
				c.Stat("cid_roundtrips_lookup_only_huge_ranges")
			}
			continue
		}
		got := cmAllSeq(g, codec)
		if structural {
			if cmSortedSeq(got) != cmSortedSeq(allSeq) || cmCollect(got) != cmCollect(allSeq) {
				bad("embed-extract", fmt.Sprintf("%v: enumeration differs after extraction", o))
			}
			if got != allSeq && c != nil {
				c.Stat("cid_enumeration_order_changed_by_reader")
			}
		} else if strings.Count(allSeq, ";") >= 1<<20-2 {
			// the enumeration ran into the MaxCMapMappings cap: which items are cut off depends on
			// the order of the entries, which the reader changes
			if c != nil {
				c.Stat("cid_enumeration_hit_budget")
			}
		} else if !cmHasDupCode(allSeq) && cmSortedSeq(got) != cmSortedSeq(allSeq) {
			bad("embed-extract", fmt.Sprintf("%v: enumeration (as a set) differs after extraction: file %s: before %s after %s", o, truncate(cmChainWire(f)), truncate(cmSortedSeq(allSeq)), truncate(cmSortedSeq(got))))
		}
		if c != nil {
			c.Stat("cid_roundtrips")
		}
	}
	return
}

var cmOptsAll = []cmWriteOpt{{true, pdf.V1_7, false}, {false, pdf.V1_7, false}, {true, pdf.V2_0, false}, {false, pdf.V1_4, false}}

func cmPickOpts(r *Rand, n int) []cmWriteOpt {
	out := []cmWriteOpt{}
	for i := 0; i < n; i++ {
		out = append(out, Pick(r, cmOptsAll))
	}
	return out
}

var cmROS = &cid.SystemInfo{Registry: "Verif", Ordering: "Test (x)", Supplement: 3}

// cmCaseCID builds a chain of files by SetMapping and checks everything.
func cmCaseCID(c *Ctx, r *Rand, emit bool) (key string, viol []cmViol, nontrivial bool) {
	bad := func(o, d string) { viol = append(viol, cmViol{o, d}) }
	sp := Pick(r, cmSpaces())
	codec, err := charcode.NewCodec(sp.csr)
	if err != nil {
		panic(err)
	}
	depth := 0
	if r.P(1, 3) {
		depth = 1 + r.Intn(2)
	}
	// effective expectation: code -> CID through the chain
	eff := map[charcode.Code]cid.CID{}
	var parent *cmap.File
	var f *cmap.File
	var allCodes [][]byte
	var keyParts []string
	for level := depth; level >= 0; level-- {
		codes := cmGenCodes(r, codec, sp.csr, 1+r.Intn(8))
		data := cmGenCIDMap(r, codec, codes)
		if parent != nil && r.P(1, 2) {
			// repeat some of the parent's entries: equal ones are left out, different ones shadow
			for code, v := range eff {
				if r.P(1, 3) {
					if r.Bool() {
						data[code] = v
					} else {
						data[code] = v + 1
					}
				}
			}
		}
		f = &cmap.File{Name: fmt.Sprintf("Verif-L%d", level), ROS: cmROS, Parent: parent}
		if r.P(1, 4) {
			f.WMode = font.Vertical
		}
		if r.P(1, 4) {
			b := cmRandomCodeBytes(r, sp.csr)
			f.NotdefSingles = []cmap.Single{{Code: b, Value: cid.CID(1 + r.Intn(9))}}
		}
		if r.P(1, 4) {
			rg := Pick(r, sp.csr)
			f.NotdefRanges = []cmap.Range{{First: append([]byte{}, rg.Low...), Last: append([]byte{}, rg.High...), Value: cid.CID(1 + r.Intn(9))}}
		}
		dw := cmDataWire(data)
		before := cmFileWire(f)
		if p := cmSetMappingSafe(f, codec, data); p != nil {
			bad("c13-no-panic", fmt.Sprintf("SetMapping panics: %v", p))
			return "panic", viol, true
		}
		if c != nil && emit {
			c.Emit("CC setmap "+ccCSRWire(sp.csr)+" "+before+" "+cmChainWire(parent)+" "+dw, "ok "+cmFileWire(f))
		}
		keyParts = append(keyParts, dw)
		if len(f.CIDRanges) > 0 || parent != nil {
			nontrivial = true
		}
		if c != nil {
			c.StatN("cid_singles", len(f.CIDSingles))
			c.StatN("cid_ranges", len(f.CIDRanges))
			c.Stat(fmt.Sprintf("cid_depth_%d", depth))
		}
		for code, v := range data {
			eff[code] = v
		}
		allCodes = append(allCodes, codes...)
		for code := range data {
			allCodes = append(allCodes, codec.AppendCode(nil, code))
		}
		parent = f
	}
	key = sp.name + " " + strings.Join(keyParts, " / ")

	// O1 lookup-mapped, O2 lookup-unmapped
	probes := cmProbes(r, sp.csr, allCodes, 20)
	for _, b := range probes {
		code, isCode := cmCodeOf(codec, b)
		got := f.LookupCID(b)
		if want, ok := eff[code]; ok && isCode {
			if got != want {
				// is the code covered by a mapping entry anywhere in the chain?
				mappedSomewhere := false
				for g := f; g != nil; g = g.Parent {
					for _, s := range g.CIDSingles {
						mappedSomewhere = mappedSomewhere || bytes.Equal(s.Code, b)
					}
					for _, rg := range g.CIDRanges {
						mappedSomewhere = mappedSomewhere || cmInBox(rg.First, rg.Last, b)
					}
				}
				if !mappedSomewhere && got == f.LookupNotdefCID(b) {
					// SetMapping left the entry out because Parent.LookupCID returned its CID from a
					// notdef entry (or 0 for "absent"); the file's own notdef entries now answer first
					bad("setmapping-skip-answered-by-parent-notdef", fmt.Sprintf("%s: code %x is mapped to %d; SetMapping stored nothing for it (the parent answers %d through its notdef entries) and LookupCID returns %d from the file's own notdef entries", sp.name, b, want, want, got))
				} else {
					bad("lookup-mapped", fmt.Sprintf("%s: code %x is mapped to %d but LookupCID returns %d", sp.name, b, want, got))
				}
			}
		} else {
			// not mapped anywhere in the chain: the notdef result, the file's own entries first
			// (0 when there is none)
			want := f.LookupNotdefCID(b)
			if got != want {
				root := f
				for root.Parent != nil {
					root = root.Parent
				}
				if got == root.LookupNotdefCID(b) {
					// regression detector for D30 (fixed in 5f29395): the file's own notdef entries skipped
					bad("notdef-child-ignored-with-parent", fmt.Sprintf("%s: %x is not mapped; LookupCID returns %d, LookupNotdefCID gives %d (the file's own notdef entries are skipped because it has a parent)", sp.name, b, got, want))
				} else {
					bad("lookup-unmapped", fmt.Sprintf("%s: %x is not mapped; LookupCID returns %d, notdef lookup gives %d", sp.name, b, got, want))
				}
			}
		}
	}
	// O3 all-enumerates: collecting All gives exactly the effective map
	got := map[charcode.Code]cid.CID{}
	count := map[charcode.Code]int{}
	for code, v := range f.All(codec) {
		got[code] = v
		count[code]++
	}
	// SetMapping leaves out a code only when a parent has a *mapping* for it with the same CID
	// (e336336); All enumerates the parents first, so every mapped code is still enumerated.
	// (Before that fix, codes answered by a parent's notdef entry were dropped and missing here.)
	notdefHit := func(code charcode.Code, v cid.CID) bool { return false }
	missing, missingNotdef := 0, 0
	for code, v := range eff {
		if g, ok := got[code]; !ok || g != v {
			if !ok && notdefHit(code, v) {
				missingNotdef++
				if c != nil {
					c.Stat("all_skipped_equal_to_parent_answer")
				}
				continue
			}
			missing++
			if missing == 1 {
				bad("all-enumerates", fmt.Sprintf("%s: code %d -> %d, All gives %d (present=%v)", sp.name, code, v, g, ok))
			}
		}
	}
	if len(got)+missingNotdef != len(eff) && missing == 0 {
		bad("all-enumerates", fmt.Sprintf("%s: All yields %d distinct codes, the map has %d", sp.name, len(got), len(eff)))
	}
	if depth == 0 {
		for code, n := range count {
			if n != 1 {
				bad("all-enumerates", fmt.Sprintf("%s: code %d enumerated %d times", sp.name, code, n))
				break
			}
		}
	}
	viol = append(viol, cmCheckCIDFile(c, r, f, codec, sp.csr, probes, cmPickOpts(r, 1), emit, true, false)...)
	return
}

// cmCaseHandBuilt: files that SetMapping would never produce (overlapping, rectangular,
// invalid ranges, codes outside the code space): self-consistency and the file round trip.
func cmCaseHandBuilt(c *Ctx, r *Rand, emit bool) (key string, viol []cmViol) {
	sp := Pick(r, cmSpaces())
	codec, _ := charcode.NewCodec(sp.csr)
	mk := func(level int) *cmap.File {
		f := &cmap.File{Name: fmt.Sprintf("Hand-L%d", level), CodeSpaceRange: sp.csr}
		if r.Bool() {
			f.ROS = cmROS
		}
		n := r.Intn(5)
		for i := 0; i < n; i++ {
			f.CIDSingles = append(f.CIDSingles, cmap.Single{Code: cmRandomCodeBytes(r, sp.csr), Value: cid.CID(r.Intn(1000))})
		}
		n = r.Intn(5)
		for i := 0; i < n; i++ {
			a, b := cmRandomCodeBytes(r, sp.csr), cmRandomCodeBytes(r, sp.csr)
			if len(a) == len(b) && r.P(9, 10) {
				for k := range a {
					if a[k] > b[k] && r.P(9, 10) {
						a[k], b[k] = b[k], a[k]
					}
				}
			}
			if r.P(3, 4) && len(a) == len(b) && len(a) > 1 {
				// keep it small: equal high bytes
				copy(b[:len(b)-2+r.Intn(2)], a)
			}
			v := cid.CID(r.Intn(100000))
			if r.P(1, 8) {
				v = cid.CID(Pick(r, cmCIDStarts))
			}
			f.CIDRanges = append(f.CIDRanges, cmap.Range{First: a, Last: b, Value: v})
		}
		if r.P(1, 3) {
			f.NotdefSingles = append(f.NotdefSingles, cmap.Single{Code: cmRandomCodeBytes(r, sp.csr), Value: cid.CID(r.Intn(9))})
		}
		if r.P(1, 3) {
			rg := Pick(r, sp.csr)
			f.NotdefRanges = append(f.NotdefRanges, cmap.Range{First: rg.Low, Last: rg.High, Value: cid.CID(r.Intn(9))})
		}
		return f
	}
	f := mk(0)
	if r.P(1, 3) {
		f.Parent = mk(1)
		if r.P(1, 3) {
			f.Parent.Parent = mk(2)
		}
	}
	var codes [][]byte
	for g := f; g != nil; g = g.Parent {
		for _, s := range g.CIDSingles {
			codes = append(codes, s.Code)
		}
		for _, rg := range g.CIDRanges {
			codes = append(codes, rg.First, rg.Last)
		}
	}
	probes := cmProbes(r, sp.csr, codes, 10)
	key = "hand " + cmChainWire(f)
	viol = cmCheckCIDFile(c, r, f, codec, sp.csr, probes, cmPickOpts(r, 1), emit, false, false)
	return
}

// ---- oracles: ToUnicode ----

func cmTUFileEq(a, b *cmap.ToUnicodeFile) string {
	if !cmCSREq(a.CodeSpaceRange, b.CodeSpaceRange) {
		return "code space ranges differ"
	}
	pa, pb := strings.Split(cmTUFileWire(a), "|"), strings.Split(cmTUFileWire(b), "|")
	if x, y := cmSortedSeq(pa[1])+"|"+cmSortedSeq(pa[2]), cmSortedSeq(pb[1])+"|"+cmSortedSeq(pb[2]); x != y {
		return "entries differ: " + truncate(x) + " vs " + truncate(y)
	}
	return ""
}

func cmCheckTUFile(c *Ctx, r *Rand, f *cmap.ToUnicodeFile, codec *charcode.Codec, codecCSR charcode.CodeSpaceRange,
	probes [][]byte, opts []cmWriteOpt, emit bool, structural bool) (viol []cmViol) {
	bad := func(o, d string) { viol = append(viol, cmViol{o, d}) }
	defer func() {
		if p := recover(); p != nil {
			bad("c13-no-panic", fmt.Sprintf("panic: %v", p))
		}
	}()
	look := make([]string, len(probes))
	for i, b := range probes {
		s, ok := f.Lookup(b)
		if ok {
			look[i] = cmTextWire(s)
		} else {
			look[i] = "x"
			if s != "" {
				bad("tu-lookup", fmt.Sprintf("Lookup(%x) = (%q, false)", b, s))
			}
		}
	}
	allSeq := cmTUAllSeq(f, codec)
	if c != nil && emit {
		cw := cmTUChainWire(f)
		c.Emit("CC tulookup "+cw+" "+ccBytesList(probes), "ok "+ccJoin(look))
		if len(allSeq) < 200000 {
			c.Emit("CC tuall "+cw+" "+ccCSRWire(codecCSR), "ok "+allSeq)
		}
	}
	wellFormed := true
	for g := f; g != nil; g = g.Parent {
		for _, rg := range g.Ranges {
			wellFormed = wellFormed && cmRangeOK(rg.First, rg.Last)
		}
	}
	if !wellFormed {
		if c != nil {
			c.Stat("tu_illformed_not_written")
		}
		return
	}
	covered := func(code []byte) int {
		worst := 0
		for g := f; g != nil; g = g.Parent {
			n := 0
			for _, s := range g.Singles {
				if bytes.Equal(s.Code, code) {
					n++
				}
			}
			for _, rg := range g.Ranges {
				if cmInBox(rg.First, rg.Last, code) {
					n++
				}
			}
			worst = max(worst, n)
		}
		return worst
	}
	for _, o := range opts {
		rd, obj, err := cmRoundTripFile(o, f)
		if err != nil {
			bad("tu-embed-extract", fmt.Sprintf("%v: %v", o, err))
			continue
		}
		g, err := cmap.ExtractToUnicode(pdf.NewCursor(rd), obj, false)
		if err != nil || g == nil {
			bad("tu-embed-extract", fmt.Sprintf("%v: ExtractToUnicode: %v", o, err))
			continue
		}
		a, b := f, g
		depth := 0
		for a != nil && b != nil {
			if !structural {
				if !cmCSREq(a.CodeSpaceRange, b.CodeSpaceRange) {
					bad("tu-embed-extract", fmt.Sprintf("%v: level %d: code space ranges differ", o, depth))
				}
			} else if d := cmTUFileEq(a, b); d != "" {
				bad("tu-embed-extract", fmt.Sprintf("%v: level %d: %s", o, depth, d))
				break
			}
			a, b = a.Parent, b.Parent
			depth++
		}
		if (a == nil) != (b == nil) {
			bad("tu-embed-extract", fmt.Sprintf("%v: parent chain has a different length after extraction", o))
		}
		for i, pb := range probes {
			if !structural && covered(pb) > 1 {
				continue
			}
			s, ok := g.Lookup(pb)
			got := "x"
			if ok {
				got = cmTextWire(s)
			}
			if got != look[i] {
				bad("tu-embed-extract", fmt.Sprintf("%v: Lookup(%x) = %s after extraction, %s before", o, pb, got, look[i]))
				break
			}
		}
		got := cmTUAllSeq(g, codec)
		if structural {
			if cmSortedSeq(got) != cmSortedSeq(allSeq) || cmCollect(got) != cmCollect(allSeq) {
				bad("tu-embed-extract", fmt.Sprintf("%v: enumeration differs after extraction", o))
			}
			if got != allSeq && c != nil {
				c.Stat("tu_enumeration_order_changed_by_reader")
			}
		} else if strings.Count(allSeq, ";") >= 1<<20-2 {
			if c != nil {
				c.Stat("tu_enumeration_hit_budget")
			}
		} else if !cmHasDupCode(allSeq) && cmSortedSeq(got) != cmSortedSeq(allSeq) {
			bad("tu-embed-extract", fmt.Sprintf("%v: enumeration (as a set) differs after extraction", o))
		}
		if c != nil {
			c.Stat("tu_roundtrips")
		}
	}
	return
}

func cmNewTU(csr charcode.CodeSpaceRange, data map[charcode.Code]string) (f *cmap.ToUnicodeFile, err error, p any) {
	defer func() { p = recover() }()
	f, err = cmap.NewToUnicodeFile(csr, data)
	return
}

func cmCaseTU(c *Ctx, r *Rand, emit bool) (key string, viol []cmViol, nontrivial bool) {
	bad := func(o, d string) { viol = append(viol, cmViol{o, d}) }
	sp := Pick(r, cmSpaces())
	codec, err := charcode.NewCodec(sp.csr)
	if err != nil {
		panic(err)
	}
	depth := 0
	if r.P(1, 4) {
		depth = 1 + r.Intn(2)
	}
	eff := map[charcode.Code]string{}
	var parent, f *cmap.ToUnicodeFile
	var allCodes [][]byte
	var keyParts []string
	for level := depth; level >= 0; level-- {
		codes := cmGenCodes(r, codec, sp.csr, 1+r.Intn(8))
		data := cmGenTextMap(r, codec, codes)
		if parent != nil && r.Bool() {
			for code, v := range eff {
				if r.P(1, 3) {
					data[code] = v + "!"
				}
			}
		}
		dw := cmTDataWire(data)
		var p any
		f, err, p = cmNewTU(sp.csr, data)
		if p != nil || err != nil {
			bad("c13-no-panic", fmt.Sprintf("NewToUnicodeFile: err=%v panic=%v", err, p))
			return "panic", viol, true
		}
		if c != nil && emit {
			c.Emit("CC tunew "+ccCSRWire(sp.csr)+" "+dw, "ok "+cmTUFileWire(f))
		}
		// O: the single-destination bfrange form obeys ISO 32000-2 9.10.3 (see cc_audit.go)
		for _, d := range cmTUSpecCheck(f) {
			bad("bfrange-last-byte-overflow", sp.name+": "+d)
		}
		f.Parent = parent
		keyParts = append(keyParts, dw)
		if len(f.Ranges) > 0 || parent != nil {
			nontrivial = true
		}
		if c != nil {
			c.StatN("tu_singles", len(f.Singles))
			c.StatN("tu_ranges", len(f.Ranges))
			for _, rg := range f.Ranges {
				if len(rg.Values) == 1 {
					c.Stat("tu_ranges_compact")
				} else {
					c.Stat("tu_ranges_list")
				}
			}
		}
		// O: construction is lossless at this level (GetMapping returns the data)
		if parent == nil {
			m, err := f.GetMapping()
			if err != nil {
				bad("tu-all", "GetMapping: "+err.Error())
			} else {
				if len(m) != len(data) {
					bad("tu-all", fmt.Sprintf("%s: GetMapping has %d entries, the map %d", sp.name, len(m), len(data)))
				}
				for code, v := range data {
					if m[code] != v {
						bad("tu-all", fmt.Sprintf("%s: code %d -> %s, GetMapping gives %s", sp.name, code, cmTextWire(v), cmTextWire(m[code])))
						break
					}
				}
			}
			cnt := map[charcode.Code]int{}
			for code := range f.All(codec) {
				cnt[code]++
				if cnt[code] > 1 {
					bad("tu-all", fmt.Sprintf("%s: code %d enumerated twice", sp.name, code))
					break
				}
			}
		}
		for code, v := range data {
			eff[code] = v
		}
		allCodes = append(allCodes, codes...)
		parent = f
	}
	key = "tu " + sp.name + " " + strings.Join(keyParts, " / ")
	probes := cmProbes(r, sp.csr, allCodes, 20)
	for _, b := range probes {
		code, isCode := cmCodeOf(codec, b)
		got, ok := f.Lookup(b)
		if want, mapped := eff[code]; mapped && isCode {
			if !ok || got != want {
				bad("tu-lookup", fmt.Sprintf("%s: code %x is mapped to %s but Lookup returns (%s,%v)", sp.name, b, cmTextWire(want), cmTextWire(got), ok))
			}
		} else if ok {
			bad("tu-lookup", fmt.Sprintf("%s: %x is not mapped but Lookup returns (%s,true)", sp.name, b, cmTextWire(got)))
		}
	}
	viol = append(viol, cmCheckTUFile(c, r, f, codec, sp.csr, probes, cmPickOpts(r, 1), emit, true)...)
	return
}

// cmCaseTUHand: ToUnicode files with short value lists, rectangular and overlapping ranges.
func cmCaseTUHand(c *Ctx, r *Rand, emit bool) (key string, viol []cmViol) {
	sp := Pick(r, cmSpaces())
	codec, _ := charcode.NewCodec(sp.csr)
	mk := func() *cmap.ToUnicodeFile {
		f := &cmap.ToUnicodeFile{CodeSpaceRange: sp.csr}
		n := r.Intn(4)
		for i := 0; i < n; i++ {
			f.Singles = append(f.Singles, cmap.ToUnicodeSingle{Code: cmRandomCodeBytes(r, sp.csr), Value: cmGenText(r)})
		}
		n = r.Intn(4)
		for i := 0; i < n; i++ {
			a := cmRandomCodeBytes(r, sp.csr)
			b := append([]byte{}, a...)
			k := len(b) - 1
			if r.P(1, 4) && k > 0 {
				k--
			}
			if int(b[k])+1 < 256 {
				b[k] += byte(r.Intn(256 - int(b[k])))
			}
			if r.P(1, 10) {
				a, b = b, a
			}
			nv := 1
			switch r.Intn(4) {
			case 0:
				nv = 0
			case 1:
				nv = 1 + r.Intn(4)
			}
			var vals []string
			for j := 0; j < nv; j++ {
				vals = append(vals, cmGenText(r))
			}
			f.Ranges = append(f.Ranges, cmap.ToUnicodeRange{First: a, Last: b, Values: vals})
		}
		return f
	}
	f := mk()
	if r.P(1, 3) {
		f.Parent = mk()
	}
	var codes [][]byte
	for g := f; g != nil; g = g.Parent {
		for _, s := range g.Singles {
			codes = append(codes, s.Code)
		}
		for _, rg := range g.Ranges {
			codes = append(codes, rg.First, rg.Last)
		}
	}
	probes := cmProbes(r, sp.csr, codes, 10)
	key = "tuhand " + cmTUChainWire(f)
	// an empty value list reads back as a missing range (written as `[]`): structural
	// comparison only for files without such ranges
	viol = cmCheckTUFile(c, r, f, codec, sp.csr, probes, cmPickOpts(r, 1), emit, false)
	return
}

// ---- rangeIndex / codesInRange (through the exported API: a one-range file) ----

// cmCaseRangeEnum: a File with the single range [first,last] -> value 0 and a
// codec whose code space is exactly that box: All yields the codes in the
// order of codesInRange with value = position; LookupCID gives rangeIndex.
func cmCaseRangeEnum(c *Ctx, r *Rand, emit bool) (key string, viol []cmViol) {
	bad := func(o, d string) { viol = append(viol, cmViol{o, d}) }
	n := 1 + r.Intn(4)
	first := make([]byte, n)
	last := make([]byte, n)
	total := 1
	for i := range first {
		span := 1 + r.Intn(6)
		if r.P(1, 4) {
			span = 1
		}
		if total*span > 3000 {
			span = 1
		}
		total *= span
		lo := r.Intn(256 - span + 1)
		if r.P(1, 3) {
			lo = 256 - span
		}
		if r.P(1, 4) {
			lo = 0
		}
		first[i] = byte(lo)
		last[i] = byte(lo + span - 1)
	}
	csr := charcode.CodeSpaceRange{{Low: first, High: last}}
	codec, err := charcode.NewCodec(csr)
	if err != nil {
		bad("rangeindex-enum", "NewCodec: "+err.Error())
		return
	}
	base := cid.CID(0)
	if r.P(1, 4) {
		base = cid.CID(Pick(r, cmCIDStarts))
	}
	f := &cmap.File{Name: "Enum", ROS: cmROS, CodeSpaceRange: csr, CIDRanges: []cmap.Range{{First: first, Last: last, Value: base}}}
	key = fmt.Sprintf("enum %x %x %d", first, last, base)
	i := 0
	var cirOut []string
	var codes [][]byte
	var idxOut []string
	for code, v := range f.All(codec) {
		b := codec.AppendCode(nil, code)
		if v != base+cid.CID(i) {
			bad("rangeindex-enum", fmt.Sprintf("[%x,%x]: item %d of the enumeration (code %x) has value %d", first, last, i, b, v-base))
		}
		if got := f.LookupCID(b); got != v {
			bad("rangeindex-enum", fmt.Sprintf("[%x,%x]: code %x is enumerated at position %d but LookupCID places it at %d", first, last, b, i, got-base))
		}
		if !ccWithin(csr[0], b, n) {
			bad("rangeindex-enum", fmt.Sprintf("[%x,%x]: enumerated code %x lies outside", first, last, b))
		}
		if i > 0 && bytes.Compare(codes[i-1], b) >= 0 {
			bad("rangeindex-enum", fmt.Sprintf("[%x,%x]: enumeration is not increasing at %x", first, last, b))
		}
		cirOut = append(cirOut, strconv.Itoa(i)+"="+hexWire(b))
		idxOut = append(idxOut, strconv.Itoa(i))
		codes = append(codes, b)
		i++
	}
	if i != total {
		bad("rangeindex-enum", fmt.Sprintf("[%x,%x]: %d codes enumerated, the box has %d", first, last, i, total))
	}
	if c != nil && emit {
		c.Emit(fmt.Sprintf("CC cir %s %s %d", hexWire(first), hexWire(last), total+5), "ok "+ccJoin(cirOut))
		// outside probes
		out := [][]byte{cmSucc(last), first[:n-1], append(append([]byte{}, first...), 0)}
		for _, b := range out {
			if b != nil {
				codes = append(codes, b)
				idxOut = append(idxOut, "x")
				if f.LookupCID(b) != 0 {
					bad("rangeindex-enum", fmt.Sprintf("[%x,%x]: %x is outside but has CID %d", first, last, b, f.LookupCID(b)))
				}
			}
		}
		if base == 0 {
			c.Emit("CC ridx "+hexWire(first)+" "+hexWire(last)+" "+ccBytesList(codes), "ok "+ccJoin(idxOut))
		}
	}
	return
}

// ---- huge ranges: more than 2^31 codes in one cidrange / notdef range ----

// cmCodeAt returns the code at mixed-radix position pos (most significant byte first) of the box.
func cmCodeAt(first, last []byte, pos uint64) ([]byte, bool) {
	code := make([]byte, len(first))
	for i := len(first) - 1; i >= 0; i-- {
		span := uint64(last[i]) - uint64(first[i]) + 1
		code[i] = first[i] + byte(pos%span)
		pos /= span
	}
	return code, pos == 0
}

func cmBoxCount(first, last []byte) uint64 {
	n := uint64(1)
	for i := range first {
		n *= uint64(last[i]) - uint64(first[i]) + 1
	}
	return n
}

// cmBoxPos: position of code in the box (ok=false outside).
func cmBoxPos(first, last, code []byte) (uint64, bool) {
	if !cmInBox(first, last, code) {
		return 0, false
	}
	var pos uint64
	for i := range code {
		pos = pos*(uint64(last[i])-uint64(first[i])+1) + uint64(code[i]-first[i])
	}
	return pos, true
}

// reference semantics of the lookups, written from the documentation of File:
// a cidrange maps the code at position p to Value+p, but only positions up to MaxInt32 are mapped
// (rangeIndex); a notdef range gives its value to EVERY code of the box.
func cmRefMapped(f *cmap.File, code []byte) (cid.CID, bool) {
	for g := f; g != nil; g = g.Parent {
		for _, s := range g.CIDSingles {
			if bytes.Equal(s.Code, code) {
				return s.Value, true
			}
		}
		for _, rg := range g.CIDRanges {
			if p, ok := cmBoxPos(rg.First, rg.Last, code); ok && p <= 0x7fffffff {
				return rg.Value + cid.CID(p), true
			}
		}
	}
	return 0, false
}

func cmRefNotdef(f *cmap.File, code []byte) cid.CID {
	for g := f; g != nil; g = g.Parent {
		for _, s := range g.NotdefSingles {
			if bytes.Equal(s.Code, code) {
				return s.Value
			}
		}
		for _, rg := range g.NotdefRanges {
			if cmInBox(rg.First, rg.Last, code) {
				return rg.Value
			}
		}
	}
	return 0
}

func cmHugeSpaces() []cmSpace {
	h := func(lo, hi string) charcode.Range {
		a, _ := ccUnhex(lo)
		b, _ := ccUnhex(hi)
		return charcode.Range{Low: a, High: b}
	}
	return []cmSpace{
		{"huge4", charcode.CodeSpaceRange{h("00", "1f"), h("20000000", "ffffffff")}},
		{"full4", charcode.CodeSpaceRange{h("00000000", "ffffffff")}},
	}
}

// cmCaseHuge: hand-built files over a code space with (almost) all 4-byte codes, with notdef
// ranges and cidranges of more than 2^31 codes.  Probes: the low end, the middle, positions
// 2^31-1, 2^31, 2^31+1 and the top of every range, and codes just outside.  Oracles: LookupCID
// and LookupNotdefCID against the reference semantics above, before and after the file round trip;
// model correspondence for the same probes.  The enumeration is left out (it only hits the cap).
func cmCaseHuge(c *Ctx, r *Rand, emit bool) (key string, viol []cmViol) {
	bad := func(o, d string) { viol = append(viol, cmViol{o, d}) }
	sp := Pick(r, cmHugeSpaces())
	codec, err := charcode.NewCodec(sp.csr)
	if err != nil {
		bad("c13-no-panic", "NewCodec: "+err.Error())
		return
	}
	four := sp.csr[len(sp.csr)-1]
	lo0 := four.Low[0]
	hx := func(s string) []byte { b, _ := ccUnhex(s); return b }
	// a box inside the 4-byte part whose first byte runs from a to b
	box := func(a, b byte, full bool) ([]byte, []byte) {
		first := []byte{a, 0, 0, 0}
		last := []byte{b, 0xff, 0xff, 0xff}
		if !full {
			// rectangular: one inner byte restricted
			k := 1 + r.Intn(3)
			first[k] = byte(r.Intn(3))
			last[k] = 0xff - byte(r.Intn(3))
		}
		return first, last
	}
	mk := func(level int) *cmap.File {
		f := &cmap.File{Name: fmt.Sprintf("Huge-L%d", level), ROS: cmROS, CodeSpaceRange: sp.csr}
		// notdef: a huge range (several shapes around the 2^31 boundary), optionally a second,
		// disjoint one that must be reached when the first does not apply
		var nf, nl []byte
		switch r.Intn(5) {
		case 0:
			nf, nl = append([]byte{}, four.Low...), append([]byte{}, four.High...) // all 4-byte codes
		case 1:
			nf, nl = hx("80000000"), hx("ffffffff") // exactly 2^31 codes: top position 2^31-1
		case 2:
			nf, nl = hx("7f000000"), hx("ffffffff") // a little more than 2^31
		case 3:
			nf, nl = box(lo0+byte(r.Intn(4)), 0xff-byte(r.Intn(4)), r.Bool())
		default:
			nf, nl = box(max(lo0, 0x40), 0xdf, false)
		}
		f.NotdefRanges = append(f.NotdefRanges, cmap.Range{First: nf, Last: nl, Value: cid.CID(1 + r.Intn(9))})
		if r.P(1, 2) && nf[0] > lo0 {
			f2, l2 := []byte{lo0, 0, 0, 0}, []byte{nf[0] - 1, 0xff, 0xff, 0xff}
			f.NotdefRanges = append(f.NotdefRanges, cmap.Range{First: f2, Last: l2, Value: cid.CID(10 + r.Intn(9))})
		}
		if r.P(1, 3) {
			f.NotdefSingles = append(f.NotdefSingles, cmap.Single{Code: cmRandomCodeBytes(r, sp.csr), Value: cid.CID(20 + r.Intn(9))})
		}
		// mappings: one huge cidrange, or a few small ones with different first bytes
		switch r.Intn(3) {
		case 0:
			cf, cl := box(max(lo0, 0x30), 0xff, r.Bool())
			f.CIDRanges = append(f.CIDRanges, cmap.Range{First: cf, Last: cl, Value: cid.CID(Pick(r, cmCIDStarts))})
		case 1:
			for k := 0; k < 3; k++ {
				b0 := max(lo0, 0x21) + byte(40*k+r.Intn(30))
				cf := []byte{b0, byte(r.Intn(256)), 0, 0xf0}
				cl := []byte{b0, cf[1], byte(r.Intn(4)), 0xff}
				f.CIDRanges = append(f.CIDRanges, cmap.Range{First: cf, Last: cl, Value: cid.CID(r.Intn(70000))})
			}
		}
		if r.P(1, 2) {
			f.CIDSingles = append(f.CIDSingles, cmap.Single{Code: []byte{lo0, 1, 2, 3}, Value: cid.CID(r.Intn(1000))})
		}
		return f
	}
	f := mk(0)
	if r.P(1, 3) {
		f.Parent = mk(1)
	}
	key = "huge " + cmChainWire(f)

	// probes
	seen := map[string]bool{}
	var probes [][]byte
	add := func(b []byte) {
		if b != nil && !seen[string(b)] {
			seen[string(b)] = true
			probes = append(probes, b)
		}
	}
	addBox := func(first, last []byte) {
		n := cmBoxCount(first, last)
		for _, p := range []uint64{0, 1, n / 2, 1<<31 - 2, 1<<31 - 1, 1 << 31, 1<<31 + 1, 1<<31 + 12345, n - 2, n - 1} {
			if p < n {
				if code, ok := cmCodeAt(first, last, p); ok {
					add(code)
				}
			}
		}
		add(cmSucc(last))
		pr := append([]byte{}, first...)
		for i := len(pr) - 1; i >= 0; i-- {
			pr[i]--
			if pr[i] != 0xff {
				break
			}
		}
		add(pr)
		for i := 0; i < 4; i++ {
			if code, ok := cmCodeAt(first, last, r.U64()%n); ok {
				add(code)
			}
		}
	}
	for g := f; g != nil; g = g.Parent {
		for _, rg := range g.NotdefRanges {
			addBox(rg.First, rg.Last)
		}
		for _, rg := range g.CIDRanges {
			addBox(rg.First, rg.Last)
		}
		for _, s := range g.CIDSingles {
			add(s.Code)
		}
		for _, s := range g.NotdefSingles {
			add(s.Code)
		}
	}
	add([]byte{0xa0, 0, 0, 0})
	add([]byte{0xff, 0xff, 0xff, 0xff})
	add([]byte{lo0, 0, 0, 0})
	add([]byte{0x10})
	add([]byte{0xa0, 0, 0})
	for i := 0; i < 6; i++ {
		add(cmRandomCodeBytes(r, sp.csr))
	}

	// oracles before writing
	func() {
		defer func() {
			if p := recover(); p != nil {
				bad("c13-no-panic", fmt.Sprintf("panic: %v", p))
			}
		}()
		for _, b := range probes {
			wantND := cmRefNotdef(f, b)
			if got := f.LookupNotdefCID(b); got != wantND {
				bad("notdef-position-independent", fmt.Sprintf("%s: LookupNotdefCID(%x) = %d, the notdef entries of %s give %d (a notdef range applies to every code of its box, whatever its position)", sp.name, b, got, truncate(cmChainWire(f)), wantND))
			}
			want, mapped := cmRefMapped(f, b)
			if !mapped {
				want = wantND
			}
			if got := f.LookupCID(b); got != want {
				o := "lookup-unmapped"
				if mapped {
					o = "lookup-mapped"
				}
				bad(o, fmt.Sprintf("%s: LookupCID(%x) = %d, want %d (mapped=%v) in %s", sp.name, b, got, want, mapped, truncate(cmChainWire(f))))
			}
		}
	}()
	if c != nil {
		c.Stat("huge_range_files")
		c.StatN("huge_range_probes", len(probes))
	}
	viol = append(viol, cmCheckCIDFile(c, r, f, codec, sp.csr, probes, cmPickOpts(r, 1), emit, false, true)...)
	return
}

func cmReport(c *Ctx, key string, viol []cmViol, replay string) {
	for _, v := range viol {
		c.Violate(cmOracleName(v.oracle), v.oracle, v.desc, replay)
	}
}

// replayC13: the input is "<kind> <seed-state>"; the case is regenerated from the forked
// generator state.
func replayC13(input string) (bool, string) {
	parts := strings.Fields(input)
	if len(parts) != 2 {
		return true, "bad replay input"
	}
	st, err := strconv.ParseUint(parts[1], 10, 64)
	if err != nil {
		return true, "bad replay input"
	}
	r := &Rand{s: st}
	var viol []cmViol
	switch parts[0] {
	case "cid":
		_, viol, _ = cmCaseCID(nil, r, false)
	case "hand":
		_, viol = cmCaseHandBuilt(nil, r, false)
	case "tu":
		_, viol, _ = cmCaseTU(nil, r, false)
	case "tuhand":
		_, viol = cmCaseTUHand(nil, r, false)
	case "enum":
		_, viol = cmCaseRangeEnum(nil, r, false)
	case "huge":
		_, viol = cmCaseHuge(nil, r, false)
	case "fixed":
		viol = cmFixed(nil)
	}
	if len(viol) == 0 {
		return true, "all C13 oracles hold for case " + input
	}
	var sb strings.Builder
	for i, v := range viol {
		if i < 5 {
			sb.WriteString(v.oracle + ": " + v.desc + "\n")
		}
	}
	return false, sb.String()
}

// cmFixed: the D13 witness and relatives, checked on every run.
func cmFixed(c *Ctx) (viol []cmViol) {
	bad := func(o, d string) { viol = append(viol, cmViol{o, d}) }
	// witness of D30b, setmapping-skip-answered-by-parent-notdef (fixed in e336336; see
	// witness_setMapping in Props/C13cce.lean), replayed on every run as a regression detector
	func() {
		defer func() {
			if p := recover(); p != nil {
				bad("c13-no-panic", fmt.Sprintf("panic: %v", p))
			}
		}()
		codec, _ := charcode.NewCodec(charcode.Simple)
		par := &cmap.File{Name: "W-P", NotdefRanges: []cmap.Range{{First: []byte{0}, Last: []byte{0xff}, Value: 2}}}
		f := &cmap.File{Name: "W-C", Parent: par, NotdefSingles: []cmap.Single{{Code: []byte{0x16}, Value: 7}}}
		data := map[charcode.Code]cid.CID{0x16: 2}
		before := cmFileWire(f)
		f.SetMapping(codec, data)
		if c != nil {
			c.Emit("CC setmap "+ccCSRWire(charcode.Simple)+" "+before+" "+cmChainWire(par)+" "+cmDataWire(data), "ok "+cmFileWire(f))
			c.Emit("CC lookup "+cmChainWire(f)+" 16/17", "ok "+strconv.FormatUint(uint64(f.LookupCID([]byte{0x16})), 10)+"/"+strconv.FormatUint(uint64(f.LookupCID([]byte{0x17})), 10))
			c.Case("fixed setmapping-witness", true)
		}
		if got := f.LookupCID([]byte{0x16}); got != 2 {
			bad("setmapping-skip-answered-by-parent-notdef", fmt.Sprintf("simple: code 16 is mapped to 2; SetMapping stored nothing for it (the parent answers 2 through its notdef range) and LookupCID returns %d from the file's own notdef entries", got))
		}
	}()
	cases := []map[charcode.Code]string{
		{0x41: "\ud7ff", 0x42: "\ufffd", 0x43: "\ufffe"},                 // D13
		{0x41: "\ud7fe", 0x42: "\ud7ff", 0x43: "\ue000"},                 // across the surrogate gap
		{0x41: "\U0010fffe", 0x42: "\U0010ffff", 0x43: "\ufffd"},         // past the last scalar value
		{0x41: "a\U0010ffff", 0x42: "a\ufffd"},                           //
		{0x41: "\ufffc", 0x42: "\ufffd", 0x43: "\ufffe", 0x44: "\uffff"}, // a genuine run through U+FFFD
		{0xfe: "A", 0xff: "B"},                                           //
		{0x00: "", 0x01: "", 0x02: ""},                                   // empty texts
		{0x10: "ab", 0x11: "ac", 0x12: "ad", 0x13: "bd"},                 //
	}
	for _, data := range cases {
		f, err, p := cmNewTU(charcode.Simple, data)
		if err != nil || p != nil {
			bad("c13-no-panic", fmt.Sprintf("NewToUnicodeFile(%s): err=%v panic=%v", cmTDataWire(data), err, p))
			continue
		}
		if c != nil {
			c.Emit("CC tunew "+ccCSRWire(charcode.Simple)+" "+cmTDataWire(data), "ok "+cmTUFileWire(f))
			c.Case("fixed "+cmTDataWire(data), true)
		}
		for code, want := range data {
			got, ok := f.Lookup([]byte{byte(code)})
			if !ok || got != want {
				bad("tu-lookup", fmt.Sprintf("map %s: Lookup(%02x) = (%s,%v), want %s", cmTDataWire(data), code, cmTextWire(got), ok, cmTextWire(want)))
			}
		}
		codec, _ := charcode.NewCodec(charcode.Simple)
		var probes [][]byte
		for i := 0; i < 256; i++ {
			probes = append(probes, []byte{byte(i)})
		}
		viol = append(viol, cmCheckTUFile(c, NewRand(7), f, codec, charcode.Simple, probes, cmOptsAll[:2], c != nil, true)...)
	}
	return
}

// ---- run ----

func runC13(c *Ctx) {
	r := c.R
	n := 2500
	if c.Thorough {
		n = 40000
	}
	cmReport(c, "fixed", cmFixed(c), "fixed 0")

	// nextString on boundary values (correspondence only; the function is unexported and is
	// observed through single-start ranges in the ToUnicode cases)
	for i := 0; i < n; i++ {
		rr := r.Fork()
		st := rr.s
		key, viol, nt := cmCaseCID(c, rr, true)
		c.Case(key, nt)
		cmReport(c, key, viol, "cid "+strconv.FormatUint(st, 10))
		if i < 2 {
			c.Sample(truncate(key))
		}

		rr = r.Fork()
		st = rr.s
		key, viol, nt = cmCaseTU(c, rr, true)
		c.Case(key, nt)
		cmReport(c, key, viol, "tu "+strconv.FormatUint(st, 10))
		if i < 2 {
			c.Sample(truncate(key))
		}

		rr = r.Fork()
		st = rr.s
		key, viol = cmCaseRangeEnum(c, rr, true)
		c.Case(key, true)
		cmReport(c, key, viol, "enum "+strconv.FormatUint(st, 10))

		if i%10 == 0 {
			rr = r.Fork()
			st = rr.s
			key, viol = cmCaseHuge(c, rr, true)
			c.Case(key, true)
			cmReport(c, key, viol, "huge "+strconv.FormatUint(st, 10))
		}

		if i%2 == 0 {
			rr = r.Fork()
			st = rr.s
			key, viol = cmCaseHandBuilt(c, rr, true)
			c.Case(key, true)
			cmReport(c, key, viol, "hand "+strconv.FormatUint(st, 10))

			rr = r.Fork()
			st = rr.s
			key, viol = cmCaseTUHand(c, rr, true)
			c.Case(key, true)
			cmReport(c, key, viol, "tuhand "+strconv.FormatUint(st, 10))
		}
	}
}

// cmOracleName maps a class key to the oracle whose replay function re-runs it.
func cmOracleName(key string) string {
	switch key {
	case "notdef-child-ignored-with-parent":
		return "lookup-unmapped"
	case "setmapping-skip-answered-by-parent-notdef":
		return "lookup-mapped"
	case "bfrange-last-byte-overflow":
		return "tu-lookup"
	}
	return key
}

package main

import (
	"bytes"
	"fmt"
	"io"
	"strings"

	"seehuhn.de/go/pdf"
	"seehuhn.de/go/pdf/graphics/content"
	"seehuhn.de/go/pdf/graphics/content/builder"
	"seehuhn.de/go/pdf/page"
)

// C15 — Builder segments: Harvest / Build / Reset while the Builder goes on.
//
// A Builder program is run with 1..4 Harvest points (or several Build calls).
// Every segment handed out by the library is kept while the Builder is used
// further.  Independently, a log of the operators is kept: after every
// Builder call the operators that the call appended to b.Stream are copied
// (deep, as wire text) into the log of the current segment.  At every
// hand-out the segment is also snapshotted (wire text and serialised bytes).
//
// After ALL emission is finished:
//   - every kept segment still equals its snapshot and the log of the calls
//     made between the corresponding Harvest points (nothing handed out by the
//     library changes when the library is used further),
//   - serialising it now gives the bytes it gave at hand-out time,
//   - scanning those bytes gives exactly the logged operators,
//   - the segments of one Builder session, read as the Contents array of a
//     page (page.SegmentsReader), give the concatenation of the logs,
//   - that concatenation is accepted by a fresh State, closes balanced, and is
//     balanced as it stands when Close() reported no error.

func init() {
	addRun("C15", "Builder programs with 1-4 Harvest points (segments kept while the Builder emits further operators; Reset between sessions; the Build variant with several builds on one Builder): every kept segment, serialised after all emission is finished, equals its snapshot taken at hand-out time and the log of the operators emitted between the Harvest points, re-reads to exactly those operators, and the segments read as one Contents array are accepted by the state machine and balanced. Distinct by content type, version and call sequence; non-trivial when at least two non-empty segments were kept.", runCNTHarvest)
	addReplay("C15", "harvest", replayCNTHarvest)
}

type cntSegment struct {
	ops      *content.Operators // as handed out by the library, kept
	logWire  string             // operators logged call by call between the Harvest points
	snapWire string             // wire text of ops at hand-out time
	snapRaw  []byte             // serialisation at hand-out time
	session  int
	how      string
}

func cntNormOps(ops []content.Operator) []content.Operator {
	out := make([]content.Operator, len(ops))
	for i, o := range ops {
		args := make([]pdf.Object, len(o.Args))
		for j, a := range o.Args {
			args[j] = cntAsNative(a)
		}
		out[i] = content.Operator{Name: o.Name, Args: args}
	}
	return out
}

func cntSegWire(ops []content.Operator) string {
	n := cntNormOps(ops)
	if len(n) == 0 {
		return ""
	}
	return cntOpsWire(n, false)
}

func cntSerialise(o *content.Operators) ([]byte, error) {
	rc, err := o.RawBytes()
	if err != nil {
		return nil, err
	}
	defer rc.Close()
	return io.ReadAll(rc)
}

// cntHarvestProgram runs one program; it is deterministic in (seed, ct, v, variant).
func cntHarvestProgram(seed uint64, ct content.Type, v pdf.Version, variant int, c *Ctx) (ok bool, detail string, key string, nontrivial bool) {
	r := &Rand{s: seed}
	var calls []string
	fail := func(format string, a ...any) (bool, string, string, bool) {
		return false, fmt.Sprintf(format, a...) + fmt.Sprintf(" [type=%d version=%d variant=%d calls=%s]", ct, v, variant, strings.Join(calls, ",")),
			fmt.Sprintf("h:%d:%d:%d:%s", ct, v, variant, strings.Join(calls, ",")), true
	}
	stat := func(s string) {
		if c != nil {
			c.Stat(s)
		}
	}

	b := builder.New(ct, nil, v)
	var kept []*cntSegment
	var curLog strings.Builder
	session := 0
	prevLen := 0
	var logErr string
	// logNew copies what the last call appended to b.Stream into the log
	logNew := func() {
		if len(b.Stream) < prevLen {
			logErr = fmt.Sprintf("b.Stream shrank from %d to %d operators inside a call", prevLen, len(b.Stream))
			prevLen = len(b.Stream)
			return
		}
		curLog.WriteString(cntSegWire(b.Stream[prevLen:]))
		prevLen = len(b.Stream)
	}
	emit := func(n int) {
		for i := 0; i < n && b.Err == nil; i++ {
			call := cntBuilderPick(b, r, v)
			calls = append(calls, call)
			cntBuilderDo(b, r, call, logNew)
		}
	}
	keep := func(o *content.Operators, how string) string {
		seg := &cntSegment{ops: o, logWire: curLog.String(), snapWire: cntSegWire(o.Ops), session: session, how: how}
		raw, err := cntSerialise(o)
		if err != nil {
			return "serialising a fresh segment failed: " + err.Error()
		}
		seg.snapRaw = raw
		kept = append(kept, seg)
		curLog.Reset()
		prevLen = len(b.Stream)
		return ""
	}

	var panicked any
	var early string
	func() {
		defer func() { panicked = recover() }()
		switch variant {
		case 0, 1: // Harvest points on one Builder; variant 1 resets between sessions
			points := 1 + r.Intn(4)
			for p := 0; p <= points && b.Err == nil; p++ {
				emit(1 + r.Intn(12))
				if b.Err != nil {
					break
				}
				if p == points && r.Bool() {
					break // the last stretch may stay in the Builder (taken below)
				}
				calls = append(calls, "Harvest")
				o, err := b.Harvest()
				if err != nil {
					early = "Harvest failed on an error-free Builder: " + err.Error()
					return
				}
				if b.Stream != nil && len(b.Stream) != 0 {
					early = fmt.Sprintf("after Harvest the Builder still holds %d operators", len(b.Stream))
					return
				}
				if d := keep(o, "Harvest"); d != "" {
					early = d
					return
				}
				if variant == 1 && r.P(1, 3) && p < points {
					calls = append(calls, "Reset")
					b.Reset()
					session++
					prevLen = 0
				}
			}
			// what is still in the Builder is the last segment of the session
			if b.Err == nil && len(b.Stream) > 0 {
				calls = append(calls, "Harvest")
				o, err := b.Harvest()
				if err != nil {
					early = "Harvest failed on an error-free Builder: " + err.Error()
					return
				}
				if d := keep(o, "Harvest"); d != "" {
					early = d
					return
				}
			}
		default: // several Build calls on one Builder
			builds := 2 + r.Intn(3)
			for p := 0; p < builds && b.Err == nil; p++ {
				calls = append(calls, "Build{")
				session = p
				prevLen = 0
				o := b.Build(func(b *builder.Builder) error {
					prevLen = len(b.Stream)
					emit(1 + r.Intn(12))
					// close what is open so that Build's Close check can pass
					for _, n := range b.State.ClosingOperators() {
						if b.Err != nil {
							break
						}
						switch n {
						case content.OpEndPath:
							calls = append(calls, "EndPath")
							cntBuilderDo(b, r, "EndPath", logNew)
						case content.OpPopGraphicsState:
							calls = append(calls, "Pop")
							cntBuilderDo(b, r, "Pop", logNew)
						case content.OpTextEnd:
							calls = append(calls, "TextEnd")
							cntBuilderDo(b, r, "TextEnd", logNew)
						case content.OpEndMarkedContent:
							calls = append(calls, "MCEnd")
							cntBuilderDo(b, r, "MCEnd", logNew)
						default:
							return nil
						}
					}
					return nil
				})
				calls = append(calls, "}")
				if o == nil {
					// rejected program or unbalanced (e.g. BX left open, Type 3 start): not a segment
					b.Err = nil
					curLog.Reset()
					continue
				}
				if d := keep(o, "Build"); d != "" {
					early = d
					return
				}
				// mixed use: go on emitting directly after Build and harvest that
				if r.Bool() {
					emit(1 + r.Intn(6))
					if b.Err != nil {
						break
					}
					calls = append(calls, "Harvest")
					o2, err := b.Harvest()
					if err != nil {
						early = "Harvest failed on an error-free Builder: " + err.Error()
						return
					}
					if d := keep(o2, "Harvest"); d != "" {
						early = d
						return
					}
				}
			}
		}
	}()
	key = fmt.Sprintf("h:%d:%d:%d:%s", ct, v, variant, strings.Join(calls, ","))
	if panicked != nil {
		return fail("Builder panicked: %v", panicked)
	}
	if early != "" {
		return fail("%s", early)
	}
	if logErr != "" {
		return fail("%s", logErr)
	}
	closeErr := b.Close()
	rejected := b.Err != nil
	if rejected {
		stat("harvest_programs_rejected_late")
	}

	nonEmpty := 0
	for _, s := range kept {
		if len(s.ops.Ops) > 0 {
			nonEmpty++
		}
	}
	nontrivial = nonEmpty >= 2
	stat(fmt.Sprintf("harvest_kept_segments_%d", min(len(kept), 5)))

	// ---- after all emission: every kept segment is what it was ----
	for i, s := range kept {
		now := cntSegWire(s.ops.Ops)
		if now != s.snapWire {
			return fail("segment %d (%s) changed after it was handed out: was %s, is now %s", i, s.how, truncate(s.snapWire), truncate(now))
		}
		if s.snapWire != s.logWire {
			return fail("segment %d (%s) is not what was emitted between the Harvest points: emitted %s, segment %s", i, s.how, truncate(s.logWire), truncate(s.snapWire))
		}
		raw, err := cntSerialise(s.ops)
		if err != nil {
			return fail("serialising segment %d failed: %v", i, err)
		}
		if !bytes.Equal(raw, s.snapRaw) {
			return fail("segment %d (%s) serialises differently after further use of the Builder: %q, at hand-out time %q", i, s.how, truncate(string(raw)), truncate(string(s.snapRaw)))
		}
		logged, err := cntOpsUnwire("a" + s.logWire + "]")
		if err != nil {
			return fail("internal: log of segment %d does not parse: %v", i, err)
		}
		if s.how == "Build" {
			// Build hands out a segment only after its Close check succeeded
			if d := cntBalance(logged, nil); d != "" {
				return fail("segment %d was returned by Build but is not balanced: %s", i, d)
			}
		}
		if inDomain, hazards := cntClassify(logged); inDomain && len(hazards) == 0 {
			got, err := cntScan(raw)
			if err != nil {
				return fail("scanning segment %d failed: %v", i, err)
			}
			if ok, d := cntOpsEqual(logged, got); !ok {
				return fail("segment %d (%s) does not re-read as emitted: %s — bytes %q", i, s.how, d, truncate(string(raw)))
			}
		}
	}

	// ---- per session: the segments as one Contents array ----
	for ses := 0; ses <= session; ses++ {
		var segs []page.Segment
		var all []content.Operator
		clean := true
		for _, s := range kept {
			if s.session != ses {
				continue
			}
			segs = append(segs, s.ops)
			logged, _ := cntOpsUnwire("a" + s.logWire + "]")
			all = append(all, logged...)
		}
		if len(segs) == 0 {
			continue
		}
		if inDomain, hazards := cntClassify(all); !inDomain || len(hazards) > 0 {
			clean = false
		}
		if clean {
			got, err := cntCollect(content.NewScanner(func() (io.ReadCloser, error) {
				return page.SegmentsReader(segs), nil
			}))
			if err != nil {
				return fail("scanning the segments of session %d failed: %v", ses, err)
			}
			if ok, d := cntOpsEqual(all, got); !ok {
				return fail("the %d segments of session %d read as one Contents array differ from what was emitted: %s", len(segs), ses, d)
			}
		}
		line, accepted, okc, d := cntApplyAll(ct, v, all)
		if !accepted {
			return fail("the concatenated segments of session %d are rejected by State.ApplyOperator: %s %s", ses, line, d)
		}
		if !okc {
			return fail("the concatenated segments of session %d do not close balanced: %s", ses, d)
		}
		if c != nil {
			c.Emit(fmt.Sprintf("CNT apply %d %s %s", int(ct), cntStrict(v), cntOpsWire(all, false)), line)
		}
		// Build only hands out a segment after Close succeeded; Harvest sessions are
		// balanced as they stand when the final Close reported no error
		last := ses == session
		if variant < 2 && last && !rejected && closeErr == nil && ct != content.Glyph {
			if d := cntBalance(all, nil); d != "" {
				return fail("session %d was closed without error but is not balanced: %s", ses, d)
			}
		}
	}
	return true, "", key, nontrivial
}

func replayCNTHarvest(input string) (bool, string) {
	cntWireSetup()
	var seed uint64
	var ct, v, variant int
	if _, err := fmt.Sscan(input, &seed, &ct, &v, &variant); err != nil {
		return true, "bad replay input: " + err.Error()
	}
	ok, d, _, _ := cntHarvestProgram(seed, content.Type(ct), pdf.Version(v), variant, nil)
	return ok, d
}

func runCNTHarvest(c *Ctx) {
	cntWireSetup()
	r := c.R
	// observation (not part of the property): does DrawInlineImageRaw keep the caller's
	// data slice?  (TextShow*Raw document that they clone; this method does not say.)
	func() {
		defer func() { recover() }()
		b := builder.New(content.Page, nil, pdf.V1_7)
		data := []byte("abc")
		b.DrawInlineImageRaw(pdf.Dict{"W": pdf.Integer(1), "H": pdf.Integer(1)}, data)
		data[0] = 'X'
		if len(b.Stream) == 1 && len(b.Stream[0].Args) == 2 {
			if s, ok := b.Stream[0].Args[1].(pdf.String); ok && len(s) == 3 && s[0] == 'X' {
				c.Stat("observation_DrawInlineImageRaw_keeps_callers_data_slice")
			}
		}
	}()
	n := 4000
	if c.Thorough {
		n = 60000
	}
	for i := 0; i < n; i++ {
		ct := Pick(r, cntTypes)
		if r.P(1, 2) {
			ct = content.Page
		}
		v := Pick(r, []pdf.Version{pdf.V1_7, pdf.V2_0, pdf.V1_4})
		variant := r.Intn(3)
		seed := r.U64()
		ok, d, key, nt := cntHarvestProgram(seed, ct, v, variant, c)
		c.Case(key, nt)
		c.Stat(fmt.Sprintf("harvest_variant_%d", variant))
		if nt {
			c.Stat("harvest_two_or_more_nonempty_segments")
		}
		if !ok {
			c.Violate("harvest", "builder-segments", d, fmt.Sprintf("%d %d %d %d", seed, int(ct), int(v), variant))
		}
		if i < 1 {
			c.Sample("harvest program: " + key)
		}
	}
}

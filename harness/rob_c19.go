package main

import (
	"path/filepath"
	"bytes"
	"crypto/sha1"
	"errors"
	"fmt"
	"io"
	"runtime"
	"runtime/debug"
	"sort"
	"strconv"
	"strings"
	"time"

	"seehuhn.de/go/pdf"
	"seehuhn.de/go/pdf/pagetree"
)

// C19 on whole files: every ReadAt index k of an open/Get/decode session is
// made to fail (from k on / only k / short read with error), and every
// Write/Seek index k of a Writer session.

// ---- faulty io.ReaderAt ----

// c19Src serves data like bytes.Reader.  mode: 'n' none; 'f' every call with
// index >= k returns (0, injected); 'o' only call k; 's' only call k returns
// about half of the bytes together with the injected error; 'S' the same for
// every call with index >= k; 'b' a bad sector: the 16 bytes from file offset k on cannot be read,
// every call that asks for one of them returns the bytes in front of them and the injected error.
type c19Src struct {
	data  []byte
	calls int
	mode  byte
	k     int
	hits  int
	hold  bool // no faults while set (a sector that goes bad in the middle of a session)

	// where the injected faults struck (for attributing a violation to a
	// former finding, all fixed upstream; the keys are regression detectors): inside the /Length validation of ReadStreamData (ROB-2),
	// inside FileInfo.getTrailer (ROB-3), a short read below scanner.PeekN (ROB-1)
	hitExtent, hitTrailer, hitPeekShort bool

	// innermost frame of a sub-package of the library (not package pdf itself) on the stack of
	// the first injected fault since it was last cleared: the consumer whose read failed
	// (rob_c19w.go clears it at every step and keys violations by it)
	hitSite string
}

func (f *c19Src) noteHit() {
	f.hits++
	pcs := make([]uintptr, 64)
	n := runtime.Callers(2, pcs)
	frames := runtime.CallersFrames(pcs[:n])
	var inStreamData, inGetInt, inPeek bool
	root := ""
	for {
		fr, more := frames.Next()
		fn := fr.Function
		// (by file, not by function name: the body of a range-over-func iterator that was
		// inlined into the harness carries the harness's package in its name)
		if root == "" && strings.HasPrefix(fn, "seehuhn.de/go/pdf.") {
			root = filepath.Dir(fr.File)
		}
		if f.hitSite == "" && root != "" && strings.HasPrefix(fr.File, root+"/") && filepath.Dir(fr.File) != root {
			rel, _ := filepath.Rel(root, filepath.Dir(fr.File))
			parts := strings.Split(fn[strings.LastIndex(fn, "/")+1:], ".")
			name := ""
			for i := len(parts) - 1; i > 0; i-- {
				p := parts[i]
				if p == "" || (strings.HasPrefix(p, "func") && len(p) > 4) || (p[0] >= '0' && p[0] <= '9') || strings.HasPrefix(p, "]") {
					continue
				}
				name = p
				break
			}
			f.hitSite = filepath.ToSlash(rel) + "." + name
		}
		switch {
		case strings.HasSuffix(fn, "pdf.endstreamAt"), strings.HasSuffix(fn, "pdf.trimTrailingEOL"):
			f.hitExtent = true
		case strings.HasSuffix(fn, "pdf.(*scanner).ReadStreamData"):
			inStreamData = true
		case strings.Contains(fn, "safeGetInteger.func"), strings.Contains(fn, "makeSafeGetInt.func"):
			inGetInt = true
		case strings.HasSuffix(fn, "pdf.(*FileInfo).getTrailer"):
			f.hitTrailer = true
		case strings.HasSuffix(fn, "pdf.(*scanner).PeekN"):
			inPeek = true
		}
		if !more {
			break
		}
	}
	if inStreamData && inGetInt {
		f.hitExtent = true
	}
	if inPeek && (f.mode == 's' || f.mode == 'S') {
		f.hitPeekShort = true
	}
}

func (f *c19Src) ReadAt(p []byte, off int64) (int, error) {
	idx := f.calls
	f.calls++
	var good []byte
	if off >= 0 && off < int64(len(f.data)) {
		good = f.data[off:]
		if len(good) > len(p) {
			good = good[:len(p)]
		}
	}
	fail := false
	switch f.mode {
	case 'f', 'S':
		fail = idx >= f.k
	case 'o', 's':
		fail = idx == f.k
	case 'b':
		fail = off < int64(f.k)+16 && off+int64(len(good)) > int64(f.k)
	}
	if f.hold {
		fail = false
	}
	if fail {
		f.noteHit()
		n := 0
		if f.mode == 's' || f.mode == 'S' {
			n = (len(good) + 1) / 2
		}
		if f.mode == 'b' {
			n = int(max(0, int64(f.k)-off))
		}
		copy(p, good[:n])
		return n, errInjected
	}
	n := copy(p, good)
	if n < len(p) {
		return n, io.EOF
	}
	return n, nil
}

// ---- sessions ----

type c19Session struct {
	doc  *robDoc
	path byte // 'N' NewReader, 'Q' SequentialScan + MakeReader
	eh   pdf.ReaderErrorHandling
}

func (s c19Session) String() string {
	return fmt.Sprintf("%c eh=%d %s", s.path, int(s.eh), s.doc.Spec)
}

type c19Result struct {
	name string
	repr string // canonical value (when err == nil) or error class (when err != nil)
	err  error
	data []byte // decoded bytes of a "decode" step
	raw  int64  // extent of the raw stream data (steps on streams), else -1
	site string // rob_c19w.go: consumer below which the first fault of this step struck
}

func c19ShowObj(o pdf.Object) string {
	switch x := o.(type) {
	case *pdf.Stream:
		return "stream" + wireNorm(x.Dict)
	case nil:
		return "z"
	}
	defer func() { recover() }()
	return wireNorm(o)
}

func c19Meta(r *pdf.Reader) string {
	m := r.GetMeta()
	var sb strings.Builder
	fmt.Fprintf(&sb, "v=%s id=%x perm=%d", m.Version, m.ID, m.Permissions)
	if m.Info != nil {
		fmt.Fprintf(&sb, " info=%q/%q", m.Info.Title, m.Info.Producer)
	} else {
		sb.WriteString(" info=nil")
	}
	if m.Catalog != nil {
		fmt.Fprintf(&sb, " pages=%s", m.Catalog.Pages)
	} else {
		sb.WriteString(" catalog=nil")
	}
	keys := make([]string, 0, len(m.Trailer))
	for k := range m.Trailer {
		keys = append(keys, string(k))
	}
	sort.Strings(keys)
	fmt.Fprintf(&sb, " trailer=%v errors=%d", keys, len(r.Errors))
	return sb.String()
}

// run executes the session on src.  Steps after a failed open are skipped.
func (s c19Session) run(src *c19Src) (res []c19Result) {
	add := func(name, repr string, err error) {
		if err != nil {
			repr = "error:" + robClass(err)
		}
		res = append(res, c19Result{name: name, repr: repr, err: err, raw: -1})
	}
	opt := &pdf.ReaderOptions{Password: s.doc.Spec.readerPassword(), ErrorHandling: s.eh}
	size := int64(len(src.data))
	var r *pdf.Reader
	var err error
	if s.path == 'N' {
		r, err = pdf.NewReader(src, size, opt)
	} else {
		var fi *pdf.FileInfo
		fi, err = pdf.SequentialScan(src, size)
		if err == nil {
			var sb strings.Builder
			for _, sec := range fi.Sections {
				for _, o := range sec.Objects {
					fmt.Fprintf(&sb, "%s@%d-%d:%v:%s;", o.Reference, o.ObjStart, o.ObjEnd, o.Broken, o.Type)
				}
				sb.WriteString("|")
			}
			add("scan", sb.String(), nil)
			r, err = fi.MakeReader(opt)
		}
	}
	if err == nil && r == nil {
		err = errors.New("nil reader without error")
	}
	if err != nil {
		add("open", "", err)
		return res
	}
	add("open", c19Meta(r), nil)
	for _, ref := range s.doc.Refs {
		o, err := r.Get(ref, true)
		add("get "+ref.String(), c19ShowObj(o), err)
		if st, ok := o.(*pdf.Stream); ok && err == nil {
			res[len(res)-1].raw = st.Length()
		}
	}
	for _, ref := range s.doc.Streams {
		name := "decode " + ref.String()
		o, err := r.Get(ref, true)
		if err != nil {
			add(name, "", err)
			continue
		}
		st, ok := o.(*pdf.Stream)
		if !ok {
			add(name, "not a stream", nil)
			continue
		}
		rd, err := pdf.DecodeStream(r, nil, st)
		if err != nil {
			add(name, "", err)
			res[len(res)-1].raw = st.Length()
			continue
		}
		data, err := io.ReadAll(rd)
		rd.Close()
		add(name, fmt.Sprintf("%d:%x", len(data), sha1.Sum(data)), err)
		res[len(res)-1].data = data
		res[len(res)-1].raw = st.Length()
	}
	it := pagetree.NewIterator(r)
	var pages []string
	for ref, d := range it.All() {
		pages = append(pages, ref.String()+wireNorm(d))
	}
	add("pages", strings.Join(pages, ","), it.Err)
	r.Close()
	return res
}

// runGuarded runs the session under recover and a watchdog.
func (s c19Session) runGuarded(src *c19Src) (res []c19Result, fatal string) {
	type out struct {
		res   []c19Result
		fatal string
	}
	ch := make(chan out, 1)
	go func() {
		defer func() {
			if e := recover(); e != nil {
				ch <- out{nil, fmt.Sprintf("panic: %v\n%s", e, c19TopFrames(string(debug.Stack())))}
			}
		}()
		ch <- out{s.run(src), ""}
	}()
	select {
	case o := <-ch:
		return o.res, o.fatal
	case <-time.After(20 * time.Second):
		return nil, "hang"
	}
}

func c19TopFrames(stack string) string {
	lines := strings.Split(stack, "\n")
	var keep []string
	for _, l := range lines {
		if strings.Contains(l, "seehuhn.de/go/pdf") && !strings.HasPrefix(l, "\t") {
			keep = append(keep, strings.TrimSpace(l))
			if len(keep) == 4 {
				break
			}
		}
	}
	return strings.Join(keep, " <- ")
}

// c19Compare decides the property for one faulty run against the fault-free
// run.  key is empty when the property holds.
func c19Compare(base, got []c19Result, src *c19Src, path byte) (key, detail string) {
	key, detail = c19CompareRaw(base, got, src.mode, path)
	if key == "" {
		return
	}
	switch {
	case src.hitExtent:
		// former finding ROB-2 (fixed upstream in a2d2dfe; the class key is kept as a
		// regression detector, a recurrence is a VIOLATION): ReadStreamData ignored
		// the errors of the reads that validate /Length (resolving an indirect
		// length, endstreamAt, trimTrailingEOL) and silently recovered the extent
		// by searching for EOL+endstream
		return "C19-stream-extent-recovered-after-io-error", key + ": " + detail
	case src.hitTrailer:
		// former finding ROB-3 (fixed upstream in 24df3f0; regression detector):
		// FileInfo.getTrailer discarded every error of fi.Read/readTrailer, I/O
		// errors included
		return "C19-makereader-trailer-io-error-swallowed", key + ": " + detail
	case src.hitPeekShort:
		// former finding ROB-1, fixed as D33 (see rob_scan.go); kept as a regression detector
		return "C19-peekn-short-read-error-swallowed", key + ": " + detail
	}
	return
}

func c19CompareRaw(base, got []c19Result, mode byte, path byte) (key, detail string) {
	bm := map[string]c19Result{}
	for _, b := range base {
		bm[b.name] = b
	}
	short := ""
	if mode == 's' || mode == 'S' {
		short = "-shortread"
	}
	for _, g := range got {
		b, ok := bm[g.name]
		if !ok {
			return "C19-extra-step", g.name
		}
		kind := strings.Fields(g.name)[0]
		if g.raw >= 0 && b.raw >= 0 && g.raw != b.raw && !(g.err != nil && errors.Is(g.err, errInjected) && !pdf.IsMalformed(g.err)) {
			return "C19-different-stream-extent" + short + "-" + kind, fmt.Sprintf("step %q: raw stream extent %d with fault, %d fault-free (decoded: %s / %s)", g.name, g.raw, b.raw, truncate(g.repr), truncate(b.repr))
		}
		if g.err == nil {
			if b.err == nil && b.repr == g.repr {
				continue
			}
			return "C19-different-data" + short + "-" + kind, fmt.Sprintf("step %q: with fault %s, fault-free %s", g.name, truncate(g.repr), truncate(b.repr))
		}
		if errors.Is(g.err, errInjected) {
			if pdf.IsMalformed(g.err) {
				return "C19-io-error-classified-malformed" + short + "-" + kind, fmt.Sprintf("step %q: %v", g.name, g.err)
			}
			continue
		}
		if b.err != nil && b.repr == g.repr {
			continue // the same (non-I/O) outcome as without the fault
		}
		return "C19-io-error-replaced" + short + "-" + kind, fmt.Sprintf("step %q: error %q does not carry the injected error (class %s); fault-free: %s", g.name, g.err, robClass(g.err), truncate(b.repr))
	}
	return "", ""
}

// ---- replay strings ----

func c19SpecWire(s robDocSpec) string {
	return fmt.Sprintf("%d/%v/%s/%s/%d/%d/%v/%d/%d", int(s.Version), s.Human, hexWire([]byte(s.UserPW)), hexWire([]byte(s.OwnerPW)), s.NPages, s.NExtra, s.NonSeek, s.Seed, s.FilterMix)
}

func c19SpecUnwire(w string) (robDocSpec, error) {
	f := strings.Split(w, "/")
	var s robDocSpec
	if len(f) != 9 {
		return s, errors.New("bad spec")
	}
	v, _ := strconv.Atoi(f[0])
	s.Version = pdf.Version(v)
	s.Human = f[1] == "true"
	unhex := func(x string) string {
		if x == "-" {
			return ""
		}
		var b []byte
		fmt.Sscanf(x, "%x", &b)
		return string(b)
	}
	s.UserPW, s.OwnerPW = unhex(f[2]), unhex(f[3])
	s.NPages, _ = strconv.Atoi(f[4])
	s.NExtra, _ = strconv.Atoi(f[5])
	s.NonSeek = f[6] == "true"
	s.Seed, _ = strconv.ParseUint(f[7], 10, 64)
	s.FilterMix, _ = strconv.Atoi(f[8])
	return s, nil
}

// replay input: "<spec> <path> <eh> <mode> <k>"
func replayC19Read(input string) (bool, string) {
	f := strings.Fields(input)
	if len(f) != 5 {
		return true, "bad replay input"
	}
	spec, err := c19SpecUnwire(f[0])
	if err != nil {
		return true, "bad replay input"
	}
	doc, err := buildDoc(spec, nil)
	if err != nil {
		return true, "document does not build: " + err.Error()
	}
	eh, _ := strconv.Atoi(f[2])
	k, _ := strconv.Atoi(f[4])
	s := c19Session{doc, f[1][0], pdf.ReaderErrorHandling(eh)}
	base, fatal := s.runGuarded(&c19Src{data: doc.Data, mode: 'n'})
	if fatal != "" {
		return false, "fault-free run: " + fatal
	}
	fsrc := &c19Src{data: doc.Data, mode: f[3][0], k: k}
	got, fatal := s.runGuarded(fsrc)
	if fatal != "" {
		return false, fatal
	}
	key, d := c19Compare(base, got, fsrc, f[1][0])
	if key != "" {
		return false, key + ": " + d
	}
	return true, fmt.Sprintf("%d steps agree with the fault-free run or carry the injected error", len(got))
}

// ---- run: readers ----

func robC19ReadRun(c *Ctx) {
	r := c.R.Fork()
	nDocs := 36
	if c.Thorough {
		nDocs = 400
	}
	modes := []byte{'f', 'o', 's', 'S'}
	fatals := 0
	for i := 0; i < nDocs && fatals < 3; i++ {
		spec := genDocSpec(r)
		if i < 6 { // make sure the main layouts are always there
			spec.Human = i%2 == 0
			spec.Version = []pdf.Version{pdf.V1_4, pdf.V1_7, pdf.V1_7, pdf.V2_0, pdf.V1_2, pdf.V1_6}[i]
			spec.OwnerPW = []string{"", "", "o", "o", "", "o"}[i]
			spec.UserPW = ""
			if i == 5 {
				spec.UserPW = "u"
			}
		}
		doc, err := buildDoc(spec, nil)
		if err != nil {
			c.Stat("c19_doc_build_error")
			continue
		}
		path := byte('N')
		if i%3 == 2 {
			path = 'Q'
		}
		s := c19Session{doc, path, pdf.ReaderErrorHandling(r.Intn(3))}
		baseSrc := &c19Src{data: doc.Data, mode: 'n'}
		base, fatal := s.runGuarded(baseSrc)
		if fatal != "" {
			fatals++
			c.Violate("c19read", "C19-faultfree-"+strings.Fields(fatal)[0], fatal+" in "+s.String(), fmt.Sprintf("%s %c %d n 0", c19SpecWire(spec), path, int(s.eh)))
			continue
		}
		total := baseSrc.calls
		c.StatN("c19_readat_calls_enumerated", total)
		c.Stat(fmt.Sprintf("c19_session_%c_eh%d", path, int(s.eh)))
		if spec.OwnerPW != "" {
			c.Stat("c19_session_encrypted")
		}
		if !spec.Human && spec.Version >= pdf.V1_5 {
			c.Stat("c19_session_xrefstream")
		}
		for _, b := range base {
			if b.err != nil {
				c.Stat("c19_faultfree_step_error")
			}
		}
		if i < 2 {
			c.Sample(fmt.Sprintf("%s: %d ReadAt calls, %d steps; every k x modes f,o,s,S", s, total, len(base)))
		}
		for _, mode := range modes {
			for k := 0; k < total; k++ {
				src := &c19Src{data: doc.Data, mode: mode, k: k}
				got, fatal := s.runGuarded(src)
				input := fmt.Sprintf("%s %c %d %c %d", c19SpecWire(spec), path, int(s.eh), mode, k)
				c.Case(input, src.hits > 0)
				if fatal != "" {
					fatals++
					c.Violate("c19read", "C19-"+strings.Fields(fatal)[0], fatal+" in "+s.String(), input)
					if fatals >= 3 {
						return
					}
					continue
				}
				nerr := 0
				for _, g := range got {
					if g.err != nil {
						nerr++
					}
				}
				if nerr > 0 {
					c.Stat("c19_run_with_error_steps")
				} else {
					c.Stat("c19_run_all_steps_as_fault_free")
				}
				if key, d := c19Compare(base, got, src, path); key != "" {
					c.Violate("c19read", key, fmt.Sprintf("%s; fault mode %c at ReadAt #%d of %s", d, mode, k, s), input)
					c.Stat("c19_violation_" + key)
				}
			}
		}
	}
}

// ---- run: writers ----

type c19Sink struct {
	buf   []byte
	pos   int64
	calls int
	mode  byte
	k     int
	hits  int
}

func (s *c19Sink) fail() bool {
	idx := s.calls
	s.calls++
	f := (s.mode == 'f' && idx >= s.k) || (s.mode == 'o' && idx == s.k) || (s.mode == 's' && idx == s.k)
	if f {
		s.hits++
	}
	return f
}

func (s *c19Sink) Write(p []byte) (int, error) {
	if s.fail() {
		n := 0
		if s.mode == 's' {
			n = len(p) / 2
		}
		s.put(p[:n])
		return n, errInjected
	}
	s.put(p)
	return len(p), nil
}

func (s *c19Sink) put(p []byte) {
	end := s.pos + int64(len(p))
	if end > int64(len(s.buf)) {
		s.buf = append(s.buf, make([]byte, end-int64(len(s.buf)))...)
	}
	copy(s.buf[s.pos:], p)
	s.pos = end
}

func (s *c19Sink) Seek(offset int64, whence int) (int64, error) {
	if s.fail() {
		return 0, errInjected
	}
	switch whence {
	case io.SeekStart:
		s.pos = offset
	case io.SeekCurrent:
		s.pos += offset
	case io.SeekEnd:
		s.pos = int64(len(s.buf)) + offset
	}
	return s.pos, nil
}

type c19WriteOnly struct{ s *c19Sink }

func (w c19WriteOnly) Write(p []byte) (int, error) { return w.s.Write(p) }

func c19WriteOnce(spec robDocSpec, mode byte, k int) (sink *c19Sink, err error, fatal string) {
	sink = &c19Sink{mode: mode, k: k}
	var w io.Writer = sink
	if spec.NonSeek {
		w = c19WriteOnly{sink}
	}
	type out struct {
		err   error
		fatal string
	}
	ch := make(chan out, 1)
	go func() {
		defer func() {
			if e := recover(); e != nil {
				ch <- out{nil, fmt.Sprintf("panic: %v\n%s", e, c19TopFrames(string(debug.Stack())))}
			}
		}()
		_, err := buildDoc(spec, w)
		ch <- out{err, ""}
	}()
	select {
	case o := <-ch:
		return sink, o.err, o.fatal
	case <-time.After(20 * time.Second):
		return sink, nil, "hang"
	}
}

// replay input: "<spec> <mode> <k>"
func replayC19Write(input string) (bool, string) {
	f := strings.Fields(input)
	if len(f) != 3 {
		return true, "bad replay input"
	}
	spec, err := c19SpecUnwire(f[0])
	if err != nil {
		return true, "bad replay input"
	}
	k, _ := strconv.Atoi(f[2])
	sink, werr, fatal := c19WriteOnce(spec, f[1][0], k)
	if fatal != "" {
		return false, fatal
	}
	if sink.hits == 0 {
		return true, "the sink call was never reached"
	}
	if werr == nil {
		return false, "the sink failed but no Writer call up to Close returned an error"
	}
	if !errors.Is(werr, errInjected) {
		return false, fmt.Sprintf("the Writer's error %q does not carry the sink's error", werr)
	}
	return true, "error returned: " + werr.Error()
}

func robC19WriteRun(c *Ctx) {
	r := c.R.Fork()
	nDocs := 80
	if c.Thorough {
		nDocs = 1000
	}
	for i := 0; i < nDocs; i++ {
		spec := genDocSpec(r)
		spec.NonSeek = i%2 == 1
		base, err, fatal := c19WriteOnce(spec, 'n', 0)
		if fatal != "" || err != nil {
			c.Stat("c19w_faultfree_failed")
			if fatal != "" {
				c.Violate("c19write", "C19-writer-"+strings.Fields(fatal)[0], fatal, fmt.Sprintf("%s n 0", c19SpecWire(spec)))
			}
			continue
		}
		// the fault-free output through the counting sink must be the file itself
		ref, _ := buildDoc(spec, nil)
		if ref != nil && !bytes.Equal(ref.Data, base.buf) {
			c.Stat("c19w_sink_output_differs")
		}
		total := base.calls
		c.StatN("c19w_sink_calls_enumerated", total)
		if spec.NonSeek {
			c.Stat("c19w_nonseekable")
		} else {
			c.Stat("c19w_seekable")
		}
		if i < 2 {
			c.Sample(fmt.Sprintf("writer %s: %d Write/Seek calls; every k x modes f,o,s", spec, total))
		}
		for _, mode := range []byte{'f', 'o', 's'} {
			for k := 0; k < total; k++ {
				input := fmt.Sprintf("%s %c %d", c19SpecWire(spec), mode, k)
				sink, werr, fatal := c19WriteOnce(spec, mode, k)
				c.Case(input, sink.hits > 0)
				switch {
				case fatal != "":
					c.Violate("c19write", "C19-writer-"+strings.Fields(fatal)[0], fatal+" writing "+spec.String(), input)
				case sink.hits == 0:
					c.Stat("c19w_fault_not_reached")
				case werr == nil:
					c.Violate("c19write", "C19-sink-error-swallowed", fmt.Sprintf("sink call #%d failed (mode %c) but no Writer call up to Close returned an error; %s", k, mode, spec), input)
				case !errors.Is(werr, errInjected):
					c.Violate("c19write", "C19-sink-error-replaced", fmt.Sprintf("sink call #%d failed (mode %c); Writer returned %q which does not carry the sink's error; %s", k, mode, werr, spec), input)
				default:
					c.Stat("c19w_error_reported")
				}
			}
		}
	}
}

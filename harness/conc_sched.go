package main

// C18 — cache protocol of pdf.Extractor under a controlled scheduler.
//
// A program (same syntax as lean/PdfVerif/Driver/CONC.lean) is executed on the
// real library by one goroutine per thread.  Every goroutine runs only
// between two scheduling points: inside the gating Getter, inside the gating
// decode functions (before each nested call and before returning), at the
// five verifYield points of DecodeExclusive and between top-level calls.  The
// scheduler releases exactly one goroutine at a time and waits until it parks
// again, so an execution is determined by the sequence of released threads,
// and all such sequences are enumerated.

import (
	"errors"
	"fmt"
	"reflect"
	"slices"
	"sort"
	"strconv"
	"strings"
	"sync"
	"sync/atomic"
	"time"

	"seehuhn.de/go/pdf"
)

// ---------------------------------------------------------------- programs

type concObj struct {
	direct bool
	ref    int
}

func (o concObj) String() string {
	if o.direct {
		return "d"
	}
	return "r" + strconv.Itoa(o.ref)
}

const (
	resFresh = iota
	resFail
	resNil
	resPanic
	resSame
)

type concOp struct {
	pair   bool
	excl   bool
	tp     int // Decode/DecodeExclusive: T
	a, b   int // pair: types A, B
	obj    concObj
	nested []concNested
	rkind  int
	rarg   int // fresh: value id; fail: code; same: index
	ida    int // pair: ids of the proposed values
	txt    string
	idb    int
}

type concNested struct {
	root bool
	op   *concOp
}

type concProg struct {
	text    string
	threads [][]*concOp
	// solo: thread 0 makes its first solo calls alone, before any other thread is scheduled
	// (program text `pre/rest|…`): a prelude which brings the cache into a chosen state
	solo    int
	maxRef  int
	hasExcl bool
	hasPair bool
	// fnPanic: a decode function panics by design.  nilIface: a nil value of an interface
	// type reaches DecodeExclusive / StoreOrLoadPair — no panic since commit e69b1c0 (C18-F1);
	// a panic in such a program is reported under its own class key as a regression.
	nilIface bool
	fnPanic  bool
}

type concParser struct {
	s   string
	pos int
	ctr int
	p   *concProg
}

func (q *concParser) peek() byte {
	if q.pos < len(q.s) {
		return q.s[q.pos]
	}
	return 0
}

func (q *concParser) num() (int, bool) {
	st := q.pos
	for q.pos < len(q.s) && q.s[q.pos] >= '0' && q.s[q.pos] <= '9' {
		q.pos++
	}
	if st == q.pos {
		return 0, false
	}
	n, _ := strconv.Atoi(q.s[st:q.pos])
	return n, true
}

func (q *concParser) op() (*concOp, bool) {
	if q.pos+3 >= len(q.s) {
		return nil, false
	}
	switch q.s[q.pos] {
	case 'P':
		a, b := int(q.s[q.pos+1]-'0'), int(q.s[q.pos+2]-'0')
		if q.s[q.pos+3] != ':' || q.pos+4 >= len(q.s) || q.s[q.pos+4] != 'r' {
			return nil, false
		}
		q.pos += 5
		r, ok := q.num()
		if !ok {
			return nil, false
		}
		op := &concOp{pair: true, a: a, b: b, obj: concObj{ref: r}, ida: q.ctr + 1, idb: q.ctr + 2}
		q.ctr += 2
		q.p.hasPair = true
		if r > q.p.maxRef {
			q.p.maxRef = r
		}
		return op, true
	case 'D', 'X':
		op := &concOp{excl: q.s[q.pos] == 'X', tp: int(q.s[q.pos+1] - '0')}
		if q.s[q.pos+2] != ':' {
			return nil, false
		}
		q.pos += 3
		switch q.peek() {
		case 'd':
			q.pos++
			op.obj = concObj{direct: true}
		case 'r':
			q.pos++
			r, ok := q.num()
			if !ok {
				return nil, false
			}
			op.obj = concObj{ref: r}
			if r > q.p.maxRef {
				q.p.maxRef = r
			}
		default:
			return nil, false
		}
		if op.excl {
			q.p.hasExcl = true
		}
		if q.peek() != '[' {
			return nil, false
		}
		q.pos++
		for {
			switch q.peek() {
			case '+':
				q.ctr++
				op.rkind, op.rarg = resFresh, q.ctr
				q.pos++
			case '-':
				q.ctr++
				op.rkind, op.rarg = resFail, q.ctr
				q.pos++
			case '0':
				op.rkind = resNil
				q.pos++
				if op.tp >= 2 {
					q.p.nilIface = true
				}
			case '!':
				op.rkind = resPanic
				q.pos++
				q.p.fnPanic = true
			case '=':
				q.pos++
				i, ok := q.num()
				if !ok {
					return nil, false
				}
				op.rkind, op.rarg = resSame, i
			default:
				root := false
				if q.peek() == '^' {
					root = true
					q.pos++
				}
				n, ok := q.op()
				if !ok || q.peek() != ';' {
					return nil, false
				}
				q.pos++
				op.nested = append(op.nested, concNested{root, n})
				continue
			}
			break
		}
		if q.peek() != ']' {
			return nil, false
		}
		q.pos++
		return op, true
	}
	return nil, false
}

func parseConcProg(text string) (*concProg, error) {
	p := &concProg{text: text}
	if text == "-" {
		return p, nil
	}
	q := &concParser{s: text, p: p}
	if pre, _, ok := strings.Cut(text, "/"); ok {
		for _, o := range strings.Split(pre, ",") {
			if o != "" {
				p.solo++
			}
		}
		text = strings.Replace(text, "/", ",", 1)
	}
	for _, th := range strings.Split(text, "|") {
		var ops []*concOp
		for _, o := range strings.Split(th, ",") {
			if o == "" {
				continue
			}
			q.s, q.pos = o, 0
			op, ok := q.op()
			if !ok || q.pos != len(o) {
				return nil, fmt.Errorf("bad op %q in %q", o, text)
			}
			ops = append(ops, op)
		}
		p.threads = append(p.threads, ops)
	}
	return p, nil
}

// getter spec "1>2,2>d,3>e"
type concGetter map[int]string

func parseConcGetter(s string) (concGetter, int) {
	g := concGetter{}
	mr := 0
	if s == "-" {
		return g, 0
	}
	for _, it := range strings.Split(s, ",") {
		ab := strings.Split(it, ">")
		r, _ := strconv.Atoi(ab[0])
		g[r] = ab[1]
		if r > mr {
			mr = r
		}
		if r2, err := strconv.Atoi(ab[1]); err == nil && r2 > mr {
			mr = r2
		}
	}
	return g, mr
}

// chainHead reports whether Get(r) is a reference.
func (g concGetter) chainHead(r int) bool {
	v, ok := g[r]
	return ok && v != "d" && v != "e"
}

// ---------------------------------------------------------------- values and types

// Go types standing for the model's types 0..3: two pointer types and two
// interface types (a nil result of an interface type is stored as a nil any).
type concV0 struct{ id int }
type concV1 struct{ id int }
type concVI struct{ id int }
type concI2 interface{ concI2() int }
type concI3 interface{ concI3() int }

func (v *concVI) concI2() int { return v.id }
func (v *concVI) concI3() int { return v.id }

var concTypes = []reflect.Type{
	reflect.TypeFor[*concV0](), reflect.TypeFor[*concV1](), reflect.TypeFor[concI2](), reflect.TypeFor[concI3](),
}

// concIdent returns the identity of a result value: its id (0 = nil) and the pointer.
func concIdent(v any) (int, any) {
	switch x := v.(type) {
	case nil:
		return 0, nil
	case *concV0:
		if x == nil {
			return 0, nil
		}
		return x.id, x
	case *concV1:
		if x == nil {
			return 0, nil
		}
		return x.id, x
	case *concVI:
		if x == nil {
			return 0, nil
		}
		return x.id, x
	}
	return -1, v
}

func concMk0(id int) *concV0 { return &concV0{id} }
func concMk1(id int) *concV1 { return &concV1{id} }
func concMk2(id int) concI2  { return &concVI{id} }
func concMk3(id int) concI3  { return &concVI{id} }

type concFnErr struct{ code int }

func (e *concFnErr) Error() string { return fmt.Sprintf("decode function error %d", e.code) }

var errConcGet = errors.New("getter error")

type concAbort struct{}
type concFnPanic struct{}

// concResult is the outcome of one call.
type concResult struct {
	ok   bool
	val  any // the returned value (type T) when ok
	id   int
	ptr  any
	errS string
}

func (r concResult) String() string {
	if r.ok {
		return "v" + strconv.Itoa(r.id)
	}
	return r.errS
}

func concErrClass(err error) string {
	var fe *concFnErr
	switch {
	case errors.Is(err, pdf.ErrCycle):
		return "Ecycle"
	case errors.Is(err, pdf.ErrDepth):
		return "Edepth"
	case errors.Is(err, errConcGet):
		return "Eget"
	case errors.As(err, &fe):
		return "Efn" + strconv.Itoa(fe.code)
	case strings.Contains(err.Error(), "exclusive decode did not complete"):
		return "Eaborted"
	}
	return "Eother(" + err.Error() + ")"
}

// ---------------------------------------------------------------- controlled execution

type concPark struct {
	t     int
	point string // "op", "get", "fn", "ex:*", "done", "dead"
}

type concXKey struct{ ref, tp int }

type concEntry struct {
	ref pdf.Reference
	tp  reflect.Type
	v   any
}

type concThread struct {
	id         int
	ops        []*concOp
	nextOp     int // index of the top-level call the thread is about to make (written by the thread before it parks)
	resume     chan struct{}
	point      string
	log        []string
	dead       bool
	done       bool
	logged     bool // a panic event has been logged
	xkeys      []concXKey
	owned      []int // serials of the pendings this thread owns, innermost last
	waitOn     int
	lastClosed int
	waited     bool
	results    []concCallRec
}

// concCallRec records one returned call for the oracles.
type concCallRec struct {
	op      *concOp
	res     concResult
	waitOn  int // serial of the pending the call waited for (0: none)
	ownedBy int // serial of the pending the call owned (0: none)
	pairB   concResult
}

type concExec struct {
	prog    *concProg
	g       concGetter
	x       *pdf.Extractor
	cur     int
	threads []*concThread
	parked  chan concPark
	abort   bool

	serial   int
	owner    map[concXKey]int // key -> serial of the registered owner (until section 2 ran)
	closed   map[int]bool
	ownerRes map[int]concResult
	snap     []concEntry // last cache snapshot (monotonicity oracle)
	cur2     []concEntry
	maxRef   int
	viol     []string // oracle failures: "key\x00description"
}

var concActive struct {
	sync.Mutex
	e *concExec
}

func init() {
	pdf.VerifYield = func(point string) {
		if e := concActive.e; e != nil {
			e.gate(point)
		} else if cp := concCoopActive; cp != nil {
			cp.yield(point)
		}
	}
}

func (e *concExec) violate(key, desc string) {
	e.viol = append(e.viol, key+"\x00"+desc)
}

// gate parks the calling goroutine (the only one running) until the scheduler releases it.
func (e *concExec) gate(point string) {
	th := e.threads[e.cur]
	e.parked <- concPark{th.id, point}
	<-th.resume
	if e.abort {
		panic(concAbort{})
	}
}

func (e *concExec) GetMeta() *pdf.MetaInfo { return nil }

func (e *concExec) Get(ref pdf.Reference, canObjStm bool) (pdf.Native, error) {
	e.gate("get")
	r := int(ref.Number())
	switch v := e.g[r]; v {
	case "", "d":
		return pdf.Integer(r), nil
	case "e":
		return nil, errConcGet
	default:
		n, _ := strconv.Atoi(v)
		return pdf.NewReference(uint32(n), 0), nil
	}
}

func concPathString(c pdf.Cursor) string {
	var parts []string
	for p := c.Path(); p != nil; p = p.Parent {
		parts = append(parts, strconv.Itoa(int(p.Ref.Number())))
	}
	if len(parts) == 0 {
		return "-"
	}
	return strings.Join(parts, ".")
}

func (o concObj) pdf() pdf.Object {
	if o.direct {
		return pdf.Integer(-1)
	}
	return pdf.NewReference(uint32(o.ref), 0)
}

// concDec runs one Decode / DecodeExclusive call of type T on the real library.
func concDec[T any](e *concExec, th *concThread, c pdf.Cursor, op *concOp, mk func(int) T) concResult {
	fn := func(c2 pdf.Cursor, obj pdf.Object, isDirect bool) (T, error) {
		var zero T
		th.log = append(th.log, "F"+strconv.Itoa(op.tp)+"/"+concPathString(c2))
		if op.excl && !op.obj.direct {
			// exclusive_once: the function of an exclusive decode runs only in the registered owner
			key := concXKey{op.obj.ref, op.tp}
			if len(th.owned) == 0 || e.owner[key] != th.owned[len(th.owned)-1] {
				e.violate("excl-fn-not-owner", fmt.Sprintf("thread %d runs the function of %s without owning the pending", th.id, op.text()))
			}
		}
		var results []concResult
		for _, n := range op.nested {
			e.gate("fn")
			cc := c2
			if n.root {
				cc = pdf.CursorAt(e.x, nil)
			}
			results = append(results, e.call(th, cc, n.op))
		}
		e.gate("fn")
		switch op.rkind {
		case resFresh:
			return mk(op.rarg), nil
		case resFail:
			return zero, &concFnErr{op.rarg}
		case resNil:
			return zero, nil
		case resPanic:
			th.log = append(th.log, "FP")
			th.logged = true
			panic(concFnPanic{})
		default:
			if op.rarg < len(results) && results[op.rarg].ok {
				if v, ok := results[op.rarg].val.(T); ok {
					return v, nil
				}
				if results[op.rarg].val == nil {
					return zero, nil
				}
			}
			return zero, &concFnErr{0}
		}
	}
	var v T
	var err error
	if op.excl {
		if !op.obj.direct {
			th.xkeys = append(th.xkeys, concXKey{op.obj.ref, op.tp})
		}
		v, err = pdf.DecodeExclusive(c, op.obj.pdf(), fn)
		if !op.obj.direct {
			th.xkeys = th.xkeys[:len(th.xkeys)-1]
		}
	} else {
		v, err = pdf.Decode(c, op.obj.pdf(), fn)
	}
	if err != nil {
		return concResult{errS: concErrClass(err)}
	}
	id, ptr := concIdent(any(v))
	return concResult{ok: true, val: any(v), id: id, ptr: ptr}
}

func concPairAB[A, B any](e *concExec, op *concOp, mka func(int) A, mkb func(int) B) (concResult, concResult) {
	a, b := pdf.StoreOrLoadPair[A, B](e.x, pdf.NewReference(uint32(op.obj.ref), 0), mka(op.ida), mkb(op.idb))
	ia, pa := concIdent(any(a))
	ib, pb := concIdent(any(b))
	return concResult{ok: true, val: any(a), id: ia, ptr: pa}, concResult{ok: true, val: any(b), id: ib, ptr: pb}
}

func concPairA[A any](e *concExec, op *concOp, mka func(int) A) (concResult, concResult) {
	switch op.b {
	case 0:
		return concPairAB(e, op, mka, concMk0)
	case 1:
		return concPairAB(e, op, mka, concMk1)
	case 2:
		return concPairAB(e, op, mka, concMk2)
	default:
		return concPairAB(e, op, mka, concMk3)
	}
}

func (op *concOp) text() string {
	if op.txt == "" {
		op.txt = op.text0()
	}
	return op.txt
}

func (op *concOp) text0() string {
	if op.pair {
		return fmt.Sprintf("P%d%dr%d", op.a, op.b, op.obj.ref)
	}
	k := "D"
	if op.excl {
		k = "X"
	}
	return fmt.Sprintf("%s%d%s", k, op.tp, op.obj)
}

// call executes one op (top level or nested) and logs its return.
func (e *concExec) call(th *concThread, c pdf.Cursor, op *concOp) (res concResult) {
	defer func() {
		if r := recover(); r != nil {
			if _, isAbort := r.(concAbort); !isAbort && !th.logged {
				th.logged = true
				th.log = append(th.log, op.text()+"=PANIC")
			}
			panic(r)
		}
	}()
	rec := concCallRec{op: op}
	th.waited = false
	if op.pair {
		var ra, rb concResult
		switch op.a {
		case 0:
			ra, rb = concPairA(e, op, concMk0)
		case 1:
			ra, rb = concPairA(e, op, concMk1)
		case 2:
			ra, rb = concPairA(e, op, concMk2)
		default:
			ra, rb = concPairA(e, op, concMk3)
		}
		th.log = append(th.log, op.text()+"="+ra.String()+"."+rb.String())
		rec.res, rec.pairB = ra, rb
		th.results = append(th.results, rec)
		return ra
	}
	switch op.tp {
	case 0:
		res = concDec(e, th, c, op, concMk0)
	case 1:
		res = concDec(e, th, c, op, concMk1)
	case 2:
		res = concDec(e, th, c, op, concMk2)
	default:
		res = concDec(e, th, c, op, concMk3)
	}
	th.log = append(th.log, op.text()+"="+res.String())
	rec.res = res
	if op.excl && !op.obj.direct {
		if th.waited {
			rec.waitOn = th.waitOn
			th.waited = false
		}
		if th.lastClosed != 0 {
			// this call was the owner of the pending it has just closed
			rec.ownedBy = th.lastClosed
			th.lastClosed = 0
		}
	}
	th.results = append(th.results, rec)
	return res
}

func (e *concExec) threadMain(th *concThread) {
	defer func() {
		r := recover()
		if r == nil {
			e.parked <- concPark{th.id, "done"}
			return
		}
		if _, ok := r.(concAbort); ok {
			e.parked <- concPark{th.id, "aborted"}
			return
		}
		if !th.logged {
			th.log = append(th.log, fmt.Sprintf("?=PANIC(%v)", r))
		}
		e.parked <- concPark{th.id, "dead"}
	}()
	for i, op := range th.ops {
		th.nextOp = i
		e.gate("op")
		e.call(th, pdf.CursorAt(e.x, nil), op)
	}
	th.nextOp = len(th.ops)
}

// wait for the released thread to park, finish or die; the watchdog sends "stuck" when no
// goroutine has reached a scheduling point for 8 s
func (e *concExec) await(t int) (concPark, bool) {
	m := <-e.parked
	concProgress.Add(1)
	if m.point == "stuck" {
		return m, false
	}
	return m, true
}

var concProgress atomic.Int64

func init() {
	go func() {
		last, since := int64(-1), time.Now()
		for {
			time.Sleep(2 * time.Second)
			e := concActive.e
			n := concProgress.Load()
			if e == nil || n != last {
				last, since = n, time.Now()
				continue
			}
			if time.Since(since) > 8*time.Second {
				select {
				case e.parked <- concPark{point: "stuck"}:
				default:
				}
				since = time.Now()
			}
		}
	}()
}

func newConcExec(p *concProg, g concGetter, gmax int) *concExec {
	e := &concExec{prog: p, g: g, parked: make(chan concPark), owner: map[concXKey]int{}, closed: map[int]bool{},
		ownerRes: map[int]concResult{}}
	e.maxRef = p.maxRef
	if gmax > e.maxRef {
		e.maxRef = gmax
	}
	e.x = pdf.NewExtractor(e)
	for i, ops := range p.threads {
		e.threads = append(e.threads, &concThread{id: i, ops: ops, resume: make(chan struct{})})
	}
	return e
}

// start launches the goroutines; each parks before its first call.  Returns false if a
// goroutine got stuck.
func (e *concExec) start() bool {
	concActive.e = e
	for _, th := range e.threads {
		e.cur = th.id
		go e.threadMain(th)
		m, ok := e.await(th.id)
		if !ok {
			return false
		}
		e.note(th, m)
	}
	return true
}

// note processes the park message of thread th (bookkeeping of the exclusive hand-over as
// seen from outside, and the cache snapshot for the monotonicity oracle).
func (e *concExec) note(th *concThread, m concPark) {
	th.point = m.point
	switch m.point {
	case "ex:closed":
		// close(p.done) has been executed
		s := th.owned[len(th.owned)-1]
		th.owned = th.owned[:len(th.owned)-1]
		e.closed[s] = true
		th.lastClosed = s
	case "done":
		th.done = true
	case "dead":
		th.dead = true
		// the deferred release of DecodeExclusive: every pending the dead goroutine owned is
		// closed with an error and its marker is gone (if it is not, a released waiter hangs: the
		// watchdog reports it)
		for _, s := range th.owned {
			e.closed[s] = true
			for k, os := range e.owner {
				if os == s {
					delete(e.owner, k)
				}
			}
		}
		th.owned = nil
	case "ex:owner":
		key := th.xkeys[len(th.xkeys)-1]
		if s, dup := e.owner[key]; dup {
			e.violate("excl-two-owners", fmt.Sprintf("thread %d registered as owner of %v while pending %d is registered", th.id, key, s))
		}
		e.serial++
		e.owner[key] = e.serial
		th.owned = append(th.owned, e.serial)
	case "ex:wait":
		key := th.xkeys[len(th.xkeys)-1]
		s, ok := e.owner[key]
		if !ok {
			e.violate("excl-wait-without-owner", fmt.Sprintf("thread %d waits for %v but no owner is registered", th.id, key))
		}
		th.waitOn = s
		th.waited = true
	case "ex:pre-close":
		key := th.xkeys[len(th.xkeys)-1]
		delete(e.owner, key)
	}
	// cache_monotone on the implementation: an entry once seen never changes or disappears
	e.cur2 = e.cur2[:0]
	pdf.VerifCacheEach(e.x, func(ref pdf.Reference, tp reflect.Type, v any) {
		e.cur2 = append(e.cur2, concEntry{ref, tp, v})
	})
	for _, old := range e.snap {
		found := false
		for _, n := range e.cur2 {
			if n.ref == old.ref && n.tp == old.tp {
				_, p0 := concIdent(old.v)
				_, p1 := concIdent(n.v)
				found = p0 == p1
				break
			}
		}
		if !found {
			e.violate("cache-entry-changed", fmt.Sprintf("cache entry (r%d,%v) changed or vanished after it was published", old.ref.Number(), old.tp))
		}
	}
	e.snap, e.cur2 = e.cur2, e.snap
}

func (e *concExec) enabled(th *concThread) bool {
	if th.done || th.dead {
		return false
	}
	if th.point == "ex:wait" {
		return e.closed[th.waitOn]
	}
	return true
}

func (e *concExec) enabledList() []int {
	var l []int
	if e.prog.solo > 0 && len(e.threads) > 0 {
		// the prelude: thread 0 alone until it is about to make its first call after it
		if t0 := e.threads[0]; t0.nextOp < e.prog.solo && e.enabled(t0) {
			return []int{0}
		}
	}
	for _, th := range e.threads {
		if e.enabled(th) {
			l = append(l, th.id)
		}
	}
	return l
}

// stepThread releases thread t until its next scheduling point.
func (e *concExec) stepThread(t int) bool {
	th := e.threads[t]
	e.cur = t
	th.resume <- struct{}{}
	m, ok := e.await(t)
	if !ok {
		return false
	}
	e.note(th, m)
	return true
}

// finish unwinds the goroutines still parked (deadlocked leaves, partial schedules).
func (e *concExec) finish() {
	e.abort = true
	for _, th := range e.threads {
		if !th.done && !th.dead {
			e.cur = th.id
			th.resume <- struct{}{}
			e.await(th.id)
		}
	}
	concActive.e = nil
}

func (e *concExec) outcome() string {
	var sb strings.Builder
	for i, th := range e.threads {
		if i > 0 {
			sb.WriteByte('|')
		}
		st := "open"
		switch {
		case th.done:
			st = "done"
		case th.dead:
			st = "dead"
		case th.point == "ex:wait":
			st = "blocked"
		}
		fmt.Fprintf(&sb, "t%d[%s]:%s", i, st, strings.Join(th.log, ";"))
	}
	var items []string
	for r := 0; r <= e.maxRef; r++ {
		for tp := 0; tp < 4; tp++ {
			if v, ok := pdf.VerifCacheLookup(e.x, pdf.NewReference(uint32(r), 0), concTypes[tp]); ok {
				id, _ := concIdent(v)
				items = append(items, fmt.Sprintf("%d.%d=v%d", r, tp, id))
			}
		}
	}
	cs := "-"
	if len(items) > 0 {
		cs = strings.Join(items, ",")
	}
	if len(e.threads) > 0 {
		sb.WriteByte('|')
	}
	fmt.Fprintf(&sb, "c:%s|w%d", cs, pdf.VerifWipLen(e.x))
	return sb.String()
}

// ---------------------------------------------------------------- oracles on the implementation

// checkLeaf evaluates the property on one finished execution (no model involved).
func (e *concExec) checkLeaf(pairOnChain bool) {
	allDone := true
	for _, th := range e.threads {
		if !th.done {
			allDone = false
		}
	}
	// agreement: all successful results for one (reference, type) are the identical Go value
	type kv struct {
		ptr any
		who string
	}
	seen := map[concXKey]kv{}
	add := func(k concXKey, r concResult, who string) {
		if !r.ok {
			return
		}
		if old, ok := seen[k]; ok {
			if old.ptr != r.ptr {
				key := "agreement"
				if pairOnChain {
					// StoreOrLoadPair applied to a reference whose object is a reference (C18-F2)
					key = "pair-on-chain-head"
				}
				e.violate(key, fmt.Sprintf("two results for (r%d,type %d) are different Go values: %s and %s", k.ref, k.tp, old.who, who))
			}
			return
		}
		seen[k] = kv{r.ptr, who}
	}
	for _, th := range e.threads {
		for _, rec := range th.results {
			op := rec.op
			switch {
			case op.pair:
				add(concXKey{op.obj.ref, op.a}, rec.res, op.text())
				add(concXKey{op.obj.ref, op.b}, rec.pairB, op.text())
			case !op.obj.direct:
				add(concXKey{op.obj.ref, op.tp}, rec.res, op.text())
			}
		}
	}
	// every successful result is what the cache holds for the key at the end (if it holds one)
	for k, s := range seen {
		if v, ok := pdf.VerifCacheLookup(e.x, pdf.NewReference(uint32(k.ref), 0), concTypes[k.tp]); ok && !pairOnChain {
			if _, p := concIdent(v); p != s.ptr {
				e.violate("result-not-cached-value", fmt.Sprintf("%s returned a value different from the final cache entry (r%d,type %d)", s.who, k.ref, k.tp))
			}
		}
	}
	// exclusive_once: the owner's outcome is what every waiter got
	for _, th := range e.threads {
		for _, rec := range th.results {
			if rec.ownedBy != 0 {
				e.ownerRes[rec.ownedBy] = rec.res
			}
		}
	}
	for _, th := range e.threads {
		for _, rec := range th.results {
			if rec.waitOn != 0 {
				o, ok := e.ownerRes[rec.waitOn]
				if !ok {
					continue // the owner did not return (it died)
				}
				if o.ok != rec.res.ok || o.ptr != rec.res.ptr || o.errS != rec.res.errS {
					e.violate("excl-waiter-outcome", fmt.Sprintf("%s waited for pending %d and got %s, the owner got %s", rec.op.text(), rec.waitOn, rec.res, o))
				}
			}
		}
	}
	// deadlock freedom for programs which use Decode only; no panic unless the program asks for one
	for _, th := range e.threads {
		if !th.done && !th.dead && !e.prog.hasExcl {
			e.violate("decode-blocked", fmt.Sprintf("thread %d cannot continue although the program uses Decode only", th.id))
		}
		if th.dead {
			switch {
			case e.prog.fnPanic:
			case e.prog.nilIface && (e.prog.hasExcl || e.prog.hasPair):
				e.violate("nil-interface-panic", fmt.Sprintf("thread %d panicked: %s", th.id, th.log[len(th.log)-1]))
			default:
				e.violate("panic", fmt.Sprintf("thread %d panicked: %s", th.id, th.log[len(th.log)-1]))
			}
		}
	}
	if allDone {
		if n := pdf.VerifWipLen(e.x); n != 0 {
			e.violate("wip-left", fmt.Sprintf("%d wip entries left after all calls returned", n))
		}
	}
}

// ---------------------------------------------------------------- enumeration of schedules

type concExplore struct {
	leaves    int
	outcomes  map[string]int
	viol      map[string]string // class key -> description (with schedule)
	samples   []string          // "schedule\x00outcome" of some executions
	truncated bool
	stuck     bool
}

// concRunSchedule executes one schedule; extend = true continues with the lowest enabled
// thread until no thread is enabled.  It returns the schedule actually executed, the list of
// enabled threads at each step and the outcome.
func concRunSchedule(p *concProg, g concGetter, gmax int, sched []int, extend bool, pairOnChain bool) (full []int, en [][]int, out string, viol []string, ok bool) {
	e := newConcExec(p, g, gmax)
	if !e.start() {
		return nil, nil, "", []string{"stuck\x00a goroutine did not reach its first scheduling point"}, false
	}
	i := 0
	for {
		l := e.enabledList()
		var t int
		if i < len(sched) {
			t = sched[i]
			found := false
			for _, x := range l {
				if x == t {
					found = true
				}
			}
			if !found {
				e.finish()
				return full, en, "bad-sched", e.viol, true
			}
		} else if extend && len(l) > 0 {
			t = l[0]
		} else {
			break
		}
		en = append(en, l)
		full = append(full, t)
		if !e.stepThread(t) {
			key := "stuck"
			if p.fnPanic && p.hasExcl {
				key = "excl-marker-not-released"
			}
			return full, en, "", append(e.viol, fmt.Sprintf("%s\x00thread %d did not reach a scheduling point within 8 s after schedule %v (a waiter of an exclusive decode whose owner panicked is never released: the in-progress marker and the done channel are left behind)", key, t, full)), false
		}
		i++
	}
	leaf := len(e.enabledList()) == 0
	out = e.outcome()
	if leaf {
		e.checkLeaf(pairOnChain)
	}
	e.finish()
	return full, en, out, e.viol, true
}

func concSchedString(s []int) string {
	if len(s) == 0 {
		return "-"
	}
	var sb strings.Builder
	for _, t := range s {
		sb.WriteByte(byte('0' + t))
	}
	return sb.String()
}

// concExploreAll enumerates every schedule of the program on the real code (one execution per
// maximal schedule, depth first).
func concExploreAll(p *concProg, g concGetter, gmax int, maxLeaves int, pairOnChain bool, sampleEvery int) *concExplore {
	ex := &concExplore{outcomes: map[string]int{}, viol: map[string]string{}}
	type node struct {
		en  []int
		idx int
	}
	var stack []node
	for {
		prefix := make([]int, len(stack))
		for i, n := range stack {
			prefix[i] = n.en[n.idx]
		}
		full, en, out, viol, ok := concRunSchedule(p, g, gmax, prefix, true, pairOnChain)
		for _, v := range viol {
			kd := strings.SplitN(v, "\x00", 2)
			if _, dup := ex.viol[kd[0]]; !dup {
				ex.viol[kd[0]] = kd[1] + " [schedule " + concSchedString(full) + "]"
			}
		}
		if !ok {
			ex.stuck = true
			return ex
		}
		// the enabled sets along the prefix must be what they were (determinism of the replay)
		for i := range stack {
			if !slices.Equal(en[i], stack[i].en) {
				ex.viol["nondeterministic-replay"] = fmt.Sprintf("enabled set at step %d of schedule %s differs between two executions", i, concSchedString(full))
			}
		}
		for i := len(stack); i < len(full); i++ {
			stack = append(stack, node{en[i], 0})
		}
		ex.leaves++
		ex.outcomes[out]++
		if sampleEvery > 0 && (ex.leaves%sampleEvery == 1 || sampleEvery == 1) && len(ex.samples) < 40 {
			ex.samples = append(ex.samples, concSchedString(full)+"\x00"+out)
		}
		// backtrack
		for len(stack) > 0 {
			n := &stack[len(stack)-1]
			if n.idx+1 < len(n.en) {
				n.idx++
				break
			}
			stack = stack[:len(stack)-1]
		}
		if len(stack) == 0 {
			return ex
		}
		if ex.leaves >= maxLeaves {
			ex.truncated = true
			return ex
		}
	}
}

func (ex *concExplore) digest() string {
	var keys []string
	for k := range ex.outcomes {
		keys = append(keys, k)
	}
	sort.Strings(keys)
	var sb strings.Builder
	fmt.Fprintf(&sb, "n=%d k=%d", ex.leaves, len(keys))
	for _, k := range keys {
		fmt.Fprintf(&sb, " %s*%d", k, ex.outcomes[k])
	}
	return sb.String()
}

package main

import (
	"bytes"
	"crypto/sha1"
	"encoding/hex"
	"errors"
	"fmt"
	"io"
	"runtime/debug"
	"sort"
	"strconv"
	"strings"
	"time"

	"seehuhn.de/go/pdf"
)

// Property C19, three gaps found by an independent audit (/tmp/a1/C19):
//
//  1. INDIRECT optional entries of the catalog, the document information dictionary and the
//     metadata stream.  The Writer stores these values directly, so the sessions of rob_c19.go
//     and rob_c19w.go never read them through a reference.  The files here are built by hand: every
//     optional scalar of the catalog (/PageLayout /PageMode /Lang /NeedsRendering /Version), every
//     entry of /Info (standard and custom keys, /Trapped, dates) and the /Filter and /Length of the
//     /Metadata stream is an indirect object, separated from its neighbours by a comment longer
//     than the scanner window so that each costs its own ReadAt.
//  2. OBJECT STREAMS behind chains of two and three filters (the Writer uses one): the document
//     information dictionary and further members live in such a stream.
//  3. ENCODERS that go on after a failed write of the sink: "some call no later than Close returns
//     the error" — and never a panic — also holds for callers that keep writing.
//
// 1 and 2: every ReadAt index x {fail from k, only k, short read with error}, NewReader in the three
// error-handling modes and SequentialScan + MakeReader; oracle as in rob_c19w.go, the steps being
// "catalog", "info", "metadata", "get <member>"; a different result with a nil error is
// C19-io-error-swallowed-pdf-<step>, an injected error that IsMalformed is
// C19-io-error-classified-malformed-pdf-<step>.  3: every sink call k x {only k, from k}, for every
// filter's encoder; C19-encoder-panic-after-sink-error-<filter>, C19-encoder-sink-error-swallowed-<filter>.

func c19xBuild(objs map[int]string, trailerExtra string) []byte {
	buf := &bytes.Buffer{}
	buf.WriteString("%PDF-1.7\n%\x80\x80\x80\x80\n")
	maxNum := 0
	for n := range objs {
		maxNum = max(maxNum, n)
	}
	offs := make(map[int]int)
	for n := 1; n <= maxNum; n++ {
		buf.WriteString("%" + strings.Repeat("x", 1100) + "\n")
		offs[n] = buf.Len()
		fmt.Fprintf(buf, "%d 0 obj\n%s\nendobj\n", n, objs[n])
	}
	xrefPos := buf.Len()
	fmt.Fprintf(buf, "xref\n0 %d\n0000000000 65535 f\r\n", maxNum+1)
	for n := 1; n <= maxNum; n++ {
		fmt.Fprintf(buf, "%010d 00000 n\r\n", offs[n])
	}
	fmt.Fprintf(buf, "trailer\n<< /Size %d /Root 1 0 R %s >>\nstartxref\n%d\n%%%%EOF\n", maxNum+1, trailerExtra, xrefPos)
	return buf.Bytes()
}

var c19xXMP = `<?xpacket begin="" id="W5M0MpCehiHzreSzNTczkc9d"?><x:xmpmeta xmlns:x="adobe:ns:meta/"><rdf:RDF xmlns:rdf="http://www.w3.org/1999/02/22-rdf-syntax-ns#"><rdf:Description rdf:about="" xmlns:dc="http://purl.org/dc/elements/1.1/"><dc:format>application/pdf</dc:format></rdf:Description></rdf:RDF></x:xmpmeta>
` + c19xPad + `<?xpacket end="w"?>`

var c19xPad = strings.Repeat(strings.Repeat(" ", 99)+"\n", 3)

// c19xIndirectDoc: variant 0 = metadata without filter (indirect /Length, indirect null /DecodeParms),
// 1 = indirect /Filter name, 2 = indirect /Filter array and /DecodeParms, 3 = indirect empty /Filter array.
func c19xIndirectDoc(variant int) []byte {
	xmp := []byte(c19xXMP)
	mdDict := "/Type /Metadata /Subtype /XML /Length 21 0 R"
	body := xmp
	switch variant {
	case 0:
		mdDict += " /DecodeParms 25 0 R"
	case 3:
		mdDict += " /Filter 26 0 R"
	case 1:
		body = c05Zlib(xmp)
		mdDict += " /Filter 22 0 R"
	case 2:
		body = []byte(hex.EncodeToString(c05Zlib(xmp)) + ">")
		mdDict += " /Filter 23 0 R /DecodeParms 24 0 R"
	}
	objs := map[int]string{
		1:  "<< /Type /Catalog /Pages 2 0 R /PageLayout 4 0 R /PageMode 5 0 R /Lang 6 0 R /NeedsRendering 7 0 R /Version 8 0 R /Metadata 20 0 R >>",
		2:  "<< /Type /Pages /Kids [3 0 R] /Count 1 >>",
		3:  "<< /Type /Page /Parent 2 0 R /MediaBox [0 0 10 10] >>",
		4:  "/TwoColumnLeft",
		5:  "/UseOutlines",
		6:  "(en-GB)",
		7:  "true",
		8:  "/1.7",
		9:  "<< /Title 10 0 R /Author 11 0 R /Subject 12 0 R /Keywords 13 0 R /Creator 14 0 R /Producer 15 0 R /CreationDate 16 0 R /ModDate 17 0 R /Trapped 18 0 R /Custom 19 0 R >>",
		10: "(The Title)", 11: "(The Author)", 12: "(The Subject)", 13: "(key words)", 14: "(creator)", 15: "(producer)",
		16: "(D:20240102030405Z)", 17: "(D:20240203040506Z)", 18: "/True", 19: "(custom value)",
		20: fmt.Sprintf("<< %s >>\nstream\n%s\nendstream", mdDict, body),
		21: strconv.Itoa(len(body)),
		22: "/FlateDecode",
		23: "[/ASCIIHexDecode /FlateDecode]",
		24: "[null null]",
		25: "null",
		26: "[ ]",
	}
	return c19xBuild(objs, "/Info 9 0 R")
}

// c19xObjStmDoc: the document information dictionary and three more members in an object stream
// behind the given filter chain.
func c19xObjStmDoc(chain []string) []byte {
	var buf bytes.Buffer
	buf.WriteString("%PDF-1.7\n%\x80\x80\x80\x80\n")
	off := map[int]int{}
	put := func(n int, body string) {
		buf.WriteString("%" + strings.Repeat("x", 1100) + "\n")
		off[n] = buf.Len()
		fmt.Fprintf(&buf, "%d 0 obj\n%s\nendobj\n", n, body)
	}
	put(1, "<< /Type /Catalog /Pages 2 0 R >>")
	put(2, "<< /Type /Pages /Kids [3 0 R] /Count 1 >>")
	put(3, "<< /Type /Page /Parent 2 0 R /MediaBox [0 0 10 10] >>")
	noise := make([]byte, 4000)
	for i := range noise {
		noise[i] = byte(i*7 + i/13)
	}
	members := []string{"<< /Title (The Title) /Author (The Author) >>", "42", "(" + hex.EncodeToString(noise) + ")", "[1 2 3 /N]"}
	head, body := "", ""
	for i, m := range members {
		head += fmt.Sprintf("%d %d ", 6+i, len(body))
		body += m + "\n"
	}
	raw := []byte(head + body)
	var names []string
	for i := len(chain) - 1; i >= 0; i-- { // encode innermost (last applied on decode) first
		switch chain[i] {
		case "Fl":
			raw = c05Zlib(raw)
		case "AHx":
			raw = []byte(hex.EncodeToString(raw) + ">")
		case "A85":
			var b bytes.Buffer
			w, _ := pdf.FilterASCII85{}.Encode(pdf.V1_7, c19xNopCloser{&b})
			w.Write(raw)
			w.Close()
			raw = b.Bytes()
		case "RL":
			var b bytes.Buffer
			w, _ := pdf.FilterRunLength{}.Encode(pdf.V1_7, c19xNopCloser{&b})
			w.Write(raw)
			w.Close()
			raw = b.Bytes()
		}
	}
	for _, c := range chain {
		names = append(names, map[string]string{"Fl": "/FlateDecode", "AHx": "/ASCIIHexDecode", "A85": "/ASCII85Decode", "RL": "/RunLengthDecode"}[c])
	}
	put(4, fmt.Sprintf("<< /Type /ObjStm /N %d /First %d /Filter [%s] /Length %d >>\nstream\n%s\nendstream",
		len(members), len(head), strings.Join(names, " "), len(raw), raw))
	buf.WriteString("%" + strings.Repeat("x", 1100) + "\n")
	xstmPos := buf.Len()
	var xs []byte
	ent := func(tp byte, a int, b byte) { xs = append(xs, tp, byte(a>>16), byte(a>>8), byte(a), b) }
	ent(0, 0, 0)
	for n := 1; n <= 4; n++ {
		ent(1, off[n], 0)
	}
	ent(1, xstmPos, 0)
	for i := range members {
		ent(2, 4, byte(i))
	}
	zxs := c05Zlib(xs)
	fmt.Fprintf(&buf, "5 0 obj\n<< /Type /XRef /Size %d /W [1 3 1] /Root 1 0 R /Info 6 0 R /Filter /FlateDecode /Length %d >>\nstream\n%s\nendstream\nendobj\n", 6+len(members), len(zxs), zxs)
	fmt.Fprintf(&buf, "startxref\n%d\n%%%%EOF\n", xstmPos)
	return buf.Bytes()
}

// c19xStreamDoc: one stream per filter (and some two-filter chains), each several kB so that its data
// spans more than one ReadAt; steps "decode <name>" read the stream to the end.  What arrives before an
// injected error must be a PREFIX of the fault-free data (C19-decoded-data-not-a-prefix-<name>): a
// caller who asks for exactly the number of bytes it expects never sees the error that follows.
var c19xStreamNames = []string{"CCITTG3", "CCITTG3EOL", "CCITTG32D", "CCITTG4", "Flate", "FlatePNG", "LZW", "LZWTIFF", "ASCII85", "ASCIIHex", "RunLength", "ASCII85+Flate", "ASCIIHex+LZW"}

func c19xStreamFilters(name string) []pdf.Filter {
	const cols = 320
	switch name {
	case "CCITTG3":
		return []pdf.Filter{pdf.FilterCCITTFax{K: 0, Columns: cols}}
	case "CCITTG3EOL":
		return []pdf.Filter{pdf.FilterCCITTFax{K: 0, Columns: cols, EndOfLine: true, EncodedByteAlign: true}}
	case "CCITTG32D":
		return []pdf.Filter{pdf.FilterCCITTFax{K: 4, Columns: cols, EndOfLine: true, Rows: 240}}
	case "CCITTG4":
		return []pdf.Filter{pdf.FilterCCITTFax{K: -1, Columns: cols}}
	case "Flate":
		return []pdf.Filter{pdf.FilterFlate{}}
	case "FlatePNG":
		return []pdf.Filter{pdf.FilterFlate{Predictor: 15, Colors: 1, BitsPerComponent: 8, Columns: 40}}
	case "LZW":
		return []pdf.Filter{pdf.FilterLZW{}}
	case "LZWTIFF":
		return []pdf.Filter{pdf.FilterLZW{Predictor: 2, Colors: 1, BitsPerComponent: 8, Columns: 40}}
	case "ASCII85":
		return []pdf.Filter{pdf.FilterASCII85{}}
	case "ASCIIHex":
		return []pdf.Filter{pdf.FilterASCIIHex{}}
	case "RunLength":
		return []pdf.Filter{pdf.FilterRunLength{}}
	case "ASCII85+Flate":
		return []pdf.Filter{pdf.FilterASCII85{}, pdf.FilterFlate{}}
	case "ASCIIHex+LZW":
		return []pdf.Filter{pdf.FilterASCIIHex{}, pdf.FilterLZW{}}
	}
	return nil
}

func c19xStreamDoc() (file []byte, extents [][2]int) {
	// a bitmap of 320 x 240 with runs of irregular length (40 bytes per row)
	img := make([]byte, 40*240)
	x := uint32(7)
	for i := range img {
		x = x*1664525 + 1013904223
		switch (x >> 28) & 3 {
		case 0:
			img[i] = 0xFF
		case 1:
			img[i] = 0
		case 2:
			img[i] = byte(x >> 16)
		default:
			if i >= 40 {
				img[i] = img[i-40]
			}
		}
	}
	objs := map[int]string{
		1: "<< /Type /Catalog /Pages 2 0 R >>",
		2: "<< /Type /Pages /Kids [3 0 R] /Count 1 >>",
		3: "<< /Type /Page /Parent 2 0 R /MediaBox [0 0 10 10] >>",
	}
	var raws [][]byte
	for i, name := range c19xStreamNames {
		fs := c19xStreamFilters(name)
		raw := img
		var fnames, parms []string
		for j := len(fs) - 1; j >= 0; j-- {
			var b bytes.Buffer
			w, err := fs[j].Encode(pdf.V1_7, c19xNopCloser{&b})
			if err != nil {
				panic(err)
			}
			w.Write(raw)
			w.Close()
			raw = b.Bytes()
		}
		for _, f := range fs {
			fname, parm, _ := f.Info(pdf.V1_7)
			fnames = append(fnames, pdf.AsString(fname))
			if parm == nil {
				parms = append(parms, "null")
			} else {
				parms = append(parms, pdf.AsString(parm))
			}
		}
		objs[4+i] = fmt.Sprintf("<< /Filter [%s] /DecodeParms [%s] /Length %d >>\nstream\n%s\nendstream", strings.Join(fnames, " "), strings.Join(parms, " "), len(raw), raw)
		raws = append(raws, raw)
	}
	file = c19xBuild(objs, "")
	pos := 0
	for _, raw := range raws {
		at := pos + bytes.Index(file[pos:], append([]byte("stream\n"), raw...)) + 7
		extents = append(extents, [2]int{at, at + len(raw)})
		pos = at + len(raw)
	}
	return file, extents
}

// c19xRecoverDoc: streams whose extent has to be RECOVERED (no usable /Length: missing, too small,
// too large, an indirect reference to a missing object), raw and Flate, the data ending in LF, CR LF
// or no end-of-line, "endstream" behind LF or CR LF.  There the search for endstream, the two-byte
// probe of trimTrailingEOL and the reads of endstreamAt are ReadAt calls of their own; a fault at
// one of them that is swallowed gives a stream one or two bytes too long (or short) with a nil error:
// step "stream-extent <n>" (declared extent and raw bytes) — C19-io-error-swallowed-pdf-stream-extent.
func c19xRecoverDoc() (file []byte, raws []int) {
	objs := map[int]string{
		1: "<< /Type /Catalog /Pages 2 0 R >>",
		2: "<< /Type /Pages /Kids [3 0 R] /Count 1 >>",
		3: "<< /Type /Page /Parent 2 0 R /MediaBox [0 0 10 10] >>",
	}
	n := 4
	for _, lk := range []string{"missing", "small", "large", "indirect"} {
		for _, flate := range []bool{false, true} {
			for _, ending := range []string{"\n", "\r\n", ""} {
				body := []byte(fmt.Sprintf("recovered stream %d: %s", n, strings.Repeat("0123456789abcdef ", 20)) + "." + ending)
				dict := ""
				if flate {
					body = append(c05Zlib(body[:len(body)-len(ending)]), ending...) // (bytes behind the zlib stream are ignored by the decoder, they belong to the extent)
					dict = "/Filter /FlateDecode "
				}
				switch lk {
				case "small":
					dict += fmt.Sprintf("/Length %d", len(body)/2)
				case "large":
					dict += fmt.Sprintf("/Length %d", len(body)+40)
				case "indirect":
					dict += "/Length 999 0 R"
				}
				eol := "\n"
				if n%2 == 1 {
					eol = "\r\n"
				}
				objs[n] = fmt.Sprintf("<< %s >>\nstream\n%s%sendstream", dict, body, eol)
				raws = append(raws, n)
				n++
			}
		}
	}
	return c19xBuild(objs, ""), raws
}

type c19xNopCloser struct{ io.Writer }

func (c19xNopCloser) Close() error { return nil }

func c19xMetaSteps(r *pdf.Reader, add func(name, repr string, err error)) {
	m := r.GetMeta()
	if c := m.Catalog; c != nil {
		md := "nil"
		if c.Metadata != nil {
			md = fmt.Sprintf("plaintext=%v", c.Metadata.Plaintext)
			if c.Metadata.Data != nil {
				md += fmt.Sprintf(" pad=%d", c.Metadata.Data.PadToLength)
			}
		}
		add("catalog", fmt.Sprintf("PageLayout=%q PageMode=%q Lang=%v NeedsRendering=%v Version=%v Pages=%v", c.PageLayout, c.PageMode, c.Lang, c.NeedsRendering, c.Version, c.Pages), nil)
		add("metadata", md, nil)
	} else {
		add("catalog", "nil", nil)
	}
	if i := m.Info; i != nil {
		var custom []string
		for k, v := range i.Custom {
			custom = append(custom, k+"="+v)
		}
		sort.Strings(custom)
		add("info", fmt.Sprintf("T=%q A=%q S=%q K=%q C=%q P=%q CD=%v MD=%v Trapped=%v custom=%v", i.Title, i.Author, i.Subject, i.Keywords, i.Creator, i.Producer, i.CreationDate, i.ModDate, i.Trapped, custom), nil)
	} else {
		add("info", "nil", nil)
	}
}

// c19xSession: path 'N' NewReader, 'Q' SequentialScan + MakeReader; members: objects to fetch.
func c19xSession(src *c19Src, path byte, eh pdf.ReaderErrorHandling, members, streams, raws []int) (res []c19Result) {
	add := func(name, repr string, err error) {
		if err != nil {
			repr = "error:" + robClass(err)
		}
		res = append(res, c19Result{name: name, repr: repr, err: err, raw: -1})
	}
	opt := &pdf.ReaderOptions{ErrorHandling: eh}
	var r *pdf.Reader
	var err error
	rawStep := func(n int, o pdf.Object, err error) {
		name := fmt.Sprintf("stream-extent %d", n)
		st, _ := o.(*pdf.Stream)
		if err != nil || st == nil {
			add(name, "no stream", err)
			return
		}
		raw, err := io.ReadAll(st.NewReader())
		add(name, fmt.Sprintf("length=%d data=%d:%x", st.Length(), len(raw), sha1.Sum(raw)), err)
	}
	if path == 'N' {
		r, err = pdf.NewReader(src, int64(len(src.data)), opt)
	} else {
		var fi *pdf.FileInfo
		fi, err = pdf.SequentialScan(src, int64(len(src.data)))
		if err == nil && path == 'R' {
			// SequentialScan + FileInfo.Read, without a Reader
			add("open", "ok", nil)
			for _, n := range raws {
				var last *pdf.FileObject
				for _, sec := range fi.Sections {
					for _, fo := range sec.Objects {
						if fo.Reference == pdf.NewReference(uint32(n), 0) {
							last = fo
						}
					}
				}
				if last == nil {
					add(fmt.Sprintf("stream-extent %d", n), "not located", nil)
					continue
				}
				o, err := fi.Read(last)
				rawStep(n, o, err)
			}
			return res
		}
		if err == nil {
			r, err = fi.MakeReader(opt)
		}
	}
	if err == nil && r == nil {
		err = errors.New("nil reader without error")
	}
	if err != nil {
		add("open", "", err)
		return res
	}
	defer r.Close()
	add("open", "ok", nil)
	c19xMetaSteps(r, add)
	for _, n := range members {
		o, err := r.Get(pdf.NewReference(uint32(n), 0), true)
		add(fmt.Sprintf("get %d", n), c19ShowObj(o), err)
		// what a permissive caller makes of it
		if _, err2 := pdf.Optional(o, err); err != nil && err2 == nil && errors.Is(err, errInjected) {
			add(fmt.Sprintf("optional %d", n), "", fmt.Errorf("pdf.Optional turns the I/O failure into a missing object: %w", &pdf.MalformedFileError{Err: err}))
		}
	}
	for _, n := range raws {
		o, err := r.Get(pdf.NewReference(uint32(n), 0), true)
		rawStep(n, o, err)
		if st, ok := o.(*pdf.Stream); ok && err == nil {
			name := fmt.Sprintf("decode-recovered %d", n)
			rd, err := pdf.DecodeStream(r, nil, st)
			if err != nil {
				add(name, "", err)
				continue
			}
			data, err := io.ReadAll(rd)
			if cerr := rd.Close(); err == nil {
				err = cerr
			}
			add(name, fmt.Sprintf("%d:%x", len(data), sha1.Sum(data)), err)
		}
	}
	for _, n := range streams {
		name := "decode " + c19xStreamNames[n-4]
		// (mode 'b': the sector goes bad after the stream object has been fetched; Get itself
		// looks at the end of the data)
		src.hold = src.mode == 'b'
		o, err := r.Get(pdf.NewReference(uint32(n), 0), true)
		src.hold = false
		st, _ := o.(*pdf.Stream)
		if err != nil || st == nil {
			add(name, "no stream", err)
			continue
		}
		rd, err := pdf.DecodeStream(r, nil, st)
		if err != nil {
			add(name, "", err)
			continue
		}
		data, err := io.ReadAll(rd)
		if cerr := rd.Close(); err == nil {
			err = cerr
		}
		add(name, fmt.Sprintf("%d:%x", len(data), sha1.Sum(data)), err)
		res[len(res)-1].data = data
	}
	return res
}

func c19xGuarded(data []byte, mode byte, k int, path byte, eh pdf.ReaderErrorHandling, members, streams, raws []int) (src *c19Src, res []c19Result, fatal string) {
	src = &c19Src{data: data, mode: mode, k: k}
	type out struct {
		res   []c19Result
		fatal string
	}
	ch := make(chan out, 1)
	go func() {
		defer func() {
			if e := recover(); e != nil {
				ch <- out{nil, fmt.Sprintf("panic: %v\n%s", e, c19TopFrames(string(debug.Stack())))}
			}
		}()
		ch <- out{c19xSession(src, path, eh, members, streams, raws), ""}
	}()
	select {
	case o := <-ch:
		return src, o.res, o.fatal
	case <-time.After(30 * time.Second):
		return src, nil, "hang"
	}
}

// tag: "objstm-" for the object-stream documents (a class of its own: the fault strikes below getFromObjStm)
func c19xCompare(base, got []c19Result, tag string) (key, detail string) {
	bm := map[string]c19Result{}
	for _, b := range base {
		bm[b.name] = b
	}
	for _, g := range got {
		step := tag + strings.Fields(g.name)[0]
		b, ok := bm[g.name]
		if !ok {
			if strings.HasPrefix(g.name, "optional") {
				return "C19-io-error-classified-malformed-pdf-" + tag + "get", g.name + ": " + g.err.Error()
			}
			return "C19-extra-step", g.name
		}
		if strings.HasPrefix(g.name, "decode ") && g.err != nil && g.data != nil && !bytes.HasPrefix(b.data, g.data) {
			n := 0
			for n < len(g.data) && n < len(b.data) && g.data[n] == b.data[n] {
				n++
			}
			fname := strings.Fields(g.name)[1]
			if strings.HasPrefix(fname, "CCITT") {
				fname = "CCITTFax" // one class for the four parameter sets
			}
			return "C19-decoded-data-not-a-prefix-" + fname, fmt.Sprintf("step %q: %d bytes were delivered before the error %q, but only the first %d agree with the %d bytes of the fault-free run", g.name, len(g.data), g.err, n, len(b.data))
		}
		switch {
		case g.err == nil && b.err == nil && g.repr == b.repr:
		case g.err == nil:
			return "C19-io-error-swallowed-pdf-" + step, fmt.Sprintf("step %q: %s with the fault and a nil error, %s fault-free", g.name, truncate(g.repr), truncate(b.repr))
		case errors.Is(g.err, errInjected) && pdf.IsMalformed(g.err):
			return "C19-io-error-classified-malformed-pdf-" + step, fmt.Sprintf("step %q: %v", g.name, g.err)
		case errors.Is(g.err, errInjected):
		case b.err != nil && b.repr == g.repr:
		default:
			return "C19-io-error-replaced-pdf-" + step, fmt.Sprintf("step %q: error %q does not carry the injected error; fault-free: %s", g.name, g.err, truncate(b.repr))
		}
	}
	return "", ""
}

type c19xDoc struct {
	name    string
	data    []byte
	members []int
	streams []int    // object numbers of c19xStreamNames (4+index)
	extents [][2]int // where their data is in the file
	raws    []int    // streams whose extent is recovered (c19xRecoverDoc)
}

func c19xDocs() []c19xDoc {
	var ds []c19xDoc
	for v := 0; v < 4; v++ {
		ds = append(ds, c19xDoc{name: fmt.Sprintf("indirect%d", v), data: c19xIndirectDoc(v)})
	}
	for _, ch := range [][]string{{"AHx", "Fl"}, {"A85", "Fl"}, {"AHx", "A85", "Fl"}, {"RL", "AHx"}, {"Fl"}} {
		ds = append(ds, c19xDoc{name: "objstm-" + strings.Join(ch, "+"), data: c19xObjStmDoc(ch), members: []int{6, 7, 8, 9}})
	}
	rd := c19xDoc{name: "recover"}
	rd.data, rd.raws = c19xRecoverDoc()
	ds = append(ds, rd)
	sd := c19xDoc{name: "streams"}
	sd.data, sd.extents = c19xStreamDoc()
	for i := range c19xStreamNames {
		sd.streams = append(sd.streams, 4+i)
	}
	ds = append(ds, sd)
	return ds
}

func c19xDocByName(name string) *c19xDoc {
	for _, d := range c19xDocs() {
		if d.name == name {
			return &d
		}
	}
	return nil
}

func c19xJudge(d *c19xDoc, path byte, eh int, mode byte, k int) (reached bool, key, detail string) {
	if mode == 'b' {
		// a bad sector inside the data of one stream: only this stream is decoded
		d2 := *d
		d2.streams = nil
		for i, e := range d.extents {
			if k >= e[0] && k < e[1] {
				d2.streams = []int{d.streams[i]}
			}
		}
		d = &d2
	}
	_, base, fatal := c19xGuarded(d.data, 'n', 0, path, pdf.ReaderErrorHandling(eh), d.members, d.streams, d.raws)
	if fatal != "" {
		return true, "C19-faultfree-" + strings.Fields(fatal)[0], fatal
	}
	src, got, fatal := c19xGuarded(d.data, mode, k, path, pdf.ReaderErrorHandling(eh), d.members, d.streams, d.raws)
	if fatal != "" {
		return true, "C19-" + strings.Fields(fatal)[0], fatal
	}
	if src.hits == 0 {
		return false, "", "the ReadAt call was never reached"
	}
	tag := ""
	if strings.HasPrefix(d.name, "objstm") {
		tag = "objstm-"
	}
	key, detail = c19xCompare(base, got, tag)
	if key != "" {
		if mode == 'b' {
			detail += fmt.Sprintf("; document %s, path %c, eh=%d, the 16 bytes from file offset %d on are unreadable", d.name, path, eh, k)
		} else {
			detail += fmt.Sprintf("; document %s, path %c, eh=%d, fault mode %c at ReadAt #%d", d.name, path, eh, mode, k)
		}
	}
	return true, key, detail
}

func robC19xRun(c *Ctx) {
	seen := map[string]int{}
	for _, d := range c19xDocs() {
		d := d
		// bad sectors inside the data of every stream: about 60 offsets per stream in the quick tier
		// (plus the last 16), every offset in the thorough tier
		for _, e := range d.extents {
			stride := (e[1] - e[0]) / 60
			if c.Thorough {
				stride = 1
			}
			for k := e[0] + c.R.Intn(stride); k < e[1]; k += stride {
				if k+stride >= e[1]-16 {
					stride = 1
				}
				input := fmt.Sprintf("%s N 1 b %d", d.name, k)
				reached, key, detail := c19xJudge(&d, 'N', 1, 'b', k)
				c.Case(input, reached)
				if key == "" {
					c.Stat("c19x_badsector_ok")
					continue
				}
				c.Stat("c19x_fail_" + key)
				seen[key]++
				if seen[key] <= 2 {
					c.Violate("c19x", key, detail, input)
				}
			}
		}
		for _, path := range []byte{'N', 'Q', 'R'} {
			for eh := 0; eh < 3; eh++ {
				if path == 'Q' && eh != 1 && !c.Thorough {
					continue
				}
				if path == 'R' && (eh != 1 || d.raws == nil) {
					continue
				}
				if (d.streams != nil || d.raws != nil) && path == 'N' && eh != 1 && !c.Thorough {
					continue
				}
				if d.streams != nil && path != 'N' && !c.Thorough {
					continue
				}
				src, base, fatal := c19xGuarded(d.data, 'n', 0, path, pdf.ReaderErrorHandling(eh), d.members, d.streams, d.raws)
				if fatal != "" {
					c.Violate("c19x", "C19-faultfree-"+strings.Fields(fatal)[0], fatal, fmt.Sprintf("%s %c %d n 0", d.name, path, eh))
					continue
				}
				for _, b := range base {
					if b.err != nil {
						c.Stat("c19x_faultfree_step_error")
					}
				}
				total := src.calls
				c.StatN("c19x_readat_calls", total)
				stride := 1
				if d.streams != nil && !c.Thorough {
					stride = 3
				}
				for _, mode := range []byte{'f', 'o', 's'} {
					for k := c.R.Intn(stride); k < total; k += stride {
						input := fmt.Sprintf("%s %c %d %c %d", d.name, path, eh, mode, k)
						reached, key, detail := c19xJudge(&d, path, eh, mode, k)
						c.Case(input, reached)
						if key == "" {
							c.Stat("c19x_ok")
							continue
						}
						c.Stat("c19x_fail_" + key)
						seen[key]++
						if seen[key] <= 2 {
							c.Violate("c19x", key, detail, input)
						}
					}
				}
			}
		}
	}
}

// replay input: "<doc> <path> <eh> <mode> <k>"
func replayC19x(input string) (bool, string) {
	f := strings.Fields(input)
	if len(f) != 5 {
		return true, "bad replay input"
	}
	d := c19xDocByName(f[0])
	if d == nil {
		return true, "bad replay input"
	}
	eh, _ := strconv.Atoi(f[2])
	k, _ := strconv.Atoi(f[4])
	_, key, detail := c19xJudge(d, f[1][0], eh, f[3][0], k)
	if key != "" {
		return false, key + ": " + detail
	}
	return true, detail
}

// ---- encoders that go on after a failed sink write ----

type c19eSink struct {
	calls, k int
	from     bool
	hits     int
	closed   bool
}

func (s *c19eSink) Write(p []byte) (int, error) {
	idx := s.calls
	s.calls++
	if idx == s.k || (s.from && idx > s.k) {
		s.hits++
		return 0, errInjected
	}
	return len(p), nil
}

func (s *c19eSink) Close() error { s.closed = true; return nil }

func c19eFilters() map[string]pdf.Filter {
	return map[string]pdf.Filter{
		"ASCII85":   pdf.FilterASCII85{},
		"ASCIIHex":  pdf.FilterASCIIHex{},
		"RunLength": pdf.FilterRunLength{},
		"Flate":     pdf.FilterFlate{},
		"FlatePNG":  pdf.FilterFlate{Predictor: 15, Colors: 1, BitsPerComponent: 8, Columns: 16},
		"FlateTIFF": pdf.FilterFlate{Predictor: 2, Colors: 3, BitsPerComponent: 8, Columns: 8},
		"LZW":       pdf.FilterLZW{},
		"LZWPNG":    pdf.FilterLZW{Predictor: 12, Colors: 1, BitsPerComponent: 8, Columns: 16},
		"CCITTG3":   pdf.FilterCCITTFax{K: 0, Columns: 64},
		"CCITTG4":   pdf.FilterCCITTFax{K: -1, Columns: 64},
	}
}

// c19eRun writes 48 chunks through the encoder, going on after errors, then closes it.
func c19eRun(name string, k int, from bool) (sink *c19eSink, errs []error, panicked string) {
	sink = &c19eSink{k: k, from: from}
	defer func() {
		if e := recover(); e != nil {
			panicked = fmt.Sprintf("%v | %s", e, c19TopFrames(string(debug.Stack())))
		}
	}()
	f := c19eFilters()[name]
	w, err := f.Encode(pdf.V1_7, sink)
	if err != nil {
		return sink, []error{err}, ""
	}
	chunk := make([]byte, 384)
	x := uint32(12345)
	for i := 0; i < 48; i++ {
		for j := range chunk {
			x = x*1664525 + 1013904223
			chunk[j] = byte(x >> 24)
			if i%3 == 0 {
				chunk[j] = byte(i) // runs, for RunLength and LZW
			}
		}
		if _, err := w.Write(chunk); err != nil {
			errs = append(errs, err)
		}
	}
	if err := w.Close(); err != nil {
		errs = append(errs, err)
	}
	return sink, errs, ""
}

func c19eJudge(name string, k int, from bool) (reached bool, key, detail string) {
	sink, errs, pan := c19eRun(name, k, from)
	fam := name // class keys by filter, not by parameter set
	for _, p := range []string{"CCITT", "Flate", "LZW"} {
		if strings.HasPrefix(name, p) {
			fam = map[string]string{"CCITT": "CCITTFax", "Flate": "Flate", "LZW": "LZW"}[p]
		}
	}
	what := fmt.Sprintf("%s encoder, sink Write #%d fails (%s), the caller goes on writing and closes", name, k, map[bool]string{true: "and every later one", false: "only this one"}[from])
	if pan != "" {
		return true, "C19-encoder-panic-after-sink-error-" + fam, what + ": panic: " + pan
	}
	if sink.hits == 0 {
		return false, "", "the sink call was never reached"
	}
	for _, e := range errs {
		if errors.Is(e, errInjected) {
			return true, "", "error returned"
		}
	}
	if len(errs) == 0 {
		return true, "C19-encoder-sink-error-swallowed-" + fam, what + ": no Write and not Close returned an error"
	}
	return true, "C19-encoder-sink-error-replaced-" + fam, what + fmt.Sprintf(": the errors returned (%v) do not carry the sink's error", errs[0])
}

func robC19EncoderRun(c *Ctx) {
	var names []string
	for n := range c19eFilters() {
		names = append(names, n)
	}
	sort.Strings(names)
	for _, name := range names {
		base, _, pan := c19eRun(name, -1, false)
		if pan != "" {
			c.Violate("c19enc", "C19-encoder-panic-"+name, "fault-free session panics: "+pan, name+" -1 o")
			continue
		}
		total := base.calls
		c.StatN("c19e_sink_calls", total)
		viol := 0
		for _, from := range []bool{false, true} {
			for k := 0; k < total && viol < 3; k++ {
				input := fmt.Sprintf("%s %d %s", name, k, map[bool]string{true: "f", false: "o"}[from])
				reached, key, detail := c19eJudge(name, k, from)
				c.Case(input, reached)
				if key != "" {
					c.Stat("c19e_fail_" + key)
					c.Violate("c19enc", key, detail, input)
					viol++
				} else {
					c.Stat("c19e_ok")
				}
			}
		}
	}
}

// replay input: "<filter> <k> <o|f>"
func replayC19Encoder(input string) (bool, string) {
	f := strings.Fields(input)
	if len(f) != 3 || c19eFilters()[f[0]] == nil {
		return true, "bad replay input"
	}
	k, _ := strconv.Atoi(f[1])
	_, key, detail := c19eJudge(f[0], k, f[2] == "f")
	if key != "" {
		return false, key + ": " + detail
	}
	return true, detail
}

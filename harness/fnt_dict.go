package main

// C14 (FNT) — font dictionaries: dict.{Type1,TrueType,CIDFontType0,CIDFontType2}
// with random encodings, widths, MissingWidth / DW are embedded into an
// in-memory PDF file and read back with graphics/extract.  Oracle: every code
// that has a glyph (simple) / every recorded CID (composite) reads back its
// width, every other CID reads back DW.  This exercises the dictionary writers
// and readers around the width-array functions (FirstChar, Widths,
// MissingWidth in the descriptor, W, DW) without any font program.

import (
	"fmt"
	"sort"
	"strings"

	"seehuhn.de/go/pdf"
	"seehuhn.de/go/pdf/font"
	"seehuhn.de/go/pdf/font/cmap"
	"seehuhn.de/go/pdf/font/dict"
	"seehuhn.de/go/pdf/font/verifhook"
	"seehuhn.de/go/pdf/graphics/extract"
	"seehuhn.de/go/postscript/cid"
)

func init() {
	addRun("C14", "font dictionaries without font programs: Type1 / TrueType dictionaries with random encodings (0-256 named codes), width vectors and MissingWidth; CIDFontType0 / CIDFontType2 dictionaries (Identity-H) with random width maps and DW (also DW = 1000, the omitted default); written to an in-memory file (PDF 1.4-2.0) and extracted; non-trivial when at least two widths are recorded; distinct by kind+parameters", runFntDict)
	addReplay("C14", "fnt-dict", fntReplayDict)
}

// replay form: "<kind> <version> <dw> <code:width:mapped …>" / "<kind> <version> <dw> <cid=width,…>"

func fntDictSimple(kind, version string, s *fntSimpleW) (bool, string) {
	var res string
	ok := true
	func() {
		defer func() {
			if p := recover(); p != nil {
				ok, res = false, fmt.Sprintf("panic: %v", p)
			}
		}()
		v := fntVersionByName(version)
		w := verifhook.NewMemPDFWriter(v)
		rm := pdf.NewResourceManager(w)
		desc := &font.Descriptor{FontName: "VerifFont", IsSymbolic: true, MissingWidth: s.dw}
		enc := func(c byte) string {
			if s.mapped[c] {
				return fmt.Sprintf("g%d", c)
			}
			return ""
		}
		var d dict.Dict
		switch kind {
		case "type1":
			x := &dict.Type1{PostScriptName: "VerifFont", Descriptor: desc, Encoding: enc}
			x.Width = s.ww
			d = x
		default:
			x := &dict.TrueType{PostScriptName: "VerifFont", Descriptor: desc, Encoding: enc}
			x.Width = s.ww
			d = x
		}
		ref, err := rm.Embed(d)
		if err != nil {
			res = "embed: " + err.Error()
			return
		}
		if err := rm.Close(); err != nil {
			res = "close: " + err.Error()
			return
		}
		got, err := extract.Dict(pdf.CursorAt(pdf.NewExtractor(w), nil), ref, false)
		if err != nil {
			ok, res = false, "extract.Dict fails on what Embed wrote: "+err.Error()
			return
		}
		var gw [256]float64
		switch x := got.(type) {
		case *dict.Type1:
			gw = x.Width
		case *dict.TrueType:
			gw = x.Width
		default:
			ok, res = false, fmt.Sprintf("extracted %T", got)
			return
		}
		for c := 0; c < 256; c++ {
			if s.mapped[c] && gw[c] != s.ww[c] {
				ok, res = false, fmt.Sprintf("%s PDF %s: code %d has width %g, extracted %g (MissingWidth %g)", kind, version, c, s.ww[c], gw[c], s.dw)
				return
			}
		}
	}()
	return ok, res
}

func fntDictComposite(kind, version string, m map[cid.CID]float64, dw float64) (bool, string) {
	var res string
	ok := true
	func() {
		defer func() {
			if p := recover(); p != nil {
				ok, res = false, fmt.Sprintf("panic: %v", p)
			}
		}()
		v := fntVersionByName(version)
		w := verifhook.NewMemPDFWriter(v)
		rm := pdf.NewResourceManager(w)
		desc := &font.Descriptor{FontName: "VerifFont", IsSymbolic: true}
		cm, err := cmap.Predefined("Identity-H")
		if err != nil {
			res = "cmap: " + err.Error()
			return
		}
		ros := &cid.SystemInfo{Registry: "Adobe", Ordering: "Identity"}
		var d dict.Dict
		switch kind {
		case "cid0":
			d = &dict.CIDFontType0{PostScriptName: "VerifFont", Descriptor: desc, ROS: ros, CMap: cm, Width: m, DefaultWidth: dw, DefaultVMetrics: dict.DefaultVMetricsDefault}
		default:
			d = &dict.CIDFontType2{PostScriptName: "VerifFont", Descriptor: desc, ROS: ros, CMap: cm, Width: m, DefaultWidth: dw, DefaultVMetrics: dict.DefaultVMetricsDefault}
		}
		ref, err := rm.Embed(d)
		if err != nil {
			res = "embed: " + err.Error()
			return
		}
		if err := rm.Close(); err != nil {
			res = "close: " + err.Error()
			return
		}
		got, err := extract.Dict(pdf.CursorAt(pdf.NewExtractor(w), nil), ref, false)
		if err != nil {
			ok, res = false, "extract.Dict fails on what Embed wrote: "+err.Error()
			return
		}
		var gm map[cid.CID]float64
		var gdw float64
		switch x := got.(type) {
		case *dict.CIDFontType0:
			gm, gdw = x.Width, x.DefaultWidth
		case *dict.CIDFontType2:
			gm, gdw = x.Width, x.DefaultWidth
		default:
			ok, res = false, fmt.Sprintf("extracted %T", got)
			return
		}
		look := func(c cid.CID) float64 {
			if w, ok := gm[c]; ok {
				return w
			}
			return gdw
		}
		for c, wv := range m {
			if look(c) != wv {
				ok, res = false, fmt.Sprintf("%s PDF %s: CID %d has width %g, extracted %g (DW %g)", kind, version, c, wv, look(c), dw)
				return
			}
		}
		for _, c := range []cid.CID{0, 1, 7, 255, 256, 65535} {
			if _, rec := m[c]; !rec && look(c) != dw {
				ok, res = false, fmt.Sprintf("%s PDF %s: unrecorded CID %d reads back %g, DW is %g", kind, version, c, look(c), dw)
				return
			}
		}
	}()
	return ok, res
}

func fntReplayDict(input string) (bool, string) {
	f := strings.SplitN(input, " ", 4)
	if len(f) < 4 {
		return false, "bad replay input"
	}
	switch f[0] {
	case "type1", "truetype":
		s := &fntSimpleW{}
		fmt.Sscanf(f[2], "%g", &s.dw)
		for _, p := range strings.Fields(f[3]) {
			var c, m int
			var w float64
			if _, err := fmt.Sscanf(strings.ReplaceAll(p, ":", " "), "%d %g %d", &c, &w, &m); err == nil && c >= 0 && c < 256 {
				s.ww[c] = w
				s.mapped[c] = m == 1
			}
		}
		ok, d := fntDictSimple(f[0], f[1], s)
		if ok && d == "" {
			d = "all mapped codes read back their width"
		}
		return ok, d
	default:
		var dw float64
		fmt.Sscanf(f[2], "%g", &dw)
		m := map[cid.CID]float64{}
		for _, p := range strings.Split(f[3], ",") {
			var k int
			var w float64
			if _, err := fmt.Sscanf(p, "%d=%g", &k, &w); err == nil {
				m[cid.CID(k)] = w
			}
		}
		ok, d := fntDictComposite(f[0], f[1], m, dw)
		if ok && d == "" {
			d = "all recorded CIDs read back their width"
		}
		return ok, d
	}
}

func runFntDict(c *Ctx) {
	r := c.R.Fork()
	n := 600
	if c.Thorough {
		n = 8000
	}
	versions := []string{"1.4", "1.5", "1.7", "2.0"}
	for i := 0; i < n; i++ {
		v := Pick(r, versions)
		// simple
		kind := Pick(r, []string{"type1", "truetype"})
		s := fntGenSimpleW(r.Fork(), i%4 == 0)
		if r.P(1, 3) {
			// fixed pitch: every width is the default width
			for k := range s.ww {
				if s.mapped[k] {
					s.ww[k] = s.dw
				}
			}
		}
		in := fmt.Sprintf("%s %s %s", kind, v, s.replayStr())
		ok, d := fntDictSimple(kind, v, s)
		if !ok {
			c.Violate("fnt-dict", "dict-simple-width", d, in)
		} else if d != "" {
			c.Stat("dict.skipped")
		}
		nm := 0
		for k := range s.mapped {
			if s.mapped[k] {
				nm++
			}
		}
		c.Case(in, nm >= 2)
		c.Stat("dict." + kind)

		// composite
		kind = Pick(r, []string{"cid0", "cid2"})
		m := fntGenWidthMap(r.Fork(), i%4 == 0)
		dw := Pick(r, []float64{1000, 1000, 0, 500, 600, 999, 1001})
		keys := make([]int, 0, len(m))
		for k := range m {
			keys = append(keys, int(k))
		}
		sort.Ints(keys)
		in = fmt.Sprintf("%s %s %g %s", kind, v, dw, fntMapReplayStr(m))
		ok, d = fntDictComposite(kind, v, m, dw)
		if !ok {
			c.Violate("fnt-dict", "dict-composite-width", d, in)
		} else if d != "" {
			c.Stat("dict.skipped")
		}
		c.Case(in, len(m) >= 2)
		c.Stat("dict." + kind)
	}
}

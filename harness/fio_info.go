package main

import (
	"fmt"
	"sort"
	"strconv"
	"strings"
	"time"

	"seehuhn.de/go/pdf"
)

// FIO work package, property C02 ("version, ID, Info and Catalog round-trip"):
// every field of pdf.Info set or unset independently of the others.
//
// An Info value is described by a specification string
//
//	t.a.s.k.c.p.cd.md.tr.cu
//
// of ten indices: Title, Author, Subject, Keywords, Creator, Producer (into
// fioInfoTexts, 0 = unset), CreationDate, ModDate (into fioInfoDates, 0 =
// unset), Trapped (0 unset, 1 true, 2 false), Custom (into fioInfoCustoms,
// 0 = nil).  The specification is the optional 12th header field of a
// program text, so every case replays through the ordinary program replay.

var fioInfoTexts = []string{
	"",
	"Title",
	"Über uns",                    // PDFDocEncoding
	"日本語 Ω",                       // UTF-16
	"(a)\\b",                      // string syntax
	"x\ry\nz",                     // EOLs
	"þÿ looks like a BOM",         // U+00FE U+00FF first: PDFDocEncoding bytes FE FF would read as UTF-16
	strings.Repeat("long text ", 40),
	" leading and trailing space ",
}

var fioInfoDates = []time.Time{
	{},
	time.Date(2024, 2, 29, 23, 59, 58, 0, time.FixedZone("", 3600)),
	time.Date(1999, 12, 31, 23, 59, 59, 999999999, time.UTC), // sub-second part is not representable
	time.Date(2000, 1, 1, 0, 0, 0, 0, time.FixedZone("", -12*3600)),
	time.Date(2038, 1, 19, 3, 14, 8, 0, time.FixedZone("", 14*3600)),
	time.Date(1970, 1, 1, 0, 0, 0, 0, time.FixedZone("", 5*3600+45*60)), // +05'45
	time.Date(2011, 6, 15, 12, 30, 1, 500, time.FixedZone("", -(9*3600 + 30*60))),
}

var fioInfoCustoms = []map[string]string{
	nil,
	{"FioKey": "value"},
	{"A B": "ü", "K#1": "(x)"},
	{"Company": "ACME", "SourceModified": "D:20240101", "Ω": "日本"},
}

func fioInfoFromSpec(spec string) *pdf.Info {
	f := strings.Split(spec, ".")
	idx := func(i, n int) int {
		if i >= len(f) {
			return 0
		}
		k, _ := strconv.Atoi(f[i])
		if k < 0 || k >= n {
			return 0
		}
		return k
	}
	text := func(i int) pdf.TextString { return pdf.TextString(fioInfoTexts[idx(i, len(fioInfoTexts))]) }
	info := &pdf.Info{
		Title: text(0), Author: text(1), Subject: text(2), Keywords: text(3), Creator: text(4), Producer: text(5),
		CreationDate: pdf.Date(fioInfoDates[idx(6, len(fioInfoDates))]),
		ModDate:      pdf.Date(fioInfoDates[idx(7, len(fioInfoDates))]),
	}
	switch idx(8, 3) {
	case 1:
		info.Trapped.Set(true)
	case 2:
		info.Trapped.Set(false)
	}
	if cu := fioInfoCustoms[idx(9, len(fioInfoCustoms))]; cu != nil {
		info.Custom = map[string]string{}
		for k, v := range cu {
			info.Custom[k] = v
		}
	}
	return info
}

func fioCloneInfo(in *pdf.Info) *pdf.Info {
	if in == nil {
		return nil
	}
	out := *in
	if in.Custom != nil {
		out.Custom = map[string]string{}
		for k, v := range in.Custom {
			out.Custom[k] = v
		}
	}
	return &out
}

func fioInfoEmpty(in *pdf.Info) bool {
	if in == nil {
		return true
	}
	_, tr := in.Trapped.Get()
	return in.Title == "" && in.Author == "" && in.Subject == "" && in.Keywords == "" && in.Creator == "" &&
		in.Producer == "" && in.CreationDate.IsZero() && in.ModDate.IsZero() && !tr && len(in.Custom) == 0
}

func fioTrappedString(in *pdf.Info) string {
	if v, ok := in.Trapped.Get(); ok {
		return fmt.Sprint(v)
	}
	return "unset"
}

// fioCompareInfo compares, field by field, the Info handed to the Writer with
// the Info the Reader returns.  Dates are compared at the precision a PDF date
// string carries: whole seconds and a zone offset in whole minutes.
func fioCompareInfo(want, got *pdf.Info) []string {
	if fioInfoEmpty(want) {
		if got != nil && !fioInfoEmpty(got) {
			return []string{fmt.Sprintf("empty Info read back as %+v", got)}
		}
		return nil
	}
	if got == nil {
		return []string{fmt.Sprintf("Info %+v lost (read back as nil)", want)}
	}
	var d []string
	txt := func(name string, w, g pdf.TextString) {
		if w != g {
			d = append(d, fmt.Sprintf("Info.%s %q read back as %q", name, string(w), string(g)))
		}
	}
	txt("Title", want.Title, got.Title)
	txt("Author", want.Author, got.Author)
	txt("Subject", want.Subject, got.Subject)
	txt("Keywords", want.Keywords, got.Keywords)
	txt("Creator", want.Creator, got.Creator)
	txt("Producer", want.Producer, got.Producer)
	date := func(name string, w, g pdf.Date) {
		wt, gt := time.Time(w), time.Time(g)
		switch {
		case w.IsZero() && g.IsZero():
		case w.IsZero() != g.IsZero():
			d = append(d, fmt.Sprintf("Info.%s %v read back as %v", name, w, g))
		default:
			_, wo := wt.Zone()
			_, g0 := gt.Zone()
			if !gt.Equal(wt.Truncate(time.Second)) || wo/60 != g0/60 {
				d = append(d, fmt.Sprintf("Info.%s %v read back as %v", name, w, g))
			}
		}
	}
	date("CreationDate", want.CreationDate, got.CreationDate)
	date("ModDate", want.ModDate, got.ModDate)
	if fioTrappedString(want) != fioTrappedString(got) {
		d = append(d, fmt.Sprintf("Info.Trapped %s read back as %s", fioTrappedString(want), fioTrappedString(got)))
	}
	var keys []string
	for k := range want.Custom {
		keys = append(keys, k)
	}
	for k := range got.Custom {
		if _, ok := want.Custom[k]; !ok {
			keys = append(keys, k)
		}
	}
	sort.Strings(keys)
	for _, k := range keys {
		w, wok := want.Custom[k]
		g, gok := got.Custom[k]
		if wok != gok || w != g {
			d = append(d, fmt.Sprintf("Info.Custom[%q] %q (set %v) read back as %q (set %v)", k, w, wok, g, gok))
		}
	}
	return d
}

// fioInfoSpecs: every field alone with every value; the two dates in all four
// presence combinations; everything set; nothing set; then random masks.
func fioInfoSpecs(r *Rand, random int) []string {
	var specs []string
	sizes := []int{len(fioInfoTexts), len(fioInfoTexts), len(fioInfoTexts), len(fioInfoTexts), len(fioInfoTexts),
		len(fioInfoTexts), len(fioInfoDates), len(fioInfoDates), 3, len(fioInfoCustoms)}
	mk := func(v []int) string {
		var f []string
		for _, x := range v {
			f = append(f, strconv.Itoa(x))
		}
		return strings.Join(f, ".")
	}
	specs = append(specs, mk(make([]int, 10))) // nothing set
	for field, n := range sizes {
		for val := 1; val < n; val++ {
			v := make([]int, 10)
			v[field] = val
			specs = append(specs, mk(v))
		}
	}
	for cd := 1; cd < len(fioInfoDates); cd++ { // both dates, different values
		v := make([]int, 10)
		v[6], v[7] = cd, 1+cd%(len(fioInfoDates)-1)
		specs = append(specs, mk(v))
	}
	all := make([]int, 10)
	for i, n := range sizes {
		all[i] = n - 1
	}
	specs = append(specs, mk(all))
	for i := 0; i < random; i++ {
		v := make([]int, 10)
		for field, n := range sizes {
			if r.Bool() {
				v[field] = 1 + r.Intn(n-1)
			}
		}
		specs = append(specs, mk(v))
	}
	return specs
}

func runFIOInfo(c *Ctx) {
	r := c.R.Fork()
	random := 150
	if c.Thorough {
		random = 4000
	}
	for i, spec := range fioInfoSpecs(r, random) {
		p := &fioProg{
			version:  pdf.Version(1 + r.Intn(9)),
			human:    r.P(1, 3),
			seekable: r.Bool(),
			userPw:   r.Bool(),
			infoX:    spec,
		}
		p.withID = r.P(1, 3) && p.version > pdf.V1_0
		p.encrypt = r.P(1, 3) && p.version > pdf.V1_0
		info := fioInfoFromSpec(spec)
		_, trapped := info.Trapped.Get()
		res := fioExec(p, nil)
		text := p.String()
		c.Case(text, !fioInfoEmpty(info))
		c.Stat("info_programs")
		if fioInfoEmpty(info) {
			c.Stat("info_empty")
		}
		for f, x := range strings.Split(spec, ".") {
			if x != "0" {
				c.Stat(fmt.Sprintf("info_field_%d_set", f))
			}
		}
		if i < 3 {
			c.Sample("info program: " + text)
		}
		if res.failedAt != -1 {
			if trapped && p.version < pdf.V1_3 && res.failedAt == len(p.ops) && !res.panicked {
				// documented: Info.Embed refuses /Trapped before PDF 1.3
				c.Stat("info_trapped_refused_before_1_3")
				continue
			}
			c.Violate("file-roundtrip", "writer-rejects-valid-program",
				fmt.Sprintf("Close with Info %s failed: %v", spec, res.err), text)
			continue
		}
		for _, v := range oracleFileRoundTrip(res) {
			c.Violate("file-roundtrip", v.key, v.desc, text)
		}
		// correspondence with the writer model (the Info dictionary is taken from disk)
		line, err := fioModelLine(res)
		if err == errFioSkip {
			continue
		}
		if err != nil {
			c.Violate("file-roundtrip", "file-not-parseable", "taking the written file apart: "+err.Error(), text)
			continue
		}
		c.Emit(line, "ok "+hexWire(res.file))
	}
}

// runFIOVersions: header version h x Catalog.Version c (unset and all nine values), with classic
// tables and with cross-reference streams.  The Writer refuses a catalog /Version before PDF 1.4;
// otherwise the file must read back with MetaInfo.Version = max(h, c) and Catalog.Version = c.
func runFIOVersions(c *Ctx) {
	r := c.R.Fork()
	for h := 1; h <= 9; h++ {
		for cv := 0; cv <= 9; cv++ {
			for _, human := range []bool{false, true} {
				p := &fioProg{version: pdf.Version(h), human: human, seekable: r.Bool(), catVersion: pdf.Version(cv),
					ops: []fioOp{{kind: 'A', same: -1, userLen: -1}, {kind: 'P', ref: pdf.NewReference(2, 0), obj: pdf.Integer(int64(10*h + cv)), same: -1, userLen: -1}}}
				res := fioExec(p, nil)
				text := p.String()
				c.Case(text, cv != 0)
				switch {
				case cv == 0:
					c.Stat("version_catalog_unset")
				case cv < h:
					c.Stat("version_catalog_below_header")
				case cv == h:
					c.Stat("version_catalog_equal_header")
				default:
					c.Stat("version_catalog_above_header")
				}
				if cv != 0 && pdf.Version(h) < pdf.V1_4 {
					// the /Version entry of the catalog exists from PDF 1.4 on: Close must refuse
					if res.failedAt == len(p.ops) && !res.panicked {
						c.Stat("version_catalog_refused_before_1_4")
					} else {
						c.Violate("file-roundtrip", "catalog-version-not-refused", fmt.Sprintf("header version %v with Catalog.Version %v: Close returned %v (failedAt %d)", p.version, p.catVersion, res.err, res.failedAt), text)
					}
					continue
				}
				fioRunOneProg(c, res, 0, false)
				if res.failedAt != -1 {
					continue
				}
				// the rule of the reader: effective version = max(header, catalog)
				if rd, err := fioReopen(res); err == nil {
					c.Emit(fmt.Sprintf("FIO effver %d %d", h, cv), fmt.Sprintf("ok %d", int(rd.GetMeta().Version)))
				}
			}
		}
	}
}

func init() {
	addRun("C02", "versions: header version h x Catalog.Version c for all pairs over the nine versions incl. unset (c < h, c = h, c > h), HumanReadable on/off (classic tables and cross-reference streams); a catalog /Version before PDF 1.4 must be refused by Close; otherwise the file is reopened: MetaInfo.Version = max(h, c), Catalog.Version = c, everything else as for every program, and the reader model's effectiveVersion agrees.  Non-trivial: Catalog.Version set; distinct by program text.", runFIOVersions)
	addRun("C02", "Info dictionaries: every field of pdf.Info (Title, Author, Subject, Keywords, Creator, Producer, CreationDate, ModDate, Trapped, Custom) alone with every test value (PDFDocEncoding, UTF-16, string syntax, EOLs, a text starting with U+00FE U+00FF, 400 characters; dates with sub-second parts and zone offsets -12h … +14h, +05'45, -09'30; Trapped true/false; one to three custom keys incl. names that need escaping), the two dates in every presence combination, all set, none set, then random subsets; x 9 versions x HumanReadable x sinks x encryption; the file is reopened with pdf.NewReader and meta.Info compared field by field (dates at second / minute-offset precision); unset fields must stay unset, an empty Info must not be written; /Trapped before PDF 1.3 must be refused.  Non-trivial: at least one field set; distinct by program text.", runFIOInfo)
}

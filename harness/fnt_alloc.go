package main

// C14 (work package FNT) — code allocation state machines: simpleenc.Simple,
// cidenc utf8 / identity / fixed.  One scenario = one encoder + a sequence of
// operations; the whole scenario is one correspondence line (the Lean driver
// is a pure function per line).  The oracles evaluate the property on the
// implementation only: distinct (glyph,text) pairs never share a code, the
// 256-code overflow is sticky, and the string built from the allocated codes
// decodes into exactly the recorded entries.

import (
	"encoding/json"
	"errors"
	"fmt"
	"math"
	"strings"
	"time"

	"golang.org/x/text/unicode/norm"

	"seehuhn.de/go/pdf"
	"seehuhn.de/go/pdf/font"
	"seehuhn.de/go/pdf/font/charcode"
	"seehuhn.de/go/pdf/font/cmap"
	"seehuhn.de/go/pdf/font/encoding/cidenc"
	"seehuhn.de/go/pdf/font/encoding/simpleenc"
	"seehuhn.de/go/pdf/font/pdfenc"
	"seehuhn.de/go/pdf/font/subset"
	"seehuhn.de/go/postscript/cid"
	"seehuhn.de/go/postscript/type1/names"
	"seehuhn.de/go/sfnt/glyph"
)

func init() {
	addRun("C14", "allocation scenarios: simpleenc.Simple (7 standard + random base encodings, 0..330 Encode calls with colliding gids/texts/glyph names, interleaved GetCode/Codes/DefaultWidth/Encoding queries), cidenc utf8 (single-rune, multi-rune, colliding and private-use texts, jumps to the ends of the three private areas), identity H/V and custom CMaps; a case is one scenario, non-trivial when at least two codes were allocated; distinct by its operation line", runFntAlloc)
	addReplay("C14", "fnt-simple", func(in string) (bool, string) { return fntReplayScenario(in) })
	addReplay("C14", "fnt-utf8", func(in string) (bool, string) { return fntReplayScenario(in) })
	addReplay("C14", "fnt-fixed", func(in string) (bool, string) { return fntReplayScenario(in) })
	addReplay("C14", "fnt-simple-hang", fntReplayNotdefName)
}

// ---------------------------------------------------------------- generators

var fntTextPool = []string{
	"A", "B", "C", "a", "b", "c", "z", " ", "\u00a0", "-", "\u2010", "\u00ad", ".", ",", "!", "?",
	"fi", "fl", "ffi", "\ufb01", "\ufb02", "\u03a9", "\u2126", "\u00b5", "\u03bc", "\u0416", "\u044f", "\u0451",
	"\u03b1", "\u03c9", "\u00e9", "e\u0301", "\u00df", "\u017f", "\u2026", "\u201c", "\u201d", "\u2014", "\u20ac",
	"", "AB", "x\u0302", "\u00c5", "A\u030a", "\u212b", "\ufffd", "\U0001d49c", "\ue000", "\ue001", "\uf8ff",
	"\U000f0000", "0", "1", "9", "\u0000", "\u001f", "\u007f", "\u0080", "\u07ff", "\u0800", "\uffff", "\U00010000", "\U0010ffff",
}

func fntGenText(r *Rand) string {
	switch r.Intn(10) {
	case 0, 1, 2, 3:
		return Pick(r, fntTextPool)
	case 4:
		return string(rune(0x20 + r.Intn(0x5f)))
	case 5:
		return string(rune(0xa0 + r.Intn(0x250-0xa0)))
	case 6:
		return string(rune(0x370 + r.Intn(0x500-0x370))) // Greek, Cyrillic
	case 7:
		return string(rune(0x2000 + r.Intn(0x70))) // punctuation
	case 8:
		// several runes
		n := 2 + r.Intn(3)
		var sb strings.Builder
		for i := 0; i < n; i++ {
			sb.WriteString(fntGenText(r))
		}
		return sb.String()
	default:
		if r.P(1, 4) {
			return string([]byte{0xff, byte(r.U64())}) // invalid UTF-8
		}
		return string(rune(r.Intn(0x110000)))
	}
}

var fntNamePool = []string{"", "A", "B", "a", "space", "hyphen", "fi", "Omega", "mu", "afii10024", "uni0416",
	"glyph1", "glyph2", "g", "1bad", ".bad", "has space", "x.alt1", "x.alt2", "x", "orn000", "orn001", "orn003",
	"thisnameiswaytoolongtobeavalidpostscriptname", "nameof27characters_aaaaaaaa", "nameof30characters_aaaaaaaaaaa", ".notdef", "a12", "a13"}

var fntBaseEncs = []struct {
	tag string
	enc *pdfenc.Encoding
}{
	{"winansi", &pdfenc.WinAnsi}, {"standard", &pdfenc.Standard}, {"macroman", &pdfenc.MacRoman},
	{"macexpert", &pdfenc.MacExpert}, {"symbol", &pdfenc.Symbol}, {"zapf", &pdfenc.ZapfDingbats}, {"pdfdoc", &pdfenc.PDFDoc},
}

// ------------------------------------------------------------------ scenario

type fntOp struct {
	K     string `json:"k"`           // E G C D R X N M A W P
	ID    uint32 `json:"id"`          // gid / cid / code / rune
	Name  string `json:"n,omitempty"` // base glyph name
	Text  []byte `json:"t,omitempty"`
	Width int    `json:"w,omitempty"`
}

type fntScenario struct {
	Kind     string      `json:"kind"` // simple | utf8 | identity | fixed
	Base     string      `json:"base,omitempty"`
	Table    []string    `json:"table,omitempty"` // custom base encoding
	FontName string      `json:"font,omitempty"`
	W0       int         `json:"w0"`
	Vertical bool        `json:"v,omitempty"`
	Key      string      `json:"key,omitempty"`     // class key under which every oracle failure of this scenario is reported
	PastEnd  bool        `json:"pastend,omitempty"` // utf8: allow Encode after the private areas are used up
	CSR      [][2]string `json:"csr,omitempty"`     // fixed: code space ranges (hex low, high)
	Ranges   []fntCRange `json:"ranges,omitempty"`  // fixed: cid ranges / singles
	Ops      []fntOp     `json:"ops"`
}

type fntCRange struct {
	First string `json:"f"`
	Last  string `json:"l"`
	Value uint32 `json:"v"`
}

type fntResult struct {
	opLine   string
	implOut  string
	allocs   int
	viols    []fntViol
	overflow bool
}

type fntViol struct{ oracle, key, desc string }

func fntCodesOut(seq func(func(font.Code) bool)) string {
	var parts []string
	for c := range seq {
		parts = append(parts, fmt.Sprintf("%d/%d/%s/%d", c.CID, int64(math.Round(c.Width*1000)), hexWire([]byte(c.Text)), b2i(c.UseWordSpacing)))
	}
	if len(parts) == 0 {
		return "-"
	}
	return strings.Join(parts, ",")
}

func b2i(b bool) int {
	if b {
		return 1
	}
	return 0
}

func (sc *fntScenario) baseEncoding() *pdfenc.Encoding {
	if sc.Table != nil {
		e := &pdfenc.Encoding{Has: map[string]bool{}}
		for i := 0; i < 256 && i < len(sc.Table); i++ {
			e.Encoding[i] = sc.Table[i]
			e.Has[sc.Table[i]] = true
		}
		return e
	}
	for _, b := range fntBaseEncs {
		if b.tag == sc.Base {
			return b.enc
		}
	}
	return &pdfenc.WinAnsi
}

// runScenario runs the real encoder, returns the correspondence line and the
// oracle verdicts.  Panics of the library are reported as violations.
func fntRunScenario(sc *fntScenario) (res fntResult) {
	defer func() {
		if p := recover(); p != nil {
			res.viols = append(res.viols, fntViol{"fnt-" + sc.Kind, sc.Kind + "-panic", fmt.Sprintf("panic: %v", p)})
		}
	}()
	switch sc.Kind {
	case "simple":
		return fntRunSimple(sc)
	case "utf8":
		return fntRunUtf8(sc)
	default:
		return fntRunFixed(sc)
	}
}

type fntAlloc struct {
	id    uint32
	text  string
	width int
	code  uint32
}

func fntRunSimple(sc *fntScenario) (res fntResult) {
	base := sc.baseEncoding()
	enc := simpleenc.NewSimple(float64(sc.W0), sc.FontName, base)
	_, psName := subset.Split(sc.FontName)
	oracle := "fnt-simple"
	viol := func(key, format string, a ...any) {
		res.viols = append(res.viols, fntViol{oracle, key, fmt.Sprintf(format, a...)})
	}

	var ops, outs []string
	byCode := map[byte]fntAlloc{}
	var allocs []fntAlloc
	sawOverflow := false
	for _, op := range sc.Ops {
		switch op.K {
		case "E":
			text := string(op.Text)
			_, had := enc.GetCode(glyph.ID(op.ID), text)
			nBefore := 256 - enc.CodesRemaining()
			c, err := enc.Encode(glyph.ID(op.ID), op.Name, text, float64(op.Width))
			fromUni := names.FromUnicode(text)
			var r rune
			out := ""
			switch {
			case err == nil:
				name := enc.GlyphName(glyph.ID(op.ID))
				rr := []rune(names.ToUnicode(name, psName))
				if len(rr) == 0 {
					rr = []rune(norm.NFD.String(text))
				}
				if len(rr) > 0 {
					r = rr[0]
				}
				out = fmt.Sprintf("c%d:%s", c, hexWire([]byte(name)))
				// ---- oracles on the implementation
				if had {
					viol("simple-dup-accepted", "Encode(%d,%q) succeeded although GetCode already knew the pair", op.ID, text)
				}
				if prev, used := byCode[c]; used {
					viol("simple-code-shared", "code %d given to (%d,%q) and to (%d,%q)", c, prev.id, prev.text, op.ID, text)
				}
				if nBefore >= 256 {
					viol("simple-overflow-not-sticky", "Encode succeeded with %d codes in use", nBefore)
				}
				if sawOverflow {
					viol("simple-overflow-not-sticky", "Encode(%d,%q) succeeded after ErrOverflow", op.ID, text)
				}
				a := fntAlloc{op.ID, text, op.Width, uint32(c)}
				byCode[c] = a
				allocs = append(allocs, a)
				if c2, ok := enc.GetCode(glyph.ID(op.ID), text); !ok || c2 != c {
					viol("simple-getcode", "GetCode(%d,%q) = %d,%v after Encode returned %d", op.ID, text, c2, ok, c)
				}
				if !names.IsValid(name) {
					viol("simple-glyphname-invalid", "glyph name %q for gid %d", name, op.ID)
				}
			case errors.Is(err, simpleenc.ErrDuplicateCode):
				out = "dup"
				if !had {
					viol("simple-dup-spurious", "ErrDuplicateCode for a new pair (%d,%q)", op.ID, text)
				}
			case errors.Is(err, simpleenc.ErrOverflow):
				out = "ovf"
				sawOverflow = true
				if nBefore < 256 {
					viol("simple-overflow-early", "ErrOverflow with only %d codes in use", nBefore)
				}
				if enc.Error() == nil {
					viol("simple-overflow-not-sticky", "Error() is nil after ErrOverflow")
				}
			default:
				out = "err:" + err.Error()
			}
			ops = append(ops, fmt.Sprintf("E:%d:%s:%s:%d:%s:%d", op.ID, hexWire([]byte(op.Name)), hexWire([]byte(fromUni)), r, hexWire(op.Text), op.Width))
			outs = append(outs, out)
		case "G":
			c, ok := enc.GetCode(glyph.ID(op.ID), string(op.Text))
			ops = append(ops, fmt.Sprintf("G:%d:%s", op.ID, hexWire(op.Text)))
			if ok {
				outs = append(outs, fmt.Sprint(c))
			} else {
				outs = append(outs, "none")
			}
		case "C":
			ops = append(ops, "C:"+hexWire(op.Text))
			outs = append(outs, fntCodesOut(enc.Codes(pdf.String(op.Text))))
		case "D":
			ops = append(ops, "D")
			outs = append(outs, fmt.Sprint(int64(math.Round(enc.DefaultWidth()))))
		case "R":
			ops = append(ops, "R")
			outs = append(outs, fmt.Sprint(enc.CodesRemaining()))
		case "X":
			ops = append(ops, "X")
			outs = append(outs, fmt.Sprint(b2i(enc.Error() != nil)))
			if sawOverflow && enc.Error() == nil {
				viol("simple-overflow-not-sticky", "Error() went back to nil")
			}
		case "N":
			ops = append(ops, fmt.Sprintf("N:%d", op.ID&0xff))
			outs = append(outs, hexWire([]byte(enc.Encoding()(byte(op.ID)))))
		case "M":
			ops = append(ops, fmt.Sprintf("M:%d", op.ID))
			outs = append(outs, hexWire([]byte(enc.GlyphName(glyph.ID(op.ID)))))
		}
	}

	// ---- read-back oracle: the string of all allocated codes decodes into the records
	var s pdf.String
	for _, a := range allocs {
		s = append(s, byte(a.code))
	}
	i := 0
	for code := range enc.Codes(s) {
		if i >= len(allocs) {
			viol("simple-readback-count", "Codes yields more entries than codes")
			break
		}
		a := allocs[i]
		wantCID := cid.CID(a.code) + 1
		if a.id == 0 {
			wantCID = 0
		}
		if code.CID != wantCID || math.Abs(code.Width*1000-float64(a.width)) > 1e-6 || code.Text != a.text {
			viol("simple-readback", "code %d of (%d,%q,w=%d) reads back as CID %d width %g text %q", a.code, a.id, a.text, a.width, code.CID, code.Width*1000, code.Text)
		}
		if enc.GID(byte(a.code)) != glyph.ID(a.id) {
			viol("simple-readback", "GID(%d) = %d, want %d", a.code, enc.GID(byte(a.code)), a.id)
		}
		i++
	}
	if i != len(allocs) {
		viol("simple-readback-count", "Codes yields %d entries for %d codes", i, len(allocs))
	}
	// glyph names: one name per gid, distinct gids have distinct names, Encoding agrees
	nameOf := map[string]uint32{}
	encf := enc.Encoding()
	for _, a := range allocs {
		n := enc.GlyphName(glyph.ID(a.id))
		if g, ok := nameOf[n]; ok && g != a.id {
			viol("simple-glyphname-shared", "glyph name %q used for gid %d and gid %d", n, g, a.id)
		}
		nameOf[n] = a.id
		if encf(byte(a.code)) != n {
			viol("simple-encoding", "Encoding(%d) = %q, glyph name of gid %d is %q", a.code, encf(byte(a.code)), a.id, n)
		}
	}

	tbl := make([]string, 256)
	copy(tbl, base.Encoding[:])
	res.opLine = fmt.Sprintf("FNT simple %d %s %s", sc.W0, strings.Join(tbl, ","), strings.Join(ops, ";"))
	res.implOut = strings.Join(outs, ";")
	res.allocs = len(allocs)
	res.overflow = sawOverflow
	return res
}

func fntSingleRune(text string) string {
	rr := []rune(norm.NFC.String(text))
	if len(rr) == 1 {
		return fmt.Sprint(rr[0])
	}
	return "-"
}

func fntCidErr(err error) string {
	switch {
	case err == nil:
		return ""
	case errors.Is(err, cidenc.ErrDuplicateCode):
		return "dup"
	case errors.Is(err, cidenc.ErrOverflow):
		return "ovf"
	case strings.Contains(err.Error(), "CID not found"):
		return "nocid"
	case strings.Contains(err.Error(), "width already set"):
		return "wdiff"
	case strings.Contains(err.Error(), "text already set"):
		return "tdiff"
	}
	return "err:" + err.Error()
}

func fntWMode(v bool) font.WritingMode {
	if v {
		return font.Vertical
	}
	return font.Horizontal
}

func fntRunUtf8(sc *fntScenario) (res fntResult) {
	enc := cidenc.NewCompositeUtf8(float64(sc.W0), fntWMode(sc.Vertical))
	codec := enc.Codec()
	oracle := "fnt-utf8"
	viol := func(key, format string, a ...any) {
		res.viols = append(res.viols, fntViol{oracle, key, fmt.Sprintf(format, a...)})
	}
	var ops, outs []string
	byCode := map[charcode.Code]fntAlloc{}
	var allocs []fntAlloc
	for _, op := range sc.Ops {
		switch op.K {
		case "E":
			text := string(op.Text)
			if np, _ := cidenc.VerifNextPrivate(enc); np >= 0x10fffe && !sc.PastEnd {
				// past the last private-use code point the loop of makeCode does not
				// come back in reasonable time (see notes/C14.md); stop allocating
				res.overflow = true
				continue
			}
			_, had := enc.GetCode(cid.CID(op.ID), text)
			c, err := enc.Encode(cid.CID(op.ID), text, float64(op.Width))
			out := fntCidErr(err)
			if err == nil {
				out = fmt.Sprintf("c%d", c)
				if had {
					viol("utf8-dup-accepted", "Encode(%d,%q) succeeded although GetCode already knew the pair", op.ID, text)
				}
				if prev, used := byCode[c]; used {
					viol("utf8-code-shared", "code %x given to (%d,%q) and to (%d,%q)", c, prev.id, prev.text, op.ID, text)
				}
				a := fntAlloc{op.ID, text, op.Width, uint32(c)}
				byCode[c] = a
				allocs = append(allocs, a)
				if c2, ok := enc.GetCode(cid.CID(op.ID), text); !ok || c2 != c {
					viol("utf8-getcode", "GetCode(%d,%q) = %x,%v after Encode returned %x", op.ID, text, c2, ok, c)
				}
			} else if out == "dup" && !had {
				viol("utf8-dup-spurious", "ErrDuplicateCode for a new pair (%d,%q)", op.ID, text)
			}
			ops = append(ops, fmt.Sprintf("E:%d:%s:%d:%s", op.ID, hexWire(op.Text), op.Width, fntSingleRune(text)))
			outs = append(outs, out)
		case "G":
			c, ok := enc.GetCode(cid.CID(op.ID), string(op.Text))
			ops = append(ops, fmt.Sprintf("G:%d:%s", op.ID, hexWire(op.Text)))
			if ok {
				outs = append(outs, fmt.Sprint(c))
			} else {
				outs = append(outs, "none")
			}
		case "C":
			ops = append(ops, "C:"+hexWire(op.Text))
			outs = append(outs, fntCodesOut(enc.Codes(pdf.String(op.Text))))
		case "A":
			ops = append(ops, fmt.Sprintf("A:%d", op.ID))
			outs = append(outs, hexWire(codec.AppendCode(nil, charcode.Code(op.ID))))
		case "W":
			ops = append(ops, fmt.Sprintf("W:%d", op.ID))
			outs = append(outs, fmt.Sprint(int64(math.Round(enc.Width(charcode.Code(op.ID))))))
		case "P":
			ops = append(ops, fmt.Sprintf("P:%d", op.ID))
			cidenc.VerifSetNextPrivate(enc, rune(op.ID))
			outs = append(outs, "ok")
		}
	}
	// read-back: unique segmentation of the concatenated codes
	var s pdf.String
	for _, a := range allocs {
		s = codec.AppendCode(s, charcode.Code(a.code))
	}
	i := 0
	for code := range enc.Codes(s) {
		if i >= len(allocs) {
			viol("utf8-readback-count", "Codes yields more entries than codes")
			break
		}
		a := allocs[i]
		if code.CID != cid.CID(a.id) || math.Abs(code.Width*1000-float64(a.width)) > 1e-6 || code.Text != a.text {
			viol("utf8-readback", "code %x of (%d,%q,w=%d) reads back as CID %d width %g text %q", a.code, a.id, a.text, a.width, code.CID, code.Width*1000, code.Text)
		}
		i++
	}
	if i != len(allocs) {
		viol("utf8-readback-count", "Codes yields %d entries for %d codes", i, len(allocs))
	}
	res.opLine = fmt.Sprintf("FNT utf8 %d %s", sc.W0, strings.Join(ops, ";"))
	res.implOut = strings.Join(outs, ";")
	res.allocs = len(allocs)
	return res
}

func fntHexBytes(s string) []byte {
	b, _ := hexDecode(s)
	return b
}

func hexDecode(s string) ([]byte, error) {
	if s == "-" {
		return nil, nil
	}
	out := make([]byte, len(s)/2)
	for i := range out {
		var v byte
		for j := 0; j < 2; j++ {
			c := s[2*i+j]
			switch {
			case c >= '0' && c <= '9':
				v = v<<4 | (c - '0')
			case c >= 'a' && c <= 'f':
				v = v<<4 | (c - 'a' + 10)
			default:
				return nil, fmt.Errorf("bad hex")
			}
		}
		out[i] = v
	}
	return out, nil
}

func fntRunFixed(sc *fntScenario) (res fntResult) {
	oracle := "fnt-fixed"
	viol := func(key, format string, a ...any) {
		res.viols = append(res.viols, fntViol{oracle, key, fmt.Sprintf(format, a...)})
	}
	var enc cidenc.CIDEncoder
	head := ""
	if sc.Kind == "identity" {
		enc = cidenc.NewCompositeIdentity(float64(sc.W0), fntWMode(sc.Vertical))
		head = fmt.Sprintf("FNT identity %d", sc.W0)
	} else {
		f := &cmap.File{Name: "Verif-Test", ROS: &cid.SystemInfo{Registry: "Verif", Ordering: "Test"}, WMode: fntWMode(sc.Vertical)}
		var csrParts []string
		for _, r := range sc.CSR {
			f.CodeSpaceRange = append(f.CodeSpaceRange, charcode.Range{Low: fntHexBytes(r[0]), High: fntHexBytes(r[1])})
			csrParts = append(csrParts, r[0]+"-"+r[1])
		}
		for _, r := range sc.Ranges {
			if r.First == r.Last {
				f.CIDSingles = append(f.CIDSingles, cmap.Single{Code: fntHexBytes(r.First), Value: cmap.CID(r.Value)})
			} else {
				f.CIDRanges = append(f.CIDRanges, cmap.Range{First: fntHexBytes(r.First), Last: fntHexBytes(r.Last), Value: cmap.CID(r.Value)})
			}
		}
		var err error
		enc, err = cidenc.NewFromCMap(f, float64(sc.W0))
		if err != nil {
			res.opLine = ""
			return res
		}
		codec, _ := f.Codec()
		var pairs []string
		for code, c := range f.All(codec) {
			pairs = append(pairs, fmt.Sprintf("%d=%d", code, c))
		}
		ps := "-"
		if len(pairs) > 0 {
			ps = strings.Join(pairs, ",")
		}
		head = fmt.Sprintf("FNT fixed %d %s %s", sc.W0, strings.Join(csrParts, ","), ps)
	}
	codec := enc.Codec()
	var ops, outs []string
	type pair struct {
		id   uint32
		text string
	}
	byCode := map[charcode.Code]pair{}
	seenPair := map[pair]charcode.Code{}
	var allocs []fntAlloc
	note := func(c charcode.Code, id uint32, text string, width int, how string) {
		p := pair{id, text}
		if prev, used := byCode[c]; used && prev != p {
			key := "fixed-code-shared-text"
			if prev.id != id {
				key = "fixed-code-shared-cid"
			}
			viol(key, "%s: code %x stands for (%d,%q) and for (%d,%q)", how, c, prev.id, prev.text, id, text)
			return
		}
		if _, ok := seenPair[p]; !ok {
			allocs = append(allocs, fntAlloc{id, text, width, uint32(c)})
		}
		byCode[c] = p
		seenPair[p] = c
	}
	for _, op := range sc.Ops {
		switch op.K {
		case "E":
			text := string(op.Text)
			c, err := enc.Encode(cid.CID(op.ID), text, float64(op.Width))
			out := fntCidErr(err)
			if err == nil {
				out = fmt.Sprintf("c%d", c)
				note(c, op.ID, text, op.Width, "Encode")
			}
			ops = append(ops, fmt.Sprintf("E:%d:%s:%d", op.ID, hexWire(op.Text), op.Width))
			outs = append(outs, out)
		case "G":
			// what font/{cff,truetype,opentype}.Composite.Encode do: GetCode first
			c, ok := enc.GetCode(cid.CID(op.ID), string(op.Text))
			ops = append(ops, fmt.Sprintf("G:%d:%s", op.ID, hexWire(op.Text)))
			if ok {
				outs = append(outs, fmt.Sprint(c))
				note(c, op.ID, string(op.Text), -1, "GetCode")
			} else {
				outs = append(outs, "none")
			}
		case "C":
			ops = append(ops, "C:"+hexWire(op.Text))
			outs = append(outs, fntCodesOut(enc.Codes(pdf.String(op.Text))))
		case "A":
			ops = append(ops, fmt.Sprintf("A:%d", op.ID))
			outs = append(outs, hexWire(codec.AppendCode(nil, charcode.Code(op.ID))))
		}
	}
	var s pdf.String
	for _, a := range allocs {
		s = codec.AppendCode(s, charcode.Code(a.code))
	}
	i := 0
	for code := range enc.Codes(s) {
		if i >= len(allocs) {
			viol("fixed-readback-count", "Codes yields more entries than codes")
			break
		}
		a := allocs[i]
		if a.width >= 0 && (code.CID != cid.CID(a.id) || math.Abs(code.Width*1000-float64(a.width)) > 1e-6 || code.Text != a.text) {
			viol("fixed-readback", "code %x of (%d,%q,w=%d) reads back as CID %d width %g text %q", a.code, a.id, a.text, a.width, code.CID, code.Width*1000, code.Text)
		}
		i++
	}
	if i != len(allocs) {
		viol("fixed-readback-count", "Codes yields %d entries for %d codes", i, len(allocs))
	}
	res.opLine = head + " " + strings.Join(ops, ";")
	res.implOut = strings.Join(outs, ";")
	res.allocs = len(allocs)
	return res
}

// ---------------------------------------------------------------- generators

func fntGenSimple(r *Rand, thorough bool) *fntScenario {
	sc := &fntScenario{Kind: "simple", W0: Pick(r, []int{0, 250, 500, 600, 1000})}
	if r.P(1, 4) {
		// random base encoding
		sc.Table = make([]string, 256)
		for i := range sc.Table {
			switch r.Intn(4) {
			case 0:
				sc.Table[i] = ".notdef"
			case 1:
				sc.Table[i] = ""
			default:
				n := Pick(r, fntNamePool)
				if strings.ContainsAny(n, " ,;:") {
					n = "x"
				}
				sc.Table[i] = n
			}
		}
	} else {
		sc.Base = Pick(r, fntBaseEncs).tag
	}
	sc.FontName = Pick(r, []string{"", "Test", "ZapfDingbats", "ABCDEF+Test", "AAAAAA+ZapfDingbats", "Symbol"})
	nEnc := 0
	switch r.Intn(6) {
	case 0:
		nEnc = r.Intn(6)
	case 1, 2:
		nEnc = r.Intn(60)
	case 3:
		nEnc = 200 + r.Intn(130)
	default:
		nEnc = 250 + r.Intn(20)
	}
	gidSpan := Pick(r, []int{4, 40, 400, 65536})
	widths := []int{0, 250, 500, 500, 600, 600, 600, 722, 1000}
	if r.Bool() {
		widths = []int{sc.W0, sc.W0, 600}
	}
	var prev []fntOp
	for i := 0; i < nEnc; i++ {
		var op fntOp
		if len(prev) > 0 && r.P(1, 8) {
			op = Pick(r, prev) // duplicate
		} else {
			op = fntOp{K: "E", ID: uint32(r.Intn(gidSpan)), Text: []byte(fntGenText(r)), Width: Pick(r, widths)}
			switch r.Intn(4) {
			case 0:
				op.Name = Pick(r, fntNamePool)
			case 1:
				op.Name = names.FromUnicode(string(op.Text))
			case 2:
				op.Name = ""
			default:
				op.Name = fmt.Sprintf("g%d", r.Intn(20))
			}
			if len(prev) > 0 && r.P(1, 6) {
				op.ID = Pick(r, prev).ID // same glyph, other text
			}
			if len(prev) > 0 && r.P(1, 10) {
				op.Text = Pick(r, prev).Text // same text, other glyph
			}
			if fntNotdefHangs && op.Name == ".notdef" && op.ID != 0 {
				op.Name = "notdef"
			}
		}
		sc.Ops = append(sc.Ops, op)
		prev = append(prev, op)
		if r.P(1, 5) {
			switch r.Intn(7) {
			case 0:
				q := Pick(r, prev)
				sc.Ops = append(sc.Ops, fntOp{K: "G", ID: q.ID, Text: q.Text})
			case 1:
				sc.Ops = append(sc.Ops, fntOp{K: "G", ID: uint32(r.Intn(gidSpan)), Text: []byte(fntGenText(r))})
			case 2:
				sc.Ops = append(sc.Ops, fntOp{K: "C", Text: r.Bytes(r.Intn(12))})
			case 3:
				sc.Ops = append(sc.Ops, fntOp{K: "D"})
			case 4:
				sc.Ops = append(sc.Ops, fntOp{K: "R"}, fntOp{K: "X"})
			case 5:
				sc.Ops = append(sc.Ops, fntOp{K: "N", ID: uint32(r.Intn(256))})
			default:
				sc.Ops = append(sc.Ops, fntOp{K: "M", ID: Pick(r, prev).ID})
			}
		}
	}
	sc.Ops = append(sc.Ops, fntOp{K: "D"}, fntOp{K: "R"}, fntOp{K: "X"}, fntOp{K: "C", Text: r.Bytes(20)})
	all := make([]byte, 256)
	for i := range all {
		all[i] = byte(i)
	}
	if r.P(1, 3) {
		sc.Ops = append(sc.Ops, fntOp{K: "C", Text: all})
	}
	return sc
}

func fntGenUtf8(r *Rand) *fntScenario {
	sc := &fntScenario{Kind: "utf8", W0: Pick(r, []int{0, 500, 1000}), Vertical: r.P(1, 5)}
	n := r.Intn(80)
	if r.P(1, 6) {
		n = 150 + r.Intn(100)
	}
	cidSpan := Pick(r, []int{3, 50, 1000, 70000})
	private := r.P(1, 3) // many multi-rune texts: private-use area
	var prev []fntOp
	for i := 0; i < n; i++ {
		var op fntOp
		if len(prev) > 0 && r.P(1, 10) {
			op = Pick(r, prev)
		} else {
			op = fntOp{K: "E", ID: uint32(r.Intn(cidSpan)), Text: []byte(fntGenText(r)), Width: r.Intn(8) * 125}
			if private {
				switch r.Intn(3) {
				case 0:
					op.Text = []byte("ab")
				case 1:
					op.Text = []byte(string(rune(0xe000 + r.Intn(40)))) // collides with the private cursor
				}
			}
			if len(prev) > 0 && r.P(1, 5) {
				op.Text = Pick(r, prev).Text
			}
			if len(prev) > 0 && r.P(1, 8) {
				op.ID = Pick(r, prev).ID
			}
		}
		sc.Ops = append(sc.Ops, op)
		prev = append(prev, op)
		if r.P(1, 6) {
			switch r.Intn(5) {
			case 0:
				q := Pick(r, prev)
				sc.Ops = append(sc.Ops, fntOp{K: "G", ID: q.ID, Text: q.Text})
			case 1:
				sc.Ops = append(sc.Ops, fntOp{K: "C", Text: fntGenUtf8ish(r)})
			case 2:
				sc.Ops = append(sc.Ops, fntOp{K: "A", ID: uint32(r.U64())})
			case 3:
				sc.Ops = append(sc.Ops, fntOp{K: "W", ID: uint32(r.Intn(0x800))})
			default:
				// jump close to the end of a private-use area
				target := Pick(r, []uint32{0xf900, 0xffffe, 0x10fffe})
				sc.Ops = append(sc.Ops, fntOp{K: "P", ID: target - uint32(1+r.Intn(4))})
			}
		}
	}
	sc.Ops = append(sc.Ops, fntOp{K: "C", Text: fntGenUtf8ish(r)})
	return sc
}

// byte strings that are mostly UTF-8 with broken pieces
func fntGenUtf8ish(r *Rand) []byte {
	var b []byte
	n := r.Intn(10)
	for i := 0; i < n; i++ {
		switch r.Intn(4) {
		case 0:
			b = append(b, r.Bytes(1+r.Intn(3))...)
		case 1:
			b = append(b, Pick(r, []byte{0x20, 0x7f, 0x80, 0xc1, 0xc2, 0xdf, 0xe0, 0xef, 0xf0, 0xf4, 0xf5, 0xff, 0xbf}))
		default:
			b = append(b, []byte(fntGenText(r))...)
		}
	}
	return b
}

func fntGenFixed(r *Rand) *fntScenario {
	sc := &fntScenario{W0: Pick(r, []int{0, 500, 1000}), Vertical: r.P(1, 4)}
	cidSpan := Pick(r, []int{4, 300, 65536, 70000})
	if r.P(2, 3) {
		sc.Kind = "identity"
	} else {
		sc.Kind = "fixed"
		// a mixed 1-/2-byte code space in the style of the CJK CMaps
		sc.CSR = [][2]string{{"00", "80"}, {"8140", "9ffc"}, {"a0", "df"}}
		if r.Bool() {
			sc.CSR = [][2]string{{"0000", "ffff"}}
		}
		nr := 1 + r.Intn(4)
		next := uint32(0) // CID 0 has a code (see the fixed-notdef-code scenario for CMaps without one)
		cur1, cur2, b0 := 0, r.Intn(0x4000), 0x81
		for i := 0; i < nr; i++ {
			var cr fntCRange
			if len(sc.CSR) == 1 {
				lo := cur2 + r.Intn(50)
				n := r.Intn(200)
				cr = fntCRange{fmt.Sprintf("%04x", lo), fmt.Sprintf("%04x", lo+n), next}
				cur2 = lo + n + 1
				next += uint32(n + 1 + r.Intn(3))
			} else if r.Bool() && cur1 < 0x60 {
				lo := cur1 + r.Intn(8)
				n := r.Intn(16)
				cr = fntCRange{fmt.Sprintf("%02x", lo), fmt.Sprintf("%02x", lo+n), next}
				cur1 = lo + n + 1
				next += uint32(n + 1)
			} else {
				lo := 0x40 + r.Intn(0x60)
				n := r.Intn(0x40)
				cr = fntCRange{fmt.Sprintf("%02x%02x", b0, lo), fmt.Sprintf("%02x%02x", b0, lo+n), next}
				b0 += 1 + r.Intn(3)
				next += uint32(n + 1)
			}
			sc.Ranges = append(sc.Ranges, cr)
		}
		cidSpan = int(next) + 3
	}
	n := r.Intn(60)
	var prev []fntOp
	for i := 0; i < n; i++ {
		op := fntOp{K: "E", ID: uint32(r.Intn(cidSpan)), Text: []byte(fntGenText(r)), Width: r.Intn(8) * 125}
		if len(prev) > 0 && r.P(1, 6) {
			op = Pick(r, prev)
			if r.Bool() {
				op.Width += 125 // conflicting width
			}
		}
		// the sequence used by the composite embedders: GetCode, then Encode on a miss
		if r.P(2, 3) {
			sc.Ops = append(sc.Ops, fntOp{K: "G", ID: op.ID, Text: op.Text})
		}
		sc.Ops = append(sc.Ops, op)
		prev = append(prev, op)
		if r.P(1, 6) {
			switch r.Intn(3) {
			case 0:
				sc.Ops = append(sc.Ops, fntOp{K: "C", Text: r.Bytes(r.Intn(9))})
			case 1:
				sc.Ops = append(sc.Ops, fntOp{K: "A", ID: uint32(r.U64()) >> uint(r.Intn(32))})
			default:
				sc.Ops = append(sc.Ops, fntOp{K: "G", ID: uint32(r.Intn(cidSpan)), Text: []byte(fntGenText(r))})
			}
		}
	}
	sc.Ops = append(sc.Ops, fntOp{K: "C", Text: r.Bytes(r.Intn(12))})
	return sc
}

// fntSameGlyphOtherText: the GetCode-then-Encode protocol of the composite
// embedders never asks for a second text of a CID it has seen; scenarios in
// which it does are the known design limit of a fixed CMap.  They are
// generated (and reported under their own class key) only by the dedicated
// generator below, so that the ordinary runs exercise the rest.
func fntStripSecondTexts(sc *fntScenario) {
	seen := map[uint32]string{}
	var out []fntOp
	for _, op := range sc.Ops {
		if op.K == "E" || op.K == "G" {
			if t, ok := seen[op.ID]; ok && t != string(op.Text) {
				continue
			}
			if op.K == "E" || op.ID == 0 {
				// GetCode(0, ·) succeeds from the start: the width of CID 0 is preset
				seen[op.ID] = string(op.Text)
			}
		}
		out = append(out, op)
	}
	sc.Ops = out
}

// -------------------------------------------------------------------- runner

func fntReplayScenario(input string) (bool, string) {
	var sc fntScenario
	if err := json.Unmarshal([]byte(input), &sc); err != nil {
		return false, "bad replay input: " + err.Error()
	}
	res := fntRunScenario(&sc)
	if len(res.viols) == 0 {
		return true, "no oracle fails; " + truncate(res.implOut)
	}
	return false, res.viols[0].key + ": " + res.viols[0].desc
}

func fntEmitScenario(c *Ctx, sc *fntScenario) {
	res := fntRunScenario(sc)
	if res.opLine != "" {
		c.Emit(res.opLine, res.implOut)
	}
	c.Case(res.opLine, res.allocs >= 2)
	c.Stat("alloc." + sc.Kind)
	switch {
	case res.allocs == 0:
		c.Stat("alloc.codes=0")
	case res.allocs < 16:
		c.Stat("alloc.codes<16")
	case res.allocs < 256:
		c.Stat("alloc.codes<256")
	default:
		c.Stat("alloc.codes=256")
	}
	if res.overflow {
		c.Stat("alloc.overflow-reached")
	}
	for _, o := range strings.Split(res.implOut, ";") {
		switch o {
		case "dup", "ovf", "nocid", "wdiff", "tdiff", "none":
			c.Stat("alloc.result." + o)
		}
	}
	if len(res.viols) > 0 {
		raw, _ := json.Marshal(sc)
		for _, v := range res.viols {
			if sc.Key != "" {
				v.key = sc.Key
			}
			c.Violate(v.oracle, v.key, v.desc, string(raw))
		}
	}
}

// fntNotdefHangs is set when the D27 probe finds that Encode(gid != 0, ".notdef", …) does not
// return; the generators then avoid that name so that the rest of the run can be evaluated.
var fntNotdefHangs bool

func runFntAlloc(c *Ctx) {
	fntProbeNotdefName(c)
	n := 500
	if c.Thorough {
		n = 6000
	}
	r := c.R.Fork()
	for i := 0; i < n; i++ {
		fntEmitScenario(c, fntGenSimple(r.Fork(), c.Thorough))
	}
	for i := 0; i < n; i++ {
		fntEmitScenario(c, fntGenUtf8(r.Fork()))
	}
	for i := 0; i < n; i++ {
		sc := fntGenFixed(r.Fork())
		if i%3 != 0 {
			// two thirds of the scenarios follow the protocol of the composite embedders and never
			// ask for a second text of a CID; the others do (oracle class fixed-code-shared-text)
			fntStripSecondTexts(sc)
		}
		fntEmitScenario(c, sc)
	}
	// the design limit of fixed CMaps: a second text for a CID shares the code
	sc := &fntScenario{Kind: "identity", W0: 500, Ops: []fntOp{
		{K: "G", ID: 5, Text: []byte("fi")}, {K: "E", ID: 5, Text: []byte("fi"), Width: 600},
		{K: "G", ID: 5, Text: []byte("\ufb01")}, {K: "E", ID: 5, Text: []byte("\ufb01"), Width: 600}}}
	fntEmitScenario(c, sc)
	// regression detector for D28 (fixed in 6288f11): a CMap that gives no code to CID 0 (the CJK
	// CMaps are of this kind); GetCode(0, ·) used to answer "code 0", the code of another CID
	fntEmitScenario(c, &fntScenario{Kind: "fixed", W0: 500, Key: "fixed-notdef-code",
		CSR: [][2]string{{"00", "80"}}, Ranges: []fntCRange{{"00", "0a", 2}},
		Ops: []fntOp{{K: "E", ID: 2, Text: []byte("b"), Width: 600}, {K: "G", ID: 0, Text: []byte("A")}, {K: "C", Text: []byte{0}}}})
	// utf8: behaviour at the end of the last private-use area (model and code agree; the
	// overflow is not sticky: three more codes are handed out after ErrOverflow, see notes)
	fntEmitScenario(c, &fntScenario{Kind: "utf8", W0: 500, PastEnd: true, Ops: []fntOp{
		{K: "P", ID: 0x10fffc}, {K: "E", ID: 1, Text: []byte("ab"), Width: 500}, {K: "E", ID: 2, Text: []byte("ab"), Width: 500},
		{K: "E", ID: 3, Text: []byte("ab"), Width: 500}, {K: "E", ID: 4, Text: []byte("ab"), Width: 500},
		{K: "E", ID: 5, Text: []byte("ab"), Width: 500}, {K: "C", Text: []byte("\U0010fffc\U0010fffe\U0010ffff\ufffd")}}})
	c.Sample("identity: GetCode(5,\"fi\") miss, Encode(5,\"fi\"), GetCode(5,\"\\ufb01\") -> same code (class fixed-code-shared-text)")
}

// fntProbeNotdefName (regression detector for D27, fixed in 2fa3edb): a glyph
// other than glyph 0 whose font-supplied name is ".notdef" (fonts with several
// .notdef glyphs exist).  names.IsValid accepts the name, it is in use for
// glyph 0, and every ".notdef.altN" is invalid (leading dot); before the fix
// the naming loop only ended when the name was longer than 31 bytes, after
// 10^20 iterations.  The call is made in a goroutine and given two seconds.
func fntProbeNotdefName(c *Ctx) {
	ok, detail := fntReplayNotdefName("")
	c.Case("probe notdef-name", true)
	if !ok {
		fntNotdefHangs = true
		c.Violate("fnt-simple-hang", "simple-glyphname-hang", detail, "")
	}
}

func fntReplayNotdefName(string) (bool, string) {
	done := make(chan error, 1)
	go func() {
		defer func() {
			if p := recover(); p != nil {
				done <- fmt.Errorf("panic: %v", p)
			}
		}()
		enc := simpleenc.NewSimple(500, "Test", &pdfenc.WinAnsi)
		_, err := enc.Encode(5, ".notdef", "x", 500)
		done <- err
	}()
	select {
	case err := <-done:
		return true, fmt.Sprintf("Encode(5, \".notdef\", \"x\", 500) returned (err=%v)", err)
	case <-time.After(2 * time.Second):
		return false, "simpleenc: Encode(gid=5, baseGlyphName=\".notdef\", text=\"x\", 500) does not return: makeGlyphName tries .notdef.alt1, .notdef.alt2, … which names.IsValid rejects, until the name exceeds 31 bytes (10^20 iterations)"
	}
}

package main

// C18, syntactic fact: the close order of a decoded stream's filter layers.  A layer may run a
// goroutine which reads from the layers below it (DCTDecode); those layers — among them the pooled
// zlib reader, which goes back into the package-level pool when closed — may therefore only be
// closed after the layer above has been closed (its Close waits for the goroutine).  The fact is
// re-extracted from container.go on every run: in (*sourceAwareReader).Close the call
// s.inner.Close() precedes the loop over s.lower and the loop runs with a decreasing index (lower
// is "innermost first"); the clean-up loop of DecodeStream runs with a decreasing index as well.
// Correspondence line `CONC closeorder` against `closeOrder` in Model/CONCProg.lean (theorem
// `close_order_outermost_first`); a deviation is the oracle violation `stream-close-order`.

import (
	"fmt"
	"go/ast"
	"go/parser"
	"go/token"
	"path/filepath"
	"sort"
	"strings"
)

func init() {
	addRun("C18", "close order of the filter layers of a decoded stream (container.go), re-extracted with go/ast: outermost layer first, the layers below with a decreasing index. One case.", runConcCloseOrder)
	addReplay("C18", "closeorder", func(string) (bool, string) {
		line, viol, err := concCloseOrder(concRepo())
		if err != nil {
			return false, err.Error()
		}
		return len(viol) == 0, strings.Join(append(viol, line), "\n")
	})
}

// loopDirection classifies `for i := …; cond; post` over a slice.
func concLoopDirection(fset *token.FileSet, f *ast.ForStmt) string {
	init, cond, post := concExprText(fset, f.Init), concExprText(fset, f.Cond), concExprText(fset, f.Post)
	switch {
	case strings.Contains(init, "len(") && strings.Contains(init, "-1") && strings.Contains(cond, ">=0") && strings.HasSuffix(post, "--"):
		return "decreasing"
	case strings.HasSuffix(init, ":=0") && strings.Contains(cond, "<len(") && strings.HasSuffix(post, "++"):
		return "increasing"
	}
	return "other(" + init + ";" + cond + ";" + post + ")"
}

func concCloseOrder(repo string) (string, []string, error) {
	fset := token.NewFileSet()
	af, err := parser.ParseFile(fset, filepath.Join(repo, "container.go"), nil, 0)
	if err != nil {
		return "", nil, err
	}
	var items, viol []string
	for _, d := range af.Decls {
		fd, ok := d.(*ast.FuncDecl)
		if !ok || fd.Body == nil {
			continue
		}
		switch {
		case fd.Recv != nil && concRecvName(fd.Recv) == "*sourceAwareReader" && fd.Name.Name == "Close":
			innerPos, loopPos, dir, deferred := token.NoPos, token.NoPos, "none", false
			ast.Inspect(fd.Body, func(n ast.Node) bool {
				switch x := n.(type) {
				case *ast.DeferStmt, *ast.GoStmt, *ast.FuncLit:
					// a deferred or detached s.inner.Close() does not run where it is written
					if strings.Contains(concExprText(fset, x), "s.inner.Close") {
						deferred = true
					}
				case *ast.CallExpr:
					if concExprText(fset, x.Fun) == "s.inner.Close" && innerPos == token.NoPos {
						innerPos = x.Pos()
					}
				case *ast.ForStmt:
					if strings.Contains(concExprText(fset, x), "s.lower") && loopPos == token.NoPos {
						loopPos = x.Pos()
						dir = concLoopDirection(fset, x)
					}
				case *ast.RangeStmt:
					if strings.Contains(concExprText(fset, x.X), "s.lower") && loopPos == token.NoPos {
						loopPos = x.Pos()
						dir = "range(increasing)"
					}
				}
				return true
			})
			order := "inner-missing"
			switch {
			case deferred:
				order = "inner-deferred"
			case innerPos != token.NoPos && (loopPos == token.NoPos || innerPos < loopPos):
				order = "inner-first"
			case innerPos != token.NoPos:
				order = "inner-last"
			}
			items = append(items, fmt.Sprintf("(*sourceAwareReader).Close:%s:lower-%s", order, dir))
			if order != "inner-first" || dir != "decreasing" {
				viol = append(viol, fmt.Sprintf("(*sourceAwareReader).Close closes the filter layers in the order %s / lower %s: a lower layer (e.g. the pooled zlib reader, which goes back into zlibReaderPool) is closed while the layer above it (DCTDecode runs a goroutine reading from it) is still open; the layers must be closed outermost first", order, dir))
			}
		case fd.Recv == nil && fd.Name.Name == "DecodeStream":
			dir := "none"
			ast.Inspect(fd.Body, func(n ast.Node) bool {
				switch x := n.(type) {
				case *ast.ForStmt:
					if strings.Contains(concExprText(fset, x.Body), "lower[i].Close") {
						dir = concLoopDirection(fset, x)
					}
				case *ast.RangeStmt:
					if strings.Contains(concExprText(fset, x.Body), ".Close()") && strings.Contains(concExprText(fset, x.X), "lower") {
						dir = "range(increasing)"
					}
				}
				return true
			})
			items = append(items, "DecodeStream.cleanup:lower-"+dir)
			if dir != "decreasing" {
				viol = append(viol, "the clean-up of DecodeStream closes the layers already built in the order "+dir+" (must be outermost first)")
			}
		}
	}
	sort.Strings(items)
	return strings.Join(items, " "), viol, nil
}

func runConcCloseOrder(c *Ctx) {
	line, viol, err := concCloseOrder(concRepo())
	if err != nil {
		c.Violate("closeorder", "inventory-extraction", "cannot read container.go: "+err.Error(), "")
		return
	}
	c.Case("close order", true)
	c.Emit("CONC closeorder", line)
	c.Sample("close order of filter layers: " + line)
	for _, v := range viol {
		c.Violate("closeorder", "stream-close-order", v, v)
	}
}

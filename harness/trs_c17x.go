package main

import (
	"bytes"
	"cmp"
	"errors"
	"fmt"
	"io"
	"strconv"
	"strings"

	"seehuhn.de/go/pdf"
)

// C17, values that live in a file: a tree value may be (or contain) a reference
// to an indirect object.  "Faithful dictionary" then means: what the value
// RESOLVES to is what was stored, in whichever file the tree ends up.
//
//   mode 0  tree written to file A, read there with the streaming reader, and
//           that reader value embedded into a second file B whose object
//           numbering is unrelated (pad objects first)
//   mode 1  tree written to a seekable Writer, read back from the still open
//           Writer and embedded into the same file a second time
//   mode 2  tree written to an encrypted seekable Writer; read through the
//           Writer before and after Close and through a Reader on the bytes

func init() {
	addRun("C17", "trees whose values are or contain references to indirect objects (reference, array with a reference, dictionary with a reference, two-step chains, mixed with direct values), 1..200 keys: (0) the streaming reader of file A embedded into a file B with 0..40 unrelated objects before it, (1) the reader of the open Writer embedded into the same file again, (2) an encrypted Writer read through itself before and after Close and through a Reader; every key looked up with both readers, values compared after resolving references in the file they are read from. Non-trivial from two keys; distinct by kind, size, pad, mode, seed.", runC17XFile)
	addReplay("C17", "xfile", replayC17XFile)
}

// trsMem is a seekable in-memory file (the library's own one is internal).
type trsMem struct {
	data []byte
	off  int64
}

func (f *trsMem) Write(p []byte) (int, error) {
	if f.off > int64(len(f.data)) {
		f.data = append(f.data, make([]byte, f.off-int64(len(f.data)))...)
	}
	n := copy(f.data[f.off:], p)
	f.data = append(f.data, p[n:]...)
	f.off += int64(len(p))
	return len(p), nil
}

func (f *trsMem) Read(p []byte) (int, error) {
	if f.off >= int64(len(f.data)) {
		return 0, io.EOF
	}
	n := copy(p, f.data[f.off:])
	f.off += int64(n)
	return n, nil
}

func (f *trsMem) ReadAt(p []byte, off int64) (int, error) {
	if off >= int64(len(f.data)) {
		return 0, io.EOF
	}
	n := copy(p, f.data[off:])
	if n < len(p) {
		return n, io.EOF
	}
	return n, nil
}

func (f *trsMem) Seek(offset int64, whence int) (int64, error) {
	n := offset
	switch whence {
	case io.SeekCurrent:
		n += f.off
	case io.SeekEnd:
		n += int64(len(f.data))
	}
	if n < 0 {
		return 0, errors.New("negative offset")
	}
	f.off = n
	return n, nil
}

type trsXCase struct {
	kind string
	n    int
	pad  int
	mode int
	seed uint64
}

func (x *trsXCase) encode() string {
	return fmt.Sprintf("%s|%d|%d|%d|%d", x.kind, x.n, x.pad, x.mode, x.seed)
}

// trsDeep prints an object with every reference replaced by what it points to
// in the file g.
func trsDeep(g pdf.Getter, o pdf.Object, depth int) string {
	if depth > 8 {
		return "..."
	}
	n, err := pdf.Resolve(g, o)
	if err != nil {
		return "!" + err.Error()
	}
	switch v := n.(type) {
	case nil:
		return "null"
	case pdf.Dict:
		var sb strings.Builder
		sb.WriteString("<<")
		for _, k := range v.SortedKeys() {
			sb.WriteString(" /" + string(k) + " " + trsDeep(g, v[k], depth+1))
		}
		sb.WriteString(" >>")
		return sb.String()
	case pdf.Array:
		parts := make([]string, len(v))
		for i, e := range v {
			parts[i] = trsDeep(g, e, depth+1)
		}
		return "[" + strings.Join(parts, " ") + "]"
	case pdf.String:
		return "(" + hexWire([]byte(v)) + ")"
	}
	return pdf.AsString(n)
}

// trsXValue builds the i-th value in w and returns it together with its
// resolved form.
func trsXValue(w *pdf.Writer, i int, sel int) (pdf.Object, string) {
	put := func(o pdf.Object) pdf.Reference {
		ref := w.Alloc()
		if err := w.Put(ref, o); err != nil {
			panic(err)
		}
		return ref
	}
	is := strconv.Itoa(i)
	payload := pdf.String("value of " + is)
	pstr := "(" + hexWire([]byte(payload)) + ")"
	switch sel % 7 {
	case 0:
		return put(pdf.Dict{"Payload": payload, "I": pdf.Integer(i)}), "<< /I " + is + " /Payload " + pstr + " >>"
	case 1:
		return pdf.Array{put(payload), pdf.Name("x"), pdf.Integer(i)}, "[" + pstr + " /x " + is + "]"
	case 2:
		return pdf.Dict{"Inner": put(pdf.Array{pdf.Integer(i)})}, "<< /Inner [" + is + "] >>"
	case 3:
		inner := put(pdf.Dict{"Leaf": pdf.Integer(i)})
		return put(pdf.Dict{"Next": inner, "S": payload}), "<< /Next << /Leaf " + is + " >> /S " + pstr + " >>"
	case 5: // the key is present, its value is the null object
		return nil, "null"
	case 6: // a nil Array is written as null
		return pdf.Array(nil), "null"
	}
	return pdf.Integer(i), is
}

func trsRunXCase[K cmp.Ordered](api *trsTreeAPI[K], x *trsXCase, keys []K) (fails []trsFail) {
	fail := func(key, format string, a ...any) {
		if len(fails) < 5 {
			fails = append(fails, trsFail{key, fmt.Sprintf(format, a...)})
		}
	}
	defer func() {
		if p := recover(); p != nil {
			fail("panic", "panic: %v", p)
		}
	}()
	r := &Rand{s: x.seed ^ 0x9e3779b97f4a7c15}
	sels := make([]int, len(keys))
	for i := range sels {
		sels[i] = r.Intn(7)
	}
	finish := func(w *pdf.Writer) {
		pages := w.Alloc()
		if err := w.Put(pages, pdf.Dict{"Type": pdf.Name("Pages"), "Kids": pdf.Array{}, "Count": pdf.Integer(0)}); err != nil {
			panic(err)
		}
		w.GetMeta().Catalog.Pages = pages
		if err := w.Close(); err != nil {
			panic(err)
		}
	}
	want := make([]string, len(keys))
	writeTree := func(w *pdf.Writer) (pdf.Reference, error) {
		vals := make([]pdf.Object, len(keys))
		for i := range keys {
			vals[i], want[i] = trsXValue(w, i, sels[i])
		}
		return api.write(w, func(yield func(K, pdf.Object) bool) {
			for i, k := range keys {
				if !yield(k, vals[i]) {
					return
				}
			}
		})
	}
	// check compares the tree at root, read through g, with the stored values.
	check := func(key, where string, g pdf.Getter, root pdf.Object) {
		stream, err1 := api.fromFile(g, root)
		mem, err2 := api.inMemory(g, root)
		if err1 != nil || err2 != nil {
			fail(key, "%s: extract failed: %v / %v", where, err1, err2)
			return
		}
		for ri, rd := range []trsTreeReader[K]{stream, mem} {
			name := []string{"FromFile", "InMemory"}[ri]
			i := 0
			for k, v := range rd.All() {
				if i >= len(keys) || k != keys[i] {
					fail(key, "%s: %s.All() entry %d is key %s, not the stored one", where, name, i, api.tok(k))
					return
				}
				if got := trsDeep(g, v, 0); got != want[i] {
					fail(key, "%s: %s.All() key %s resolves to %s, stored was %s", where, name, api.tok(k), truncate(got), truncate(want[i]))
					return
				}
				i++
			}
			if i != len(keys) {
				fail(key, "%s: %s.All() yields %d of %d keys", where, name, i, len(keys))
				return
			}
			for i, k := range keys {
				v, err := rd.Lookup(k)
				if err != nil {
					fail(key, "%s: %s.Lookup(%s): %v", where, name, api.tok(k), err)
					return
				}
				if got := trsDeep(g, v, 0); got != want[i] {
					fail(key, "%s: %s.Lookup(%s) resolves to %s, stored was %s", where, name, api.tok(k), truncate(got), truncate(want[i]))
					return
				}
			}
		}
	}
	open := func(data []byte) *pdf.Reader {
		rd, err := pdf.NewReader(bytes.NewReader(data), int64(len(data)), nil)
		if err != nil {
			panic(err)
		}
		return rd
	}

	switch x.mode {
	case 0:
		bufA := &bytes.Buffer{}
		wA, err := pdf.NewWriter(bufA, pdf.V1_7, nil)
		if err != nil {
			panic(err)
		}
		rootA, err := writeTree(wA)
		if err != nil {
			fail("write-error", "Write: %v", err)
			return
		}
		finish(wA)
		rdA := open(bufA.Bytes())
		defer rdA.Close()
		check("embed-crossfile-source", "source file", rdA, rootA)
		if len(fails) > 0 {
			return
		}

		bufB := &bytes.Buffer{}
		wB, err := pdf.NewWriter(bufB, pdf.V1_7, nil)
		if err != nil {
			panic(err)
		}
		for i := 0; i < x.pad; i++ {
			if err := wB.Put(wB.Alloc(), pdf.Dict{"Unrelated": pdf.Integer(i)}); err != nil {
				panic(err)
			}
		}
		rm := pdf.NewResourceManager(wB)
		nat, err := api.embedFile(rm, rdA, rootA)
		if err == nil {
			err = rm.Close()
		}
		if err != nil {
			fail("embed-crossfile-error", "FromFile.Embed into a second file: %v", err)
			return
		}
		finish(wB)
		rdB := open(bufB.Bytes())
		defer rdB.Close()
		check("embed-crossfile-value", "tree of file A embedded into file B", rdB, nat)
	case 1:
		mf := &trsMem{}
		w, err := pdf.NewWriter(mf, pdf.V1_7, nil)
		if err != nil {
			panic(err)
		}
		for i := 0; i < x.pad; i++ {
			if err := w.Put(w.Alloc(), pdf.Dict{"Unrelated": pdf.Integer(i)}); err != nil {
				panic(err)
			}
		}
		root1, err := writeTree(w)
		if err != nil {
			fail("write-error", "Write: %v", err)
			return
		}
		check("open-writer-read", "open Writer", w, root1)
		rm := pdf.NewResourceManager(w)
		nat, err := api.embedFile(rm, w, root1)
		if err == nil {
			err = rm.Close()
		}
		if err != nil {
			fail("embed-samefile-error", "FromFile.Embed into the file it reads from: %v", err)
			return
		}
		finish(w)
		rd := open(mf.data)
		defer rd.Close()
		check("embed-samefile-value", "first tree", rd, root1)
		check("embed-samefile-value", "tree embedded into its own file", rd, nat)
	case 2:
		mf := &trsMem{}
		vers := []pdf.Version{pdf.V1_3, pdf.V1_6, pdf.V2_0}
		w, err := pdf.NewWriter(mf, vers[x.pad%3], &pdf.WriterOptions{OwnerPassword: "secret", UserPermissions: pdf.PermAll})
		if err != nil {
			panic(err)
		}
		root, err := writeTree(w)
		if err != nil {
			fail("write-error", "Write: %v", err)
			return
		}
		check("open-writer-read", "encrypted Writer before Close", w, root)
		finish(w)
		rd := open(mf.data)
		defer rd.Close()
		check("encrypted-file-read", "Reader on the encrypted file", rd, root)
		check("closed-writer-read", "encrypted Writer after Close", w, root)
	}
	return fails
}

func trsXDispatch(x *trsXCase) []trsFail {
	r := &Rand{s: x.seed}
	if x.kind == "name" {
		return trsRunXCase(&trsNameAPI, x, trsGenNames(r, x.n))
	}
	return trsRunXCase(&trsNumAPI, x, trsGenNums(r, x.n))
}

func replayC17XFile(input string) (bool, string) {
	parts := strings.Split(input, "|")
	if len(parts) != 5 {
		return true, "bad replay input"
	}
	x := &trsXCase{kind: parts[0]}
	var e1, e2, e3, e4 error
	x.n, e1 = strconv.Atoi(parts[1])
	x.pad, e2 = strconv.Atoi(parts[2])
	x.mode, e3 = strconv.Atoi(parts[3])
	x.seed, e4 = strconv.ParseUint(parts[4], 10, 64)
	if e1 != nil || e2 != nil || e3 != nil || e4 != nil || (x.kind != "name" && x.kind != "num") {
		return true, "bad replay input"
	}
	fails := trsXDispatch(x)
	if len(fails) > 0 {
		return false, fails[0].key + ": " + fails[0].desc
	}
	return true, "values resolve to what was stored"
}

func runC17XFile(c *Ctx) {
	r := c.R
	n := 90
	if c.Thorough {
		n = 900
	}
	for i := 0; i < n; i++ {
		x := &trsXCase{kind: "name", mode: i % 3, seed: r.U64()}
		if r.Bool() {
			x.kind = "num"
		}
		switch {
		case i < 6:
			x.n = 1 + i/3 // the smallest trees first
		case r.P(1, 5):
			x.n = 60 + r.Intn(140) // more than one leaf
		default:
			x.n = 1 + r.Intn(12)
		}
		x.pad = r.Intn(41)
		fails := trsXDispatch(x)
		enc := x.encode()
		c.Case("x:"+enc, x.n >= 2)
		c.Stat([]string{"embed_into_second_file", "embed_into_same_file", "encrypted_writer_read_back"}[x.mode])
		for _, f := range fails {
			c.Violate("xfile", f.key, f.desc, enc)
		}
	}
}

// Command harness drives the real go-pdf code (built from VERIF_REPO with
// -tags verif) for the correspondence runs and the property oracles.
//
//	harness -prop C01 -seed 1 -tier quick -out DIR     generate, run impl, write ops.txt/impl.out/report.json
//	harness -prop C01 -replay FILE                      re-run one recorded case against the real code
//	harness -canon C01 < model.out                      canonicalise model output (strconv on real tokens)
package main

import (
	"bufio"
	"encoding/json"
	"flag"
	"fmt"
	"os"
	"path/filepath"
	"sort"
	"strings"
	"time"
)

type Violation struct {
	Oracle string `json:"oracle"` // name of the oracle that failed
	Key    string `json:"key"`    // class key for KNOWN_FINDINGS matching
	Desc   string `json:"desc"`
	Input  string `json:"input"` // replayable input (oracle specific)
}

type Report struct {
	Property           string         `json:"property"`
	Seed               uint64         `json:"seed"`
	Tier               string         `json:"tier"`
	Evaluations        int            `json:"evaluations"`
	DistinctNontrivial int            `json:"distinct_nontrivial"`
	Rule               string         `json:"rule"`
	Samples            []string       `json:"samples"`
	Stats              map[string]int `json:"stats"`
	Violations         []Violation    `json:"violations"`
	Exhaustive         bool           `json:"exhaustive"`
	WallS              float64        `json:"wall_s"`
	OpsLines           int            `json:"ops_lines"`
}

type Ctx struct {
	R        *Rand
	Tier     string
	Thorough bool
	ops      *bufio.Writer
	impl     *bufio.Writer
	rep      *Report
	distinct map[string]struct{}
	viol     map[string]int
}

// Emit records one correspondence line: the operation sent to the model and
// the canonical result of the implementation.
func (c *Ctx) Emit(op, implOut string) {
	if strings.ContainsAny(op, "\n\r") || strings.ContainsAny(implOut, "\n\r") {
		panic("newline in protocol line")
	}
	fmt.Fprintln(c.ops, op)
	fmt.Fprintln(c.impl, implOut)
	c.rep.OpsLines++
}

// Case counts one evaluated case; nontrivial says whether it counts by the
// property's rule, key identifies it for distinctness.
func (c *Ctx) Case(key string, nontrivial bool) {
	c.rep.Evaluations++
	if nontrivial {
		if len(c.distinct) < 5_000_000 {
			c.distinct[key] = struct{}{}
		}
	}
}

func (c *Ctx) Stat(name string) { c.rep.Stats[name]++ }
func (c *Ctx) StatN(name string, n int) { c.rep.Stats[name] += n }

func (c *Ctx) Sample(s string) {
	if len(c.rep.Samples) < 12 {
		if len(s) > 400 {
			s = s[:400] + "…"
		}
		c.rep.Samples = append(c.rep.Samples, s)
	}
}

// Violate records a failure of a property oracle on the implementation.
func (c *Ctx) Violate(oracle, key, desc, input string) {
	c.viol[key]++
	if c.viol[key] > 3 || len(c.rep.Violations) >= 40 {
		return
	}
	c.rep.Violations = append(c.rep.Violations, Violation{oracle, key, desc, input})
}

// Prop is one property's harness: several independently written generator
// runs (each may emit correspondence lines and evaluate oracles) and the
// replay functions of its oracles.
type Prop struct {
	Rules   []string
	Runs    []func(c *Ctx)
	Replays map[string]func(input string) (ok bool, detail string)
	Canon   func(line string) string // optional canonicaliser for model output lines
}

var props = map[string]*Prop{}

func prop(id string) *Prop {
	p, ok := props[id]
	if !ok {
		p = &Prop{Replays: map[string]func(string) (bool, string){}}
		props[id] = p
	}
	return p
}

// addRun registers a generator run for a property; rule describes how its
// cases are generated and what makes one non-trivial/distinct.
func addRun(id, rule string, run func(c *Ctx)) {
	p := prop(id)
	p.Rules = append(p.Rules, rule)
	p.Runs = append(p.Runs, run)
}

// addReplay registers the replay function of a named oracle.
func addReplay(id, oracle string, f func(input string) (bool, string)) {
	prop(id).Replays[oracle] = f
}

func setCanon(id string, f func(string) string) { prop(id).Canon = f }

func main() {
	propID := flag.String("prop", "", "property id")
	seed := flag.Uint64("seed", 1, "seed")
	tier := flag.String("tier", "quick", "quick|thorough")
	out := flag.String("out", "", "output directory")
	replay := flag.String("replay", "", "replay file")
	canon := flag.String("canon", "", "canonicalise model output for property")
	flag.Parse()

	if *canon != "" {
		p := props[*canon]
		sc := bufio.NewScanner(os.Stdin)
		sc.Buffer(make([]byte, 1<<20), 1<<28)
		w := bufio.NewWriter(os.Stdout)
		for sc.Scan() {
			l := sc.Text()
			if p != nil && p.Canon != nil {
				l = p.Canon(l)
			}
			fmt.Fprintln(w, l)
		}
		w.Flush()
		return
	}

	p, ok := props[*propID]
	if !ok {
		var ids []string
		for k := range props {
			ids = append(ids, k)
		}
		sort.Strings(ids)
		fmt.Fprintf(os.Stderr, "unknown property %q (have %v)\n", *propID, ids)
		os.Exit(2)
	}

	if *replay != "" {
		raw, err := os.ReadFile(*replay)
		if err != nil {
			fmt.Fprintln(os.Stderr, err)
			os.Exit(2)
		}
		var rf struct {
			Oracle string `json:"oracle"`
			Input  string `json:"input"`
		}
		if err := json.Unmarshal(raw, &rf); err != nil {
			fmt.Fprintln(os.Stderr, err)
			os.Exit(2)
		}
		rp := p.Replays[rf.Oracle]
		if rp == nil {
			fmt.Println("replay: nothing to run against the implementation for this record (it names a theorem, translation or correspondence line)")
			os.Exit(3)
		}
		ok, detail := rp(rf.Input)
		fmt.Println(detail)
		if ok {
			fmt.Println("replay: property holds on this input")
			os.Exit(0)
		}
		fmt.Println("replay: property FAILS on this input")
		os.Exit(1)
	}

	if err := os.MkdirAll(*out, 0o755); err != nil {
		panic(err)
	}
	opsF, _ := os.Create(filepath.Join(*out, "ops.txt"))
	implF, _ := os.Create(filepath.Join(*out, "impl.out"))
	c := &Ctx{
		R:        NewRand(*seed),
		Tier:     *tier,
		Thorough: *tier == "thorough",
		ops:      bufio.NewWriterSize(opsF, 1<<20),
		impl:     bufio.NewWriterSize(implF, 1<<20),
		rep:      &Report{Property: *propID, Seed: *seed, Tier: *tier, Rule: strings.Join(p.Rules, " || "), Stats: map[string]int{}, Samples: []string{}, Violations: []Violation{}},
		distinct: map[string]struct{}{},
		viol:     map[string]int{},
	}
	t0 := time.Now()
	for _, run := range p.Runs {
		run(c)
	}
	c.ops.Flush()
	c.impl.Flush()
	opsF.Close()
	implF.Close()
	c.rep.DistinctNontrivial = len(c.distinct)
	c.rep.WallS = time.Since(t0).Seconds()
	raw, _ := json.MarshalIndent(c.rep, "", " ")
	os.WriteFile(filepath.Join(*out, "report.json"), raw, 0o644)
}

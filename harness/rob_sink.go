package main

import (
	"bufio"
	"fmt"
	"strconv"
	"strings"
)

// bufio.Writer over a scripted sink: correspondence lines "ROB sink …" for
// Model/ROBSink.lean (the standard library is trusted; these lines validate
// the model of it) and the sink_fault oracle on bufio itself.

type scriptSink struct {
	script []countCode
	calls  int
	out    int
	failed bool
}

func (s *scriptSink) Write(p []byte) (int, error) {
	k := s.calls
	s.calls++
	if k >= len(s.script) {
		s.out += len(p)
		return len(p), nil
	}
	n := min(s.script[k].n, len(p))
	s.out += n
	if s.script[k].code == 'f' {
		s.failed = true
		return n, errInjected
	}
	// a short write without error is reported by bufio (io.ErrShortWrite) only
	// on its Flush path; the oracle counts explicit errors only
	return n, nil
}

func robSinkRun(c *Ctx) {
	r := c.R.Fork()
	n := 600
	if c.Thorough {
		n = 10000
	}
	for i := 0; i < n; i++ {
		size := Pick(r, []int{1, 2, 16, 16, 64, 4096})
		var script []string
		ns := r.Intn(5)
		for j := 0; j < ns; j++ {
			if r.P(1, 3) {
				script = append(script, fmt.Sprintf("%df", Pick(r, []int{0, 1, 3, 15, 100000})))
			} else {
				script = append(script, fmt.Sprintf("%dn", Pick(r, []int{1, 5, 100000, 100000})))
			}
		}
		var writes []string
		nw := 1 + r.Intn(6)
		for j := 0; j < nw; j++ {
			writes = append(writes, strconv.Itoa(Pick(r, []int{0, 1, 5, 15, 16, 17, 40, 5000})))
		}
		sc := "-"
		if len(script) > 0 {
			sc = strings.Join(script, ",")
		}
		line := fmt.Sprintf("ROB sink %d %s %s", size, sc, strings.Join(writes, ","))
		sink := &scriptSink{}
		for _, s := range script {
			sink.script = append(sink.script, parseCountCode(s))
		}
		bw := bufio.NewWriterSize(sink, size)
		var res []string
		for _, w := range writes {
			ln, _ := strconv.Atoi(w)
			p := make([]byte, ln)
			for k := range p {
				p[k] = 7
			}
			_, err := bw.Write(p)
			res = append(res, "w:"+errClass(err))
		}
		ferr := bw.Flush()
		c.Emit(line, fmt.Sprintf("%s f:%s out=%d calls=%d", strings.Join(res, " "), errClass(ferr), sink.out, sink.calls))
		c.Case(line, sink.failed)
		if sink.failed {
			c.Stat("sink_failed")
			if ferr == nil {
				c.Violate("sink", "C19-bufio-final-flush-silent", "the sink failed but the final Flush returned nil: "+line, line)
			}
		} else {
			c.Stat("sink_ok")
		}
	}
}

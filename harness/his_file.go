package main

import (
	"bytes"
	"compress/zlib"
	"fmt"
	"sort"
	"strings"

	"seehuhn.de/go/pdf"
)

// Independent serialiser, part 2: file structure (ISO 32000-2 §7.5).
//
// A plan says, revision by revision, which objects are defined or freed and
// how the revision's cross-reference data is laid out; build renders it —
// header (optionally after junk), object bodies, object streams, classic
// tables with subsections, cross-reference streams with /Index and any /W
// (deflated with compress/zlib, optionally with the PNG "Up" predictor),
// hybrid files (/XRefStm), /Prev chains, generation bumps — and returns the
// bytes together with the history in the vocabulary of the reference
// semantics (Spec/HISHistory.lean and specGetGo below).

// ---- values ----

type hisStream struct {
	Dict pdf.Dict // without /Length
	Data []byte   // the raw bytes between "stream" EOL and EOL "endstream"
}

type hisVal struct {
	Obj pdf.Object
	Stm *hisStream
	// Raw, if not nil, is the exact text written for an object-stream member (Obj is what it denotes);
	// Tight suppresses the white space in front of the member
	Raw   []byte
	Tight bool
	// Lead: bytes written in front of a Tight member (they count into its offset);
	// IdxTail (first member only): if not nil, the exact bytes between the last index pair and
	// /First — "" puts /First directly behind the last digit of the index
	Lead    []byte
	IdxTail *string
}

func (v hisVal) token() string {
	if v.Stm != nil {
		return "S" + wireNorm(v.Stm.Dict) + "#" + hexWire(v.Stm.Data)
	}
	return wireNorm(v.Obj)
}

// ---- plan ----

const (
	hisTable = iota
	hisStreamKind
	hisHybrid
)

type hisAction struct {
	Num        int
	Free       bool
	Val        hisVal
	Compressed bool // put into an object stream (stream/hybrid revisions, generation 0 only)
	Hidden     bool // hybrid: list the (uncompressed) object in the /XRefStm section
	LenMode    int  // streams: 0 direct /Length, 1 indirect /Length, 2 no /Length, 3 the wrong value WrongLen, 4 the object LenObj
	WrongLen   int
	LenObj     pdf.Object
	EndEOL     string // streams: the EOL before endstream ("" = chosen at random, possibly none)
}

type hisRevPlan struct {
	Kind    int
	Actions []hisAction
	Full    bool // the section repeats the current entry of every object number below /Size
	Trailer pdf.Dict
}

type hisPlan struct {
	Version string
	Junk    []byte
	Revs    []hisRevPlan
}

// ---- history in the vocabulary of the specification ----

type hisEntry struct {
	Num  int
	Free bool
	Gen  int
	Val  hisVal
	// layout
	InStm int // object number of the containing object stream, 0 = none
	Idx   int
	Off   int // offset relative to the header for uncompressed objects
}

type hisRev struct {
	Kind    int
	Main    []hisEntry
	Stm     []hisEntry
	HasStm  bool
	Trailer pdf.Dict // the entries of this revision's trailer that a reader hands on
}

type hisFile struct {
	Bytes   []byte
	Hdr     int
	Revs    []hisRev
	MaxNum  int
	MaxGen  int
	Decoded map[int][]byte // absolute offset of stream data -> decoded (filters undone) bytes, for streams with /Filter
	DataAt  map[int]int    // object number -> absolute offset of its stream data (last write)
	ObjAt   map[int]int    // object number -> absolute offset of "N G obj" (last write)
	Notes   []string
}

func hisEntryToken(e hisEntry) string {
	if e.Free {
		return fmt.Sprintf("%d:f%d", e.Num, e.Gen)
	}
	return fmt.Sprintf("%d:d%d:%s", e.Num, e.Gen, e.Val.token())
}

func hisSectionToken(es []hisEntry) string {
	if len(es) == 0 {
		return "-"
	}
	parts := make([]string, len(es))
	for i, e := range es {
		parts[i] = hisEntryToken(e)
	}
	return strings.Join(parts, "|")
}

// historyToken is the wire form of the history for the Lean driver.
func (f *hisFile) historyToken() string {
	parts := make([]string, len(f.Revs))
	for i, r := range f.Revs {
		parts[i] = hisSectionToken(r.Main)
		if r.HasStm {
			parts[i] += "~" + hisSectionToken(r.Stm)
		}
	}
	return strings.Join(parts, "/")
}

// specGetGo is the Go copy of the reference semantics: apply the sections
// oldest first (within a hybrid revision the /XRefStm section before the
// table), each overriding the state; n g R denotes the object iff the newest
// entry is a definition with generation g.
func specGetGo(revs []hisRev, n, g int) string {
	type st struct {
		free bool
		gen  int
		val  string
	}
	state := map[int]st{}
	apply := func(es []hisEntry) {
		seen := map[int]bool{}
		for _, e := range es {
			if seen[e.Num] {
				continue // a section is a finite map: the first pair for a number is its entry
			}
			seen[e.Num] = true
			if e.Free {
				state[e.Num] = st{free: true, gen: e.Gen}
			} else {
				state[e.Num] = st{gen: e.Gen, val: e.Val.token()}
			}
		}
	}
	for _, r := range revs {
		if r.HasStm {
			apply(r.Stm)
		}
		apply(r.Main)
	}
	s, ok := state[n]
	if !ok || s.free || s.gen != g {
		return "z"
	}
	return s.val
}

// ---- builder ----

type hisBuilder struct {
	r   *Rand
	rd  *hisRenderer
	buf bytes.Buffer
	hdr int
	f   *hisFile

	curGen  map[int]int  // generation an object has (or will have when defined next)
	inUse   map[int]bool // currently defined
	current map[int]hisEntry
	nextNum int
	stat    func(string)

	pendingDecoded map[int][]byte // object number -> decoded data, until the object is written
	noFilter       bool
}

type hisStmOpts struct {
	lenMode  int
	lenRef   pdf.Reference
	wrongLen int
	lenObj   pdf.Object
	endEOL   string
}

func (b *hisBuilder) st(s string) {
	if b.stat != nil {
		b.stat(s)
	}
}

func (b *hisBuilder) off() int { return b.buf.Len() - b.hdr }

func (b *hisBuilder) alloc() int {
	n := b.nextNum
	b.nextNum++
	return n
}

func hisDeflate(data []byte) []byte {
	var out bytes.Buffer
	w := zlib.NewWriter(&out)
	w.Write(data)
	w.Close()
	return out.Bytes()
}

// hisPNGUp applies the PNG "Up" predictor (§7.4.4.4, tag byte 2 per row).
func hisPNGUp(data []byte, cols int) []byte {
	var out []byte
	prev := make([]byte, cols)
	for i := 0; i+cols <= len(data); i += cols {
		row := data[i : i+cols]
		out = append(out, 2)
		for j := range row {
			out = append(out, row[j]-prev[j])
		}
		prev = row
	}
	return out
}

// writeObject writes "N G obj … endobj" on a new line and returns its offset.
func (b *hisBuilder) writeObject(num, gen int, v hisVal, so hisStmOpts) int {
	b.buf.Write(b.rd.ws(false))
	if b.buf.Len() > 0 {
		last := b.buf.Bytes()[b.buf.Len()-1]
		if last != '\n' && last != '\r' {
			b.buf.Write(b.rd.eol())
		}
	}
	return b.writeObjectAt(num, gen, v, so)
}

// writeObjectAt writes the object starting at the current position.
func (b *hisBuilder) writeObjectAt(num, gen int, v hisVal, so hisStmOpts) int {
	off := b.off()
	b.f.ObjAt[num] = b.buf.Len()
	b.buf.Write(b.rd.join(b.rd.integer(int64(num)), b.rd.integer(int64(gen)), []byte("obj")))
	if v.Stm == nil {
		body := b.rd.obj(v.Obj)
		b.buf.Write(b.rd.ws(hisStartsRegular(body)))
		b.buf.Write(body)
		b.buf.Write(b.rd.ws(hisEndsRegular(body)))
		b.buf.WriteString("endobj")
		b.buf.Write(b.rd.eol())
		return off
	}
	d := pdf.Dict{}
	for k, val := range v.Stm.Dict {
		d[k] = val
	}
	switch so.lenMode {
	case 0:
		d["Length"] = pdf.Integer(len(v.Stm.Data))
	case 1:
		d["Length"] = so.lenRef
	case 3:
		d["Length"] = pdf.Integer(so.wrongLen)
	case 4:
		d["Length"] = so.lenObj
	}
	b.buf.Write(b.rd.ws(false))
	b.buf.Write(b.rd.obj(d))
	b.buf.Write(b.rd.ws(false))
	b.buf.WriteString("stream")
	if b.rd.plain || b.r.Bool() {
		b.buf.WriteString("\n")
	} else {
		b.buf.WriteString("\r\n")
	}
	dataAt := b.buf.Len()
	b.f.DataAt[num] = dataAt
	b.buf.Write(v.Stm.Data)
	if dec, ok := b.pendingDecoded[num]; ok {
		b.f.Decoded[dataAt] = dec
		delete(b.pendingDecoded, num)
	}
	// the EOL before endstream is recommended, not required, when /Length is right
	switch k := b.r.Intn(8); {
	case so.endEOL != "":
		b.buf.WriteString(so.endEOL)
	case b.rd.plain || k < 3:
		b.buf.WriteString("\n")
	case k < 5:
		b.buf.WriteString("\r\n")
	case k < 7:
		b.buf.WriteString("\r")
	default:
		b.st("stream_no_eol_before_endstream")
	}
	b.buf.WriteString("endstream")
	b.buf.Write(b.rd.ws(false))
	if last := b.buf.Bytes()[b.buf.Len()-1]; hisIsRegular(last) {
		b.buf.Write(b.rd.eol())
	}
	b.buf.WriteString("endobj")
	b.buf.Write(b.rd.eol())
	return off
}

// minimal number of bytes to hold x
func hisWidth(x int) int {
	w := 0
	for x > 0 {
		w++
		x >>= 8
	}
	return w
}

func hisBE(x, w int) []byte {
	out := make([]byte, w)
	for i := w - 1; i >= 0; i-- {
		out[i] = byte(x)
		x >>= 8
	}
	return out
}

// subsections splits sorted entries into runs of consecutive numbers, and
// some of the runs further.
func (b *hisBuilder) subsections(es []hisEntry) [][]hisEntry {
	var out [][]hisEntry
	for i := 0; i < len(es); {
		j := i + 1
		for j < len(es) && es[j].Num == es[j-1].Num+1 && (b.rd.plain || !b.r.P(1, 5)) {
			j++
		}
		out = append(out, es[i:j])
		i = j
	}
	return out
}

func hisSortEntries(es []hisEntry) []hisEntry {
	out := append([]hisEntry(nil), es...)
	sort.SliceStable(out, func(i, j int) bool { return out[i].Num < out[j].Num })
	return out
}

// writeTable writes "xref … trailer << … >>" and returns the offset of "xref".
func (b *hisBuilder) writeTable(es []hisEntry, trailer pdf.Dict) int {
	last := byte('\n')
	if b.buf.Len() > 0 {
		last = b.buf.Bytes()[b.buf.Len()-1]
	}
	if last != '\n' && last != '\r' {
		b.buf.Write(b.rd.eol())
	}
	off := b.off()
	b.buf.WriteString("xref")
	b.buf.Write(b.rd.eol())
	for _, sub := range b.subsections(hisSortEntries(es)) {
		fmt.Fprintf(&b.buf, "%d %d", sub[0].Num, len(sub))
		b.buf.Write(b.rd.eol())
		for _, e := range sub {
			// exactly 20 bytes: 10 digits, SP, 5 digits, SP, n|f, 2-byte EOL (SP LF, SP CR or CR LF)
			var eol string
			switch b.r.Intn(3) {
			case 0:
				eol = " \n"
			case 1:
				eol = "\r\n"
			default:
				eol = " \r"
			}
			if b.rd.plain {
				eol = " \n"
			}
			if e.Free {
				next := 0
				fmt.Fprintf(&b.buf, "%010d %05d f%s", next, e.Gen, eol)
			} else {
				fmt.Fprintf(&b.buf, "%010d %05d n%s", e.Off, e.Gen, eol)
			}
		}
	}
	b.buf.WriteString("trailer")
	tb := b.rd.obj(trailer)
	b.buf.Write(b.rd.ws(false))
	b.buf.Write(tb)
	b.buf.Write(b.rd.eol())
	return off
}

// xrefStreamValue builds the cross-reference stream object for the entries
// (which must already contain the entry of the stream itself, with its
// offset) and returns it with the decoded form of its data.
func (b *hisBuilder) xrefStreamValue(es []hisEntry, dict pdf.Dict, size int) (hisVal, []byte) {
	es = hisSortEntries(es)
	allType1 := true
	max2, max3 := 0, 0
	for _, e := range es {
		var f2, f3 int
		switch {
		case e.Free:
			allType1 = false
			f3 = e.Gen
		case e.InStm != 0:
			allType1 = false
			f2, f3 = e.InStm, e.Idx
		default:
			f2, f3 = e.Off, e.Gen
		}
		if f2 > max2 {
			max2 = f2
		}
		if f3 > max3 {
			max3 = f3
		}
	}
	w0 := 1
	if !b.rd.plain {
		if allType1 && b.r.P(1, 3) {
			w0 = 0 // a missing type field defaults to type 1
			b.st("xrefstm_w0_zero")
		} else if b.r.P(1, 6) {
			w0 = 2
		}
	}
	w1 := hisWidth(max2)
	w2 := hisWidth(max3)
	if w1 == 0 {
		w1 = 1
	}
	if !b.rd.plain {
		w1 += Pick(b.r, []int{0, 0, 0, 1, 2, 8 - w1})
		if w1 > 8 {
			w1 = 8
		}
		if w2 == 0 && b.r.Bool() {
			b.st("xrefstm_w2_zero") // a missing third field defaults to 0
		} else {
			if w2 == 0 {
				w2 = 1
			}
			w2 += Pick(b.r, []int{0, 0, 1, 3})
		}
	} else if w2 == 0 {
		w2 = 1
	}
	var raw []byte
	for _, e := range es {
		tp, f2, f3 := 1, e.Off, e.Gen
		if e.Free {
			tp, f2, f3 = 0, 0, e.Gen
		} else if e.InStm != 0 {
			tp, f2, f3 = 2, e.InStm, e.Idx
		}
		raw = append(raw, hisBE(tp, w0)...)
		raw = append(raw, hisBE(f2, w1)...)
		raw = append(raw, hisBE(f3, w2)...)
	}
	d := pdf.Dict{"Type": pdf.Name("XRef"), "Size": pdf.Integer(size),
		"W": pdf.Array{pdf.Integer(w0), pdf.Integer(w1), pdf.Integer(w2)}}
	for k, v := range dict {
		d[k] = v
	}
	// /Index: omitted only if the entries are exactly 0 … Size-1
	contiguous := len(es) == size
	for i, e := range es {
		if e.Num != i {
			contiguous = false
		}
	}
	if !contiguous || (!b.rd.plain && b.r.Bool()) {
		var idx pdf.Array
		for _, sub := range b.subsections(es) {
			idx = append(idx, pdf.Integer(sub[0].Num), pdf.Integer(len(sub)))
		}
		d["Index"] = idx
		if len(idx) > 2 {
			b.st("xrefstm_index_multi")
		}
	} else {
		b.st("xrefstm_no_index")
	}
	data := raw
	switch k := b.r.Intn(4); {
	case b.rd.plain || b.noFilter || k == 0:
		// no filter
	case k == 1 || k == 2:
		d["Filter"] = pdf.Name("FlateDecode")
		data = hisDeflate(raw)
		b.st("xrefstm_flate")
	default:
		cols := w0 + w1 + w2
		d["Filter"] = pdf.Array{pdf.Name("FlateDecode")}
		d["DecodeParms"] = pdf.Array{pdf.Dict{"Predictor": pdf.Integer(12), "Columns": pdf.Integer(cols)}}
		data = hisDeflate(hisPNGUp(raw, cols))
		b.st("xrefstm_flate_pngup")
	}
	return hisVal{Stm: &hisStream{Dict: d, Data: data}}, raw
}

// objStmValue packs objects into an object stream.
func (b *hisBuilder) objStmValue(members []hisEntry) (hisVal, []byte) {
	var body bytes.Buffer
	offs := make([]int, len(members))
	for i, m := range members {
		if !m.Val.Tight {
			body.Write(b.rd.ws(false))
			if i > 0 && body.Len() > 0 && hisIsRegular(body.Bytes()[body.Len()-1]) {
				body.WriteByte(' ')
			}
		}
		if m.Val.Tight {
			body.Write(m.Val.Lead)
		}
		offs[i] = body.Len()
		if m.Val.Raw != nil {
			body.Write(m.Val.Raw)
		} else {
			body.Write(b.rd.obj(m.Val.Obj))
		}
	}
	var head bytes.Buffer
	for i, m := range members {
		head.Write(b.rd.join(b.rd.integer(int64(m.Num)), b.rd.integer(int64(offs[i]))))
		if i == len(members)-1 && members[0].Val.IdxTail != nil {
			head.WriteString(*members[0].Val.IdxTail)
			continue
		}
		head.WriteByte(' ')
		head.Write(b.rd.ws(false))
	}
	first := head.Len()
	raw := append(head.Bytes(), body.Bytes()...)
	d := pdf.Dict{"Type": pdf.Name("ObjStm"), "N": pdf.Integer(len(members)), "First": pdf.Integer(first)}
	data := raw
	if !b.rd.plain && !b.noFilter && b.r.Bool() {
		d["Filter"] = pdf.Name("FlateDecode")
		data = hisDeflate(raw)
		b.st("objstm_flate")
	}
	return hisVal{Stm: &hisStream{Dict: d, Data: data}}, raw
}

// build renders the plan.
func hisBuild(r *Rand, plan *hisPlan, plain bool, stat func(string)) *hisFile {
	return hisBuildOpt(r, plan, plain, stat, false)
}

// hisBuildOpt: with noFilter no stream gets a /Filter (used for damaged copies, whose
// streams the model must be able to decode itself).
func hisBuildOpt(r *Rand, plan *hisPlan, plain bool, stat func(string), noFilter bool) *hisFile {
	b := &hisBuilder{noFilter: noFilter, r: r, rd: &hisRenderer{r: r.Fork(), plain: plain, stat: stat}, stat: stat,
		curGen: map[int]int{}, inUse: map[int]bool{}, current: map[int]hisEntry{}, pendingDecoded: map[int][]byte{}}
	b.f = &hisFile{Decoded: map[int][]byte{}, DataAt: map[int]int{}, ObjAt: map[int]int{}}
	f := b.f
	maxPlanned := 0
	for _, rev := range plan.Revs {
		for _, a := range rev.Actions {
			if a.Num > maxPlanned {
				maxPlanned = a.Num
			}
		}
	}
	b.nextNum = maxPlanned + 1

	b.buf.Write(plan.Junk)
	b.hdr = b.buf.Len()
	f.Hdr = b.hdr
	b.buf.WriteString("%PDF-" + plan.Version)
	b.buf.Write(b.rd.eol())
	if plain || b.r.Bool() {
		b.buf.WriteString("%\xe2\xe3\xcf\xd3")
		b.buf.Write(b.rd.eol())
	}

	prevOff := -1
	for ri, rp := range plan.Revs {
		rev := hisRev{Kind: rp.Kind, HasStm: rp.Kind == hisHybrid}
		var mainEs, stmEs []hisEntry
		var compressed []hisEntry
		type pendingObj struct {
			e      hisEntry
			so     hisStmOpts
			hidden bool
		}
		var toWrite []pendingObj

		for _, a := range rp.Actions {
			if a.Free {
				g := b.curGen[a.Num]
				if b.inUse[a.Num] {
					g++ // the generation to be used when the number is reused
				}
				if a.Num == 0 {
					g = 65535
				}
				if g > 65535 {
					g = 65535
				}
				b.curGen[a.Num] = g
				b.inUse[a.Num] = false
				mainEs = append(mainEs, hisEntry{Num: a.Num, Free: true, Gen: g})
				continue
			}
			e := hisEntry{Num: a.Num, Gen: b.curGen[a.Num], Val: a.Val}
			b.inUse[a.Num] = true
			if a.Compressed && rp.Kind != hisTable && e.Gen == 0 && a.Val.Stm == nil {
				compressed = append(compressed, e)
				continue
			}
			po := pendingObj{e: e, hidden: a.Hidden && rp.Kind == hisHybrid,
				so: hisStmOpts{lenMode: a.LenMode, wrongLen: a.WrongLen, lenObj: a.LenObj, endEOL: a.EndEOL}}
			if a.Val.Stm != nil && a.LenMode == 1 {
				// the length lives in its own indirect object (written later in this revision)
				ln := b.alloc()
				po.so.lenRef = pdf.NewReference(uint32(ln), 0)
				toWrite = append(toWrite, pendingObj{e: hisEntry{Num: ln, Val: hisVal{Obj: pdf.Integer(len(a.Val.Stm.Data))}}})
				b.inUse[ln] = true
				b.st("stream_indirect_length")
			}
			toWrite = append(toWrite, po)
		}

		// object streams
		for len(compressed) > 0 {
			k := len(compressed)
			if k > 1 && !plain && b.r.Bool() {
				k = 1 + b.r.Intn(k)
			}
			members := compressed[:k]
			compressed = compressed[k:]
			sn := b.alloc()
			val, raw := b.objStmValue(members)
			if val.Stm.Dict["Filter"] != nil {
				b.pendingDecoded[sn] = raw
			}
			for i := range members {
				members[i].InStm = sn
				members[i].Idx = i
			}
			toWrite = append(toWrite, pendingObj{e: hisEntry{Num: sn, Val: val}, hidden: rp.Kind == hisHybrid})
			b.inUse[sn] = true
			if rp.Kind == hisHybrid {
				stmEs = append(stmEs, members...)
			} else {
				mainEs = append(mainEs, members...)
			}
			b.st("objstm")
		}

		// object bodies in random order
		if !plain {
			for i := len(toWrite) - 1; i > 0; i-- {
				j := b.r.Intn(i + 1)
				toWrite[i], toWrite[j] = toWrite[j], toWrite[i]
			}
		}
		for _, po := range toWrite {
			po.e.Off = b.writeObject(po.e.Num, po.e.Gen, po.e.Val, po.so)
			if po.hidden {
				stmEs = append(stmEs, po.e)
			} else {
				mainEs = append(mainEs, po.e)
			}
		}

		// record the state for "full" sections
		for _, e := range append(append([]hisEntry(nil), stmEs...), mainEs...) {
			b.current[e.Num] = e
		}
		if rp.Full {
			// repeat the current entry of every number the revision does not mention
			mentioned := map[int]bool{}
			for _, e := range mainEs {
				mentioned[e.Num] = true
			}
			for _, e := range stmEs {
				mentioned[e.Num] = true
			}
			for n := 0; n < b.nextNum; n++ {
				if mentioned[n] {
					continue
				}
				if e, ok := b.current[n]; ok {
					if e.InStm != 0 && rp.Kind == hisTable {
						continue // a table cannot express a compressed entry
					}
					if e.InStm != 0 && rp.Kind == hisHybrid {
						stmEs = append(stmEs, e)
					} else {
						mainEs = append(mainEs, e)
					}
				} else {
					g := 0
					if n == 0 {
						g = 65535
					}
					e := hisEntry{Num: n, Free: true, Gen: g}
					b.current[n] = e
					mainEs = append(mainEs, e)
				}
			}
			b.st("full_section")
		}

		trailer := pdf.Dict{}
		for k, v := range rp.Trailer {
			trailer[k] = v
		}
		rev.Trailer = rp.Trailer

		switch rp.Kind {
		case hisTable:
			size := b.nextNum
			if !plain && b.r.P(1, 4) {
				size += b.r.Intn(3)
			}
			trailer["Size"] = pdf.Integer(size)
			if prevOff >= 0 {
				trailer["Prev"] = pdf.Integer(prevOff)
			}
			prevOff = b.writeTable(mainEs, trailer)
		case hisStreamKind:
			xn := b.alloc()
			b.inUse[xn] = true
			size := b.nextNum
			if !plain && b.r.P(1, 4) {
				size += b.r.Intn(3)
			}
			if prevOff >= 0 {
				trailer["Prev"] = pdf.Integer(prevOff)
			}
			// the stream lists itself; its offset is where it is about to be written
			b.buf.Write(b.rd.ws(false))
			if last := b.buf.Bytes()[b.buf.Len()-1]; last != '\n' && last != '\r' {
				b.buf.Write(b.rd.eol())
			}
			self := hisEntry{Num: xn, Off: b.off()}
			val, raw := b.xrefStreamValue(append(append([]hisEntry(nil), mainEs...), self), trailer, size)
			self.Val = val
			if val.Stm.Dict["Filter"] != nil {
				b.pendingDecoded[xn] = raw
			}
			mainEs = append(mainEs, self)
			b.current[xn] = self
			off := b.writeObjectAt(xn, 0, val, hisStmOpts{})
			if off != self.Off {
				panic("his: xref stream offset moved")
			}
			prevOff = off
		case hisHybrid:
			xn := b.alloc()
			b.inUse[xn] = true
			size := b.nextNum
			b.buf.Write(b.rd.ws(false))
			if last := b.buf.Bytes()[b.buf.Len()-1]; last != '\n' && last != '\r' {
				b.buf.Write(b.rd.eol())
			}
			self := hisEntry{Num: xn, Off: b.off()}
			val, raw := b.xrefStreamValue(append(append([]hisEntry(nil), stmEs...), self), pdf.Dict{}, size)
			self.Val = val
			if val.Stm.Dict["Filter"] != nil {
				b.pendingDecoded[xn] = raw
			}
			stmEs = append(stmEs, self)
			b.current[xn] = self
			off := b.writeObjectAt(xn, 0, val, hisStmOpts{})
			if off != self.Off {
				panic("his: xref stream offset moved")
			}
			trailer["Size"] = pdf.Integer(size)
			trailer["XRefStm"] = pdf.Integer(off)
			if prevOff >= 0 {
				trailer["Prev"] = pdf.Integer(prevOff)
			}
			prevOff = b.writeTable(mainEs, trailer)
		}

		b.buf.WriteString("startxref")
		b.buf.Write(b.rd.eol())
		fmt.Fprintf(&b.buf, "%d", prevOff)
		b.buf.Write(b.rd.eol())
		b.buf.WriteString("%%EOF")
		if ri < len(plan.Revs)-1 || plain || b.r.P(3, 4) {
			b.buf.Write(b.rd.eol())
		}

		rev.Main = hisSortEntries(mainEs)
		rev.Stm = hisSortEntries(stmEs)
		f.Revs = append(f.Revs, rev)
	}
	f.Bytes = append([]byte(nil), b.buf.Bytes()...)
	f.MaxNum = b.nextNum - 1
	for _, g := range b.curGen {
		if g > f.MaxGen && g < 65535 {
			f.MaxGen = g
		}
	}
	return f
}

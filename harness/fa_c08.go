package main

// C08 (part A): the ASCIIHex/ASCII85/RunLength/LZW decoders are total and
// bounded on hostile data: data or a malformed-class error, never a panic or
// another error class, output within the bound proved for the model.

import (
	"bytes"
	"encoding/hex"
	"fmt"
	"strings"
)

func init() {
	addRun("C08", "FA: hostile bodies for {ASCIIHex, ASCII85, RunLength, LZW EarlyChange 0/1}: mutated valid encodings (bit flips, byte edits, deletions, insertions, truncation at every kind of position, duplicated tails), random bytes, bytes over each codec's own alphabet, expansion bombs (RunLength repeat packets, ASCII85 'z', LZW long chains), hand-packed LZW code streams (no clear code, full table without clear, code = hi right after clear, codes above hi, missing EOD) x reference read and random read chunkings. Non-trivial: at least 2 bytes; distinct by codec+body.", runFAC08)
	addReplay("C08", "fa-decode-total", replayFAC08)
}

// faC08Check decodes body with a reference read and the given chunkings and
// checks: no panic, final error class eof or malformed, output within bound.
func faC08Check(cd faCodec, body []byte, rchs [][]int) (ref faDecoded, fails []faFailure) {
	bound := faOutBound(cd.name, len(body))
	all := append([][]int{nil}, rchs...)
	for i, ch := range all {
		got := faDecode(cd.filter, body, ch, bound+1)
		if i == 0 {
			ref = got
		}
		switch {
		case got.panicked:
			fails = append(fails, faFailure{"fa-decode-total", cd.name + "-decode-panic", fmt.Sprintf("%s: decoding %d hostile bytes %s… (reads %s) panicked: %v", cd.name, len(body), hx(head(body, 32)), faChunksStr(ch), got.err)})
		case got.class == "hang":
			fails = append(fails, faFailure{"fa-decode-total", cd.name + "-decode-hang", fmt.Sprintf("%s: decoding %d hostile bytes %s… (reads %s) did not terminate: %v", cd.name, len(body), hx(head(body, 32)), faChunksStr(ch), got.err)})
		case got.class == "overlong" || len(got.data) > bound:
			fails = append(fails, faFailure{"fa-decode-total", cd.name + "-output-bound", fmt.Sprintf("%s: %d input bytes produce more than the bound of %d output bytes", cd.name, len(body), bound)})
		case got.class != "eof" && got.class != "malformed":
			fails = append(fails, faFailure{"fa-decode-total", cd.name + "-error-class", fmt.Sprintf("%s: decoding %d hostile bytes %s… (reads %s) ends with error class %s (%v), want data or a malformed-input error", cd.name, len(body), hx(head(body, 32)), faChunksStr(ch), got.class, got.err)})
		}
	}
	return ref, fails
}

func replayFAC08(input string) (bool, string) {
	p := strings.Split(input, "|")
	if len(p) != 3 {
		return true, "bad replay input"
	}
	cd, ok := faCodecByName(p[0])
	if !ok {
		return true, "bad codec"
	}
	var body []byte
	if p[1] != "-" {
		body, _ = hex.DecodeString(p[1])
	}
	var rchs [][]int
	for _, s := range strings.Split(p[2], ";") {
		rchs = append(rchs, faParseChunks(s))
	}
	_, fails := faC08Check(cd, body, rchs)
	if len(fails) == 0 {
		return true, "decoder returns data or a malformed-input error within the bound"
	}
	var sb strings.Builder
	for _, f := range fails {
		sb.WriteString("[" + f.key + "] " + f.desc + "\n")
	}
	return false, strings.TrimRight(sb.String(), "\n")
}

func faMutate(r *Rand, b []byte, alphabet []byte) []byte {
	b = append([]byte(nil), b...)
	for k := 1 + r.Intn(3); k > 0; k-- {
		if len(b) == 0 {
			b = append(b, byte(r.U64()))
			continue
		}
		p := r.Intn(len(b))
		if r.P(1, 3) {
			p = len(b) - 1 - r.Intn(min(len(b), 6)) // near the end (EOD handling)
		}
		switch r.Intn(8) {
		case 0:
			b[p] ^= 1 << uint(r.Intn(8))
		case 1:
			b[p] = byte(r.U64())
		case 2:
			b[p] = Pick(r, alphabet)
		case 3:
			b = append(b[:p:p], b[p+1:]...)
		case 4:
			b = append(b[:p:p], append([]byte{Pick(r, alphabet)}, b[p:]...)...)
		case 5:
			b = b[:p]
		case 6:
			b = append(b, b[p:]...)
		default:
			b = append(b[:p:p], append([]byte{byte(r.U64())}, b[p:]...)...)
		}
	}
	return b
}

var faAlphabets = map[string][]byte{
	"ahex": []byte("0123456789abcdefABCDEF>> \n\r\t\x00\x0cgG<~z"),
	"a85":  []byte("!\"#$%&'*+5<=>?@AZ[]^_`astuvz~~>> \n\r\t\x00\x0c{|}\x7f"),
	"rl":   {0, 1, 2, 3, 126, 127, 128, 128, 129, 130, 254, 255, 'a', 'b'},
	"lzw0": {0x80, 0x00, 0x40, 0x20, 0x10, 0x08, 0xff, 0x7f, 0xc0, 0x01, 0x02},
	"lzw1": {0x80, 0x00, 0x40, 0x20, 0x10, 0x08, 0xff, 0x7f, 0xc0, 0x01, 0x02},
}

func runFAC08(c *Ctx) {
	r := c.R.Fork()
	nMut := 1500
	nRand := 600
	nCodes := 250
	if c.Thorough {
		nMut = 140000
		nRand = 50000
		nCodes = 20000
	}
	sampleLeft := 3

	one := func(cd faCodec, body []byte, kind string) {
		rchs := [][]int{faGenChunks(r)}
		if r.P(1, 3) {
			rchs = append(rchs, []int{1})
		}
		c.Case(cd.name+" "+string(body), len(body) >= 2)
		c.Stat("codec_" + cd.name)
		c.Stat("kind_" + kind)
		ref, fails := faC08Check(cd, body, rchs)
		for _, f := range fails {
			parts := make([]string, len(rchs))
			for i, rc := range rchs {
				parts[i] = faChunksStr(rc)
			}
			c.Violate(f.oracle, f.key, f.desc, cd.name+"|"+hexWire(body)+"|"+strings.Join(parts, ";"))
		}
		c.Stat("result_" + ref.class)
		if ref.panicked || ref.class == "overlong" || ref.class == "stuck" || ref.class == "hang" {
			return
		}
		// correspondence: same data before the error and same error class
		faEmitDec(c, cd.name, body, ref)
		if sampleLeft > 0 && len(body) > 3 && len(body) < 30 && ref.class == "malformed" {
			sampleLeft--
			c.Sample(fmt.Sprintf("%s %s: %q -> %s", cd.name, kind, body, faShowRes(ref)))
		}
	}

	// 1. fixed hostile bodies
	fixed := map[string][]string{
		"ahex": {"", ">", "4", "4>", "41", "41>", "4 1 >", "4g>", "41>42>", "<41>", "41\x00\x0c>", "41~>", "zz>", "4\xff>"},
		"a85": {"", "~", "~>", ">", "~~>", "~ >", "z~>", "zz~>", "!~>", "!!~>", "!!!~>", "!!!!~>", "!!!!!~>", "!!!!!!~>", "uuuuu~>", "s8W-!~>", "s8W-\"~>", "uuuu~>", "uu~>", "!z~>", "!!z!!~>", "z!~>", "<~!!!!!~>", "!!!!!", "!!!!! ~>", "!!\n!!!~>", "!!!!!~>garbage", "!!!!!~x", "{~>", "v~>", "\x7f~>", "!!!!\xff~>"},
		"rl": {"", "\x80", "\x00", "\x00a", "\x00a\x80", "\x02ab", "\x02abc", "\x7f", "\x81", "\x81a", "\xffa", "\xffa\x80", "\xff", "\x80\x00a", "\x00a\x00", "\x00a\xff", "\x01a"},
	}
	for _, cd := range faCodecs[:3] {
		for _, s := range fixed[cd.name] {
			one(cd, []byte(s), "fixed")
		}
	}
	// expansion bombs
	one(faCodecs[2], bytes.Repeat([]byte{129, 'x'}, 2000), "bomb")
	one(faCodecs[2], append(bytes.Repeat([]byte{129, 'x'}, 500), 128), "bomb")
	one(faCodecs[1], bytes.Repeat([]byte{'z'}, 4000), "bomb")
	one(faCodecs[1], append(bytes.Repeat([]byte{'z'}, 1000), '~', '>'), "bomb")
	one(faCodecs[0], bytes.Repeat([]byte{'f'}, 4001), "bomb")

	// 2. hand-packed LZW code streams
	for ec := 0; ec <= 1; ec++ {
		cd := faCodecs[3+ec]
		streams := [][]int{
			{}, {256}, {257}, {256, 257}, {256, 256, 257}, {65, 257}, {256, 65, 257}, {256, 65}, {256, 65, 258, 257},
			{256, 65, 259, 257}, {256, 258, 257}, {258, 257}, {256, 65, 258, 259, 260, 257}, {256, 65, 66, 258, 260, 257},
			{256, 65, 66, 258, 256, 258, 257}, {256, 65, 66, 256, 259, 257}, {256, 65, 256, 66, 258, 257}, {256, 65, 257, 66},
			{256, 65, 66, 67, 258, 259, 260, 261, 262, 263, 257}, {511, 257}, {256, 300, 257},
		}
		// long runs of literals without clear: the table fills up and freezes
		for _, n := range []int{250, 254, 255, 256, 257, 766, 767, 768, 3836, 3837, 3838, 3839, 3840, 3841, 4000, 4200} {
			s := []int{256}
			for i := 0; i < n; i++ {
				s = append(s, (i*7+i/256)&0xff)
			}
			streams = append(streams, append(append([]int(nil), s...), 257))
			// after the literals use the highest codes (around hi)
			for _, d := range []int{-2, -1, 0, 1} {
				top := 257 + n + d
				if top >= 258 && top < 4096 {
					streams = append(streams, append(append([]int(nil), s...), top, top, 257))
				}
			}
			streams = append(streams, append(append([]int(nil), s...), 4095, 4094, 4095, 257))
		}
		// KwKwK chains: each code is the one being defined (longest possible expansion growth)
		for _, n := range []int{10, 300, 1000, 3836, 3837, 3838, 3839, 3900} {
			s := []int{256, 65}
			for i := 0; i < n; i++ {
				s = append(s, 258+i)
			}
			streams = append(streams, append(s, 257))
		}
		for _, s := range streams {
			one(cd, faPackCodes(s, ec), "lzw-codes")
			// the same codes packed with the other EarlyChange convention
			if len(s) < 1200 || c.Thorough {
				one(cd, faPackCodes(s, 1-ec), "lzw-codes-wrong-ec")
			}
		}
		// random code sequences that are mostly valid
		for i := 0; i < nCodes; i++ {
			n := r.Intn(60)
			if r.P(1, 10) {
				n = 3800 + r.Intn(500)
			}
			s := []int{}
			if r.P(4, 5) {
				s = append(s, 256)
			}
			m := 0
			for j := 0; j < n; j++ {
				hi := 257 + m
				var code int
				switch r.Intn(12) {
				case 0:
					code = 256
				case 1:
					code = hi + r.Intn(3) // hi itself (KwKwK) or just above (invalid)
				case 2, 3, 4:
					if hi > 258 {
						code = 258 + r.Intn(hi-258+1)
					} else {
						code = r.Intn(256)
					}
				case 5:
					code = r.Intn(4096)
				default:
					code = r.Intn(256)
				}
				if code > 4095 {
					code = 4095
				}
				s = append(s, code)
				if code == 256 {
					m = 0
				} else {
					m++
				}
			}
			if r.P(3, 4) {
				s = append(s, 257)
			}
			one(cd, faPackCodes(s, ec), "lzw-random-codes")
		}
	}

	// 3. mutations of valid encodings
	for i := 0; i < nMut; i++ {
		cd := Pick(r, faCodecs)
		n := r.Intn(200)
		if r.P(1, 20) {
			n = 4000 + r.Intn(3000)
		}
		data, _ := faGenData(r, n)
		enc, err := faEncode(cd.filter, data, nil)
		if err != nil {
			continue
		}
		one(cd, faMutate(r, enc, faAlphabets[cd.name]), "mutated")
	}
	// 4. random bytes and bytes over the codec's alphabet
	for i := 0; i < nRand; i++ {
		cd := Pick(r, faCodecs)
		n := r.Intn(120)
		b := make([]byte, n)
		kind := "random"
		if r.Bool() {
			kind = "alphabet"
			al := faAlphabets[cd.name]
			for j := range b {
				b[j] = Pick(r, al)
			}
		} else {
			for j := range b {
				b[j] = byte(r.U64())
			}
		}
		one(cd, b, kind)
	}
}

package main

// TR run registered under C09: crypto.go stdSecPToPerm / stdSecPermToP /
// Perm.canR2 / unpadPKCS7 against the generated Lean code.

import (
	"bytes"
	"fmt"
	"strconv"
	"strings"

	pdf "seehuhn.de/go/pdf"
)

func init() {
	addRun("C09", "TR: permission algebra exhaustively (all 128 permission sets x R in {0..7}; PToPerm on every P = PermToP(p), on all P over the nine relevant bits with random other bits, and on random 32-bit P); unpadPKCS7 on pad(x) for all pad lengths 1..16 and block counts 1..3, on every single-byte corruption class (pad byte 0, 17..255, a mismatching byte at every position), on lengths that are not a positive multiple of 16 and on random blocks; every line is answered by the Lean function generated from the Go source. Oracles: PToPerm(R,PermToP(p)) = closure(p) for R>=3 and for R=2 when canR2(p); unpad(pad(x)) = x; accepted input is well-formed padding. Non-trivial: every case.", runTRC09)
	addReplay("C09", "tr-perm", func(in string) (bool, string) {
		parts := strings.Split(in, " ")
		r, _ := strconv.Atoi(parts[0])
		p, _ := strconv.Atoi(parts[1])
		return trPermOracle(r, pdf.Perm(p))
	})
	addReplay("C09", "tr-pkcs7", func(in string) (bool, string) { return trPKCS7Oracle(trUnhex(in)) })
}

// closure of a permission set under the documented implications
func trPermClosure(p pdf.Perm) pdf.Perm {
	if p&pdf.PermPrint != 0 {
		p |= pdf.PermPrintDegraded
	}
	if p&pdf.PermAnnotate != 0 {
		p |= pdf.PermForms
	}
	if p&pdf.PermModify != 0 {
		p |= pdf.PermAssemble
	}
	return p
}

func trPermOracle(R int, p pdf.Perm) (bool, string) {
	P := pdf.VerifTrStdSecPermToP(p)
	got := pdf.VerifTrStdSecPToPerm(R, P)
	want := trPermClosure(p)
	d := fmt.Sprintf("R=%d perm=%07b: P=%#x, PToPerm gives %07b, closure is %07b (canR2=%v)", R, p, P, got, want, pdf.VerifTrPermCanR2(p))
	if P&3 != 0 {
		return false, d + "; reserved bits 1,2 of P must be 0"
	}
	if R == 2 && !pdf.VerifTrPermCanR2(want) {
		return true, d // the writer never selects R=2 for such a set
	}
	if R < 2 {
		return true, d
	}
	return got == want, d
}

func trPad(x []byte) []byte {
	n := 16 - len(x)%16
	return append(append([]byte{}, x...), bytes.Repeat([]byte{byte(n)}, n)...)
}

// the PKCS#7 property, on any input: accepted  <=>  well-formed, and then the stripped bytes are the prefix
func trPKCS7Oracle(in []byte) (ok bool, detail string) {
	defer func() {
		if r := recover(); r != nil {
			ok, detail = false, fmt.Sprintf("unpadPKCS7(%x) panicked: %v", in, r)
		}
	}()
	orig := append([]byte{}, in...)
	out, err := pdf.VerifTrUnpadPKCS7(in)
	if !bytes.Equal(orig, in) {
		return false, fmt.Sprintf("unpadPKCS7 modified its argument %x -> %x", orig, in)
	}
	wellFormed := false
	var want []byte
	if n := len(in); n >= 16 && n%16 == 0 {
		k := int(in[n-1])
		if k >= 1 && k <= 16 && bytes.Equal(in[n-k:], bytes.Repeat([]byte{byte(k)}, k)) {
			wellFormed = true
			want = in[:n-k]
		}
	}
	if wellFormed != (err == nil) {
		return false, fmt.Sprintf("unpadPKCS7(%x): err=%v but well-formed=%v", in, err, wellFormed)
	}
	if err == nil && !bytes.Equal(out, want) {
		return false, fmt.Sprintf("unpadPKCS7(%x) = %x, want %x", in, out, want)
	}
	return true, fmt.Sprintf("unpadPKCS7(%x) = %x, %v", in, out, err)
}

func runTRC09(c *Ctx) {
	emitP := func(R int, P uint32) {
		trEmit(c, "PToPerm", []string{fmt.Sprint(R), fmt.Sprint(P)}, trCall(func() string { return fmt.Sprint(int(pdf.VerifTrStdSecPToPerm(R, P))) }))
	}
	for p := -2; p < 260; p++ {
		perm := pdf.Perm(p)
		trEmit(c, "PermToP", trInts(int64(p)), trCall(func() string { return fmt.Sprint(pdf.VerifTrStdSecPermToP(perm)) }))
		trEmit(c, "canR2", trInts(int64(p)), trCall(func() string { return fmt.Sprint(pdf.VerifTrPermCanR2(perm)) }))
		for R := 0; R <= 7; R++ {
			emitP(R, pdf.VerifTrStdSecPermToP(perm))
			if p >= 0 && p < 128 {
				c.Case(fmt.Sprintf("trperm%d/%d", R, p), true)
				if ok, d := trPermOracle(R, perm); !ok {
					c.Violate("tr-perm", "tr-perm-closure", d, fmt.Sprintf("%d %d", R, p))
				}
			}
		}
	}
	// all combinations of the nine bits PToPerm looks at (3,4,5,6,9,10,11,12 and the reserved 1,2)
	bits := []uint{2, 3, 4, 5, 8, 9, 10, 11}
	for m := 0; m < 1<<len(bits); m++ {
		var P uint32
		for i, b := range bits {
			if m>>uint(i)&1 == 1 {
				P |= 1 << b
			}
		}
		noise := uint32(c.R.U64()) &^ 0xfbc
		for _, R := range []int{2, 3, 4, 6} {
			emitP(R, P)
			emitP(R, P|noise)
		}
	}
	n := 2000
	if c.Thorough {
		n = 50000
	}
	for i := 0; i < n; i++ {
		emitP(c.R.Intn(9)-1, uint32(c.R.U64()))
	}

	unpad := func(in []byte) {
		s := trHex(in)
		trEmit(c, "unpadPKCS7", []string{s}, trCall(func() string {
			out, err := pdf.VerifTrUnpadPKCS7(append([]byte{}, in...))
			return trHex(out) + " " + trErr(err)
		}))
		c.Case("trunpad"+s, true)
		if ok, d := trPKCS7Oracle(append([]byte{}, in...)); !ok {
			c.Violate("tr-pkcs7", "tr-pkcs7-spec", d, s)
		}
	}
	for l := 0; l < 48; l++ {
		x := c.R.Bytes(l)
		padded := trPad(x)
		unpad(padded)
		// round trip
		if out, err := pdf.VerifTrUnpadPKCS7(append([]byte{}, padded...)); err != nil || !bytes.Equal(out, x) {
			c.Violate("tr-pkcs7", "tr-pkcs7-roundtrip", fmt.Sprintf("unpad(pad(%x)) = %x, %v", x, out, err), trHex(padded))
		}
		// every corruption class
		n := len(padded)
		for _, pb := range []int{0, 17, 18, 32, 128, 255} {
			bad := append([]byte{}, padded...)
			bad[n-1] = byte(pb)
			unpad(bad)
		}
		for pos := 1; pos <= 16; pos++ {
			bad := append([]byte{}, padded...)
			bad[n-pos] ^= byte(1 + c.R.Intn(255))
			unpad(bad)
		}
	}
	for _, l := range []int{0, 1, 8, 15, 17, 24, 31, 33, 40} {
		unpad(bytes.Repeat([]byte{1}, l))
		unpad(append(bytes.Repeat([]byte{0}, max(l-4, 0)), bytes.Repeat([]byte{4}, min(l, 4))...))
	}
	for i := 0; i < n; i++ {
		b := c.R.Bytes(16 * (1 + c.R.Intn(2)))
		k := c.R.Intn(20)
		for j := 0; j < k && j < len(b); j++ {
			b[len(b)-1-j] = byte(k)
		}
		if c.R.P(1, 5) && len(b) > 0 {
			b[len(b)-1-c.R.Intn(16)] = byte(c.R.Intn(20))
		}
		unpad(b)
	}
	// tryCrop (over-long O and U strings): excess zeros are removed, anything else is kept
	crop := func(sb []byte, l int) {
		args := []string{trHex(sb), fmt.Sprint(l)}
		res := trCall(func() string { return trHex(pdf.VerifTrTryCrop(append(pdf.String{}, sb...), l)) })
		trEmit(c, "tryCrop", args, res)
		c.Case("trcrop"+strings.Join(args, "/"), true)
		if l >= 0 {
			want := sb
			if len(sb) > l && len(bytes.Trim(sb[l:], "\x00")) == 0 {
				want = sb[:l]
			}
			if res != trHex(want) {
				c.Violate("tr-pkcs7", "tr-tryCrop-spec", fmt.Sprintf("tryCrop(%x,%d) = %s, want %x", sb, l, res, want), trHex(sb))
			}
		}
	}
	for i := 0; i < n; i++ {
		l := Pick(c.R, []int{0, 1, 2, 32, 48, c.R.Intn(40), -1})
		sb := c.R.Bytes(c.R.Intn(60))
		if c.R.P(2, 3) && len(sb) > 0 {
			k := c.R.Intn(len(sb) + 1)
			for j := k; j < len(sb); j++ {
				sb[j] = 0
			}
			if c.R.P(1, 4) {
				sb[len(sb)-1] = 1
			}
		}
		crop(sb, l)
	}
	c.Sample("TR PToPerm 3 " + fmt.Sprint(pdf.VerifTrStdSecPermToP(pdf.PermPrint|pdf.PermAnnotate)) + " -> " + fmt.Sprint(int(pdf.VerifTrStdSecPToPerm(3, pdf.VerifTrStdSecPermToP(pdf.PermPrint|pdf.PermAnnotate)))))
}

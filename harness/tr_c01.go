package main

// TR run registered under C01: scanner.go hexDigit and types.go
// Name.isSecondClassName / isThirdClassName against the generated Lean code.

import (
	"bytes"
	"fmt"
	"strconv"

	pdf "seehuhn.de/go/pdf"
)

func init() {
	addRun("C01", "TR: hexDigit on all 256 bytes; isSecondClassName/isThirdClassName on all byte strings of length<=2 over a 7-byte alphabet, ':'/'_'/'X' planted at every position 0..7 of ASCII and multi-byte UTF-8 names, and random byte strings; each line is answered by the Lean function generated from the Go source. Non-trivial: every case (distinct by input).", runTRC01)
	addReplay("C01", "tr-hexDigit", func(in string) (bool, string) {
		n, _ := strconv.Atoi(in)
		ok, d := trHexDigitOracle(byte(n))
		return ok, d
	})
	addReplay("C01", "tr-nameClass", func(in string) (bool, string) {
		return trNameClassOracle(trUnhex(in))
	})
}

// hexDigit's specification: the value of the hexadecimal digit, 255 for any other byte.
func trHexDigitOracle(b byte) (bool, string) {
	got := pdf.VerifTrHexDigit(b)
	want := byte(255)
	if v, err := strconv.ParseUint(string([]byte{b}), 16, 8); err == nil && b != '+' && b != '-' && b != '_' {
		want = byte(v)
	}
	return got == want, fmt.Sprintf("hexDigit(%d) = %d, want %d", b, got, want)
}

// second-class names have ':' or '_' among the first five bytes; third-class names start with "XX"
func trNameClassOracle(n []byte) (bool, string) {
	k := min(len(n), 5)
	want2 := bytes.IndexAny(n[:k], ":_") >= 0
	want3 := len(n) >= 2 && n[0] == 'X' && n[1] == 'X'
	got2 := pdf.VerifTrIsSecondClassName(pdf.Name(n))
	got3 := pdf.VerifTrIsThirdClassName(pdf.Name(n))
	return got2 == want2 && got3 == want3, fmt.Sprintf("name %x: second=%v (want %v) third=%v (want %v)", n, got2, want2, got3, want3)
}

func runTRC01(c *Ctx) {
	for b := 0; b < 256; b++ {
		res := trCall(func() string { return fmt.Sprint(pdf.VerifTrHexDigit(byte(b))) })
		trEmit(c, "hexDigit", trInts(int64(b)), res)
		c.Case(fmt.Sprintf("trhex%d", b), true)
		if ok, d := trHexDigitOracle(byte(b)); !ok {
			c.Violate("tr-hexDigit", "tr-hexDigit-spec", d, fmt.Sprint(b))
		}
	}
	// hexDigit inverts the formatter's hex digits (both cases)
	for v := 0; v < 16; v++ {
		for _, digits := range []string{"0123456789abcdef", "0123456789ABCDEF"} {
			if got := pdf.VerifTrHexDigit(digits[v]); int(got) != v {
				c.Violate("tr-hexDigit", "tr-hexDigit-inverse", fmt.Sprintf("hexDigit(%q) = %d, want %d", digits[v], got, v), fmt.Sprint(digits[v]))
			}
		}
	}
	name := func(n []byte) {
		s := trHex(n)
		trEmit(c, "isSecondClassName", []string{s}, trCall(func() string { return fmt.Sprint(pdf.VerifTrIsSecondClassName(pdf.Name(n))) }))
		trEmit(c, "isThirdClassName", []string{s}, trCall(func() string { return fmt.Sprint(pdf.VerifTrIsThirdClassName(pdf.Name(n))) }))
		c.Case("trname"+s, true)
		if ok, d := trNameClassOracle(n); !ok {
			c.Violate("tr-nameClass", "tr-nameClass-spec", d, s)
		}
	}
	alpha := []byte{':', '_', 'X', 'a', 0xc3, 0xa9, 0xff}
	name(nil)
	for _, a := range alpha {
		name([]byte{a})
		for _, b := range alpha {
			name([]byte{a, b})
		}
	}
	bases := [][]byte{[]byte("abcdefghij"), []byte("XXabcdefgh"), []byte("é€😀xyzé"), {0xff, 0xfe, 0x80, 0xc3, 0xe2, 0x82, 0xf0, 0x9f, 0x41}}
	for _, base := range bases {
		name(base)
		for pos := 0; pos < len(base) && pos < 8; pos++ {
			for _, ch := range []byte{':', '_', 'X'} {
				n := append([]byte{}, base...)
				n[pos] = ch
				name(n)
			}
		}
	}
	n := 2000
	if c.Thorough {
		n = 40000
	}
	for i := 0; i < n; i++ {
		l := c.R.Intn(9)
		b := c.R.Bytes(l)
		for j := range b {
			if c.R.P(1, 4) {
				b[j] = Pick(c.R, alpha)
			}
		}
		name(b)
	}
	// References: NewReference / Number / Generation (object numbers below 2^24, else panic)
	ref := func(num uint32, gen uint16) {
		res := trCall(func() string {
			r := pdf.NewReference(num, gen)
			return fmt.Sprintf("%d %d %d", uint64(r), r.Number(), r.Generation())
		})
		trEmit(c, "newReference", []string{fmt.Sprint(num), fmt.Sprint(gen)}, res)
		c.Case(fmt.Sprintf("trref%d/%d", num, gen), true)
		want := fmt.Sprintf("%d %d %d", uint64(num)|uint64(gen)<<32, num, gen)
		if num >= 1<<24 {
			want = "panic"
		}
		if res != want {
			c.Violate("tr-nameClass", "tr-reference-rt", fmt.Sprintf("NewReference(%d,%d): %s, want %s", num, gen, res, want), "-")
		}
	}
	for _, num := range []uint32{0, 1, 2, 255, 256, 65535, 65536, 1<<24 - 1, 1 << 24, 1<<24 + 1, 1<<32 - 1} {
		for _, gen := range []uint16{0, 1, 255, 256, 65534, 65535} {
			ref(num, gen)
		}
	}
	for i := 0; i < n; i++ {
		x := c.R.U64()
		ref(uint32(x)>>uint(c.R.Intn(32)), uint16(x>>32)>>uint(c.R.Intn(16)))
		r := pdf.Reference(c.R.U64() >> uint(c.R.Intn(64)))
		trEmit(c, "refParts", []string{fmt.Sprint(uint64(r))}, fmt.Sprintf("%d %d", r.Number(), r.Generation()))
		o, opt := pdf.OutputOptions(c.R.U64()&63), pdf.OutputOptions(1<<uint(c.R.Intn(7)))
		trEmit(c, "hasAny", []string{fmt.Sprint(uint32(o)), fmt.Sprint(uint32(opt))}, fmt.Sprint(o.HasAny(opt)))
	}
	c.Sample("TR hexDigit 70 -> " + fmt.Sprint(pdf.VerifTrHexDigit(70)))
}

package main

// TR run registered under C02: xref.go decodeInt / encodeInt64 against the generated Lean code.

import (
	"fmt"
	"strconv"
	"strings"

	pdf "seehuhn.de/go/pdf"
)

func init() {
	addRun("C02", "TR: encodeInt64(x,w) for widths -1..10 x values of every bit length 0..64 (boundaries 2^k-1, 2^k, random); decodeInt on the encodings and on random byte strings of length 0..10; each line answered by the generated Lean function. Oracle: decodeInt(encodeInt64(x,w)) = x mod 256^w (error iff that exceeds MaxInt64), len = max(w,0). Non-trivial: w>=1.", runTRC02)
	addReplay("C02", "tr-xrefInt", func(in string) (bool, string) {
		parts := strings.Split(in, " ")
		x, _ := strconv.ParseUint(parts[0], 10, 64)
		w, _ := strconv.Atoi(parts[1])
		return trXrefIntOracle(x, w)
	})
}

func trXrefIntOracle(x uint64, w int) (ok bool, detail string) {
	defer func() {
		if r := recover(); r != nil {
			ok, detail = false, fmt.Sprintf("encodeInt64(%d,%d)/decodeInt panicked: %v", x, w, r)
		}
	}()
	enc, err := pdf.VerifTrEncodeInt64(x, w)
	if err != nil {
		return false, fmt.Sprintf("encodeInt64(%d,%d) failed on a bytes.Buffer: %v", x, w, err)
	}
	if len(enc) != max(w, 0) {
		return false, fmt.Sprintf("encodeInt64(%d,%d) wrote %d bytes", x, w, len(enc))
	}
	want := x
	if w < 8 {
		want = x & (1<<(8*uint(max(w, 0))) - 1)
	}
	got, err := pdf.VerifTrDecodeInt(enc)
	if want > 1<<63-1 {
		return err != nil, fmt.Sprintf("decodeInt(%x) = %d, %v; want an error (value %d exceeds MaxInt64)", enc, got, err, want)
	}
	return err == nil && uint64(got) == want, fmt.Sprintf("decodeInt(encodeInt64(%d,%d)=%x) = %d, %v; want %d", x, w, enc, got, err, want)
}

func runTRC02(c *Ctx) {
	one := func(x uint64, w int) {
		var enc []byte
		res := trCall(func() string {
			b, err := pdf.VerifTrEncodeInt64(x, w)
			enc = b
			return trErr(err) + " " + trHex(b)
		})
		trEmit(c, "encodeInt64", []string{fmt.Sprint(x), fmt.Sprint(w)}, res)
		trEmit(c, "decodeInt", []string{trHex(enc)}, trCall(func() string {
			v, err := pdf.VerifTrDecodeInt(enc)
			return fmt.Sprint(v) + " " + trErr(err)
		}))
		c.Case(fmt.Sprintf("trenc%d/%d", x, w), w >= 1)
		if ok, d := trXrefIntOracle(x, w); !ok {
			c.Violate("tr-xrefInt", "tr-xrefInt-roundtrip", d, fmt.Sprintf("%d %d", x, w))
		}
	}
	for w := -1; w <= 10; w++ {
		for k := 0; k <= 64; k++ {
			var x uint64
			if k == 64 {
				x = ^uint64(0)
			} else {
				x = 1 << uint(k)
			}
			one(x, w)
			one(x-1, w)
			if k > 0 && k < 64 {
				one(x|c.R.U64()&(x-1), w)
			}
		}
	}
	n := 3000
	if c.Thorough {
		n = 60000
	}
	for i := 0; i < n; i++ {
		one(c.R.U64()>>uint(c.R.Intn(64)), c.R.Intn(10))
	}
	for i := 0; i < n; i++ {
		b := c.R.Bytes(c.R.Intn(11))
		if c.R.P(1, 3) && len(b) > 0 {
			b[0] = Pick(c.R, []byte{0, 0x7f, 0x80, 0xff})
		}
		trEmit(c, "decodeInt", []string{trHex(b)}, trCall(func() string {
			v, err := pdf.VerifTrDecodeInt(b)
			return fmt.Sprint(v) + " " + trErr(err)
		}))
		c.Case("trdec"+trHex(b), len(b) > 0)
	}
	c.Sample("TR encodeInt64 258 3 -> nil 000102")
}

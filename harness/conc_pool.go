package main

// C18, pool discipline: the package-level sync.Pools (zlib readers and writers in filter.go)
// hand out objects which must have exactly one owner at a time.  If some path puts an object
// into the pool twice — an error path, a partial read, a repeated Close — two later decodes
// (other Readers, other files, other goroutines, or just two streams read alternately in one
// goroutine) are handed the same object: silent wrong data.  No test of one stream at a time can
// see that.
//
// Deterministic oracle: {poison: use stream A in one of several ways} in every order (all single
// steps and all ordered pairs), then open streams B and C of two independent files through
// independent Readers, read them ALTERNATELY in small chunks in one goroutine and require exactly
// their bytes; the same on the writing side (two Writers with open compressed streams written
// alternately).  One P and no GC while a scenario runs, so that sync.Pool is deterministic.
// Multi-goroutine variant: 2-4 goroutines doing the same on their own files (also in the -race
// child of the thorough tier).

import (
	"bytes"
	"compress/zlib"
	"errors"
	"fmt"
	"image"
	"image/jpeg"
	"io"
	"runtime"
	"runtime/debug"
	"strings"
	"sync"
	"time"

	"seehuhn.de/go/pdf"
)

func init() {
	addRun("C18", "pool discipline: every single and every ordered pair of 'poisoning' uses of a stream (full read, partial read, no read, double Close, wrong Adler-32, truncated data, garbage data, read after the end, error then double Close) x filter chains (Flate, LZW, PNG/TIFF predictors, ASCII85+Flate, RC4- and AES-encrypted), followed by two streams of independent files read alternately in small chunks through independent Readers in one goroutine, which must decode to exactly their bytes; the same for two Writers writing compressed streams alternately after poisoning writes (double Close, failing sink, abandoned stream); and with 2-4 goroutines. A case is one scenario; distinct by chain + poison sequence.", runConcPool)
	addReplay("C18", "pool", replayConcPool)
}

type poolChain struct {
	name     string
	filters  func() []pdf.Filter
	version  pdf.Version
	password string
}

var poolChains = []poolChain{
	{"flate", func() []pdf.Filter { return []pdf.Filter{pdf.FilterFlate{}} }, pdf.V1_4, ""},
	{"compress", func() []pdf.Filter { return []pdf.Filter{pdf.FilterCompress{}} }, pdf.V1_7, ""},
	{"lzw", func() []pdf.Filter { return []pdf.Filter{pdf.FilterLZW{}} }, pdf.V1_4, ""},
	{"flate+png", func() []pdf.Filter {
		return []pdf.Filter{pdf.FilterFlate{Predictor: pdf.FlatePredictorPNGUp, Columns: 8}}
	}, pdf.V1_4, ""},
	{"flate+tiff", func() []pdf.Filter {
		return []pdf.Filter{pdf.FilterFlate{Predictor: pdf.FlatePredictorTIFF, Columns: 8}}
	}, pdf.V1_4, ""},
	{"lzw+png", func() []pdf.Filter {
		return []pdf.Filter{pdf.FilterLZW{Predictor: pdf.FlatePredictorPNGPaeth, Columns: 8}}
	}, pdf.V1_4, ""},
	{"a85+flate", func() []pdf.Filter { return []pdf.Filter{pdf.FilterASCII85{}, pdf.FilterFlate{}} }, pdf.V1_4, ""},
	{"rc4+flate", func() []pdf.Filter { return []pdf.Filter{pdf.FilterFlate{}} }, pdf.V1_4, "secret"},
	{"aes+flate+png", func() []pdf.Filter {
		return []pdf.Filter{pdf.FilterFlate{Predictor: pdf.FlatePredictorPNGSub, Columns: 8}}
	}, pdf.V2_0, "secret"},
}

func poolData(seed, n int) []byte {
	b := make([]byte, n)
	x := uint32(seed*2654435761 + 12345)
	for i := range b {
		if i%7 == 0 {
			x = x*1664525 + 1013904223
		}
		b[i] = byte(x>>24) + byte(i/64)
	}
	return b
}

type poolFile struct {
	data []byte // the file
	ref  pdf.Reference
	want []byte // decoded stream contents
	pw   string
	rd   *pdf.Reader // opened once; every file has its own Reader
	stm  *pdf.Stream
}

func (ch poolChain) opts(seed int) *pdf.WriterOptions {
	id := bytes.Repeat([]byte{byte(seed)}, 16)
	return &pdf.WriterOptions{ID: [][]byte{id, id}, UserPassword: ch.password, OwnerPassword: ch.password}
}

func poolNewWriter(ch poolChain, seed int, sink io.Writer) (*pdf.Writer, error) {
	w, err := pdf.NewWriter(sink, ch.version, ch.opts(seed))
	if err != nil {
		return nil, err
	}
	pages := w.Alloc()
	w.GetMeta().Catalog.Pages = pages
	if err := w.Put(pages, pdf.Dict{"Type": pdf.Name("Pages"), "Kids": pdf.Array{}, "Count": pdf.Integer(0)}); err != nil {
		return nil, err
	}
	return w, nil
}

// poolMakeFile writes a file with one stream under the chain.  raw != nil: the stream is stored
// as these bytes behind a /FlateDecode entry (for corrupted data).
func poolMakeFile(ch poolChain, seed, n int, raw []byte) (*poolFile, error) {
	buf := &bytes.Buffer{}
	w, err := poolNewWriter(ch, seed, buf)
	if err != nil {
		return nil, err
	}
	ref := w.Alloc()
	want := poolData(seed, n)
	if raw != nil {
		stm, err := w.OpenStream(ref, pdf.Dict{"Filter": pdf.Name("FlateDecode")})
		if err != nil {
			return nil, err
		}
		if _, err := stm.Write(raw); err != nil {
			return nil, err
		}
		if err := stm.Close(); err != nil {
			return nil, err
		}
	} else {
		stm, err := w.OpenStream(ref, nil, ch.filters()...)
		if err != nil {
			return nil, err
		}
		if _, err := stm.Write(want); err != nil {
			return nil, err
		}
		if err := stm.Close(); err != nil {
			return nil, err
		}
	}
	if err := w.Close(); err != nil {
		return nil, err
	}
	return &poolFile{data: buf.Bytes(), ref: ref, want: want, pw: ch.password}, nil
}

func (f *poolFile) open() (io.ReadCloser, error) {
	if f.rd == nil {
		var opt *pdf.ReaderOptions
		if f.pw != "" {
			opt = &pdf.ReaderOptions{Password: f.pw}
		}
		r, err := pdf.NewReader(bytes.NewReader(f.data), int64(len(f.data)), opt)
		if err != nil {
			return nil, err
		}
		obj, err := r.Get(f.ref, true)
		if err != nil {
			return nil, err
		}
		stm, ok := obj.(*pdf.Stream)
		if !ok {
			return nil, errors.New("not a stream")
		}
		f.rd, f.stm = r, stm
	}
	return pdf.DecodeStream(f.rd, nil, f.stm)
}

// the poisoning uses of a stream
var poolPoisons = []string{"full", "partial", "noread", "dblclose", "badsum", "trunc", "garbage", "readpastend", "errdblclose"}

func poolIsDouble(k string) bool { return k == "dblclose" || k == "errdblclose" }

func poolZlib(data []byte) []byte {
	var b bytes.Buffer
	zw := zlib.NewWriter(&b)
	zw.Write(data)
	zw.Close()
	return b.Bytes()
}

type poolFixture struct {
	chain   poolChain
	a       *poolFile // intact stream under the chain
	badsum  *poolFile
	trunc   *poolFile
	garbage *poolFile
	b, c    *poolFile
}

func poolNewFixture(ch poolChain, seed int) (*poolFixture, error) {
	fx := &poolFixture{chain: ch}
	var err error
	mk := func(s, n int, raw []byte) *poolFile {
		if err != nil {
			return nil
		}
		var f *poolFile
		f, err = poolMakeFile(ch, s, n, raw)
		return f
	}
	z := poolZlib(poolData(seed, 4096))
	bad := append([]byte{}, z...)
	bad[len(bad)-1] ^= 0x55
	bad[len(bad)-3] ^= 0xaa
	fx.a = mk(seed, 4096, nil)
	fx.badsum = mk(seed, 4096, bad)
	fx.trunc = mk(seed, 4096, z[:len(z)/2])
	fx.garbage = mk(seed, 4096, []byte("this is not a zlib stream at all"))
	fx.b = mk(seed+1, 6000, nil)
	fx.c = mk(seed+2, 5000, nil)
	return fx, err
}

// poison uses stream A in the given way; panics are reported, errors are expected.
func (fx *poolFixture) poison(kind string) (problem string) {
	defer func() {
		if r := recover(); r != nil {
			problem = fmt.Sprintf("poison step %s panicked: %v", kind, r)
		}
	}()
	f := fx.a
	switch kind {
	case "badsum":
		f = fx.badsum
	case "trunc", "errdblclose":
		f = fx.trunc
	case "garbage":
		f = fx.garbage
	}
	rc, err := f.open()
	if err != nil {
		return "" // e.g. garbage: rejected when the decoder is set up
	}
	switch kind {
	case "full", "badsum", "trunc", "garbage":
		io.Copy(io.Discard, rc)
		rc.Close()
	case "partial":
		io.ReadFull(rc, make([]byte, 100))
		rc.Close()
	case "noread":
		rc.Close()
	case "dblclose":
		io.Copy(io.Discard, rc)
		rc.Close()
		rc.Close()
	case "readpastend":
		io.Copy(io.Discard, rc)
		rc.Read(make([]byte, 10))
		rc.Read(make([]byte, 10))
		rc.Close()
	case "errdblclose":
		io.Copy(io.Discard, rc)
		rc.Close()
		rc.Close()
	}
	return ""
}

// alternate opens B and C through independent Readers and reads them alternately.
func (fx *poolFixture) alternate(chunkB, chunkC int) (problem string) {
	defer func() {
		if r := recover(); r != nil {
			problem = fmt.Sprintf("reading B and C alternately panicked: %v", r)
		}
	}()
	rb, err := fx.b.open()
	if err != nil {
		return "cannot open stream B: " + err.Error()
	}
	rcc, err := fx.c.open()
	if err != nil {
		return "cannot open stream C: " + err.Error()
	}
	var gb, gc []byte
	bb, bc := make([]byte, chunkB), make([]byte, chunkC)
	doneB, doneC := false, false
	for i := 0; i < 100000 && !(doneB && doneC); i++ {
		if !doneB {
			n, err := rb.Read(bb)
			gb = append(gb, bb[:n]...)
			if err == io.EOF {
				doneB = true
			} else if err != nil {
				return "stream B: " + err.Error()
			}
		}
		if !doneC {
			n, err := rcc.Read(bc)
			gc = append(gc, bc[:n]...)
			if err == io.EOF {
				doneC = true
			} else if err != nil {
				return "stream C: " + err.Error()
			}
		}
	}
	if err := rb.Close(); err != nil {
		return "closing B: " + err.Error()
	}
	if err := rcc.Close(); err != nil {
		return "closing C: " + err.Error()
	}
	if !bytes.Equal(gb, fx.b.want) {
		return fmt.Sprintf("stream B decoded to %d bytes which are not its %d bytes", len(gb), len(fx.b.want))
	}
	if !bytes.Equal(gc, fx.c.want) {
		return fmt.Sprintf("stream C decoded to %d bytes which are not its %d bytes", len(gc), len(fx.c.want))
	}
	return ""
}

// poolDrain empties the reader pool: decoders are opened and never closed.
func (fx *poolFixture) poolDrain() {
	for i := 0; i < 12; i++ {
		if rc, err := fx.a.open(); err == nil {
			rc.Read(make([]byte, 1))
		}
	}
}

// poolDeterministic runs f on a single P with the collector off (sync.Pool is per P and is
// cleared by the collector).
func poolDeterministic(f func()) {
	defer runtime.GOMAXPROCS(runtime.GOMAXPROCS(1))
	defer debug.SetGCPercent(debug.SetGCPercent(-1))
	f()
}

func poolReadScenario(fx *poolFixture, steps []string) string {
	fx.poolDrain()
	for _, k := range steps {
		if p := fx.poison(k); p != "" {
			return p
		}
	}
	return fx.alternate(64, 100)
}

// ---- close order of a filter chain with a producer goroutine (Flate below DCT)

// poolGateSource is the file of the Flate+DCT stream; when armed, the n-th ReadAt parks until it
// is released (it is the DCT producer goroutine, reading through the pooled zlib reader).
type poolGateSource struct {
	data    []byte
	armed   bool
	count   int
	after   int
	parked  chan struct{}
	release chan struct{}
}

func (g *poolGateSource) ReadAt(p []byte, off int64) (int, error) {
	if g.armed {
		g.count++
		if g.count == g.after {
			g.parked <- struct{}{}
			<-g.release
		}
	}
	if off >= int64(len(g.data)) {
		return 0, io.EOF
	}
	n := copy(p, g.data[off:])
	if n < len(p) {
		return n, io.EOF
	}
	return n, nil
}

// poolJPEG returns a baseline JPEG of some size.
func poolJPEG() ([]byte, error) {
	img := image.NewRGBA(image.Rect(0, 0, 320, 320))
	x := uint32(12345)
	for i := range img.Pix {
		x = x*1664525 + 1013904223
		img.Pix[i] = byte(x >> 24)
	}
	var b bytes.Buffer
	err := jpeg.Encode(&b, img, &jpeg.Options{Quality: 90})
	return b.Bytes(), err
}

// poolCloseOrderScenario: a stream with /Filter [/FlateDecode /DCTDecode] is opened; its DCT
// producer goroutine is held inside a source read (it is inside Read of the pooled zlib reader);
// the stream is closed in another goroutine.  Close must not hand the zlib reader back to the pool
// while the producer is still inside it: Close may not return, and two unrelated Flate streams
// opened meanwhile and read alternately must decode to exactly their bytes after the producer has
// been released.  Runs on one P with the pool drained, so a reader put back too early is the one
// the next Flate decode gets.
func poolCloseOrderScenario(fx *poolFixture) (key, problem string) {
	defer func() {
		if r := recover(); r != nil {
			key, problem = "pool-object-shared", fmt.Sprintf("the close-order scenario panicked: %v", r)
		}
	}()
	jp, err := poolJPEG()
	if err != nil {
		return "pool-fixture", err.Error()
	}
	buf := &bytes.Buffer{}
	w, err := poolNewWriter(poolChains[0], 33, buf)
	if err != nil {
		return "pool-fixture", err.Error()
	}
	ref := w.Alloc()
	stm, err := w.OpenStream(ref, pdf.Dict{"Filter": pdf.Array{pdf.Name("FlateDecode"), pdf.Name("DCTDecode")}})
	if err != nil {
		return "pool-fixture", err.Error()
	}
	stm.Write(poolZlib(jp))
	if err := stm.Close(); err != nil {
		return "pool-fixture", err.Error()
	}
	if err := w.Close(); err != nil {
		return "pool-fixture", err.Error()
	}
	src := &poolGateSource{data: buf.Bytes(), after: 2, parked: make(chan struct{}), release: make(chan struct{})}
	rd, err := pdf.NewReader(src, int64(len(src.data)), nil)
	if err != nil {
		return "pool-fixture", err.Error()
	}
	obj, err := rd.Get(ref, true)
	so, ok := obj.(*pdf.Stream)
	if err != nil || !ok {
		return "pool-fixture", fmt.Sprint("no stream: ", err)
	}
	fx.poolDrain()
	src.armed = true
	rc, err := pdf.DecodeStream(rd, nil, so)
	if err != nil {
		return "pool-fixture", "DecodeStream: " + err.Error()
	}
	select {
	case <-src.parked:
	case <-time.After(3 * time.Second):
		src.armed = false
		return "pool-fixture", "the DCT producer never reached its second source read"
	}
	src.armed = false
	closed := make(chan error, 1)
	go func() { closed <- rc.Close() }()
	for i := 0; i < 50; i++ {
		runtime.Gosched()
	}
	time.Sleep(20 * time.Millisecond)
	early := false
	select {
	case <-closed:
		early = true
	default:
	}
	// two unrelated (large) Flate streams, opened while the producer is still parked inside the
	// zlib reader
	bigB, e1 := poolMakeFile(poolChains[0], 51, 400000, nil)
	bigC, e2 := poolMakeFile(poolChains[0], 52, 300000, nil)
	if e1 != nil || e2 != nil {
		close(src.release)
		return "pool-fixture", fmt.Sprint(e1, e2)
	}
	rb, errB := bigB.open()
	rcc, errC := bigC.open()
	if errB != nil || errC != nil {
		close(src.release)
		return "pool-fixture", fmt.Sprint("cannot open B/C: ", errB, errC)
	}
	half := make([]byte, 1500)
	nb, _ := io.ReadFull(rb, half)
	gotB := append([]byte{}, half[:nb]...)
	nc, _ := io.ReadFull(rcc, half)
	gotC := append([]byte{}, half[:nc]...)
	close(src.release)
	if !early {
		select {
		case <-closed:
		case <-time.After(5 * time.Second):
			return "stream-close-hangs", "Close of the Flate+DCT stream did not return within 5 s after its producer was released"
		}
	}
	restB, eB := io.ReadAll(rb)
	restC, eC := io.ReadAll(rcc)
	rb.Close()
	rcc.Close()
	gotB = append(gotB, restB...)
	gotC = append(gotC, restC...)
	if early {
		return "stream-close-before-producer-stopped", "Close of a /Filter [/FlateDecode /DCTDecode] stream returned while the DCT producer goroutine was still inside a Read of the lower layers"
	}
	if eB != nil || eC != nil || !bytes.Equal(gotB, bigB.want) || !bytes.Equal(gotC, bigC.want) {
		return "pool-object-shared", fmt.Sprintf("a /Filter [/FlateDecode /DCTDecode] stream was closed while its DCT producer was inside a source read; two unrelated Flate streams opened meanwhile decode wrongly afterwards (B: %d of %d bytes, err %v; C: %d of %d bytes, err %v): the pooled zlib reader was handed out while the producer was still using it (the layers must be closed outermost first)", len(gotB), len(bigB.want), eB, len(gotC), len(bigC.want), eC)
	}
	return "", ""
}

// ---- writing side

var poolWPoisons = []string{"wnormal", "wdblclose", "wfail", "wabandon"}

type failAfter struct {
	n int
}

func (f *failAfter) Write(p []byte) (int, error) {
	if f.n <= 0 {
		return 0, errors.New("sink failed")
	}
	f.n -= len(p)
	return len(p), nil
}

func poolWritePoison(ch poolChain, kind string) (problem string) {
	defer func() {
		if r := recover(); r != nil {
			problem = fmt.Sprintf("write poison %s panicked: %v", kind, r)
		}
	}()
	var sink io.Writer = io.Discard
	if kind == "wfail" {
		sink = &failAfter{n: 600}
	}
	w, err := poolNewWriter(ch, 9, sink)
	if err != nil {
		return ""
	}
	stm, err := w.OpenStream(w.Alloc(), nil, ch.filters()...)
	if err != nil {
		return ""
	}
	stm.Write(poolData(9, 40000))
	switch kind {
	case "wnormal", "wfail":
		stm.Close()
	case "wdblclose":
		stm.Close()
		stm.Close()
	case "wabandon":
	}
	return ""
}

// poolWriteAlternate writes two files with two Writers whose compressed streams are open at the
// same time and are fed alternately; both files must be what they are when written alone.
func poolWriteAlternate(ch poolChain, wantB, wantC []byte) (problem string) {
	defer func() {
		if r := recover(); r != nil {
			problem = fmt.Sprintf("writing two streams alternately panicked: %v", r)
		}
	}()
	bufB, bufC := &bytes.Buffer{}, &bytes.Buffer{}
	wB, err := poolNewWriter(ch, 21, bufB)
	if err != nil {
		return err.Error()
	}
	wC, err := poolNewWriter(ch, 22, bufC)
	if err != nil {
		return err.Error()
	}
	sB, err := wB.OpenStream(wB.Alloc(), nil, ch.filters()...)
	if err != nil {
		return err.Error()
	}
	sC, err := wC.OpenStream(wC.Alloc(), nil, ch.filters()...)
	if err != nil {
		return err.Error()
	}
	dB, dC := poolData(21, 6000), poolData(22, 5000)
	for i := 0; i < 6000; i += 200 {
		if _, err := sB.Write(dB[i : i+200]); err != nil {
			return "writer B: " + err.Error()
		}
		if i < 5000 {
			if _, err := sC.Write(dC[i : i+200]); err != nil {
				return "writer C: " + err.Error()
			}
		}
	}
	for _, e := range []error{sB.Close(), sC.Close(), wB.Close(), wC.Close()} {
		if e != nil {
			return "closing the alternately written files: " + e.Error()
		}
	}
	if wantB != nil && (!bytes.Equal(bufB.Bytes(), wantB) || !bytes.Equal(bufC.Bytes(), wantC)) {
		return fmt.Sprintf("two files written alternately differ from the same files written alone (%d/%d vs %d/%d bytes)", bufB.Len(), bufC.Len(), len(wantB), len(wantC))
	}
	return ""
}

func poolWriteAlone(ch poolChain, seed, n int) ([]byte, error) {
	buf := &bytes.Buffer{}
	w, err := poolNewWriter(ch, seed, buf)
	if err != nil {
		return nil, err
	}
	s, err := w.OpenStream(w.Alloc(), nil, ch.filters()...)
	if err != nil {
		return nil, err
	}
	d := poolData(seed, n)
	for i := 0; i < n; i += 200 {
		if _, err := s.Write(d[i : i+200]); err != nil {
			return nil, err
		}
	}
	if err := s.Close(); err != nil {
		return nil, err
	}
	if err := w.Close(); err != nil {
		return nil, err
	}
	return buf.Bytes(), nil
}

func poolWriteScenario(ch poolChain, steps []string, wantB, wantC []byte) string {
	// empty the writer pool's duplicates, if any: the collector clears sync.Pools in two cycles
	runtime.GC()
	runtime.GC()
	for _, k := range steps {
		if p := poolWritePoison(ch, k); p != "" {
			return p
		}
	}
	return poolWriteAlternate(ch, wantB, wantC)
}

// ---- multi-goroutine variant

// runConcPoolGoroutines: g goroutines, each with its own files, poison and verify in a loop.
func runConcPoolGoroutines(c *Ctx, rounds int) {
	r := c.R.Fork()
	ng := 2 + r.Intn(3)
	var wg sync.WaitGroup
	var mu sync.Mutex
	var fails []string
	for g := 0; g < ng; g++ {
		ch := poolChains[(g+r.Intn(len(poolChains)))%len(poolChains)]
		fx, err := poolNewFixture(ch, 40+g*3)
		if err != nil {
			c.Violate("pool", "pool-fixture", "cannot write the test files: "+err.Error(), "")
			return
		}
		seed := r.U64()
		wg.Add(1)
		go func(g int, fx *poolFixture, rr *Rand) {
			defer wg.Done()
			for i := 0; i < rounds; i++ {
				k := poolPoisons[rr.Intn(len(poolPoisons))]
				p := fx.poison(k)
				if p == "" {
					p = fx.alternate(32+rr.Intn(200), 32+rr.Intn(200))
				}
				if p != "" {
					mu.Lock()
					if poolIsDouble(k) {
						p = "[double Close] " + p
					}
					fails = append(fails, fmt.Sprintf("goroutine %d (%s) after %s: %s", g, fx.chain.name, k, p))
					mu.Unlock()
					return
				}
				if i%4 == 0 {
					runtime.Gosched()
				}
			}
		}(g, fx, NewRand(seed))
	}
	wg.Wait()
	c.Case(fmt.Sprintf("pool goroutines %d", ng), true)
	c.StatN("pool discipline: goroutine rounds", ng*rounds)
	for i, f := range fails {
		if i < 3 {
			key := "pool-object-shared"
			if strings.Contains(f, "[double Close]") {
				key = "pool-double-close"
			}
			c.Violate("pool", key, f, "goroutines")
		}
	}
}

func runConcPool(c *Ctx) {
	var seqs [][]string
	for _, a := range poolPoisons {
		seqs = append(seqs, []string{a})
		for _, b := range poolPoisons {
			seqs = append(seqs, []string{a, b})
		}
	}
	poolDeterministic(func() {
		for ci, ch := range poolChains {
			fx, err := poolNewFixture(ch, 10+ci)
			if err != nil {
				c.Violate("pool", "pool-fixture", "cannot write the test files for chain "+ch.name+": "+err.Error(), "")
				continue
			}
			if ci == 0 {
				if key, p := poolCloseOrderScenario(fx); p != "" {
					c.Violate("pool", key, p, "closeorder")
				}
				c.Case("pool close order Flate+DCT", true)
				c.Stat("pool discipline: close-order scenario (Flate below DCT, producer held in a source read)")
			}
			for _, steps := range seqs {
				key := "pool-object-shared"
				for _, k := range steps {
					if poolIsDouble(k) {
						key = "pool-double-close"
					}
				}
				p := poolReadScenario(fx, steps)
				c.Case("pool read "+ch.name+" "+strings.Join(steps, ","), true)
				c.Stat("pool discipline: read scenarios")
				if p != "" {
					c.Violate("pool", key, fmt.Sprintf("chain %s, after the uses [%s] of a stream: %s", ch.name, strings.Join(steps, ", "), p), "read "+ch.name+" "+strings.Join(steps, ","))
				}
			}
			// writing side
			if ci%2 == 0 || c.Thorough {
				wantB, e1 := poolWriteAlone(ch, 21, 6000)
				wantC, e2 := poolWriteAlone(ch, 22, 5000)
				if e1 != nil || e2 != nil {
					c.Violate("pool", "pool-fixture", fmt.Sprintf("cannot write the baseline files for chain %s: %v %v", ch.name, e1, e2), "")
					continue
				}
				if ch.version >= pdf.V2_0 {
					wantB, wantC = nil, nil // AES: random IVs, the bytes differ from run to run
				}
				var wseqs [][]string
				for _, a := range poolWPoisons {
					wseqs = append(wseqs, []string{a})
					for _, b := range poolWPoisons {
						wseqs = append(wseqs, []string{a, b})
					}
				}
				for _, steps := range wseqs {
					key := "pool-object-shared"
					for _, k := range steps {
						if k == "wdblclose" {
							key = "pool-double-close"
						}
					}
					p := poolWriteScenario(ch, steps, wantB, wantC)
					c.Case("pool write "+ch.name+" "+strings.Join(steps, ","), true)
					c.Stat("pool discipline: write scenarios")
					if p != "" {
						c.Violate("pool", key, fmt.Sprintf("chain %s, after the writes [%s]: %s", ch.name, strings.Join(steps, ", "), p), "write "+ch.name+" "+strings.Join(steps, ","))
					}
				}
			}
		}
	})
	runtime.GC()
	runtime.GC()
	rounds := 60
	if c.Thorough {
		rounds = 400
	}
	runConcPoolGoroutines(c, rounds)
}

func replayConcPool(input string) (bool, string) {
	f := strings.Fields(input)
	if input == "closeorder" {
		var key, p string
		poolDeterministic(func() {
			fx, err := poolNewFixture(poolChains[0], 10)
			if err != nil {
				key, p = "pool-fixture", err.Error()
				return
			}
			key, p = poolCloseOrderScenario(fx)
		})
		return p == "", key + ": " + p
	}
	if len(f) != 3 {
		return true, "the multi-goroutine variant is not replayable deterministically: re-run ./check C18 quick"
	}
	var res string
	poolDeterministic(func() {
		for ci, ch := range poolChains {
			if ch.name != f[1] {
				continue
			}
			steps := strings.Split(f[2], ",")
			if f[0] == "read" {
				fx, err := poolNewFixture(ch, 10+ci)
				if err != nil {
					res = err.Error()
					return
				}
				res = poolReadScenario(fx, steps)
			} else {
				wantB, _ := poolWriteAlone(ch, 21, 6000)
				wantC, _ := poolWriteAlone(ch, 22, 5000)
				if ch.version >= pdf.V2_0 {
					wantB, wantC = nil, nil
				}
				res = poolWriteScenario(ch, steps, wantB, wantC)
			}
		}
	})
	detail := fmt.Sprintf("%s scenario, chain %s, steps [%s], then two streams of independent files handled alternately", f[0], f[1], f[2])
	if res == "" {
		return true, detail + ": both are exactly their bytes"
	}
	return false, detail + ": " + res
}

package main

import (
	"bytes"
	"fmt"
	"image"
	"image/jpeg"
	"io"
	"runtime"
	"strings"
	"time"

	"seehuhn.de/go/pdf"
)

// ---- C08: filter chains with a goroutine-owning decoder at every position, four life cycles ----
//
// The only decoder of internal/filter that starts a goroutine is DCT (dct.Decode: io.Pipe + go
// func).  Chains of length 2 and 3 over {ASCIIHex, ASCII85, RunLength, LZW, Flate(+predictor),
// CCITTFax, DCT, JBIG2, Crypt-Identity} with DCT at every position are decoded through
// DecodeStream 50 times per case under the life cycles
//   cfail  construction fails at a layer above the DCT layer (bad parameters / unusable input)
//   eof    read to the end, then Close
//   early  read a few bytes, then Close
//   none   Close without reading
// Oracle (in the child): runtime.NumGoroutine is back at the baseline after a settle period and
// the retained heap has not grown by more than 8 MiB.  Class key chain-goroutine-leak.

var fbChainNames = []string{"AHx", "A85", "RL", "LZW", "Fl", "CCF", "DCT", "JBIG2", "Crypt"}

func fbChainPDFName(n string) pdf.Name {
	return map[string]pdf.Name{"AHx": "ASCIIHexDecode", "A85": "ASCII85Decode", "RL": "RunLengthDecode", "LZW": "LZWDecode",
		"Fl": "FlateDecode", "CCF": "CCITTFaxDecode", "DCT": "DCTDecode", "JBIG2": "JBIG2Decode", "Crypt": "Crypt"}[n]
}

// fbChainParms: good parameters of a layer (nil = none).
func fbChainParms(n string) pdf.Dict {
	switch n {
	case "Fl":
		return pdf.Dict{"Predictor": pdf.Integer(12), "Columns": pdf.Integer(8)}
	case "CCF":
		return pdf.Dict{"K": pdf.Integer(-1), "Columns": pdf.Integer(64)}
	case "Crypt":
		return pdf.Dict{"Name": pdf.Name("Identity")}
	}
	return nil
}

// fbChainEncode: the bytes which layer n decodes to payload (DCT and JBIG2 cannot carry a
// payload: they get a valid file of their own and the layers above them see pixels).
func fbChainEncode(n string, payload, jpg, jb2 []byte) []byte {
	pad := func(b []byte, m int) []byte {
		if r := len(b) % m; r != 0 {
			b = append(append([]byte{}, b...), make([]byte, m-r)...)
		}
		return b
	}
	var f pdf.Filter
	switch n {
	case "AHx":
		f = pdf.FilterASCIIHex{}
	case "A85":
		f = pdf.FilterASCII85{}
	case "RL":
		f = pdf.FilterRunLength{}
	case "LZW":
		f = pdf.FilterLZW{OffByOne: true}
	case "Fl":
		f = pdf.FilterFlate{Predictor: 12, Columns: 8}
		payload = pad(payload, 8)
	case "CCF":
		f = pdf.FilterCCITTFax{K: -1, Columns: 64}
		payload = pad(payload, 8)
	case "DCT":
		return jpg
	case "JBIG2":
		return jb2
	default: // Crypt Identity
		return payload
	}
	enc, err, _ := fbEncode(f, pdf.V1_7, payload, NewRand(1), 0)
	if err != nil {
		return payload
	}
	return enc
}

func fbJPEGBytes(gray bool, w, h int) []byte {
	var b bytes.Buffer
	if gray {
		img := image.NewGray(image.Rect(0, 0, w, h))
		for i := range img.Pix {
			img.Pix[i] = byte(i * 7)
		}
		jpeg.Encode(&b, img, nil)
	} else {
		img := image.NewRGBA(image.Rect(0, 0, w, h))
		for i := range img.Pix {
			img.Pix[i] = byte(i * 13)
		}
		jpeg.Encode(&b, img, nil)
	}
	return b.Bytes()
}

// fbChainRacy: a FlateDecode layer below a DCTDecode layer, closed while the DCT goroutine may
// still be reading from it (every life cycle except reading to the end).  On library HEAD 89d3452
// DecodeStream's new "close every layer" returns the pooled zlib reader while the DCT goroutine
// is inside Read: nil pointer panic in compress/zlib in that goroutine = process crash
// (class chain-close-race, probe notes/FB_probe_dct_close_race.go.txt).  These cases run in a
// batch of their own so that the crashes do not starve the goroutine oracle of the other chains.
func (cc fbChainCase) racy() bool {
	if cc.mode == "eof" {
		return false
	}
	fl := false
	for _, n := range cc.names {
		if n == "Fl" {
			fl = true
		}
		if n == "DCT" && fl {
			return true
		}
	}
	return false
}

type fbChainCase struct {
	names []string
	mode  string // eof | early | none | cfail
	failK int    // cfail: the layer that is made to fail
}

// fbChainBuild returns the stream dictionary and body of a case.
func fbChainBuild(cc fbChainCase, jpg, jb2 []byte) (pdf.Dict, []byte) {
	// body: encode from the innermost layer outwards; the payload of the last layer is text
	payload := []byte("the quick brown fox jumps over the lazy dog 0123456789 ")
	payload = bytes.Repeat(payload, 8)
	for i := len(cc.names) - 1; i >= 0; i-- {
		payload = fbChainEncode(cc.names[i], payload, jpg, jb2)
	}
	names := make(pdf.Array, len(cc.names))
	parms := make(pdf.Array, len(cc.names))
	for i, n := range cc.names {
		names[i] = fbChainPDFName(n)
		if p := fbChainParms(n); p != nil {
			parms[i] = p
		}
		if cc.mode == "cfail" && i == cc.failK {
			switch n {
			case "Fl", "LZW": // parameters the predictor rejects
				parms[i] = pdf.Dict{"Predictor": pdf.Integer(12), "Colors": pdf.Integer(9999)}
			case "CCF": // buffers above the stream budget
				parms[i] = pdf.Dict{"K": pdf.Integer(-1), "Columns": pdf.Integer(1 << 20)}
			}
		}
	}
	return pdf.Dict{"Filter": names, "DecodeParms": parms}, payload
}

// fbChainCanFail: can layer k be made to fail at construction (cfail)?  Flate/LZW by parameters;
// JBIG2 fails by itself when its input is not a JBIG2 page (it is below a layer that produces
// pixels or text); Flate also fails on a bad zlib header.
func fbChainCanFail(names []string, k int) bool {
	switch names[k] {
	case "Fl", "LZW":
		return true
	case "JBIG2":
		return k > 0
	}
	return false
}

func fbChainCases(r *Rand, thorough bool) []fbChainCase {
	var chains [][]string
	for _, x := range fbChainNames { // length 2, DCT at either position
		chains = append(chains, []string{"DCT", x})
		if x != "DCT" {
			chains = append(chains, []string{x, "DCT"})
		}
	}
	for _, x := range fbChainNames { // length 3: every ordered pair around DCT at positions 0, 1, 2
		for _, y := range fbChainNames {
			chains = append(chains, []string{"DCT", x, y}, []string{x, "DCT", y}, []string{x, y, "DCT"})
		}
	}
	var out []fbChainCase
	seen := map[string]bool{}
	for _, names := range chains {
		key := strings.Join(names, ",")
		if seen[key] {
			continue
		}
		seen[key] = true
		crypt := false // a Crypt filter above position 0 is rejected by GetFilters before any layer is built
		for i, n := range names {
			crypt = crypt || (n == "Crypt" && i > 0)
		}
		for _, mode := range []string{"eof", "early", "none"} {
			// quick: all life cycles for length 2, a rotating one for length 3 plus all cfail cases
			if !thorough && len(names) == 3 && !crypt && r.Intn(3) != 0 {
				continue
			}
			out = append(out, fbChainCase{names: names, mode: mode})
		}
		for k := range names {
			if !crypt && fbChainCanFail(names, k) {
				dctBelow := false
				for i := 0; i < k; i++ {
					dctBelow = dctBelow || names[i] == "DCT"
				}
				if dctBelow {
					out = append(out, fbChainCase{names: names, mode: "cfail", failK: k})
				}
			}
		}
	}
	return out
}

// fbChildChainCase runs in the child: 50 repetitions of one chain life cycle.
func fbChildChainCase(dictWire, mode string, body []byte) (word string, n int, leaked int, detail string) {
	defer func() {
		if p := recover(); p != nil {
			word, detail = "panic", strings.ReplaceAll(fmt.Sprint(p), "\n", " ")
		}
	}()
	obj, err := fbUnwireOne(dictWire)
	if err != nil {
		return "badcase", 0, 0, "cannot read the dictionary"
	}
	dict, _ := obj.(pdf.Dict)
	g := &fbGetter{meta: pdf.MetaInfo{Version: pdf.V2_0}}
	runtime.GC()
	var ms runtime.MemStats
	runtime.ReadMemStats(&ms)
	heap0 := ms.HeapAlloc
	before := runtime.NumGoroutine()
	word = "data"
	built := 0
	for rep := 0; rep < 50; rep++ {
		// a fresh copy of the dictionary: DecodeStream must not depend on shared state
		rd, err := pdf.DecodeStream(g, nil, pdf.NewStream(dict, body))
		if err != nil {
			word, detail = "other", err.Error()
			if pdf.IsMalformed(err) {
				word = "malformed"
			}
			continue
		}
		built++
		switch mode {
		case "eof":
			k, err := io.Copy(io.Discard, io.LimitReader(rd, 16<<20))
			n = int(k)
			if err != nil {
				word, detail = "other", err.Error()
				if pdf.IsMalformed(err) {
					word = "malformed"
				}
			}
		case "early":
			k, _ := io.ReadFull(rd, make([]byte, 10))
			n = k
		}
		rd.Close()
	}
	settle := 100
	if fbChildLeaksSeen >= 3 {
		settle = 10 // the leak is established: do not wait long for every further case
	}
	for i := 0; i < settle && runtime.NumGoroutine() > before; i++ {
		runtime.GC()
		time.Sleep(time.Millisecond * time.Duration(1+i/10))
	}
	leaked = runtime.NumGoroutine() - before
	if leaked > 0 {
		fbChildLeaksSeen++
	}
	runtime.GC()
	runtime.ReadMemStats(&ms)
	growth := int64(ms.HeapAlloc) - int64(heap0)
	detail = fmt.Sprintf("built=%d/50 heapgrowth=%d %s", built, growth, strings.ReplaceAll(detail, "\n", " "))
	if growth > 8<<20 {
		word = "heapgrowth"
	}
	if mode == "cfail" && built > 0 {
		detail = "construction was expected to fail; " + detail
	}
	return word, n, leaked, detail
}

var fbChildLeaksSeen int

package main

// C14 (FNT) — every text-showing entry point of the content Builder under
// BUFFER REUSE.  The Builder keeps the operators of a page in memory and the
// page is serialised when it is closed, so whatever the Builder keeps must not
// alias the caller's objects: the caller encodes several strings into ONE
// reused backing array, calls the show method, then overwrites the buffer and
// mutates every slice it passed (the TJ argument list, the strings inside it,
// the glyph sequence) before the content stream is written.  Oracle: the
// strings (and TJ numbers) scanned back from the serialised content stream
// equal the codes that were shown at call time, operator by operator.
//
// The entry points are enumerated by reflection over *builder.Builder: every
// method called TextShow… or taking a pdf.String, []pdf.Object or
// *font.GlyphSeq must have a driver below (or be listed as not showing text);
// a new entry point without a driver fails the check.

import (
	"bytes"
	"encoding/json"
	"fmt"
	"reflect"
	"sort"
	"strings"

	"seehuhn.de/go/pdf"
	"seehuhn.de/go/pdf/document"
	"seehuhn.de/go/pdf/font"
	"seehuhn.de/go/pdf/graphics/content"
	"seehuhn.de/go/pdf/graphics/content/builder"
	"seehuhn.de/go/pdf/page"
	"seehuhn.de/go/pdf/pagetree"
)

func init() {
	addRun("C14", "text-showing entry points of the content Builder under buffer reuse: all methods of *builder.Builder found by reflection (TextShow, TextShowAligned, TextShowGlyphs, TextShowRaw, TextShowNextLineRaw, TextShowSpacedRaw, TextShowKernedRaw at this HEAD), 3-12 calls per page in random order over 8 font kinds; all strings of a page are encoded into one reused backing array, which is overwritten after every call, the TJ argument slice and the glyph sequence (with rise changes and kerning) are mutated after the call; the page is serialised afterwards; a case is one page, non-trivial with at least 3 show operators; distinct by font+calls", runFntShow)
	addReplay("C14", "fnt-show", fntReplayShow)
}

// methods that take a glyph sequence or strings but emit no text-showing operator
var fntShowIgnored = map[string]string{
	"TextLayout":        "appends to the caller's glyph sequence, emits nothing",
	"TextGetQuadPoints": "geometry query",
}

var fntShowDrivers = map[string]bool{
	"TextShow": true, "TextShowAligned": true, "TextShowGlyphs": true, "TextShowRaw": true,
	"TextShowNextLineRaw": true, "TextShowSpacedRaw": true, "TextShowKernedRaw": true,
}

// fntShowEntryPoints lists the Builder methods that can show text, by reflection.
func fntShowEntryPoints() (eps []string, uncovered []string) {
	t := reflect.TypeOf(&builder.Builder{})
	strT := reflect.TypeOf(pdf.String(nil))
	objsT := reflect.TypeOf([]pdf.Object(nil))
	arrT := reflect.TypeOf(pdf.Array(nil))
	seqT := reflect.TypeOf(&font.GlyphSeq{})
	for i := 0; i < t.NumMethod(); i++ {
		m := t.Method(i)
		cand := strings.HasPrefix(m.Name, "TextShow")
		if strings.HasPrefix(m.Name, "Text") {
			for j := 1; j < m.Type.NumIn(); j++ {
				switch m.Type.In(j) {
				case strT, objsT, arrT, seqT:
					cand = true
				}
			}
		}
		if !cand {
			continue
		}
		if _, ok := fntShowIgnored[m.Name]; ok {
			continue
		}
		eps = append(eps, m.Name)
		if !fntShowDrivers[m.Name] {
			uncovered = append(uncovered, m.Name)
		}
	}
	sort.Strings(eps)
	return eps, uncovered
}

type fntShowOp struct {
	E     string   `json:"e"`           // entry point
	T     []string `json:"t"`           // source texts (several for TJ)
	K     []int    `json:"k,omitempty"` // TJ kerns between the strings
	Rise  bool     `json:"rise,omitempty"`
	Align float64  `json:"q,omitempty"`
}

type fntShowCase struct {
	Font    string      `json:"font"`
	Version string      `json:"v"`
	Ops     []fntShowOp `json:"ops"`
}

// one text-showing operator as written / as read back: strings and numbers in order
type fntShownOp struct {
	name  string
	items []string // "s:<hex>" or "n:<number>"
	rise  float64  // text rise in force (Ts) when the operator is executed
	tc    float64  // character spacing in force (after the operator's own effect for ")
	tw    float64  // word spacing in force
}

func (o fntShownOp) String() string { return o.name + " " + strings.Join(o.items, " ") }

func fntEncodeGlyphs(F font.Layouter, gg []font.Glyph, into []byte) []byte {
	codec := F.Codec()
	for _, g := range gg {
		if code, ok := F.Encode(g.GID, g.Text); ok {
			into = codec.AppendCode(into, code)
		}
	}
	return into
}

func fntIsShowOp(n content.OpName) bool {
	switch n {
	case content.OpTextShow, content.OpTextShowArray, content.OpTextShowMoveNextLine, content.OpTextShowMoveNextLineSetSpacing:
		return true
	}
	return false
}

func fntShownFromArgs(name content.OpName, args []pdf.Object) fntShownOp {
	o := fntShownOp{name: string(name)}
	var add func(a pdf.Object)
	add = func(a pdf.Object) {
		switch x := a.(type) {
		case pdf.String:
			o.items = append(o.items, "s:"+hx(x))
		case pdf.Array:
			for _, e := range x {
				add(e)
			}
		case pdf.Integer:
			o.items = append(o.items, fmt.Sprintf("n:%g", float64(x)))
		case pdf.Real:
			o.items = append(o.items, fmt.Sprintf("n:%g", float64(x)))
		case pdf.Number:
			o.items = append(o.items, fmt.Sprintf("n:%g", float64(x)))
		default:
			o.items = append(o.items, fmt.Sprintf("?:%T", a))
		}
	}
	for _, a := range args {
		add(a)
	}
	return o
}

func (o fntShownOp) codes() string {
	var sb strings.Builder
	for _, it := range o.items {
		if strings.HasPrefix(it, "s:") {
			sb.WriteString(it[2:])
		}
	}
	return sb.String()
}

type fntLaidGlyph struct {
	x, rise float64
	blank   bool
}

type fntShowResult struct {
	viols   []fntViol
	ops     int
	skipped string
}

func fntRunShow(tc *fntShowCase) (res fntShowResult) {
	viol := func(key, format string, a ...any) {
		res.viols = append(res.viols, fntViol{"fnt-show", key, fmt.Sprintf(format, a...)})
	}
	defer func() {
		if p := recover(); p != nil {
			viol("show-panic", "panic: %v", p)
		}
	}()
	k := fntKindByLabel(tc.Font)
	if k == nil {
		res.skipped = "unknown font"
		return
	}
	F, err := k.mk()
	if err != nil {
		res.skipped = "font: " + err.Error()
		return
	}
	out := &bytes.Buffer{}
	doc, err := document.WriteSinglePage(out, document.A4, fntVersionByName(tc.Version), nil)
	if err != nil {
		res.skipped = "writer: " + err.Error()
		return
	}
	doc.TextBegin()
	doc.TextSetFont(F, 10)
	doc.TextSetLeading(12)
	doc.TextFirstLine(36, 800)

	// the one backing array every string of this page is encoded into
	shared := make([]byte, 0, 8192)
	scribble := func(round int) {
		full := shared[:cap(shared)]
		for i := range full {
			full[i] = byte(0xA5 ^ round ^ i)
		}
	}

	type call struct {
		entry    string
		nOps     int      // text-showing operators the call emitted
		codes    string   // hex of all codes shown by the call, in order
		exact    []string // raw entry points: the exact item list of the single operator
		atCall   []fntShownOp
		laid     []fntLaidGlyph // TextShowGlyphs: the glyph positions asked for
		callDesc string
	}
	var calls []call
	for round, op := range tc.Ops {
		before := len(doc.Stream)
		cl := call{entry: op.E, callDesc: fmt.Sprintf("#%d %s%q", round, op.E, op.T)}
		text := ""
		if len(op.T) > 0 {
			text = op.T[0]
		}
		recycle := func() {}
		switch op.E {
		case "TextShow", "TextShowAligned":
			// the glyphs the Builder's own layout (font.Typesetter) produces for the text
			seq := doc.TextLayout(nil, text)
			cl.codes = hx(fntEncodeGlyphs(F, seq.Seq, nil))
			if op.E == "TextShow" {
				doc.TextShow(text)
			} else {
				doc.TextShowAligned(text, 300, op.Align)
			}
		case "TextShowGlyphs":
			seq := doc.TextLayout(nil, text)
			if op.Rise {
				// segments of 3 glyphs with rise 0 / 2.5 / -1.5 / 0 …, and extra advance (kerning
				// in the TJ array) on the first and second glyph of every segment: kerned text on
				// both sides of every change of rise
				rises := []float64{0, 2.5, -1.5}
				for i := range seq.Seq {
					seq.Seq[i].Rise = rises[(i/3)%3]
					switch i % 3 {
					case 0:
						seq.Seq[i].Advance += 1.5
					case 1:
						seq.Seq[i].Advance -= 0.75
					}
				}
			}
			// what was laid out: position and rise of every glyph, relative to the start of the call
			x := seq.Skip
			for _, g := range seq.Seq {
				if _, ok := F.Encode(g.GID, g.Text); ok {
					cl.laid = append(cl.laid, fntLaidGlyph{x, g.Rise, F.IsBlank(g.GID)})
				}
				x += g.Advance
			}
			cl.codes = hx(fntEncodeGlyphs(F, seq.Seq, nil))
			doc.TextShowGlyphs(seq)
			recycle = func() { // the caller recycles its glyph sequence
				for i := range seq.Seq {
					seq.Seq[i] = font.Glyph{GID: 1, Text: "#", Advance: 99, Rise: -7}
				}
				seq.Seq = append(seq.Seq[:0], font.Glyph{GID: 2, Text: "!"})
				seq.Skip = 42
			}
		case "TextShowRaw", "TextShowNextLineRaw", "TextShowSpacedRaw":
			seq := F.Layout(nil, 10, text)
			shared = fntEncodeGlyphs(F, seq.Seq, shared[:0])
			s := pdf.String(shared)
			cl.codes = hx(s)
			switch op.E {
			case "TextShowRaw":
				doc.TextShowRaw(s)
				cl.exact = []string{"s:" + cl.codes}
			case "TextShowNextLineRaw":
				doc.TextShowNextLineRaw(s)
				cl.exact = []string{"s:" + cl.codes}
			default:
				doc.TextShowSpacedRaw(1.5, 0.25, s)
				cl.exact = []string{"n:1.5", "n:0.25", "s:" + cl.codes}
			}
		case "TextShowKernedRaw":
			// all strings of the TJ array are consecutive pieces of the shared buffer
			shared = shared[:0]
			var args []pdf.Object
			for i, t := range op.T {
				start := len(shared)
				shared = fntEncodeGlyphs(F, F.Layout(nil, 10, t).Seq, shared)
				piece := pdf.String(shared[start:len(shared):len(shared)])
				args = append(args, piece)
				cl.exact = append(cl.exact, "s:"+hx(piece))
				cl.codes += hx(piece)
				if i < len(op.K) {
					switch i % 3 {
					case 0:
						args = append(args, pdf.Integer(op.K[i]))
					case 1:
						args = append(args, pdf.Real(float64(op.K[i])))
					default:
						args = append(args, pdf.Number(float64(op.K[i])))
					}
					cl.exact = append(cl.exact, fmt.Sprintf("n:%g", float64(op.K[i])))
				}
			}
			doc.TextShowKernedRaw(args...)
			recycle = func() { // the caller recycles the argument list
				for i := range args {
					if i%2 == 0 {
						args[i] = pdf.Integer(-12345)
					} else {
						args[i] = pdf.String("overwritten")
					}
				}
			}
		default:
			viol("show-entry-point-not-covered", "no driver for Builder.%s", op.E)
			continue
		}
		if doc.Err != nil {
			viol("show-builder-error", "%s: %v", cl.callDesc, doc.Err)
			return
		}
		// snapshot (deep copy, as hex) of what the Builder holds right after the call
		for _, o := range doc.Stream[before:] {
			if fntIsShowOp(o.Name) {
				cl.nOps++
				cl.atCall = append(cl.atCall, fntShownFromArgs(o.Name, o.Args))
			}
		}
		calls = append(calls, cl)
		recycle()
		scribble(round + 1) // the caller reuses its buffer for something else
	}
	doc.TextEnd()
	if err := doc.Close(); err != nil {
		msg := err.Error()
		if strings.Contains(msg, "version") || strings.Contains(msg, "too many glyphs") {
			res.skipped = "close: " + msg
			return
		}
		viol("show-close-error", "Close: %v", err)
		return
	}

	// ---- scan the serialised content stream
	r, err := pdf.NewReader(bytes.NewReader(out.Bytes()), int64(out.Len()), nil)
	if err != nil {
		viol("show-reopen", "NewReader: %v", err)
		return
	}
	_, pageDict, err := pagetree.GetPage(r, 0)
	if err != nil {
		viol("show-reopen", "GetPage: %v", err)
		return
	}
	pg, err := pdf.Decode(pdf.CursorAt(pdf.NewExtractor(r), nil), pageDict, page.Decode)
	if err != nil {
		viol("show-reopen", "page.Decode: %v", err)
		return
	}
	var shown []fntShownOp
	it := pg.NewIter()
	curRise, curTc, curTw := 0.0, 0.0, 0.0
	for name, args := range it.All() {
		if name == content.OpTextSetRise && len(args) == 1 {
			switch x := args[0].(type) {
			case pdf.Integer:
				curRise = float64(x)
			case pdf.Real:
				curRise = float64(x)
			case pdf.Number:
				curRise = float64(x)
			}
		}
		num := func(a pdf.Object) float64 {
			switch x := a.(type) {
			case pdf.Integer:
				return float64(x)
			case pdf.Real:
				return float64(x)
			case pdf.Number:
				return float64(x)
			}
			return 0
		}
		switch {
		case name == content.OpTextSetCharacterSpacing && len(args) == 1:
			curTc = num(args[0])
		case name == content.OpTextSetWordSpacing && len(args) == 1:
			curTw = num(args[0])
		case name == content.OpTextShowMoveNextLineSetSpacing && len(args) == 3:
			curTw, curTc = num(args[0]), num(args[1])
		}
		if fntIsShowOp(name) {
			o := fntShownFromArgs(name, args)
			o.rise, o.tc, o.tw = curRise, curTc, curTw
			shown = append(shown, o)
		}
	}
	if err := it.Err(); err != nil {
		viol("show-reopen", "content stream: %v", err)
		return
	}
	res.ops = len(shown)
	pos := 0
	for _, cl := range calls {
		if pos+cl.nOps > len(shown) {
			viol("show-operator-count", "%s emitted %d text-showing operators, the written stream has only %d left", cl.callDesc, cl.nOps, len(shown)-pos)
			return
		}
		mine := shown[pos : pos+cl.nOps]
		pos += cl.nOps
		got := ""
		for _, o := range mine {
			got += o.codes()
		}
		held := ""
		midTJ := false
		for i, o := range cl.atCall {
			held += o.codes()
			if o.name == string(content.OpTextShowArray) && i < len(cl.atCall)-1 {
				midTJ = true
			}
		}
		if held != cl.codes {
			// wrong already when the call returned: not the caller's later writes
			key := "show-wrong-at-call-time"
			if cl.entry == "TextShowGlyphs" && midTJ {
				// D40 (fixed in 6879d47): the TJ array emitted at a flush in the middle of the sequence
				// was truncated and re-filled by the rest of the same call
				key = "showglyphs-tj-array-reused"
			}
			viol(key, "%s PDF %s %s: codes <%s> were to be shown, when the call returned the Builder held <%s> (%v)", tc.Font, tc.Version, cl.callDesc, truncate(cl.codes), truncate(held), cl.atCall)
			continue
		}
		if got != cl.codes {
			viol("show-aliases-caller-buffer", "%s PDF %s %s: codes <%s> were shown, the content stream written after the caller reused its buffers has <%s> (%v)", tc.Font, tc.Version, cl.callDesc, truncate(cl.codes), truncate(got), mine)
			continue
		}
		if cl.laid != nil {
			// per segment: the strings and the kerns between them put every glyph where it was
			// laid out (the Builder rounds a kern to 1/1000 of the font size and does not adjust in
			// front of blank glyphs), with the rise it was given
			const size = 10.0
			x := 0.0
			gi := 0
			bad := false
			for _, o := range mine {
				for _, it := range o.items {
					if strings.HasPrefix(it, "n:") {
						var kern float64
						fmt.Sscanf(it[2:], "%g", &kern)
						x -= kern / 1000 * size
						continue
					}
					raw, _ := hexDecode(it[2:])
					for code := range F.Codes(pdf.String(raw)) {
						if gi < len(cl.laid) && !bad {
							l := cl.laid[gi]
							if !l.blank && (x-l.x > 0.0011*size || l.x-x > 0.0011*size) {
								viol("show-glyph-position", "%s PDF %s %s: glyph %d was laid out at x=%.4f, the written operators put it at x=%.4f (%v)", tc.Font, tc.Version, cl.callDesc, gi, l.x, x, mine)
								bad = true
							}
							if o.rise != l.rise {
								viol("show-glyph-position", "%s PDF %s %s: glyph %d was given rise %g, the written operators show it with rise %g (%v)", tc.Font, tc.Version, cl.callDesc, gi, l.rise, o.rise, mine)
								bad = true
							}
						}
						gi++
						x += code.Width*size + o.tc
						if code.UseWordSpacing {
							x += o.tw
						}
					}
				}
			}
			if gi != len(cl.laid) && !bad {
				viol("show-glyph-position", "%s PDF %s %s: %d glyphs laid out, %d codes in the written operators", tc.Font, tc.Version, cl.callDesc, len(cl.laid), gi)
			}
		}
		if cl.exact != nil {
			if len(mine) != 1 || strings.Join(mine[0].items, " ") != strings.Join(cl.exact, " ") {
				viol("show-aliases-caller-buffer", "%s PDF %s %s: operands %v were passed, the content stream has %v", tc.Font, tc.Version, cl.callDesc, cl.exact, mine)
			}
		}
	}
	if pos != len(shown) {
		viol("show-operator-count", "%d text-showing operators written, %d accounted for by the calls", len(shown), pos)
	}
	return res
}

func fntReplayShow(input string) (bool, string) {
	var tc fntShowCase
	if err := json.Unmarshal([]byte(input), &tc); err != nil {
		return false, "bad replay input: " + err.Error()
	}
	res := fntRunShow(&tc)
	if len(res.viols) > 0 {
		return false, res.viols[0].key + ": " + res.viols[0].desc
	}
	if res.skipped != "" {
		return true, "case not evaluated: " + res.skipped
	}
	return true, fmt.Sprintf("%d text-showing operators read back with the codes shown at call time", res.ops)
}

var fntShowFonts = []string{"CFFSimple1", "TrueTypeSimple", "Type1a", "Std-Helvetica", "CFFComposite1", "TrueTypeComposite", "CFFComposite-utf8", "X/cff/rosJapan1/UniJIS-UTF16-H"}

func runFntShow(c *Ctx) {
	fntInitKinds()
	eps, uncovered := fntShowEntryPoints()
	c.Sample("Builder text-showing entry points (reflection): " + strings.Join(eps, ", "))
	for _, m := range uncovered {
		c.Violate("fnt-show", "show-entry-point-not-covered", "Builder."+m+" takes strings or glyphs but the harness has no driver for it", "")
	}
	for d := range fntShowDrivers {
		found := false
		for _, e := range eps {
			found = found || e == d
		}
		if !found {
			c.Stat("show.driver-without-method." + d)
		}
	}
	// probe (regression detector): kerning before a change of rise inside one glyph sequence
	probe := &fntShowCase{Font: "Std-Helvetica", Version: "1.7", Ops: []fntShowOp{{E: "TextShowGlyphs", T: []string{"abcdefghijklmn"}, Rise: true}}}
	pres := fntRunShow(probe)
	praw, _ := json.Marshal(probe)
	for _, v := range pres.viols {
		c.Violate(v.oracle, v.key, v.desc, string(praw))
	}
	c.Case(string(praw), true)
	r := c.R.Fork()
	n := 60
	if c.Thorough {
		n = 1200
	}
	for i := 0; i < n; i++ {
		rr := r.Fork()
		label := fntShowFonts[i%len(fntShowFonts)]
		k := fntKindByLabel(label)
		if k == nil {
			continue
		}
		F, err := k.mk()
		if err != nil {
			c.Violate("fnt-show", "e2e-font-construct", label+": "+err.Error(), "")
			continue
		}
		alpha := fntAlphabet(k, F)
		if len(alpha) == 0 {
			continue
		}
		vs, _ := Pick(rr, []pdf.Version{pdf.V1_4, pdf.V1_6, pdf.V1_7, pdf.V2_0}).ToString()
		tc := &fntShowCase{Font: label, Version: vs}
		no := 3 + rr.Intn(10)
		for j := 0; j < no; j++ {
			// every entry point on the first pages, random afterwards
			e := eps[(i/len(fntShowFonts)+j)%len(eps)]
			if i >= 2*len(fntShowFonts) {
				e = Pick(rr, eps)
			}
			op := fntShowOp{E: e, T: []string{fntGenString(rr, alpha, 1+rr.Intn(25))}, Rise: rr.P(2, 3), Align: float64(rr.Intn(3)) / 2}
			if e == "TextShowGlyphs" && op.Rise {
				op.T[0] = fntGenString(rr, alpha, 10+rr.Intn(20)) // at least three segments
			}
			if e == "TextShowKernedRaw" {
				np := 1 + rr.Intn(4)
				for len(op.T) < np {
					op.T = append(op.T, fntGenString(rr, alpha, 1+rr.Intn(8)))
					op.K = append(op.K, rr.Intn(400)-200)
				}
			}
			tc.Ops = append(tc.Ops, op)
		}
		res := fntRunShow(tc)
		raw, _ := json.Marshal(tc)
		for _, v := range res.viols {
			c.Violate(v.oracle, v.key, v.desc, string(raw))
		}
		c.Case(string(raw), res.ops >= 3 && res.skipped == "")
		if res.skipped != "" {
			c.Stat("show.skipped")
		} else {
			c.StatN("show.operators", res.ops)
		}
		for _, op := range tc.Ops {
			c.Stat("show.entry." + op.E)
		}
	}
}

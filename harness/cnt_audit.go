package main

import (
	"bytes"
	"fmt"
	"math"
	"reflect"
	"sort"
	"strings"

	"seehuhn.de/go/geom/matrix"
	"seehuhn.de/go/pdf"
	"seehuhn.de/go/pdf/graphics"
	"seehuhn.de/go/pdf/graphics/color"
	"seehuhn.de/go/pdf/graphics/content"
	"seehuhn.de/go/pdf/graphics/content/builder"
)

// C15 — what the Builder accepts.
//
// "Streams produced by the Builder re-read as balanced, valid operator
// sequences, for all Builder call sequences the Builder accepts."  The runs
// of cnt_state.go and cnt_harvest.go steer the Builder towards ordinary
// programs; here the calls are chosen at the edges of what the Builder lets
// through:
//
//   limits    DrawInlineImageRaw with data, dimensions and Length entries at and
//             beyond the limits of the content scanner, with values of the
//             Builder's own number type (pdf.Number), ASCII filters with a
//             Length key
//   nonfinite numeric calls with NaN and infinities
//   nesting   short sequences of q/Q, BT/ET, BMC/EMC calls in every order
//   aliasing  calls which take slices and maps; the caller reuses them afterwards
//
// In every scenario the oracle speaks only about programs the Builder accepted
// (Err == nil): the serialised stream re-reads as exactly the operators the
// Builder holds (their native image), and these are properly nested.  A
// Builder which refuses the call satisfies the property.
//
// A scenario is deterministic in (scenario, seed, content type, version); that
// quadruple is the replay input.

func init() {
	addRun("C15", "Builder calls at the edges of what the Builder accepts: inline images at and beyond the scanner's limits (data 4094..5000 bytes with and without Length, width/height/pixel limits, missing or inconsistent entries, pdf.Number values, ASCII filters with Length and leading white space), NaN/Inf arguments of every numeric method, all short orders of q/Q BT/ET BMC/EMC calls for all versions, caller-owned slices and maps reused after the call. For every ACCEPTED program: the serialised stream re-reads as the Builder's operators, which are properly nested. Distinct by scenario, parameters, content type and version; all non-trivial.", runCNTAudit)
	addReplay("C15", "builder", replayCNTAudit)
	addRun("C15", "the Builder's sticky error: after a refused call (every kind of refusal: rejected by State.ApplyOperator, by an argument check, by the version table) EVERY method of *builder.Builder (enumerated by reflection, only Reset excluded; arguments built from the parameter types) is called, each one directly behind a fresh refusal and in random sequences of 5-15 calls, then Close and Harvest: Err stays set after every call, Close and Harvest report it and Harvest hands out no segment; the Err flag after each call is compared with the Builder model (CNT bld). Distinct by refusal, method sequence, content type and version; all non-trivial.", runCNTSticky)
	addReplay("C15", "sticky", replayCNTSticky)
}

// cntProperlyNested replays the paired operators on an ordinary stack
// (ISO 32000-1 8.4.2, 9.4.1, 14.6.1: marked-content sequences nest properly
// with text objects; q/Q inside a text object are balanced within it).
// complete also demands that nothing stays open.
func cntProperlyNested(ops []content.Operator, complete bool) string {
	closer := map[string]string{"q": "Q", "BT": "ET", "BMC": "EMC", "BDC": "EMC", "BX": "EX"}
	var stack []string
	for i, op := range ops {
		n := string(op.Name)
		if c, ok := closer[n]; ok {
			stack = append(stack, c)
			continue
		}
		switch n {
		case "Q", "ET", "EMC", "EX":
			if len(stack) == 0 {
				return fmt.Sprintf("operator %d (%s) closes nothing", i, n)
			}
			if stack[len(stack)-1] != n {
				return fmt.Sprintf("operator %d (%s) while the innermost open pair wants %s", i, n, stack[len(stack)-1])
			}
			stack = stack[:len(stack)-1]
		}
	}
	if complete && len(stack) > 0 {
		return fmt.Sprintf("%d pairs stay open (innermost wants %s)", len(stack), stack[len(stack)-1])
	}
	return ""
}

// cntAuditReread: the Builder's stream, serialised, re-reads as the
// operators the Builder holds.
func cntAuditReread(b *builder.Builder) string {
	want := cntNormOps(b.Stream)
	data, err := cntWrite(b.Stream)
	if err != nil {
		return "serialising the Builder's stream failed: " + err.Error()
	}
	got, err := cntScan(data)
	if err != nil {
		return "scanning the Builder's stream failed: " + err.Error()
	}
	if ok, d := cntOpsEqual(want, got); !ok {
		var names []string
		for i, o := range got {
			if i == 8 {
				names = append(names, "…")
				break
			}
			names = append(names, string(o.Name))
		}
		return fmt.Sprintf("%s — the Builder holds %d operators, re-read %d: %s — stream %q", d, len(want), len(got), strings.Join(names, " "), truncate(string(data)))
	}
	return ""
}

type cntAuditResult struct {
	key      string // distinctness key of the case
	accepted bool
	class    string // class key of the violation, "" if none
	detail   string
}

func cntAuditScenario(scn string, seed uint64, ct content.Type, v pdf.Version) (res cntAuditResult) {
	r := &Rand{s: seed}
	res.key = fmt.Sprintf("a:%s:%d:%d:", scn, ct, v)
	defer func() {
		if p := recover(); p != nil {
			res.class, res.detail = "builder-panic", fmt.Sprintf("panic: %v", p)
		}
	}()
	b := builder.New(ct, nil, v)
	switch scn {
	case "limits":
		// one feature per case, everything else plain
		w, h := 2, 3
		dataLen := 6
		fill := "ab (cd" // '(' : a leaked payload swallows what follows
		d := pdf.Dict{"BPC": pdf.Integer(8), "CS": pdf.Name("G")}
		class := "builder-inline-image-unreadable"
		withL := r.Bool()
		number := false
		kind := r.Intn(9)
		switch kind {
		case 0: // data length around the limit
			dataLen = Pick(r, []int{4093, 4094, 4095, 4096, 4097, 4098, 5000, 9000})
			w, h = 64, 64
			if dataLen == 4095 || dataLen == 4096 {
				class = "inline-image-cap-without-length"
				if withL {
					class = "roundtrip"
				}
			}
		case 1: // pixel limit
			w, h = Pick(r, []int{512, 513, 1024, 2048}), Pick(r, []int{512, 511, 1024, 128})
		case 2: // side limit
			if r.Bool() {
				w, h = Pick(r, []int{65536, 65537, 1 << 20}), 1
			} else {
				w, h = 1, Pick(r, []int{65536, 65537, 1 << 20})
			}
		case 3: // width or height missing, zero or negative
			w, h = Pick(r, []int{0, -1, -5}), 3
			if r.Bool() {
				w, h = 3, Pick(r, []int{0, -1})
			}
		case 4: // Length entry which is not the length of the data
			withL = true
		case 5: // the Builder's number type
			number = true
			class = "inline-image-nonnative-value"
		case 6: // ASCII filter, Length, leading white space
			withL = true
			d["F"] = Pick(r, []pdf.Object{pdf.Name("AHx"), pdf.Name("A85"), pdf.Array{pdf.Name("Fl"), pdf.Name("ASCIIHexDecode")}})
			fill = Pick(r, []string{"\n 41 42\n43 44>", "  4142>", "\r\n4142>", "%c\n41>", "\x00\t 41>"})
			dataLen = len(fill)
			class = "inline-image-ascii-space-with-length"
		case 7: // plain, small: must work
			dataLen = r.Intn(40)
			class = "roundtrip"
		case 8: // empty data
			dataLen = 0
			class = "roundtrip"
		}
		data := make([]byte, dataLen)
		for i := range data {
			data[i] = fill[i%len(fill)]
		}
		num := func(n int) pdf.Object {
			if number {
				return pdf.Number(n)
			}
			return pdf.Integer(n)
		}
		if kind == 3 && r.P(1, 3) {
			// missing altogether
			d["H"] = num(3)
		} else {
			if r.Bool() {
				d["W"] = num(w)
			} else {
				d["Width"] = num(w)
			}
			d["H"] = num(h)
		}
		if withL && dataLen > 0 {
			l := dataLen
			if kind == 4 {
				l = max(1, dataLen+Pick(r, []int{-2, -1, 1, 3}))
			}
			d["L"] = num(l)
		}
		res.key += fmt.Sprintf("k%d:w%d:h%d:n%d:L%v:num%v:%s", kind, w, h, dataLen, d["L"], number, wire(cntAsNative(d["F"])))
		b.PushGraphicsState()
		b.DrawInlineImageRaw(d, data)
		b.PopGraphicsState()
		if b.Err != nil {
			if kind == 7 || kind == 8 || kind == 5 || (kind == 0 && dataLen <= 4096) || kind == 6 {
				res.class, res.detail = "builder-refuses-valid-image", fmt.Sprintf("DrawInlineImageRaw(%s, %d bytes) was refused: %v", wireNorm(cntAsNative(d)), len(data), b.Err)
			}
			return res
		}
		res.accepted = true
		if diff := cntAuditReread(b); diff != "" {
			res.class, res.detail = class, fmt.Sprintf("DrawInlineImageRaw(%s, %d bytes) was accepted, but: %s", wireNorm(cntAsNative(d)), len(data), diff)
			if res.class == "roundtrip" {
				res.class = "builder-inline-image-unreadable"
			}
		}
	case "nonfinite":
		bad := Pick(r, []float64{math.NaN(), math.Inf(1), math.Inf(-1)})
		ok := func() float64 { return float64(r.Intn(40)) / 4 }
		pos := r.Intn(6)
		arg := func(i int) float64 {
			if i == pos {
				return bad
			}
			return ok()
		}
		call := r.Intn(14)
		res.key += fmt.Sprintf("c%d:p%d:%v", call, pos, bad)
		switch call {
		case 0:
			pos %= 2
			b.MoveTo(arg(0), arg(1))
			b.LineTo(1, 1)
			b.Stroke()
		case 1:
			pos %= 2
			b.MoveTo(0, 0)
			b.LineTo(arg(0), arg(1))
			b.Stroke()
		case 2:
			b.MoveTo(0, 0)
			b.CurveTo(arg(0), arg(1), arg(2), arg(3), arg(4), arg(5))
			b.Stroke()
		case 3:
			pos %= 4
			b.Rectangle(arg(0), arg(1), arg(2), arg(3))
			b.Fill()
		case 4:
			b.Transform(matrix.Matrix{arg(0), arg(1), arg(2), arg(3), arg(4), arg(5)})
		case 5:
			pos = 0
			b.SetLineWidth(math.Abs(arg(0)))
		case 6:
			pos = 0
			b.SetMiterLimit(arg(0))
		case 7:
			pos = 0
			b.SetFlatnessTolerance(arg(0))
		case 8:
			pos %= 3
			b.SetLineDash([]float64{math.Abs(arg(0)), math.Abs(arg(1))}, math.Abs(arg(2)))
		case 9:
			pos = 0
			b.TextBegin()
			b.TextSetLeading(arg(0))
			b.TextEnd()
		case 10:
			pos %= 2
			b.TextBegin()
			b.TextFirstLine(arg(0), arg(1))
			b.TextEnd()
		case 11:
			b.TextBegin()
			b.TextSetMatrix(matrix.Matrix{arg(0), arg(1), arg(2), arg(3), arg(4), arg(5)})
			b.TextEnd()
		case 12:
			pos = 0
			b.TextBegin()
			b.TextSetCharacterSpacing(arg(0))
			b.TextSetWordSpacing(arg(0))
			b.TextEnd()
		case 13:
			pos = 0
			b.TextBegin()
			b.TextShowKernedRaw(pdf.String("a"), pdf.Real(arg(0)), pdf.String("b"))
			b.TextEnd()
		}
		if b.Err != nil {
			return res
		}
		res.accepted = true
		if d := cntAuditReread(b); d != "" {
			res.class, res.detail = "builder-nonfinite-operand", fmt.Sprintf("a call with the argument %v was accepted, but: %s", bad, d)
		}
	case "nesting":
		n := 2 + r.Intn(7)
		var calls []string
		mc := &graphics.MarkedContent{Tag: "Span"}
		for i := 0; i < n && b.Err == nil; i++ {
			call := Pick(r, []string{"q", "Q", "BT", "ET", "BMC", "EMC", "q", "BT", "BMC"})
			calls = append(calls, call)
			switch call {
			case "q":
				b.PushGraphicsState()
			case "Q":
				b.PopGraphicsState()
			case "BT":
				b.TextBegin()
			case "ET":
				b.TextEnd()
			case "BMC":
				b.MarkedContentStart(mc)
			case "EMC":
				b.MarkedContentEnd()
			}
		}
		res.key += strings.Join(calls, ",")
		if b.Err != nil {
			return res
		}
		res.accepted = true
		closeOK := b.Close() == nil
		ops := cntNormOps(b.Stream)
		if d := cntProperlyNested(ops, closeOK); d != "" {
			res.class, res.detail = "builder-improper-nesting", fmt.Sprintf("the calls %v were accepted (Close() == nil: %v) but the stream is not properly nested: %s", calls, closeOK, d)
			return res
		}
		// with the closing operators of the state nothing stays open
		all := append([]content.Operator(nil), ops...)
		for _, c := range b.State.ClosingOperators() {
			all = append(all, content.Operator{Name: c})
		}
		if d := cntProperlyNested(all, true); d != "" {
			res.class, res.detail = "builder-improper-nesting", fmt.Sprintf("the calls %v followed by ClosingOperators() are not properly nested: %s", calls, d)
			return res
		}
		if d := cntAuditReread(b); d != "" {
			res.class, res.detail = "roundtrip", d
		}
	case "aliasing":
		call := r.Intn(5)
		res.key += fmt.Sprintf("c%d:%d", call, seed%16)
		var mutate func()
		switch call {
		case 0:
			data := []byte("AAAA")
			d := pdf.Dict{"W": pdf.Integer(2), "H": pdf.Integer(2), "BPC": pdf.Integer(8), "CS": pdf.Name("G")}
			b.DrawInlineImageRaw(d, data)
			mutate = func() { copy(data, "BB\x00\x00") }
		case 1:
			data := []byte("AAAA")
			d := pdf.Dict{"W": pdf.Integer(2), "H": pdf.Integer(2), "BPC": pdf.Integer(8), "CS": pdf.Name("G")}
			b.DrawInlineImageRaw(d, data)
			mutate = func() { d["W"] = pdf.Integer(1); d["Extra"] = pdf.Name("X"); delete(d, "CS") }
		case 2:
			pat := []float64{3, 2}
			b.SetLineDash(pat, 1)
			mutate = func() { pat[0], pat[1] = 9, 9 }
		case 3:
			s := pdf.String("hello")
			b.TextBegin()
			b.TextShowRaw(s)
			mutate = func() { copy(s, "XXXXX") }
		case 4:
			s1, s2 := pdf.String("ab"), pdf.String("cd")
			args := []pdf.Object{s1, pdf.Integer(-50), s2}
			b.TextBegin()
			b.TextShowKernedRaw(args...)
			mutate = func() { copy(s1, "XX"); copy(s2, "YY"); args[1] = pdf.Integer(7) }
		}
		if b.Err != nil {
			return res
		}
		res.accepted = true
		before := cntSegWire(b.Stream)
		raw, _ := cntWrite(b.Stream)
		mutate()
		after := cntSegWire(b.Stream)
		raw2, _ := cntWrite(b.Stream)
		if before != after || !bytes.Equal(raw, raw2) {
			res.class, res.detail = "builder-arg-aliasing", fmt.Sprintf("after the call returned the caller changed its own slice/map and the emitted operators changed: before %s, after %s", truncate(before), truncate(after))
		}
	}
	return res
}

func replayCNTAudit(input string) (bool, string) {
	cntWireSetup()
	var scn string
	var seed uint64
	var ct, v int
	if _, err := fmt.Sscan(input, &scn, &seed, &ct, &v); err != nil {
		return true, "bad replay input: " + err.Error()
	}
	res := cntAuditScenario(scn, seed, content.Type(ct), pdf.Version(v))
	if res.class != "" {
		return false, res.detail
	}
	return true, fmt.Sprintf("accepted=%v %s", res.accepted, res.key)
}

func runCNTAudit(c *Ctx) {
	cntWireSetup()
	r := c.R
	n := 1500
	if c.Thorough {
		n = 20000
	}
	for _, scn := range []string{"limits", "nonfinite", "nesting", "aliasing"} {
		k := n
		if scn == "aliasing" {
			k = 60
		}
		if scn == "nesting" {
			k = 3 * n
		}
		for i := 0; i < k; i++ {
			ct := content.Page
			if r.P(1, 4) {
				ct = Pick(r, []content.Type{content.Form, content.PatternColored, content.TransparencyGroup})
			}
			v := Pick(r, []pdf.Version{pdf.V1_7, pdf.V2_0, pdf.V1_4, pdf.V2_0})
			seed := r.U64()
			res := cntAuditScenario(scn, seed, ct, v)
			c.Case(res.key, true)
			if res.accepted {
				c.Stat("audit_" + scn + "_accepted")
			} else {
				c.Stat("audit_" + scn + "_refused")
			}
			if res.class != "" {
				c.Violate("builder", res.class, res.detail, fmt.Sprintf("%s %d %d %d", scn, seed, int(ct), int(v)))
			}
			if i == 0 {
				c.Sample("builder edge case: " + res.key)
			}
		}
	}
}

// ---- the sticky error ----

// cntBuilderMethods: every exported method of *builder.Builder, by reflection
// (a method added to the Builder is exercised without a change here).  Reset
// is the one method which is documented to clear Err.
func cntBuilderMethods() []string {
	t := reflect.TypeOf(&builder.Builder{})
	var names []string
	for i := 0; i < t.NumMethod(); i++ {
		if n := t.Method(i).Name; n != "Reset" {
			names = append(names, n)
		}
	}
	sort.Strings(names)
	return names
}

// cntArg builds an argument of the given parameter type.  Types for which the
// harness has no value get the zero value (a nil interface or pointer); a
// method which dereferences it panics, which is the harness's doing and is
// recovered by the caller.
func cntArg(t reflect.Type, r *Rand) reflect.Value {
	switch t {
	case reflect.TypeOf((*color.Color)(nil)).Elem():
		return reflect.ValueOf(color.DeviceGray(float64(r.Intn(5)) / 4))
	case reflect.TypeOf(&graphics.MarkedContent{}):
		return reflect.ValueOf(&graphics.MarkedContent{Tag: "Span"})
	case reflect.TypeOf(pdf.Dict{}):
		return reflect.ValueOf(pdf.Dict{"W": pdf.Integer(2), "H": pdf.Integer(2), "BPC": pdf.Integer(8), "CS": pdf.Name("G")})
	case reflect.TypeOf(graphics.RenderingIntent("")):
		return reflect.ValueOf(graphics.RenderingIntent(Pick(r, []string{"Perceptual", "Saturation", "RelativeColorimetric"})))
	case reflect.TypeOf(func(*builder.Builder) error { return nil }):
		return reflect.ValueOf(func(*builder.Builder) error { return nil })
	}
	switch t.Kind() {
	case reflect.Float64, reflect.Float32:
		return reflect.ValueOf(float64(r.Intn(40)) / 4).Convert(t)
	case reflect.Int, reflect.Int8, reflect.Int16, reflect.Int32, reflect.Int64, reflect.Uint, reflect.Uint8, reflect.Uint16, reflect.Uint32, reflect.Uint64:
		return reflect.ValueOf(r.Intn(3)).Convert(t)
	case reflect.Bool:
		return reflect.ValueOf(r.Bool())
	case reflect.String:
		return reflect.ValueOf("Abc").Convert(t)
	case reflect.Array:
		v := reflect.New(t).Elem()
		for i := 0; i < v.Len(); i++ {
			v.Index(i).Set(cntArg(t.Elem(), r))
		}
		return v
	case reflect.Slice:
		if t.Elem().Kind() == reflect.Interface {
			// ...pdf.Object
			v := reflect.MakeSlice(t, 0, 3)
			for _, o := range []pdf.Object{pdf.String("ab"), pdf.Integer(-50), pdf.String("cd")} {
				v = reflect.Append(v, reflect.ValueOf(o))
			}
			return v
		}
		v := reflect.MakeSlice(t, 2, 2)
		for i := 0; i < 2; i++ {
			v.Index(i).Set(cntArg(t.Elem(), r))
		}
		return v
	}
	return reflect.Zero(t)
}

// cntCallMethod calls the named method with generated arguments; panicked
// reports a panic inside the call.
func cntCallMethod(b *builder.Builder, name string, r *Rand) (panicked bool) {
	defer func() {
		if recover() != nil {
			panicked = true
		}
	}()
	m := reflect.ValueOf(b).MethodByName(name)
	mt := m.Type()
	var args []reflect.Value
	for i := 0; i < mt.NumIn(); i++ {
		args = append(args, cntArg(mt.In(i), r))
	}
	if mt.IsVariadic() {
		m.CallSlice(args)
	} else {
		m.Call(args)
	}
	return false
}

// refusals: name and the call which must be refused in the state reached by the prefix
var cntRefusals = []struct {
	name string
	do   func(b *builder.Builder)
}{
	{"Q-without-q", func(b *builder.Builder) { b.PopGraphicsState() }},
	{"ET-without-BT", func(b *builder.Builder) { b.TextEnd() }},
	{"EMC-without-BMC", func(b *builder.Builder) { b.MarkedContentEnd() }},
	{"l-outside-path", func(b *builder.Builder) { b.LineTo(1, 1) }},
	{"S-outside-path", func(b *builder.Builder) { b.Stroke() }},
	{"Tj-outside-text", func(b *builder.Builder) { b.TextShowRaw(pdf.String("x")) }},
	{"negative-line-width", func(b *builder.Builder) { b.SetLineWidth(-1) }},
	{"bad-flatness", func(b *builder.Builder) { b.SetFlatnessTolerance(200) }},
	{"image-without-size", func(b *builder.Builder) { b.DrawInlineImageRaw(pdf.Dict{"BPC": pdf.Integer(8)}, []byte("x")) }},
	{"nonfinite", func(b *builder.Builder) { b.MoveTo(math.NaN(), 0) }},
}

// cntStickyCase: a short accepted prefix, one refused call, then the methods named in
// then (nil: 5-15 random ones), then Close and Harvest.  It returns the class
// key and detail of a violation, the key of the case, and the two sides' input
// for the model line (calls: what every call appended to the stream, or "x" for
// a refusal which appended nothing; flags: Err != nil after every call).
func cntStickyCase(seed uint64, ct content.Type, v pdf.Version, refusal int, then []string) (class, detail, key, calls, flags string) {
	r := &Rand{s: seed}
	b := builder.New(ct, nil, v)
	var callList, flagList []string
	prev := 0
	note := func() {
		w := "-"
		if len(b.Stream) > prev {
			w = cntSegWire(b.Stream[prev:])
		} else if b.Err != nil && (len(flagList) == 0 || flagList[len(flagList)-1] == "0") {
			w = "x"
		}
		prev = len(b.Stream)
		callList = append(callList, w)
		if b.Err != nil {
			flagList = append(flagList, "1")
		} else {
			flagList = append(flagList, "0")
		}
	}
	// prefix: calls whose acceptance the state model decides (no resources, no version gates)
	for i := r.Intn(4); i > 0 && b.Err == nil; i-- {
		switch r.Intn(4) {
		case 0:
			b.PushGraphicsState()
		case 1:
			b.SetLineWidth(float64(1 + r.Intn(5)))
		case 2:
			b.Rectangle(0, 0, 10, 10)
			b.Fill()
		case 3:
			b.PushGraphicsState()
			b.PopGraphicsState()
		}
		note()
	}
	if b.Err != nil {
		return "", "", "", "", ""
	}
	ref := cntRefusals[refusal%len(cntRefusals)]
	func() {
		defer func() { recover() }()
		ref.do(b)
	}()
	note()
	if b.Err == nil {
		// not refused in this state (e.g. Q after a q of the prefix): no case
		return "", "", "", "", ""
	}
	first := b.Err
	if then == nil {
		names := cntBuilderMethods()
		for i := 5 + r.Intn(11); i > 0; i-- {
			then = append(then, Pick(r, names))
		}
	}
	key = fmt.Sprintf("s:%d:%d:%s:%s", ct, v, ref.name, strings.Join(then, ","))
	calls = strings.Join(callList, "|")
	flags = strings.Join(flagList, "")
	for i, name := range then {
		panicked := cntCallMethod(b, name, r)
		note()
		calls = strings.Join(callList, "|")
		flags = strings.Join(flagList, "")
		if b.Err == nil {
			return "builder-error-reset", fmt.Sprintf("after the refused call %s (Err = %v) the call %d, %s (panicked: %v), left Err == nil; the refused operator is still in the stream: %s", ref.name, first, i, name, panicked, truncate(cntSegWire(b.Stream))), key, calls, flags
		}
	}
	if err := b.Close(); err == nil {
		return "builder-error-reset", fmt.Sprintf("after the refused call %s (Err = %v) Close() reports no error", ref.name, first), key, calls, flags
	}
	seg, err := b.Harvest()
	if err == nil || seg != nil {
		return "builder-error-reset", fmt.Sprintf("after the refused call %s (Err = %v) Harvest() returns (%v, %v): a stream with a refused operator is handed out as valid", ref.name, first, seg != nil, err), key, calls, flags
	}
	return "", "", key, calls, flags
}

func replayCNTSticky(input string) (bool, string) {
	cntWireSetup()
	var seed uint64
	var ct, v, refusal int
	var then string
	if _, err := fmt.Sscan(input, &seed, &ct, &v, &refusal, &then); err != nil {
		return true, "bad replay input: " + err.Error()
	}
	var names []string
	if then != "*" {
		names = strings.Split(then, ",")
	}
	class, detail, key, _, _ := cntStickyCase(seed, content.Type(ct), pdf.Version(v), refusal, names)
	if class != "" {
		return false, detail
	}
	return true, "Err stayed set: " + key
}

func runCNTSticky(c *Ctx) {
	cntWireSetup()
	r := c.R
	names := cntBuilderMethods()
	c.StatN("builder_methods_by_reflection", len(names))
	one := func(seed uint64, ct content.Type, v pdf.Version, refusal int, then []string) {
		class, detail, key, calls, flags := cntStickyCase(seed, ct, v, refusal, then)
		if key == "" {
			c.Stat("sticky_no_refusal")
			return
		}
		c.Case(key, true)
		c.Stat("sticky_cases")
		// the Builder model: Err after each call (emit sticks at the first failure)
		c.Emit(fmt.Sprintf("CNT bld %d %s %s", int(ct), cntStrict(v), calls), flags)
		if class != "" {
			t := "*"
			if then != nil {
				t = strings.Join(then, ",")
			}
			c.Violate("sticky", class, detail, fmt.Sprintf("%d %d %d %d %s", seed, int(ct), int(v), refusal, t))
		}
	}
	// every method directly behind every kind of refusal
	for ri := range cntRefusals {
		for _, name := range names {
			one(r.U64(), content.Page, Pick(r, []pdf.Version{pdf.V1_7, pdf.V2_0}), ri, []string{name})
		}
	}
	// random sequences
	n := 1500
	if c.Thorough {
		n = 20000
	}
	for i := 0; i < n; i++ {
		ct := content.Page
		if r.P(1, 4) {
			ct = Pick(r, []content.Type{content.Form, content.PatternColored, content.PatternUncolored, content.TransparencyGroup})
		}
		one(r.U64(), ct, Pick(r, []pdf.Version{pdf.V1_7, pdf.V2_0}), r.Intn(len(cntRefusals)), nil)
	}
}

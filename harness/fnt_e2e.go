package main

// C14 (FNT) — end-to-end oracle: text laid out and shown with every font kind
// that can be built offline from the repository's own test fonts is written to
// a PDF file, the file is reopened, the page is interpreted by reader.Reader
// with the fonts rebuilt by graphics/extract, and every PDF string must decode
// into as many codes as glyphs were shown, each with the glyph's width (to the
// precision of the width arrays: the embedders round to 1/1000 em) and the
// glyph's text; the writer-side and the reader-side font instance must decode
// the same strings identically.  Validated, not proved: the font programs go
// through sfnt, type1, CFF and glyph-list code that no model covers.

import (
	"bytes"
	"encoding/json"
	"fmt"
	"math"
	"strings"

	"seehuhn.de/go/pdf"
	"seehuhn.de/go/pdf/document"
	"seehuhn.de/go/pdf/font"
	"seehuhn.de/go/pdf/font/cff"
	"seehuhn.de/go/pdf/font/charcode"
	"seehuhn.de/go/pdf/font/cmap"
	"seehuhn.de/go/pdf/font/dict"
	"seehuhn.de/go/pdf/font/encoding/cidenc"
	"seehuhn.de/go/pdf/font/gofont"
	"seehuhn.de/go/pdf/font/opentype"
	"seehuhn.de/go/pdf/font/standard"
	"seehuhn.de/go/pdf/font/truetype"
	"seehuhn.de/go/pdf/font/verifhook"
	"seehuhn.de/go/pdf/page"
	"seehuhn.de/go/pdf/pagetree"
	"seehuhn.de/go/pdf/reader"
	"seehuhn.de/go/sfnt"
	"seehuhn.de/go/sfnt/glyph"
)

func init() {
	addRun("C14", "end-to-end: 1-3 fonts per page out of the 18 kinds of internal/fonttypes, 4 composite kinds with the UTF-8 encoder, the 12 Go fonts as simple and composite, the 14 standard fonts, and the non-default embedding options of the composite kinds: 6 font programs (CFF, CFF with CID operators, two private dicts, TrueType, OpenType/CFF, OpenType/glyf) x GID->CID mapping (sequential, identity, the CIDs of Adobe-Japan1/GB1/CNS1/Korea1/KR found through the font's Unicode cmap) x encoder (Identity-H, UTF-8 encoder, the collection's identity CMap and its predefined Unicode/legacy CMaps); PDF versions 1.2-2.0; 2-8 strings per page over the part of Latin/Latin-1/Latin Extended-A/Greek/Cyrillic/punctuation/ligature sequences the font can encode, lengths 1-40, some pages with more than 256 distinct glyphs per simple font, Layout and Show interleaved; on 3 of 5 pages a fifth of the glyphs get a text of the caller's choice instead of the layouter's (empty, several runes, NFKC-equivalent variants such as U+00AD/U+00A0/U+FB01/U+2126/fullwidth forms, the text of another glyph, astral and private-use characters; one text per glyph and page for fixed CMaps); oracle: reader text per code == text given at Encode time; a case is one page, non-trivial when at least 3 glyphs were shown; distinct by fonts+version+strings+overrides", runFntE2E)
	addReplay("C14", "fnt-e2e", fntReplayE2E)
}

type fntKind struct {
	label     string
	composite bool
	identity  bool // composite with a fixed CMap (Identity-H/V or a predefined CMap): one code per CID
	mk        func() (font.Layouter, error)
	mayRefuse bool // predefined CMap: a CID without a code cannot be encoded (the builder skips the glyph)
}

// non-default embedding options of the composite kinds: the font program, the
// GID -> CID mapping (sequential, identity, or the CIDs of a character
// collection looked up through the font's Unicode cmap) and the encoder
// (Identity-H, the UTF-8 encoder, a predefined CMap of the collection).
type fntROS struct {
	tag      string // ordering
	identity string // the Adobe-<ordering>-<n> identity CMap (gives the ROS)
	unicode  []string
}

var fntROSes = []fntROS{
	{"Japan1", "Adobe-Japan1-7", []string{"UniJIS-UTF16-H", "UniJIS-UCS2-H", "UniJIS-UTF8-H", "90ms-RKSJ-H"}},
	{"GB1", "Adobe-GB1-5", []string{"UniGB-UTF16-H", "UniGB-UCS2-H"}},
	{"CNS1", "Adobe-CNS1-7", []string{"UniCNS-UTF16-H", "UniCNS-UTF8-H"}},
	{"Korea1", "Adobe-Korea1-2", []string{"UniKS-UTF16-H", "UniKS-UCS2-H"}},
	{"KR", "Adobe-KR-9", []string{"UniAKR-UTF16-H", "UniAKR-UTF8-H"}},
}

type fntCompBase struct {
	tag  string
	info func() *sfnt.Font
	mk   func(info *sfnt.Font, g2c func() cmap.GIDToCID, enc func(float64, font.WritingMode) cidenc.CIDEncoder) (font.Layouter, error)
}

var fntCompBases = []fntCompBase{
	{"cff", verifhook.OpenType, func(i *sfnt.Font, g func() cmap.GIDToCID, e func(float64, font.WritingMode) cidenc.CIDEncoder) (font.Layouter, error) {
		return cff.NewComposite(i, &cff.OptionsComposite{MakeGIDToCID: g, MakeEncoder: e})
	}},
	{"cffcid", verifhook.OpenTypeCID, func(i *sfnt.Font, g func() cmap.GIDToCID, e func(float64, font.WritingMode) cidenc.CIDEncoder) (font.Layouter, error) {
		return cff.NewComposite(i, &cff.OptionsComposite{MakeGIDToCID: g, MakeEncoder: e})
	}},
	{"cffcid2", verifhook.OpenTypeCID2, func(i *sfnt.Font, g func() cmap.GIDToCID, e func(float64, font.WritingMode) cidenc.CIDEncoder) (font.Layouter, error) {
		return cff.NewComposite(i, &cff.OptionsComposite{MakeGIDToCID: g, MakeEncoder: e})
	}},
	{"tt", verifhook.TrueType, func(i *sfnt.Font, g func() cmap.GIDToCID, e func(float64, font.WritingMode) cidenc.CIDEncoder) (font.Layouter, error) {
		return truetype.NewComposite(i, &truetype.OptionsComposite{MakeGIDToCID: g, MakeEncoder: e})
	}},
	{"otcff", verifhook.OpenType, func(i *sfnt.Font, g func() cmap.GIDToCID, e func(float64, font.WritingMode) cidenc.CIDEncoder) (font.Layouter, error) {
		return opentype.NewComposite(i, &opentype.OptionsComposite{MakeGIDToCID: g, MakeEncoder: e})
	}},
	{"otglyf", verifhook.TrueType, func(i *sfnt.Font, g func() cmap.GIDToCID, e func(float64, font.WritingMode) cidenc.CIDEncoder) (font.Layouter, error) {
		return opentype.NewComposite(i, &opentype.OptionsComposite{MakeGIDToCID: g, MakeEncoder: e})
	}},
}

// fntOptionKinds enumerates base x GID->CID x encoder.
func fntOptionKinds() []fntKind {
	var out []fntKind
	for _, b := range fntCompBases {
		b := b
		type g2c struct {
			tag string
			ros *fntROS
			mk  func(info *sfnt.Font) (func() cmap.GIDToCID, error)
		}
		g2cs := []g2c{
			{"seq", nil, func(*sfnt.Font) (func() cmap.GIDToCID, error) { return cmap.NewGIDToCIDSequential, nil }},
			{"gid", nil, func(*sfnt.Font) (func() cmap.GIDToCID, error) { return cmap.NewGIDToCIDIdentity, nil }},
		}
		for i := range fntROSes {
			ro := &fntROSes[i]
			g2cs = append(g2cs, g2c{"ros" + ro.tag, ro, func(info *sfnt.Font) (func() cmap.GIDToCID, error) {
				lookup, err := info.CMapTable.GetBest()
				if err != nil {
					return nil, err
				}
				cm, err := cmap.Predefined(ro.identity)
				if err != nil {
					return nil, err
				}
				return func() cmap.GIDToCID { return cmap.NewGIDToCIDFromROS(cm.ROS, lookup) }, nil
			}})
		}
		for _, g := range g2cs {
			g := g
			encs := []string{"identity", "utf8"}
			if g.ros != nil {
				encs = append(encs, g.ros.identity)
				encs = append(encs, g.ros.unicode...)
			}
			for _, e := range encs {
				e := e
				if g.tag == "seq" && (e == "identity" || e == "utf8") {
					continue // the default kinds and the -utf8 kinds above
				}
				out = append(out, fntKind{
					label: "X/" + b.tag + "/" + g.tag + "/" + e, composite: true,
					identity: e != "utf8", mayRefuse: e != "utf8" && e != "identity",
					mk: func() (font.Layouter, error) {
						info := b.info()
						mg, err := g.mk(info)
						if err != nil {
							return nil, err
						}
						var me func(float64, font.WritingMode) cidenc.CIDEncoder
						switch e {
						case "identity":
							me = cidenc.NewCompositeIdentity
						case "utf8":
							me = cidenc.NewCompositeUtf8
						default:
							cm, err := cmap.Predefined(e)
							if err != nil {
								return nil, err
							}
							var encErr error
							me = func(w0 float64, _ font.WritingMode) cidenc.CIDEncoder {
								enc, err := cidenc.NewFromCMap(cm, w0)
								if err != nil {
									encErr = err
									return cidenc.NewCompositeIdentity(w0, font.Horizontal)
								}
								return enc
							}
							F, err := b.mk(info, mg, me)
							if encErr != nil {
								return nil, encErr
							}
							return F, err
						}
						return b.mk(info, mg, me)
					}})
			}
		}
	}
	return out
}

var fntKinds []fntKind

func fntInitKinds() {
	if fntKinds != nil {
		return
	}
	for _, s := range verifhook.All() {
		s := s
		fntKinds = append(fntKinds, fntKind{label: s.Label, composite: s.Composite, identity: s.Composite, mk: func() (font.Layouter, error) { return s.MakeFont(), nil }})
	}
	fntKinds = append(fntKinds,
		fntKind{label: "CFFComposite-utf8", composite: true, mk: func() (font.Layouter, error) {
			return cff.NewComposite(verifhook.OpenType(), &cff.OptionsComposite{MakeEncoder: cidenc.NewCompositeUtf8})
		}},
		fntKind{label: "TrueTypeComposite-utf8", composite: true, mk: func() (font.Layouter, error) {
			return truetype.NewComposite(verifhook.TrueType(), &truetype.OptionsComposite{MakeEncoder: cidenc.NewCompositeUtf8})
		}},
		fntKind{label: "OpenTypeCFFComposite-utf8", composite: true, mk: func() (font.Layouter, error) {
			return opentype.NewComposite(verifhook.OpenType(), &opentype.OptionsComposite{MakeEncoder: cidenc.NewCompositeUtf8})
		}},
		fntKind{label: "OpenTypeGlyfComposite-utf8", composite: true, mk: func() (font.Layouter, error) {
			return opentype.NewComposite(verifhook.TrueType(), &opentype.OptionsComposite{MakeEncoder: cidenc.NewCompositeUtf8})
		}},
	)
	for i := gofont.Regular; i <= gofont.MonoItalic; i++ {
		i := i
		fntKinds = append(fntKinds,
			fntKind{label: fmt.Sprintf("Go%d-simple", int(i)), mk: func() (font.Layouter, error) { return i.NewSimple(nil) }},
			fntKind{label: fmt.Sprintf("Go%d-composite", int(i)), composite: true, identity: true, mk: func() (font.Layouter, error) { return i.NewComposite(nil) }})
	}
	for _, f := range standard.All {
		f := f
		fntKinds = append(fntKinds, fntKind{label: "Std-" + fmt.Sprint(f), mk: func() (font.Layouter, error) { return f.New() }})
	}
	fntKinds = append(fntKinds, fntOptionKinds()...)
}

func fntKindByLabel(l string) *fntKind {
	fntInitKinds()
	for i := range fntKinds {
		if fntKinds[i].label == l {
			return &fntKinds[i]
		}
	}
	return nil
}

var fntVersions = []pdf.Version{pdf.V1_2, pdf.V1_3, pdf.V1_4, pdf.V1_5, pdf.V1_6, pdf.V1_7, pdf.V2_0}

// candidate repertoire
var fntCandidates = func() []string {
	var out []string
	add := func(lo, hi rune) {
		for r := lo; r <= hi; r++ {
			out = append(out, string(r))
		}
	}
	add(0x20, 0x7e)
	add(0xa0, 0xff)
	add(0x100, 0x17f)
	add(0x384, 0x3ce)
	add(0x400, 0x45f)
	add(0x2010, 0x2027)
	out = append(out, fntLigatures...)
	for _, s := range []string{"‰", "‹", "›", "€", "™", "Ω", "−", "ﬁ", "ﬂ", "←", "→", "♠", "♥", "✁", "✈", "✓", "α", "∀", "∑"} {
		out = append(out, s)
	}
	return out
}()

var fntLigatures = []string{"fi", "fl", "ff", "ffi", "ffl", "office", "fjord", "AV", "To", "Ǻ"}

var fntAlphabetCache = map[string][]string{}

// fntAlphabet: the candidates for which the font has glyphs (no glyph 0).
func fntAlphabet(k *fntKind, F font.Layouter) []string {
	if a, ok := fntAlphabetCache[k.label]; ok {
		return a
	}
	var a []string
	codec := F.Codec()
	for _, s := range fntCandidates {
		seq := F.Layout(nil, 10, s)
		ok := len(seq.Seq) > 0
		for _, g := range seq.Seq {
			if g.GID == 0 {
				ok = false
				break
			}
			if k.composite {
				// composite kinds have codes to spare on this throw-away instance: the glyph
				// must be encodable (a predefined CMap may have no code for its CID) and must not
				// be the notdef CID (a character collection without this character)
				code, enc := F.Encode(g.GID, g.Text)
				if !enc {
					ok = false
					break
				}
				for c := range F.Codes(codec.AppendCode(nil, code)) {
					if c.CID == 0 {
						ok = false
					}
				}
			}
		}
		if ok {
			a = append(a, s)
		}
	}
	fntAlphabetCache[k.label] = a
	return a
}

type fntShow struct {
	Font int    `json:"f"`
	Text string `json:"t"`
	// Ov: glyph index (in the laid-out sequence) -> text given to the glyph instead of the text
	// the layouter attached (what a caller does who sets font.Glyph.Text, e.g. for ActualText-free
	// soft hyphens, no-break spaces, ligature spellings)
	Ov map[int]string `json:"ov,omitempty"`
}

func (sh *fntShow) apply(seq *font.GlyphSeq) {
	for i, t := range sh.Ov {
		if i >= 0 && i < len(seq.Seq) {
			seq.Seq[i].Text = t
		}
	}
}

type fntE2ECase struct {
	Fonts   []string  `json:"fonts"`
	Version string    `json:"v"`
	Shows   []fntShow `json:"shows"`
	Late    bool      `json:"late,omitempty"` // lay out everything first, show afterwards in reverse order
}

type fntGlyphRec struct {
	font  int
	gid   glyph.ID
	text  string
	width float64 // text space units
	nocid bool    // the font's GID -> CID mapping has no CID for the glyph: it was written as CID 0
}

type fntE2EResult struct {
	viols     []fntViol
	glyphs    int
	skipped   string // reason the case could not be evaluated (version, font)
	overflow  bool
	shared    int
	refused   int
	overrides int
	fontsUsed int
}

func fntVersionByName(s string) pdf.Version {
	for _, v := range fntVersions {
		if n, _ := v.ToString(); n == s {
			return v
		}
	}
	return pdf.V1_7
}

func fntRunE2E(tc *fntE2ECase) (res fntE2EResult) {
	viol := func(key, format string, a ...any) {
		res.viols = append(res.viols, fntViol{"fnt-e2e", key, fmt.Sprintf(format, a...)})
	}
	defer func() {
		if p := recover(); p != nil {
			viol("e2e-panic", "panic: %v", p)
		}
	}()
	fntInitKinds()
	var kinds []*fntKind
	var fonts []font.Layouter
	for _, l := range tc.Fonts {
		k := fntKindByLabel(l)
		if k == nil {
			res.skipped = "unknown font kind " + l
			return
		}
		F, err := k.mk()
		if err != nil {
			res.skipped = "font: " + err.Error()
			return
		}
		if F.WritingMode() != font.Horizontal {
			res.skipped = "vertical"
			return
		}
		kinds = append(kinds, k)
		fonts = append(fonts, F)
	}
	res.fontsUsed = len(fonts)
	v := fntVersionByName(tc.Version)

	buf := &bytes.Buffer{}
	doc, err := document.WriteSinglePage(buf, document.A4, v, nil)
	if err != nil {
		res.skipped = "writer: " + err.Error()
		return
	}
	type shown struct {
		font   int
		glyphs []font.Glyph
	}
	var shows []shown
	doc.TextBegin()
	doc.TextFirstLine(36, 800)
	cur := -1
	setFont := func(i int) {
		if cur != i {
			doc.TextSetFont(fonts[i], 9)
			cur = i
		}
	}
	if tc.Late {
		var seqs []*font.GlyphSeq
		for _, sh := range tc.Shows {
			setFont(sh.Font)
			seq := doc.TextLayout(nil, sh.Text)
			sh.apply(seq)
			seqs = append(seqs, seq)
		}
		for i := len(tc.Shows) - 1; i >= 0; i-- {
			setFont(tc.Shows[i].Font)
			shows = append(shows, shown{tc.Shows[i].Font, append([]font.Glyph(nil), seqs[i].Seq...)})
			doc.TextShowGlyphs(seqs[i])
			doc.TextSecondLine(0, -11)
		}
	} else {
		for _, sh := range tc.Shows {
			setFont(sh.Font)
			seq := doc.TextLayout(nil, sh.Text)
			sh.apply(seq)
			shows = append(shows, shown{sh.Font, append([]font.Glyph(nil), seq.Seq...)})
			doc.TextShowGlyphs(seq)
			doc.TextSecondLine(0, -11)
		}
	}
	doc.TextEnd()
	if doc.Err != nil {
		viol("e2e-builder-error", "content builder: %v", doc.Err)
		return
	}

	// what was shown (glyphs the font could not encode are skipped by the builder)
	var expected []fntGlyphRec
	var strs []pdf.String // per show: the codes of the shown glyphs
	var strFont []int
	for _, sh := range shows {
		F := fonts[sh.font]
		codec := F.Codec()
		geom := F.GetGeometry()
		var s pdf.String
		for _, g := range sh.glyphs {
			code, ok := F.Encode(g.GID, g.Text)
			if !ok {
				if kinds[sh.font].mayRefuse {
					res.refused++ // the predefined CMap has no code for this CID: the builder skips the glyph
					continue
				}
				if kinds[sh.font].composite || F.CodesRemaining() > 0 {
					viol("e2e-encode-refused", "%s: Encode(%d,%q) refused with %d codes remaining", kinds[sh.font].label, g.GID, g.Text, F.CodesRemaining())
				}
				res.overflow = true
				continue
			}
			s = codec.AppendCode(s, code)
			w := 0.0
			if int(g.GID) < len(geom.Widths) {
				w = geom.Widths[g.GID]
			}
			nocid := false
			if kinds[sh.font].composite && g.GID != 0 {
				for c := range F.Codes(codec.AppendCode(nil, code)) {
					nocid = c.CID == 0
				}
				if nocid {
					viol("glyph-without-cid-shown-as-notdef", "%s: glyph %d (%q) has no CID in the character collection of the font's GID->CID mapping; Encode succeeds and writes the code of CID 0, the page shows .notdef", kinds[sh.font].label, g.GID, g.Text)
				}
			}
			expected = append(expected, fntGlyphRec{sh.font, g.GID, g.Text, w, nocid})
		}
		strs = append(strs, s)
		strFont = append(strFont, sh.font)
	}
	res.glyphs = len(expected)

	err = doc.Close()
	if err != nil {
		msg := err.Error()
		switch {
		case res.overflow && strings.Contains(msg, "too many glyphs"):
			// the 256-code limit of a simple font: the file is refused, nothing wrong is written
			res.skipped = "overflow"
		case strings.Contains(msg, "requires PDF version") || strings.Contains(msg, "version"):
			res.skipped = "version"
		default:
			viol("e2e-close-error", "Close: %v", err)
		}
		return
	}
	if res.overflow {
		viol("e2e-overflow-silent", "glyphs were dropped for lack of codes but Close reported no error")
	}

	// ---- read back
	r, err := pdf.NewReader(bytes.NewReader(buf.Bytes()), int64(buf.Len()), nil)
	if err != nil {
		viol("e2e-reopen", "NewReader: %v", err)
		return
	}
	_, pageDict, err := pagetree.GetPage(r, 0)
	if err != nil {
		viol("e2e-reopen", "GetPage: %v", err)
		return
	}
	x := pdf.NewExtractor(r)
	pg, err := pdf.Decode(pdf.CursorAt(x, nil), pageDict, page.Decode)
	if err != nil {
		viol("e2e-reopen", "page.Decode: %v", err)
		return
	}
	type got struct {
		inst font.Instance
		code font.Code
	}
	var chars []got
	contents := reader.New(x)
	contents.Character = func(c font.Code) error {
		chars = append(chars, got{contents.State.GState.TextFont, c})
		return nil
	}
	if err := contents.ProcessPage(pg); err != nil {
		viol("e2e-reopen", "ProcessPage: %v", err)
		return
	}

	if len(chars) != len(expected) {
		viol("e2e-count", "%d glyphs shown, %d codes read back (fonts %v, PDF %s)", len(expected), len(chars), tc.Fonts, tc.Version)
		return
	}
	readerFont := map[int]font.Instance{}
	firstText := map[[2]int]string{} // (font, gid) -> first text it was shown with
	for i, e := range expected {
		c := chars[i].code
		readerFont[e.font] = chars[i].inst
		k := kinds[e.font]
		if e.nocid {
			continue // reported above; width and text of the notdef glyph are not the shown glyph's
		}
		if math.Abs(c.Width-e.width) > 0.0005+1e-9 {
			viol("e2e-width", "%s PDF %s: glyph %d (%q) has width %.5f, read back %.5f", k.label, tc.Version, e.gid, e.text, e.width, c.Width)
		}
		key := [2]int{e.font, int(e.gid)}
		ft, seen := firstText[key]
		if !seen {
			firstText[key] = e.text
			ft = e.text
		}
		if c.Text != e.text {
			if e.text == "" {
				viol("empty-text-not-preserved", "%s PDF %s: glyph %d shown with the empty text reads back as %q (CID %d)", k.label, tc.Version, e.gid, c.Text, c.CID)
			} else if c.Text == "" && fntSymbolicTrueType(chars[i].inst) {
				viol("truetype-symbolic-text-lost", "%s PDF %s: glyph %d shown with text %q reads back without text: the font dictionary is a symbolic TrueType font (built-in encoding, no glyph names) and ToUnicode leaves out the texts 'implied by the glyph name'", k.label, tc.Version, e.gid, e.text)
			} else if k.identity && ft != e.text && c.Text == ft {
				res.shared++
				viol("fixed-code-shared-text", "%s PDF %s: glyph %d shown as %q and as %q has one code; %q reads back as %q", k.label, tc.Version, e.gid, ft, e.text, e.text, c.Text)
			} else {
				viol("e2e-text", "%s PDF %s: glyph %d shown with text %q reads back as %q (CID %d)", k.label, tc.Version, e.gid, e.text, c.Text, c.CID)
			}
		}
	}

	// ---- writer-side and reader-side decoding of the same strings agree
	for i, s := range strs {
		W := fonts[strFont[i]]
		R := readerFont[strFont[i]]
		if R == nil || len(s) == 0 {
			continue
		}
		var wc, rc []font.Code
		for c := range W.Codes(s) {
			wc = append(wc, c)
		}
		for c := range R.Codes(s) {
			rc = append(rc, c)
		}
		if len(wc) != len(rc) {
			viol("e2e-writer-reader", "%s: string <%x> has %d codes for the writer, %d for the reader", kinds[strFont[i]].label, []byte(s), len(wc), len(rc))
			continue
		}
		for j := range wc {
			a, b := wc[j], rc[j]
			if kinds[strFont[i]].composite && a.CID == 0 {
				continue // notdef (see glyph-without-cid-shown-as-notdef)
			}
			if b.Text == "" && a.Text != "" && fntSymbolicTrueType(R) && math.Abs(a.Width-b.Width) <= 1e-9 && a.UseWordSpacing == b.UseWordSpacing {
				viol("truetype-symbolic-text-lost", "%s: string <%x> code %d: writer text %q, reader (symbolic TrueType dictionary) no text", kinds[strFont[i]].label, []byte(s), j, a.Text)
				break
			}
			if a.Text == "" && b.Text != "" && math.Abs(a.Width-b.Width) <= 1e-9 && a.UseWordSpacing == b.UseWordSpacing {
				viol("empty-text-not-preserved", "%s: string <%x> code %d: writer has the empty text, reader %q", kinds[strFont[i]].label, []byte(s), j, b.Text)
				break
			}
			if math.Abs(a.Width-b.Width) > 1e-9 || a.Text != b.Text || a.UseWordSpacing != b.UseWordSpacing {
				viol("e2e-writer-reader", "%s: string <%x> code %d: writer (w=%.5f,%q,ws=%v) reader (w=%.5f,%q,ws=%v)", kinds[strFont[i]].label, []byte(s), j, a.Width, a.Text, a.UseWordSpacing, b.Width, b.Text, b.UseWordSpacing)
				break
			}
		}
	}
	_ = charcode.Code(0)
	return res
}

// fntSymbolicTrueType: the reader-side instance was made from a TrueType font
// dictionary whose descriptor has the Symbolic flag.
func fntSymbolicTrueType(inst font.Instance) bool {
	g, ok := inst.(interface{ GetDict() dict.Dict })
	if !ok {
		return false
	}
	tt, ok := g.GetDict().(*dict.TrueType)
	return ok && tt.Descriptor != nil && tt.Descriptor.IsSymbolic
}

func fntReplayE2E(input string) (bool, string) {
	var tc fntE2ECase
	if err := json.Unmarshal([]byte(input), &tc); err != nil {
		return false, "bad replay input: " + err.Error()
	}
	res := fntRunE2E(&tc)
	if len(res.viols) > 0 {
		return false, res.viols[0].key + ": " + res.viols[0].desc
	}
	if res.skipped != "" {
		return true, "case not evaluated: " + res.skipped
	}
	return true, fmt.Sprintf("%d glyphs shown and read back with equal widths and texts", res.glyphs)
}

// NFKC-equivalent or otherwise "same glyph, other character" spellings
var fntVariants = map[string][]string{
	" ": {"\u00a0", "\u2002", "\u3000"}, "-": {"\u00ad", "\u2010", "\u2011", "\u2212"}, "fi": {"\ufb01"}, "fl": {"\ufb02"},
	"\ufb01": {"fi"}, "\ufb02": {"fl"}, "ffi": {"\ufb03"}, "ffl": {"\ufb04"}, "ff": {"\ufb00"},
	"\u03a9": {"\u2126"}, "\u2126": {"\u03a9"}, "\u00b5": {"\u03bc"}, "\u03bc": {"\u00b5"}, "K": {"\u212a"}, "\u00c5": {"\u212b", "A\u030a"},
	"\u00e9": {"e\u0301"}, "'": {"\u2019", "\u02bc"}, "\"": {"\u201d"}, ".": {"\u2024"}, "1": {"\u00b9", "\u2460"}, "2": {"\u00b2"},
	"a": {"\u00aa", "\u0430"}, "o": {"\u00ba", "\u03bf", "\u043e"}, "\u2026": {"..."}, "\u00bd": {"1\u20442"},
}

// fntOverrideText: a text for a glyph that differs from the text the layouter attached (and
// from what a glyph name, a character collection or a base encoding would imply): empty,
// several runes, an NFKC-equivalent variant, the text of another glyph, astral / private use.
func fntOverrideText(r *Rand, orig string, alpha []string) string {
	for try := 0; try < 4; try++ {
		t := orig
		switch r.Intn(8) {
		case 0:
			t = ""
		case 1:
			t = orig + Pick(r, []string{"\u0301", "x", "\u200d", orig})
		case 2, 3:
			if v, ok := fntVariants[orig]; ok {
				t = Pick(r, v)
			} else if rs := []rune(orig); len(rs) == 1 && rs[0] > 0x20 && rs[0] < 0x7f {
				t = string(rs[0] - 0x20 + 0xff00) // fullwidth form
			} else {
				t = "[" + orig + "]"
			}
		case 4:
			t = Pick(r, alpha)
		case 5:
			t = Pick(r, []string{"\U0001d49c", "\ue000", "\U000f0001", "\ufffd", "\u4e00", "\u3042"})
		case 6:
			t = Pick(r, []string{"ab", "A B", "\u0635\u0644\u0649", "1/2"})
		default:
			if orig == " " {
				t = "\u00a0"
			} else {
				t = strings.ToUpper(orig)
				if t == orig {
					t = strings.ToLower(orig)
				}
			}
		}
		if t != orig {
			return t
		}
	}
	return orig + "~"
}

func fntGenString(r *Rand, alpha []string, n int) string {
	var sb strings.Builder
	for i := 0; i < n; i++ {
		switch r.Intn(12) {
		case 0:
			sb.WriteString(" ")
		default:
			sb.WriteString(Pick(r, alpha))
		}
	}
	return sb.String()
}

func runFntE2E(c *Ctx) {
	fntInitKinds()
	r := c.R.Fork()
	n := 340
	if c.Thorough {
		n = 4000
	}
	// every kind at least once per run, then random combinations
	order := make([]int, 0, n)
	for i := range fntKinds {
		order = append(order, i)
	}
	// fixed-pitch fonts make every width equal to the default width: the width arrays shrink
	// to one entry and everything rests on MissingWidth / DW.  Always part of the quick tier.
	var mono []int
	for _, l := range []string{"Std-Courier", "Go8-simple", "Go8-composite"} {
		for i := range fntKinds {
			if fntKinds[i].label == l {
				mono = append(mono, i)
			}
		}
	}
	for len(order) < n {
		order = append(order, r.Intn(len(fntKinds)))
	}
	var optKinds, defKinds []int
	for i := range fntKinds {
		if strings.HasPrefix(fntKinds[i].label, "X/") {
			optKinds = append(optKinds, i)
		} else {
			defKinds = append(defKinds, i)
		}
	}
	if !c.Thorough {
		// quick tier: the 18 kinds + utf8 variants, the fixed-pitch fonts and one kind per group of
		// non-default options always; a rotating sample of everything else, half of it from the
		// option kinds
		head := append(append([]int(nil), order[:22]...), mono...)
		for _, l := range []string{"X/cff/rosJapan1/identity", "X/cff/rosJapan1/UniJIS-UTF16-H", "X/cffcid/rosJapan1/Adobe-Japan1-7",
			"X/tt/rosGB1/identity", "X/otcff/rosKorea1/utf8", "X/cffcid2/gid/identity", "X/otglyf/rosCNS1/UniCNS-UTF16-H", "X/tt/rosKR/utf8"} {
			if k := fntKindByLabel(l); k != nil {
				for i := range fntKinds {
					if &fntKinds[i] == k {
						head = append(head, i)
					}
				}
			}
		}
		var pick []int
		for len(pick)+len(head) < n {
			if len(pick)%2 == 0 {
				pick = append(pick, Pick(r, optKinds))
			} else {
				pick = append(pick, Pick(r, defKinds))
			}
		}
		order = append(head, pick...)
	}
	for _, first := range order {
		rr := r.Fork()
		tc := &fntE2ECase{}
		nf := 1
		if rr.P(1, 3) {
			nf = 2 + rr.Intn(2)
		}
		idx := []int{first}
		for len(idx) < nf {
			idx = append(idx, rr.Intn(len(fntKinds)))
		}
		var alphas [][]string
		var probes []font.Layouter
		ok := true
		for _, i := range idx {
			F, err := func() (F font.Layouter, err error) {
				defer func() {
					if p := recover(); p != nil {
						err = fmt.Errorf("panic: %v", p)
					}
				}()
				return fntKinds[i].mk()
			}()
			if err != nil {
				c.Violate("fnt-e2e", "e2e-font-construct", fntKinds[i].label+": "+err.Error(), "")
				ok = false
				break
			}
			tc.Fonts = append(tc.Fonts, fntKinds[i].label)
			alphas = append(alphas, fntAlphabet(&fntKinds[i], F))
			probes = append(probes, F)
		}
		if !ok {
			continue
		}
		vs, _ := Pick(rr, fntVersions).ToString()
		tc.Version = vs
		tc.Late = rr.P(1, 4)
		ns := 2 + rr.Intn(7)
		many := rr.P(1, 12)                             // aim beyond 256 codes
		override := rr.P(3, 5)                          // pages on which some glyphs get a text of the caller's choice
		chosen := make([]map[glyph.ID]string, len(idx)) // fixed CMaps: one text per glyph and page
		for i := range chosen {
			chosen[i] = map[glyph.ID]string{}
		}
		nOv := 0
		for i := 0; i < ns; i++ {
			f := rr.Intn(len(idx))
			if len(alphas[f]) == 0 {
				continue
			}
			ln := 1 + rr.Intn(40)
			if many {
				ln = 80 + rr.Intn(60)
			}
			sh := fntShow{Font: f, Text: fntGenString(rr, alphas[f], ln)}
			if override {
				seq := probes[f].Layout(nil, 9, sh.Text)
				fixed := fntKinds[idx[f]].identity
				for gi, g := range seq.Seq {
					if fixed {
						if t, ok := chosen[f][g.GID]; ok {
							if t != g.Text {
								if sh.Ov == nil {
									sh.Ov = map[int]string{}
								}
								sh.Ov[gi] = t
								nOv++
							}
							continue
						}
					}
					t := g.Text
					if rr.P(1, 5) {
						t = fntOverrideText(rr, g.Text, alphas[f])
					}
					if fixed {
						chosen[f][g.GID] = t
					}
					if t != g.Text {
						if sh.Ov == nil {
							sh.Ov = map[int]string{}
						}
						sh.Ov[gi] = t
						nOv++
					}
				}
			}
			tc.Shows = append(tc.Shows, sh)
		}
		if nOv > 0 {
			c.StatN("e2e.text-overrides", nOv)
			c.Stat("e2e.pages-with-overrides")
		}
		res := fntRunE2E(tc)
		raw, _ := json.Marshal(tc)
		for _, v := range res.viols {
			c.Violate(v.oracle, v.key, v.desc, string(raw))
			c.Stat("e2e.class." + v.key + "." + fntKindClass(strings.TrimSuffix(strings.Fields(v.desc)[0], ":")))
		}
		c.Case(string(raw), res.glyphs >= 3 && res.skipped == "")
		c.Stat("e2e.kind." + fntKindClass(tc.Fonts[0]))
		c.Stat("e2e.version." + tc.Version)
		c.Stat(fmt.Sprintf("e2e.fonts=%d", len(tc.Fonts)))
		if res.skipped != "" {
			c.Stat("e2e.skipped." + res.skipped)
		} else {
			c.StatN("e2e.glyphs", res.glyphs)
		}
		if res.shared > 0 {
			c.Stat("e2e.shared-code-pages")
		}
		if res.refused > 0 {
			c.StatN("e2e.glyphs-without-code-in-cmap", res.refused)
		}
		if len(c.rep.Samples) < 10 && res.skipped == "" && len(tc.Shows) > 0 {
			c.Sample(fmt.Sprintf("e2e %v PDF %s %q… -> %d glyphs read back", tc.Fonts, tc.Version, truncate(tc.Shows[0].Text), res.glyphs))
		}
	}
}

func fntKindClass(label string) string {
	switch {
	case strings.HasPrefix(label, "Go"):
		if strings.HasSuffix(label, "simple") {
			return "gofont-simple"
		}
		return "gofont-composite"
	case strings.HasPrefix(label, "Std-"):
		return "standard14"
	}
	return label
}

package main

// C14 (FNT) — end-to-end oracle: text laid out and shown with every font kind
// that can be built offline from the repository's own test fonts is written to
// a PDF file, the file is reopened, the page is interpreted by reader.Reader
// with the fonts rebuilt by graphics/extract, and every PDF string must decode
// into as many codes as glyphs were shown, each with the glyph's width (to the
// precision of the width arrays: the embedders round to 1/1000 em) and the
// glyph's text; the writer-side and the reader-side font instance must decode
// the same strings identically.  Validated, not proved: the font programs go
// through sfnt, type1, CFF and glyph-list code that no model covers.

import (
	"bytes"
	"crypto/sha1"
	"encoding/json"
	"fmt"
	"math"
	"runtime/debug"
	"sort"
	"strings"

	"seehuhn.de/go/pdf"
	"seehuhn.de/go/pdf/document"
	"seehuhn.de/go/pdf/font"
	"seehuhn.de/go/pdf/font/cff"
	"seehuhn.de/go/pdf/font/charcode"
	"seehuhn.de/go/pdf/font/cmap"
	"seehuhn.de/go/pdf/font/dict"
	"seehuhn.de/go/pdf/font/encoding/cidenc"
	"seehuhn.de/go/pdf/font/glyphdata"
	"seehuhn.de/go/pdf/font/gofont"
	"seehuhn.de/go/pdf/font/opentype"
	"seehuhn.de/go/pdf/font/standard"
	"seehuhn.de/go/pdf/font/textextract"
	"seehuhn.de/go/pdf/font/truetype"
	"seehuhn.de/go/pdf/font/verifhook"
	"seehuhn.de/go/pdf/page"
	"seehuhn.de/go/pdf/pagetree"
	"seehuhn.de/go/pdf/reader"
	"seehuhn.de/go/sfnt"
	"seehuhn.de/go/sfnt/glyph"
)

func init() {
	addRun("C14", "end-to-end: 1-3 fonts per page out of the 18 kinds of internal/fonttypes, 4 composite kinds with the UTF-8 encoder, the 12 Go fonts as simple and composite, the 14 standard fonts, and the non-default embedding options of the composite kinds: 6 font programs (CFF, CFF with CID operators, two private dicts, TrueType, OpenType/CFF, OpenType/glyf) x GID->CID mapping (sequential, identity, the CIDs of Adobe-Japan1/GB1/CNS1/Korea1/KR found through the font's Unicode cmap) x encoder (Identity-H, UTF-8 encoder, the collection's identity CMap and its predefined Unicode/legacy CMaps); PDF versions 1.2-2.0; 2-8 strings per page over the part of Latin/Latin-1/Latin Extended-A/Greek/Cyrillic/punctuation/ligature sequences the font can encode, lengths 1-40, some pages with more than 256 distinct glyphs per simple font, Layout and Show interleaved; on 3 of 5 pages a fifth of the glyphs get a text of the caller's choice instead of the layouter's (empty, several runes, NFKC-equivalent variants such as U+00AD/U+00A0/U+FB01/U+2126/fullwidth forms, the text of another glyph, astral and private-use characters; one text per glyph and page for fixed CMaps); oracle: reader text per code == text given at Encode time; a case is one page, non-trivial when at least 3 glyphs were shown; distinct by fonts+version+strings+overrides", runFntE2E)
	addReplay("C14", "fnt-e2e", fntReplayE2E)
}

type fntKind struct {
	label     string
	composite bool
	identity  bool // composite with a fixed CMap (Identity-H/V or a predefined CMap): one code per CID
	mk        func() (font.Layouter, error)
	mayRefuse bool // predefined CMap: a CID without a code cannot be encoded (the builder skips the glyph)
}

// non-default embedding options of the composite kinds: the font program, the
// GID -> CID mapping (sequential, identity, or the CIDs of a character
// collection looked up through the font's Unicode cmap) and the encoder
// (Identity-H, the UTF-8 encoder, a predefined CMap of the collection).
type fntROS struct {
	tag      string // ordering
	identity string // the Adobe-<ordering>-<n> identity CMap (gives the ROS)
	unicode  []string
}

var fntROSes = []fntROS{
	{"Japan1", "Adobe-Japan1-7", []string{"UniJIS-UTF16-H", "UniJIS-UCS2-H", "UniJIS-UTF8-H", "90ms-RKSJ-H"}},
	{"GB1", "Adobe-GB1-5", []string{"UniGB-UTF16-H", "UniGB-UCS2-H"}},
	{"CNS1", "Adobe-CNS1-7", []string{"UniCNS-UTF16-H", "UniCNS-UTF8-H"}},
	{"Korea1", "Adobe-Korea1-2", []string{"UniKS-UTF16-H", "UniKS-UCS2-H"}},
	{"KR", "Adobe-KR-9", []string{"UniAKR-UTF16-H", "UniAKR-UTF8-H"}},
}

type fntCompBase struct {
	tag  string
	info func() *sfnt.Font
	mk   func(info *sfnt.Font, g2c func() cmap.GIDToCID, enc func(float64, font.WritingMode) cidenc.CIDEncoder) (font.Layouter, error)
}

var fntCompBases = []fntCompBase{
	{"cff", verifhook.OpenType, func(i *sfnt.Font, g func() cmap.GIDToCID, e func(float64, font.WritingMode) cidenc.CIDEncoder) (font.Layouter, error) {
		return cff.NewComposite(i, &cff.OptionsComposite{MakeGIDToCID: g, MakeEncoder: e})
	}},
	{"cffcid", verifhook.OpenTypeCID, func(i *sfnt.Font, g func() cmap.GIDToCID, e func(float64, font.WritingMode) cidenc.CIDEncoder) (font.Layouter, error) {
		return cff.NewComposite(i, &cff.OptionsComposite{MakeGIDToCID: g, MakeEncoder: e})
	}},
	{"cffcid2", verifhook.OpenTypeCID2, func(i *sfnt.Font, g func() cmap.GIDToCID, e func(float64, font.WritingMode) cidenc.CIDEncoder) (font.Layouter, error) {
		return cff.NewComposite(i, &cff.OptionsComposite{MakeGIDToCID: g, MakeEncoder: e})
	}},
	{"tt", verifhook.TrueType, func(i *sfnt.Font, g func() cmap.GIDToCID, e func(float64, font.WritingMode) cidenc.CIDEncoder) (font.Layouter, error) {
		return truetype.NewComposite(i, &truetype.OptionsComposite{MakeGIDToCID: g, MakeEncoder: e})
	}},
	{"otcff", verifhook.OpenType, func(i *sfnt.Font, g func() cmap.GIDToCID, e func(float64, font.WritingMode) cidenc.CIDEncoder) (font.Layouter, error) {
		return opentype.NewComposite(i, &opentype.OptionsComposite{MakeGIDToCID: g, MakeEncoder: e})
	}},
	{"otglyf", verifhook.TrueType, func(i *sfnt.Font, g func() cmap.GIDToCID, e func(float64, font.WritingMode) cidenc.CIDEncoder) (font.Layouter, error) {
		return opentype.NewComposite(i, &opentype.OptionsComposite{MakeGIDToCID: g, MakeEncoder: e})
	}},
}

// fntOptionKinds enumerates base x GID->CID x encoder.
func fntOptionKinds() []fntKind {
	var out []fntKind
	for _, b := range fntCompBases {
		b := b
		type g2c struct {
			tag string
			ros *fntROS
			mk  func(info *sfnt.Font) (func() cmap.GIDToCID, error)
		}
		g2cs := []g2c{
			{"seq", nil, func(*sfnt.Font) (func() cmap.GIDToCID, error) { return cmap.NewGIDToCIDSequential, nil }},
			{"gid", nil, func(*sfnt.Font) (func() cmap.GIDToCID, error) { return cmap.NewGIDToCIDIdentity, nil }},
		}
		for i := range fntROSes {
			ro := &fntROSes[i]
			g2cs = append(g2cs, g2c{"ros" + ro.tag, ro, func(info *sfnt.Font) (func() cmap.GIDToCID, error) {
				lookup, err := info.CMapTable.GetBest()
				if err != nil {
					return nil, err
				}
				cm, err := cmap.Predefined(ro.identity)
				if err != nil {
					return nil, err
				}
				return func() cmap.GIDToCID { return cmap.NewGIDToCIDFromROS(cm.ROS, lookup) }, nil
			}})
		}
		for _, g := range g2cs {
			g := g
			encs := []string{"identity", "utf8"}
			if g.ros != nil {
				encs = append(encs, g.ros.identity)
				encs = append(encs, g.ros.unicode...)
			}
			for _, e := range encs {
				e := e
				if g.tag == "seq" && (e == "identity" || e == "utf8") {
					continue // the default kinds and the -utf8 kinds above
				}
				out = append(out, fntKind{
					label: "X/" + b.tag + "/" + g.tag + "/" + e, composite: true,
					identity: e != "utf8",
					// a predefined CMap may have no code for a CID; with a ROS-based mapping a glyph may have
					// no CID at all (CID 0, whose preset width differs): Encode may refuse the glyph
					mayRefuse: e != "utf8" && (e != "identity" || g.ros != nil),
					mk: func() (font.Layouter, error) {
						info := b.info()
						mg, err := g.mk(info)
						if err != nil {
							return nil, err
						}
						var me func(float64, font.WritingMode) cidenc.CIDEncoder
						switch e {
						case "identity":
							me = cidenc.NewCompositeIdentity
						case "utf8":
							me = cidenc.NewCompositeUtf8
						default:
							cm, err := cmap.Predefined(e)
							if err != nil {
								return nil, err
							}
							var encErr error
							me = func(w0 float64, _ font.WritingMode) cidenc.CIDEncoder {
								enc, err := cidenc.NewFromCMap(cm, w0)
								if err != nil {
									encErr = err
									return cidenc.NewCompositeIdentity(w0, font.Horizontal)
								}
								return enc
							}
							F, err := b.mk(info, mg, me)
							if encErr != nil {
								return nil, encErr
							}
							return F, err
						}
						return b.mk(info, mg, me)
					}})
			}
		}
	}
	return out
}

var fntKinds []fntKind

func fntInitKinds() {
	if fntKinds != nil {
		return
	}
	for _, s := range verifhook.All() {
		s := s
		fntKinds = append(fntKinds, fntKind{label: s.Label, composite: s.Composite, identity: s.Composite, mk: func() (font.Layouter, error) { return s.MakeFont(), nil }})
	}
	fntKinds = append(fntKinds,
		fntKind{label: "CFFComposite-utf8", composite: true, mk: func() (font.Layouter, error) {
			return cff.NewComposite(verifhook.OpenType(), &cff.OptionsComposite{MakeEncoder: cidenc.NewCompositeUtf8})
		}},
		fntKind{label: "TrueTypeComposite-utf8", composite: true, mk: func() (font.Layouter, error) {
			return truetype.NewComposite(verifhook.TrueType(), &truetype.OptionsComposite{MakeEncoder: cidenc.NewCompositeUtf8})
		}},
		fntKind{label: "OpenTypeCFFComposite-utf8", composite: true, mk: func() (font.Layouter, error) {
			return opentype.NewComposite(verifhook.OpenType(), &opentype.OptionsComposite{MakeEncoder: cidenc.NewCompositeUtf8})
		}},
		fntKind{label: "OpenTypeGlyfComposite-utf8", composite: true, mk: func() (font.Layouter, error) {
			return opentype.NewComposite(verifhook.TrueType(), &opentype.OptionsComposite{MakeEncoder: cidenc.NewCompositeUtf8})
		}},
	)
	for i := gofont.Regular; i <= gofont.MonoItalic; i++ {
		i := i
		fntKinds = append(fntKinds,
			fntKind{label: fmt.Sprintf("Go%d-simple", int(i)), mk: func() (font.Layouter, error) { return i.NewSimple(nil) }},
			fntKind{label: fmt.Sprintf("Go%d-composite", int(i)), composite: true, identity: true, mk: func() (font.Layouter, error) { return i.NewComposite(nil) }})
	}
	for _, f := range standard.All {
		f := f
		fntKinds = append(fntKinds, fntKind{label: "Std-" + fmt.Sprint(f), mk: func() (font.Layouter, error) { return f.New() }})
	}
	fntKinds = append(fntKinds, fntOptionKinds()...)
	fntKinds = append(fntKinds, fntWidthKinds()...)
	fntKinds = append(fntKinds, fntSpecialType3Kinds()...)
}

func fntKindByLabel(l string) *fntKind {
	fntInitKinds()
	for i := range fntKinds {
		if fntKinds[i].label == l {
			return &fntKinds[i]
		}
	}
	return nil
}

var fntVersions = []pdf.Version{pdf.V1_2, pdf.V1_3, pdf.V1_4, pdf.V1_5, pdf.V1_6, pdf.V1_7, pdf.V2_0}

// candidate repertoire
var fntCandidates = func() []string {
	var out []string
	add := func(lo, hi rune) {
		for r := lo; r <= hi; r++ {
			out = append(out, string(r))
		}
	}
	add(0x20, 0x7e)
	add(0xa0, 0xff)
	add(0x100, 0x17f)
	add(0x384, 0x3ce)
	add(0x400, 0x45f)
	add(0x2010, 0x2027)
	add(0x2701, 0x2727) // ZapfDingbats a1 …
	out = append(out, fntLigatures...)
	for _, s := range []string{"‰", "‹", "›", "€", "™", "Ω", "−", "ﬁ", "ﬂ", "←", "→", "♠", "♥", "✁", "✈", "✓", "α", "∀", "∑"} {
		out = append(out, s)
	}
	return out
}()

var fntLigatures = []string{"fi", "fl", "ff", "ffi", "ffl", "office", "fjord", "AV", "To", "Ǻ"}

var fntAlphabetCache = map[string][]string{}

// fntAlphabet: the candidates for which the font has glyphs (no glyph 0).
func fntAlphabet(k *fntKind, F font.Layouter) []string {
	if a, ok := fntAlphabetCache[k.label]; ok {
		return a
	}
	var a []string
	codec := F.Codec()
	for _, s := range fntCandidates {
		seq := F.Layout(nil, 10, s)
		ok := len(seq.Seq) > 0
		for _, g := range seq.Seq {
			if g.GID == 0 {
				ok = false
				break
			}
			if k.composite {
				// composite kinds have codes to spare on this throw-away instance: the glyph
				// must be encodable (a predefined CMap may have no code for its CID) and must not
				// be the notdef CID (a character collection without this character)
				code, enc := F.Encode(g.GID, g.Text)
				if !enc {
					ok = false
					break
				}
				for c := range F.Codes(codec.AppendCode(nil, code)) {
					if c.CID == 0 {
						ok = false
					}
				}
			}
		}
		if ok {
			a = append(a, s)
			if k.composite && k.identity && len(seq.Seq) == 1 && !strings.Contains(k.label, "/seq/") && (strings.HasPrefix(k.label, "X/") || strings.Contains(k.label, "-ros")) {
				// codes of these kinds do not depend on the order of use: remember the characters
				// whose code ends in zero bytes (an incomplete code with the same packed value exists)
				if code, enc := F.Encode(seq.Seq[0].GID, seq.Seq[0].Text); enc {
					b := codec.AppendCode(nil, code)
					n := len(b)
					for n > 0 && b[n-1] == 0 {
						n--
					}
					if n > 0 && n < len(b) {
						fntZeroTail[k.label] = append(fntZeroTail[k.label], [2]string{s, hx(b[:n])})
					}
				}
			}
		}
	}
	for _, m := range []string{"\u2603", "\u4e00", "\u0e01", "\u2010"} {
		seq := F.Layout(nil, 10, m)
		if len(seq.Seq) == 1 && seq.Seq[0].GID == 0 && seq.Seq[0].Text == m {
			fntMissing[k.label] = m
			break
		}
	}
	fntAlphabetCache[k.label] = a
	return a
}

// fntTailDone: simple kinds that already had a page ending with the re-show of used glyphs.
var fntTailDone = map[string]bool{}

// fntZeroTail: per kind, (character, hex of its code without the trailing zero bytes).
var fntZeroTail = map[string][][2]string{}

// fntMissing: per kind, a character the font has no glyph for (laid out as glyph 0 with its text).
var fntMissing = map[string]string{}

type fntShow struct {
	Font int    `json:"f"`
	Text string `json:"t"`
	// Ov: glyph index (in the laid-out sequence) -> text given to the glyph instead of the text
	// the layouter attached (what a caller does who sets font.Glyph.Text, e.g. for ActualText-free
	// soft hyphens, no-break spaces, ligature spellings)
	Ov map[int]string `json:"ov,omitempty"`
}

func (sh *fntShow) apply(seq *font.GlyphSeq) {
	for i, t := range sh.Ov {
		if i >= 0 && i < len(seq.Seq) {
			seq.Seq[i].Text = t
		}
	}
}

type fntE2ECase struct {
	Fonts   []string  `json:"fonts"`
	Version string    `json:"v"`
	Shows   []fntShow `json:"shows"`
	Late    bool      `json:"late,omitempty"` // lay out everything first, show afterwards in reverse order
	// Early: calls that make a font instance compute derived data before all text is shown
	Early []fntEarly `json:"early,omitempty"`
	// Stray: incomplete codes shown with TextShowRaw at the top of the page (a string that ends in
	// the middle of a multi-byte code), before the text that contains the complete code
	Stray []fntStray `json:"stray,omitempty"`
}

type fntStray struct {
	Font int    `json:"f"`
	Hex  string `json:"hex"`
}

// fntEarly: after the After-th TextShowGlyphs call of the page, query font Font.
type fntEarly struct {
	After int    `json:"after"`
	Font  int    `json:"f"`
	Kind  string `json:"k"` // info | names | space | codes | geom | embed
}

var fntEarlyKinds = []string{"info", "names", "space", "codes", "geom", "embed"}

func fntEarlyCall(kind string, F font.Layouter, doc *document.Page) {
	switch kind {
	case "info":
		_ = F.FontInfo()
	case "names":
		_ = textextract.GlyphNameMapping(F)
	case "space":
		_ = textextract.SpaceWidth(F)
	case "codes":
		for range F.Codes(pdf.String{0x20, 0x41, 0x00, 0x01, 0xc3, 0xa9}) {
		}
	case "geom":
		_ = F.GetGeometry()
		_ = F.Layout(nil, 10, "probe fi ffl AV")
		_ = F.CodesRemaining()
		_ = F.PostScriptName()
	case "embed":
		_, _ = doc.RM.Embed(F)
	}
}

// fntInfoPrint is a canonical form of a FontInfo() result: what identifies the embedded font
// program and how codes / CIDs select glyphs in it.  used: the codes of a simple font that occur.
func fntInfoPrint(info any, used []byte) string {
	file := func(s *glyphdata.Stream) string {
		if s == nil {
			return "file=none"
		}
		if s.WriteTo == nil {
			return fmt.Sprintf("file=%v:no-writer", s.Type)
		}
		var buf bytes.Buffer
		if err := s.WriteTo(&buf, &glyphdata.Lengths{}); err != nil {
			return fmt.Sprintf("file=%v:error:%v", s.Type, err)
		}
		h := sha1.Sum(buf.Bytes())
		return fmt.Sprintf("file=%v:%d:%x", s.Type, buf.Len(), h[:6])
	}
	enc := func(e func(byte) string) string {
		var parts []string
		seen := map[byte]bool{}
		for _, c := range used {
			if !seen[c] && e != nil {
				seen[c] = true
				parts = append(parts, fmt.Sprintf("%d=%s", c, e(c)))
			}
		}
		sort.Strings(parts)
		return strings.Join(parts, ",")
	}
	switch x := info.(type) {
	case nil:
		return "nil"
	case *dict.FontInfoSimple:
		return fmt.Sprintf("simple %s %s symbolic=%v serif=%v fixed=%v italic=%v weight=%v enc[%s]", x.PostScriptName, file(x.FontFile), x.IsSymbolic, x.IsSerif, x.IsFixedPitch, x.IsItalic, x.FontWeight, enc(x.Encoding))
	case *dict.FontInfoCID:
		return fmt.Sprintf("cid %s %s serif=%v fixed=%v italic=%v weight=%v", x.PostScriptName, file(x.FontFile), x.IsSerif, x.IsFixedPitch, x.IsItalic, x.FontWeight)
	case *dict.FontInfoGlyfEmbedded:
		c2g := x.CIDToGID
		for len(c2g) > 0 && c2g[len(c2g)-1] == 0 {
			c2g = c2g[:len(c2g)-1]
		}
		return fmt.Sprintf("glyf %s %s cidtogid=%v", x.PostScriptName, file(x.FontFile), c2g)
	case *dict.FontInfoGlyfExternal:
		return fmt.Sprintf("glyf-external %s %v", x.PostScriptName, x.ROS)
	case *dict.FontInfoType3:
		var procs []string
		for n := range x.CharProcs {
			procs = append(procs, string(n))
		}
		sort.Strings(procs)
		return fmt.Sprintf("type3 matrix=%v procs=%v enc[%s]", x.FontMatrix, procs, enc(x.Encoding))
	}
	return fmt.Sprintf("%T", info)
}

type fntGlyphRec struct {
	font  int
	gid   glyph.ID
	text  string
	width float64 // text space units
	nocid bool    // the font's GID -> CID mapping has no CID for the glyph: it was written as CID 0
	raw   bool    // not a glyph that was laid out: a code of a stray string, expectation = writer-side Codes
	code  uint32  // the character code (packed as charcode.Code)
}

type fntE2EResult struct {
	viols                 []fntViol
	glyphs                int
	skipped               string // reason the case could not be evaluated (version, font)
	overflow              bool
	shared                int
	refused               int
	early                 int
	infoSame, infoDiffers int // statistic: writer-side FontInfo() vs. the font read back
	wZero                 int // glyphs shown whose advance is 0 / below 2/1000 em / above 5 em
	wTiny                 int
	wHuge                 int
	overrides             int
	fontsUsed             int
}

func fntVersionByName(s string) pdf.Version {
	for _, v := range fntVersions {
		if n, _ := v.ToString(); n == s {
			return v
		}
	}
	return pdf.V1_7
}

func fntRunE2E(tc *fntE2ECase) (res fntE2EResult) {
	viol := func(key, format string, a ...any) {
		res.viols = append(res.viols, fntViol{"fnt-e2e", key, fmt.Sprintf(format, a...)})
	}
	defer func() {
		if p := recover(); p != nil {
			st := string(debug.Stack())
			if i := strings.Index(st, "panic("); i >= 0 {
				st = st[i:]
			}
			viol("e2e-panic", "panic: %v; %s", p, strings.Join(strings.Fields(truncate(st)), " "))
		}
	}()
	fntInitKinds()
	var kinds []*fntKind
	var fonts []font.Layouter
	for _, l := range tc.Fonts {
		k := fntKindByLabel(l)
		if k == nil {
			res.skipped = "unknown font kind " + l
			return
		}
		F, err := k.mk()
		if err != nil {
			res.skipped = "font: " + err.Error()
			return
		}
		if F.WritingMode() != font.Horizontal {
			res.skipped = "vertical"
			return
		}
		kinds = append(kinds, k)
		fonts = append(fonts, F)
	}
	res.fontsUsed = len(fonts)
	v := fntVersionByName(tc.Version)

	buf := &bytes.Buffer{}
	doc, err := document.WriteSinglePage(buf, document.A4, v, nil)
	if err != nil {
		res.skipped = "writer: " + err.Error()
		return
	}
	type shown struct {
		font   int
		glyphs []font.Glyph
	}
	var shows []shown
	doc.TextBegin()
	doc.TextFirstLine(36, 800)
	cur := -1
	setFont := func(i int) {
		if cur != i {
			doc.TextSetFont(fonts[i], 9)
			cur = i
		}
	}
	for _, st := range tc.Stray {
		if st.Font >= 0 && st.Font < len(fonts) {
			raw, _ := hexDecode(st.Hex)
			setFont(st.Font)
			doc.TextShowRaw(pdf.String(raw))
		}
	}
	early := func(n int) { // n: number of shows done so far, minus one
		for _, e := range tc.Early {
			if e.After == n && e.Font >= 0 && e.Font < len(fonts) {
				fntEarlyCall(e.Kind, fonts[e.Font], doc)
				res.early++
			}
		}
	}
	if tc.Late {
		var seqs []*font.GlyphSeq
		for _, sh := range tc.Shows {
			setFont(sh.Font)
			seq := doc.TextLayout(nil, sh.Text)
			sh.apply(seq)
			seqs = append(seqs, seq)
		}
		for i := len(tc.Shows) - 1; i >= 0; i-- {
			setFont(tc.Shows[i].Font)
			shows = append(shows, shown{tc.Shows[i].Font, append([]font.Glyph(nil), seqs[i].Seq...)})
			doc.TextShowGlyphs(seqs[i])
			doc.TextSecondLine(0, -11)
			early(len(tc.Shows) - 1 - i)
		}
	} else {
		for si, sh := range tc.Shows {
			setFont(sh.Font)
			seq := doc.TextLayout(nil, sh.Text)
			sh.apply(seq)
			shows = append(shows, shown{sh.Font, append([]font.Glyph(nil), seq.Seq...)})
			doc.TextShowGlyphs(seq)
			doc.TextSecondLine(0, -11)
			early(si)
		}
	}
	doc.TextEnd()
	if doc.Err != nil {
		viol("e2e-builder-error", "content builder: %v", doc.Err)
		return
	}

	// what was shown (glyphs the font could not encode are skipped by the builder)
	nocidFont := map[int]bool{} // fonts of the page in which a glyph without CID was written as CID 0
	var expected []fntGlyphRec
	var strs []pdf.String // per show: the codes of the shown glyphs
	var strFont []int
	for _, sh := range shows {
		F := fonts[sh.font]
		codec := F.Codec()
		geom := F.GetGeometry()
		var s pdf.String
		for _, g := range sh.glyphs {
			code, ok := F.Encode(g.GID, g.Text)
			if !ok {
				if kinds[sh.font].mayRefuse {
					res.refused++ // the predefined CMap has no code for this CID: the builder skips the glyph
					continue
				}
				if kinds[sh.font].composite || F.CodesRemaining() > 0 {
					viol("e2e-encode-refused", "%s: Encode(%d,%q) refused with %d codes remaining", kinds[sh.font].label, g.GID, g.Text, F.CodesRemaining())
				}
				res.overflow = true
				continue
			}
			s = codec.AppendCode(s, code)
			w := 0.0
			if int(g.GID) < len(geom.Widths) {
				w = geom.Widths[g.GID]
			}
			nocid := false
			if kinds[sh.font].composite && g.GID != 0 {
				for c := range F.Codes(codec.AppendCode(nil, code)) {
					nocid = c.CID == 0
				}
				if nocid {
					nocidFont[sh.font] = true
					viol("glyph-without-cid-shown-as-notdef", "%s: glyph %d (%q) has no CID in the character collection of the font's GID->CID mapping; Encode succeeds and writes the code of CID 0, the page shows .notdef", kinds[sh.font].label, g.GID, g.Text)
				}
			}
			switch {
			case g.GID != 0 && w == 0:
				res.wZero++
			case g.GID != 0 && w > 5:
				res.wHuge++
			case g.GID != 0 && w < 0.002:
				res.wTiny++
			}
			expected = append(expected, fntGlyphRec{sh.font, g.GID, g.Text, w, nocid, false, uint32(code)})
		}
		strs = append(strs, s)
		strFont = append(strFont, sh.font)
	}
	// stray strings: what the writer-side font makes of them is what the reader must make of them
	poisoned := map[uint32]bool{}
	if len(tc.Stray) > 0 {
		var front []fntGlyphRec
		var fstrs []pdf.String
		var fstrFont []int
		for _, st := range tc.Stray {
			if st.Font < 0 || st.Font >= len(fonts) {
				continue
			}
			raw, _ := hexDecode(st.Hex)
			var v uint32
			for i, b := range raw {
				v |= uint32(b) << (8 * i)
			}
			poisoned[v] = true
			for c := range fonts[st.Font].Codes(pdf.String(raw)) {
				front = append(front, fntGlyphRec{font: st.Font, text: c.Text, width: c.Width, raw: true})
			}
			fstrs = append(fstrs, pdf.String(raw))
			fstrFont = append(fstrFont, st.Font)
		}
		expected = append(front, expected...)
		strs = append(fstrs, strs...)
		strFont = append(fstrFont, strFont...)
	}
	res.glyphs = len(expected)

	// FontInfo() at the end of the page describes what is about to be embedded
	writerInfo := make([]string, len(fonts))
	usedCodes := make([][]byte, len(fonts))
	for i, s := range strs {
		if !kinds[strFont[i]].composite {
			usedCodes[strFont[i]] = append(usedCodes[strFont[i]], s...)
		}
	}
	for i, F := range fonts {
		writerInfo[i] = fntInfoPrint(F.FontInfo(), usedCodes[i])
	}

	err = doc.Close()
	if err != nil {
		msg := err.Error()
		switch {
		case res.overflow && strings.Contains(msg, "too many glyphs"):
			// the 256-code limit of a simple font: the file is refused, nothing wrong is written
			res.skipped = "overflow"
		case strings.Contains(msg, "requires PDF version") || strings.Contains(msg, "version"):
			res.skipped = "version"
		default:
			viol("e2e-close-error", "Close: %v", err)
		}
		return
	}
	if res.overflow {
		viol("e2e-overflow-silent", "glyphs were dropped for lack of codes but Close reported no error")
	}

	// ---- read back
	r, err := pdf.NewReader(bytes.NewReader(buf.Bytes()), int64(buf.Len()), nil)
	if err != nil {
		viol("e2e-reopen", "NewReader: %v", err)
		return
	}
	_, pageDict, err := pagetree.GetPage(r, 0)
	if err != nil {
		viol("e2e-reopen", "GetPage: %v", err)
		return
	}
	x := pdf.NewExtractor(r)
	pg, err := pdf.Decode(pdf.CursorAt(x, nil), pageDict, page.Decode)
	if err != nil {
		viol("e2e-reopen", "page.Decode: %v", err)
		return
	}
	type got struct {
		inst font.Instance
		code font.Code
	}
	var chars []got
	contents := reader.New(x)
	contents.Character = func(c font.Code) error {
		chars = append(chars, got{contents.State.GState.TextFont, c})
		return nil
	}
	if err := contents.ProcessPage(pg); err != nil {
		viol("e2e-reopen", "ProcessPage: %v", err)
		return
	}

	if len(chars) != len(expected) {
		viol("e2e-count", "%d glyphs shown, %d codes read back (fonts %v, PDF %s)", len(expected), len(chars), tc.Fonts, tc.Version)
		return
	}
	readerFont := map[int]font.Instance{}
	firstText := map[[2]int]string{} // (font, gid) -> first text it was shown with
	for i, e := range expected {
		c := chars[i].code
		readerFont[e.font] = chars[i].inst
		k := kinds[e.font]
		if e.nocid {
			continue // reported above; width and text of the notdef glyph are not the shown glyph's
		}
		ros := strings.Contains(k.label, "ros")
		if e.raw {
			// (ROS-based mappings: CID 0 is the collection's U+FFFD glyph, whose width is DW, while the
			// writer-side encoder holds the width of glyph 0 for invalid codes — outside the text that
			// was laid out; not compared)
			if (math.Abs(c.Width-e.width) > 1e-9 && !ros) || c.Text != e.text {
				viol("e2e-stray-code", "%s PDF %s: a code of the stray string decodes to (w=%.5f,%q) for the writer and to (w=%.5f,%q) for the reader", k.label, tc.Version, e.width, e.text, c.Width, c.Text)
			}
			continue
		}
		if poisoned[e.code] && (math.Abs(c.Width-e.width) > 0.0005+1e-9 || c.Text != e.text) {
			viol("truncated-code-poisons-cache", "%s PDF %s: glyph %d (%q, width %.5f) has code value %#x, the value of an incomplete code that ends an earlier string of the page; it reads back as (w=%.5f,%q,CID %d): the extracted font caches decoded codes by value only", k.label, tc.Version, e.gid, e.text, e.width, e.code, c.Width, c.Text, c.CID)
			continue
		}
		if e.gid == 0 && ros && (k.identity || nocidFont[e.font]) {
			// see above: the width of CID 0; the text is checked below.  With the UTF-8 encoder the
			// width is recorded per code, but W is per CID: when the page also shows a glyph WITHOUT
			// CID in this font (reported as glyph-without-cid-shown-as-notdef), that glyph is written
			// as CID 0 with its own width and W[0] holds whichever of the two widths the map iteration
			// put last — the width of glyph 0 is a consequence of that finding, not compared
		} else if math.Abs(c.Width-e.width) > 0.0005+1e-9 && strings.HasPrefix(k.label, "W/type3-fm") && !e.raw {
			viol("type3-width-rounded", "%s PDF %s: glyph %d (%q) has advance %.5f em (d0 width x FontMatrix), the /Widths entry read back gives %.5f em: the width was rounded to a whole number of Type 3 glyph-space units", k.label, tc.Version, e.gid, e.text, e.width, c.Width)
		} else if math.Abs(c.Width-e.width) > 0.0005+1e-9 {
			viol("e2e-width", "%s PDF %s: glyph %d (%q) has width %.5f, read back %.5f", k.label, tc.Version, e.gid, e.text, e.width, c.Width)
		}
		key := [2]int{e.font, int(e.gid)}
		ft, seen := firstText[key]
		if !seen {
			firstText[key] = e.text
			ft = e.text
		}
		if c.Text != e.text {
			if e.gid == 0 && e.text != "" && (c.Text == "" || c.Text == "\ufffd") && k.composite && k.identity {
				viol("notdef-text-lost", "%s PDF %s: a character the font lacks (%q, laid out as glyph 0) reads back without text: the fixed-CMap encoder never records a text for CID 0 (GetCode answers from the preset width)", k.label, tc.Version, e.text)
			} else if strings.HasPrefix(k.label, "W/type3-dingbats") && c.Text == "" {
				viol("type3-dingbats-text-lost", "%s PDF %s: glyph %d shown with text %q reads back without text: the writer takes the text as implied by the ZapfDingbats glyph list, a Type 3 dictionary has no BaseFont to tell the reader", k.label, tc.Version, e.gid, e.text)
			} else if e.text == "" {
				viol("empty-text-not-preserved", "%s PDF %s: glyph %d shown with the empty text reads back as %q (CID %d)", k.label, tc.Version, e.gid, c.Text, c.CID)
			} else if c.Text == "" && fntSymbolicTrueType(chars[i].inst) {
				viol("truetype-symbolic-text-lost", "%s PDF %s: glyph %d shown with text %q reads back without text: the font dictionary is a symbolic TrueType font (built-in encoding, no glyph names) and ToUnicode leaves out the texts 'implied by the glyph name'", k.label, tc.Version, e.gid, e.text)
			} else if k.identity && ft != e.text && c.Text == ft {
				res.shared++
				viol("fixed-code-shared-text", "%s PDF %s: glyph %d shown as %q and as %q has one code; %q reads back as %q", k.label, tc.Version, e.gid, ft, e.text, e.text, c.Text)
			} else {
				viol("e2e-text", "%s PDF %s: glyph %d shown with text %q reads back as %q (CID %d)", k.label, tc.Version, e.gid, e.text, c.Text, c.CID)
			}
		}
	}

	// ---- statistic only (not part of C14, never a violation): does FontInfo() of the writer-side
	// instance at the end of the page describe the same program as the font read back?
	for fi, R := range readerFont {
		if R == nil {
			continue
		}
		if fntInfoPrint(R.FontInfo(), usedCodes[fi]) == writerInfo[fi] {
			res.infoSame++
		} else {
			res.infoDiffers++
		}
	}

	// ---- writer-side and reader-side decoding of the same strings agree
	for i, s := range strs {
		W := fonts[strFont[i]]
		R := readerFont[strFont[i]]
		if R == nil || len(s) == 0 {
			continue
		}
		var wc, rc []font.Code
		for c := range W.Codes(s) {
			wc = append(wc, c)
		}
		for c := range R.Codes(s) {
			rc = append(rc, c)
		}
		if len(wc) != len(rc) {
			viol("e2e-writer-reader", "%s: string <%x> has %d codes for the writer, %d for the reader", kinds[strFont[i]].label, []byte(s), len(wc), len(rc))
			continue
		}
		for j := range wc {
			a, b := wc[j], rc[j]
			if kinds[strFont[i]].composite && a.CID == 0 {
				continue // notdef (see glyph-without-cid-shown-as-notdef)
			}
			if b.Text == "" && a.Text != "" && fntSymbolicTrueType(R) && math.Abs(a.Width-b.Width) <= 1e-9 && a.UseWordSpacing == b.UseWordSpacing {
				viol("truetype-symbolic-text-lost", "%s: string <%x> code %d: writer text %q, reader (symbolic TrueType dictionary) no text", kinds[strFont[i]].label, []byte(s), j, a.Text)
				break
			}
			if strings.HasPrefix(kinds[strFont[i]].label, "W/type3-dingbats") && b.Text == "" && a.Text != "" {
				viol("type3-dingbats-text-lost", "%s: string <%x> code %d: writer text %q, reader no text", kinds[strFont[i]].label, []byte(s), j, a.Text)
				break
			}
			if a.Text == "" && b.Text != "" && math.Abs(a.Width-b.Width) <= 1e-9 && a.UseWordSpacing == b.UseWordSpacing {
				viol("empty-text-not-preserved", "%s: string <%x> code %d: writer has the empty text, reader %q", kinds[strFont[i]].label, []byte(s), j, b.Text)
				break
			}
			if len(poisoned) > 0 && (math.Abs(a.Width-b.Width) > 1e-9 || a.Text != b.Text) {
				viol("truncated-code-poisons-cache", "%s: string <%x> code %d: writer (w=%.5f,%q) reader (w=%.5f,%q) on a page with an incomplete code", kinds[strFont[i]].label, []byte(s), j, a.Width, a.Text, b.Width, b.Text)
				break
			}
			if math.Abs(a.Width-b.Width) > 1e-9 || a.Text != b.Text || a.UseWordSpacing != b.UseWordSpacing {
				viol("e2e-writer-reader", "%s: string <%x> code %d: writer (w=%.5f,%q,ws=%v) reader (w=%.5f,%q,ws=%v)", kinds[strFont[i]].label, []byte(s), j, a.Width, a.Text, a.UseWordSpacing, b.Width, b.Text, b.UseWordSpacing)
				break
			}
		}
	}
	_ = charcode.Code(0)
	return res
}

// fntSymbolicTrueType: the reader-side instance was made from a TrueType font
// dictionary whose descriptor has the Symbolic flag.
func fntSymbolicTrueType(inst font.Instance) bool {
	g, ok := inst.(interface{ GetDict() dict.Dict })
	if !ok {
		return false
	}
	tt, ok := g.GetDict().(*dict.TrueType)
	return ok && tt.Descriptor != nil && tt.Descriptor.IsSymbolic
}

func fntReplayE2E(input string) (bool, string) {
	var tc fntE2ECase
	if err := json.Unmarshal([]byte(input), &tc); err != nil {
		return false, "bad replay input: " + err.Error()
	}
	res := fntRunE2E(&tc)
	if len(res.viols) > 0 {
		return false, res.viols[0].key + ": " + res.viols[0].desc
	}
	if res.skipped != "" {
		return true, "case not evaluated: " + res.skipped
	}
	return true, fmt.Sprintf("%d glyphs shown and read back with equal widths and texts", res.glyphs)
}

// NFKC-equivalent or otherwise "same glyph, other character" spellings
var fntVariants = map[string][]string{
	" ": {"\u00a0", "\u2002", "\u3000"}, "-": {"\u00ad", "\u2010", "\u2011", "\u2212"}, "fi": {"\ufb01"}, "fl": {"\ufb02"},
	"\ufb01": {"fi"}, "\ufb02": {"fl"}, "ffi": {"\ufb03"}, "ffl": {"\ufb04"}, "ff": {"\ufb00"},
	"\u03a9": {"\u2126"}, "\u2126": {"\u03a9"}, "\u00b5": {"\u03bc"}, "\u03bc": {"\u00b5"}, "K": {"\u212a"}, "\u00c5": {"\u212b", "A\u030a"},
	"\u00e9": {"e\u0301"}, "'": {"\u2019", "\u02bc"}, "\"": {"\u201d"}, ".": {"\u2024"}, "1": {"\u00b9", "\u2460"}, "2": {"\u00b2"},
	"a": {"\u00aa", "\u0430"}, "o": {"\u00ba", "\u03bf", "\u043e"}, "\u2026": {"..."}, "\u00bd": {"1\u20442"},
}

// fntOverrideText: a text for a glyph that differs from the text the layouter attached (and
// from what a glyph name, a character collection or a base encoding would imply): empty,
// several runes, an NFKC-equivalent variant, the text of another glyph, astral / private use.
func fntOverrideText(r *Rand, orig string, alpha []string) string {
	for try := 0; try < 4; try++ {
		t := orig
		switch r.Intn(8) {
		case 0:
			t = ""
		case 1:
			t = orig + Pick(r, []string{"\u0301", "x", "\u200d", orig})
		case 2, 3:
			if v, ok := fntVariants[orig]; ok {
				t = Pick(r, v)
			} else if rs := []rune(orig); len(rs) == 1 && rs[0] > 0x20 && rs[0] < 0x7f {
				t = string(rs[0] - 0x20 + 0xff00) // fullwidth form
			} else {
				t = "[" + orig + "]"
			}
		case 4:
			t = Pick(r, alpha)
		case 5:
			t = Pick(r, []string{"\U0001d49c", "\ue000", "\U000f0001", "\ufffd", "\u4e00", "\u3042"})
		case 6:
			t = Pick(r, []string{"ab", "A B", "\u0635\u0644\u0649", "1/2"})
		default:
			if orig == " " {
				t = "\u00a0"
			} else {
				t = strings.ToUpper(orig)
				if t == orig {
					t = strings.ToLower(orig)
				}
			}
		}
		if t != orig {
			return t
		}
	}
	return orig + "~"
}

// fntBiasPatched makes fntGenString prefer the patched characters (set per page by the generator).
var fntBiasPatched bool

func fntGenString(r *Rand, alpha []string, n int) string {
	var sb strings.Builder
	for i := 0; i < n; i++ {
		if fntBiasPatched && r.Bool() {
			// width-variant kinds: mostly the characters whose advances were patched
			c := string(fntPatchRunes[r.Intn(len(fntPatchRunes))])
			for _, a := range alpha {
				if a == c {
					sb.WriteString(c)
					break
				}
			}
			continue
		}
		switch r.Intn(12) {
		case 0:
			sb.WriteString(" ")
		default:
			sb.WriteString(Pick(r, alpha))
		}
	}
	return sb.String()
}

func runFntE2E(c *Ctx) {
	fntInitKinds()
	r := c.R.Fork()
	n := 340
	if c.Thorough {
		n = 4000
	}
	// every kind at least once per run, then random combinations
	order := make([]int, 0, n)
	for i := range fntKinds {
		order = append(order, i)
	}
	// fixed-pitch fonts make every width equal to the default width: the width arrays shrink
	// to one entry and everything rests on MissingWidth / DW.  Always part of the quick tier.
	var mono []int
	for _, l := range []string{"Std-Courier", "Go8-simple", "Go8-composite"} {
		for i := range fntKinds {
			if fntKinds[i].label == l {
				mono = append(mono, i)
			}
		}
	}
	for len(order) < n {
		order = append(order, r.Intn(len(fntKinds)))
	}
	var optKinds, defKinds, wKinds []int
	for i := range fntKinds {
		switch {
		case strings.HasPrefix(fntKinds[i].label, "X/"):
			optKinds = append(optKinds, i)
		case strings.HasPrefix(fntKinds[i].label, "W/"):
			wKinds = append(wKinds, i)
		default:
			defKinds = append(defKinds, i)
		}
	}
	if !c.Thorough {
		// quick tier: the 18 kinds + utf8 variants, the fixed-pitch fonts and one kind per group of
		// non-default options always; a rotating sample of everything else, half of it from the
		// option kinds
		head := append(append([]int(nil), order[:22]...), mono...)
		for _, l := range []string{"X/cff/rosJapan1/identity", "X/cff/rosJapan1/UniJIS-UTF16-H", "X/cffcid/rosJapan1/Adobe-Japan1-7",
			"X/tt/rosGB1/identity", "X/otcff/rosKorea1/utf8", "X/cffcid2/gid/identity", "X/otglyf/rosCNS1/UniCNS-UTF16-H", "X/tt/rosKR/utf8",
			"W/tt-simple/mix", "W/cff-simple/mix", "W/otglyf-simple/zero", "W/type1-afm/mix", "W/type1-noafm/zero", "W/type3/mix",
			"W/tt-composite/mix", "W/cff-composite/zero", "W/cffcid2-composite-utf8/mix", "W/tt-composite-rosJapan1/mix",
			"W/cff-composite-rosGB1/zero", "W/otcff-composite-rosKorea1-utf8/mix", "W/tt-simple/mono", "W/cff-composite/mono", "W/type3/zero",
			"W/type3-fm0.1/frac", "W/type3-fm1/frac", "W/type3-fm2048/frac", "W/type3-dingbats/names"} {
			if k := fntKindByLabel(l); k != nil {
				for i := range fntKinds {
					if &fntKinds[i] == k {
						head = append(head, i)
					}
				}
			}
		}
		var pick []int
		for len(pick)+len(head) < n {
			switch len(pick) % 3 {
			case 0:
				pick = append(pick, Pick(r, optKinds))
			case 1:
				pick = append(pick, Pick(r, defKinds))
			default:
				pick = append(pick, Pick(r, wKinds))
			}
		}
		order = append(head, pick...)
	}
	for _, first := range order {
		rr := r.Fork()
		tc := &fntE2ECase{}
		nf := 1
		if rr.P(1, 3) {
			nf = 2 + rr.Intn(2)
		}
		idx := []int{first}
		for len(idx) < nf {
			idx = append(idx, rr.Intn(len(fntKinds)))
		}
		var alphas [][]string
		var probes []font.Layouter
		ok := true
		for _, i := range idx {
			F, err := func() (F font.Layouter, err error) {
				defer func() {
					if p := recover(); p != nil {
						err = fmt.Errorf("panic: %v", p)
					}
				}()
				return fntKinds[i].mk()
			}()
			if err != nil {
				c.Violate("fnt-e2e", "e2e-font-construct", fntKinds[i].label+": "+err.Error(), "")
				ok = false
				break
			}
			tc.Fonts = append(tc.Fonts, fntKinds[i].label)
			alphas = append(alphas, fntAlphabet(&fntKinds[i], F))
			probes = append(probes, F)
		}
		if !ok {
			continue
		}
		vs, _ := Pick(rr, fntVersions).ToString()
		tc.Version = vs
		tc.Late = rr.P(1, 4)
		ns := 2 + rr.Intn(7)
		many := rr.P(1, 12)                             // aim beyond 256 codes
		override := rr.P(3, 5)                          // pages on which some glyphs get a text of the caller's choice
		chosen := make([]map[glyph.ID]string, len(idx)) // fixed CMaps: one text per glyph and page
		for i := range chosen {
			chosen[i] = map[glyph.ID]string{}
		}
		nOv := 0
		// at most one of: a missing character / an incomplete code, for one font of the page
		missFont, missChar, nMiss := -1, "", 0
		strayFont, strayChar := -1, ""
		switch rr.Intn(4) {
		case 0:
			missFont = rr.Intn(len(idx))
			missChar = fntMissing[fntKinds[idx[missFont]].label]
		case 1:
			f := rr.Intn(len(idx))
			if zt := fntZeroTail[fntKinds[idx[f]].label]; len(zt) > 0 {
				z := Pick(rr, zt)
				strayFont, strayChar = f, z[0]
				tc.Stray = append(tc.Stray, fntStray{f, z[1]})
				if len(alphas[f]) > 0 {
					pre := fntShow{Font: f, Text: strayChar + fntGenString(rr, alphas[f], 3)}
					for _, g := range probes[f].Layout(nil, 9, pre.Text).Seq {
						chosen[f][g.GID] = g.Text // fixed CMap: these glyphs keep their default text on this page
					}
					tc.Shows = append(tc.Shows, pre)
				}
				c.Stat("e2e.pages-with-incomplete-code")
			}
		}
		for i := 0; i < ns; i++ {
			f := rr.Intn(len(idx))
			if len(alphas[f]) == 0 {
				continue
			}
			ln := 1 + rr.Intn(40)
			if many {
				ln = 80 + rr.Intn(60)
			}
			fntBiasPatched = strings.HasPrefix(fntKinds[idx[f]].label, "W/")
			sh := fntShow{Font: f, Text: fntGenString(rr, alphas[f], ln)}
			fntBiasPatched = false
			if f == missFont && missChar != "" {
				// one character the font lacks (glyph 0 keeps its text), always the same one
				sh.Text += missChar
				if rr.Bool() {
					sh.Text = missChar + sh.Text
				}
				nMiss++
			}
			if f == strayFont && strayChar != "" {
				sh.Text += strayChar // the complete code of the stray prefix
			}
			if override {
				seq := probes[f].Layout(nil, 9, sh.Text)
				fixed := fntKinds[idx[f]].identity
				for gi, g := range seq.Seq {
					if fixed {
						if t, ok := chosen[f][g.GID]; ok {
							if t != g.Text {
								if sh.Ov == nil {
									sh.Ov = map[int]string{}
								}
								sh.Ov[gi] = t
								nOv++
							}
							continue
						}
					}
					t := g.Text
					if rr.P(1, 5) {
						t = fntOverrideText(rr, g.Text, alphas[f])
					}
					if fixed {
						chosen[f][g.GID] = t
					}
					if t != g.Text {
						if sh.Ov == nil {
							sh.Ov = map[int]string{}
						}
						sh.Ov[gi] = t
						nOv++
					}
				}
			}
			tc.Shows = append(tc.Shows, sh)
		}
		// histories: early queries of the font instance, then (a) glyphs already used shown again
		// with NEW texts and no new glyph, (b) new glyphs — or, on "tail" pages, nothing after (a):
		// the page ENDS with the re-show, so that no new glyph makes the font instance rebuild
		// whatever it derived at the early query.  The first page of every simple kind is a tail page.
		reshow := func(base fntShow) fntShow {
			again := fntShow{Font: base.Font, Text: base.Text}
			if !fntKinds[idx[base.Font]].identity {
				seq := probes[base.Font].Layout(nil, 9, base.Text)
				again.Ov = map[int]string{}
				for gi, g := range seq.Seq {
					if t, ok := base.Ov[gi]; ok {
						again.Ov[gi] = t
					}
					if gi%2 == 0 {
						again.Ov[gi] = g.Text + "\u2060" // a text this glyph has not been shown with
					}
				}
			} else if base.Ov != nil {
				again.Ov = base.Ov
			}
			return again
		}
		firstLabel := fntKinds[idx[0]].label
		forceTail := !fntKinds[idx[0]].composite && !fntTailDone[firstLabel]
		if (forceTail || rr.P(1, 2)) && len(tc.Shows) >= 1 {
			if forceTail || rr.P(2, 5) {
				// the base: a show of the first font if there is one
				var cand []int
				for si, sh := range tc.Shows {
					if sh.Font == 0 {
						cand = append(cand, si)
					}
				}
				bi := rr.Intn(len(tc.Shows))
				if len(cand) > 0 {
					bi = Pick(rr, cand)
				}
				base := tc.Shows[bi]
				tc.Late = false // shows in the order given: the re-show is the last thing on the page
				for _, k := range []string{"info", "names", "embed"} {
					if rr.P(2, 3) || (k == "info" && forceTail) {
						tc.Early = append(tc.Early, fntEarly{After: len(tc.Shows) - 1, Font: base.Font, Kind: k})
						c.Stat("e2e.early." + k)
					}
				}
				if len(tc.Early) == 0 {
					tc.Early = append(tc.Early, fntEarly{After: len(tc.Shows) - 1, Font: base.Font, Kind: "names"})
				}
				tc.Shows = append(tc.Shows, reshow(base))
				if base.Font == 0 {
					fntTailDone[firstLabel] = true
				}
				c.Stat("e2e.pages-ending-with-reshow")
			} else {
				ne := 1 + rr.Intn(3)
				last := 0
				for e := 0; e < ne; e++ {
					ev := fntEarly{After: rr.Intn(len(tc.Shows)), Font: rr.Intn(len(idx)), Kind: Pick(rr, fntEarlyKinds)}
					if ev.After > last {
						last = ev.After
					}
					tc.Early = append(tc.Early, ev)
					c.Stat("e2e.early." + ev.Kind)
				}
				base := tc.Shows[rr.Intn(last+1)]
				tc.Shows = append(tc.Shows, reshow(base))
				if len(alphas[base.Font]) > 0 {
					tc.Shows = append(tc.Shows, fntShow{Font: base.Font, Text: fntGenString(rr, alphas[base.Font], 5+rr.Intn(20))})
				}
			}
		}
		if nMiss > 0 {
			c.Stat("e2e.pages-with-missing-character")
		}
		if nOv > 0 {
			c.StatN("e2e.text-overrides", nOv)
			c.Stat("e2e.pages-with-overrides")
		}
		res := fntRunE2E(tc)
		raw, _ := json.Marshal(tc)
		for _, v := range res.viols {
			c.Violate(v.oracle, v.key, v.desc, string(raw))
			c.Stat("e2e.class." + v.key + "." + fntKindClass(strings.TrimSuffix(strings.Fields(v.desc)[0], ":")))
		}
		c.Case(string(raw), res.glyphs >= 3 && res.skipped == "")
		c.Stat("e2e.kind." + fntKindClass(tc.Fonts[0]))
		c.Stat("e2e.version." + tc.Version)
		c.Stat(fmt.Sprintf("e2e.fonts=%d", len(tc.Fonts)))
		if res.skipped != "" {
			c.Stat("e2e.skipped." + res.skipped)
		} else {
			c.StatN("e2e.glyphs", res.glyphs)
		}
		if res.shared > 0 {
			c.Stat("e2e.shared-code-pages")
		}
		c.StatN("e2e.glyphs-advance-zero", res.wZero)
		c.StatN("e2e.glyphs-advance-tiny", res.wTiny)
		c.StatN("e2e.glyphs-advance-huge", res.wHuge)
		c.StatN("e2e.early-queries", res.early)
		c.StatN("e2e.stat.fontinfo-equals-file", res.infoSame)
		c.StatN("e2e.stat.fontinfo-differs-from-file", res.infoDiffers)
		if res.refused > 0 {
			c.StatN("e2e.glyphs-without-code-in-cmap", res.refused)
		}
		if len(c.rep.Samples) < 10 && res.skipped == "" && len(tc.Shows) > 0 {
			c.Sample(fmt.Sprintf("e2e %v PDF %s %q… -> %d glyphs read back", tc.Fonts, tc.Version, truncate(tc.Shows[0].Text), res.glyphs))
		}
	}
}

func fntKindClass(label string) string {
	switch {
	case strings.HasPrefix(label, "Go"):
		if strings.HasSuffix(label, "simple") {
			return "gofont-simple"
		}
		return "gofont-composite"
	case strings.HasPrefix(label, "Std-"):
		return "standard14"
	}
	return label
}

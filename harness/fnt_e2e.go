package main

// C14 (FNT) — end-to-end oracle: text laid out and shown with every font kind
// that can be built offline from the repository's own test fonts is written to
// a PDF file, the file is reopened, the page is interpreted by reader.Reader
// with the fonts rebuilt by graphics/extract, and every PDF string must decode
// into as many codes as glyphs were shown, each with the glyph's width (to the
// precision of the width arrays: the embedders round to 1/1000 em) and the
// glyph's text; the writer-side and the reader-side font instance must decode
// the same strings identically.  Validated, not proved: the font programs go
// through sfnt, type1, CFF and glyph-list code that no model covers.

import (
	"bytes"
	"encoding/json"
	"fmt"
	"math"
	"strings"

	"seehuhn.de/go/pdf"
	"seehuhn.de/go/pdf/document"
	"seehuhn.de/go/pdf/font"
	"seehuhn.de/go/pdf/font/cff"
	"seehuhn.de/go/pdf/font/charcode"
	"seehuhn.de/go/pdf/font/dict"
	"seehuhn.de/go/pdf/font/encoding/cidenc"
	"seehuhn.de/go/pdf/font/gofont"
	"seehuhn.de/go/pdf/font/opentype"
	"seehuhn.de/go/pdf/font/standard"
	"seehuhn.de/go/pdf/font/truetype"
	"seehuhn.de/go/pdf/font/verifhook"
	"seehuhn.de/go/pdf/page"
	"seehuhn.de/go/pdf/pagetree"
	"seehuhn.de/go/pdf/reader"
	"seehuhn.de/go/sfnt/glyph"
)

func init() {
	addRun("C14", "end-to-end: 1-3 fonts per page out of the 18 kinds of internal/fonttypes, 4 composite kinds with the UTF-8 encoder, the 12 Go fonts as simple and composite and the 14 standard fonts; PDF versions 1.2-2.0; 2-8 strings per page over the part of Latin/Latin-1/Latin Extended-A/Greek/Cyrillic/punctuation/ligature sequences the font has glyphs for, lengths 1-40, some pages with more than 256 distinct glyphs per simple font, Layout and Show interleaved; a case is one page, non-trivial when at least 3 glyphs were shown; distinct by fonts+version+strings", runFntE2E)
	addReplay("C14", "fnt-e2e", fntReplayE2E)
}

type fntKind struct {
	label     string
	composite bool
	identity  bool // composite with a fixed (identity) CMap
	mk        func() (font.Layouter, error)
}

var fntKinds []fntKind

func fntInitKinds() {
	if fntKinds != nil {
		return
	}
	for _, s := range verifhook.All() {
		s := s
		fntKinds = append(fntKinds, fntKind{s.Label, s.Composite, s.Composite, func() (font.Layouter, error) { return s.MakeFont(), nil }})
	}
	fntKinds = append(fntKinds,
		fntKind{"CFFComposite-utf8", true, false, func() (font.Layouter, error) {
			return cff.NewComposite(verifhook.OpenType(), &cff.OptionsComposite{MakeEncoder: cidenc.NewCompositeUtf8})
		}},
		fntKind{"TrueTypeComposite-utf8", true, false, func() (font.Layouter, error) {
			return truetype.NewComposite(verifhook.TrueType(), &truetype.OptionsComposite{MakeEncoder: cidenc.NewCompositeUtf8})
		}},
		fntKind{"OpenTypeCFFComposite-utf8", true, false, func() (font.Layouter, error) {
			return opentype.NewComposite(verifhook.OpenType(), &opentype.OptionsComposite{MakeEncoder: cidenc.NewCompositeUtf8})
		}},
		fntKind{"OpenTypeGlyfComposite-utf8", true, false, func() (font.Layouter, error) {
			return opentype.NewComposite(verifhook.TrueType(), &opentype.OptionsComposite{MakeEncoder: cidenc.NewCompositeUtf8})
		}},
	)
	for i := gofont.Regular; i <= gofont.MonoItalic; i++ {
		i := i
		fntKinds = append(fntKinds,
			fntKind{fmt.Sprintf("Go%d-simple", int(i)), false, false, func() (font.Layouter, error) { return i.NewSimple(nil) }},
			fntKind{fmt.Sprintf("Go%d-composite", int(i)), true, true, func() (font.Layouter, error) { return i.NewComposite(nil) }})
	}
	for _, f := range standard.All {
		f := f
		fntKinds = append(fntKinds, fntKind{"Std-" + fmt.Sprint(f), false, false, func() (font.Layouter, error) { return f.New() }})
	}
}

func fntKindByLabel(l string) *fntKind {
	fntInitKinds()
	for i := range fntKinds {
		if fntKinds[i].label == l {
			return &fntKinds[i]
		}
	}
	return nil
}

var fntVersions = []pdf.Version{pdf.V1_2, pdf.V1_3, pdf.V1_4, pdf.V1_5, pdf.V1_6, pdf.V1_7, pdf.V2_0}

// candidate repertoire
var fntCandidates = func() []string {
	var out []string
	add := func(lo, hi rune) {
		for r := lo; r <= hi; r++ {
			out = append(out, string(r))
		}
	}
	add(0x20, 0x7e)
	add(0xa0, 0xff)
	add(0x100, 0x17f)
	add(0x384, 0x3ce)
	add(0x400, 0x45f)
	add(0x2010, 0x2027)
	out = append(out, fntLigatures...)
	for _, s := range []string{"‰", "‹", "›", "€", "™", "Ω", "−", "ﬁ", "ﬂ", "←", "→", "♠", "♥", "✁", "✈", "✓", "α", "∀", "∑"} {
		out = append(out, s)
	}
	return out
}()

var fntLigatures = []string{"fi", "fl", "ff", "ffi", "ffl", "office", "fjord", "AV", "To", "Ǻ"}

var fntAlphabetCache = map[string][]string{}

// fntAlphabet: the candidates for which the font has glyphs (no glyph 0).
func fntAlphabet(label string, F font.Layouter) []string {
	if a, ok := fntAlphabetCache[label]; ok {
		return a
	}
	var a []string
	for _, s := range fntCandidates {
		seq := F.Layout(nil, 10, s)
		ok := len(seq.Seq) > 0
		for _, g := range seq.Seq {
			if g.GID == 0 {
				ok = false
			}
		}
		if ok {
			a = append(a, s)
		}
	}
	fntAlphabetCache[label] = a
	return a
}

type fntShow struct {
	Font int    `json:"f"`
	Text string `json:"t"`
}

type fntE2ECase struct {
	Fonts   []string  `json:"fonts"`
	Version string    `json:"v"`
	Shows   []fntShow `json:"shows"`
	Late    bool      `json:"late,omitempty"` // lay out everything first, show afterwards in reverse order
}

type fntGlyphRec struct {
	font  int
	gid   glyph.ID
	text  string
	width float64 // text space units
}

type fntE2EResult struct {
	viols     []fntViol
	glyphs    int
	skipped   string // reason the case could not be evaluated (version, font)
	overflow  bool
	shared    int
	fontsUsed int
}

func fntVersionByName(s string) pdf.Version {
	for _, v := range fntVersions {
		if n, _ := v.ToString(); n == s {
			return v
		}
	}
	return pdf.V1_7
}

func fntRunE2E(tc *fntE2ECase) (res fntE2EResult) {
	viol := func(key, format string, a ...any) {
		res.viols = append(res.viols, fntViol{"fnt-e2e", key, fmt.Sprintf(format, a...)})
	}
	defer func() {
		if p := recover(); p != nil {
			viol("e2e-panic", "panic: %v", p)
		}
	}()
	fntInitKinds()
	var kinds []*fntKind
	var fonts []font.Layouter
	for _, l := range tc.Fonts {
		k := fntKindByLabel(l)
		if k == nil {
			res.skipped = "unknown font kind " + l
			return
		}
		F, err := k.mk()
		if err != nil {
			res.skipped = "font: " + err.Error()
			return
		}
		if F.WritingMode() != font.Horizontal {
			res.skipped = "vertical"
			return
		}
		kinds = append(kinds, k)
		fonts = append(fonts, F)
	}
	res.fontsUsed = len(fonts)
	v := fntVersionByName(tc.Version)

	buf := &bytes.Buffer{}
	doc, err := document.WriteSinglePage(buf, document.A4, v, nil)
	if err != nil {
		res.skipped = "writer: " + err.Error()
		return
	}
	type shown struct {
		font   int
		glyphs []font.Glyph
	}
	var shows []shown
	doc.TextBegin()
	doc.TextFirstLine(36, 800)
	cur := -1
	setFont := func(i int) {
		if cur != i {
			doc.TextSetFont(fonts[i], 9)
			cur = i
		}
	}
	if tc.Late {
		var seqs []*font.GlyphSeq
		for _, sh := range tc.Shows {
			setFont(sh.Font)
			seqs = append(seqs, doc.TextLayout(nil, sh.Text))
		}
		for i := len(tc.Shows) - 1; i >= 0; i-- {
			setFont(tc.Shows[i].Font)
			shows = append(shows, shown{tc.Shows[i].Font, append([]font.Glyph(nil), seqs[i].Seq...)})
			doc.TextShowGlyphs(seqs[i])
			doc.TextSecondLine(0, -11)
		}
	} else {
		for _, sh := range tc.Shows {
			setFont(sh.Font)
			seq := doc.TextLayout(nil, sh.Text)
			shows = append(shows, shown{sh.Font, append([]font.Glyph(nil), seq.Seq...)})
			doc.TextShowGlyphs(seq)
			doc.TextSecondLine(0, -11)
		}
	}
	doc.TextEnd()
	if doc.Err != nil {
		viol("e2e-builder-error", "content builder: %v", doc.Err)
		return
	}

	// what was shown (glyphs the font could not encode are skipped by the builder)
	var expected []fntGlyphRec
	var strs []pdf.String // per show: the codes of the shown glyphs
	var strFont []int
	for _, sh := range shows {
		F := fonts[sh.font]
		codec := F.Codec()
		geom := F.GetGeometry()
		var s pdf.String
		for _, g := range sh.glyphs {
			code, ok := F.Encode(g.GID, g.Text)
			if !ok {
				if kinds[sh.font].composite || F.CodesRemaining() > 0 {
					viol("e2e-encode-refused", "%s: Encode(%d,%q) refused with %d codes remaining", kinds[sh.font].label, g.GID, g.Text, F.CodesRemaining())
				}
				res.overflow = true
				continue
			}
			s = codec.AppendCode(s, code)
			w := 0.0
			if int(g.GID) < len(geom.Widths) {
				w = geom.Widths[g.GID]
			}
			expected = append(expected, fntGlyphRec{sh.font, g.GID, g.Text, w})
		}
		strs = append(strs, s)
		strFont = append(strFont, sh.font)
	}
	res.glyphs = len(expected)

	err = doc.Close()
	if err != nil {
		msg := err.Error()
		switch {
		case res.overflow && strings.Contains(msg, "too many glyphs"):
			// the 256-code limit of a simple font: the file is refused, nothing wrong is written
			res.skipped = "overflow"
		case strings.Contains(msg, "requires PDF version") || strings.Contains(msg, "version"):
			res.skipped = "version"
		default:
			viol("e2e-close-error", "Close: %v", err)
		}
		return
	}
	if res.overflow {
		viol("e2e-overflow-silent", "glyphs were dropped for lack of codes but Close reported no error")
	}

	// ---- read back
	r, err := pdf.NewReader(bytes.NewReader(buf.Bytes()), int64(buf.Len()), nil)
	if err != nil {
		viol("e2e-reopen", "NewReader: %v", err)
		return
	}
	_, pageDict, err := pagetree.GetPage(r, 0)
	if err != nil {
		viol("e2e-reopen", "GetPage: %v", err)
		return
	}
	x := pdf.NewExtractor(r)
	pg, err := pdf.Decode(pdf.CursorAt(x, nil), pageDict, page.Decode)
	if err != nil {
		viol("e2e-reopen", "page.Decode: %v", err)
		return
	}
	type got struct {
		inst font.Instance
		code font.Code
	}
	var chars []got
	contents := reader.New(x)
	contents.Character = func(c font.Code) error {
		chars = append(chars, got{contents.State.GState.TextFont, c})
		return nil
	}
	if err := contents.ProcessPage(pg); err != nil {
		viol("e2e-reopen", "ProcessPage: %v", err)
		return
	}

	if len(chars) != len(expected) {
		viol("e2e-count", "%d glyphs shown, %d codes read back (fonts %v, PDF %s)", len(expected), len(chars), tc.Fonts, tc.Version)
		return
	}
	readerFont := map[int]font.Instance{}
	firstText := map[[2]int]string{} // (font, gid) -> first text it was shown with
	for i, e := range expected {
		c := chars[i].code
		readerFont[e.font] = chars[i].inst
		k := kinds[e.font]
		if math.Abs(c.Width-e.width) > 0.0005+1e-9 {
			viol("e2e-width", "%s PDF %s: glyph %d (%q) has width %.5f, read back %.5f", k.label, tc.Version, e.gid, e.text, e.width, c.Width)
		}
		key := [2]int{e.font, int(e.gid)}
		ft, seen := firstText[key]
		if !seen {
			firstText[key] = e.text
			ft = e.text
		}
		if c.Text != e.text {
			if c.Text == "" && fntSymbolicTrueType(chars[i].inst) {
				viol("truetype-symbolic-text-lost", "%s PDF %s: glyph %d shown with text %q reads back without text: the font dictionary is a symbolic TrueType font (built-in encoding, no glyph names) and ToUnicode leaves out the texts 'implied by the glyph name'", k.label, tc.Version, e.gid, e.text)
			} else if k.identity && ft != e.text && c.Text == ft {
				res.shared++
				viol("fixed-code-shared-text", "%s PDF %s: glyph %d shown as %q and as %q has one code; %q reads back as %q", k.label, tc.Version, e.gid, ft, e.text, e.text, c.Text)
			} else {
				viol("e2e-text", "%s PDF %s: glyph %d shown with text %q reads back as %q (CID %d)", k.label, tc.Version, e.gid, e.text, c.Text, c.CID)
			}
		}
	}

	// ---- writer-side and reader-side decoding of the same strings agree
	for i, s := range strs {
		W := fonts[strFont[i]]
		R := readerFont[strFont[i]]
		if R == nil || len(s) == 0 {
			continue
		}
		var wc, rc []font.Code
		for c := range W.Codes(s) {
			wc = append(wc, c)
		}
		for c := range R.Codes(s) {
			rc = append(rc, c)
		}
		if len(wc) != len(rc) {
			viol("e2e-writer-reader", "%s: string <%x> has %d codes for the writer, %d for the reader", kinds[strFont[i]].label, []byte(s), len(wc), len(rc))
			continue
		}
		for j := range wc {
			a, b := wc[j], rc[j]
			if b.Text == "" && a.Text != "" && fntSymbolicTrueType(R) && math.Abs(a.Width-b.Width) <= 1e-9 && a.UseWordSpacing == b.UseWordSpacing {
				viol("truetype-symbolic-text-lost", "%s: string <%x> code %d: writer text %q, reader (symbolic TrueType dictionary) no text", kinds[strFont[i]].label, []byte(s), j, a.Text)
				break
			}
			if math.Abs(a.Width-b.Width) > 1e-9 || a.Text != b.Text || a.UseWordSpacing != b.UseWordSpacing {
				viol("e2e-writer-reader", "%s: string <%x> code %d: writer (w=%.5f,%q,ws=%v) reader (w=%.5f,%q,ws=%v)", kinds[strFont[i]].label, []byte(s), j, a.Width, a.Text, a.UseWordSpacing, b.Width, b.Text, b.UseWordSpacing)
				break
			}
		}
	}
	_ = charcode.Code(0)
	return res
}

// fntSymbolicTrueType: the reader-side instance was made from a TrueType font
// dictionary whose descriptor has the Symbolic flag.
func fntSymbolicTrueType(inst font.Instance) bool {
	g, ok := inst.(interface{ GetDict() dict.Dict })
	if !ok {
		return false
	}
	tt, ok := g.GetDict().(*dict.TrueType)
	return ok && tt.Descriptor != nil && tt.Descriptor.IsSymbolic
}

func fntReplayE2E(input string) (bool, string) {
	var tc fntE2ECase
	if err := json.Unmarshal([]byte(input), &tc); err != nil {
		return false, "bad replay input: " + err.Error()
	}
	res := fntRunE2E(&tc)
	if len(res.viols) > 0 {
		return false, res.viols[0].key + ": " + res.viols[0].desc
	}
	if res.skipped != "" {
		return true, "case not evaluated: " + res.skipped
	}
	return true, fmt.Sprintf("%d glyphs shown and read back with equal widths and texts", res.glyphs)
}

func fntGenString(r *Rand, alpha []string, n int) string {
	var sb strings.Builder
	for i := 0; i < n; i++ {
		switch r.Intn(12) {
		case 0:
			sb.WriteString(" ")
		default:
			sb.WriteString(Pick(r, alpha))
		}
	}
	return sb.String()
}

func runFntE2E(c *Ctx) {
	fntInitKinds()
	r := c.R.Fork()
	n := 260
	if c.Thorough {
		n = 4000
	}
	// every kind at least once per run, then random combinations
	order := make([]int, 0, n)
	for i := range fntKinds {
		order = append(order, i)
	}
	// fixed-pitch fonts make every width equal to the default width: the width arrays shrink
	// to one entry and everything rests on MissingWidth / DW.  Always part of the quick tier.
	var mono []int
	for _, l := range []string{"Std-Courier", "Go8-simple", "Go8-composite"} {
		for i := range fntKinds {
			if fntKinds[i].label == l {
				mono = append(mono, i)
			}
		}
	}
	for len(order) < n {
		order = append(order, r.Intn(len(fntKinds)))
	}
	if !c.Thorough && len(order) > n {
		// quick tier: the 18 kinds + utf8 variants always, a rotating sample of the rest
		head := append(append([]int(nil), order[:22]...), mono...)
		rest := order[22:]
		var pick []int
		for len(pick)+len(head) < n {
			pick = append(pick, rest[r.Intn(len(rest))])
		}
		order = append(head, pick...)
	}
	for _, first := range order {
		rr := r.Fork()
		tc := &fntE2ECase{}
		nf := 1
		if rr.P(1, 3) {
			nf = 2 + rr.Intn(2)
		}
		idx := []int{first}
		for len(idx) < nf {
			idx = append(idx, rr.Intn(len(fntKinds)))
		}
		var alphas [][]string
		ok := true
		for _, i := range idx {
			F, err := func() (F font.Layouter, err error) {
				defer func() {
					if p := recover(); p != nil {
						err = fmt.Errorf("panic: %v", p)
					}
				}()
				return fntKinds[i].mk()
			}()
			if err != nil {
				c.Violate("fnt-e2e", "e2e-font-construct", fntKinds[i].label+": "+err.Error(), "")
				ok = false
				break
			}
			tc.Fonts = append(tc.Fonts, fntKinds[i].label)
			alphas = append(alphas, fntAlphabet(fntKinds[i].label, F))
		}
		if !ok {
			continue
		}
		vs, _ := Pick(rr, fntVersions).ToString()
		tc.Version = vs
		tc.Late = rr.P(1, 4)
		ns := 2 + rr.Intn(7)
		many := rr.P(1, 12) // aim beyond 256 codes
		for i := 0; i < ns; i++ {
			f := rr.Intn(len(idx))
			if len(alphas[f]) == 0 {
				continue
			}
			ln := 1 + rr.Intn(40)
			if many {
				ln = 80 + rr.Intn(60)
			}
			tc.Shows = append(tc.Shows, fntShow{f, fntGenString(rr, alphas[f], ln)})
		}
		res := fntRunE2E(tc)
		raw, _ := json.Marshal(tc)
		for _, v := range res.viols {
			c.Violate(v.oracle, v.key, v.desc, string(raw))
		}
		c.Case(string(raw), res.glyphs >= 3 && res.skipped == "")
		c.Stat("e2e.kind." + fntKindClass(tc.Fonts[0]))
		c.Stat("e2e.version." + tc.Version)
		c.Stat(fmt.Sprintf("e2e.fonts=%d", len(tc.Fonts)))
		if res.skipped != "" {
			c.Stat("e2e.skipped." + res.skipped)
		} else {
			c.StatN("e2e.glyphs", res.glyphs)
		}
		if res.shared > 0 {
			c.Stat("e2e.shared-code-pages")
		}
		if len(c.rep.Samples) < 10 && res.skipped == "" && len(tc.Shows) > 0 {
			c.Sample(fmt.Sprintf("e2e %v PDF %s %q… -> %d glyphs read back", tc.Fonts, tc.Version, truncate(tc.Shows[0].Text), res.glyphs))
		}
	}
}

func fntKindClass(label string) string {
	switch {
	case strings.HasPrefix(label, "Go"):
		if strings.HasSuffix(label, "simple") {
			return "gofont-simple"
		}
		return "gofont-composite"
	case strings.HasPrefix(label, "Std-"):
		return "standard14"
	}
	return label
}

package main

import (
	"bytes"
	"errors"
	"fmt"
	"strings"

	"seehuhn.de/go/geom/matrix"
	"seehuhn.de/go/pdf"
	"seehuhn.de/go/pdf/graphics"
	"seehuhn.de/go/pdf/graphics/color"
	"seehuhn.de/go/pdf/graphics/content"
	"seehuhn.de/go/pdf/graphics/content/builder"
)

// C15 — State.ApplyOperator / ClosingOperators and the Builder.

var cntTypes = []content.Type{content.Page, content.Form, content.TransparencyGroup, content.PatternColored, content.PatternUncolored, content.Glyph}

var cntVersions = []pdf.Version{0, pdf.V1_7, pdf.V2_0, pdf.V1_3}

// cntStrict is the version class of the model: "0" Version == 0 (readers: cross-nested
// pairs tolerated), "1" 0 < Version < 2.0, "2" Version >= 2.0 (the Builder: strict nesting).
func cntStrict(v pdf.Version) string {
	switch {
	case v == 0:
		return "0"
	case v < pdf.V2_0:
		return "1"
	}
	return "2"
}

func cntErrKind(err error) string {
	switch {
	case errors.Is(err, content.ErrInvalidContext):
		return "context"
	case strings.Contains(err.Error(), "required state not set"):
		return "required"
	case strings.Contains(err.Error(), "no matching opening operator"):
		return "nomatch"
	case strings.Contains(err.Error(), "exceeds PDF 1.x limit"):
		return "depth"
	}
	return "other:" + err.Error()
}

func cntNames(ns []content.OpName) string {
	if len(ns) == 0 {
		return "-"
	}
	var parts []string
	for _, n := range ns {
		parts = append(parts, hx([]byte(n)))
	}
	return strings.Join(parts, ",")
}

func cntShowState(st *content.State) string {
	return fmt.Sprintf("obj=%d nest=%s depth=%d closing=%s", int(st.CurrentObject), st.VerifNesting(), st.VerifStackDepth(), cntNames(st.ClosingOperators()))
}

func cntApply(st *content.State, name content.OpName, args []pdf.Object) (err error) {
	defer func() {
		if r := recover(); r != nil {
			err = fmt.Errorf("panic: %v", r)
		}
	}()
	return st.ApplyOperator(name, args)
}

// cntApplyAll applies the operators to a fresh state.  It returns the
// correspondence line and the verdict of the closing oracle.
func cntApplyAll(ct content.Type, v pdf.Version, ops []content.Operator) (line string, accepted bool, oracleOK bool, detail string) {
	st := content.NewState(ct, nil)
	st.Version = v
	for i, op := range ops {
		if err := cntApply(st, op.Name, op.Args); err != nil {
			if strings.HasPrefix(err.Error(), "panic") {
				return "panic", false, false, fmt.Sprintf("operator %d (%s): %v", i, op.Name, err)
			}
			return fmt.Sprintf("rej %d %s", i, cntShowState(st)), false, true, ""
		}
	}
	line = "ok " + cntShowState(st)
	startObj := st.CurrentObject
	closers := st.ClosingOperators()
	closersCopy := append([]content.OpName(nil), closers...)
	defer func() {
		// a slice handed out by the library does not change when the library is used further
		for i := range closersCopy {
			if closers[i] != closersCopy[i] {
				oracleOK, detail = false, fmt.Sprintf("the slice returned by ClosingOperators changed while the operators were applied: %v, was %v", closers, closersCopy)
			}
		}
	}()
	for i, n := range closers {
		if err := cntApply(st, n, nil); err != nil {
			return line + fmt.Sprintf(" closing-rej %d", i), true, false,
				fmt.Sprintf("closing operator %d (%s) of %v rejected: %v", i, n, closers, err)
		}
	}
	can := st.CanClose() == nil
	line += fmt.Sprintf(" closed nest=%d can=%v", len(st.VerifNesting()), can)
	// the harness's own reading of "balanced": in the closed sequence every closing operator
	// has an earlier unmatched opening operator of its kind, and none stays open
	if d := cntBalance(ops, closers); d != "" {
		return line, true, false, d
	}
	if rest := st.ClosingOperators(); len(rest) != 0 {
		return line, true, false, fmt.Sprintf("after the closing operators %v the state still wants %v", closers, rest)
	}
	if !can && startObj != content.ObjType3Start {
		return line, true, false, fmt.Sprintf("after the closing operators %v CanClose fails: %v", closers, st.CanClose())
	}
	return line, true, true, ""
}

// cntBalance counts the paired operators of ops followed by closers
// (ISO 32000-1 8.4.2, 9.4.1, 14.6, 7.8.2): q/Q, BT/ET, BMC|BDC/EMC, BX/EX.
func cntBalance(ops []content.Operator, closers []content.OpName) string {
	open := map[string]int{}
	pair := map[string]string{"Q": "q", "ET": "BT", "EMC": "BMC", "EX": "BX"}
	step := func(i int, n string) string {
		switch n {
		case "q", "BT", "BMC", "BX":
			open[n]++
		case "BDC":
			open["BMC"]++
		case "Q", "ET", "EMC", "EX":
			if open[pair[n]] == 0 {
				return fmt.Sprintf("operator %d (%s) closes nothing", i, n)
			}
			open[pair[n]]--
		}
		return ""
	}
	for i, op := range ops {
		if d := step(i, string(op.Name)); d != "" {
			return d
		}
	}
	for i, n := range closers {
		if d := step(len(ops)+i, string(n)); d != "" {
			return d
		}
	}
	for k, v := range open {
		if v != 0 {
			return fmt.Sprintf("%d unclosed %s after the closing operators %v", v, k, closers)
		}
	}
	return ""
}

func replayCNTClosing(input string) (bool, string) {
	cntWireSetup()
	parts := strings.SplitN(input, " ", 3)
	if len(parts) != 3 {
		return true, "bad replay input"
	}
	var ct, v int
	fmt.Sscan(parts[0], &ct)
	fmt.Sscan(parts[1], &v)
	ops, err := cntOpsUnwire(parts[2])
	if err != nil {
		return true, "bad replay input: " + err.Error()
	}
	line, _, ok, d := cntApplyAll(content.Type(ct), pdf.Version(v), ops)
	return ok, line + " " + d
}

var cntCtxOps = map[content.Object][]string{
	content.ObjPage:         {"q", "q", "Q", "cm", "w", "J", "j", "M", "d", "d", "m", "m", "re", "BT", "BT", "BMC", "BDC", "EMC", "BX", "EX", "g", "G", "rg", "RG", "Do", "sh", "gs", "Tc", "TL", "Tf", "ri", "i", "MP"},
	content.ObjPath:         {"l", "l", "c", "v", "y", "h", "re", "m", "W", "W*", "S", "s", "f", "f*", "B", "b", "n", "B*", "b*", "F"},
	content.ObjClippingPath: {"n", "n", "S", "f", "s", "b*"},
	content.ObjText:         {"Tj", "TJ", "Td", "TD", "Tm", "T*", "'", "\"", "Tf", "Tc", "Tw", "TL", "ET", "ET", "q", "Q", "BMC", "EMC", "g", "BX", "EX", "w", "d"},
	content.ObjType3Start:   {"d0", "d1", "Tc", "BX", "EX", "Tz"},
}

func cntGenProgram(r *Rand, ct content.Type, v pdf.Version, n int) []content.Operator {
	// the real state is used only to steer the generator towards accepted programs
	st := content.NewState(ct, nil)
	st.Version = v
	var ops []content.Operator
	for i := 0; i < n; i++ {
		var name string
		switch {
		case r.P(1, 10):
			name = Pick(r, cntTableOps)
		case r.P(1, 25):
			name = string(cntGenName(r))
		default:
			name = Pick(r, cntCtxOps[st.CurrentObject])
		}
		var args []pdf.Object
		switch {
		case r.P(1, 15):
			for j := r.Intn(4); j > 0; j-- {
				args = append(args, cntGenOperand(r, 1))
			}
		case name == "d" && r.P(1, 2):
			args = []pdf.Object{pdf.Array{}, pdf.Integer(0)}
		default:
			args = cntTypedArgs(r, name)
		}
		op := content.Operator{Name: content.OpName(name), Args: args}
		ops = append(ops, op)
		if cntHasRefOrOp(pdf.Array(args)) {
			ops = ops[:len(ops)-1]
			continue
		}
		if err := cntApply(st, op.Name, op.Args); err != nil {
			if r.P(2, 3) {
				ops = ops[:len(ops)-1] // mostly keep the program valid
				// the rejected call may have changed Usable: rebuild the steering state
				st = content.NewState(ct, nil)
				st.Version = v
				for _, o := range ops {
					cntApply(st, o.Name, o.Args)
				}
				continue
			}
			break
		}
	}
	return ops
}

func runCNTState(c *Ctx) {
	cntWireSetup()
	r := c.R
	nProg := 8000
	nBuild := 4000
	if c.Thorough {
		nProg = 150000
		nBuild = 60000
	}
	op := func(name string, args ...pdf.Object) content.Operator {
		return content.Operator{Name: content.OpName(name), Args: args}
	}
	rep := func(o content.Operator, n int) []content.Operator {
		var out []content.Operator
		for i := 0; i < n; i++ {
			out = append(out, o)
		}
		return out
	}
	check := func(ct content.Type, v pdf.Version, ops []content.Operator) {
		for i := range ops {
			args := make([]pdf.Object, len(ops[i].Args))
			for j, a := range ops[i].Args {
				args[j] = cntAsNative(a)
			}
			ops[i].Args = args
		}
		w := cntOpsWire(ops, false)
		line, accepted, ok, d := cntApplyAll(ct, v, ops)
		c.Case(fmt.Sprintf("st:%d:%d:%s", ct, v, w), len(ops) >= 3)
		c.Emit(fmt.Sprintf("CNT apply %d %s %s", int(ct), cntStrict(v), w), line)
		if accepted {
			c.Stat("programs_accepted")
		} else {
			c.Stat("programs_rejected")
		}
		if !ok {
			c.Violate("closing", "closing", d, fmt.Sprintf("%d %d %s", int(ct), int(v), cntReplayInput(ops)))
		}
	}
	// corpus
	corpus := []struct {
		ct  content.Type
		v   pdf.Version
		ops []content.Operator
	}{
		{content.Page, pdf.V1_7, nil},
		{content.Page, pdf.V1_7, []content.Operator{op("q"), op("BT"), op("BMC", pdf.Name("A")), op("BX")}},
		{content.Page, pdf.V2_0, []content.Operator{op("BT"), op("q"), op("BMC", pdf.Name("A")), op("ET")}},
		{content.Page, pdf.V2_0, []content.Operator{op("BT"), op("q"), op("Q"), op("Q")}},
		{content.Page, pdf.V1_7, []content.Operator{op("BT"), op("q")}},
		{content.Page, 0, []content.Operator{op("q"), op("BMC", pdf.Name("A")), op("Q"), op("EMC"), op("EMC")}},
		{content.Page, pdf.V1_7, []content.Operator{op("q"), op("m", pdf.Integer(0), pdf.Integer(0)), op("l", pdf.Integer(1), pdf.Integer(1)), op("W")}},
		{content.Page, pdf.V1_7, []content.Operator{op("m", pdf.Integer(0), pdf.Integer(0)), op("l", pdf.Integer(1), pdf.Integer(1)), op("h"), op("S")}},
		{content.Form, pdf.V1_7, []content.Operator{op("BT"), op("Tj", pdf.String("x")), op("ET"), op("BT"), op("Tj", pdf.String("x"))}},
		{content.Page, pdf.V1_7, []content.Operator{op("BT"), op("Tf", pdf.Name("F"), pdf.Integer(1)), op("Tj", pdf.String("x"))}},
		{content.Glyph, pdf.V1_7, []content.Operator{op("BX"), op("BX"), op("d0", pdf.Integer(1), pdf.Integer(0)), op("q")}},
		{content.Glyph, pdf.V1_7, []content.Operator{op("BX"), op("Tc", pdf.Integer(1))}},
		{content.Glyph, pdf.V1_7, []content.Operator{op("q")}},
		{content.Page, pdf.V1_7, rep(op("q"), 27)},
		{content.Page, pdf.V1_7, rep(op("q"), 28)},
		{content.Page, pdf.V1_7, rep(op("q"), 29)},
		{content.Page, pdf.V2_0, rep(op("q"), 40)},
		{content.Page, 0, rep(op("q"), 40)},
		{content.Page, pdf.V1_7, []content.Operator{op("d", pdf.Array{pdf.Integer(1)}, pdf.Integer(0)), op("q"), op("d", pdf.Array{}, pdf.Integer(0)), op("Q"), op("re", pdf.Integer(0), pdf.Integer(0), pdf.Integer(1), pdf.Integer(1)), op("S")}},
		{content.PatternUncolored, pdf.V1_7, []content.Operator{op("re", pdf.Integer(0), pdf.Integer(0), pdf.Integer(1), pdf.Integer(1)), op("W*"), op("n"), op("unknownop")}},
	}
	for _, cs := range corpus {
		check(cs.ct, cs.v, cs.ops)
	}
	for i := 0; i < nProg; i++ {
		ct := Pick(r, cntTypes)
		if r.P(1, 2) {
			ct = content.Page
		}
		v := Pick(r, cntVersions)
		ops := cntGenProgram(r, ct, v, 3+r.Intn(40))
		if i < 2 {
			c.Sample(fmt.Sprintf("program type=%d version=%d %s", ct, v, cntOpsWire(ops, false)))
		}
		check(ct, v, ops)
	}
	// deep q nesting around the PDF 1.x limit
	for _, n := range []int{26, 27, 28, 29, 30} {
		ops := rep(op("q"), n)
		ops = append(ops, op("BT"), op("BMC", pdf.Name("x")))
		check(content.Page, pdf.V1_7, ops)
	}

	// ---- Builder ----
	for i := 0; i < nBuild; i++ {
		ct := Pick(r, cntTypes)
		v := Pick(r, []pdf.Version{pdf.V1_7, pdf.V2_0, pdf.V1_4})
		runCNTBuilderCase(c, r.Fork(), ct, v, i < 2)
	}
}

// cntBuilderPick chooses the next Builder call, steered towards accepted
// programs: context-appropriate calls, close only what is open, respect the
// restrictions of uncoloured contexts and of q/Q inside text before PDF 2.0.
func cntBuilderPick(b *builder.Builder, r *Rand, v pdf.Version) string {
	var ctx []string
	switch b.State.CurrentObject {
	case content.ObjPage:
		ctx = []string{"Push", "Push", "Pop", "TextBegin", "MoveTo", "Rectangle", "Circle", "MCStart", "MCEnd", "MCPoint", "LineWidth", "LineCap", "LineJoin", "Dash", "Dash0", "Miter", "Transform", "FillGray", "StrokeRGB", "Image", "Leading", "Flatness"}
	case content.ObjPath:
		ctx = []string{"LineTo", "LineTo", "CurveTo", "ClosePath", "Rectangle", "MoveTo", "Stroke", "Fill", "FillEvenOdd", "FillAndStroke", "CloseAndStroke", "CloseFillAndStroke", "EndPath", "ClipNonZero", "ClipEvenOdd"}
	case content.ObjClippingPath:
		ctx = []string{"EndPath", "EndPath", "Fill", "Stroke"}
	case content.ObjText:
		ctx = []string{"TextEnd", "TextEnd", "FirstLine", "SecondLine", "TextMatrix", "NextLine", "ShowRaw", "ShowKerned", "ShowNextLine", "ShowSpaced", "Leading", "CharSpacing", "Push", "Pop", "MCStart", "MCEnd", "FillGray"}
	case content.ObjType3Start:
		ctx = []string{"D0", "D1", "CharSpacing"}
	}
	call := Pick(r, ctx)
	// steer towards accepted programs: close only what is open, respect the
	// restrictions of uncoloured contexts and of q/Q inside text before PDF 2.0
	for tries := 0; tries < 20; tries++ {
		nest := b.State.VerifNesting()
		bad := false
		switch call {
		case "Pop":
			// the Builder wants properly nested pairs: close only the innermost open one
			bad = !strings.HasSuffix(nest, "1") || (v < pdf.V2_0 && b.State.CurrentObject == content.ObjText)
		case "Push":
			bad = v < pdf.V2_0 && (b.State.CurrentObject == content.ObjText || b.State.VerifStackDepth() >= 28)
		case "MCEnd":
			bad = !strings.HasSuffix(nest, "3")
		case "TextEnd":
			bad = !strings.HasSuffix(nest, "2")
		case "FillGray", "StrokeRGB", "Image":
			bad = b.State.ColorOpsForbidden
		}
		if !bad {
			break
		}
		call = Pick(r, ctx)
	}
	if r.P(1, 40) {
		call = Pick(r, []string{"Push", "Pop", "TextBegin", "TextEnd", "MoveTo", "LineTo", "Stroke", "Fill", "EndPath", "MCEnd", "ShowRaw", "D0", "ClipNonZero", "Image"})
	}
	return call
}

// cntBuilderDo performs one Builder call.  Byte slices handed to the methods
// which document that they clone their argument are overwritten afterwards
// (the caller reuses its buffer); afterCall runs between the library call and
// that overwrite.
func cntBuilderDo(b *builder.Builder, r *Rand, call string, afterCall func()) {
	f := func() float64 { return float64(r.Intn(400)-200) / 4 }
	var scribble [][]byte
	buf := func(n int) pdf.String {
		x := genBytes(r, n)
		scribble = append(scribble, x)
		return pdf.String(x)
	}
	switch call {
	case "Push":
		b.PushGraphicsState()
	case "Pop":
		b.PopGraphicsState()
	case "TextBegin":
		b.TextBegin()
	case "TextEnd":
		b.TextEnd()
	case "MoveTo":
		b.MoveTo(f(), f())
	case "LineTo":
		b.LineTo(f(), f())
	case "CurveTo":
		b.CurveTo(f(), f(), f(), f(), f(), f())
	case "ClosePath":
		b.ClosePath()
	case "Rectangle":
		b.Rectangle(f(), f(), f(), f())
	case "Circle":
		b.Circle(f(), f(), 1+float64(r.Intn(20)))
	case "Stroke":
		b.Stroke()
	case "Fill":
		b.Fill()
	case "FillEvenOdd":
		b.FillEvenOdd()
	case "FillAndStroke":
		b.FillAndStroke()
	case "CloseAndStroke":
		b.CloseAndStroke()
	case "CloseFillAndStroke":
		b.CloseFillAndStroke()
	case "EndPath":
		b.EndPath()
	case "ClipNonZero":
		b.ClipNonZero()
	case "ClipEvenOdd":
		b.ClipEvenOdd()
	case "MCStart":
		b.MarkedContentStart(&graphics.MarkedContent{Tag: genName(r)})
	case "MCPoint":
		b.MarkedContentPoint(&graphics.MarkedContent{Tag: genName(r)})
	case "MCEnd":
		b.MarkedContentEnd()
	case "LineWidth":
		b.SetLineWidth(float64(r.Intn(40)) / 4)
	case "LineCap":
		b.SetLineCap(graphics.LineCapStyle(r.Intn(3)))
	case "LineJoin":
		b.SetLineJoin(graphics.LineJoinStyle(r.Intn(3)))
	case "Dash":
		b.SetLineDash([]float64{1 + float64(r.Intn(5)), 2}, float64(r.Intn(3)))
	case "Dash0":
		b.SetLineDash(nil, 0)
	case "Miter":
		b.SetMiterLimit(1 + float64(r.Intn(10)))
	case "Flatness":
		b.SetFlatnessTolerance(float64(r.Intn(100)))
	case "Transform":
		b.Transform(matrix.Matrix{1, 0, 0, 1, f(), f()})
	case "FillGray":
		b.SetFillColor(color.DeviceGray(float64(r.Intn(5)) / 4))
	case "StrokeRGB":
		b.SetStrokeColor(color.DeviceRGB{0.5, float64(r.Intn(3)) / 2, 1})
	case "Image":
		img := cntGenImage(r, false)
		dict := img.Args[0].(pdf.Dict)
		data := []byte(img.Args[1].(pdf.String))
		b.DrawInlineImageRaw(dict, data)
		// the caller reuses its buffer and its dictionary for the next image
		scribble = append(scribble, data)
		defer func() {
			dict["W"] = pdf.Integer(7)
			dict["Reused"] = pdf.Boolean(true)
		}()
	case "Leading":
		b.TextSetLeading(f())
	case "CharSpacing":
		b.TextSetCharacterSpacing(f())
	case "FirstLine":
		b.TextFirstLine(f(), f())
	case "SecondLine":
		b.TextSecondLine(f(), f())
	case "TextMatrix":
		b.TextSetMatrix(matrix.Matrix{1, 0, 0, 1, f(), f()})
	case "NextLine":
		b.TextNextLine()
	case "ShowRaw":
		b.TextShowRaw(buf(12))
	case "ShowKerned":
		b.TextShowKernedRaw(buf(6), pdf.Integer(-50), buf(6), pdf.Real(0.5))
	case "ShowNextLine":
		b.TextShowNextLineRaw(buf(12))
	case "ShowSpaced":
		b.TextShowSpacedRaw(f(), f(), buf(12))
	case "D0":
		b.Type3ColoredGlyph(f(), 0)
	case "D1":
		b.Type3UncoloredGlyph(f(), 0, 0, 0, 10, 10)
	}
	if afterCall != nil {
		afterCall()
	}
	for _, x := range scribble {
		for i := range x {
			x[i] ^= 0x55
		}
	}
}

func runCNTBuilderCase(c *Ctx, r *Rand, ct content.Type, v pdf.Version, sample bool) {
	var calls []string
	var b *builder.Builder
	var panicked any
	func() {
		defer func() { panicked = recover() }()
		b = builder.New(ct, nil, v)
		n := 2 + r.Intn(30)
		for i := 0; i < n && b.Err == nil; i++ {
			call := cntBuilderPick(b, r, v)
			calls = append(calls, call)
			cntBuilderDo(b, r, call, nil)
		}
	}()
	key := fmt.Sprintf("b:%d:%d:%s", ct, v, strings.Join(calls, ","))
	if panicked != nil {
		c.Case(key, true)
		c.Violate("builder", "builder-panic", fmt.Sprintf("Builder panicked: %v after %v", panicked, calls), key)
		return
	}
	if b.Err != nil {
		c.Case(key, false)
		c.Stat("builder_rejected")
		msg := b.Err.Error()
		if len(msg) > 40 {
			msg = msg[:40]
		}
		c.Stat("builder_err:" + msg)
		return
	}
	c.Stat("builder_accepted")
	ops := make([]content.Operator, len(b.Stream))
	for i, o := range b.Stream {
		args := make([]pdf.Object, len(o.Args))
		for j, a := range o.Args {
			args[j] = cntAsNative(a)
		}
		ops[i] = content.Operator{Name: o.Name, Args: args}
	}
	c.Case(key+cntOpsWire(ops, false), len(ops) >= 3)
	if sample {
		c.Sample(fmt.Sprintf("builder type=%d version=%d calls=%v stream=%s", ct, v, calls, cntOpsWire(ops, false)))
	}
	closeErr := b.Close()
	// (1)+(2): the emitted stream is accepted by a fresh State and closes balanced
	line, accepted, ok, d := cntApplyAll(ct, v, ops)
	c.Emit(fmt.Sprintf("CNT apply %d %s %s", int(ct), cntStrict(v), cntOpsWire(ops, false)), line)
	replay := fmt.Sprintf("%d %d %s", int(ct), int(v), cntReplayInput(ops))
	if !accepted {
		c.Violate("closing", "builder-stream-rejected", "a stream the Builder accepted is rejected by State.ApplyOperator: "+line+" "+d, replay)
		return
	}
	if !ok {
		c.Violate("closing", "closing", d, replay)
		return
	}
	if closeErr == nil && len(b.State.ClosingOperators()) != 0 {
		c.Violate("closing", "builder-close", fmt.Sprintf("Close() == nil but ClosingOperators() = %v", b.State.ClosingOperators()), replay)
	}
	// (3) the stream re-reads as written: the Builder's own operators (operands of the
	// Builder's types, e.g. pdf.Number) are serialised and compared with their native image
	if inDomain, hazards := cntClassify(ops); inDomain && len(hazards) == 0 {
		if ok, okey, d := oracleCNTRoundTripKey(ops); !ok {
			if okey == "" {
				okey = "roundtrip"
			}
			c.Violate("roundtrip", okey, "Builder stream: "+d, cntReplayInput(ops))
		}
		data, _ := cntWrite(ops)
		c.Emit("CNT scan "+hexWire(data), cntImplScanLine(data))
		own, err := cntWrite(b.Stream)
		if err != nil || !bytes.Equal(own, data) {
			c.Violate("roundtrip", "builder-stream-bytes", fmt.Sprintf("the Builder's stream serialises as %q, its native image as %q (%v)", truncate(string(own)), truncate(string(data)), err), cntReplayInput(ops))
		}
	}
}

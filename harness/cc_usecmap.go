package main

import (
	"bytes"
	"fmt"
	"slices"
	"strconv"
	"strings"

	"seehuhn.de/go/pdf"
	"seehuhn.de/go/pdf/font"
	"seehuhn.de/go/pdf/font/charcode"
	"seehuhn.de/go/pdf/font/cmap"
	"seehuhn.de/go/postscript/cid"
)

// C13 — usecmap parents of every kind through Embed -> file -> Extract.
//
// Parent kinds: none; genuinely predefined (embedded as a name); custom with a
// fresh name (embedded as a stream); custom with the NAME OF A PREDEFINED CMap
// but different mappings (a modified Clone of "H", "V", "Identity-H", …: must
// be embedded as a stream and must come back as that stream, not as the
// predefined CMap of that name); two-level chains mixing these; both WMode
// values.  Oracles (class keys):
//
//	usecmap-lookup     LookupCID / LookupNotdefCID agree before Embed and after Extract on the
//	                   codes of every range and single of every file of the chain
//	usecmap-structure  every level of the extracted chain is structurally what was embedded
//	                   (a predefined parent stays the predefined object, a custom parent comes
//	                   back with its own entries, name, ROS and WMode)
//
// Correspondence: `CC lookup`/`CC notdef` on the chain (model == implementation) and
// `CC useres <dict> <ps>`: the model of Extract's parent resolution (Model/CCCMap.lean
// `resolveParent`) against what the extraction did.

func init() {
	addRun("C13", "usecmap parent chains through Embed/Extract on a real PDF file: parent kinds none / predefined (H, V, Identity-H, Identity-V, 90ms-RKSJ-H/V, EUC-H/V, embedded as a name) / custom with a fresh name / custom with the name of a predefined CMap and different mappings (modified clone, embedded as a stream) / two-level chains mixing these; child built by SetMapping (shadowing and equal entries) with both WMode values; raw streams without /UseCMap whose PostScript body names the parent; lookups on the codes of every range of every level before and after, structural comparison of every level. A case is one chain; always non-trivial; distinct by kind and wire form.", runC13UseCMap)
	addReplay("C13", "usecmap-lookup", replayC13UseCMap)
	addReplay("C13", "usecmap-structure", replayC13UseCMap)
}

var cmPredefNames = []string{"H", "V", "Identity-H", "Identity-V", "90ms-RKSJ-H", "90ms-RKSJ-V", "EUC-H", "EUC-V"}

// cmCloneModified returns a non-predefined copy of pre which keeps its name
// (and parent) but maps differently.  The predefined object is not touched.
func cmCloneModified(r *Rand, pre *cmap.File) *cmap.File {
	g := pre.Clone()
	g.CIDRanges = slices.Clone(pre.CIDRanges)
	g.CIDSingles = slices.Clone(pre.CIDSingles)
	g.NotdefRanges = slices.Clone(pre.NotdefRanges)
	g.NotdefSingles = slices.Clone(pre.NotdefSingles)
	changed := false
	for i := range g.CIDRanges {
		if r.P(1, 3) {
			g.CIDRanges[i].Value += cid.CID(1000 + r.Intn(5000))
			changed = true
		}
	}
	if len(g.CIDRanges) > 2 && r.Bool() {
		k := r.Intn(len(g.CIDRanges))
		g.CIDRanges = slices.Delete(g.CIDRanges, k, k+1)
		changed = true
	}
	if len(g.CIDRanges) > 0 && r.Bool() {
		rg := Pick(r, g.CIDRanges)
		g.CIDSingles = append(g.CIDSingles, cmap.Single{Code: append([]byte{}, rg.First...), Value: cid.CID(60000 + r.Intn(5000))})
		changed = true
	}
	if !changed {
		if len(g.CIDRanges) > 0 {
			g.CIDRanges[0].Value += 4242
		} else {
			// e.g. Identity-V has no entries of its own: give it one
			g.CIDSingles = append(g.CIDSingles, cmap.Single{Code: []byte{0x30, 0x41}, Value: 4242})
		}
	}
	if r.P(1, 3) {
		g.NotdefSingles = append(g.NotdefSingles, cmap.Single{Code: []byte{0x7f, 0x7f}, Value: cid.CID(1 + r.Intn(9))})
	}
	if r.P(1, 3) {
		// the other writing mode than the predefined CMap of that name
		if g.WMode == font.Vertical {
			g.WMode = font.Horizontal
		} else {
			g.WMode = font.Vertical
		}
	}
	return g
}

// cmIsPredef: f is the very object cmap.Predefined returns for its name (decided by the harness
// itself, not by File.IsPredefined).
func cmIsPredef(f *cmap.File) bool {
	if f == nil {
		return false
	}
	p, err := cmap.Predefined(f.Name)
	return err == nil && p == f
}

func cmRootCSR(f *cmap.File) charcode.CodeSpaceRange {
	var csr charcode.CodeSpaceRange
	for g := f; g != nil; g = g.Parent {
		if len(g.CodeSpaceRange) > 0 {
			csr = g.CodeSpaceRange
		}
	}
	return csr
}

// cmCustomFresh: a custom file with a fresh name, built by SetMapping over csr.
func cmCustomFresh(r *Rand, name string, csr charcode.CodeSpaceRange, parent *cmap.File) *cmap.File {
	codec, err := charcode.NewCodec(csr)
	if err != nil {
		panic(err)
	}
	f := &cmap.File{Name: name, ROS: cmROS, Parent: parent}
	if parent != nil && parent.ROS != nil {
		f.ROS = parent.ROS
	}
	if r.Bool() {
		f.WMode = font.Vertical
	}
	codes := cmGenCodes(r, codec, csr, 2+r.Intn(5))
	data := cmGenCIDMap(r, codec, codes)
	if parent != nil {
		// some entries equal to what the chain already maps (left out), some shadowing it
		for _, rg := range parent.CIDRanges {
			if r.P(1, 8) {
				if code, ok := cmCodeOf(codec, rg.First); ok {
					v := parent.LookupCID(rg.First)
					if r.Bool() {
						v += 7
					}
					data[code] = v
				}
			}
		}
	}
	f.SetMapping(codec, data)
	if r.P(1, 4) {
		rg := Pick(r, csr)
		f.NotdefRanges = []cmap.Range{{First: append([]byte{}, rg.Low...), Last: append([]byte{}, rg.High...), Value: cid.CID(1 + r.Intn(9))}}
	}
	return f
}

type cmUseKind struct {
	name string
	mk   func(r *Rand) (parent *cmap.File, err error)
}

func cmPredef(r *Rand) (*cmap.File, error) { return cmap.Predefined(Pick(r, cmPredefNames)) }

func cmUseKinds() []cmUseKind {
	return []cmUseKind{
		{"none", func(r *Rand) (*cmap.File, error) { return nil, nil }},
		{"predefined", cmPredef},
		{"custom-fresh", func(r *Rand) (*cmap.File, error) {
			sp := Pick(r, cmSpaces()[:5])
			return cmCustomFresh(r, "Verif-Par", sp.csr, nil), nil
		}},
		{"custom-predefined-name", func(r *Rand) (*cmap.File, error) {
			pre, err := cmPredef(r)
			if err != nil {
				return nil, err
			}
			return cmCloneModified(r, pre), nil
		}},
		// two levels
		{"custom-fresh/predefined", func(r *Rand) (*cmap.File, error) {
			pre, err := cmPredef(r)
			if err != nil {
				return nil, err
			}
			return cmCustomFresh(r, "Verif-Mid", cmRootCSR(pre), pre), nil
		}},
		{"custom-predefined-name/custom-predefined-name", func(r *Rand) (*cmap.File, error) {
			// a modified "V"-like file whose parent is a modified clone of ITS predefined parent
			pre, err := cmap.Predefined(Pick(r, []string{"V", "Identity-V", "90ms-RKSJ-V", "EUC-V"}))
			if err != nil {
				return nil, err
			}
			g := cmCloneModified(r, pre)
			g.Parent = cmCloneModified(r, pre.Parent)
			return g, nil
		}},
		{"custom-predefined-name/predefined", func(r *Rand) (*cmap.File, error) {
			pre, err := cmap.Predefined(Pick(r, []string{"V", "Identity-V", "90ms-RKSJ-V", "EUC-V"}))
			if err != nil {
				return nil, err
			}
			return cmCloneModified(r, pre), nil // keeps the genuinely predefined parent
		}},
		{"custom-predefined-name/custom-fresh", func(r *Rand) (*cmap.File, error) {
			pre, err := cmap.Predefined(Pick(r, []string{"H", "Identity-H", "EUC-H"}))
			if err != nil {
				return nil, err
			}
			g := cmCloneModified(r, pre)
			g.Parent = cmCustomFresh(r, "Verif-Root", pre.CodeSpaceRange, nil)
			return g, nil
		}},
		{"predefined-two-level", func(r *Rand) (*cmap.File, error) {
			return cmap.Predefined(Pick(r, []string{"V", "Identity-V", "90ms-RKSJ-V", "EUC-V"}))
		}},
	}
}

// cmRangeProbes: codes of a range: all of them if there are few, else both ends, the middle,
// a stride, and the codes just outside.
func cmRangeProbes(add func([]byte), first, last []byte) {
	if !cmRangeOK(first, last) {
		return
	}
	n := cmBoxCount(first, last)
	if n <= 64 {
		for p := uint64(0); p < n; p++ {
			code, _ := cmCodeAt(first, last, p)
			add(code)
		}
	} else {
		for _, p := range []uint64{0, 1, n / 2, n - 2, n - 1} {
			code, _ := cmCodeAt(first, last, p)
			add(code)
		}
		for p := uint64(0); p < n; p += n / 7 {
			code, _ := cmCodeAt(first, last, p)
			add(code)
		}
	}
	add(cmSucc(last))
}

func cmChainProbes(f *cmap.File, limit int) [][]byte {
	seen := map[string]bool{}
	var probes [][]byte
	add := func(b []byte) {
		if b != nil && !seen[string(b)] && len(probes) < limit {
			seen[string(b)] = true
			probes = append(probes, b)
		}
	}
	// the child and the custom levels first (they are small), then the predefined ones
	for pass := 0; pass < 2; pass++ {
		for g := f; g != nil; g = g.Parent {
			if (pass == 0) == cmIsPredef(g) {
				continue
			}
			for _, s := range g.CIDSingles {
				add(s.Code)
			}
			for _, s := range g.NotdefSingles {
				add(s.Code)
			}
			for _, rg := range g.CIDRanges {
				cmRangeProbes(add, rg.First, rg.Last)
			}
			for _, rg := range g.NotdefRanges {
				cmRangeProbes(add, rg.First, rg.Last)
			}
		}
	}
	add([]byte{0x30, 0x41})
	add([]byte{0x7f, 0x7f})
	add([]byte{0x41})
	return probes
}

func cmLookups(f *cmap.File, probes [][]byte) (look, nd []string) {
	look = make([]string, len(probes))
	nd = make([]string, len(probes))
	for i, b := range probes {
		look[i] = strconv.FormatUint(uint64(f.LookupCID(b)), 10)
		nd[i] = strconv.FormatUint(uint64(f.LookupNotdefCID(b)), 10)
	}
	return
}

// cmCompareChains: the extracted chain g against the embedded chain f.
func cmCompareChains(f, g *cmap.File, probes [][]byte, look, nd []string, tag string) (viol []cmViol) {
	bad := func(o, d string) { viol = append(viol, cmViol{o, d}) }
	a, b := f, g
	depth := 0
	for a != nil && b != nil {
		if cmIsPredef(a) {
			if !cmIsPredef(b) || b != a {
				bad("usecmap-structure", fmt.Sprintf("%s: level %d: the predefined CMap %q was embedded by name but extraction returned a different object (predefined=%v, name %q)", tag, depth, a.Name, cmIsPredef(b), b.Name))
			}
		} else {
			if cmIsPredef(b) {
				bad("usecmap-structure", fmt.Sprintf("%s: level %d: the custom CMap named %q was embedded as a stream but extraction returned the PREDEFINED CMap of that name", tag, depth, a.Name))
			} else if d := cmFileDiff(a, b); d != "" {
				bad("usecmap-structure", fmt.Sprintf("%s: level %d (%q): %s", tag, depth, a.Name, d))
			}
		}
		if cmIsPredef(a) {
			break // the rest of a predefined chain is the predefined chain
		}
		a, b = a.Parent, b.Parent
		depth++
	}
	if (a == nil) != (b == nil) {
		bad("usecmap-structure", fmt.Sprintf("%s: the parent chain has a different length after extraction (level %d: embedded nil=%v, extracted nil=%v)", tag, depth, a == nil, b == nil))
	}
	look2, nd2 := cmLookups(g, probes)
	for i := range probes {
		if look2[i] != look[i] {
			bad("usecmap-lookup", fmt.Sprintf("%s: LookupCID(%x) = %s after extraction, %s before embedding", tag, probes[i], look2[i], look[i]))
			break
		}
		if nd2[i] != nd[i] {
			bad("usecmap-lookup", fmt.Sprintf("%s: LookupNotdefCID(%x) = %s after extraction, %s before embedding", tag, probes[i], nd2[i], nd[i]))
			break
		}
	}
	return
}

// cmEmbedRaw writes f's CMap stream WITHOUT a /UseCMap entry: the parent is
// then only named by the `usecmap` operator of the PostScript body.
func cmEmbedRaw(o cmWriteOpt, f *cmap.File) (*pdf.Reader, pdf.Object, error) {
	buf := &bytes.Buffer{}
	w, err := pdf.NewWriter(buf, o.v, &pdf.WriterOptions{HumanReadable: o.pretty})
	if err != nil {
		return nil, nil, err
	}
	ref := w.Alloc()
	stm, err := w.OpenStream(ref, pdf.Dict{"Type": pdf.Name("CMap"), "CMapName": pdf.Name(f.Name)})
	if err != nil {
		return nil, nil, err
	}
	if err := f.WriteTo(stm, o.pretty); err != nil {
		return nil, nil, err
	}
	if err := stm.Close(); err != nil {
		return nil, nil, err
	}
	pages := w.Alloc()
	w.Put(pages, pdf.Dict{"Type": pdf.Name("Pages"), "Kids": pdf.Array{}, "Count": pdf.Integer(0)})
	w.GetMeta().Catalog.Pages = pages
	if err := w.Close(); err != nil {
		return nil, nil, err
	}
	r, err := pdf.NewReader(bytes.NewReader(buf.Bytes()), int64(buf.Len()), nil)
	return r, ref, err
}

func cmResolved(g *cmap.File) string {
	switch {
	case g == nil || g.Parent == nil:
		return "none"
	case cmIsPredef(g.Parent):
		return "predefined"
	default:
		return "embedded"
	}
}

func cmCaseUseCMap(c *Ctx, r *Rand, kindIdx int, emit bool) (key string, viol []cmViol) {
	bad := func(o, d string) { viol = append(viol, cmViol{o, d}) }
	defer func() {
		if p := recover(); p != nil {
			bad("c13-no-panic", fmt.Sprintf("panic: %v", p))
		}
	}()
	kinds := cmUseKinds()
	kind := kinds[kindIdx%len(kinds)]
	parent, err := kind.mk(r)
	if err != nil {
		bad("usecmap-structure", "cannot build the parent: "+err.Error())
		return kind.name, viol
	}
	// the child
	csr := cmRootCSR(parent)
	if len(csr) == 0 {
		csr = charcode.UCS2
	}
	child := cmCustomFresh(r, "Verif-Child", csr, parent)
	wm := "H"
	if child.WMode == font.Vertical {
		wm = "V"
	}
	key = "usecmap " + kind.name + " " + wm + " " + cmFileWire(child)
	tag := kind.name + "/wmode=" + wm
	if c != nil {
		c.Stat("usecmap_kind_" + kind.name)
		c.Stat("usecmap_child_wmode_" + wm)
	}

	probes := cmChainProbes(child, 1500)
	look, nd := cmLookups(child, probes)
	if c != nil && emit {
		cw := cmChainWire(child)
		if len(cw) < 60000 {
			pw := ccBytesList(probes)
			c.Emit("CC lookup "+cw+" "+pw, "ok "+ccJoin(look))
			c.Emit("CC notdef "+cw+" "+pw, "ok "+ccJoin(nd))
		}
	}

	for _, o := range cmPickOpts(r, 1) {
		rd, obj, err := cmRoundTripFile(o, child)
		if err != nil {
			bad("usecmap-structure", fmt.Sprintf("%s %v: %v", tag, o, err))
			continue
		}
		g, err := cmap.Extract(pdf.NewCursor(rd), obj, false)
		if err != nil {
			bad("usecmap-structure", fmt.Sprintf("%s %v: Extract: %v", tag, o, err))
			continue
		}
		viol = append(viol, cmCompareChains(child, g, probes, look, nd, tag+" "+o.String())...)
		if c != nil {
			c.Stat("usecmap_roundtrips")
			if emit {
				// Extract's parent resolution: the stream dictionary's /UseCMap decides
				dictKind, psKind := "none", "none"
				if parent != nil {
					psKind = "other"
					if _, err := cmap.Predefined(parent.Name); err == nil {
						psKind = "pre"
					}
					dictKind = "stream"
					if cmIsPredef(parent) {
						dictKind = "name"
					}
				}
				c.Emit("CC useres "+dictKind+" "+psKind, "ok "+cmResolved(g))
			}
		}
	}

	// raw stream without /UseCMap: only the PostScript body names the parent
	if parent != nil && r.P(1, 3) {
		o := Pick(r, cmOptsAll)
		rd, obj, err := cmEmbedRaw(o, child)
		if err == nil {
			g, err := cmap.Extract(pdf.NewCursor(rd), obj, false)
			if err != nil {
				bad("usecmap-structure", fmt.Sprintf("%s raw %v: Extract: %v", tag, o, err))
			} else {
				psKind := "other"
				pre, perr := cmap.Predefined(parent.Name)
				if perr == nil {
					psKind = "pre"
				}
				want := "none"
				if perr == nil {
					want = "predefined"
				}
				if got := cmResolved(g); got != want {
					bad("usecmap-structure", fmt.Sprintf("%s raw stream without /UseCMap, body says `/%s usecmap`: parent resolved as %s, want %s", tag, parent.Name, got, want))
				} else if perr == nil && g.Parent != pre {
					bad("usecmap-structure", fmt.Sprintf("%s raw stream: parent is not the predefined %q", tag, parent.Name))
				}
				if c != nil && emit {
					c.Emit("CC useres none "+psKind, "ok "+cmResolved(g))
					c.Stat("usecmap_raw_streams")
				}
			}
		} else {
			bad("usecmap-structure", fmt.Sprintf("%s raw %v: %v", tag, o, err))
		}
	}
	return
}

func replayC13UseCMap(input string) (bool, string) {
	parts := strings.Fields(input)
	if len(parts) != 3 || parts[0] != "usecmap" {
		return true, "bad replay input"
	}
	k, err1 := strconv.Atoi(parts[1])
	st, err2 := strconv.ParseUint(parts[2], 10, 64)
	if err1 != nil || err2 != nil {
		return true, "bad replay input"
	}
	_, viol := cmCaseUseCMap(nil, &Rand{s: st}, k, false)
	if len(viol) == 0 {
		return true, "all usecmap oracles hold for case " + input
	}
	var sb strings.Builder
	for i, v := range viol {
		if i < 5 {
			sb.WriteString(v.oracle + ": " + v.desc + "\n")
		}
	}
	return false, sb.String()
}

func runC13UseCMap(c *Ctx) {
	r := c.R
	n := 180
	if c.Thorough {
		n = 3000
	}
	for i := 0; i < n; i++ {
		rr := r.Fork()
		st := rr.s
		key, viol := cmCaseUseCMap(c, rr, i, i%3 == 0 || i < 30)
		c.Case(key, true)
		for _, v := range viol {
			c.Violate(v.oracle, v.oracle, v.desc, "usecmap "+strconv.Itoa(i)+" "+strconv.FormatUint(st, 10))
		}
		if i < 2 {
			c.Sample(truncate(key))
		}
	}
}

package main

import (
	"bytes"
	"compress/zlib"
	"fmt"
	"io"
	"runtime"
	"strings"

	"seehuhn.de/go/membudget"
	"seehuhn.de/go/pdf"
)

// ---- C08: decoders that buffer their whole input (JBIG2Decode) behind expanding filters ----
//
// FilterJBIG2.Decode reads its input with io.ReadAll under the cap
// min(budget.Available(), MaxJBIG2PageBytes+1).  Placed behind expanding filters ([FlateDecode
// FlateDecode JBIG2Decode] over about a kilobyte of doubly deflated zeros = 256 MiB) it must not
// buffer more than the stream budget allows.  Measured in the child: bytes pulled from an endless
// upstream (direct call with a counting reader) and the total allocation
// (runtime.MemStats.TotalAlloc delta) of the whole DecodeStream + read + Close.
// The only decoder of filter.go / internal/filter that slurps its input is JBIG2Decode
// (grep io.ReadAll); the JBIG2Globals stream is read by ReadAll with MaxJBIG2GlobalsBytes.

const fbSlurpExpanded = 256 << 20

// fbDeflatedZeros: n zero bytes, deflated `layers` times (the outer layers deflate the small
// output of the inner one, which is the same byte string as nesting the writers).
func fbDeflatedZeros(n int, layers int) []byte {
	var out bytes.Buffer
	zw := zlib.NewWriter(&out)
	chunk := make([]byte, 1<<20)
	for left := n; left > 0; left -= len(chunk) {
		zw.Write(chunk[:min(left, len(chunk))])
	}
	zw.Close()
	b := out.Bytes()
	for i := 1; i < layers; i++ {
		b = fbZlib(b)
	}
	return b
}

type fbEndless struct {
	pulled int64
	pat    byte
}

func (e *fbEndless) Read(p []byte) (int, error) {
	for i := range p {
		p[i] = e.pat
	}
	e.pulled += int64(len(p))
	return len(p), nil
}

// fbStreamBudgetOf: limits.StreamBudget(rawLen), read from the library (hook of verif_tr.go) so
// that the harness follows the constants of internal/limits.
func fbStreamBudgetOf(rawLen int) int64 { return pdf.VerifTrStreamBudget(int64(rawLen)) }

// fbChildSlurpCase: kind "slurp:<dict wire>" decodes body through DecodeStream; kind
// "slurpdirect" calls FilterJBIG2.Decode on an endless reader with the budget of a raw stream of
// `bound` bytes.
func fbChildSlurpCase(kind string, bound int, body []byte) (word string, n int, detail string) {
	defer func() {
		if p := recover(); p != nil {
			word, detail = "panic", strings.ReplaceAll(fmt.Sprint(p), "\n", " ")
		}
	}()
	var ms runtime.MemStats
	runtime.GC()
	runtime.ReadMemStats(&ms)
	alloc0 := ms.TotalAlloc
	var budget int64
	var pulled, avail int64 = -1, -1
	word = "data"
	note := func(err error) {
		word, detail = "other", err.Error()
		if pdf.IsMalformed(err) {
			word = "malformed"
		}
	}
	if kind == "slurpdirect" {
		budget = fbStreamBudgetOf(bound)
		src := &fbEndless{pat: byte(len(body))}
		bud := membudget.New(budget)
		avail = bud.Available()
		rd, err := (&pdf.FilterJBIG2{}).Decode(pdf.V2_0, src, bud)
		if err != nil {
			note(err)
		} else {
			k, _ := io.Copy(io.Discard, io.LimitReader(rd, 64<<20))
			n = int(k)
			rd.Close()
		}
		pulled = src.pulled
	} else {
		budget = fbStreamBudgetOf(len(body))
		obj, err := fbUnwireOne(strings.TrimPrefix(kind, "slurp:"))
		if err != nil {
			return "badcase", 0, "cannot read the dictionary"
		}
		dict, _ := obj.(pdf.Dict)
		g := &fbGetter{meta: pdf.MetaInfo{Version: pdf.V2_0}}
		rd, err := pdf.DecodeStream(g, nil, pdf.NewStream(dict, body))
		if err != nil {
			note(err)
		} else {
			k, err := io.Copy(io.Discard, io.LimitReader(rd, 64<<20))
			n = int(k)
			if err != nil {
				note(err)
			}
			rd.Close()
		}
	}
	runtime.ReadMemStats(&ms)
	total := int64(ms.TotalAlloc - alloc0)
	detail = fmt.Sprintf("budget=%d avail=%d pulled=%d totalalloc=%d %s", budget, avail, pulled, total, strings.ReplaceAll(detail, "\n", " "))
	// io.ReadAll grows its buffer geometrically: reading b bytes allocates less than 5b in total
	switch {
	case pulled > budget+(64<<10):
		word = "slurp"
		detail = "more bytes pulled from upstream than the stream budget: " + detail
	case total > 5*budget+(32<<20):
		word = "slurp"
		detail = "total allocation far above the stream budget: " + detail
	}
	return word, n, detail
}

type fbSlurpCase struct {
	filters []string
	parms   []pdf.Dict
	body    []byte
	note    string
}

// fbSlurpCases builds the chains once per run (the deflated zeros are shared).
func fbSlurpCases() []fbSlurpCase {
	z1 := fbDeflatedZeros(fbSlurpExpanded, 1)
	z2 := fbZlib(z1)
	enc := func(f pdf.Filter, data []byte) []byte {
		out, _, _ := fbEncode(f, pdf.V1_7, data, NewRand(1), 0)
		return out
	}
	return []fbSlurpCase{
		{filters: []string{"FlateDecode", "FlateDecode", "JBIG2Decode"}, body: z2, note: "doubly deflated zeros"},
		{filters: []string{"FlateDecode", "JBIG2Decode"}, body: z1, note: "deflated zeros"},
		{filters: []string{"ASCII85Decode", "FlateDecode", "FlateDecode", "JBIG2Decode"}, body: enc(pdf.FilterASCII85{}, z2), note: "ASCII85 of doubly deflated zeros"},
		{filters: []string{"LZWDecode", "FlateDecode", "JBIG2Decode"}, body: enc(pdf.FilterLZW{OffByOne: true}, z1), note: "LZW of deflated zeros"},
		{filters: []string{"RunLengthDecode", "FlateDecode", "FlateDecode", "JBIG2Decode"}, body: enc(pdf.FilterRunLength{}, z2), note: "RunLength of doubly deflated zeros"},
		{filters: []string{"FlateDecode", "FlateDecode", "FlateDecode", "JBIG2Decode"}, body: fbZlib(z2), note: "triply deflated zeros"},
		{filters: []string{"FlateDecode", "RunLengthDecode", "JBIG2Decode"}, body: fbZlib(enc(pdf.FilterRunLength{}, make([]byte, 40<<20))), note: "deflated run-length coded zeros"},
	}
}

package main

import (
	"bytes"
	"fmt"
	"io"
	"strings"

	"seehuhn.de/go/pdf"
)

// Generated documents for C05 and C19, produced by the real Writer:
// versions with xref tables and with xref streams + object streams, filters
// (Flate incl. predictor, LZW, ASCIIHex, ASCII85, RunLength, chains),
// encryption (RC4-40/128, AES-128/256, empty and non-empty user password),
// a two-level page tree with inherited attributes, content streams, an Info
// dictionary, stream bodies that contain "endstream" or end in EOL bytes.

type robDocSpec struct {
	Version   pdf.Version
	Human     bool   // xref table, no object streams
	UserPW    string // "" with OwnerPW != "": opens with the empty password
	OwnerPW   string
	NPages    int
	NExtra    int  // extra compressed objects (object streams when enabled)
	NonSeek   bool // write through a non-seekable sink (indirect /Length objects)
	Seed      uint64
	FilterMix int
}

type robDoc struct {
	Spec    robDocSpec
	Data    []byte
	Streams []pdf.Reference // references of the streams written
	Refs    []pdf.Reference // all references written explicitly
	Bodies  map[pdf.Reference][]byte
}

func (s robDocSpec) String() string {
	return fmt.Sprintf("v%s,h%v,u%q,o%q,p%d,x%d,ns%v,s%d,f%d", s.Version, s.Human, s.UserPW, s.OwnerPW, s.NPages, s.NExtra, s.NonSeek, s.Seed, s.FilterMix)
}

var robVersions = []pdf.Version{pdf.V1_2, pdf.V1_4, pdf.V1_5, pdf.V1_6, pdf.V1_7, pdf.V2_0}

func genDocSpec(r *Rand) robDocSpec {
	s := robDocSpec{
		Version:   Pick(r, robVersions),
		Human:     r.P(1, 3),
		NPages:    1 + r.Intn(4),
		NExtra:    r.Intn(6),
		NonSeek:   r.P(1, 3),
		Seed:      r.U64(),
		FilterMix: r.Intn(8),
	}
	switch r.Intn(5) {
	case 0:
		s.OwnerPW = "owner"
	case 1:
		s.OwnerPW, s.UserPW = "owner", "user"
	}
	return s
}

type nonSeekWriter struct{ w io.Writer }

func (n nonSeekWriter) Write(p []byte) (int, error) { return n.w.Write(p) }

// robFilters returns a filter chain and the row length the body must be a
// multiple of (predictors pad a final partial row by design).
func robFilters(r *Rand, mix int) ([]pdf.Filter, int) {
	switch mix {
	case 0:
		return nil, 1
	case 1:
		return []pdf.Filter{pdf.FilterFlate{}}, 1
	case 2:
		cols := 1 + r.Intn(6)
		return []pdf.Filter{pdf.FilterFlate{Predictor: 12, Columns: cols, Colors: 1, BitsPerComponent: 8}}, cols
	case 3:
		return []pdf.Filter{pdf.FilterASCIIHex{}}, 1
	case 4:
		return []pdf.Filter{pdf.FilterASCII85{}, pdf.FilterFlate{}}, 1
	case 5:
		return []pdf.Filter{pdf.FilterLZW{}}, 1
	case 6:
		return []pdf.Filter{pdf.FilterRunLength{}}, 1
	default:
		return []pdf.Filter{pdf.FilterASCIIHex{}, pdf.FilterRunLength{}, pdf.FilterFlate{}}, 1
	}
}

var robBodies = []string{
	"BT /F1 12 Tf 72 700 Td (Hello) Tj ET\n",
	"q 1 0 0 1 10 10 cm 0 0 100 100 re f Q",
	"abc\n",
	"abc\r\n",
	"data with\nendstream\ninside\n",
	"x endstream endobj y",
	"",
	"\r",
}

func robBody(r *Rand) []byte {
	if r.P(1, 2) {
		return []byte(Pick(r, robBodies))
	}
	n := r.Intn(3000)
	if r.P(1, 2) {
		return r.Bytes(n)
	}
	return []byte(strings.Repeat("0 0 m 10 10 l S\n", n/16+1))
}

// buildDoc writes the document described by spec.  sink receives the
// bytes (nil: an in-memory buffer); the error is the first error any Writer
// call returned.
func buildDoc(spec robDocSpec, sink io.Writer) (*robDoc, error) {
	doc := &robDoc{Spec: spec, Bodies: map[pdf.Reference][]byte{}}
	var buf *bytes.Buffer
	if sink == nil {
		buf = &bytes.Buffer{}
		sink = buf
		if spec.NonSeek {
			sink = nonSeekWriter{buf}
		}
	}
	r := NewRand(spec.Seed)
	opt := &pdf.WriterOptions{HumanReadable: spec.Human, UserPassword: spec.UserPW, OwnerPassword: spec.OwnerPW}
	if spec.OwnerPW != "" {
		opt.UserPermissions = pdf.PermAll
		if spec.Version < pdf.V1_1 {
			spec.Version = pdf.V1_2
		}
	}
	w, err := pdf.NewWriter(sink, spec.Version, opt)
	if err != nil {
		return nil, err
	}
	pagesRef := w.Alloc()
	midRef := w.Alloc()
	var kids pdf.Array
	for i := 0; i < spec.NPages; i++ {
		contentRef := w.Alloc()
		body := robBody(r)
		filters, row := robFilters(r, (spec.FilterMix+i)%8)
		for len(body)%row != 0 {
			body = append(body, ' ')
		}
		stm, err := w.OpenStream(contentRef, pdf.Dict{}, filters...)
		if err != nil {
			return nil, err
		}
		if _, err := stm.Write(body); err != nil {
			return nil, err
		}
		if err := stm.Close(); err != nil {
			return nil, err
		}
		doc.Streams = append(doc.Streams, contentRef)
		doc.Refs = append(doc.Refs, contentRef)
		doc.Bodies[contentRef] = body
		pageRef := w.Alloc()
		page := pdf.Dict{
			"Type":      pdf.Name("Page"),
			"Parent":    midRef,
			"Contents":  contentRef,
			"Resources": pdf.Dict{"ProcSet": pdf.Array{pdf.Name("PDF"), pdf.Name("Text")}},
		}
		if i%2 == 1 {
			page["MediaBox"] = pdf.Array{pdf.Integer(0), pdf.Integer(0), pdf.Integer(300), pdf.Integer(400)}
			page["Annots"] = pdf.Array{}
		}
		if err := w.Put(pageRef, page); err != nil {
			return nil, err
		}
		doc.Refs = append(doc.Refs, pageRef)
		kids = append(kids, pageRef)
	}
	if err := w.Put(midRef, pdf.Dict{"Type": pdf.Name("Pages"), "Parent": pagesRef, "Kids": kids, "Count": pdf.Integer(len(kids)), "Rotate": pdf.Integer(90)}); err != nil {
		return nil, err
	}
	if err := w.Put(pagesRef, pdf.Dict{"Type": pdf.Name("Pages"), "Kids": pdf.Array{midRef}, "Count": pdf.Integer(len(kids)),
		"MediaBox": pdf.Array{pdf.Integer(0), pdf.Integer(0), pdf.Integer(612), pdf.Integer(792)}}); err != nil {
		return nil, err
	}
	doc.Refs = append(doc.Refs, midRef, pagesRef)

	if spec.NExtra > 0 {
		refs := make([]pdf.Reference, spec.NExtra)
		objs := make([]pdf.Object, spec.NExtra)
		for i := range refs {
			refs[i] = w.Alloc()
			switch i % 4 {
			case 0:
				objs[i] = pdf.Dict{"A": pdf.Integer(i), "B": pdf.String("string " + fmt.Sprint(i)), "C": pdf.Array{pdf.Name("N"), pdf.Real(1.5)}}
			case 1:
				objs[i] = pdf.Array{pdf.Integer(1), refs[0], pdf.String("(nested) \\ text")}
			case 2:
				objs[i] = pdf.String(r.Bytes(r.Intn(40)))
			default:
				objs[i] = pdf.Integer(int64(r.U64() >> 20))
			}
		}
		if err := w.WriteCompressed(refs, objs...); err != nil {
			return nil, err
		}
		doc.Refs = append(doc.Refs, refs...)
	}

	w.GetMeta().Catalog.Pages = pagesRef
	w.GetMeta().Info = &pdf.Info{Title: "robustness test document", Producer: "verif harness"}
	if err := w.Close(); err != nil {
		return nil, err
	}
	if buf != nil {
		doc.Data = buf.Bytes()
	}
	return doc, nil
}

// readerPassword is the password a reader needs for the document.
func (s robDocSpec) readerPassword() string { return s.UserPW }

package main

import (
	"bytes"
	"fmt"
)

// The complete small grid of the TIFF predictor (Predictor 2) and of PNG rows whose tag differs
// from the declared predictor — every cell in EVERY run (quick tier included), in both directions:
//
//	BitsPerComponent {1,2,4,8,16} x Colors {1,2,3,4} x Columns {1..17, 31..33, 63..65, 8k: 24, 40, 128}
//	x rows {1,2,3,5} x data shapes {all ones, every row ending in a 1 bit, alternating, random}
//
// C06 (own): predict writer -> predict reader gives the data back; C07 (foreign): the Go reference
// decoder (fb_c07.go, from the TIFF/PNG specifications) reads the library's output, the library
// reads the reference encoder's output.  A rotating sixteenth of the cells (by seed) also goes
// through the Lean model ('FB penc' / 'FB pdec') and, under C07, the Lean Spec decoder ('FB spdec').
// Fast paths of the coders (byte-parallel code for 1 bit x 1 colour x Columns%8==0, whole-byte
// samples, ...) carry state from sample to sample; rows >= 2 with a last sample of all ones are the
// inputs on which a state that is not reset between rows shows.

var fbGridColumns = []int{1, 2, 3, 4, 5, 6, 7, 8, 9, 10, 11, 12, 13, 14, 15, 16, 17, 24, 31, 32, 33, 40, 63, 64, 65, 128}
var fbGridShapes = []string{"ones", "endone", "alt", "random"}

func fbGridData(r *Rand, shape string, p fbPred, rows int) []byte {
	bits := p.colors * p.bpc * p.columns
	rb := (bits + 7) / 8
	data := make([]byte, rows*rb)
	for i := 0; i < rows; i++ {
		row := data[i*rb : (i+1)*rb]
		switch shape {
		case "ones":
			for x := 0; x < bits; x++ {
				row[x/8] |= 0x80 >> (x % 8)
			}
		case "endone": // zeros (odd rows: random) with the last sample all ones
			if i%2 == 1 {
				copy(row, r.Bytes(rb))
				for x := bits; x < 8*rb; x++ {
					row[x/8] &^= 0x80 >> (x % 8)
				}
			}
			for x := bits - p.bpc; x < bits; x++ {
				row[x/8] |= 0x80 >> (x % 8)
			}
		case "alt":
			for x := 0; x < bits; x++ {
				if (x/p.bpc+i)%2 == 0 {
					row[x/8] |= 0x80 >> (x % 8)
				}
			}
		default:
			copy(row, r.Bytes(rb))
		}
	}
	return data
}

// oracleGridOwn: the library's writer and reader invert each other.
func oracleGridOwn(p fbPred, data []byte, r *Rand) (bool, string) {
	enc, err := fbPredEncodeHook(p, data, r, r.Intn(4))
	if err != nil {
		return false, "library encoder failed: " + err.Error()
	}
	out, word := fbPredDecodeHook(p, enc, r, r.Intn(4))
	if word != "ok" || !bytes.Equal(out, data) {
		return false, fmt.Sprintf("own round trip: in=%s enc=%s out=%s %s", fbTrunc(data), fbTrunc(enc), fbTrunc(out), word)
	}
	return true, ""
}

// replay input: "<own|foreign> <colors> <bpc> <columns> <pred> <datahex>"
func replayPredGrid(input string) (bool, string) {
	a := fbFields(input)
	if len(a) != 6 {
		return true, "bad replay input"
	}
	p := fbPred{fbAtoi(a[1]), fbAtoi(a[2]), fbAtoi(a[3]), fbAtoi(a[4])}
	if a[0] == "own" {
		return oracleGridOwn(p, fbHexDecode(a[5]), NewRand(1))
	}
	return oracleForeignPredict(p, fbHexDecode(a[5]), NewRand(1))
}

func runFBPredGrid(c *Ctx, foreign bool) {
	r := c.R.Fork()
	rot := int(c.rep.Seed % 16)
	cell := 0
	check := func(p fbPred, data []byte, rows int, shape string) {
		cell++
		var ok bool
		var desc, dir string
		if foreign {
			dir = "foreign"
			ok, desc = oracleForeignPredict(p, data, r)
		} else {
			dir = "own"
			ok, desc = oracleGridOwn(p, data, r)
		}
		c.Case(fmt.Sprintf("grid:%s:%s:%x", dir, p, data), true)
		if !ok {
			key := "predict-grid-" + dir
			if len(desc) > 7 && desc[:7] == "rowtag:" {
				key = "foreign-predict-rowtag"
			}
			c.Violate("fb-predict-grid", key, fmt.Sprintf("predictor %v, %d rows, shape %s: %s", p, rows, shape, desc),
				fmt.Sprintf("%s %s %s", dir, p, hexWire(data)))
		}
		if cell%16 == rot && len(data) <= 600 { // a rotating part of the grid through the Lean model / Spec
			if enc, err := fbPredEncodeHook(p, data, r, 0); err == nil {
				if foreign {
					c.Emit(fmt.Sprintf("FB spdec %s %s", p, hexWire(enc)), hexWire(data))
				} else {
					tags := []byte{}
					if p.pred == 15 {
						rb := (p.colors*p.bpc*p.columns + 7) / 8
						tags = fbPredTags(p, rb, enc)
					}
					c.Emit(fmt.Sprintf("FB penc %s %s %s", p, hexWire(tags), hexWire(data)), "ok "+hexWire(enc))
					out, word := fbPredDecodeHook(p, enc, r, 0)
					c.Emit(fmt.Sprintf("FB pdec %s %s", p, hexWire(enc)), hexWire(out)+" "+word)
				}
			}
		}
	}
	// TIFF predictor: the full grid
	for _, bpc := range []int{1, 2, 4, 8, 16} {
		for _, colors := range []int{1, 2, 3, 4} {
			for _, cols := range fbGridColumns {
				for _, rows := range []int{1, 2, 3, 5} {
					for _, shape := range fbGridShapes {
						p := fbPred{colors, bpc, cols, 2}
						check(p, fbGridData(r, shape, p, rows), rows, shape)
						c.Stat(fmt.Sprintf("tiffgrid_bpc%d_colors%d", bpc, colors))
						c.Stat(fmt.Sprintf("tiffgrid_rows%d_%s", rows, shape))
						if bpc == 1 && colors == 1 && cols%8 == 0 && rows >= 2 {
							c.Stat("tiffgrid_bytepath_cells_rows_ge2")
						}
					}
				}
			}
		}
	}
	// PNG predictors: the declared predictors 10..15 over a smaller geometry grid, 2..5 rows; under
	// C07 the reference encoder also tags the rows freely (oracleForeignPredict, key
	// foreign-predict-rowtag)
	for _, pred := range []int{10, 11, 12, 13, 14, 15} {
		for _, bpc := range []int{1, 4, 8, 16} {
			for _, colors := range []int{1, 3, 4} {
				for _, cols := range []int{1, 2, 7, 8, 9, 16, 17, 33} {
					for _, rows := range []int{2, 3, 5} {
						p := fbPred{colors, bpc, cols, pred}
						shape := fbGridShapes[(cell+rows)%len(fbGridShapes)]
						check(p, fbGridData(r, shape, p, rows), rows, shape)
						c.Stat(fmt.Sprintf("pnggrid_pred%d", pred))
					}
				}
			}
		}
	}
	c.StatN("predgrid_cells", cell)
}

package main

import (
	"bytes"
	"fmt"
	"io"
	"strings"

	"seehuhn.de/go/pdf"
	"seehuhn.de/go/pdf/graphics/content"
	"seehuhn.de/go/pdf/page"
)

// C15 (key CNT) — generators and the harness's own reference notions
// (written from ISO 32000 §7.2/§7.8/§8.9.7, independent of the Lean model).

// ---- character classes per ISO 32000-1 §7.2.3 ----

func cntIsSpace(b byte) bool {
	return b == 0 || b == 9 || b == 10 || b == 12 || b == 13 || b == 32
}

func cntIsDelim(b byte) bool {
	return strings.IndexByte("()<>[]{}/%", b) >= 0
}

func cntIsRegular(b byte) bool { return !cntIsSpace(b) && !cntIsDelim(b) }

// cntIsNumberToken: optional sign, digits with at most one '.', at least one digit.
func cntIsNumberToken(s string) bool {
	if s == "" {
		return false
	}
	if s[0] == '+' || s[0] == '-' {
		s = s[1:]
	}
	digits, dots := 0, 0
	for i := 0; i < len(s); i++ {
		switch {
		case s[i] >= '0' && s[i] <= '9':
			digits++
		case s[i] == '.':
			dots++
		default:
			return false
		}
	}
	return digits > 0 && dots <= 1
}

// cntAdmissibleName: an operator name which a content stream can carry as a
// single token that is neither a number, a keyword nor the start of an inline image.
func cntAdmissibleName(n content.OpName) bool {
	s := string(n)
	if len(s) == 0 || len(s) > 4096 {
		return false
	}
	for i := 0; i < len(s); i++ {
		if !cntIsRegular(s[i]) {
			return false
		}
	}
	if cntIsNumberToken(s) {
		return false
	}
	switch s {
	case "true", "false", "null", "BI":
		return false
	}
	return true
}

// ---- wire ----

func cntAsNative(o pdf.Object) pdf.Object {
	if o == nil {
		return nil
	}
	n := o.AsPDF(pdf.OptContentStream)
	switch x := n.(type) {
	case pdf.Array:
		if x == nil {
			return x
		}
		a := make(pdf.Array, len(x))
		for i, e := range x {
			a[i] = cntAsNative(e)
		}
		return a
	case pdf.Dict:
		if x == nil {
			return x
		}
		d := pdf.Dict{}
		for k, v := range x {
			d[k] = cntAsNative(v)
		}
		return d
	}
	if n == nil {
		return nil
	}
	return n
}

// cntWireSetup: a typed nil Dict is the null object (library fix D99, like a nil Array); it goes
// over the wire as "N", while "d>" is the empty, non-nil dictionary pdf.Dict{} written as <<>>.
func cntWireSetup() { wireNilDict = true }

// cntNorm is normObj with a typed nil Dict counted as null.
func cntNorm(o pdf.Object) pdf.Object {
	var f func(o pdf.Object) pdf.Object
	f = func(o pdf.Object) pdf.Object {
		switch x := o.(type) {
		case pdf.Dict:
			if x == nil {
				return nil
			}
			d := pdf.Dict{}
			for k, v := range x {
				d[k] = f(v)
			}
			return d
		case pdf.Array:
			if x == nil {
				return x
			}
			a := make(pdf.Array, len(x))
			for i, e := range x {
				a[i] = f(e)
			}
			return a
		}
		return o
	}
	return normObj(f(o))
}

func cntOpWire(sb *strings.Builder, op content.Operator, norm bool) {
	sb.WriteString("ao" + hx([]byte(op.Name)) + ";")
	for _, a := range op.Args {
		if norm {
			wireNormTo(sb, a)
		} else {
			wireTo(sb, a)
		}
	}
	sb.WriteString("]")
}

func cntOpsWire(ops []content.Operator, norm bool) string {
	if len(ops) == 0 {
		return "-"
	}
	var sb strings.Builder
	for _, op := range ops {
		cntOpWire(&sb, op, norm)
	}
	return sb.String()
}

func cntOpsUnwire(s string) ([]content.Operator, error) {
	objs, err := unwireSeq(s)
	if err != nil {
		return nil, err
	}
	var ops []content.Operator
	for _, o := range objs {
		a, ok := o.(pdf.Array)
		if !ok || len(a) == 0 {
			return nil, fmt.Errorf("operator is not an array")
		}
		n, ok := a[0].(pdf.Operator)
		if !ok {
			return nil, fmt.Errorf("operator name missing")
		}
		ops = append(ops, content.Operator{Name: content.OpName(n), Args: []pdf.Object(a[1:])})
	}
	return ops, nil
}

// ---- the real writer and scanner ----

func cntWrite(ops []content.Operator) (data []byte, err error) {
	defer func() {
		if r := recover(); r != nil {
			err = fmt.Errorf("panic: %v", r)
		}
	}()
	rc, err := (&content.Operators{Ops: ops}).RawBytes()
	if err != nil {
		return nil, err
	}
	defer rc.Close()
	return io.ReadAll(rc)
}

// cntWriteEach formats every operator by itself (Operator.Format).
func cntWriteEach(ops []content.Operator) ([]byte, error) {
	var buf bytes.Buffer
	for _, op := range ops {
		if err := op.Format(&buf); err != nil {
			return nil, err
		}
	}
	return buf.Bytes(), nil
}

func cntCollect(st content.Stream) (ops []content.Operator, err error) {
	defer func() {
		if r := recover(); r != nil {
			err = fmt.Errorf("panic: %v", r)
		}
	}()
	it := st.NewIter()
	for name, args := range it.All() {
		ops = append(ops, content.Operator{Name: name, Args: append([]pdf.Object(nil), args...)})
	}
	return ops, it.Err()
}

func cntScan(data []byte) ([]content.Operator, error) {
	return cntCollect(content.NewScanner(func() (io.ReadCloser, error) {
		return io.NopCloser(bytes.NewReader(data)), nil
	}))
}

// cntChunkReader delivers data in chunks of random sizes (a fault-free
// io.Reader with arbitrary chunking; the last chunk comes with or without io.EOF).
type cntChunkReader struct {
	data        []byte
	r           *Rand
	mode        int // 0: random sizes, 1: one byte at a time, 2: sizes around the 512-byte window
	eofWithData bool
}

func (c *cntChunkReader) Read(p []byte) (int, error) {
	if len(c.data) == 0 {
		return 0, io.EOF
	}
	if len(p) == 0 {
		return 0, nil
	}
	n := 1
	switch c.mode {
	case 0:
		n = 1 + c.r.Intn(700)
	case 2:
		n = 509 + c.r.Intn(6)
	}
	n = min(n, len(p), len(c.data))
	copy(p, c.data[:n])
	c.data = c.data[n:]
	if len(c.data) == 0 && c.eofWithData {
		return n, io.EOF
	}
	return n, nil
}

func (c *cntChunkReader) Close() error { return nil }

// cntScanChunked scans data through a reader with random chunking.
func cntScanChunked(data []byte, r *Rand) ([]content.Operator, error) {
	return cntCollect(content.NewScanner(func() (io.ReadCloser, error) {
		return &cntChunkReader{data: append([]byte(nil), data...), r: r, mode: r.Intn(3), eofWithData: r.Bool()}, nil
	}))
}

// cntSameScan: the scanner's result must not depend on how the reader chunks the data
// (Props/C15cntu: the buffered leaf operations refine the whole-input model for every chunking).
func cntSameScan(c *Ctx, data []byte, r *Rand) {
	want := cntImplScanLine(data)
	got, err := cntScanChunked(data, r)
	line := "ok " + cntOpsWire(got, true)
	if err != nil {
		line = "err " + err.Error()
	}
	c.Stat("chunked_rescans")
	if line != want {
		c.Violate("chunking", "scanner-chunking", fmt.Sprintf("scanning %q through a chunked reader gives %s, in one piece %s", truncate(string(data)), truncate(line), truncate(want)), hx(data))
	}
}

// cntScanSegments reads several in-memory segments the way a page with a
// Contents array is read (page.SegmentsReader joins them with a newline).
func cntScanSegments(parts [][]content.Operator) ([]content.Operator, error) {
	segs := make([]page.Segment, len(parts))
	for i, p := range parts {
		segs[i] = &content.Operators{Ops: p}
	}
	return cntCollect(content.NewScanner(func() (io.ReadCloser, error) {
		return page.SegmentsReader(segs), nil
	}))
}

func cntOpsEqual(a, b []content.Operator) (bool, string) {
	if len(a) != len(b) {
		return false, fmt.Sprintf("%d operators read, %d written", len(b), len(a))
	}
	for i := range a {
		if a[i].Name != b[i].Name {
			return false, fmt.Sprintf("operator %d: name %q read as %q", i, a[i].Name, b[i].Name)
		}
		if len(a[i].Args) != len(b[i].Args) {
			return false, fmt.Sprintf("operator %d (%s): %d operands read, %d written", i, a[i].Name, len(b[i].Args), len(a[i].Args))
		}
		for j := range a[i].Args {
			if !objEqual(cntNorm(a[i].Args[j]), cntNorm(b[i].Args[j])) {
				return false, fmt.Sprintf("operator %d (%s) operand %d: %s read as %s", i, a[i].Name, j, wireNorm(a[i].Args[j]), wireNorm(b[i].Args[j]))
			}
		}
	}
	return true, ""
}

// ---- domain of the property and hazard classes ----

const (
	cntMaxArgs       = 63   // the scanner drops operators with 64 or more operands
	cntMaxNest       = 256  // maxContentNestDepth
	cntMaxImageNest  = 10   // maxValueDepth
	cntMaxImageBytes = 4096 // maxInlineImageBytes: the limit of PDF 2.0 §8.9.7, with or without a Length key
)

func cntDepth(o pdf.Object) int {
	switch x := o.(type) {
	case pdf.Array:
		d := 0
		for _, e := range x {
			d = max(d, cntDepth(e))
		}
		return d + 1
	case pdf.Dict:
		d := 0
		for _, e := range x {
			d = max(d, cntDepth(e))
		}
		return d + 1
	}
	return 0
}

func cntHasRefOrOp(o pdf.Object) bool {
	switch x := o.(type) {
	case pdf.Reference, pdf.Operator:
		return true
	case pdf.Array:
		for _, e := range x {
			if cntHasRefOrOp(e) {
				return true
			}
		}
	case pdf.Dict:
		for _, e := range x {
			if cntHasRefOrOp(e) {
				return true
			}
		}
	}
	return false
}

func cntLongName(o pdf.Object) bool {
	switch x := o.(type) {
	case pdf.Name:
		return len(x) > 4096
	case pdf.Array:
		for _, e := range x {
			if cntLongName(e) {
				return true
			}
		}
	case pdf.Dict:
		for k, e := range x {
			if len(k) > 4096 || cntLongName(e) {
				return true
			}
		}
	}
	return false
}

// cntFalseEI reports whether the search for the end of inline image data
// (EOL, "EI", then a non-regular byte or the end of the stream) succeeds
// before the real terminator in  data + "\nEI\n".
func cntFalseEI(data []byte) bool {
	s := append(append([]byte{}, data...), []byte("\nEI\n")...)
	for i := 1; i+2 < len(s); i++ {
		if (s[i-1] == '\n' || s[i-1] == '\r') && s[i] == 'E' && s[i+1] == 'I' && !cntIsRegular(s[i+2]) {
			return i != len(data)+1
		}
	}
	return false
}

func cntImageInt(d pdf.Dict, short, full pdf.Name) (int64, bool) {
	v, ok := d[short]
	if !ok {
		v, ok = d[full]
	}
	if !ok || v == nil {
		return 0, false
	}
	switch x := v.(type) {
	case pdf.Integer:
		return int64(x), true
	}
	return 0, false
}

func cntImageFilterASCII(d pdf.Dict) bool {
	v, ok := d["F"]
	if !ok {
		v = d["Filter"]
	}
	var n pdf.Name
	switch x := v.(type) {
	case pdf.Name:
		n = x
	case pdf.Array:
		if len(x) > 0 {
			n, _ = x[len(x)-1].(pdf.Name)
		}
	}
	switch n {
	case "ASCIIHexDecode", "AHx", "ASCII85Decode", "A85":
		return true
	}
	return false
}

func cntHasEmptyArray(o pdf.Object) bool {
	switch x := o.(type) {
	case pdf.Array:
		if x != nil && len(x) == 0 {
			return true
		}
		for _, e := range x {
			if cntHasEmptyArray(e) {
				return true
			}
		}
	case pdf.Dict:
		for _, e := range x {
			if cntHasEmptyArray(e) {
				return true
			}
		}
	}
	return false
}

// cntClassify says whether the property speaks about this operator sequence
// (inDomain) and which of the known hazard classes it contains.
func cntClassify(ops []content.Operator) (inDomain bool, hazards []string) {
	inDomain = true
	hz := map[string]bool{}
	for _, op := range ops {
		switch op.Name {
		case content.OpRawContent:
			// only comments re-read as %raw%: "%" + text without EOL
			if len(op.Args) != 1 {
				inDomain = false
				continue
			}
			s, ok := op.Args[0].(pdf.String)
			if !ok || len(s) == 0 || s[0] != '%' || len(s) > 4096 || bytes.ContainsAny(s, "\r\n") {
				inDomain = false
			}
		case content.OpInlineImage:
			if len(op.Args) != 2 {
				inDomain = false
				continue
			}
			d, ok1 := op.Args[0].(pdf.Dict)
			data, ok2 := op.Args[1].(pdf.String)
			if !ok1 || !ok2 {
				inDomain = false
				continue
			}
			w, okw := cntImageInt(d, "W", "Width")
			h, okh := cntImageInt(d, "H", "Height")
			if !okw || !okh || w <= 0 || h <= 0 || w > 65536 || h > 65536 || w*h > 256*1024 {
				inDomain = false
			}
			for k, v := range d {
				if cntHasRefOrOp(v) || cntLongName(v) || len(k) > 4096 {
					inDomain = false
				}
				if cntDepth(v) > cntMaxImageNest {
					// beyond the reader's defensive limit maxValueDepth (known)
					hz["inline-image-value-nesting-over-cap"] = true
				}
				if nd, ok := v.(pdf.Dict); isNilObj(v) || (ok && nd == nil) {
					hz["inline-image-nil-entry"] = true
				}
				for i := 0; i < len(k); i++ {
					if !cntIsRegular(k[i]) || k[i] == '#' {
						hz["inline-image-key-unescaped"] = true
					}
				}
				if cntHasEmptyArray(v) {
					hz["inline-image-empty-array"] = true
				}
				if _, ok := v.(pdf.Real); ok && (k == "W" || k == "H" || k == "L" || k == "Width" || k == "Height" || k == "Length") {
					inDomain = false
				}
			}
			lv, lPresent := d["L"]
			if !lPresent {
				lv, lPresent = d["Length"]
			}
			search := true
			if lPresent && !isNilObj(lv) {
				li, isInt := lv.(pdf.Integer)
				if !isInt {
					inDomain = false
				} else if li > 0 {
					search = false
					if int64(li) != int64(len(data)) || li > 4096 {
						inDomain = false
					}
				}
			}
			if search {
				if len(data) > cntMaxImageBytes {
					inDomain = false
				}
				if len(data) > cntMaxImageBytes-2 {
					// D-C15-2: the EI search stopped two bytes short of the limit
					hz["inline-image-cap-without-length"] = true
				}
				if cntFalseEI(data) {
					hz["inline-image-EI-in-data"] = true
				}
			}
			if cntImageFilterASCII(d) && len(data) > 0 && (cntIsSpace(data[0]) || data[0] == '%') {
				if search {
					hz["inline-image-ascii-leading-space"] = true
				} else {
					// D-C15-9: with a Length key the data is delimited exactly
					hz["inline-image-ascii-space-with-length"] = true
				}
			}
		default:
			if !cntAdmissibleName(op.Name) || len(op.Args) > cntMaxArgs {
				inDomain = false
			}
			for _, a := range op.Args {
				if cntHasRefOrOp(a) || cntLongName(a) {
					inDomain = false
				}
				if cntDepth(a) > cntMaxNest {
					// beyond the reader's defensive limit maxContentNestDepth (known)
					hz["operand-nesting-over-cap"] = true
				}
			}
		}
	}
	// the two classes which are known findings come first: a failing sequence is
	// attributed to them before it is attributed to a class that was repaired
	// (D16-D18: keys, nil entries, empty arrays), whose failure is a regression
	for _, k := range cntHazardOrder {
		if hz[k] {
			hazards = append(hazards, k)
		}
	}
	return
}

// cntHazardOrder: the classes which are known findings come first.
var cntHazardOrder = []string{
	"inline-image-EI-in-data", "inline-image-ascii-leading-space", "operand-nesting-over-cap", "inline-image-value-nesting-over-cap",
	"inline-image-cap-without-length", "inline-image-ascii-space-with-length",
	"inline-image-key-unescaped", "inline-image-nil-entry", "inline-image-empty-array",
}

// cntAttribute names the hazard class of the first operator of a failing
// sequence which fails on its own (so that a known class elsewhere in the
// sequence does not hide a defect), "" if no single operator fails.
func cntAttribute(ops []content.Operator, fails func([]content.Operator) bool) string {
	for _, op := range ops {
		one := []content.Operator{op}
		if inDomain, hazards := cntClassify(one); inDomain && fails(one) {
			if len(hazards) > 0 {
				return hazards[0]
			}
			return "roundtrip"
		}
	}
	return ""
}

// cntNonNative replaces numbers among the entries of inline image
// dictionaries (top level and nested) by pdf.Number values whose AsPDF image
// is the replaced value; changed reports whether anything was replaced.
func cntNonNative(ops []content.Operator) (out []content.Operator, changed bool) {
	var conv func(o pdf.Object) pdf.Object
	conv = func(o pdf.Object) pdf.Object {
		switch x := o.(type) {
		case pdf.Integer:
			if x > -(1<<53) && x < 1<<53 {
				changed = true
				return pdf.Number(x)
			}
		case pdf.Real:
			f := float64(x)
			if f == f && f-f == 0 && f != float64(int64(f)) && f > -1e15 && f < 1e15 {
				changed = true
				return pdf.Number(f)
			}
		case pdf.Array:
			if x == nil {
				return x
			}
			a := make(pdf.Array, len(x))
			for i, e := range x {
				a[i] = conv(e)
			}
			return a
		case pdf.Dict:
			if x == nil {
				return x
			}
			d := pdf.Dict{}
			for k, v := range x {
				d[k] = conv(v)
			}
			return d
		}
		return o
	}
	out = make([]content.Operator, len(ops))
	for i, op := range ops {
		out[i] = op
		if op.Name == content.OpInlineImage && len(op.Args) == 2 {
			if d, ok := op.Args[0].(pdf.Dict); ok {
				out[i].Args = []pdf.Object{conv(d), op.Args[1]}
			}
		}
	}
	return out, changed
}

// cntEmptyStringNil reports a string which was written as an empty, non-nil
// pdf.String and re-read as pdf.String(nil) (which pdf.Equal, Operator.Equal
// and StreamsEqual tell apart).
func cntEmptyStringNil(want, got pdf.Object) bool {
	switch w := want.(type) {
	case pdf.String:
		g, ok := got.(pdf.String)
		return ok && w != nil && len(w) == 0 && g == nil
	case pdf.Array:
		g, ok := got.(pdf.Array)
		if !ok || len(g) != len(w) {
			return false
		}
		for i := range w {
			if cntEmptyStringNil(w[i], g[i]) {
				return true
			}
		}
	case pdf.Dict:
		g, ok := got.(pdf.Dict)
		if !ok {
			return false
		}
		for k, v := range w {
			if gv, ok := g[k]; ok && cntEmptyStringNil(v, gv) {
				return true
			}
		}
	}
	return false
}

// ---- generators ----

var cntTableOps = []string{
	"q", "Q", "cm", "w", "J", "j", "M", "d", "ri", "i", "gs",
	"m", "l", "c", "v", "y", "h", "re",
	"S", "s", "f", "F", "f*", "B", "B*", "b", "b*", "n", "W", "W*",
	"BT", "ET", "Tc", "Tw", "Tz", "TL", "Tf", "Tr", "Ts", "Td", "TD", "Tm", "T*",
	"Tj", "TJ", "'", "\"", "d0", "d1",
	"CS", "cs", "SC", "SCN", "sc", "scn", "G", "g", "RG", "rg", "K", "k",
	"sh", "Do", "MP", "DP", "BMC", "BDC", "EMC", "BX", "EX", "ID", "EI",
}

var cntOddNames = []string{"foo", "x1", "T**", "a.b", "+x", "1a", "--", "+", "-", ".", "-.", "1.2.3", "nul", "nulll", "truex", "R", "obj", "BIx", "xBI", "E", "I", "EIx", "\\", "a\\b", "#", "#41", "a#", "\x80\xff", "!", "$&", "~", "^_`", "0x1F", "1e5", "Inf", "NaN", "@", "|", "é"}

func cntGenName(r *Rand) content.OpName {
	switch r.Intn(10) {
	case 0, 1, 2, 3, 4, 5:
		return content.OpName(Pick(r, cntTableOps))
	case 6, 7:
		return content.OpName(Pick(r, cntOddNames))
	default:
		n := 1 + r.Intn(6)
		b := make([]byte, n)
		for i := range b {
			for {
				b[i] = byte(r.U64())
				if r.P(3, 4) {
					b[i] = byte(0x21 + r.Intn(0x5e))
				}
				if cntIsRegular(b[i]) {
					break
				}
			}
		}
		return content.OpName(b)
	}
}

// cntGenOperand: operands as in C01 without references and operators.
func cntGenOperand(r *Rand, depth int) pdf.Object {
	for {
		o := genObj(r, depth, false)
		if !cntHasRefOrOp(o) {
			return o
		}
	}
}

func cntNum(r *Rand) pdf.Object {
	if r.Bool() {
		return genInt(r)
	}
	return genReal(r)
}

func cntSmallNum(r *Rand) pdf.Object {
	if r.Bool() {
		return pdf.Integer(r.Intn(200) - 100)
	}
	return pdf.Real(float64(r.Intn(4000)-2000) / 16)
}

func cntNums(r *Rand, n int) []pdf.Object {
	a := make([]pdf.Object, n)
	for i := range a {
		if r.P(1, 6) {
			a[i] = cntNum(r)
		} else {
			a[i] = cntSmallNum(r)
		}
	}
	return a
}

// cntTypedArgs produces operands of the shape the operator expects.
func cntTypedArgs(r *Rand, name string) []pdf.Object {
	switch name {
	case "cm", "Tm", "c", "d1":
		return cntNums(r, 6)
	case "re", "v", "y", "K", "k":
		return cntNums(r, 4)
	case "RG", "rg":
		return cntNums(r, 3)
	case "m", "l", "Td", "TD", "d0":
		return cntNums(r, 2)
	case "w", "J", "j", "M", "i", "Tc", "Tw", "Tz", "TL", "Tr", "Ts", "G", "g":
		return cntNums(r, 1)
	case "d":
		n := r.Intn(4)
		return []pdf.Object{pdf.Array(cntNums(r, n)), cntSmallNum(r)}
	case "ri", "gs", "CS", "cs", "sh", "Do", "MP", "BMC":
		return []pdf.Object{genName(r)}
	case "Tf":
		return []pdf.Object{genName(r), cntSmallNum(r)}
	case "Tj", "'":
		return []pdf.Object{pdf.String(genBytes(r, 30))}
	case "\"":
		return []pdf.Object{cntSmallNum(r), cntSmallNum(r), pdf.String(genBytes(r, 30))}
	case "TJ":
		n := r.Intn(8)
		a := make(pdf.Array, n)
		for i := range a {
			if r.Bool() {
				a[i] = pdf.String(genBytes(r, 10))
			} else {
				a[i] = cntSmallNum(r)
			}
		}
		return []pdf.Object{a}
	case "SC", "sc":
		return cntNums(r, 1+r.Intn(4))
	case "SCN", "scn":
		a := cntNums(r, r.Intn(5))
		if r.Bool() {
			a = append(a, genName(r))
		}
		return a
	case "DP", "BDC":
		if r.Bool() {
			return []pdf.Object{genName(r), genName(r)}
		}
		d := pdf.Dict{}
		for i := r.Intn(4); i > 0; i-- {
			d[genName(r)] = cntGenOperand(r, 2)
		}
		return []pdf.Object{genName(r), d}
	}
	return nil
}

func cntGenImage(r *Rand, hazard bool) content.Operator {
	d := pdf.Dict{}
	w, h := 1+r.Intn(40), 1+r.Intn(40)
	if r.Bool() {
		d["W"] = pdf.Integer(w)
	} else {
		d["Width"] = pdf.Integer(w)
	}
	if r.Bool() {
		d["H"] = pdf.Integer(h)
	} else {
		d["Height"] = pdf.Integer(h)
	}
	if r.P(2, 3) {
		d["BPC"] = pdf.Integer(Pick(r, []int{1, 2, 4, 8}))
	}
	if r.P(2, 3) {
		d["CS"] = Pick(r, []pdf.Object{pdf.Name("G"), pdf.Name("RGB"), pdf.Name("DeviceCMYK"), pdf.Array{pdf.Name("I"), pdf.Name("RGB"), pdf.Integer(3), pdf.String("\x00\x01\x02\xff(\\")}})
	}
	if r.P(1, 3) {
		d["D"] = pdf.Array{pdf.Integer(0), pdf.Integer(1)}
	}
	if r.P(1, 4) {
		d["IM"] = pdf.Boolean(r.Bool())
	}
	if r.P(1, 4) {
		d["I"] = pdf.Boolean(r.Bool())
	}
	if r.P(1, 5) {
		d["DP"] = pdf.Dict{"K": pdf.Integer(-1), "Columns": pdf.Integer(w), "X": pdf.Array{pdf.Array{pdf.Real(0.5)}, pdf.Dict{"Y": pdf.Name("Z")}}}
	}
	ascii := false
	switch r.Intn(8) {
	case 0:
		d["F"] = pdf.Name("AHx")
		ascii = true
	case 1:
		d["Filter"] = pdf.Array{pdf.Name("Fl"), pdf.Name("A85")}
		ascii = true
	case 2:
		d["F"] = pdf.Name("Fl")
	case 3:
		d["F"] = pdf.Array{pdf.Name("A85"), pdf.Name("DCT")}
	}
	// data
	var data []byte
	switch r.Intn(6) {
	case 0:
		data = nil
	case 1:
		data = r.Bytes(r.Intn(60))
	case 2:
		// EI look-alikes which are not terminators
		parts := []string{"EI", "\nEIx", "xEI ", " EI\n", "\rE I", "E\nI", "\nEi ", "EI\n", "\n", "\r", "E", "I", "\nE", "ab"}
		for i := r.Intn(6); i > 0; i-- {
			data = append(data, Pick(r, parts)...)
		}
		for cntFalseEI(data) {
			data = append(data, 'x') // a regular byte after EI defuses a trailing look-alike
			if cntFalseEI(data) {
				data = bytes.ReplaceAll(data, []byte("\nEI"), []byte("\nE_"))
				data = bytes.ReplaceAll(data, []byte("\rEI"), []byte("\rE_"))
			}
		}
	case 3:
		data = bytes.Repeat([]byte{byte(r.U64())}, Pick(r, []int{511, 512, 513, 1000, 4093, 4094, 4095, 4096}))
	default:
		n := r.Intn(40)
		data = make([]byte, n)
		for i := range data {
			data[i] = Pick(r, []byte{'E', 'I', '\n', '\r', ' ', 'x', 0, '>', '~', '%', 'e', 0xff})
		}
		for cntFalseEI(data) {
			i := bytes.Index(data, []byte("EI"))
			data[i] = 'e'
		}
	}
	if ascii {
		// data of an ASCII filter never starts with white space or a comment
		data = append([]byte{'4'}, data...)
		for cntFalseEI(data) {
			i := bytes.Index(data, []byte("EI"))
			data[i] = 'e'
		}
	}
	if r.P(1, 4) && len(data) > 0 && len(data) <= 4096 {
		// PDF 2.0 Length key: the data may then contain anything
		if r.Bool() {
			d["L"] = pdf.Integer(len(data))
		} else {
			d["Length"] = pdf.Integer(len(data))
		}
		if r.Bool() {
			i := r.Intn(len(data) + 1)
			data = append(data[:i:i], append([]byte("\nEI "), data[i:]...)...)
			if len(data) > 4096 {
				data = data[:4096]
			}
			if _, ok := d["L"]; ok {
				d["L"] = pdf.Integer(len(data))
			} else {
				d["Length"] = pdf.Integer(len(data))
			}
		}
	}
	if hazard {
		switch r.Intn(5) {
		case 0: // D11
			delete(d, "L")
			delete(d, "Length")
			i := r.Intn(len(data) + 1)
			ins := Pick(r, []string{"\nEI ", "\rEI\n", "\nEI>", "\nEI\x00", "\nEI/", "\r\nEI\r", "\nEI"})
			if ins == "\nEI" { // at the end of the data: followed by the real EOL
				i = len(data)
			}
			data = append(data[:i:i], append([]byte(ins), data[i:]...)...)
		case 1:
			d[pdf.Name(Pick(r, []string{"A B", "K#41", "a/b", "x(", "", "#"}))] = pdf.Integer(1)
		case 2:
			d["Zz"] = nil
			if r.Bool() {
				d["Aa"] = pdf.Array(nil)
			}
		case 3:
			d["D"] = pdf.Array{}
		case 4:
			d["F"] = pdf.Name("A85")
			data = append([]byte(Pick(r, []string{" ", "\n", "%c\n", "\x00", "\n  ", " \t", "\r\n"})), data...)
			if len(data) > 4096 {
				data = data[:4096]
			}
			if r.Bool() {
				// D-C15-9: the same with a Length key
				delete(d, "Length")
				d["L"] = pdf.Integer(len(data))
			} else if _, ok := d["L"]; ok {
				d["L"] = pdf.Integer(len(data))
			} else if _, ok := d["Length"]; ok {
				d["Length"] = pdf.Integer(len(data))
			}
		}
	}
	return content.Operator{Name: content.OpInlineImage, Args: []pdf.Object{d, pdf.String(data)}}
}

func cntGenOp(r *Rand, images bool) content.Operator {
	switch k := r.Intn(20); {
	case k == 0:
		// comment
		n := r.Intn(20)
		b := []byte{'%'}
		for i := 0; i < n; i++ {
			c := Pick(r, []byte{' ', 'a', '%', '(', ')', '<', '/', '[', 0, 9, 12, 0x80, 'E', 'I', '\\'})
			b = append(b, c)
		}
		return content.Operator{Name: content.OpRawContent, Args: []pdf.Object{pdf.String(b)}}
	case k == 1 && images:
		return cntGenImage(r, false)
	case k < 12:
		n := Pick(r, cntTableOps)
		return content.Operator{Name: content.OpName(n), Args: cntTypedArgs(r, n)}
	default:
		name := cntGenName(r)
		n := r.Intn(5)
		if r.P(1, 30) {
			n = 60 + r.Intn(3)
		}
		args := make([]pdf.Object, n)
		for i := range args {
			args[i] = cntGenOperand(r, r.Intn(4))
		}
		return content.Operator{Name: name, Args: args}
	}
}

func cntGenSeq(r *Rand, maxLen int) []content.Operator {
	n := r.Intn(maxLen + 1)
	ops := make([]content.Operator, n)
	for i := range ops {
		ops[i] = cntGenOp(r, true)
	}
	return ops
}

package main

// Property C05, whole-file level: for every byte string offered as a PDF
// file, opening it (pdf.NewReader; pdf.SequentialScan + FileInfo.MakeReader),
// fetching every cross-referenced object, draining every stream through its
// filter chain and decoding the catalog, the page tree and each page either
// succeeds or returns an error.  It never panics, terminates within a time
// proportional to the input, keeps memory within the documented budgets and
// leaves no goroutine behind.  Checked under all three ErrorHandling modes.
//
// The file has three parts:
//
//   1. the evaluation of one case (c05Walk, c05Eval, c05Judge): the walk runs
//      in its own goroutine under recover() and a watchdog; goroutine count
//      and runtime.MemStats.TotalAlloc are sampled around it;
//   2. the generator (c05Gen and helpers): every case is a pure function of
//      one 64-bit seed, so the replay input is "seed=<n> mode=<m>";
//   3. the run (robC05Run) and the replay entry point (replayC05).
//
// No correspondence lines are emitted; this run is an oracle on the
// implementation only.

import (
	"bytes"
	"compress/zlib"
	"encoding/hex"
	"fmt"
	"hash/fnv"
	"io"
	"regexp"
	"runtime"
	"runtime/debug"
	"sort"
	"strconv"
	"strings"
	"time"

	"seehuhn.de/go/pdf"
	"seehuhn.de/go/pdf/page"
	"seehuhn.de/go/pdf/pagetree"
)

// ---------------------------------------------------------------------------
// 1. evaluation of one case
// ---------------------------------------------------------------------------

const (
	c05MaxObj        = 5000      // object numbers 0..min(N,c05MaxObj)+margin are fetched
	c05ObjMargin     = 8         //
	c05DrainCap      = 64 << 20  // bytes read from one decoded stream
	c05DrainCapTotal = 160 << 20 // bytes read from all decoded streams of one walk
	c05MaxPages      = 1000      // pages decoded in one walk
	c05WalkSoftLimit = 4 * time.Second

	// Watchdog: c05TimeBase + c05TimePerByte*len(input).  Measured on the
	// unchanged library (16 cores, loaded): the slowest case of 60000 took
	// well under a second (see the report), so this is > 20x headroom; the
	// limit only has to separate "terminates" from "does not".
	c05TimeBase    = 25 * time.Second
	c05TimePerByte = 200 * time.Microsecond

	// Allocation budget for one walk (both open paths, all objects, all
	// streams, all pages), compared with the growth of
	// runtime.MemStats.TotalAlloc, i.e. with everything allocated during the
	// walk, not with the peak:
	//
	//	c05AllocBase + c05AllocPerByte*len(input)
	//	  + c05AllocPerStream*streamsDrained + 8*bytesDrained
	//	  + c05AllocPerVisit*len(input)*(objectsFetched + 2*pagesDecoded)
	//
	// The documented budgets are limits.StreamBudget (8 MiB + min(1024*rawLen,
	// 256 MiB) per stream decode) and limits.MaxXRefEntries (8192 + 32*rawLen
	// entries of about 100 bytes); the first two lines dominate both.  The
	// last line accounts for the Reader not caching: every Get parses its
	// object again, so a walk legitimately allocates in proportion to the
	// number of fetches times the size of what they parse.  Largest ratio
	// alloc/budget observed on the unchanged library: see the report (> 4x
	// headroom).  A blow-up worth the name (gigabytes from a few kilobytes)
	// exceeds the budget by an order of magnitude.
	c05AllocBase      = 768 << 20
	c05AllocPerByte   = 4096
	c05AllocPerStream = 16 << 20
	c05AllocPerVisit  = 32

	c05MaxHangs = 3
	c05MaxStack = 64 << 20
)

var c05ModeNames = []string{"recover", "report", "stop"}

func c05ModeValue(mode int) pdf.ReaderErrorHandling {
	switch mode {
	case 1:
		return pdf.ErrorHandlingReport
	case 2:
		return pdf.ErrorHandlingStop
	}
	return pdf.ErrorHandlingRecover
}

// c05Case is one input file together with what the walk needs to know
// about it.
type c05Case struct {
	seed uint64
	kind string // mutation kind (statistics)
	note string // what was done (samples, descriptions)
	data []byte
	pw   string   // password for the reader options
	maxN int      // object numbers 0..maxN are fetched
	gens []uint16 // generations tried for every object number

	baseMax int // highest object number of the unmutated document
}

// c05Outcome is what one walk observed.
type c05Outcome struct {
	newOK, seqOK, mkOK bool
	objs, streams      int
	pages              int
	drained            int64
	nilResult          string // a (nil, nil) style result, "" if none
	panicSite          string // top library frame, "" if no panic
	panicVal           string
	stack              string
	hang               bool
	dur                time.Duration
	alloc              uint64
	leaked             int
	leakInfo           string
	cut                bool // the walk skipped steps after c05WalkSoftLimit
}

// c05Walker carries the counters of one walk; it lives in the walking
// goroutine only.
type c05Walker struct {
	cs    *c05Case
	mode  int
	out   c05Outcome
	start time.Time
}

// late reports that the walk has used up its voluntary time budget.  The
// walk then skips the remaining steps (between library calls), which keeps
// slow but terminating cases from dominating the run; a call that does not
// return is still caught by the watchdog.
func (w *c05Walker) late() bool {
	if time.Since(w.start) > c05WalkSoftLimit {
		w.out.cut = true
		return true
	}
	return false
}

// drain reads a decoded stream to the end (or to the caps) and closes it.
func (w *c05Walker) drain(r pdf.Getter, stm *pdf.Stream) {
	if w.out.drained >= c05DrainCapTotal {
		return
	}
	rc, err := pdf.DecodeStream(r, nil, stm)
	if err != nil {
		return
	}
	if rc == nil {
		w.out.nilResult = "pdf.DecodeStream returned (nil, nil)"
		return
	}
	n, _ := io.Copy(io.Discard, io.LimitReader(rc, c05DrainCap))
	w.out.drained += n
	w.out.streams++
	rc.Close()
}

// walkReader does everything the property names with an opened reader.
func (w *c05Walker) walkReader(r *pdf.Reader) {
	defer r.Close()
	meta := r.GetMeta()
	if meta == nil {
		w.out.nilResult = "Reader.GetMeta returned nil"
		return
	}

	// every object the cross-reference information can know about
	for n := 0; n <= w.cs.maxN && !w.late(); n++ {
		for _, g := range w.cs.gens {
			obj, err := r.Get(pdf.NewReference(uint32(n), g), true)
			if err != nil || obj == nil {
				continue
			}
			w.out.objs++
			if stm, ok := obj.(*pdf.Stream); ok {
				if stm == nil {
					w.out.nilResult = "Reader.Get returned a nil *Stream without error"
					continue
				}
				w.drain(r, stm)
			}
		}
	}

	// catalog, page tree, pages
	if meta.Catalog == nil {
		// only ErrorHandlingRecover documents a non-nil catalog; without
		// one there is no page tree to decode
		return
	}
	x := pdf.NewExtractor(r)
	it := pagetree.NewIterator(r)
	for ref, dict := range it.All() {
		w.out.pages++
		// the dictionary with the inherited attributes, as the iterator
		// hands it out, and the page by reference as in the library's tests
		_, _ = pdf.Decode(pdf.CursorAt(x, nil), dict, page.Decode)
		_, _ = pdf.Decode(pdf.CursorAt(x, nil), ref, page.Decode)
		if w.out.pages >= c05MaxPages || w.late() {
			break
		}
	}
	_ = it.Err
}

func (w *c05Walker) run() {
	data := w.cs.data
	opt := &pdf.ReaderOptions{Password: w.cs.pw, ErrorHandling: c05ModeValue(w.mode)}

	r, err := pdf.NewReader(bytes.NewReader(data), int64(len(data)), opt)
	switch {
	case err == nil && r == nil:
		w.out.nilResult = "pdf.NewReader returned (nil, nil)"
	case err == nil:
		w.out.newOK = true
		w.walkReader(r)
	}

	fi, err := pdf.SequentialScan(bytes.NewReader(data), int64(len(data)))
	switch {
	case err == nil && fi == nil:
		w.out.nilResult = "pdf.SequentialScan returned (nil, nil)"
	case err == nil:
		w.out.seqOK = true
		r2, err := fi.MakeReader(opt)
		switch {
		case err == nil && r2 == nil:
			w.out.nilResult = "FileInfo.MakeReader returned (nil, nil)"
		case err == nil:
			w.out.mkOK = true
			w.walkReader(r2)
		}
	}
}

// c05Walk runs the walk under recover.
func c05Walk(cs *c05Case, mode int) (out c05Outcome) {
	w := &c05Walker{cs: cs, mode: mode, start: time.Now()}
	defer func() {
		out = w.out
		if e := recover(); e != nil {
			st := string(debug.Stack())
			out.panicVal = truncate(fmt.Sprint(e))
			out.stack = st
			out.panicSite = c05PanicSite(st)
		}
	}()
	w.run()
	return
}

var c05SiteClean = regexp.MustCompile(`[^A-Za-z0-9_.()*/\[\]-]`)

// c05PanicSite extracts the function name of the innermost library frame
// below the panic from a debug.Stack trace.
func c05PanicSite(stack string) string {
	lines := strings.Split(stack, "\n")
	start := 0
	for i, l := range lines {
		if strings.HasPrefix(l, "panic(") {
			start = i + 1 // frames above are the deferred function
		}
	}
	first := ""
	for i := start; i < len(lines); i++ {
		l := lines[i]
		if l == "" || l[0] == '\t' || strings.HasPrefix(l, "goroutine ") {
			continue
		}
		fn := l
		if k := strings.LastIndex(fn, "("); k > 0 {
			fn = fn[:k] // drop the argument list
		}
		if first == "" && !strings.HasPrefix(fn, "runtime.") {
			first = fn
		}
		if strings.HasPrefix(fn, "seehuhn.de/go/") {
			fn = strings.TrimPrefix(fn, "seehuhn.de/go/")
			fn = strings.TrimPrefix(fn, "pdf/")
			return c05SiteClean.ReplaceAllString(fn, "_")
		}
		if strings.HasPrefix(fn, "main.") {
			break // below this is the harness
		}
	}
	if first == "" {
		first = "unknown"
	}
	return c05SiteClean.ReplaceAllString(first, "_")
}

// c05Tainted is set once a walker has hung: its goroutine keeps running, so
// allocation and goroutine accounting are no longer attributable to a case.
var c05Tainted bool

func c05TimeLimit(n int) time.Duration {
	return c05TimeBase + time.Duration(n)*c05TimePerByte
}

// c05LibGoroutines counts the goroutines (other than walkers) that have a
// library frame on their stack and describes the first of them.
func c05LibGoroutines() (int, string) {
	buf := make([]byte, 1<<20)
	for {
		n := runtime.Stack(buf, true)
		if n < len(buf) || len(buf) >= 64<<20 {
			buf = buf[:n]
			break
		}
		buf = make([]byte, 2*len(buf))
	}
	count, info := 0, ""
	for _, blk := range strings.Split(string(buf), "\n\n") {
		if !strings.Contains(blk, "seehuhn.de/go/") || strings.Contains(blk, "main.c05Walk") {
			continue
		}
		count++
		if info == "" {
			for _, l := range strings.Split(blk, "\n") {
				if strings.HasPrefix(l, "seehuhn.de/go/") {
					info = l
					if k := strings.LastIndex(info, "("); k > 0 {
						info = info[:k]
					}
					break
				}
			}
		}
	}
	return count, info
}

// c05Eval runs one (case, mode) and takes the measurements.  Cases are
// evaluated one at a time, so the deltas belong to this case.
func c05Eval(cs *c05Case, mode int) c05Outcome {
	before := runtime.NumGoroutine()
	var m0, m1 runtime.MemStats
	runtime.ReadMemStats(&m0)
	done := make(chan c05Outcome, 1)
	t0 := time.Now()
	go func() { done <- c05Walk(cs, mode) }()
	timer := time.NewTimer(c05TimeLimit(len(cs.data)))
	var o c05Outcome
	select {
	case o = <-done:
		timer.Stop()
	case <-timer.C:
		o.hang = true
	}
	o.dur = time.Since(t0)
	runtime.ReadMemStats(&m1)
	o.alloc = m1.TotalAlloc - m0.TotalAlloc
	if o.hang {
		c05Tainted = true
		return o
	}
	if c05Tainted {
		return o
	}
	// all readers are closed; give goroutines up to a second to exit
	deadline := time.Now().Add(time.Second)
	for i := 0; runtime.NumGoroutine() > before && time.Now().Before(deadline); i++ {
		if i < 50 {
			runtime.Gosched()
		} else {
			time.Sleep(time.Millisecond)
		}
	}
	if runtime.NumGoroutine() > before {
		// confirm on the stacks that the extra goroutines are the library's
		if n, info := c05LibGoroutines(); n > 0 {
			o.leaked, o.leakInfo = n, info
		}
	}
	return o
}

func c05AllocBudget(cs *c05Case, o *c05Outcome) uint64 {
	n := uint64(len(cs.data))
	return c05AllocBase + c05AllocPerByte*n + c05AllocPerStream*uint64(o.streams) + 8*uint64(o.drained) +
		c05AllocPerVisit*n*uint64(o.objs+2*o.pages)
}

// c05Finding is one failed clause of the property.
type c05Finding struct{ key, desc string }

// c05Judge applies the oracle to an outcome.
func c05Judge(cs *c05Case, mode int, o *c05Outcome) []c05Finding {
	var fs []c05Finding
	head := fmt.Sprintf("mode=%s kind=%s (%s) len=%d: ", c05ModeNames[mode], cs.kind, cs.note, len(cs.data))
	if o.panicSite != "" {
		fs = append(fs, c05Finding{"C05-panic-" + o.panicSite, head + "panic: " + o.panicVal + " | " + c05ShortStack(o.stack)})
	}
	if o.hang {
		fs = append(fs, c05Finding{"C05-hang", head + fmt.Sprintf("walk did not return within %v", c05TimeLimit(len(cs.data)))})
	}
	if o.nilResult != "" {
		fs = append(fs, c05Finding{"C05-nil-result-without-error", head + o.nilResult})
	}
	if o.leaked > 0 {
		fs = append(fs, c05Finding{"C05-goroutine-leak", head + fmt.Sprintf("%d library goroutine(s) still running after all readers were closed, e.g. in %s", o.leaked, o.leakInfo)})
	}
	if !c05Tainted && !o.hang && o.alloc > c05AllocBudget(cs, o) {
		fs = append(fs, c05Finding{"C05-alloc-blowup", head + fmt.Sprintf("allocated %d bytes, budget %d (streams drained %d, %d bytes)", o.alloc, c05AllocBudget(cs, o), o.streams, o.drained)})
	}
	return fs
}

// c05ShortStack keeps the function names of the innermost frames below the
// panic.
func c05ShortStack(stack string) string {
	lines := strings.Split(stack, "\n")
	start := 0
	for i, l := range lines {
		if strings.HasPrefix(l, "panic(") {
			start = i + 1
		}
	}
	var fr []string
	for i := start; i < len(lines) && len(fr) < 8; i++ {
		l := lines[i]
		if l == "" || l[0] == '\t' || strings.HasPrefix(l, "goroutine ") {
			if l != "" && l[0] == '\t' && len(fr) > 0 {
				// append file:line of the frame
				f := strings.TrimSpace(l)
				if k := strings.LastIndex(f, "/"); k >= 0 {
					f = f[k+1:]
				}
				if k := strings.Index(f, " "); k >= 0 {
					f = f[:k]
				}
				fr[len(fr)-1] += "@" + f
			}
			continue
		}
		if k := strings.LastIndex(l, "("); k > 0 {
			l = l[:k]
		}
		if strings.HasPrefix(l, "main.") {
			break
		}
		fr = append(fr, strings.TrimPrefix(l, "seehuhn.de/go/"))
	}
	return strings.Join(fr, " < ")
}

// ---------------------------------------------------------------------------
// 2. generator
// ---------------------------------------------------------------------------

// 2a. helpers on the bytes of a file

type c05Span struct{ a, b int }

// c05StreamBodies returns the spans between "stream" and "endstream".
func c05StreamBodies(d []byte) []c05Span {
	var out []c05Span
	i := 0
	for i < len(d) {
		k := bytes.Index(d[i:], []byte("stream"))
		if k < 0 {
			break
		}
		k += i
		if k >= 3 && string(d[k-3:k]) == "end" {
			i = k + 6
			continue
		}
		e := bytes.Index(d[k+6:], []byte("endstream"))
		if e < 0 {
			out = append(out, c05Span{k + 6, len(d)})
			break
		}
		out = append(out, c05Span{k + 6, k + 6 + e})
		i = k + 6 + e + 9
	}
	return out
}

func c05InSpans(sp []c05Span, pos int) bool {
	for _, s := range sp {
		if pos >= s.a && pos < s.b {
			return true
		}
	}
	return false
}

var (
	c05TokenRe   = regexp.MustCompile(`<<|>>|\[|\]|/[^\s/\[\]<>()%]*|[+-]?[0-9]+\.?[0-9]*|\b(?:obj|endobj|stream|endstream|R|xref|trailer|startxref|true|false|null|n|f)\b|\([^()]{0,40}\)|<[0-9a-fA-F]{0,64}>|%%EOF|%PDF-[0-9.]+`)
	c05RefRe     = regexp.MustCompile(`([0-9]+) ([0-9]+) R\b`)
	c05ObjRe     = regexp.MustCompile(`(?:^|[\r\n])([0-9]+) ([0-9]+) obj\b`)
	c05SizeRe    = regexp.MustCompile(`/Size\s*([0-9]+)`)
	c05StartRe   = regexp.MustCompile(`startxref\s+([0-9]+)`)
	c05RootRe    = regexp.MustCompile(`/Root\s*([0-9]+ [0-9]+ R)`)
	c05InfoRe    = regexp.MustCompile(`/Info\s*([0-9]+ [0-9]+ R)`)
	c05XRefObjRe = regexp.MustCompile(`(?:^|[\r\n])([0-9]+ [0-9]+ obj\s*<<[^>]{0,200}?/Type\s*/XRef)`)
	c05KeyRe     = regexp.MustCompile(`/(Length|Prev|Size|W|Index|N|First|Filter|DecodeParms|Kids|Parent|Count|Root|Pages|Contents|Info|Type|Columns|Predictor|Colors|BitsPerComponent|XRefStm|Encrypt|ID|Resources|MediaBox|Rotate|Extends|O|U|P|V|R|Annots|ProcSet|Title|Producer|EarlyChange)\b`)
)

// c05Tokens returns the spans of the PDF tokens of d; tokens inside stream
// bodies are left out unless inStreams is set.
func c05Tokens(d []byte, inStreams bool) []c05Span {
	bodies := c05StreamBodies(d)
	var out []c05Span
	for _, m := range c05TokenRe.FindAllIndex(d, -1) {
		if !inStreams && c05InSpans(bodies, m[0]) {
			continue
		}
		out = append(out, c05Span{m[0], m[1]})
	}
	return out
}

func c05IsWS(b byte) bool {
	return b == ' ' || b == '\n' || b == '\r' || b == '\t' || b == 0 || b == '\f'
}

func c05IsDelim(b byte) bool {
	return c05IsWS(b) || strings.IndexByte("/[]<>()%{}", b) >= 0
}

// c05ValueEnd returns the end of the PDF value that starts at or after i
// (white space skipped); good enough for the Writer's output.
func c05ValueEnd(d []byte, i int) int {
	for i < len(d) && c05IsWS(d[i]) {
		i++
	}
	if i >= len(d) {
		return i
	}
	switch {
	case d[i] == '/':
		i++
		for i < len(d) && !c05IsDelim(d[i]) {
			i++
		}
		return i
	case d[i] == '[' || (d[i] == '<' && i+1 < len(d) && d[i+1] == '<'):
		depth := 0
		for i < len(d) {
			switch {
			case d[i] == '[':
				depth++
				i++
			case d[i] == ']':
				depth--
				i++
			case d[i] == '<' && i+1 < len(d) && d[i+1] == '<':
				depth++
				i += 2
			case d[i] == '>' && i+1 < len(d) && d[i+1] == '>':
				depth--
				i += 2
			case d[i] == '(':
				i = c05ValueEnd(d, i)
			default:
				i++
			}
			if depth <= 0 {
				return i
			}
		}
		return i
	case d[i] == '<':
		for i < len(d) && d[i] != '>' {
			i++
		}
		return min(i+1, len(d))
	case d[i] == '(':
		depth := 0
		for i < len(d) {
			switch d[i] {
			case '\\':
				i++
			case '(':
				depth++
			case ')':
				depth--
			}
			i++
			if depth <= 0 {
				return i
			}
		}
		return i
	default:
		j := i
		for j < len(d) && !c05IsDelim(d[j]) {
			j++
		}
		// a reference "n g R"?
		if m := c05RefRe.FindIndex(d[i:min(len(d), i+40)]); m != nil && m[0] == 0 {
			return i + m[1]
		}
		return j
	}
}

// c05Patch replaces d[a:b] by repl.  With keepLen a shorter replacement is
// padded with blanks so that the offsets of what follows stay valid.
func c05Patch(d []byte, a, b int, repl string, keepLen bool) []byte {
	if a < 0 {
		a = 0
	}
	if b > len(d) {
		b = len(d)
	}
	if b < a {
		b = a
	}
	if keepLen && len(repl) < b-a {
		repl += strings.Repeat(" ", b-a-len(repl))
	}
	out := make([]byte, 0, len(d)+len(repl))
	out = append(out, d[:a]...)
	out = append(out, repl...)
	return append(out, d[b:]...)
}

// c05ObjOffsets maps object numbers to the offset of their last "n g obj".
func c05ObjOffsets(d []byte) (offs map[int]int, gens map[int]int, maxNum int) {
	offs, gens = map[int]int{}, map[int]int{}
	for _, m := range c05ObjRe.FindAllSubmatchIndex(d, -1) {
		n, err := strconv.Atoi(string(d[m[2]:m[3]]))
		if err != nil || n > 1<<20 {
			continue
		}
		g, err := strconv.Atoi(string(d[m[4]:m[5]]))
		if err != nil || g > 65535 {
			continue
		}
		offs[n], gens[n] = m[2], g
		maxNum = max(maxNum, n)
	}
	return
}

// c05XRefPos returns the value after the last "startxref", -1 if none.
func c05XRefPos(d []byte) int {
	ms := c05StartRe.FindAllSubmatch(d, -1)
	if len(ms) == 0 {
		return -1
	}
	n, err := strconv.Atoi(string(ms[len(ms)-1][1]))
	if err != nil {
		return -1
	}
	return n
}

// c05LastValue returns the text of the value after the last occurrence of
// "/key" outside stream bodies, "" if there is none.
func c05LastValue(d []byte, key string) string {
	k := bytes.LastIndex(d, []byte("/"+key))
	if k < 0 {
		return ""
	}
	a := k + 1 + len(key)
	if a < len(d) && !c05IsDelim(d[a]) {
		return ""
	}
	b := c05ValueEnd(d, a)
	if b-a > 2000 {
		return ""
	}
	return strings.TrimSpace(string(d[a:b]))
}

// c05Reindex appends a cross-reference table section that lists every
// "n g obj" of d at its current offset, with a trailer that copies /Root,
// /Info, /Encrypt and /ID and names the old cross-reference stream as
// /XRefStm (hybrid file) so that compressed objects stay reachable.  extra
// is put into the trailer dictionary (e.g. a /Prev).  The offset of the new
// section is returned.
func c05Reindex(d []byte, extra string) ([]byte, int) {
	offs, gens, maxNum := c05ObjOffsets(d)
	if maxNum > 20000 {
		maxNum = 20000
	}
	var sb strings.Builder
	if len(d) > 0 && d[len(d)-1] != '\n' {
		sb.WriteByte('\n')
	}
	pos := len(d) + sb.Len()
	fmt.Fprintf(&sb, "xref\n0 %d\n", maxNum+1)
	for i := 0; i <= maxNum; i++ {
		if o, ok := offs[i]; ok && i > 0 {
			fmt.Fprintf(&sb, "%010d %05d n\r\n", o, gens[i])
		} else {
			sb.WriteString("0000000000 65535 f\r\n")
		}
	}
	fmt.Fprintf(&sb, "trailer\n<< /Size %d", maxNum+1)
	if m := c05RootRe.FindAllSubmatch(d, -1); len(m) > 0 {
		fmt.Fprintf(&sb, " /Root %s", m[len(m)-1][1])
	}
	if m := c05InfoRe.FindAllSubmatch(d, -1); len(m) > 0 {
		fmt.Fprintf(&sb, " /Info %s", m[len(m)-1][1])
	}
	for _, key := range []string{"Encrypt", "ID"} {
		if v := c05LastValue(d, key); v != "" {
			fmt.Fprintf(&sb, " /%s %s", key, v)
		}
	}
	if m := c05XRefObjRe.FindAllSubmatchIndex(d, -1); len(m) > 0 {
		fmt.Fprintf(&sb, " /XRefStm %d", m[len(m)-1][2])
	}
	fmt.Fprintf(&sb, " %s >>\nstartxref\n%d\n%%%%EOF\n", extra, pos)
	return append(append([]byte{}, d...), sb.String()...), pos
}

// c05TrailerDictStart returns the offset just after the "<<" of the trailer
// dictionary / cross-reference stream dictionary the last startxref points
// to, -1 if it cannot be found.
func c05TrailerDictStart(d []byte) int {
	p := c05XRefPos(d)
	if p < 0 || p >= len(d) {
		return -1
	}
	from := p
	if bytes.HasPrefix(d[p:], []byte("xref")) {
		k := bytes.Index(d[p:], []byte("trailer"))
		if k < 0 {
			return -1
		}
		from = p + k
	}
	k := bytes.Index(d[from:], []byte("<<"))
	if k < 0 {
		return -1
	}
	return from + k + 2
}

// c05EnclosingObj returns "n g R" for the object whose "n g obj" precedes
// pos most closely, "0 0 R" if there is none.
func c05EnclosingObj(d []byte, pos int) string {
	best := ""
	for _, m := range c05ObjRe.FindAllSubmatchIndex(d[:min(pos, len(d))], -1) {
		best = string(d[m[2]:m[3]]) + " " + string(d[m[4]:m[5]]) + " R"
	}
	if best == "" {
		return "0 0 R"
	}
	return best
}

func c05ZlibFast(data []byte) []byte {
	var b bytes.Buffer
	zw, _ := zlib.NewWriterLevel(&b, zlib.BestSpeed)
	zw.Write(data)
	zw.Close()
	return b.Bytes()
}

func c05Zlib(data []byte) []byte {
	var b bytes.Buffer
	zw := zlib.NewWriter(&b)
	zw.Write(data)
	zw.Close()
	return b.Bytes()
}

// 2b. hostile vocabulary

var c05IntTexts = []string{"0", "-1", "1", "2", "255", "256", "65535", "65536", "16777215", "16777216",
	"2147483647", "2147483648", "-2147483648", "4294967295", "4294967296", "9223372036854775807",
	"9223372036854775808", "-9223372036854775808", "99999999999999999999999", "0000000000000000000000001",
	"1.5", "-0.0", ".", "+", "-", "1e9", "0x10", "1073741824", "1000"}

var c05Ints = []int64{0, -1, 1, 2, 7, 8, 255, 256, 1000, 65535, 65536, 1 << 24, 1<<24 - 1, 1 << 30, 1<<31 - 1, 1 << 31,
	-(1 << 31), 1<<32 - 1, 1 << 32, 1 << 40, 1<<62 - 1, 1<<63 - 1, -(1 << 63)}

var c05FilterNames = []string{"FlateDecode", "LZWDecode", "ASCIIHexDecode", "ASCII85Decode", "RunLengthDecode",
	"CCITTFaxDecode", "DCTDecode", "JBIG2Decode", "JPXDecode", "Crypt", "Foo", "Fl", "AHx", "A85", "LZW", "RL", "CCF", "DCT", ""}

var c05Names = []string{"/Page", "/Pages", "/Catalog", "/XRef", "/ObjStm", "/Font", "/XObject", "/Image", "/Form",
	"/FlateDecode", "/DCTDecode", "/Type", "/Length", "/Kids", "/Parent", "/", "/#", "/#zz", "/A#00B", "/#2F#2f",
	"/Lenght", "/Identity", "/StdCF"}

var c05Keywords = []string{"obj", "endobj", "stream", "endstream", "R", "xref", "trailer", "startxref", "null", "true", "false", "n", "f", "%%EOF"}

func c05Bomb(r *Rand) string {
	n := Pick(r, []int{10, 255, 256, 257, 300, 1000, 5000})
	switch r.Intn(8) {
	case 0:
		return strings.Repeat("[", n)
	case 1:
		return strings.Repeat("<</A", n)
	case 2:
		return strings.Repeat("<<", n)
	case 3:
		return strings.Repeat("(", n)
	case 4:
		return strings.Repeat("[", n) + strings.Repeat("]", n)
	case 5:
		return strings.Repeat("<</A", n) + " 1" + strings.Repeat(">>", n)
	case 6:
		return "<" + strings.Repeat("41", n*4)
	default:
		return "/" + strings.Repeat("N", n*8)
	}
}

// c05FilterText is a hostile value for /Filter.
func c05FilterText(r *Rand, self string) string {
	switch r.Intn(10) {
	case 0:
		return "/" + Pick(r, c05FilterNames)
	case 1:
		n := Pick(r, []int{0, 1, 2, 7, 8, 9, 10, 50, 1000})
		return "[" + strings.Repeat("/FlateDecode ", n) + "]"
	case 2:
		n := 1 + r.Intn(10)
		var sb strings.Builder
		sb.WriteString("[")
		for i := 0; i < n; i++ {
			sb.WriteString("/" + Pick(r, c05FilterNames) + " ")
		}
		return sb.String() + "]"
	case 3:
		return self
	case 4:
		return "[" + self + " " + self + "]"
	case 5:
		return "[/FlateDecode " + Pick(r, c05IntTexts) + " (x) null]"
	case 6:
		return "[/ASCIIHexDecode /FlateDecode]"
	case 7:
		return "[/Crypt /FlateDecode]"
	case 8:
		return "[/FlateDecode /Crypt]"
	default:
		return Pick(r, c05IntTexts)
	}
}

// c05ParmsText is a hostile value for /DecodeParms.
func c05ParmsText(r *Rand, self string) string {
	one := func() string {
		var sb strings.Builder
		sb.WriteString("<<")
		if r.P(3, 4) {
			fmt.Fprintf(&sb, "/Columns %s", Pick(r, []string{"0", "-1", "1", "4", "1073741824", "2147483648", "4611686018427387904", "65536", "(x)"}))
		}
		if r.P(3, 4) {
			fmt.Fprintf(&sb, "/Predictor %s", Pick(r, []string{"0", "1", "2", "3", "10", "11", "12", "13", "14", "15", "16", "-1", "1099511627776"}))
		}
		if r.P(1, 2) {
			fmt.Fprintf(&sb, "/Colors %s", Pick(r, []string{"0", "1", "3", "4", "1000", "2147483648", "-1", "65536"}))
		}
		if r.P(1, 2) {
			fmt.Fprintf(&sb, "/BitsPerComponent %s", Pick(r, []string{"0", "1", "2", "4", "7", "8", "16", "32", "-8", "2147483648"}))
		}
		if r.P(1, 4) {
			fmt.Fprintf(&sb, "/EarlyChange %s", Pick(r, []string{"0", "1", "2", "-1"}))
		}
		if r.P(1, 4) {
			fmt.Fprintf(&sb, "/K %s/Rows %s/BlackIs1 true/EncodedByteAlign true", Pick(r, []string{"0", "-1", "1", "2147483648"}), Pick(r, c05IntTexts))
		}
		if r.P(1, 4) {
			fmt.Fprintf(&sb, "/JBIG2Globals %s", self)
		}
		if r.P(1, 6) {
			fmt.Fprintf(&sb, "/Name %s", Pick(r, []string{"/Identity", "/StdCF", "/Foo", "(x)", "1"}))
		}
		sb.WriteString(">>")
		return sb.String()
	}
	switch r.Intn(6) {
	case 0:
		return "[" + one() + " " + one() + " null]"
	case 1:
		return self
	case 2:
		return Pick(r, []string{"null", "[]", "(x)", "1", "/Name", "[1 2 3]", "[[<<>>]]"})
	default:
		return one()
	}
}

// c05ValueText is a hostile value for the dictionary entry key.  self is the
// enclosing object and refs the references that occur in the file.
func c05ValueText(r *Rand, key, self string, refs []string, xrefPos int) string {
	ref := func() string {
		if len(refs) == 0 || r.P(1, 5) {
			return Pick(r, []string{"0 0 R", "9999 0 R", "1 1 R", "1 65535 R", "1 65536 R", "16777215 0 R", "16777216 0 R", "4294967296 0 R", "99999999999999999999 0 R", "-1 0 R", "1 -1 R"})
		}
		return Pick(r, refs)
	}
	switch key {
	case "Filter":
		return c05FilterText(r, self)
	case "DecodeParms":
		return c05ParmsText(r, self)
	case "W":
		return Pick(r, []string{"[0 0 0]", "[1 2]", "[1 2 1 1]", "[9 0 0]", "[8 8 8]", "[1 2147483648 1]", "[-1 2 1]",
			"[1 9223372036854775807 1]", "[/A /B /C]", "[1 0 0]", "[0 1 0]", "[0 0 1]", "[1 2 0]", "[4 8 8]", "[1 1 1]", "[2 2 2]", "[]", "1", self,
			"[1 4611686018427387904 4611686018427387904]", "[3074457345618258603 3074457345618258603 3074457345618258603]"})
	case "Index":
		return Pick(r, []string{"[0 1]", "[0 16777216]", "[5 1 0 3]", "[-1 5]", "[0 0]", "[16777216 1]", "[0 1 0 1 0 1 0 1]", "[0 1 2]",
			"[0 2147483648]", "[1 9223372036854775807]", "[3 100]", "[0 8192]", "[(a) (b)]", "[]", "7", self, "[0 5000 0 5000 0 5000 0 5000]"})
	case "Kids":
		switch r.Intn(8) {
		case 0:
			return "[" + self + "]"
		case 1:
			return "[" + strings.Repeat(ref()+" ", Pick(r, []int{2, 100, 5000})) + "]"
		case 2:
			return "[" + ref() + " " + self + " " + ref() + "]"
		case 3:
			return "[1 2 (x) /N null [" + ref() + "]]"
		case 4:
			return self
		case 5:
			return "[" + strings.Repeat("[", 300) + ref() + strings.Repeat("]", 300) + "]"
		default:
			return "[" + ref() + " " + ref() + "]"
		}
	case "Prev", "XRefStm":
		if xrefPos >= 0 && r.P(1, 2) {
			return strconv.Itoa(xrefPos + Pick(r, []int{0, 0, 0, 1, -1}))
		}
		return Pick(r, c05IntTexts)
	case "Type":
		return Pick(r, c05Names)
	}
	// generic
	switch r.Intn(12) {
	case 0, 1, 2, 3:
		return Pick(r, c05IntTexts)
	case 4, 5:
		return ref()
	case 6:
		return self
	case 7:
		return Pick(r, []string{"null", "[]", "[1 2 3]", "<<>>", "(str)", "/Name", "true", "<41>"})
	case 8:
		return "[" + strings.Repeat("0 ", Pick(r, []int{100, 10000})) + "]"
	case 9:
		return "[" + strings.Repeat(self+" ", Pick(r, []int{2, 50, 2000})) + "]"
	case 10:
		return c05Bomb(r)
	default:
		return "<</Type" + Pick(r, c05Names) + "/Kids[" + self + "]/Parent " + self + "/Length " + self + ">>"
	}
}

// 2c. base documents

// c05Base builds a valid document with the real Writer.
func c05Base(r *Rand, plain bool) *robDoc {
	for try := 0; try < 4; try++ {
		spec := genDocSpec(r.Fork())
		if plain {
			spec.Human = true
		}
		if try >= 2 {
			spec = robDocSpec{Version: pdf.V1_7, Human: true, NPages: 1, Seed: r.U64()}
		}
		doc, err := buildDoc(spec, nil)
		if err == nil && len(doc.Data) > 0 {
			return doc
		}
	}
	// cannot happen with a working Writer; keep the run alive
	return &robDoc{Data: []byte("%PDF-1.4\n1 0 obj\n<</Type/Catalog/Pages 2 0 R>>\nendobj\n2 0 obj\n<</Type/Pages/Kids[]/Count 0>>\nendobj\ntrailer\n<</Root 1 0 R/Size 3>>\nstartxref\n0\n%%EOF\n")}
}

// c05AllRefs lists the distinct "n g R" texts of d (outside stream bodies).
func c05AllRefs(d []byte) []string {
	bodies := c05StreamBodies(d)
	seen := map[string]bool{}
	var out []string
	for _, m := range c05RefRe.FindAllIndex(d, -1) {
		if c05InSpans(bodies, m[0]) {
			continue
		}
		s := string(d[m[0]:m[1]])
		if !seen[s] {
			seen[s] = true
			out = append(out, s)
		}
	}
	for _, m := range c05ObjRe.FindAllSubmatch(d, -1) {
		s := string(m[1]) + " " + string(m[2]) + " R"
		if !seen[s] {
			seen[s] = true
			out = append(out, s)
		}
	}
	sort.Strings(out)
	return out
}

// 2d. mutation kinds on bytes

// c05MutToken edits one to three tokens.
func c05MutToken(r *Rand, d []byte) ([]byte, string) {
	toks := c05Tokens(d, r.P(1, 8))
	if len(toks) == 0 {
		return append(d, c05Bomb(r)...), "token:append-bomb"
	}
	n := 1 + r.Intn(3)
	picks := make([]int, n)
	for i := range picks {
		picks[i] = r.Intn(len(toks))
	}
	sort.Sort(sort.Reverse(sort.IntSlice(picks)))
	var notes []string
	last := -1
	for _, p := range picks {
		if p == last {
			continue
		}
		last = p
		t := toks[p]
		old := string(d[t.a:t.b])
		var repl string
		op := r.Intn(10)
		switch {
		case op == 0:
			repl = ""
		case op == 1:
			repl = old + " " + old
		case op == 2:
			repl = c05Bomb(r) + " " + old
		case op == 3:
			repl = Pick(r, c05Keywords) + " " + old
		case old[0] == '/':
			repl = Pick(r, c05Names)
		case (old[0] >= '0' && old[0] <= '9') || old[0] == '-' || old[0] == '+':
			repl = Pick(r, c05IntTexts)
			if r.P(1, 4) {
				if v, err := strconv.Atoi(old); err == nil {
					repl = strconv.Itoa(v + Pick(r, []int{-1, 1}))
				}
			}
		case old == "<<" || old == ">>" || old == "[" || old == "]":
			repl = Pick(r, []string{"<<", ">>", "[", "]", "<", ">", "(", ")", "{", "}", ""})
		default:
			repl = Pick(r, c05Keywords)
		}
		d = c05Patch(d, t.a, t.b, repl, r.P(1, 3))
		notes = append(notes, fmt.Sprintf("@%d %q->%q", t.a, truncTo(old, 20), truncTo(repl, 20)))
	}
	return d, "token:" + strings.Join(notes, ",")
}

func truncTo(s string, n int) string {
	if len(s) > n {
		return s[:n] + "…"
	}
	return s
}

// c05MutRewire redirects references so that cycles, self references and
// dangling references appear.
func c05MutRewire(r *Rand, d []byte) ([]byte, string) {
	bodies := c05StreamBodies(d)
	refs := c05AllRefs(d)
	var occ [][]int
	for _, m := range c05RefRe.FindAllIndex(d, -1) {
		if !c05InSpans(bodies, m[0]) {
			occ = append(occ, m)
		}
	}
	if len(occ) == 0 {
		return c05MutToken(r, d)
	}
	root := ""
	if m := c05RootRe.FindSubmatch(d); m != nil {
		root = string(m[1])
	}
	n := 1 + r.Intn(4)
	picks := make([]int, n)
	for i := range picks {
		picks[i] = r.Intn(len(occ))
	}
	sort.Sort(sort.Reverse(sort.IntSlice(picks)))
	var notes []string
	last := -1
	for _, p := range picks {
		if p == last {
			continue
		}
		last = p
		m := occ[p]
		self := c05EnclosingObj(d, m[0])
		var repl string
		switch r.Intn(8) {
		case 0, 1:
			repl = self
		case 2:
			repl = root
		case 3:
			repl = Pick(r, []string{"0 0 R", "9999 0 R", "1 1 R", "2 65535 R", "1 65536 R", "16777215 0 R", "16777216 0 R", "4294967296 0 R"})
		default:
			repl = Pick(r, refs)
		}
		if repl == "" {
			repl = self
		}
		// what does the reference belong to?
		ctx := d[max(0, m[0]-30):m[0]]
		key := ""
		if k := bytes.LastIndexByte(ctx, '/'); k >= 0 {
			key = strings.TrimSpace(string(ctx[k:]))
		}
		d = c05Patch(d, m[0], m[1], repl, true)
		notes = append(notes, fmt.Sprintf("%s in %s -> %s", truncTo(key, 16), self, repl))
	}
	return d, "rewire:" + strings.Join(notes, ",")
}

// c05MutTamper replaces the value of a structural dictionary entry, or
// inserts such an entry.
func c05MutTamper(r *Rand, d []byte) ([]byte, string) {
	bodies := c05StreamBodies(d)
	refs := c05AllRefs(d)
	xp := c05XRefPos(d)
	if r.P(1, 4) {
		// insert an entry into the trailer / xref stream dictionary or
		// into a random dictionary
		at := c05TrailerDictStart(d)
		if at < 0 || r.P(1, 3) {
			var cand []int
			for _, t := range c05Tokens(d, false) {
				if string(d[t.a:t.b]) == "<<" {
					cand = append(cand, t.b)
				}
			}
			if len(cand) == 0 {
				return c05MutToken(r, d)
			}
			at = Pick(r, cand)
		}
		key := Pick(r, []string{"Prev", "Prev", "Prev", "XRefStm", "Index", "W", "Length", "Filter", "DecodeParms", "Extends", "Size", "Encrypt", "Kids", "Parent", "Contents", "Type"})
		self := c05EnclosingObj(d, at)
		val := c05ValueText(r, key, self, refs, xp)
		ins := "/" + key + " " + val + " "
		return c05Patch(d, at, at, ins, false), "tamper:insert " + truncTo(ins, 60) + " in " + self
	}
	var occ [][]int
	for _, m := range c05KeyRe.FindAllSubmatchIndex(d, -1) {
		if !c05InSpans(bodies, m[0]) {
			occ = append(occ, m)
		}
	}
	if len(occ) == 0 {
		return c05MutToken(r, d)
	}
	// structural keys are rarer than /Type etc.; pick the key first
	byKey := map[string][][]int{}
	var keys []string
	for _, m := range occ {
		k := string(d[m[2]:m[3]])
		if byKey[k] == nil {
			keys = append(keys, k)
		}
		byKey[k] = append(byKey[k], m)
	}
	sort.Strings(keys)
	key := Pick(r, keys)
	m := Pick(r, byKey[key])
	a := m[1]
	b := c05ValueEnd(d, a)
	self := c05EnclosingObj(d, a)
	val := c05ValueText(r, key, self, refs, xp)
	old := string(d[a:b])
	sep := ""
	if len(val) > 0 && !c05IsDelim(val[0]) {
		sep = " "
	}
	tail := ""
	if b < len(d) && !c05IsDelim(d[b]) && len(val) > 0 && !c05IsDelim(val[len(val)-1]) {
		tail = " "
	}
	d = c05Patch(d, a, b, sep+val+tail, r.P(1, 2))
	return d, fmt.Sprintf("tamper:/%s %q -> %q in %s", key, truncTo(strings.TrimSpace(old), 30), truncTo(val, 50), self)
}

var c05Marks = []string{"stream\n", "stream\r\n", "endstream", "endobj", "xref", "trailer", "startxref", "%%EOF", ">>", "<<", " obj", "/Length", "/Root"}

// c05StructOffset picks an offset next to a structural keyword.
func c05StructOffset(r *Rand, d []byte) int {
	mark := []byte(Pick(r, c05Marks))
	var pos []int
	for i := 0; ; {
		k := bytes.Index(d[i:], mark)
		if k < 0 {
			break
		}
		pos = append(pos, i+k)
		i += k + 1
	}
	if len(pos) == 0 || r.P(1, 4) {
		return r.Intn(len(d) + 1)
	}
	p := Pick(r, pos) + Pick(r, []int{0, 0, len(mark), len(mark), 1, -1, len(mark) + 1, len(mark) - 1, len(mark) + r.Intn(20)})
	return max(0, min(len(d), p))
}

func c05MutTruncate(r *Rand, d []byte) ([]byte, string) {
	p := c05StructOffset(r, d)
	out := append([]byte{}, d[:p]...)
	note := fmt.Sprintf("truncate:at %d of %d", p, len(d))
	switch r.Intn(5) {
	case 0:
		out = append(out, "\n%%EOF\n"...)
		note += "+EOF"
	case 1:
		// keep the original tail (xref section and startxref)
		if xp := c05XRefPos(d); xp > p && xp < len(d) {
			out = append(out, d[xp:]...)
			note += "+orig-xref"
		}
	case 2:
		if k := bytes.LastIndex(d, []byte("startxref")); k > p {
			out = append(out, d[k:]...)
			note += "+orig-startxref"
		}
	}
	return out, note
}

func c05MutSplice(r *Rand, d []byte, other []byte) ([]byte, string) {
	switch r.Intn(9) {
	case 0: // prefix of one + suffix of the other
		p, q := c05StructOffset(r, d), c05StructOffset(r, other)
		return append(append([]byte{}, d[:p]...), other[q:]...), fmt.Sprintf("splice:a[:%d]+b[%d:]", p, q)
	case 1: // duplicate a region
		p, q := c05StructOffset(r, d), c05StructOffset(r, d)
		if p > q {
			p, q = q, p
		}
		out := append([]byte{}, d[:q]...)
		out = append(out, d[p:q]...)
		return append(out, d[q:]...), fmt.Sprintf("splice:dup[%d:%d]", p, q)
	case 2: // insert random bytes
		p := c05StructOffset(r, d)
		junk := r.Bytes(1 + r.Intn(Pick(r, []int{4, 64, 2000})))
		out := append([]byte{}, d[:p]...)
		out = append(out, junk...)
		return append(out, d[p:]...), fmt.Sprintf("splice:insert %d random bytes at %d", len(junk), p)
	case 3: // overwrite the xref section
		xp := c05XRefPos(d)
		if xp < 0 || xp >= len(d) {
			xp = len(d) / 2
		}
		n := min(len(d)-xp, 1+r.Intn(200))
		out := append([]byte{}, d...)
		copy(out[xp:], r.Bytes(n))
		return out, fmt.Sprintf("splice:overwrite %d bytes of the xref section", n)
	case 4: // startxref value
		ms := c05StartRe.FindAllSubmatchIndex(d, -1)
		if len(ms) == 0 {
			return c05MutTruncate(r, d)
		}
		m := ms[len(ms)-1]
		offs, _, _ := c05ObjOffsets(d)
		var cand []string
		for _, o := range offs {
			cand = append(cand, strconv.Itoa(o))
		}
		sort.Strings(cand)
		cand = append(cand, c05IntTexts...)
		cand = append(cand, strconv.Itoa(len(d)), strconv.Itoa(len(d)-1), strconv.Itoa(m[0]), strconv.Itoa(r.Intn(len(d))))
		v := Pick(r, cand)
		return c05Patch(d, m[2], m[3], v, false), "splice:startxref " + v
	case 5: // garbage before the header (header offset > 0)
		n := Pick(r, []int{1, 10, 1000, 1019, 1020, 1023, 1024, 1025, 5000})
		junk := bytes.Repeat([]byte{Pick(r, []byte{' ', 'x', 0, '\n', '%'})}, n)
		return append(junk, d...), fmt.Sprintf("splice:%d bytes before the header", n)
	case 6: // two files one after the other
		return append(append([]byte{}, d...), other...), "splice:concat"
	case 7: // overwrite a random region with bytes from the other file
		p := r.Intn(len(d) + 1)
		q := r.Intn(len(other) + 1)
		n := min(len(d)-p, len(other)-q, 1+r.Intn(300))
		out := append([]byte{}, d...)
		copy(out[p:], other[q:q+n])
		return out, fmt.Sprintf("splice:overwrite [%d:%d] from b", p, p+n)
	default: // flip a few bytes
		out := append([]byte{}, d...)
		n := 1 + r.Intn(8)
		for i := 0; i < n && len(out) > 0; i++ {
			out[r.Intn(len(out))] = byte(r.U64())
		}
		return out, fmt.Sprintf("splice:%d random byte flips", n)
	}
}

// c05MutPrevLoop builds chains and loops of cross-reference sections.
func c05MutPrevLoop(r *Rand, d []byte) ([]byte, string) {
	xp := c05XRefPos(d)
	switch r.Intn(5) {
	case 0: // valid incremental section on top
		out, _ := c05Reindex(d, fmt.Sprintf("/Prev %d", xp))
		return out, "prev:appended section with /Prev to the original"
	case 1: // appended section pointing to itself
		_, pos := c05Reindex(d, "/Prev 0000000000")
		out, _ := c05Reindex(d, fmt.Sprintf("/Prev %010d", pos))
		return out, "prev:appended section with /Prev to itself"
	case 2: // two sections pointing to each other
		at := c05TrailerDictStart(d)
		if at < 0 {
			break
		}
		d2 := c05Patch(d, at, at, "/Prev 0000000000 ", false)
		_, pos := c05Reindex(d2, fmt.Sprintf("/Prev %d", xp))
		d2 = c05Patch(d, at, at, fmt.Sprintf("/Prev %010d ", pos), false)
		out, _ := c05Reindex(d2, fmt.Sprintf("/Prev %d", xp))
		return out, "prev:two sections with /Prev to each other"
	case 3: // chain of n sections
		n := Pick(r, []int{3, 10, 40})
		out := d
		prev := xp
		for i := 0; i < n; i++ {
			var pos int
			out, pos = c05Reindex(out, fmt.Sprintf("/Prev %d", prev))
			prev = pos
		}
		return out, fmt.Sprintf("prev:chain of %d appended sections", n)
	}
	// original trailer gets /Prev to its own section
	at := c05TrailerDictStart(d)
	if at < 0 || xp < 0 {
		return c05MutTamper(r, d)
	}
	return c05Patch(d, at, at, fmt.Sprintf("/Prev %d ", xp), false), "prev:/Prev to the own section"
}

func c05Garbage(r *Rand) ([]byte, string) {
	switch r.Intn(9) {
	case 0:
		return nil, "garbage:empty"
	case 1:
		return r.Bytes(r.Intn(3000)), "garbage:random bytes"
	case 2:
		return []byte(Pick(r, []string{"%", "%PDF", "%PDF-", "%PDF-1", "%PDF-1.", "%PDF-1.7", "%PDF-1.7\n", "%PDF-9.9\n", "%PDF-2.0\n%%EOF", "%PDF-1.4\nstartxref\n0\n%%EOF\n", "%PDF-1.4 startxref 9", "\n%PDF-1.4\nxref\n", "%PDF-1.4\ntrailer\n<<>>\nstartxref\n9\n%%EOF"})), "garbage:near-empty"
	case 3:
		return append([]byte("%PDF-1.7\n"), r.Bytes(r.Intn(2000))...), "garbage:header+random"
	case 4:
		var sb strings.Builder
		sb.WriteString("%PDF-1." + strconv.Itoa(r.Intn(8)) + "\n")
		n := r.Intn(200)
		for i := 0; i < n; i++ {
			sb.WriteString(Pick(r, robTokens))
			if r.P(1, 6) {
				sb.WriteString(Pick(r, c05Keywords) + "\n")
			}
		}
		return []byte(sb.String()), "garbage:token soup"
	case 5:
		return []byte("%PDF-1.5\n1 0 obj\n" + c05Bomb(r) + "\nendobj\nxref\n0 2\n0000000000 65535 f\r\n0000000009 00000 n\r\ntrailer\n<</Root 1 0 R/Size 2>>\nstartxref\n" + "9999999" + "\n%%EOF\n"), "garbage:bomb object"
	case 6:
		n := 1 + r.Intn(5000)
		return bytes.Repeat([]byte(Pick(r, []string{"\n1 0 obj", "startxref\n", "xref\n", "trailer\n", "%%EOF\n", "\n1 0 obj\n<<>>\nendobj", "stream\n"})), n/4+1), "garbage:repeated keyword"
	case 7:
		return []byte("%PDF-1.4\nstartxref\n" + strings.Repeat("9", r.Intn(40)) + "\n%%EOF"), "garbage:startxref digits"
	default:
		return append(r.Bytes(r.Intn(1100)), "%PDF-1.3\ntrailer<</Root 1 0 R>>\nstartxref\n1\n%%EOF"...), "garbage:late header"
	}
}

// c05NestBomb is a file whose only object nests arrays or dictionaries
// hundreds of thousands deep: without the scanner's depth limit the Go stack overflows.
func c05NestBomb(r *Rand) ([]byte, string) {
	n := Pick(r, []int{400000, 800000})
	unit := Pick(r, []string{"[", "<</A", "[<</K"})
	var sb strings.Builder
	sb.WriteString("%PDF-1.7\n1 0 obj\n")
	sb.WriteString(strings.Repeat(unit, n))
	sb.WriteString("\nendobj\n2 0 obj\n<</Type/Catalog/Pages 1 0 R>>\nendobj\n")
	pos := sb.Len()
	fmt.Fprintf(&sb, "xref\n0 3\n0000000000 65535 f\r\n%010d 00000 n\r\n%010d 00000 n\r\ntrailer\n<</Root 2 0 R/Size 3>>\nstartxref\n%d\n%%%%EOF\n", 9, pos-45, pos)
	d := []byte(sb.String())
	// fix the offset of object 2
	if k := bytes.Index(d, []byte("\n2 0 obj")); k >= 0 {
		tbl := bytes.LastIndex(d, []byte("xref\n0 3\n"))
		copy(d[tbl+9+40:], fmt.Sprintf("%010d", k+1))
	}
	return d, fmt.Sprintf("nestbomb:%d x %q", n, unit)
}

// 2e. hostile documents at the object level, written by the real Writer
//
// A small grammar describes the dictionaries that page.Decode and the
// decoders below it read (resources, fonts, images, colour spaces,
// functions, shadings, patterns, annotations, actions, …).  Objects are
// generated mostly well-typed, with hostile magnitudes, wrong types and
// references that may point anywhere in the file (including back to an
// ancestor), so that cycles occur in every linked structure.  Because the
// Writer serialises the objects, the cross-reference data is consistent for
// every version (tables, xref streams, object streams, encryption).

// entry syntax: "key:kind"; kinds: i small int, I hostile int, n number,
// b bool, S string, N(a|b) name, A<k> array of k numbers, R<tmpl> reference
// to (or direct copy of) an object of the template, L<kind> array of kind,
// C colour space, X anything.
var c05Grammar = map[string]string{
	"page":      "Type=Page | Parent:Rpages MediaBox:A4 CropBox:A4 BleedBox:A4 Resources:Rres Contents:Rcontent Rotate:N(0)|i Annots:LRannot Group:Rgroup Thumb:Rimage B:LRX Dur:n Trans:Rtrans AA:Raa Metadata:Rmeta PieceInfo:Rpiece StructParents:i PZ:n SeparationInfo:Rsep Tabs:N(R|C|S|X) PresSteps:Rnav UserUnit:n VP:LRvp AF:LRfilespec BoxColorInfo:Rbci LastModified:S",
	"res":       " | ExtGState:Dgs ColorSpace:Dcs Pattern:Dpattern Shading:Dshading XObject:Dxobj Font:Dfont Properties:Doc ProcSet:LN(PDF|Text)",
	"content":   "@content | ",
	"image":     "@image Type=XObject,Subtype=Image | Width:i Height:i ColorSpace:C BitsPerComponent:N(8)|i ImageMask:b Mask:Rimage|A2 SMask:Rimage Decode:A2 Interpolate:b Alternates:LRalt Intent:N(Perceptual) Matte:A3 SMaskInData:i Metadata:Rmeta OC:Roc Name:N(Im1) StructParent:i",
	"alt":       " | Image:Rimage DefaultForPrinting:b OC:Roc",
	"form":      "@content Type=XObject,Subtype=Form | BBox:A4 Matrix:A6 Resources:Rres Group:Rgroup Ref:X Metadata:Rmeta PieceInfo:Rpiece OC:Roc StructParent:i LastModified:S FormType:i",
	"xobj":      "",
	"group":     "Type=Group,S=Transparency | CS:C I:b K:b",
	"gs":        "Type=ExtGState | LW:n LC:i LJ:i ML:n D:X RI:N(Perceptual) OP:b op:b OPM:i Font:X BG:Rfunc BG2:Rfunc UCR:Rfunc TR:Rfunc TR2:Rfunc HT:Rht FL:n SM:n SA:b BM:N(Normal|Multiply) SMask:Rsmask CA:n ca:n AIS:b TK:b UseBlackPtComp:N(ON)",
	"smask":     "Type=Mask,S=Alpha;Type=Mask,S=Luminosity | G:Rform BC:A3 TR:Rfunc",
	"ht":        "Type=Halftone,HalftoneType=1;Type=Halftone,HalftoneType=5;@image Type=Halftone,HalftoneType=6;@image Type=Halftone,HalftoneType=10;@image Type=Halftone,HalftoneType=16 | Frequency:n Angle:n SpotFunction:Rfunc|N(Round) TransferFunction:Rfunc Default:Rht Gray:Rht Width:i Height:i Xsquare:i Ysquare:i Width2:i Height2:i",
	"func":      "@samples FunctionType=0;FunctionType=2;FunctionType=3;@ps FunctionType=4 | Domain:A2 Range:A2 Size:Li BitsPerSample:N(8)|i Order:i Encode:A2 Decode:A2 C0:A3 C1:A3 N:n Functions:LRfunc Bounds:Ln",
	"shading":   "ShadingType=1;ShadingType=2;ShadingType=3;@samples ShadingType=4;@samples ShadingType=5;@samples ShadingType=6;@samples ShadingType=7 | ColorSpace:C Background:A3 BBox:A4 AntiAlias:b Domain:A4 Matrix:A6 Function:Rfunc|LRfunc Coords:A6 Extend:Lb BitsPerCoordinate:N(8)|i BitsPerComponent:N(8)|i BitsPerFlag:N(8)|i Decode:A6 VerticesPerRow:i",
	"pattern":   "@content Type=Pattern,PatternType=1;Type=Pattern,PatternType=2 | PaintType:i TilingType:i BBox:A4 XStep:n YStep:n Resources:Rres Matrix:A6 Shading:Rshading ExtGState:Rgs",
	"font":      "Type=Font,Subtype=Type1;Type=Font,Subtype=TrueType;Type=Font,Subtype=Type0;Type=Font,Subtype=Type3;Type=Font,Subtype=MMType1 | BaseFont:N(Helvetica|Times-Roman|ABCDEF+Foo|Symbol) Name:N(F1) FirstChar:i LastChar:i Widths:Ln FontDescriptor:Rfd Encoding:N(WinAnsiEncoding|Identity-H|MacRomanEncoding|Foo)|Renc|Rcmap ToUnicode:Rcmap DescendantFonts:LRcidfont FontBBox:A4 FontMatrix:A6 CharProcs:Dcontent Resources:Rres",
	"cidfont":   "Type=Font,Subtype=CIDFontType0;Type=Font,Subtype=CIDFontType2 | BaseFont:N(ABCDEF+Foo) CIDSystemInfo:Rcsi FontDescriptor:Rfd DW:i W:X DW2:A2 W2:X CIDToGIDMap:N(Identity)|Rfontfile",
	"csi":       " | Registry:S Ordering:S Supplement:i",
	"fd":        "Type=FontDescriptor | FontName:N(ABCDEF+Foo|Helvetica) FontFamily:S FontStretch:N(Normal) FontWeight:i Flags:i FontBBox:A4 ItalicAngle:n Ascent:n Descent:n Leading:n CapHeight:n XHeight:n StemV:n StemH:n AvgWidth:n MaxWidth:n MissingWidth:n FontFile:Rfontfile FontFile2:Rfontfile FontFile3:Rfontfile CharSet:S CIDSet:Rfontfile",
	"fontfile":  "@fontfile  | Length1:i Length2:i Length3:i Subtype:N(Type1C|CIDFontType0C|OpenType)",
	"enc":       "Type=Encoding | BaseEncoding:N(WinAnsiEncoding|MacRomanEncoding|MacExpertEncoding|Foo) Differences:X",
	"cmap":      "@cmap Type=CMap | CMapName:N(Foo) CIDSystemInfo:Rcsi WMode:i UseCMap:Rcmap|N(Identity-H)",
	"annot":     "Type=Annot,Subtype=Link;Type=Annot,Subtype=Text;Type=Annot,Subtype=Widget;Type=Annot,Subtype=Popup;Type=Annot,Subtype=FreeText;Type=Annot,Subtype=Square;Type=Annot,Subtype=Highlight;Type=Annot,Subtype=Stamp;Type=Annot,Subtype=Ink;Type=Annot,Subtype=FileAttachment | Rect:A4 Contents:S P:Rpage NM:S M:S F:i AP:Rap AS:N(On|Off) Border:A3 C:A3 StructParent:i OC:Roc A:Raction Dest:X Popup:Rannot Parent:Rannot IRT:Rannot QuadPoints:Ln InkList:X FS:Rfilespec AA:Raa BS:X MK:X DA:S Subj:S RC:S CA:n T:S FT:N(Tx|Btn|Ch|Sig) Kids:LRannot V:X Open:b Name:N(Comment) H:N(I) PA:Raction L:A4 Vertices:Ln",
	"ap":        " | N:Rform|Dform R:Rform D:Dform",
	"action":    "Type=Action,S=GoTo;Type=Action,S=URI;S=Named;S=JavaScript;S=Launch;S=GoToR;S=Hide;S=SubmitForm;S=SetOCGState;S=Thread;S=Sound;S=Movie;S=Rendition;S=Trans;S=GoTo3DView;S=ImportData;S=ResetForm;S=GoToE | Next:Raction|LRaction D:X URI:S N:N(NextPage) JS:S|Rcontent F:Rfilespec|S T:X H:b IsMap:b NewWindow:b Fields:X Flags:i State:X Trans:Rtrans",
	"aa":        " | O:Raction C:Raction E:Raction X:Raction D:Raction U:Raction Fo:Raction Bl:Raction PO:Raction PC:Raction PV:Raction PI:Raction",
	"nav":       "Type=NavNode | NA:Raction PA:Raction Next:Rnav Prev:Rnav Dur:n",
	"trans":     "Type=Trans | S:N(Split|Blinds|Box|Wipe|Dissolve|Glitter|R|Fly|Push|Cover|Uncover|Fade|Foo) D:n Dm:N(H|V) M:N(I|O) Di:i|N(None) SS:n B:b",
	"filespec":  "Type=Filespec | FS:N(URL) F:S UF:S DOS:S EF:Ref RF:X Desc:S CI:X V:b AFRelationship:N(Source) Thumb:Rimage EP:X ID:X",
	"ef":        " | F:Rembedded UF:Rembedded",
	"embedded":  "@random Type=EmbeddedFile | Subtype:N(text#2Fplain) Params:X",
	"meta":      "@xml Type=Metadata,Subtype=XML | ",
	"piece":     " | Foo:Rpiecedata Bar:Rpiecedata",
	"piecedata": " | LastModified:S Private:X",
	"sep":       " | Pages:LRpage DeviceColorant:N(Cyan)|S ColorSpace:C",
	"vp":        "Type=Viewport | BBox:A4 Name:S Measure:Rmeasure PtData:X",
	"measure":   "Type=Measure,Subtype=RL;Type=Measure,Subtype=GEO | R:S X:LRnumfmt Y:LRnumfmt D:LRnumfmt A:LRnumfmt T:LRnumfmt S:LRnumfmt O:A2 CYX:n Bounds:Ln GPTS:Ln LPTS:Ln GCS:X DCS:X PDU:X",
	"numfmt":    "Type=NumberFormat | U:S C:n F:N(D|F|R|T) D:i FD:b RT:S RD:S PS:S SS:S O:N(S|P)",
	"bci":       " | CropBox:Rboxstyle BleedBox:Rboxstyle TrimBox:Rboxstyle ArtBox:Rboxstyle",
	"boxstyle":  " | C:A3 W:n S:N(S|D) D:Ln",
	"oc":        "Type=OCG;Type=OCMD | Name:S Intent:N(View|Design)|LN(View) Usage:X OCGs:Roc|LRoc P:N(AllOn|AnyOn|AnyOff|AllOff) VE:X",
	"icc":       "@icc  | N:N(3)|i Alternate:C Range:A6 Metadata:Rmeta",
	"lookup":    "@random  | ",
	"pages":     "",
}

var c05DictOf = map[string]string{"gs": "gs", "cs": "", "pattern": "pattern", "shading": "shading", "xobj": "", "font": "font", "oc": "oc", "content": "content", "form": "form"}

type c05Alt struct {
	stream string
	fixed  [][2]string
}

type c05Entry struct {
	key   string
	kinds []string
}

type c05Template struct {
	alts    []c05Alt
	entries []c05Entry
}

var c05Templates = map[string]*c05Template{}

func init() {
	for name, spec := range c05Grammar {
		t := &c05Template{}
		parts := strings.SplitN(spec, "|", 2)
		if len(parts) == 2 {
			for _, alt := range strings.Split(parts[0], ";") {
				a := c05Alt{}
				for _, f := range strings.Fields(alt) {
					if f[0] == '@' {
						a.stream = f[1:]
						continue
					}
					for _, kv := range strings.Split(f, ",") {
						p := strings.SplitN(kv, "=", 2)
						a.fixed = append(a.fixed, [2]string{p[0], p[1]})
					}
				}
				t.alts = append(t.alts, a)
			}
			for _, f := range strings.Fields(parts[1]) {
				p := strings.SplitN(f, ":", 2)
				t.entries = append(t.entries, c05Entry{p[0], c05SplitKinds(p[1])})
			}
		}
		if len(t.alts) == 0 {
			t.alts = []c05Alt{{}}
		}
		c05Templates[name] = t
	}
}

// c05SplitKinds splits "N(a|b)|i" at the top-level bars.
func c05SplitKinds(s string) []string {
	var out []string
	depth, start := 0, 0
	for i := 0; i < len(s); i++ {
		switch s[i] {
		case '(':
			depth++
		case ')':
			depth--
		case '|':
			if depth == 0 {
				out = append(out, s[start:i])
				start = i + 1
			}
		}
	}
	return append(out, s[start:])
}

type c05ObjSlot struct {
	ref  pdf.Reference
	tmpl string
	obj  pdf.Object
}

type c05Builder struct {
	r      *Rand
	w      *pdf.Writer
	slots  []*c05ObjSlot
	byTmpl map[string][]int
	queue  []int
	budget int // number of objects still to be allocated
	bombs  int // decompression bombs still allowed
}

func (b *c05Builder) alloc(tmpl string) *c05ObjSlot {
	s := &c05ObjSlot{ref: b.w.Alloc(), tmpl: tmpl}
	b.slots = append(b.slots, s)
	b.byTmpl[tmpl] = append(b.byTmpl[tmpl], len(b.slots)-1)
	b.queue = append(b.queue, len(b.slots)-1)
	b.budget--
	return s
}

// ref returns a reference to an object of the template: an existing one
// (possibly an ancestor of the object being built: a cycle), any object at
// all, or a new one.
func (b *c05Builder) ref(tmpl string) pdf.Reference {
	r := b.r
	have := b.byTmpl[tmpl]
	switch {
	case len(b.slots) > 0 && r.P(1, 12):
		return Pick(r, b.slots).ref
	case len(have) > 0 && (b.budget <= 0 || r.P(1, 2)):
		return b.slots[Pick(r, have)].ref
	case b.budget > 0:
		return b.alloc(tmpl).ref
	case len(b.slots) > 0:
		return Pick(r, b.slots).ref
	}
	return 0
}

func (b *c05Builder) hostileInt() pdf.Integer { return pdf.Integer(Pick(b.r, c05Ints)) }

func (b *c05Builder) num() pdf.Object {
	r := b.r
	switch r.Intn(12) {
	case 0:
		return b.hostileInt()
	case 1:
		return pdf.Real(Pick(r, []float64{0, -1, 1e-30, 1e30, -1e30, 3.4e38, 1.7e308, 0.5}))
	case 2, 3:
		return pdf.Real(float64(r.Intn(2000)) / 10)
	default:
		return pdf.Integer(r.Intn(1000))
	}
}

func (b *c05Builder) soup(depth int) pdf.Object {
	r := b.r
	switch r.Intn(12) {
	case 0:
		return b.hostileInt()
	case 1:
		return b.num()
	case 2:
		return pdf.Name(strings.TrimPrefix(Pick(r, c05Names), "/"))
	case 3:
		return pdf.String(r.Bytes(r.Intn(20)))
	case 4:
		return pdf.Boolean(r.Bool())
	case 5:
		return nil
	case 6, 7:
		if len(b.slots) > 0 {
			return Pick(r, b.slots).ref
		}
		return pdf.Integer(0)
	case 8, 9:
		if depth > 3 {
			return pdf.Integer(1)
		}
		n := r.Intn(5)
		a := make(pdf.Array, n)
		for i := range a {
			a[i] = b.soup(depth + 1)
		}
		return a
	default:
		if depth > 3 {
			return pdf.Name("X")
		}
		d := pdf.Dict{}
		for i := r.Intn(4); i > 0; i-- {
			d[pdf.Name(Pick(r, []string{"Type", "Subtype", "S", "Next", "Kids", "Parent", "First", "Last", "Count", "D", "A", "K", "P", "Length", "Filter", "N", "R"}))] = b.soup(depth + 1)
		}
		return d
	}
}

func (b *c05Builder) colorSpace(depth int) pdf.Object {
	r := b.r
	if depth > 4 {
		return pdf.Name("DeviceGray")
	}
	fn := func() pdf.Object { return b.gen("Rfunc", depth+1) }
	switch r.Intn(14) {
	case 0, 1:
		return pdf.Name(Pick(r, []string{"DeviceGray", "DeviceRGB", "DeviceCMYK", "Pattern", "G", "RGB", "CMYK", "Foo"}))
	case 2, 3:
		return pdf.Array{pdf.Name("ICCBased"), b.ref("icc")}
	case 4:
		return pdf.Array{pdf.Name("Indexed"), b.colorSpace(depth + 1), Pick(r, []pdf.Object{pdf.Integer(255), pdf.Integer(1), b.hostileInt()}),
			Pick(r, []pdf.Object{pdf.String(r.Bytes(r.Intn(800))), b.ref("lookup")})}
	case 5:
		return pdf.Array{pdf.Name("Separation"), pdf.Name(Pick(r, []string{"All", "None", "Spot"})), b.colorSpace(depth + 1), fn()}
	case 6:
		n := Pick(r, []int{1, 2, 4, 32, 33, 300})
		names := make(pdf.Array, n)
		for i := range names {
			names[i] = pdf.Name(fmt.Sprintf("C%d", i))
		}
		return pdf.Array{pdf.Name("DeviceN"), names, b.colorSpace(depth + 1), fn(), b.soup(2)}
	case 7:
		return pdf.Array{pdf.Name("CalGray"), pdf.Dict{"WhitePoint": b.gen("A3", depth), "Gamma": b.num()}}
	case 8:
		return pdf.Array{pdf.Name("CalRGB"), pdf.Dict{"WhitePoint": b.gen("A3", depth), "Gamma": b.gen("A3", depth), "Matrix": b.gen("A9", depth)}}
	case 9:
		return pdf.Array{pdf.Name("Lab"), pdf.Dict{"WhitePoint": b.gen("A3", depth), "Range": b.gen("A4", depth)}}
	case 10:
		return pdf.Array{pdf.Name("Pattern"), b.colorSpace(depth + 1)}
	default:
		return b.ref("cs")
	}
}

// gen produces a value of the given kind.
func (b *c05Builder) gen(kind string, depth int) pdf.Object {
	r := b.r
	if r.P(1, 30) {
		return b.soup(depth)
	}
	switch {
	case kind == "i":
		if r.P(1, 5) {
			return b.hostileInt()
		}
		return pdf.Integer(Pick(r, []int{0, 1, 1, 2, 3, 4, 8, 16, 32, 90, 100, 255}))
	case kind == "I":
		return b.hostileInt()
	case kind == "n":
		return b.num()
	case kind == "b":
		return pdf.Boolean(r.Bool())
	case kind == "S":
		return pdf.String(Pick(r, []string{"", "D:20240101120000Z", "D:9999", "text", "\xfe\xff\x00A\xd8\x00", "\xef\xbb\xbfutf8", "(((", strings.Repeat("A", 400)}))
	case kind == "X":
		return b.soup(depth)
	case kind == "C":
		return b.colorSpace(depth)
	case kind[0] == 'N':
		opts := strings.Split(kind[2:len(kind)-1], "|")
		if s := Pick(r, opts); s != "0" {
			return pdf.Name(s)
		}
		return pdf.Integer(90 * r.Intn(5))
	case kind[0] == 'A':
		k, _ := strconv.Atoi(kind[1:])
		if r.P(1, 10) {
			k = Pick(r, []int{0, 1, k - 1, k + 1, 100})
		}
		a := make(pdf.Array, max(k, 0))
		for i := range a {
			a[i] = b.num()
		}
		return a
	case kind[0] == 'L':
		n := Pick(r, []int{0, 1, 1, 2, 2, 3, 5, 40})
		if r.P(1, 60) && depth < 2 {
			n = 400
		}
		a := make(pdf.Array, n)
		for i := range a {
			a[i] = b.gen(kind[1:], depth+1)
		}
		return a
	case kind[0] == 'R':
		tmpl := kind[1:]
		if tmpl == "X" {
			return b.soup(depth)
		}
		if depth < 3 && r.P(1, 5) && c05Templates[tmpl] != nil && tmpl != "pages" && tmpl != "page" {
			if obj := b.build(tmpl, depth+1); obj != nil {
				if _, isStream := obj.(*pdf.Stream); !isStream {
					return obj
				}
			}
		}
		return b.ref(tmpl)
	case kind[0] == 'D':
		// a resource dictionary category: name -> object
		sub := kind[1:]
		d := pdf.Dict{}
		for i := r.Intn(4); i > 0; i-- {
			name := pdf.Name(fmt.Sprintf("%s%d", strings.ToUpper(sub[:1]), i))
			switch sub {
			case "cs":
				d[name] = b.colorSpace(depth + 1)
			case "xobj":
				d[name] = b.ref(Pick(r, []string{"image", "form"}))
			default:
				d[name] = b.gen("R"+sub, depth+1)
			}
		}
		return d
	}
	return nil
}

// streamData produces the raw (unfiltered) data of a stream of the kind.
func (b *c05Builder) streamData(kind string) []byte {
	r := b.r
	switch kind {
	case "content":
		var sb strings.Builder
		for i := r.Intn(30); i > 0; i-- {
			sb.WriteString(Pick(r, []string{"q ", "Q ", "BT ", "ET ", "/F1 12 Tf ", "(Hello) Tj ", "[(a) -100 (b)] TJ ", "1 0 0 1 10 10 cm ", "0 0 100 100 re f ",
				"/Im1 Do ", "/F2 Do ", "/G1 gs ", "/C1 cs 1 scn ", "/P1 scn ", "/S1 sh ", "BI /W 4 /H 4 /BPC 8 /CS /G ID abcdabcdabcdabcd EI ", "BI /W 99999 /H 99999 ID x EI ",
				"/OC /O1 BDC ", "EMC ", "0 0 m 1 1 l S ", "99999999999999999999 w ", "[", "<<", "(", "% c\n", "d0 ", "1 2 3 4 5 6 d1 ", "BX ", "\x00\xff"}))
		}
		return []byte(sb.String())
	case "image":
		return r.Bytes(Pick(r, []int{0, 1, 16, 64, 256, 3000}))
	case "samples":
		return r.Bytes(Pick(r, []int{0, 1, 3, 16, 200, 2000}))
	case "ps":
		return []byte(Pick(r, []string{"{ dup mul }", "{ 1 exch sub }", "{", "{ { { { } } } }", "{ 0 1 10000000 { pop } for }", "{ 1 0 div }", "{ " + strings.Repeat("{ ", 500) + "}",
			"{ 2 copy exch pop 100000 1 roll }", "{ 1 2 ifelse }", "{ true { 1 } { 2 } ifelse }", "{ -1 copy }", "{ 99999999999 index }", "{ 3 -1000000000 roll }", ""}))
	case "icc":
		d := r.Bytes(Pick(r, []int{0, 40, 128, 500}))
		if len(d) >= 40 {
			copy(d[36:], "acsp")
			copy(d[0:], []byte{0, 0, byte(len(d) >> 8), byte(len(d))})
		}
		return d
	case "fontfile":
		switch r.Intn(5) {
		case 0:
			return append([]byte("%!PS-AdobeFont-1.0: Foo\n/FontName /Foo def\ncurrentfile eexec\n"), r.Bytes(r.Intn(300))...)
		case 1:
			return append([]byte{0, 1, 0, 0, 0, byte(r.Intn(40)), 0, 0, 0, 0, 0, 0}, r.Bytes(r.Intn(600))...)
		case 2:
			return append([]byte("OTTO\x00\x04"), r.Bytes(r.Intn(600))...)
		case 3:
			return append([]byte{1, 0, 4, byte(1 + r.Intn(4))}, r.Bytes(r.Intn(600))...)
		}
		return r.Bytes(r.Intn(600))
	case "cmap":
		return []byte(Pick(r, []string{
			"/CIDInit /ProcSet findresource begin 12 dict begin begincmap /CMapName /Foo def 1 begincodespacerange <00> <FF> endcodespacerange 1 beginbfrange <00> <FF> <0041> endbfrange endcmap end end",
			"1 begincodespacerange <00000000> <FFFFFFFF> endcodespacerange 1 begincidrange <00000000> <FFFFFFFF> 0 endcidrange",
			"1 begincodespacerange <0000> <FFFF> endcodespacerange 1 beginbfrange <0000> <FFFF> [" + strings.Repeat("<0041> ", 300) + "] endbfrange",
			"100000 beginbfchar <00> <0041> endbfchar", "begincmap " + strings.Repeat("[", 400), "/Foo usecmap", "",
			"1 begincodespacerange <> <> endcodespacerange 1 beginbfchar <> <> endbfchar"}))
	case "xml":
		return []byte(Pick(r, []string{"<?xpacket begin='' id='W5M0MpCehiHzreSzNTczkc9d'?><x:xmpmeta xmlns:x='adobe:ns:meta/'><rdf:RDF xmlns:rdf='http://www.w3.org/1999/02/22-rdf-syntax-ns#'><rdf:Description rdf:about='' xmlns:dc='http://purl.org/dc/elements/1.1/'><dc:format>application/pdf</dc:format></rdf:Description></rdf:RDF></x:xmpmeta><?xpacket end='w'?>",
			"<a>" + strings.Repeat("<b>", 2000), "<!DOCTYPE x [<!ENTITY a 'aaaaaaaaaa'><!ENTITY b '&a;&a;&a;&a;&a;&a;&a;&a;'><!ENTITY c '&b;&b;&b;&b;&b;&b;&b;&b;'>]><x>&c;&c;&c;</x>", "", "\xff\xfe<\x00"}))
	}
	return r.Bytes(r.Intn(500))
}

// stream wraps data into a stream object with an (often hostile) filter
// chain.  The data is encoded to match the first filter when that is easy.
func (b *c05Builder) stream(d pdf.Dict, data []byte) *pdf.Stream {
	r := b.r
	switch r.Intn(10) {
	case 0, 1, 2: // no filter
	case 3, 4: // valid flate
		d["Filter"] = pdf.Name("FlateDecode")
		data = c05Zlib(data)
	case 5: // flate with hostile predictor parameters
		d["Filter"] = pdf.Name("FlateDecode")
		d["DecodeParms"] = pdf.Dict{"Predictor": Pick(r, []pdf.Object{pdf.Integer(2), pdf.Integer(10), pdf.Integer(12), pdf.Integer(15), b.hostileInt()}),
			"Columns":          Pick(r, []pdf.Object{pdf.Integer(1), pdf.Integer(4), pdf.Integer(1 << 30), b.hostileInt()}),
			"Colors":           Pick(r, []pdf.Object{pdf.Integer(1), pdf.Integer(3), pdf.Integer(1000), b.hostileInt()}),
			"BitsPerComponent": Pick(r, []pdf.Object{pdf.Integer(8), pdf.Integer(1), pdf.Integer(16), b.hostileInt()})}
		data = c05Zlib(data)
	case 6: // decompression bomb (bounded so that the run stays fast)
		if b.bombs > 0 {
			b.bombs--
			n := Pick(r, []int{1 << 20, 4 << 20, 16 << 20})
			data = c05Zlib(make([]byte, n))
			d["Filter"] = pdf.Name("FlateDecode")
			if r.P(1, 3) {
				data = c05Zlib(data)
				d["Filter"] = pdf.Array{pdf.Name("FlateDecode"), pdf.Name("FlateDecode")}
			}
		}
	case 7: // chain of text filters around flate, correctly encoded
		d["Filter"] = pdf.Array{pdf.Name("ASCIIHexDecode"), pdf.Name("FlateDecode")}
		data = []byte(hex.EncodeToString(c05Zlib(data)) + ">")
	default: // hostile names, lengths and parameters on unmatched data
		n := Pick(r, []int{1, 1, 2, 3, 8, 9, 12})
		fa := make(pdf.Array, n)
		pa := make(pdf.Array, n)
		for i := range fa {
			fa[i] = pdf.Name(Pick(r, c05FilterNames))
			if r.P(1, 2) {
				pa[i] = pdf.Dict{"Columns": b.hostileInt(), "Predictor": pdf.Integer(Pick(r, []int{1, 2, 10, 12, 15})), "K": b.hostileInt(), "Rows": b.hostileInt(),
					"Colors": b.gen("i", 3), "BitsPerComponent": b.gen("i", 3), "EarlyChange": b.gen("i", 3), "ColorTransform": b.gen("i", 3),
					"JBIG2Globals": b.ref("lookup"), "Name": pdf.Name(Pick(r, []string{"Identity", "StdCF", "Foo"}))}
			}
		}
		if n == 1 && r.P(1, 2) {
			d["Filter"], d["DecodeParms"] = fa[0], pa[0]
		} else {
			d["Filter"], d["DecodeParms"] = fa, pa
		}
		if r.P(1, 3) {
			delete(d, "DecodeParms")
		}
		if r.P(1, 2) && len(data) > 4 {
			// valid-looking starts for the binary formats
			copy(data, Pick(r, []string{"\xff\xd8\xff\xe0", "\x00\x00\x00\x0cjP  ", "\x97JB2\r\n\x1a\n", "x\x9c\x03\x00", "\x80\x0b\x60\x50"}))
		}
	}
	return pdf.NewStream(d, data)
}

// build produces one object of the template.
func (b *c05Builder) build(tmpl string, depth int) pdf.Object {
	r := b.r
	if tmpl == "cs" {
		return b.colorSpace(depth + 1)
	}
	if tmpl == "xobj" {
		tmpl = Pick(r, []string{"image", "form"})
	}
	t := c05Templates[tmpl]
	if t == nil {
		return b.soup(depth)
	}
	alt := Pick(r, t.alts)
	d := pdf.Dict{}
	for _, kv := range alt.fixed {
		if r.P(1, 25) {
			continue
		}
		if v, err := strconv.Atoi(kv[1]); err == nil {
			d[pdf.Name(kv[0])] = pdf.Integer(v)
		} else {
			d[pdf.Name(kv[0])] = pdf.Name(kv[1])
		}
	}
	// a third to all of the optional entries
	dens := 1 + r.Intn(3)
	for _, e := range t.entries {
		if r.Intn(3) >= dens {
			continue
		}
		d[pdf.Name(e.key)] = b.gen(Pick(r, e.kinds), depth)
	}
	if alt.stream != "" {
		return b.stream(d, b.streamData(alt.stream))
	}
	return d
}

// c05BuildHostile writes one hostile document with the real Writer.
func c05BuildHostile(r *Rand) (data []byte, pw string, note string, err error) {
	defer func() {
		// the Writer is not the code under test here: a panic while
		// serialising hostile values only costs this case
		if e := recover(); e != nil {
			err = fmt.Errorf("writer panic: %v", e)
		}
	}()
	version := Pick(r, robVersions)
	opt := &pdf.WriterOptions{HumanReadable: r.P(1, 3)}
	switch r.Intn(6) {
	case 0:
		opt.OwnerPassword, opt.UserPermissions = "owner", pdf.PermAll
	case 1:
		opt.OwnerPassword, opt.UserPassword, opt.UserPermissions = "owner", "user", pdf.PermAll
		pw = "user"
	}
	buf := &bytes.Buffer{}
	w, err := pdf.NewWriter(buf, version, opt)
	if err != nil {
		return nil, "", "", err
	}
	b := &c05Builder{r: r, w: w, byTmpl: map[string][]int{}, budget: 6 + r.Intn(40), bombs: 1}

	// skeleton of the page tree
	root := b.alloc("pages")
	np := 1 + r.Intn(4)
	var nodes []*c05ObjSlot
	nodes = append(nodes, root)
	shape := r.Intn(6)
	depthChain := 0
	if shape == 0 {
		depthChain = Pick(r, []int{2, 10, 300, 1200})
		for i := 0; i < depthChain; i++ {
			nodes = append(nodes, b.alloc("pages"))
			b.budget++
		}
	} else if shape <= 3 {
		nodes = append(nodes, b.alloc("pages"))
	}
	var pages []*c05ObjSlot
	for i := 0; i < np; i++ {
		pages = append(pages, b.alloc("page"))
	}
	if shape == 5 {
		// a wide tree
		for i := 0; i < 250; i++ {
			pages = append(pages, b.alloc("page"))
			b.budget++
		}
	}
	b.queue = nil
	for _, p := range pages {
		if shape == 5 && r.P(19, 20) {
			p.obj = pdf.Dict{"Type": pdf.Name("Page"), "Parent": nodes[len(nodes)-1].ref}
			continue
		}
		pd := b.build("page", 0).(pdf.Dict)
		if !r.P(1, 6) {
			pd["Parent"] = nodes[len(nodes)-1].ref
		}
		if !r.P(1, 6) {
			pd["Type"] = pdf.Name("Page")
		}
		p.obj = pd
	}
	for i, nd := range nodes {
		var kids pdf.Array
		if i+1 < len(nodes) {
			kids = pdf.Array{nodes[i+1].ref}
		} else {
			for _, p := range pages {
				kids = append(kids, p.ref)
			}
		}
		switch r.Intn(14) {
		case 0:
			kids = append(kids, nd.ref)
		case 1:
			kids = append(kids, root.ref)
		case 2:
			kids = append(kids, kids...)
		case 3:
			kids = append(pdf.Array{pdf.Integer(1), nil, pdf.Name("X"), pdf.Array{root.ref}}, kids...)
		case 4:
			kids = append(kids, Pick(r, b.slots).ref)
		case 5:
			for j := 0; j < 500; j++ {
				kids = append(kids, Pick(r, pages).ref)
			}
		}
		d := pdf.Dict{"Type": pdf.Name("Pages"), "Kids": kids, "Count": pdf.Integer(len(pages))}
		if i > 0 {
			d["Parent"] = nodes[i-1].ref
		}
		switch r.Intn(12) {
		case 0:
			d["Count"] = b.hostileInt()
		case 1:
			d["Parent"] = nd.ref
		case 2:
			d["Parent"] = nodes[len(nodes)-1].ref
		case 3:
			d["Type"] = pdf.Name("Page")
		case 4:
			delete(d, "Type")
		case 5:
			d["Kids"] = nd.ref
		}
		if r.P(1, 3) {
			d["Resources"] = b.gen("Rres", 1)
		}
		if r.P(1, 3) {
			d["MediaBox"] = b.gen("A4", 1)
		}
		if r.P(1, 4) {
			d["Rotate"] = Pick(r, []pdf.Object{pdf.Integer(90), b.hostileInt(), nd.ref, pdf.Name("X")})
		}
		if r.P(1, 5) {
			d["CropBox"] = Pick(r, []pdf.Object{nd.ref, b.gen("A4", 1)})
		}
		nd.obj = d
	}
	// everything the skeleton refers to
	for len(b.queue) > 0 {
		i := b.queue[0]
		b.queue = b.queue[1:]
		s := b.slots[i]
		if s.obj == nil {
			s.obj = b.build(s.tmpl, 0)
		}
	}
	// a few reference chains and loops
	if r.P(1, 3) {
		n := Pick(r, []int{2, 10, 255, 256, 257, 400})
		chain := make([]*c05ObjSlot, n)
		for i := range chain {
			chain[i] = &c05ObjSlot{ref: w.Alloc(), tmpl: "chain"}
		}
		for i := range chain {
			if i+1 < n {
				chain[i].obj = chain[i+1].ref
			} else {
				chain[i].obj = Pick(r, []pdf.Object{pdf.Integer(90), chain[0].ref, chain[i].ref, pdf.Array{pdf.Integer(0), pdf.Integer(0), pdf.Integer(10), pdf.Integer(10)}})
			}
		}
		// hang the chain into a page
		if pd, ok := Pick(r, pages).obj.(pdf.Dict); ok {
			pd[pdf.Name(Pick(r, []string{"Rotate", "MediaBox", "Resources", "Contents", "Annots", "Parent", "Type"}))] = chain[0].ref
		}
		b.slots = append(b.slots, chain...)
	}

	// write
	var comp []*c05ObjSlot
	for _, s := range b.slots {
		if s.obj == nil {
			s.obj = pdf.Dict{}
		}
		if _, isStream := s.obj.(*pdf.Stream); !isStream && r.P(1, 3) {
			if _, isRef := s.obj.(pdf.Reference); !isRef {
				comp = append(comp, s)
				continue
			}
		}
		if err := w.Put(s.ref, s.obj); err != nil {
			return nil, "", "", err
		}
	}
	for len(comp) > 0 {
		n := min(len(comp), 1+r.Intn(20))
		refs := make([]pdf.Reference, n)
		objs := make([]pdf.Object, n)
		for i, s := range comp[:n] {
			refs[i], objs[i] = s.ref, s.obj
		}
		if err := w.WriteCompressed(refs, objs...); err != nil {
			return nil, "", "", err
		}
		comp = comp[n:]
	}
	cat := w.GetMeta().Catalog
	cat.Pages = root.ref
	switch r.Intn(10) {
	case 0:
		cat.Pages = pages[0].ref
	case 1:
		cat.Pages = Pick(r, b.slots).ref
	}
	if r.P(1, 3) {
		cat.OpenAction = b.ref("action")
		cat.AA = b.ref("aa")
		cat.Names = b.soup(1)
		cat.Dests = Pick(r, b.slots).ref
		cat.PageLabels = b.soup(1)
		cat.AcroForm = Pick(r, b.slots).ref
		cat.OCProperties = b.soup(1)
		cat.Outlines = Pick(r, b.slots).ref
	}
	w.GetMeta().Info = &pdf.Info{Title: "hostile"}
	if err := w.Close(); err != nil {
		return nil, "", "", err
	}
	return buf.Bytes(), pw, fmt.Sprintf("objdoc:v%s shape%d chain%d pages%d objs%d", version, shape, depthChain, len(pages), len(b.slots)), nil
}

// 2f. hand-built files with hostile cross-reference streams and object
// streams (the Writer cannot be made to lie about these)

type c05RawEntry struct {
	tp   int
	a, b uint64
}

func c05PutField(buf *bytes.Buffer, v uint64, w int) {
	for i := w - 1; i >= 0; i-- {
		if i >= 8 {
			buf.WriteByte(0)
		} else {
			buf.WriteByte(byte(v >> (8 * i)))
		}
	}
}

func c05BuildRaw(r *Rand) ([]byte, string) {
	var f bytes.Buffer
	var notes []string
	// two thirds of the files get few hostile features at once, so that the
	// reader gets past the first of them
	calm := 1
	if r.P(2, 3) {
		calm = 3
	}
	hit := func(p, q int) bool { return r.P(p, q*calm) }
	note := func(s string, a ...any) { notes = append(notes, fmt.Sprintf(s, a...)) }

	pre := 0
	if hit(1, 8) {
		pre = Pick(r, []int{1, 100, 1000, 1023})
		f.Write(bytes.Repeat([]byte{'%'}, pre-1))
		f.WriteByte('\n')
		note("pre%d", pre)
	}
	f.WriteString("%PDF-" + Pick(r, []string{"1.5", "1.5", "1.7", "2.0", "1.4"}) + "\n%\x80\x80\x80\x80\n")
	offs := map[int]int{}
	obj := func(n int, body string) {
		offs[n] = f.Len() - pre
		fmt.Fprintf(&f, "%d 0 obj\n%s\nendobj\n", n, body)
	}
	stm := func(n int, dict string, data []byte, length string) {
		offs[n] = f.Len() - pre
		if length == "" {
			length = strconv.Itoa(len(data))
		}
		fmt.Fprintf(&f, "%d 0 obj\n<<%s/Length %s>>\nstream\n", n, dict, length)
		f.Write(data)
		f.WriteString("\nendstream\nendobj\n")
	}

	// object stream 5 holds 6 (a dictionary), 7 (an integer) and, half of
	// the time, the page tree (2, 3)
	type member struct {
		num  int
		body string
	}
	members := []member{{6, "<</A 1/B[1 2 3]>>"}, {7, "42"}}
	pagesInStm := hit(1, 2)
	pageBody := "<</Type/Page/Parent 2 0 R/Contents 4 0 R/MediaBox[0 0 10 10]/Resources<<>>>>"
	pagesBody := "<</Type/Pages/Kids[3 0 R]/Count 1>>"
	if pagesInStm {
		members = append(members, member{2, pagesBody}, member{3, pageBody})
	}
	if hit(1, 6) {
		members = append(members, member{9, Pick(r, []string{"1 0 R", "stream", "<</Length 3>>stream\nabc\nendstream", "1 0 obj 3 endobj", c05Bomb(r), "(", "<<", "5 0 R"})})
		note("odd-member")
	}
	var idx, bodies strings.Builder
	for _, m := range members {
		num, off := uint64(m.num), uint64(bodies.Len())
		if hit(1, 10) {
			num = uint64(Pick(r, []int64{0, 5, 8, 1 << 24, 1<<32 - 1, 1 << 32, 99}))
			note("member-num=%d", num)
		}
		if hit(1, 10) {
			off = uint64(Pick(r, []int64{0, 1, 1 << 20, 1<<31 - 1, 1 << 40, 1<<63 - 1}))
			note("member-off=%d", off)
		}
		fmt.Fprintf(&idx, "%d %d ", num, off)
		bodies.WriteString(m.body + " ")
	}
	first := idx.Len()
	nObj := len(members)
	nText, firstText := strconv.Itoa(nObj), strconv.Itoa(first)
	if hit(1, 5) {
		nText = Pick(r, []string{"0", "-1", strconv.Itoa(nObj + 1), strconv.Itoa(nObj - 1), "10000", "10001", "100000000", "100000000", "50000000", "2147483647", "2147483648", "9223372036854775807", "(x)", "5 0 R"})
		note("N=%s", nText)
	}
	if hit(1, 5) {
		firstText = Pick(r, []string{"0", "-1", strconv.Itoa(first - 1), strconv.Itoa(first + 1), "1", "100000", "2147483648", "9223372036854775807", "-9223372036854775808", "5 0 R"})
		note("First=%s", firstText)
	}
	osData := []byte(idx.String() + bodies.String())
	if hit(1, 10) {
		osData = osData[:r.Intn(len(osData)+1)]
		note("objstm-cut")
	}
	osDict := fmt.Sprintf("/Type/ObjStm/N %s/First %s", nText, firstText)
	if hit(1, 2) {
		osData = c05Zlib(osData)
		osDict += "/Filter/FlateDecode"
	}
	if hit(1, 8) {
		osDict += "/Extends " + Pick(r, []string{"5 0 R", "10 0 R", "8 0 R", "4 0 R"})
		note("extends")
	}
	osLen := ""
	if hit(1, 8) {
		osLen = Pick(r, []string{"6 0 R", "7 0 R", "5 0 R", "11 0 R", "-1", "0", "99999999"})
		note("objstm-len=%s", osLen)
	}

	obj(1, "<</Type/Catalog/Pages 2 0 R>>")
	if !pagesInStm {
		obj(2, pagesBody)
		obj(3, pageBody)
	}
	stm(4, "", []byte("q 0 0 10 10 re f Q"), "")
	stm(5, osDict, osData, osLen)
	// a second object stream, for streams-in-streams confusions
	stm(10, "/Type/ObjStm/N 1/First 5", []byte("11 0 18"), "")

	// cross-reference stream 8
	size := 12
	ent := make([]c05RawEntry, size)
	ent[0] = c05RawEntry{0, 0, 65535}
	for n, o := range offs {
		ent[n] = c05RawEntry{1, uint64(o), 0}
	}
	for i, m := range members {
		if m.num < size {
			ent[m.num] = c05RawEntry{2, 5, uint64(i)}
		}
	}
	ent[11] = c05RawEntry{2, 10, 0}
	xrefOff := f.Len() - pre
	ent[8] = c05RawEntry{1, uint64(xrefOff), 0}
	for k := r.Intn(4) / calm; k > 0; k-- {
		i := r.Intn(size)
		e := &ent[i]
		switch r.Intn(9) {
		case 0:
			e.tp = Pick(r, []int{0, 1, 2, 3, 255})
		case 1:
			e.a = uint64(Pick(r, []int64{0, 1, int64(xrefOff), int64(f.Len()), int64(f.Len()) + 1, 1 << 31, 1 << 40, 1<<63 - 1, -1}))
		case 2:
			*e = c05RawEntry{2, uint64(Pick(r, []int{5, 8, 4, 99, i, 10, 1, 1 << 24})), uint64(Pick(r, []int{0, 1, 5, 10000, 1 << 30}))}
		case 3:
			e.b = uint64(Pick(r, []int64{1, 65535, 65536, 1 << 32, -1}))
		case 4:
			*e = c05RawEntry{1, uint64(offs[Pick(r, []int{1, 4, 5})]), 0} // another object's offset
		case 5:
			*e = c05RawEntry{2, 10, 0} // lives in stream 10 …
			ent[10] = c05RawEntry{2, 5, 0}
		case 6:
			ent[5] = c05RawEntry{2, 10, 0} // object streams inside each other
			ent[10] = c05RawEntry{2, 5, 0}
		case 7:
			*e = c05RawEntry{1, uint64(r.Intn(f.Len() + 1)), 0}
		default:
			e.tp = 0
		}
		note("entry%d=%d/%d/%d", i, e.tp, e.a, e.b)
	}
	w := []int{1, 4, 2}
	wText := "[1 4 2]"
	if hit(1, 4) {
		w = Pick(r, [][]int{{1, 2, 1}, {0, 4, 2}, {1, 4, 0}, {1, 0, 2}, {8, 8, 8}, {2, 8, 4}, {1, 1, 1}, {0, 0, 1}, {1, 8, 0}})
		wText = fmt.Sprintf("[%d %d %d]", w[0], w[1], w[2])
		note("W=%s", wText)
	}
	var body bytes.Buffer
	for _, e := range ent {
		c05PutField(&body, uint64(e.tp), w[0])
		c05PutField(&body, e.a, w[1])
		c05PutField(&body, e.b, w[2])
	}
	xdata := body.Bytes()
	if hit(1, 5) {
		wText = Pick(r, []string{"[0 0 0]", "[1 2]", "[1 4 2 1]", "[9 4 2]", "[1 9 2]", "[1 2147483648 1]", "[-1 4 2]", "[1 9223372036854775807 1]",
			"[3074457345618258603 3074457345618258603 3074457345618258603]", "[/A/B/C]", "7", "8 0 R", "[1 4 (x)]", "[1 1000000 2]"})
		note("W=%s", wText)
	}
	sizeText := strconv.Itoa(size)
	indexText := ""
	if hit(1, 4) {
		sizeText = Pick(r, []string{"0", "1", "11", "13", "8192", "8193", "100000", "16777216", "16777217", "2147483648", "-1", "9223372036854775807", "8 0 R"})
		note("Size=%s", sizeText)
	}
	if hit(1, 4) {
		indexText = "/Index" + Pick(r, []string{"[0 12]", "[0 6 6 6]", "[0 16777216]", "[6 6 0 6]", "[0 12 0 12]", "[-1 12]", "[0 0]", "[0 1 2]", "[16777215 12]", "[0 2147483648]",
			"[0 9223372036854775807]", "[3 100000]", "[(a)(b)]", "[]", " 7", " 8 0 R", "[0 4000 0 4000 0 4000 0 4000 0 4000]"})
		note("%s", indexText)
	}
	xdict := fmt.Sprintf("/Type/XRef/Size %s/W %s%s/Root 1 0 R", sizeText, wText, indexText)
	switch r.Intn(8 * calm) {
	case 0: // many declared entries backed by a highly compressible body
		// (all zero: free entries, one heap object each when decoded);
		// limits.MaxXRefEntries must refuse this before decoding
		n := Pick(r, []int{100000, 1000000, 16777216, 16777216})
		xdata = make([]byte, n*3)
		xdict = fmt.Sprintf("/Type/XRef/Size %d/W[1 1 1]/Root 1 0 R", n)
		if hit(1, 2) {
			xdict += fmt.Sprintf("/Index[0 %d %d %d]", n/2, n/2, n-n/2)
		}
		note("xref-bomb%d", n)
		xdata = c05ZlibFast(xdata)
		xdict += "/Filter/FlateDecode"
	case 1, 2:
		xdata = c05Zlib(xdata)
		xdict += "/Filter/FlateDecode"
	case 3:
		xdata = xdata[:r.Intn(len(xdata)+1)]
		note("xref-cut")
	case 4:
		xdict += "/Filter" + c05FilterText(r, "8 0 R") + "/DecodeParms" + c05ParmsText(r, "8 0 R")
		note("xref-filter")
	}
	if hit(1, 5) {
		p := Pick(r, []string{strconv.Itoa(xrefOff), strconv.Itoa(xrefOff + pre), strconv.Itoa(offs[5]), strconv.Itoa(offs[1]), "0", "-1", "1", "99999999", "8 0 R", "9223372036854775807"})
		xdict += "/Prev " + p
		note("Prev=%s", p)
	}
	if hit(1, 10) {
		xdict += "/Encrypt " + Pick(r, []string{"8 0 R", "6 0 R", "<<>>", "<</Filter/Standard/V 1/R 2/O(x)/U(y)/P -1>>", "1"}) + "/ID[(0123456789abcdef)(0123456789abcdef)]"
		note("encrypt")
	}
	xlen := ""
	if hit(1, 8) {
		xlen = Pick(r, []string{"8 0 R", "7 0 R", "6 0 R", "0", "-1", "99999999"})
		note("xref-len=%s", xlen)
	}
	stm(8, xdict, xdata, xlen)
	sx := strconv.Itoa(xrefOff)
	if hit(1, 8) {
		sx = Pick(r, []string{strconv.Itoa(xrefOff + pre), strconv.Itoa(xrefOff + 1), strconv.Itoa(xrefOff - 1), "0", strconv.Itoa(offs[5]), strconv.Itoa(offs[4]), strconv.Itoa(f.Len())})
		note("startxref=%s", sx)
	}
	fmt.Fprintf(&f, "startxref\n%s\n%%%%EOF\n", sx)
	return f.Bytes(), "rawdoc:" + strings.Join(notes, " ")
}

// 2g. one case from one seed

// c05Gen builds the case of a seed.  It depends on nothing else, so a
// replay regenerates exactly the same bytes.
func c05Gen(seed uint64) *c05Case {
	r := &Rand{s: seed}
	cs := &c05Case{seed: seed}
	base := func(plain bool) []byte {
		doc := c05Base(r, plain)
		cs.pw = doc.Spec.readerPassword()
		for _, ref := range doc.Refs {
			cs.baseMax = max(cs.baseMax, int(ref.Number()))
		}
		return doc.Data
	}
	k := r.Intn(100)
	switch {
	case k < 3:
		cs.data, cs.note = base(false), "valid:unchanged"
	case k < 19:
		cs.data, cs.note = c05MutToken(r.Fork(), base(r.P(1, 2)))
	case k < 33:
		cs.data, cs.note = c05MutRewire(r.Fork(), base(r.P(2, 3)))
	case k < 51:
		cs.data, cs.note = c05MutTamper(r.Fork(), base(r.P(1, 2)))
	case k < 57:
		cs.data, cs.note = c05MutPrevLoop(r.Fork(), base(r.P(1, 2)))
	case k < 64:
		cs.data, cs.note = c05MutTruncate(r.Fork(), base(false))
	case k < 74:
		a := base(false)
		b := c05Base(r, false).Data
		cs.data, cs.note = c05MutSplice(r.Fork(), a, b)
	case k < 86:
		data, pw, note, err := c05BuildHostile(r.Fork())
		if err != nil {
			cs.data, cs.note = base(false), "objdoc:writer refused ("+truncTo(err.Error(), 60)+"), valid file instead"
		} else {
			cs.data, cs.pw, cs.note = data, pw, note
		}
	case k < 95:
		cs.data, cs.note = c05BuildRaw(r.Fork())
	case k < 99:
		cs.data, cs.note = c05Garbage(r.Fork())
	default:
		cs.data, cs.note = c05NestBomb(r.Fork())
	}
	// second stage on top, and repair of the offsets the edit has shifted
	if k >= 3 && k < 95 && len(cs.data) > 0 {
		if r.P(1, 6) {
			var n2 string
			switch r.Intn(4) {
			case 0:
				cs.data, n2 = c05MutToken(r.Fork(), cs.data)
			case 1:
				cs.data, n2 = c05MutTamper(r.Fork(), cs.data)
			case 2:
				cs.data, n2 = c05MutRewire(r.Fork(), cs.data)
			default:
				cs.data, n2 = c05MutTruncate(r.Fork(), cs.data)
			}
			cs.note += " + " + n2
		}
		if k < 51 && r.P(2, 5) {
			cs.data, _ = c05Reindex(cs.data, "")
			cs.note += " + reindexed"
		}
	}
	cs.kind = cs.note
	if i := strings.IndexByte(cs.kind, ':'); i > 0 {
		cs.kind = cs.kind[:i]
	}
	cs.note = truncTo(cs.note, 160)
	c05Plan(cs)
	return cs
}

// c05Plan decides which objects the walk asks for: there is no exported
// listing of the cross-reference table, so all numbers up to the largest
// one the file mentions (as "n g obj" or as /Size, capped) plus a margin,
// with generation 0 and the generations seen in the file.
func c05Plan(cs *c05Case) {
	_, gens, maxNum := c05ObjOffsets(cs.data)
	n := max(cs.baseMax, min(maxNum, c05MaxObj))
	for _, m := range c05SizeRe.FindAllSubmatch(cs.data, 8) {
		if v, err := strconv.Atoi(string(m[1])); err == nil && v <= c05MaxObj {
			n = max(n, v)
		}
	}
	cs.maxN = min(n, c05MaxObj) + c05ObjMargin
	cs.gens = []uint16{0}
	var gs []int
	for _, g := range gens {
		if g > 0 {
			gs = append(gs, g)
		}
	}
	sort.Ints(gs)
	for _, g := range gs {
		if len(cs.gens) < 3 && uint16(g) != cs.gens[len(cs.gens)-1] {
			cs.gens = append(cs.gens, uint16(g))
		}
	}
}

// ---------------------------------------------------------------------------
// 3. run and replay
// ---------------------------------------------------------------------------

func c05CountBucket(n int) string {
	switch {
	case n == 0:
		return "0"
	case n < 4:
		return "1-3"
	case n < 16:
		return "4-15"
	case n < 64:
		return "16-63"
	default:
		return "64+"
	}
}

// c05ReplayInput is "seed=<n> mode=<m>[ data=<hex>]".  The seed determines
// the case, except that the Writer draws file identifiers, keys and
// initialisation vectors of encrypted documents from crypto/rand; therefore
// the bytes themselves are included unless the file is large (large files
// come from generators that do not encrypt, or differ only in those bytes).
func c05ReplayInput(cs *c05Case, mode int) string {
	s := fmt.Sprintf("seed=%d mode=%d", cs.seed, mode)
	if len(cs.data) > 0 && len(cs.data) <= 256<<10 {
		s += " data=" + hex.EncodeToString(cs.data)
	}
	return s
}

func c05DataKey(data []byte, mode int) string {
	h := fnv.New64a()
	h.Write(data)
	return fmt.Sprintf("%016x/%d", h.Sum64(), mode)
}

// robC05Run is the generator run: mutants are generated one after the other
// from the PRNG and evaluated one at a time (the allocation and goroutine
// measurements are per case), each under the three error-handling modes.
func robC05Run(c *Ctx) {
	r := c.R.Fork()
	n := 900
	budget := 22 * time.Second // the whole quick check has to stay below 60 s on a loaded machine
	if c.Thorough {
		n = 16000
		budget = 7 * time.Minute
	}
	// a stack overflow cannot be recovered (the process dies and the check
	// fails on the harness exit status); make it happen at 64 MiB instead
	// of 1 GiB so that the nesting bombs can stay small.  The library's
	// own recursion is bounded by depth limits of 256 and needs about 1 MiB.
	oldStack := debug.SetMaxStack(c05MaxStack)
	defer debug.SetMaxStack(oldStack)

	t0 := time.Now()
	hangs := 0
	var maxAlloc, maxPermille uint64
	var maxDur time.Duration
	for i := 0; i < n && hangs < c05MaxHangs; i++ {
		if time.Since(t0) > budget {
			c.Stat("c05_stopped_on_time_budget")
			break
		}
		seed := r.U64()
		cs := c05Gen(seed)
		c.Stat("c05_kind_" + cs.kind)
		c.Stat("c05_len_" + sizeBucket(len(cs.data)))
		hasHeader := bytes.Contains(cs.data, []byte("%PDF-"))
		for mode := 0; mode < 3 && hangs < c05MaxHangs; mode++ {
			o := c05Eval(cs, mode)
			c.Case(c05DataKey(cs.data, mode), o.newOK || o.mkOK || hasHeader)
			m := c05ModeNames[mode]
			switch {
			case o.hang:
				c.Stat("c05_outcome_hang")
			case o.panicSite != "":
				c.Stat("c05_outcome_panic")
			case o.newOK && o.mkOK:
				c.Stat("c05_outcome_" + m + "_open-ok_scan-ok")
			case o.newOK:
				c.Stat("c05_outcome_" + m + "_open-ok_scan-err")
			case o.mkOK:
				c.Stat("c05_outcome_" + m + "_open-err_scan-ok")
			default:
				c.Stat("c05_outcome_" + m + "_open-err_scan-err")
			}
			if mode == 0 {
				c.Stat("c05_objects_fetched_" + c05CountBucket(o.objs))
				c.Stat("c05_streams_drained_" + c05CountBucket(o.streams))
				c.Stat("c05_pages_decoded_" + c05CountBucket(o.pages))
			}
			if o.cut {
				c.Stat("c05_walk_cut_short_after_soft_limit")
			}
			if c05Tainted {
				c.Stat("c05_cases_without_alloc_and_leak_accounting")
			} else {
				maxAlloc = max(maxAlloc, o.alloc)
				maxPermille = max(maxPermille, o.alloc*1000/c05AllocBudget(cs, &o))
			}
			if !o.hang {
				maxDur = max(maxDur, o.dur)
			}
			if o.hang {
				hangs++
			}
			for _, f := range c05Judge(cs, mode, &o) {
				c.Violate("c05", f.key, f.desc, c05ReplayInput(cs, mode))
			}
			if i < 6 && mode == 0 {
				c.Sample(fmt.Sprintf("seed=%d %s len=%d => open=%v scan=%v objects=%d streams=%d pages=%d", seed, cs.note, len(cs.data), o.newOK, o.mkOK, o.objs, o.streams, o.pages))
			}
		}
	}
	if hangs >= c05MaxHangs {
		c.Stat("c05_stopped_after_hangs")
	}
	c.StatN("c05_max_alloc_MiB", int(maxAlloc>>20))
	c.StatN("c05_max_alloc_permille_of_budget", int(maxPermille))
	c.StatN("c05_max_case_ms", int(maxDur/time.Millisecond))
}

// replayC05 re-runs one case from its replay input (see c05ReplayInput).
func replayC05(input string) (bool, string) {
	var seed uint64
	var mode int
	if _, err := fmt.Sscanf(input, "seed=%d mode=%d", &seed, &mode); err != nil || mode < 0 || mode > 2 {
		return true, "bad replay input: " + truncate(input)
	}
	oldStack := debug.SetMaxStack(c05MaxStack)
	defer debug.SetMaxStack(oldStack)
	cs := c05Gen(seed)
	if k := strings.Index(input, " data="); k >= 0 {
		data, err := hex.DecodeString(strings.TrimSpace(input[k+6:]))
		if err != nil {
			return true, "bad replay input (hex): " + truncate(input)
		}
		cs.data = data
		c05Plan(cs)
	}
	input = truncTo(input, 60)
	o := c05Eval(cs, mode)
	fs := c05Judge(cs, mode, &o)
	head := fmt.Sprintf("%s: %s, %d bytes, open=%v scan+makereader=%v objects=%d streams=%d pages=%d alloc=%d dur=%v\nfile (hex, first 4000 bytes): %s",
		input, cs.note, len(cs.data), o.newOK, o.mkOK, o.objs, o.streams, o.pages, o.alloc, o.dur, hex.EncodeToString(cs.data[:min(len(cs.data), 4000)]))
	if len(fs) == 0 {
		return true, head
	}
	var sb strings.Builder
	sb.WriteString(head)
	for _, f := range fs {
		sb.WriteString("\n" + f.key + ": " + f.desc)
	}
	if o.stack != "" {
		sb.WriteString("\n" + o.stack)
	}
	return false, sb.String()
}

// c05Rule is the rule text for addRun.
const c05Rule = "whole files: structure-aware mutants of Writer-made documents (token edits, reference rewiring into cycles, tampered /Length /Prev /Size /W /Index /N /First /Filter /DecodeParms /Kids /Parent /Count /Root values, /Prev loops, truncation, splicing), hostile object graphs written by the real Writer (page-tree, resource, font, colour-space, function, annotation, action cycles; hostile filter chains; decompression bombs), hand-built hostile xref streams and object streams, garbage and near-empty inputs; each opened with NewReader and SequentialScan+MakeReader under the three ErrorHandling modes, all objects fetched, all streams drained, catalog, page tree and pages decoded; a case is one (file, mode) and counts as non-trivial when an open succeeded or the input still contains a %PDF- header; panic, hang (watchdog), nil result without error, goroutine left behind or allocation beyond budget is a violation"

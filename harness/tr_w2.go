package main

// TR runs, second batch: ccittfax helpers and the geometry clamp of
// FilterCCITTFax.Decode (C08), the guards of checkXRefStreamDict (C02),
// cmap.nextString and the UTF-8 prelude (C13).  The guards and the clamp are
// FRAGMENTS (single expressions) translated from functions that are not
// translatable as a whole; the Lean driver re-assembles them with the
// hand-written control flow documented in Driver/TR.lean.

import (
	"bytes"
	"fmt"
	"io"
	"strings"
	"unicode/utf8"

	"seehuhn.de/go/membudget"
	pdf "seehuhn.de/go/pdf"
	"seehuhn.de/go/pdf/font/cmap"
	"seehuhn.de/go/pdf/graphics/content"
)

func init() {
	addRun("C08", "TR: ccittfax.BufferBytes on boundary/random Columns x K; Params.getPixel/whiteBit/endOfRun on random lines, columns and positions (incl. negative and beyond the line, where Go may panic); the geometry clamp of FilterCCITTFax.Decode observed on the real decoder (number of rows delivered for all-white Group-4 data) against the generated clamp expressions. Non-trivial: every case.", runTRW2C08)
	addRun("C02", "TR: checkXRefStreamDict on well-typed dictionaries (Size, W, optional Index pairs; boundary and random values, missing Size) x raw lengths, against the generated guard expressions re-assembled in the Lean driver. Non-trivial: dictionaries with an Index.", runTRW2C02)
	addRun("C13", "TR: cmap.nextString on ASCII, multi-byte, invalid UTF-8 and boundary runes (U+D7FF, U+10FFFF, U+FFFD) x increments (incl. negative, huge); the UTF-8 decoder/encoder of the Lean prelude against Go's []rune(string) / string([]rune) on random and boundary byte strings and rune lists. Non-trivial: every case.", runTRW2C13)
	addRun("C15", "TR: graphics/content hexDigit on all 256 bytes; isASCIIFilter / needsClose / isStrokeOp on every filter name and operator of the tables, their prefixes and one-byte mutations, and random short names; each line answered by the generated Lean function. Oracle: the content-stream hexDigit equals the scanner's hexDigit. Non-trivial: every case.", runTRW2C15)
	addReplay("C13", "tr-nextString", func(in string) (bool, string) {
		f := strings.Fields(in)
		var inc int
		fmt.Sscan(f[1], &inc)
		return trNextStringOracle(string(trUnhex(f[0])), inc)
	})
	addReplay("C08", "tr-ccitt", func(in string) (bool, string) {
		var cols, k int
		fmt.Sscan(in, &cols, &k)
		return trBufferBytesOracle(cols, k)
	})
}

// BufferBytes: line buffer, plus for 2-D modes a second line and one int per column
func trBufferBytesOracle(cols, k int) (bool, string) {
	got := pdf.VerifTrCCITTBufferBytes(&pdf.VerifTrCCITTParams{Columns: cols, K: k})
	c := cols
	if c == 0 {
		c = 1728
	}
	want := 0
	if c > 0 && c <= 1<<40 {
		want = (c + 7) / 8
		if k != 0 {
			want = 2*want + 8*c
		}
	} else if c > 1<<40 {
		return true, "outside the oracle's domain"
	}
	return got == want, fmt.Sprintf("BufferBytes(Columns=%d,K=%d) = %d, want %d", cols, k, got, want)
}

// nextString: the last rune is incremented (int32 wrap), everything else is unchanged; invalid input bytes become U+FFFD
func trNextStringOracle(s string, inc int) (bool, string) {
	got := cmap.VerifTrNextString(s, inc)
	rr := []rune(s)
	want := ""
	if len(rr) > 0 {
		rr[len(rr)-1] = rune(int32(rr[len(rr)-1]) + int32(inc))
		var sb strings.Builder
		for _, r := range rr {
			if r < 0 || r > utf8.MaxRune || (r >= 0xD800 && r <= 0xDFFF) {
				r = utf8.RuneError
			}
			sb.WriteRune(r)
		}
		want = sb.String()
	}
	return got == want, fmt.Sprintf("nextString(%x, %d) = %x, want %x", s, inc, got, want)
}

func runTRW2C08(c *Ctx) {
	n := 3000
	if c.Thorough {
		n = 60000
	}
	for _, cols := range []int{-5, -1, 0, 1, 7, 8, 9, 1728, 1 << 16, 1 << 20, 1<<20 + 1, 1 << 40} {
		for _, k := range []int{-1, 0, 1, 4} {
			trEmit(c, "ccittBufferBytes", trInts(int64(cols), int64(k)), fmt.Sprint(pdf.VerifTrCCITTBufferBytes(&pdf.VerifTrCCITTParams{Columns: cols, K: k})))
			c.Case(fmt.Sprintf("trbuf%d/%d", cols, k), true)
			if ok, d := trBufferBytesOracle(cols, k); !ok {
				c.Violate("tr-ccitt", "tr-ccitt-bufferBytes", d, fmt.Sprintf("%d %d", cols, k))
			}
		}
	}
	for i := 0; i < n; i++ {
		cols := int(trBoundaryInt(c.R))
		if c.R.P(2, 3) {
			cols = c.R.Intn(80)
		}
		k := c.R.Intn(3) - 1
		trEmit(c, "ccittBufferBytes", trInts(int64(cols), int64(k)), fmt.Sprint(pdf.VerifTrCCITTBufferBytes(&pdf.VerifTrCCITTParams{Columns: cols, K: k})))
		if ok, d := trBufferBytesOracle(cols, k); !ok {
			c.Violate("tr-ccitt", "tr-ccitt-bufferBytes", d, fmt.Sprintf("%d %d", cols, k))
		}
		// pixels
		line := c.R.Bytes(c.R.Intn(6))
		pcols := c.R.Intn(56) - 2
		black := c.R.Bool()
		p := pdf.VerifTrCCITTParams{Columns: pcols, BlackIs1: black}
		x := c.R.Intn(60) - 6
		if c.R.P(1, 20) {
			x = int(trBoundaryInt(c.R))
		}
		trEmit(c, "ccittGetPixel", []string{fmt.Sprint(pcols), fmt.Sprint(black), trHex(line), fmt.Sprint(x)}, trCall(func() string {
			return fmt.Sprintf("%d %d", pdf.VerifTrCCITTGetPixel(p, line, x), pdf.VerifTrCCITTWhiteBit(p))
		}))
		// specification of getPixel: bit x of the line (MSB first) inside the image, white outside
		want := byte(1)
		if black {
			want = 0
		}
		if x >= 0 && x < pcols && x/8 < len(line) {
			want = line[x/8] >> uint(7-x%8) & 1
		}
		if got := trCall(func() string { return fmt.Sprint(pdf.VerifTrCCITTGetPixel(p, line, x)) }); got != fmt.Sprint(want) {
			c.Violate("tr-ccitt", "tr-ccitt-getPixel", fmt.Sprintf("getPixel(cols=%d black=%v line=%x x=%d) = %s, want %d", pcols, black, line, x, got, want), "-")
		}
		bit := byte(c.R.Intn(2))
		sx := c.R.Intn(50) - 3
		trEmit(c, "ccittEndOfRun", []string{fmt.Sprint(pcols), fmt.Sprint(black), trHex(line), fmt.Sprint(sx), fmt.Sprint(bit)}, trCall(func() string {
			return fmt.Sprint(pdf.VerifTrCCITTEndOfRun(p, line, sx, bit))
		}))
		c.Case(fmt.Sprintf("trpix%d/%v/%x/%d", pcols, black, line, x), true)
	}
	// the clamp of FilterCCITTFax.Decode, observed on the real decoder: all-white Group 4 rows
	type clampCase struct{ cols, rows, feed int }
	cases := []clampCase{{8, 0, 20}, {8, 5, 20}, {8, 70000, 65540}, {8, 0, 65540}, {4096, 0, 32770}, {4096, 40000, 32770}, {1 << 20, 0, 131}, {1 << 20, 100, 131}, {1 << 20, 200, 131}}
	if !c.Thorough {
		cases = cases[:7]
	}
	for _, cc := range cases {
		f := pdf.FilterCCITTFax{Columns: cc.cols, K: -1}
		var enc bytes.Buffer
		w, err := f.Encode(pdf.V1_7, nopWriteCloser{&enc})
		if err != nil {
			continue
		}
		lineBytes := (cc.cols + 7) / 8
		white := bytes.Repeat([]byte{0xff}, lineBytes)
		for r := 0; r < cc.feed; r++ {
			w.Write(white)
		}
		w.Close()
		fd := pdf.FilterCCITTFax{Columns: cc.cols, K: -1, Rows: cc.rows}
		rd, err := fd.Decode(pdf.V1_7, bytes.NewReader(enc.Bytes()), membudget.New(1<<30))
		if err != nil {
			c.Stat("TR:ccittClamp:decode-error")
			continue
		}
		nOut, _ := io.Copy(io.Discard, rd)
		rd.Close()
		rows := int(nOut) / lineBytes
		// rows delivered = min(rows fed, effective MaxRows)
		c.Emit(fmt.Sprintf("TR ccittClamp %d %d %d", cc.cols, cc.rows, cc.feed), fmt.Sprint(rows))
		c.Stat("TR:ccittClamp")
		c.Case(fmt.Sprintf("trclamp%d/%d", cc.cols, cc.rows), true)
	}
}

type nopWriteCloser struct{ io.Writer }

func (nopWriteCloser) Close() error { return nil }

func runTRW2C02(c *Ctx) {
	n := 3000
	if c.Thorough {
		n = 50000
	}
	small := []int64{-1, 0, 1, 2, 7, 8, 9, 100, 8191, 8192, 8193, 1<<24 - 1, 1 << 24, 1<<24 + 1, 1 << 40}
	for i := 0; i < n; i++ {
		size := Pick(c.R, small)
		if c.R.P(1, 2) {
			size = int64(c.R.Intn(20000))
		}
		sizeOk := !c.R.P(1, 30)
		rawLen := Pick(c.R, []int64{-5, 0, 1, 10, 100, 1000, int64(c.R.Intn(3000)), 1 << 20, 1 << 58, 1<<63 - 1})
		var w [3]int64
		for j := range w {
			w[j] = int64(c.R.Intn(5))
			if c.R.P(1, 15) {
				w[j] = Pick(c.R, []int64{-1, 8, 9, 1 << 33})
			}
		}
		if c.R.P(1, 25) {
			w = [3]int64{}
		}
		dict := pdf.Dict{"W": pdf.Array{pdf.Integer(w[0]), pdf.Integer(w[1]), pdf.Integer(w[2])}}
		if sizeOk {
			dict["Size"] = pdf.Integer(size)
		}
		args := []string{fmt.Sprint(sizeOk), fmt.Sprint(size), fmt.Sprint(rawLen), fmt.Sprint(w[0]), fmt.Sprint(w[1]), fmt.Sprint(w[2])}
		hasIndex := c.R.P(1, 2)
		if hasIndex {
			args = append(args, "I")
			var ind pdf.Array
			pos := int64(0)
			for k := c.R.Intn(4); k >= 0; k-- {
				start := pos + int64(c.R.Intn(5))
				sz := int64(1 + c.R.Intn(int(max(size, 1))/2+1))
				if c.R.P(1, 12) {
					start, sz = Pick(c.R, small), Pick(c.R, small)
				}
				ind = append(ind, pdf.Integer(start), pdf.Integer(sz))
				args = append(args, fmt.Sprint(start), fmt.Sprint(sz))
				pos = start + sz
			}
			dict["Index"] = ind
		} else {
			args = append(args, "N")
		}
		res := trCall(func() string { return trErr(pdf.VerifTrCheckXRefStreamDict(dict, rawLen)) })
		trEmit(c, "xrefGuards", args, res)
		c.Case("trxg"+strings.Join(args, "/"), hasIndex)
	}
	c.Sample("TR xrefGuards true 10 100 1 2 1 N -> nil")
}

func runTRW2C13(c *Ctx) {
	n := 3000
	if c.Thorough {
		n = 60000
	}
	next := func(s string, inc int) {
		args := []string{trHex([]byte(s)), fmt.Sprint(inc)}
		trEmit(c, "nextString", args, trCall(func() string { return trHex([]byte(cmap.VerifTrNextString(s, inc))) }))
		c.Case("trnext"+strings.Join(args, "/"), true)
		if ok, d := trNextStringOracle(s, inc); !ok {
			c.Violate("tr-nextString", "tr-nextString-spec", d, strings.Join(args, " "))
		}
	}
	bases := []string{"", "A", "Az", "é", "a€", "😀", "\xff", "a\xc3", "\xed\xa0\x80", "퟿", "￿", "\U0010ffff", "�", "ab\x80"}
	incs := []int{0, 1, 2, -1, 255, 256, 0x800, 1 << 31, 1<<31 - 1, -1 << 31, 1 << 32, 1<<32 + 1}
	for _, b := range bases {
		for _, inc := range incs {
			next(b, inc)
		}
	}
	runesLine := func(b []byte) {
		var parts []string
		for _, r := range []rune(string(b)) {
			parts = append(parts, fmt.Sprint(int32(r)))
		}
		trEmit(c, "runes", []string{trHex(b)}, strings.TrimLeft(strings.Join(parts, " ")+" .", " "))
	}
	encLine := func(rr []int32) {
		var args []string
		var sb strings.Builder
		for _, r := range rr {
			args = append(args, fmt.Sprint(r))
			sb.WriteString(string(rune(r)))
		}
		if len(rr) == 0 {
			return
		}
		trEmit(c, "encodeRunes", args, trHex([]byte(sb.String())))
	}
	lead := []byte{0x00, 0x41, 0x7f, 0x80, 0xbf, 0xc0, 0xc1, 0xc2, 0xdf, 0xe0, 0xe1, 0xec, 0xed, 0xee, 0xef, 0xf0, 0xf1, 0xf3, 0xf4, 0xf5, 0xff}
	cont := []byte{0x00, 0x7f, 0x80, 0x8f, 0x90, 0x9f, 0xa0, 0xbf, 0xc0, 0xff}
	for _, l := range lead {
		runesLine([]byte{l})
		for _, c1 := range cont {
			runesLine([]byte{l, c1})
			for _, c2 := range cont {
				runesLine([]byte{l, c1, c2})
				runesLine([]byte{l, c1, c2, 0x80})
				runesLine([]byte{l, c1, c2, 0xbf, 0x41})
			}
		}
	}
	for _, r := range []int32{0, 0x41, 0x7f, 0x80, 0x7ff, 0x800, 0xd7ff, 0xd800, 0xdfff, 0xe000, 0xfffd, 0xffff, 0x10000, 0x10ffff, 0x110000, -1, 1<<31 - 1, -1 << 31} {
		encLine([]int32{r})
	}
	for i := 0; i < n; i++ {
		b := c.R.Bytes(c.R.Intn(7))
		for j := range b {
			if c.R.P(1, 2) {
				b[j] = Pick(c.R, lead)
			} else if c.R.P(1, 2) {
				b[j] = Pick(c.R, cont)
			}
		}
		runesLine(b)
		inc := Pick(c.R, incs)
		if c.R.P(1, 2) {
			inc = c.R.Intn(600) - 50
		}
		next(string(b), inc)
		var rr []int32
		for j := c.R.Intn(4); j >= 0; j-- {
			rr = append(rr, int32(c.R.U64()>>uint(32+c.R.Intn(28)))-int32(c.R.Intn(3)))
		}
		encLine(rr)
	}
}

func runTRW2C15(c *Ctx) {
	for b := 0; b < 256; b++ {
		got := content.VerifTrHexDigit(byte(b))
		trEmit(c, "contentHexDigit", trInts(int64(b)), fmt.Sprint(got))
		c.Case(fmt.Sprintf("trchex%d", b), true)
		if want := pdf.VerifTrHexDigit(byte(b)); got != want {
			c.Violate("tr-contentHex", "tr-content-hexDigit", fmt.Sprintf("content.hexDigit(%d) = %d, pdf.hexDigit = %d", b, got, want), fmt.Sprint(b))
		}
	}
	name := func(n []byte) {
		trEmit(c, "contentNameClass", []string{trHex(n)}, fmt.Sprintf("%v %v %v",
			content.VerifTrIsASCIIFilter(pdf.Name(n)), content.VerifTrNeedsClose(content.OpName(n)), content.VerifTrIsStrokeOp(content.OpName(n))))
		c.Case("trcname"+trHex(n), true)
	}
	words := []string{"ASCIIHexDecode", "AHx", "ASCII85Decode", "A85", "FlateDecode", "Fl", "LZWDecode", "S", "s", "B", "B*", "b", "b*", "f", "F", "f*", "n", "W", "W*", "q", "Q", "BT", ""}
	for _, w := range words {
		name([]byte(w))
		for i := range w {
			name([]byte(w[:i]))
			m := []byte(w)
			m[i] ^= 0x20
			name(m)
			name(append([]byte(w), w[i]))
		}
	}
	n := 1000
	if c.Thorough {
		n = 20000
	}
	for i := 0; i < n; i++ {
		b := c.R.Bytes(c.R.Intn(4))
		for j := range b {
			b[j] = Pick(c.R, []byte("SsBbfFn*WA8H5x"))
		}
		name(b)
	}
}

package main

import (
	"bytes"
	"fmt"
	"io"
	"sync"
	"time"

	"seehuhn.de/go/pdf"
)

// ---- C08: CCITTFax output bound on extremely compressible bodies ----
//
// Every combination of /Rows {absent, small, huge (above the geometric cap), out of range} x
// /EndOfBlock {absent, true, false} x K {<0, 0, >0} x /Columns {1, 8, 1728, 65536, 2^20} is
// generated in every run, with a body of a few KiB that encodes far more rows than the cap
// min(MaxImageHeight, MaxImagePixels/Columns).  The decoded size must stay within
// cap rows x ceil(Columns/8); the reader is drained with a hard read budget so that a missing
// clamp cannot exhaust memory.

// fbBombRow: "white" = all white except the first pixel, "black" = all black except the last
// pixel (a final run that is a multiple of 64 would hit the known 1-D class and end the decode
// early, which would hide a missing clamp).
func fbBombRow(cols int, black bool) []byte {
	lb := (cols + 7) / 8
	row := make([]byte, lb)
	set := func(x int) { row[x/8] |= 1 << (7 - x%8) }
	// BlackIs1=false: a 1 bit is white
	if black {
		// runs of 161344 pixels and more in a 2-D row are the known class ccitt-2d-long-run
		for x := 69999; x < cols-1; x += 70000 {
			set(x)
		}
		if cols > 1 {
			set(cols - 1)
		}
	} else {
		for x := 1; x < cols; x++ {
			set(x)
		}
		if cols == 1 {
			row[0] = 0
		}
	}
	return row
}

// fbStripEOFB removes the trailing EOFB (000000000001 000000000001) and padding from a Group 4
// encoding and returns the bits before it.
func fbStripEOFB(enc []byte) (bits []byte, ok bool) {
	all := refBits(enc)
	pat := refBits([]byte{0x00, 0x10, 0x01})
	for end := len(all); end >= 24; end-- {
		if bytes.Equal(all[end-24:end], pat) {
			rest := all[end:]
			if bytes.Count(rest, []byte{1}) == 0 {
				return all[:end-24], true
			}
		}
	}
	return nil, false
}

// fbBombBody builds a body of about size bytes that keeps producing rows for as long as the
// reader accepts them.  rowsAvail is a lower bound on the number of rows it encodes.
func fbBombBody(cols, k int, eol, black bool, size int) (body []byte, rowsAvail int) {
	row := fbBombRow(cols, black)
	if k < 0 {
		// Group 4: two identical rows, EOFB stripped; every further identical row is a sequence
		// of V0 codes, i.e. 1 bits (at most 3 per row)
		f := pdf.FilterCCITTFax{K: k, Columns: cols}
		enc, err, _ := fbEncode(f, pdf.V1_7, append(append([]byte{}, row...), row...), NewRand(1), 0)
		if err != nil {
			return nil, 0
		}
		bits, ok := fbStripEOFB(enc)
		if !ok {
			return nil, 0
		}
		n := len(bits)
		for len(bits) < size*8 {
			bits = append(bits, 1)
		}
		return refBytes(bits), 2 + (len(bits)-n)/3 - 4
	}
	// Group 3 with K = 0 or 1: every row is coded one-dimensionally (K = 1: with a tag bit), so 8
	// identical rows fill a whole number of bytes and the block can be repeated
	block := bytes.Repeat(row, 8)
	f := pdf.FilterCCITTFax{K: k, Columns: cols, EndOfLine: eol, IgnoreEndOfBlock: true}
	enc, err, _ := fbEncode(f, pdf.V1_7, block, NewRand(1), 0)
	if err != nil || len(enc) == 0 {
		return nil, 0
	}
	reps := size/len(enc) + 1
	return bytes.Repeat(enc, reps), 8*reps - 4
}

func fbGeoCap(cols int) int { return max(1, min(1<<16, (128<<20)/max(cols, 1))) }

// fbBombOnce decodes the body through DecodeStream with a hard read budget and checks the
// output bound.  rows: the /Rows value to write (0 = absent); eob: 0 absent, 1 true, 2 false.
func fbBombOnce(cols, k int, rows int64, eob int, eol, black bool, body []byte) (ok bool, nrows int, detail string, dict pdf.Dict) {
	parms := pdf.Dict{"K": pdf.Integer(k), "Columns": pdf.Integer(cols)}
	if rows != 0 {
		parms["Rows"] = pdf.Integer(rows)
	}
	switch eob {
	case 1:
		parms["EndOfBlock"] = pdf.Boolean(true)
	case 2:
		parms["EndOfBlock"] = pdf.Boolean(false)
	}
	if eol {
		parms["EndOfLine"] = pdf.Boolean(true)
	}
	dict = pdf.Dict{"Filter": pdf.Name("CCITTFaxDecode"), "DecodeParms": parms}
	lb := (cols + 7) / 8
	capRows := fbGeoCap(cols)
	if rows > 0 && rows <= 1<<20 && int(rows) < capRows {
		capRows = int(rows)
	}
	bound := capRows * lb
	kind, outLen, det := fbDrainCount(dict, body, bound+2*lb+1)
	nrows = outLen / lb
	switch kind {
	case "panic", "other":
		return false, nrows, kind + ": " + det, dict
	case "toomuch":
		return false, nrows, fmt.Sprintf("CCITTFax K=%d Columns=%d Rows=%d EndOfBlock=%d: more than %d rows x %d bytes = %d bytes decoded from a %d byte body (read stopped at the hard budget)",
			k, cols, rows, eob, capRows, lb, bound, len(body)), dict
	}
	if outLen > bound {
		return false, nrows, fmt.Sprintf("CCITTFax K=%d Columns=%d Rows=%d EndOfBlock=%d: %d bytes decoded, bound is %d rows x %d bytes = %d",
			k, cols, rows, eob, outLen, capRows, lb, bound), dict
	}
	return true, nrows, kind, dict
}

// fbDrainCount runs DecodeStream and counts the decoded bytes without keeping them; reading
// stops at limit ("toomuch").
func fbDrainCount(dict pdf.Dict, body []byte, limit int) (kind string, n int, detail string) {
	defer func() {
		if p := recover(); p != nil {
			kind, detail = "panic", fmt.Sprint(p)
		}
	}()
	g := &fbGetter{meta: pdf.MetaInfo{Version: pdf.V2_0}}
	rd, err := pdf.DecodeStream(g, nil, pdf.NewStream(dict, body))
	if err != nil {
		if pdf.IsMalformed(err) {
			return "malformed", 0, err.Error()
		}
		return "other", 0, err.Error()
	}
	defer rd.Close()
	buf := make([]byte, 1<<20)
	for {
		k, err := rd.Read(buf)
		n += k
		if n > limit {
			return "toomuch", n, ""
		}
		if err == io.EOF {
			return "data", n, ""
		}
		if err != nil {
			if pdf.IsMalformed(err) {
				return "malformed", n, err.Error()
			}
			return "other", n, err.Error()
		}
	}
}

// replay input: "<cols> <k> <rows> <eob> <eol> <black> <size>"
func replayBomb(input string) (bool, string) {
	a := fbFields(input)
	if len(a) != 7 {
		return true, "bad replay input"
	}
	cols, k := fbAtoi(a[0]), fbAtoi(a[1])
	body, _ := fbBombBody(cols, k, a[4] == "1", a[5] == "1", fbAtoi(a[6]))
	if body == nil {
		return true, "no body"
	}
	ok, nrows, detail, _ := fbBombOnce(cols, k, int64(fbAtoi(a[2])), fbAtoi(a[3]), a[4] == "1", a[5] == "1", body)
	return ok, fmt.Sprintf("%d rows decoded; %s", nrows, detail)
}

type fbBombJob struct {
	cols, k     int
	rows        int64
	eob         int
	eol, black  bool
	want        int
	in          string
	size, avail int
	body        []byte
	ok          bool
	nrows       int
	detail      string
	dict        pdf.Dict
}

func runFBBombs(c *Ctx) {
	r := c.R.Fork()
	t0 := time.Now()
	var jobs []*fbBombJob
	combo := r.Intn(2)
	for _, cols := range []int{1, 8, 1728, 65536, 1 << 20} {
		for _, k := range []int{-1, 0, 1} {
			if r.P(1, 4) {
				k = map[int]int{-1: -1 - r.Intn(1000), 0: 0, 1: 1}[k]
			}
			capRows := fbGeoCap(cols)
			lb := (cols + 7) / 8
			// body sizes: enough rows to pass the cap (at most a few hundred KiB for narrow images,
			// a few KiB for wide ones)
			// /Rows classes: absent (or out of range, which parses to absent), small, huge (above the cap)
			rowsClasses := [][]int64{{0, 1 << 40, -7, 1<<20 + 1}, {3}, {int64(capRows) + 1, 1 << 20}}
			for _, rc := range rowsClasses {
				for eob := 0; eob < 3; eob++ {
					combo++
					variants := []int{combo}
					if c.Thorough { // every value of every class, both patterns, both EndOfLine settings
						variants = nil
						for i := 0; i < 4*len(rc); i++ {
							variants = append(variants, i)
						}
					}
					for _, vi := range variants {
						rows := rc[(vi/4+int(r.U64()%7))%len(rc)]
						if c.Thorough {
							rows = rc[vi/4]
						}
						black := vi%2 == 0
						eol := k >= 0 && (vi/2)%2 == 0
						want := capRows + 64
						if rows == 3 {
							want = 64
						}
						jobs = append(jobs, &fbBombJob{cols: cols, k: k, rows: rows, eob: eob, eol: eol, black: black, want: want})
						_ = lb
					}
				}
			}
		}
	}
	// the decodes are independent: four workers, results handled in generation order
	var wg sync.WaitGroup
	ch := make(chan *fbBombJob)
	for w := 0; w < 4; w++ {
		wg.Add(1)
		go func() {
			defer wg.Done()
			for j := range ch {
				j.size = 4096
				j.body, j.avail = fbBombBody(j.cols, j.k, j.eol, j.black, j.size)
				for j.body != nil && j.avail < j.want && j.size < 4<<20 {
					j.size *= 4
					j.body, j.avail = fbBombBody(j.cols, j.k, j.eol, j.black, j.size)
				}
				j.in = fmt.Sprintf("%d %d %d %d %s %s %d", j.cols, j.k, j.rows, j.eob, fbB(j.eol), fbB(j.black), j.size)
				if j.body != nil {
					j.ok, j.nrows, j.detail, j.dict = fbBombOnce(j.cols, j.k, j.rows, j.eob, j.eol, j.black, j.body)
				}
			}
		}()
	}
	for _, j := range jobs {
		ch <- j
	}
	close(ch)
	wg.Wait()
	for _, j := range jobs {
		if j.body == nil {
			c.Stat("bomb_no_body")
			continue
		}
		c.Case("bomb:"+j.in, true)
		c.Stat(fmt.Sprintf("bomb_cols_%d", j.cols))
		if !j.ok {
			key := "unbounded-output"
			if len(j.detail) > 5 && (j.detail[:5] == "panic" || j.detail[:5] == "other") {
				key = "non-malformed-error"
				if j.detail[:5] == "panic" {
					key = "panic"
				}
			}
			c.Violate("fb-bomb", key, j.detail, j.in)
			continue
		}
		// effective MaxRows: when the body holds more rows than the cap and the budget admits the
		// buffers, exactly MaxRows rows come out; the model computes the clamp
		f, _ := pdf.MakeFilter("CCITTFaxDecode", j.dict["DecodeParms"].(pdf.Dict))
		ff := f.(pdf.FilterCCITTFax)
		if j.avail >= j.want && j.detail == "data" {
			flags := fbCC{eol: ff.EndOfLine, ignEOB: ff.IgnoreEndOfBlock}.flags()
			c.Emit(fmt.Sprintf("FB cmaxrows %d %d %d %s %d", ff.Columns, ff.K, ff.Rows, flags, len(j.body)), fmt.Sprint(j.nrows))
			c.Stat("bomb_clamp_binding")
		} else {
			c.Stat("bomb_" + j.detail)
		}
	}
	c.StatN("bomb_ms", int(time.Since(t0).Milliseconds()))
	_ = io.EOF
}

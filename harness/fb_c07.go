package main

import (
	"bytes"
	"fmt"
	"io"
	"os"
	"path/filepath"
	"runtime/debug"
	"strings"

	"golang.org/x/image/ccitt"
	"seehuhn.de/go/pdf"
)

// ---- C07: independent codecs ----

// Reference predictor codec written from the PNG specification (filter types 0-4, bpp = bytes per
// complete pixel, at least 1) and TIFF 6.0 section 14 (horizontal differencing per sample), as
// PDF applies them (a tag byte in front of every PNG row).  It shares no code with the library.

func refPaeth(a, b, c int) int {
	p := a + b - c
	pa, pb, pc := p-a, p-b, p-c
	if pa < 0 {
		pa = -pa
	}
	if pb < 0 {
		pb = -pb
	}
	if pc < 0 {
		pc = -pc
	}
	if pa <= pb && pa <= pc {
		return a
	}
	if pb <= pc {
		return b
	}
	return c
}

func refPNGPred(ft int, a, b, c int) int {
	switch ft {
	case 1:
		return a
	case 2:
		return b
	case 3:
		return (a + b) / 2
	case 4:
		return refPaeth(a, b, c)
	}
	return 0
}

func refBits(row []byte) []byte {
	bits := make([]byte, 0, len(row)*8)
	for _, b := range row {
		for i := 7; i >= 0; i-- {
			bits = append(bits, (b>>uint(i))&1)
		}
	}
	return bits
}

func refBytes(bits []byte) []byte {
	out := make([]byte, (len(bits)+7)/8)
	for i, b := range bits {
		out[i/8] |= b << uint(7-i%8)
	}
	return out
}

func refTIFFRow(dec bool, colors, bpc, columns int, row []byte) []byte {
	bits := refBits(row)
	n := colors * columns
	samples := make([]int, n)
	for i := range samples {
		for j := 0; j < bpc; j++ {
			samples[i] = samples[i]<<1 | int(bits[i*bpc+j])
		}
	}
	m := 1 << uint(bpc)
	out := make([]int, n)
	for i := range samples {
		switch {
		case i < colors:
			out[i] = samples[i]
		case dec:
			out[i] = (samples[i] + out[i-colors]) % m
		default:
			out[i] = (samples[i] - samples[i-colors] + m) % m
		}
	}
	for i, s := range out {
		for j := 0; j < bpc; j++ {
			bits[i*bpc+j] = byte(s>>uint(bpc-1-j)) & 1
		}
	}
	return refBytes(bits)
}

// refPredEncode: whole rows only.  The PNG predictors 10-14 use the declared filter type for every
// row, 15 the per-row tags.
func refPredEncode(p fbPred, tags []byte, data []byte) []byte {
	return refPredEncodeTags(p, tags, data, false)
}

// refPredEncodeTags: with freeTags an encoder that chooses the PNG filter type per row (tags[i])
// whatever value >= 10 /Predictor declares — a reader has to follow the tag byte of each row.
func refPredEncodeTags(p fbPred, tags []byte, data []byte, freeTags bool) []byte {
	if p.pred <= 1 {
		return data
	}
	rb := (p.colors*p.bpc*p.columns + 7) / 8
	bpp := max(1, (p.colors*p.bpc+7)/8)
	prior := make([]byte, rb)
	var out []byte
	for i := 0; i*rb < len(data); i++ {
		row := data[i*rb : (i+1)*rb]
		if p.pred == 2 {
			out = append(out, refTIFFRow(false, p.colors, p.bpc, p.columns, row)...)
			continue
		}
		ft := p.pred - 10
		if p.pred == 15 || freeTags {
			ft = int(tags[i])
		}
		out = append(out, byte(ft))
		for x := range row {
			a, c := 0, 0
			if x >= bpp {
				a, c = int(row[x-bpp]), int(prior[x-bpp])
			}
			out = append(out, byte(int(row[x])-refPNGPred(ft, a, int(prior[x]), c)))
		}
		prior = row
	}
	return out
}

func refPredDecode(p fbPred, enc []byte) []byte {
	if p.pred <= 1 {
		return enc
	}
	rb := (p.colors*p.bpc*p.columns + 7) / 8
	bpp := max(1, (p.colors*p.bpc+7)/8)
	need := rb + 1
	if p.pred == 2 {
		need = rb
	}
	prior := make([]byte, rb)
	var out []byte
	for i := 0; (i+1)*need <= len(enc); i++ {
		row := enc[i*need : (i+1)*need]
		if p.pred == 2 {
			out = append(out, refTIFFRow(true, p.colors, p.bpc, p.columns, row)...)
			continue
		}
		ft := int(row[0])
		rec := make([]byte, rb)
		for x := 0; x < rb; x++ {
			a, c := 0, 0
			if x >= bpp {
				a, c = int(rec[x-bpp]), int(prior[x-bpp])
			}
			rec[x] = byte(int(row[1+x]) + refPNGPred(ft, a, int(prior[x]), c))
		}
		out = append(out, rec...)
		prior = rec
	}
	return out
}

// oracleForeignPredict: the reference decoder reads the library's predictor output, and the
// library reads the reference encoder's output.
func oracleForeignPredict(p fbPred, data []byte, r *Rand) (bool, string) {
	enc, err := fbPredEncodeHook(p, data, r, r.Intn(4))
	if err != nil {
		return false, "library encoder failed: " + err.Error()
	}
	if got := refPredDecode(p, enc); !bytes.Equal(got, data) {
		return false, fmt.Sprintf("reference decoder reads library output differently: in=%s enc=%s got=%s", fbTrunc(data), fbTrunc(enc), fbTrunc(got))
	}
	rb := (p.colors*p.bpc*p.columns + 7) / 8
	tags := make([]byte, len(data)/max(rb, 1)+1)
	for i := range tags {
		tags[i] = byte(r.Intn(5))
	}
	ref := refPredEncode(p, tags, data)
	out, word := fbPredDecodeHook(p, ref, r, r.Intn(4))
	if word != "ok" || !bytes.Equal(out, data) {
		return false, fmt.Sprintf("library reads reference encoder output differently: in=%s enc=%s got=%s %s", fbTrunc(data), fbTrunc(ref), fbTrunc(out), word)
	}
	// PNG: an independent encoder that picks the filter type per row while declaring /Predictor 10..14
	if p.pred >= 10 {
		differs := false
		for i := range tags {
			if p.pred == 15 || int(tags[i]) != p.pred-10 {
				differs = true
			}
		}
		ref2 := refPredEncodeTags(p, tags, data, true)
		out2, word2 := fbPredDecodeHook(p, ref2, r, r.Intn(4))
		if differs && (word2 != "ok" || !bytes.Equal(out2, data)) {
			return false, fmt.Sprintf("rowtag: /Predictor %d declared, rows tagged %v: the library does not follow the row tags: in=%s enc=%s got=%s %s", p.pred, tags[:min(len(tags), 6)], fbTrunc(data), fbTrunc(ref2), fbTrunc(out2), word2)
		}
	}
	return true, ""
}

// replay input: "<colors> <bpc> <columns> <pred> <datahex>"
func replayForeignPredict(input string) (bool, string) {
	a := fbFields(input)
	if len(a) != 5 {
		return true, "bad replay input"
	}
	p := fbPred{fbAtoi(a[0]), fbAtoi(a[1]), fbAtoi(a[2]), fbAtoi(a[3])}
	return oracleForeignPredict(p, fbHexDecode(a[4]), NewRand(1))
}

// oracleForeignCCITT: golang.org/x/image/ccitt decodes the library's output
// (Group 4: K<0, with and without EncodedByteAlign; Group 3 one-dimensional with EOL codes: K=0,
// EndOfLine; both with and without the end-of-block pattern).
func oracleForeignCCITT(p fbCC, data []byte) (bool, string) {
	enc, err, pan := fbEncode(p.filter(), pdf.V1_7, data, NewRand(1), 0)
	if pan != "" || err != nil {
		return false, fmt.Sprintf("library encoder failed: %v %s", err, pan)
	}
	sf := ccitt.Group4
	if p.k == 0 {
		sf = ccitt.Group3
	}
	nrows := len(data) / p.lineBytes()
	rd := ccitt.NewReader(bytes.NewReader(enc), ccitt.MSB, sf, p.effCols(), nrows, &ccitt.Options{Invert: p.blackIs1, Align: p.align})
	got, err := io.ReadAll(rd)
	if err != nil {
		return false, fmt.Sprintf("x/image/ccitt cannot read the library's output: %v (in=%s enc=%s)", err, fbTrunc(data), fbTrunc(enc))
	}
	if !bytes.Equal(got, data) {
		return false, fmt.Sprintf("x/image/ccitt reads the library's output differently: in=%s enc=%s got=%s", fbTrunc(data), fbTrunc(enc), fbTrunc(got))
	}
	return true, ""
}

// replay input: "<cols> <k> <rows> <flags> <datahex>"
func replayForeignCCITT(input string) (bool, string) {
	a := fbFields(input)
	if len(a) != 5 {
		return true, "bad replay input"
	}
	return oracleForeignCCITT(fbCCOf(fbAtoi(a[0]), fbAtoi(a[1]), fbAtoi(a[2]), a[3]), fbHexDecode(a[4]))
}

func runFBForeign(c *Ctx) {
	r := c.R.Fork()
	n := 1200
	if c.Thorough {
		n = 15000
	}
	for i := 0; i < n; i++ {
		p := fbGenPred(r, false)
		err, rb, _ := pdf.VerifPredictValidate(p.params())
		if err != nil || p.pred == 1 {
			continue
		}
		data := fbGenRowData(r, rb*(1+r.Intn(4)))
		ok, desc := oracleForeignPredict(p, data, r)
		c.Case(fmt.Sprintf("fp:%s:%x", p, data), true)
		c.Stat(fmt.Sprintf("foreign_pred_%d", p.pred))
		if !ok {
			key := "foreign-predict"
			if strings.HasPrefix(desc, "rowtag:") {
				key = "foreign-predict-rowtag"
			}
			c.Violate("fb-foreign-predict", key, fmt.Sprintf("predictor %v: %s", p, desc), fmt.Sprintf("%s %s", p, hexWire(data)))
		}
		// the Lean Spec codecs (compiled) on the same data: they must read the library's output and
		// produce what the reference encoder produces (three-way agreement)
		enc, err := fbPredEncodeHook(p, data, r, 0)
		if err == nil {
			c.Emit(fmt.Sprintf("FB spdec %s %s", p, hexWire(enc)), hexWire(data))
			tags := fbPredTags(p, rb, enc)
			if p.pred != 15 {
				tags = nil
			}
			c.Emit(fmt.Sprintf("FB spenc %s %s %s", p, hexWire(tags), hexWire(data)), "ok "+hexWire(enc))
		}
		if i < 2 {
			c.Sample(fmt.Sprintf("foreign predictor %v %s", p, fbTrunc(data)))
		}
	}
	runFBPredGrid(c, true)
	for i := 0; i < n; i++ {
		p := fbGenCC(r)
		p.ignEOB = r.P(1, 3) // streams without EOFB / RTC (former class ccitt-noeob)
		p.align = r.P(1, 3)  // EncodedByteAlign (former class ccitt-bytealign)
		switch r.Intn(3) {
		case 0:
			// x/image/ccitt's Group3 wants an EOL code before every row; with EOL codes the two
			// implementations put the fill bits of EncodedByteAlign at different places (before /
			// after the EOL, see notes/FB.md), so Group 3 is compared without alignment
			p.k, p.eol, p.align = 0, true, false
		default:
			if p.k >= 0 {
				p.k = -1
			}
		}
		nrows := 1 + r.Intn(5)
		p.rows = Pick(r, []int{0, nrows})
		data := fbGenCCData(r, p, nrows)
		if !fbCCAdmissible(p, data) {
			c.Stat("foreign_ccitt_skipped_inadmissible")
			continue
		}
		ok, desc := oracleForeignCCITT(p, data)
		c.Case(fmt.Sprintf("fc:%s:%x", p, data), true)
		c.Stat(fmt.Sprintf("foreign_ccitt_k%d", min(max(p.k, -1), 1)))
		if cl := fbCCClass(p, data); cl != "" {
			c.Stat("foreign_ccitt_class_" + cl)
		}
		if !ok {
			c.Violate("fb-foreign-ccitt", "foreign-ccitt", fmt.Sprintf("CCITTFax %v: %s", p, desc), fmt.Sprintf("%s %s", p, hexWire(data)))
		}
	}
	runFBXImageSamples(c)
}

// ---- files of an independent encoder: the test data of golang.org/x/image/ccitt ----

// fbXImageTestdata: the testdata directory of the x/image module in the module cache, or "".
func fbXImageTestdata() string {
	version := ""
	if bi, ok := debug.ReadBuildInfo(); ok {
		for _, d := range bi.Deps {
			if d.Path == "golang.org/x/image" {
				version = d.Version
			}
		}
	}
	if version == "" {
		return ""
	}
	var roots []string
	if v := os.Getenv("GOMODCACHE"); v != "" {
		roots = append(roots, v)
	}
	if v := os.Getenv("GOPATH"); v != "" {
		for _, g := range filepath.SplitList(v) {
			roots = append(roots, filepath.Join(g, "pkg", "mod"))
		}
	}
	if h, err := os.UserHomeDir(); err == nil {
		roots = append(roots, filepath.Join(h, "go", "pkg", "mod"))
	}
	for _, root := range roots {
		dir := filepath.Join(root, "golang.org", "x", "image@"+version, "ccitt", "testdata")
		if st, err := os.Stat(dir); err == nil && st.IsDir() {
			return dir
		}
	}
	return ""
}

type fbXSample struct {
	file                 string
	group4, align, trunc bool
}

// the 153x55 gopher, written by an encoder that is unrelated to the library
var fbXSamples = []fbXSample{
	{"bw-gopher.ccitt_group4", true, false, false},
	{"bw-gopher-inverted.ccitt_group4", true, false, false},
	{"bw-gopher-aligned.ccitt_group4", true, true, false},
	{"bw-gopher-inverted-aligned.ccitt_group4", true, true, false},
	{"bw-gopher-truncated0.ccitt_group4", true, false, true},
	{"bw-gopher-truncated1.ccitt_group4", true, false, true},
	{"bw-gopher.ccitt_group3", false, false, false},
	{"bw-gopher-inverted.ccitt_group3", false, false, false},
	{"bw-gopher-truncated0.ccitt_group3", false, false, true},
	{"bw-gopher-truncated1.ccitt_group3", false, false, true},
	// bw-gopher-aligned.ccitt_group3 and -inverted-aligned: EOL codes AND fill bits, [EOL][fill][data];
	// the library expects [data][fill][EOL] (interoperability ambiguity, see notes/FB.md): not compared
}

// oracleXImageSample: the library decodes the sample to what x/image/ccitt decodes it to.
func oracleXImageSample(sm fbXSample, body []byte, blackIs1, ignEOB bool) (ok bool, detail string, p fbCC) {
	const w, h = 153, 55
	sf := ccitt.Group4
	p = fbCC{cols: w, k: -1, rows: h, align: sm.align, blackIs1: blackIs1, ignEOB: ignEOB}
	if !sm.group4 {
		sf = ccitt.Group3
		p.k, p.eol = 0, true
	}
	want, err := io.ReadAll(ccitt.NewReader(bytes.NewReader(body), ccitt.MSB, sf, w, h, &ccitt.Options{Invert: blackIs1, Align: sm.align}))
	if err != nil || len(want) != h*((w+7)/8) {
		return true, fmt.Sprintf("x/image/ccitt itself does not read %s (%v, %d bytes): not compared", sm.file, err, len(want)), p
	}
	got, err, pan := fbDecode(p.filter(), pdf.V1_7, body, NewRand(1), 0, 0)
	if pan != "" {
		return false, "the library panics: " + pan, p
	}
	if err != nil || !bytes.Equal(got, want) {
		same := 0
		for same < len(got) && same < len(want) && got[same] == want[same] {
			same++
		}
		return false, fmt.Sprintf("%s (%s): the library returns %d bytes (err=%v), the first %d equal to the %d bytes x/image/ccitt decodes", sm.file, p, len(got), err, same, len(want)), p
	}
	return true, "", p
}

// replay input: "<sample index> <blackIs1 0|1> <ignEOB 0|1>"
func replayXImageSample(input string) (bool, string) {
	a := fbFields(input)
	dir := fbXImageTestdata()
	if len(a) != 3 || dir == "" || fbAtoi(a[0]) < 0 || fbAtoi(a[0]) >= len(fbXSamples) {
		return true, "bad replay input or samples unavailable"
	}
	sm := fbXSamples[fbAtoi(a[0])]
	body, err := os.ReadFile(filepath.Join(dir, sm.file))
	if err != nil {
		return true, err.Error()
	}
	ok, d, _ := oracleXImageSample(sm, body, a[1] == "1", a[2] == "1")
	return ok, d
}

func runFBXImageSamples(c *Ctx) {
	dir := fbXImageTestdata()
	if dir == "" {
		c.Stat("ximage_samples_unavailable")
		c.Sample("x/image/ccitt testdata not found in the module cache: independent-encoder samples not run")
		return
	}
	for i, sm := range fbXSamples {
		body, err := os.ReadFile(filepath.Join(dir, sm.file))
		if err != nil {
			c.Stat("ximage_samples_unavailable")
			continue
		}
		for _, b1 := range []bool{false, true} {
			for _, ign := range []bool{false, true} {
				ok, detail, p := oracleXImageSample(sm, body, b1, ign)
				c.Case(fmt.Sprintf("xs:%s:%v:%v", sm.file, b1, ign), true)
				c.Stat("ximage_sample")
				if !ok {
					c.Violate("fb-foreign-sample", "foreign-ccitt-sample", detail, fmt.Sprintf("%d %d %d", i, fbB2i(b1), fbB2i(ign)))
				} else if detail != "" {
					c.Stat("ximage_sample_not_compared")
				}
				if !b1 && !ign { // the model reader on the same file
					line, _, _ := fbCCDecodeLine(p, body, c.R, 0, 0)
					c.Emit(fmt.Sprintf("FB cdec %s %s", p, hexWire(body)), line)
				}
			}
		}
		if i < 2 {
			c.Sample(fmt.Sprintf("x/image sample %s (%d bytes)", sm.file, len(body)))
		}
	}
}

func fbB2i(b bool) int {
	if b {
		return 1
	}
	return 0
}

package main

import (
	"bytes"
	"fmt"
	"io"

	"golang.org/x/image/ccitt"
	"seehuhn.de/go/pdf"
)

// ---- C07: independent codecs ----

// Reference predictor codec written from the PNG specification (filter types 0-4, bpp = bytes per
// complete pixel, at least 1) and TIFF 6.0 section 14 (horizontal differencing per sample), as
// PDF applies them (a tag byte in front of every PNG row).  It shares no code with the library.

func refPaeth(a, b, c int) int {
	p := a + b - c
	pa, pb, pc := p-a, p-b, p-c
	if pa < 0 {
		pa = -pa
	}
	if pb < 0 {
		pb = -pb
	}
	if pc < 0 {
		pc = -pc
	}
	if pa <= pb && pa <= pc {
		return a
	}
	if pb <= pc {
		return b
	}
	return c
}

func refPNGPred(ft int, a, b, c int) int {
	switch ft {
	case 1:
		return a
	case 2:
		return b
	case 3:
		return (a + b) / 2
	case 4:
		return refPaeth(a, b, c)
	}
	return 0
}

func refBits(row []byte) []byte {
	bits := make([]byte, 0, len(row)*8)
	for _, b := range row {
		for i := 7; i >= 0; i-- {
			bits = append(bits, (b>>uint(i))&1)
		}
	}
	return bits
}

func refBytes(bits []byte) []byte {
	out := make([]byte, (len(bits)+7)/8)
	for i, b := range bits {
		out[i/8] |= b << uint(7-i%8)
	}
	return out
}

func refTIFFRow(dec bool, colors, bpc, columns int, row []byte) []byte {
	bits := refBits(row)
	n := colors * columns
	samples := make([]int, n)
	for i := range samples {
		for j := 0; j < bpc; j++ {
			samples[i] = samples[i]<<1 | int(bits[i*bpc+j])
		}
	}
	m := 1 << uint(bpc)
	out := make([]int, n)
	for i := range samples {
		switch {
		case i < colors:
			out[i] = samples[i]
		case dec:
			out[i] = (samples[i] + out[i-colors]) % m
		default:
			out[i] = (samples[i] - samples[i-colors] + m) % m
		}
	}
	for i, s := range out {
		for j := 0; j < bpc; j++ {
			bits[i*bpc+j] = byte(s>>uint(bpc-1-j)) & 1
		}
	}
	return refBytes(bits)
}

// refPredEncode: whole rows only.
func refPredEncode(p fbPred, tags []byte, data []byte) []byte {
	if p.pred <= 1 {
		return data
	}
	rb := (p.colors*p.bpc*p.columns + 7) / 8
	bpp := max(1, (p.colors*p.bpc+7)/8)
	prior := make([]byte, rb)
	var out []byte
	for i := 0; i*rb < len(data); i++ {
		row := data[i*rb : (i+1)*rb]
		if p.pred == 2 {
			out = append(out, refTIFFRow(false, p.colors, p.bpc, p.columns, row)...)
			continue
		}
		ft := p.pred - 10
		if p.pred == 15 {
			ft = int(tags[i])
		}
		out = append(out, byte(ft))
		for x := range row {
			a, c := 0, 0
			if x >= bpp {
				a, c = int(row[x-bpp]), int(prior[x-bpp])
			}
			out = append(out, byte(int(row[x])-refPNGPred(ft, a, int(prior[x]), c)))
		}
		prior = row
	}
	return out
}

func refPredDecode(p fbPred, enc []byte) []byte {
	if p.pred <= 1 {
		return enc
	}
	rb := (p.colors*p.bpc*p.columns + 7) / 8
	bpp := max(1, (p.colors*p.bpc+7)/8)
	need := rb + 1
	if p.pred == 2 {
		need = rb
	}
	prior := make([]byte, rb)
	var out []byte
	for i := 0; (i+1)*need <= len(enc); i++ {
		row := enc[i*need : (i+1)*need]
		if p.pred == 2 {
			out = append(out, refTIFFRow(true, p.colors, p.bpc, p.columns, row)...)
			continue
		}
		ft := int(row[0])
		rec := make([]byte, rb)
		for x := 0; x < rb; x++ {
			a, c := 0, 0
			if x >= bpp {
				a, c = int(rec[x-bpp]), int(prior[x-bpp])
			}
			rec[x] = byte(int(row[1+x]) + refPNGPred(ft, a, int(prior[x]), c))
		}
		out = append(out, rec...)
		prior = rec
	}
	return out
}

// oracleForeignPredict: the reference decoder reads the library's predictor output, and the
// library reads the reference encoder's output.
func oracleForeignPredict(p fbPred, data []byte, r *Rand) (bool, string) {
	enc, err := fbPredEncodeHook(p, data, r, r.Intn(4))
	if err != nil {
		return false, "library encoder failed: " + err.Error()
	}
	if got := refPredDecode(p, enc); !bytes.Equal(got, data) {
		return false, fmt.Sprintf("reference decoder reads library output differently: in=%s enc=%s got=%s", fbTrunc(data), fbTrunc(enc), fbTrunc(got))
	}
	rb := (p.colors*p.bpc*p.columns + 7) / 8
	tags := make([]byte, len(data)/max(rb, 1)+1)
	for i := range tags {
		tags[i] = byte(r.Intn(5))
	}
	ref := refPredEncode(p, tags, data)
	out, word := fbPredDecodeHook(p, ref, r, r.Intn(4))
	if word != "ok" || !bytes.Equal(out, data) {
		return false, fmt.Sprintf("library reads reference encoder output differently: in=%s enc=%s got=%s %s", fbTrunc(data), fbTrunc(ref), fbTrunc(out), word)
	}
	return true, ""
}

// replay input: "<colors> <bpc> <columns> <pred> <datahex>"
func replayForeignPredict(input string) (bool, string) {
	a := fbFields(input)
	if len(a) != 5 {
		return true, "bad replay input"
	}
	p := fbPred{fbAtoi(a[0]), fbAtoi(a[1]), fbAtoi(a[2]), fbAtoi(a[3])}
	return oracleForeignPredict(p, fbHexDecode(a[4]), NewRand(1))
}

// oracleForeignCCITT: golang.org/x/image/ccitt decodes the library's output
// (Group 4: K<0; Group 3 one-dimensional with EOL: K=0, EndOfLine).
func oracleForeignCCITT(p fbCC, data []byte) (bool, string) {
	enc, err, pan := fbEncode(p.filter(), pdf.V1_7, data, NewRand(1), 0)
	if pan != "" || err != nil {
		return false, fmt.Sprintf("library encoder failed: %v %s", err, pan)
	}
	sf := ccitt.Group4
	if p.k == 0 {
		sf = ccitt.Group3
	}
	nrows := len(data) / p.lineBytes()
	rd := ccitt.NewReader(bytes.NewReader(enc), ccitt.MSB, sf, p.effCols(), nrows, &ccitt.Options{Invert: p.blackIs1, Align: p.align})
	got, err := io.ReadAll(rd)
	if err != nil {
		return false, fmt.Sprintf("x/image/ccitt cannot read the library's output: %v (in=%s enc=%s)", err, fbTrunc(data), fbTrunc(enc))
	}
	if !bytes.Equal(got, data) {
		return false, fmt.Sprintf("x/image/ccitt reads the library's output differently: in=%s enc=%s got=%s", fbTrunc(data), fbTrunc(enc), fbTrunc(got))
	}
	return true, ""
}

// replay input: "<cols> <k> <rows> <flags> <datahex>"
func replayForeignCCITT(input string) (bool, string) {
	a := fbFields(input)
	if len(a) != 5 {
		return true, "bad replay input"
	}
	return oracleForeignCCITT(fbCCOf(fbAtoi(a[0]), fbAtoi(a[1]), fbAtoi(a[2]), a[3]), fbHexDecode(a[4]))
}

func runFBForeign(c *Ctx) {
	r := c.R.Fork()
	n := 1200
	if c.Thorough {
		n = 15000
	}
	for i := 0; i < n; i++ {
		p := fbGenPred(r, false)
		err, rb, _ := pdf.VerifPredictValidate(p.params())
		if err != nil || p.pred == 1 {
			continue
		}
		data := fbGenRowData(r, rb*(1+r.Intn(4)))
		ok, desc := oracleForeignPredict(p, data, r)
		c.Case(fmt.Sprintf("fp:%s:%x", p, data), true)
		c.Stat(fmt.Sprintf("foreign_pred_%d", p.pred))
		if !ok {
			c.Violate("fb-foreign-predict", "foreign-predict", fmt.Sprintf("predictor %v: %s", p, desc), fmt.Sprintf("%s %s", p, hexWire(data)))
		}
		// the Lean Spec codecs (compiled) on the same data: they must read the library's output and
		// produce what the reference encoder produces (three-way agreement)
		enc, err := fbPredEncodeHook(p, data, r, 0)
		if err == nil {
			c.Emit(fmt.Sprintf("FB spdec %s %s", p, hexWire(enc)), hexWire(data))
			tags := fbPredTags(p, rb, enc)
			if p.pred != 15 {
				tags = nil
			}
			c.Emit(fmt.Sprintf("FB spenc %s %s %s", p, hexWire(tags), hexWire(data)), "ok "+hexWire(enc))
		}
		if i < 2 {
			c.Sample(fmt.Sprintf("foreign predictor %v %s", p, fbTrunc(data)))
		}
	}
	for i := 0; i < n; i++ {
		p := fbGenCC(r)
		p.ignEOB = false
		switch r.Intn(3) {
		case 0:
			p.k, p.eol, p.align = 0, true, false // EncodedByteAlign: see notes/FB.md (layout conventions differ)
		default:
			if p.k >= 0 {
				p.k = -1
			}
			p.align = false
		}
		nrows := 1 + r.Intn(5)
		p.rows = Pick(r, []int{0, nrows})
		data := fbGenCCData(r, p, nrows)
		if fbCCClass(p, data) != "" || !fbCCAdmissible(p, data) {
			c.Stat("foreign_ccitt_skipped_known_class")
			continue
		}
		ok, desc := oracleForeignCCITT(p, data)
		c.Case(fmt.Sprintf("fc:%s:%x", p, data), true)
		c.Stat(fmt.Sprintf("foreign_ccitt_k%d", min(max(p.k, -1), 1)))
		if !ok {
			c.Violate("fb-foreign-ccitt", "foreign-ccitt", fmt.Sprintf("CCITTFax %v: %s", p, desc), fmt.Sprintf("%s %s", p, hexWire(data)))
		}
	}
}

package main

// C14 (FNT) — width arrays: encodeCompositeWidths / decodeCompositeWidths (W)
// and setSimpleWidths / getSimpleWidths (FirstChar, LastChar, Widths with
// MissingWidth).  Correspondence with Model/FNTWidths.lean on integer widths;
// oracle widths_rt on the implementation (also with fractional widths).

import (
	"fmt"
	"io"
	"math"
	"sort"
	"strings"

	"seehuhn.de/go/pdf"
	"seehuhn.de/go/pdf/font/dict"
	"seehuhn.de/go/pdf/graphics/extract"
	"seehuhn.de/go/postscript/cid"
)

func init() {
	addRun("C14", "width arrays: random CID->width maps (runs of equal widths, consecutive and scattered CIDs, boundary CIDs 0/65535, integer widths for the correspondence and fractional ones for the oracle), hand-made and malformed W arrays (type errors, descending ranges, negative CIDs, odd lengths, entry-count cap), simple-font width vectors with random encodings and default widths; non-trivial when at least two widths are stored; distinct by the operation line", runFntWidths)
	addReplay("C14", "fnt-widths-w", fntReplayW)
	addReplay("C14", "fnt-widths-simple", fntReplaySimpleW)
}

type fntGetter struct{}

func (fntGetter) GetMeta() *pdf.MetaInfo { return &pdf.MetaInfo{Version: pdf.V2_0} }
func (fntGetter) Get(ref pdf.Reference, canObjStm bool) (pdf.Native, error) {
	return nil, nil
}

// fntArrBody is the wire form of the elements of an array ("-" for none).
func fntArrBody(a pdf.Array) string {
	if len(a) == 0 {
		return "-"
	}
	return strings.TrimSuffix(strings.TrimPrefix(wire(a), "a"), "]")
}

func fntCursor() pdf.Cursor { return pdf.NewCursor(fntGetter{}) }

// fntNative converts pdf.Number etc. to native objects, recursively.
func fntNative(o pdf.Object) pdf.Object {
	switch x := o.(type) {
	case nil:
		return nil
	case pdf.Array:
		a := make(pdf.Array, len(x))
		for i, e := range x {
			a[i] = fntNative(e)
		}
		return a
	default:
		return o.AsPDF(0)
	}
}

func fntEntriesStr(m map[cid.CID]float64) string {
	if len(m) == 0 {
		return "-"
	}
	keys := make([]int, 0, len(m))
	for k := range m {
		keys = append(keys, int(k))
	}
	sort.Ints(keys)
	parts := make([]string, len(keys))
	for i, k := range keys {
		parts[i] = fmt.Sprintf("%d=%d", k, int64(math.Round(m[cid.CID(k)])))
	}
	return strings.Join(parts, ",")
}

func fntGenWidthMap(r *Rand, fractional bool) map[cid.CID]float64 {
	m := map[cid.CID]float64{}
	n := r.Intn(40)
	if r.P(1, 8) {
		n = 200 + r.Intn(400)
	}
	palette := []float64{500, 500, 500, 600, 250, 1000, 0, 722}
	if r.P(1, 4) {
		palette = []float64{600}
	}
	c := cid.CID(r.Intn(5))
	if r.P(1, 6) {
		c = cid.CID(65535 - r.Intn(60))
	}
	for i := 0; i < n; i++ {
		w := Pick(r, palette)
		if r.P(1, 3) && i > 0 {
			// continue the run with the same width
			w = m[c-1]
		}
		if r.P(1, 12) {
			w = float64(r.Intn(2000) - 200)
		}
		if fractional && r.P(1, 6) {
			w += float64(r.Intn(8)) / 8
		}
		if c > 65535 {
			break
		}
		m[c] = w
		switch r.Intn(8) {
		case 0:
			c += cid.CID(2 + r.Intn(3))
		case 1:
			c += cid.CID(2 + r.Intn(3000))
		default:
			c++
		}
	}
	return m
}

func fntDecodeW(arr pdf.Object) (m map[cid.CID]float64, err error) {
	defer func() {
		if p := recover(); p != nil {
			err = fmt.Errorf("panic: %v", p)
			m = nil
		}
	}()
	return extract.VerifDecodeCompositeWidths(fntCursor(), arr)
}

func fntImplDecLine(arr pdf.Array) string {
	m, err := fntDecodeW(arr)
	if err != nil {
		if strings.HasPrefix(err.Error(), "panic") {
			return err.Error()
		}
		return "err"
	}
	return "ok " + fntEntriesStr(m)
}

// oracle: decode(encode(m)) == m
func fntOracleW(m map[cid.CID]float64) (bool, string) {
	arr := dict.VerifEncodeCompositeWidths(m)
	got, err := fntDecodeW(fntNative(arr))
	if err != nil {
		return false, fmt.Sprintf("decodeCompositeWidths(encodeCompositeWidths(m)) fails: %v; W = %s", err, truncate(pdf.AsString(fntNative(arr))))
	}
	if len(got) != len(m) {
		return false, fmt.Sprintf("%d widths written, %d read back; W = %s", len(m), len(got), truncate(pdf.AsString(fntNative(arr))))
	}
	for k, w := range m {
		if g, ok := got[k]; !ok || g != w {
			return false, fmt.Sprintf("CID %d: width %g written, %g (present=%v) read back; W = %s", k, w, g, ok, truncate(pdf.AsString(fntNative(arr))))
		}
	}
	return true, ""
}

func fntMapReplayStr(m map[cid.CID]float64) string {
	keys := make([]int, 0, len(m))
	for k := range m {
		keys = append(keys, int(k))
	}
	sort.Ints(keys)
	parts := make([]string, len(keys))
	for i, k := range keys {
		parts[i] = fmt.Sprintf("%d=%g", k, m[cid.CID(k)])
	}
	return strings.Join(parts, ",")
}

func fntReplayW(input string) (bool, string) {
	m := map[cid.CID]float64{}
	for _, p := range strings.Split(input, ",") {
		var k int
		var w float64
		if _, err := fmt.Sscanf(p, "%d=%g", &k, &w); err == nil {
			m[cid.CID(k)] = w
		}
	}
	ok, d := fntOracleW(m)
	if ok {
		d = fmt.Sprintf("%d widths round-trip through the W array", len(m))
	}
	return ok, d
}

var fntJunk = []pdf.Object{pdf.Name("X"), pdf.String("s"), pdf.Boolean(true), nil, pdf.Integer(-1), pdf.Integer(65535), pdf.Integer(65536), pdf.Integer(70000), pdf.Array{}, pdf.Array{pdf.Integer(1), pdf.Name("N")}, pdf.Dict{}}

func fntGenWArray(r *Rand) pdf.Array {
	var a pdf.Array
	n := r.Intn(6)
	for i := 0; i < n; i++ {
		c0 := r.Intn(300)
		if r.P(1, 6) {
			c0 = 65535 - r.Intn(5)
		}
		switch r.Intn(3) {
		case 0:
			c1 := c0 + r.Intn(20)
			if r.P(1, 8) {
				c1 = c0 - 1 - r.Intn(3)
			}
			a = append(a, pdf.Integer(c0), pdf.Integer(c1), pdf.Integer(r.Intn(1000)))
		default:
			k := r.Intn(6)
			ws := make(pdf.Array, k)
			for j := range ws {
				ws[j] = pdf.Integer(r.Intn(1000))
				if r.P(1, 25) {
					ws[j] = Pick(r, fntJunk)
				}
			}
			a = append(a, pdf.Integer(c0), ws)
		}
	}
	// mutations
	for k := r.Intn(3); k > 0 && len(a) > 0; k-- {
		i := r.Intn(len(a))
		switch r.Intn(4) {
		case 0:
			a[i] = Pick(r, fntJunk)
		case 1:
			a = append(a[:i], a[i+1:]...)
		case 2:
			a = append(a, Pick(r, fntJunk))
		default:
			a[i] = pdf.Integer(r.Intn(70000) - 100)
		}
	}
	return a
}

// ---- simple fonts

type fntSimpleW struct {
	ww     [256]float64
	mapped [256]bool
	dw     float64
}

func fntGenSimpleW(r *Rand, fractional bool) *fntSimpleW {
	s := &fntSimpleW{dw: Pick(r, []float64{0, 0, 250, 500, 600, 1000})}
	density := Pick(r, []int{0, 1, 10, 60, 100})
	palette := []float64{s.dw, 500, 600, 250, 0}
	lo, hi := 0, 256
	if r.Bool() {
		lo = r.Intn(256)
		hi = lo + r.Intn(256-lo) + 1
	}
	for c := lo; c < hi; c++ {
		if r.Intn(100) < density {
			s.mapped[c] = true
			s.ww[c] = Pick(r, palette)
			if r.P(1, 10) {
				s.ww[c] = float64(r.Intn(1500))
			}
			if fractional && r.P(1, 8) {
				s.ww[c] += 0.5
			}
		} else if r.P(1, 10) {
			s.ww[c] = Pick(r, palette) // width without a glyph
		}
	}
	for _, c := range []int{0, 255} {
		if r.P(1, 6) {
			s.mapped[c] = true
			s.ww[c] = Pick(r, palette)
		}
	}
	return s
}

func (s *fntSimpleW) enc(c byte) string {
	if s.mapped[c] {
		return "g"
	}
	return ""
}

func (s *fntSimpleW) encode() (first, last pdf.Integer, widths pdf.Array, err error) {
	defer func() {
		if p := recover(); p != nil {
			err = fmt.Errorf("panic: %v", p)
		}
	}()
	w, err := pdf.NewWriter(io.Discard, pdf.V1_7, nil)
	if err != nil {
		return 0, 0, nil, err
	}
	fd := pdf.Dict{}
	oo, _ := dict.VerifSetSimpleWidths(w, fd, s.ww[:], s.enc, s.dw)
	first, _ = fd["FirstChar"].(pdf.Integer)
	last, _ = fd["LastChar"].(pdf.Integer)
	switch x := fd["Widths"].(type) {
	case pdf.Array:
		widths = x
	case pdf.Reference:
		if len(oo) == 1 {
			widths, _ = oo[0].(pdf.Array)
		}
	}
	if widths == nil {
		return first, last, nil, fmt.Errorf("no Widths array produced")
	}
	return first, last, fntNative(widths).(pdf.Array), nil
}

func fntDecodeSimple(first pdf.Object, widths pdf.Object, dw float64) (ok bool, ww [256]float64, err error) {
	defer func() {
		if p := recover(); p != nil {
			err = fmt.Errorf("panic: %v", p)
		}
	}()
	fd := pdf.Dict{"FirstChar": first}
	if widths != nil {
		fd["Widths"] = widths
	}
	ok = extract.VerifGetSimpleWidths(ww[:], fntCursor(), fd, dw)
	return ok, ww, nil
}

func fntIntsStr(ww []float64) string {
	if len(ww) == 0 {
		return "-"
	}
	parts := make([]string, len(ww))
	for i, w := range ww {
		parts[i] = fmt.Sprint(int64(math.Round(w)))
	}
	return strings.Join(parts, ",")
}

func (s *fntSimpleW) replayStr() string {
	var sb strings.Builder
	fmt.Fprintf(&sb, "%g", s.dw)
	for c := 0; c < 256; c++ {
		if s.mapped[c] || s.ww[c] != 0 {
			fmt.Fprintf(&sb, " %d:%g:%d", c, s.ww[c], b2i(s.mapped[c]))
		}
	}
	return sb.String()
}

func fntOracleSimpleW(s *fntSimpleW) (bool, string) {
	first, last, widths, err := s.encode()
	if err != nil {
		return false, "setSimpleWidths: " + err.Error()
	}
	if int(last-first)+1 != len(widths) || first < 0 || last > 255 {
		return false, fmt.Sprintf("FirstChar %d LastChar %d with %d widths", first, last, len(widths))
	}
	_, got, err := fntDecodeSimple(first, widths, s.dw)
	if err != nil {
		return false, "getSimpleWidths: " + err.Error()
	}
	for c := 0; c < 256; c++ {
		if s.mapped[c] && got[c] != s.ww[c] {
			return false, fmt.Sprintf("code %d: width %g written, %g read back (FirstChar %d, LastChar %d, MissingWidth %g)", c, s.ww[c], got[c], first, last, s.dw)
		}
	}
	return true, ""
}

func fntReplaySimpleW(input string) (bool, string) {
	s := &fntSimpleW{}
	f := strings.Fields(input)
	if len(f) == 0 {
		return false, "bad replay input"
	}
	fmt.Sscanf(f[0], "%g", &s.dw)
	for _, p := range f[1:] {
		var c, m int
		var w float64
		if _, err := fmt.Sscanf(strings.ReplaceAll(p, ":", " "), "%d %g %d", &c, &w, &m); err == nil && c >= 0 && c < 256 {
			s.ww[c] = w
			s.mapped[c] = m == 1
		}
	}
	ok, d := fntOracleSimpleW(s)
	if ok {
		d = "all mapped codes read back their width"
	}
	return ok, d
}

func runFntWidths(c *Ctx) {
	r := c.R.Fork()
	n := 3000
	if c.Thorough {
		n = 40000
	}
	c.Emit("FNT dwdefault", fmt.Sprint(dict.DefaultWidthDefault))
	for i := 0; i < n; i++ {
		// composite, integer widths: correspondence of encoder and decoder + oracle
		m := fntGenWidthMap(r.Fork(), false)
		arr := fntNative(dict.VerifEncodeCompositeWidths(m)).(pdf.Array)
		es := fntEntriesStr(m)
		c.Emit("FNT wenc "+es, wire(arr))
		if len(arr) > 0 {
			c.Emit("FNT wdec "+fntArrBody(arr), fntImplDecLine(arr))
		}
		if ok, d := fntOracleW(m); !ok {
			c.Violate("fnt-widths-w", "w-array-roundtrip", d, fntMapReplayStr(m))
		}
		c.Case("w "+es, len(m) >= 2)
		switch {
		case len(m) == 0:
			c.Stat("w.map=0")
		case len(m) < 10:
			c.Stat("w.map<10")
		case len(m) < 100:
			c.Stat("w.map<100")
		default:
			c.Stat("w.map>=100")
		}
		for _, o := range arr {
			if _, ok := o.(pdf.Array); ok {
				c.Stat("w.item.list")
			}
		}

		// fractional widths: oracle only
		if i%3 == 0 {
			mf := fntGenWidthMap(r.Fork(), true)
			if ok, d := fntOracleW(mf); !ok {
				c.Violate("fnt-widths-w", "w-array-roundtrip", d, fntMapReplayStr(mf))
			}
			c.Case("wf "+fntMapReplayStr(mf), len(mf) >= 2)
		}

		// hand-made / malformed arrays: decoder correspondence
		if i%2 == 0 {
			a := fntGenWArray(r.Fork())
			body := fntArrBody(a)
			out := fntImplDecLine(a)
			c.Emit("FNT wdec "+body, out)
			c.Stat("w.dec." + strings.Fields(out)[0])
			c.Case("wdec "+body, out != "err")
			if strings.HasPrefix(out, "panic") {
				c.Violate("fnt-widths-w", "w-array-decode-panic", out, "")
			}
		}

		// simple fonts
		s := fntGenSimpleW(r.Fork(), false)
		first, last, widths, err := s.encode()
		mappedStr := make([]byte, 256)
		nm := 0
		for k := range mappedStr {
			mappedStr[k] = '0'
			if s.mapped[k] {
				mappedStr[k] = '1'
				nm++
			}
		}
		if err != nil {
			c.Violate("fnt-widths-simple", "simple-widths-encode", err.Error(), s.replayStr())
		} else {
			wf := make([]float64, len(widths))
			for k, o := range widths {
				switch x := o.(type) {
				case pdf.Integer:
					wf[k] = float64(x)
				case pdf.Real:
					wf[k] = float64(x)
				}
			}
			c.Emit(fmt.Sprintf("FNT swenc %s %s %d", fntIntsStr(s.ww[:]), mappedStr, int64(s.dw)),
				fmt.Sprintf("%d %d %s", first, last, fntIntsStr(wf)))
			body := fntArrBody(widths)
			ok, got, _ := fntDecodeSimple(first, widths, s.dw)
			c.Emit(fmt.Sprintf("FNT swdec %d %s %d", first, body, int64(s.dw)), fmt.Sprintf("%d %s", b2i(ok), fntIntsStr(got[:])))
		}
		if ok, d := fntOracleSimpleW(s); !ok {
			c.Violate("fnt-widths-simple", "simple-widths-roundtrip", d, s.replayStr())
		}
		c.Case("sw "+s.replayStr(), nm >= 2)
		if i%3 == 0 {
			sf := fntGenSimpleW(r.Fork(), true)
			if ok, d := fntOracleSimpleW(sf); !ok {
				c.Violate("fnt-widths-simple", "simple-widths-roundtrip", d, sf.replayStr())
			}
			c.Case("swf "+sf.replayStr(), true)
		}
		// decoder on odd inputs
		if i%4 == 0 {
			fc := pdf.Integer(r.Intn(300) - 20)
			var widths pdf.Object
			tag := "nil"
			if !r.P(1, 8) {
				k := r.Intn(12)
				if r.P(1, 10) {
					k = 250 + r.Intn(10)
				}
				a := make(pdf.Array, k)
				for j := range a {
					a[j] = pdf.Integer(r.Intn(1000))
					if r.P(1, 15) {
						a[j] = Pick(r, fntJunk)
					}
				}
				widths = a
				tag = fntArrBody(a)
			}
			dw := pdf.Integer(r.Intn(3) * 500)
			ok, got, err := fntDecodeSimple(fc, widths, float64(dw))
			if err != nil {
				c.Violate("fnt-widths-simple", "simple-widths-decode-panic", err.Error(), "")
			}
			c.Emit(fmt.Sprintf("FNT swdec %d %s %d", fc, tag, dw), fmt.Sprintf("%d %s", b2i(ok), fntIntsStr(got[:])))
			c.Stat(fmt.Sprintf("sw.dec.ok=%d", b2i(ok)))
		}
	}
	// the entry-count cap of the W decoder (65536 assignments): just below and above
	if c.Thorough {
		full := pdf.Array{pdf.Integer(0), pdf.Integer(65535), pdf.Integer(500)}
		c.Emit("FNT wdec "+fntArrBody(full), fntImplDecLine(full))
		over := pdf.Array{pdf.Integer(0), pdf.Integer(65535), pdf.Integer(500), pdf.Integer(7), pdf.Array{pdf.Integer(1)}}
		c.Emit("FNT wdec "+fntArrBody(over), fntImplDecLine(over))
	}
}

package main

import (
	"bytes"
	"fmt"
	"strings"

	"seehuhn.de/go/pdf"
)

// FIO work package (C02), part 4: large objects.  The scanner works on a
// 1024-byte buffer; Reader.Get starts a fresh scanner at the object (or at the
// object stream member), so a token which lies about 1024 or 2048 bytes into
// an object straddles a buffer refill.  Here every kind of token is pushed
// across every alignment of those two boundaries by a filler string whose
// length is swept byte by byte:
//
//   - through the Writer: compact and HumanReadable files, direct objects and
//     object stream members; oracle = read-back equality (Reader.Get);
//   - hand-made files with the token forms the Writer never produces (octal
//     and line-continuation escapes, hex strings with white space and an odd
//     digit, signed and fraction-only numbers, comments between tokens); oracle
//     = the value the text denotes; the object is also read by the scanner
//     model (FIO rdobj).

func init() {
	addRun("C02", "large objects: a dictionary << /A (filler of n bytes) <token> >> for n swept over 975..1050 and 1995..2070 in steps of 1 and every kind of token (name with #xx escapes as value and as key, literal string with escapes, binary string (hex form when HumanReadable), integer, real, reference, nested array/dictionary) written by the Writer compact and HumanReadable, as direct objects and as object stream members, read back with Reader.Get; and the same sweep on hand-made files with octal / line-continuation escapes, spaced and odd hex strings, signed numbers and comments, also read by the scanner model. Non-trivial: all; distinct by (mode, kind, n).", runFIOBig)
	addReplay("C02", "big-object", replayFIOBig)
}

func fioSweep() []int {
	var ns []int
	for n := 975; n <= 1050; n++ {
		ns = append(ns, n)
	}
	for n := 1995; n <= 2070; n++ {
		ns = append(ns, n)
	}
	return ns
}

func fioFiller(n int) []byte {
	b := make([]byte, n)
	for i := range b {
		b[i] = byte('a' + i%23)
	}
	return b
}

// fioBigKinds: the entry that follows the filler (keys sort after "A").
var fioBigKinds = []struct {
	name string
	key  pdf.Name
	val  pdf.Object
}{
	{"name-value", "B", pdf.Name("n m#/(x)%y\x00z")},
	{"name-key", "B k#/(%)\x7f\xff", pdf.Integer(7)},
	{"literal-string", "B", pdf.String("(a)\\b)\r\n(c\rd\ne \\")},
	{"binary-string", "B", pdf.String("\x00\x01\x02\xff\xfe\x80\x81\x90\x07\x08\x1b")},
	{"integer", "B", pdf.Integer(-9223372036854775807)},
	{"real", "B", pdf.Real(-12345.678901)},
	{"reference", "B", pdf.NewReference(1234567, 54321)},
	{"array", "B", pdf.Array{pdf.Name("q#r"), pdf.Integer(12), pdf.NewReference(3, 0), pdf.String(")("), pdf.Integer(4), pdf.Integer(5)}},
	{"dict", "B", pdf.Dict{"K#1": pdf.NewReference(77, 1), "L": pdf.Name("#"), "M": pdf.Real(0.5)}},
	{"bool-null", "B", pdf.Array{pdf.Boolean(true), nil, pdf.Boolean(false), pdf.Name("")}},
}

func fioBigObject(kind, n int) pdf.Dict {
	k := fioBigKinds[kind]
	return pdf.Dict{"A": pdf.String(fioFiller(n)), k.key: k.val, "Z": pdf.Name("end")}
}

type fioBigMode struct {
	name    string
	version pdf.Version
	human   bool
	objstm  bool
}

var fioBigModes = []fioBigMode{
	{"compact-direct", pdf.V1_4, false, false},
	{"human-direct", pdf.V1_7, true, false},
	{"compact-objstm", pdf.V1_7, false, true},
}

// fioBigWriterCase writes the objects of one (mode, kind) for all n and reads
// every one back.
func fioBigWriterCase(mode fioBigMode, kind int, ns []int) (bool, string) {
	buf := &bytes.Buffer{}
	w, err := pdf.NewWriter(buf, mode.version, &pdf.WriterOptions{HumanReadable: mode.human})
	if err != nil {
		return false, err.Error()
	}
	w.GetMeta().Catalog.Pages = w.Alloc()
	refs := make([]pdf.Reference, len(ns))
	objs := make([]pdf.Object, len(ns))
	for i, n := range ns {
		refs[i] = w.Alloc()
		objs[i] = fioBigObject(kind, n)
	}
	if mode.objstm {
		// a few members per stream, so that members start at many offsets
		for i := 0; i < len(ns); i += 7 {
			j := min(i+7, len(ns))
			if err := w.WriteCompressed(refs[i:j], objs[i:j]...); err != nil {
				return false, "WriteCompressed: " + err.Error()
			}
		}
	} else {
		for i := range ns {
			if err := w.Put(refs[i], objs[i]); err != nil {
				return false, "Put: " + err.Error()
			}
		}
	}
	if err := w.Close(); err != nil {
		return false, "Close: " + err.Error()
	}
	r, err := pdf.NewReader(bytes.NewReader(buf.Bytes()), int64(buf.Len()), &pdf.ReaderOptions{ErrorHandling: pdf.ErrorHandlingStop})
	if err != nil {
		return false, "NewReader: " + err.Error()
	}
	for i, n := range ns {
		got, err := r.Get(refs[i], true)
		if err != nil {
			return false, fmt.Sprintf("%s %s n=%d: Get(%v): %v", mode.name, fioBigKinds[kind].name, n, refs[i], err)
		}
		if !objEqual(normObj(got), normObj(objs[i])) {
			g := wireNorm(got)
			wnt := wireNorm(objs[i])
			// show the part after the filler
			cut := func(s string) string {
				if len(s) > 160 {
					return "…" + s[len(s)-160:]
				}
				return s
			}
			return false, fmt.Sprintf("%s %s n=%d: Get(%v) = %s, written %s", mode.name, fioBigKinds[kind].name, n, refs[i], cut(g), cut(wnt))
		}
	}
	return true, ""
}

// ---- hand-made files ----

var fioRawKinds = []struct {
	name string
	text string     // the bytes after the filler string, inside the dictionary
	key  pdf.Name   // entry expected besides /A
	val  pdf.Object // nil = key absent (null value)
}{
	{"octal", "/B(\\101\\7\\53x\\0053\\400)", "B", pdf.String("A\x07+x\x053\x00")},
	{"continuation", "/B(ab\\\ncd\\\r\nef\\\rgh)", "B", pdf.String("abcdefgh")},
	{"eol-in-string", "/B(a\rb\r\nc\nd)", "B", pdf.String("a\nb\nc\nd")},
	{"escapes", "/B(\\n\\r\\t\\b\\f\\(\\)\\\\\\q)", "B", pdf.String("\n\r\t\b\f()\\q")},
	{"hex-spaced", "/B<4 1 4\n2 43\t4>", "B", pdf.String("ABC@")},
	{"name-escapes", "/B/#41#20#23x#2F#28", "B", pdf.Name("A #x/(")},
	{"name-key", "/B#20#2fk#23 17", "B /k#", pdf.Integer(17)},
	{"numbers", "/B[+17 -.5 4. 0017 -0 .25]", "B", pdf.Array{pdf.Integer(17), pdf.Real(-0.5), pdf.Real(4), pdf.Integer(17), pdf.Integer(0), pdf.Real(0.25)}},
	{"references", "/B[1 0 R 23 4 R 5 6 7 8 R]", "B", pdf.Array{pdf.NewReference(1, 0), pdf.NewReference(23, 4), pdf.Integer(5), pdf.Integer(6), pdf.NewReference(7, 8)}},
	{"ref-in-dict", "/B 1234567 65535 R/C 12", "B", pdf.NewReference(1234567, 65535)},
	{"comment", "/B% a comment (\n 12%x\r/C%\n/D", "B", pdf.Integer(12)},
	{"keywords", "/B[true false null true]", "B", pdf.Array{pdf.Boolean(true), pdf.Boolean(false), nil, pdf.Boolean(true)}},
	{"nested", "/B<</C[<</D(x)>>]/E<</F/G>>>>", "B", pdf.Dict{"C": pdf.Array{pdf.Dict{"D": pdf.String("x")}}, "E": pdf.Dict{"F": pdf.Name("G")}}},
}

// fioRawFile makes a classic-table PDF with one object per n.
func fioRawFile(kind int, ns []int) (file []byte, offs []int) {
	var b bytes.Buffer
	b.WriteString("%PDF-1.4\n%\x80\x80\x80\x80\n")
	offs = make([]int, len(ns)+2)
	offs[1] = b.Len()
	b.WriteString("1 0 obj\n<</Type/Catalog/Pages 9999 0 R>>\nendobj\n")
	for i, n := range ns {
		offs[i+2] = b.Len()
		fmt.Fprintf(&b, "%d 0 obj\n<</A(%s)%s>>\nendobj\n", i+2, fioFiller(n), fioRawKinds[kind].text)
	}
	x := b.Len()
	fmt.Fprintf(&b, "xref\n0 %d\n0000000000 65535 f\r\n", len(ns)+2)
	for i := 1; i < len(ns)+2; i++ {
		fmt.Fprintf(&b, "%010d 00000 n\r\n", offs[i])
	}
	fmt.Fprintf(&b, "trailer\n<</Size %d/Root 1 0 R>>\nstartxref\n%d\n%%%%EOF\n", len(ns)+2, x)
	return b.Bytes(), offs
}

func fioRawWant(kind, n int) pdf.Dict {
	k := fioRawKinds[kind]
	d := pdf.Dict{"A": pdf.String(fioFiller(n))}
	if k.val != nil {
		d[k.key] = k.val
	}
	switch k.name {
	case "ref-in-dict":
		d["C"] = pdf.Integer(12)
	case "comment":
		d["C"] = pdf.Name("D")
	}
	return d
}

func fioBigRawCase(c *Ctx, kind int, ns []int) (bool, string) {
	file, offs := fioRawFile(kind, ns)
	r, err := pdf.NewReader(bytes.NewReader(file), int64(len(file)), &pdf.ReaderOptions{ErrorHandling: pdf.ErrorHandlingReport})
	if err != nil {
		return false, "NewReader on the hand-made file: " + err.Error()
	}
	for i, n := range ns {
		ref := pdf.NewReference(uint32(i+2), 0)
		got, err := r.Get(ref, true)
		want := fioRawWant(kind, n)
		if err != nil {
			return false, fmt.Sprintf("hand-made %s n=%d: Get: %v", fioRawKinds[kind].name, n, err)
		}
		if !objEqual(normObj(got), normObj(want)) {
			g := wireNorm(got)
			if len(g) > 200 {
				g = "…" + g[len(g)-200:]
			}
			return false, fmt.Sprintf("hand-made %s n=%d: %q read as %s", fioRawKinds[kind].name, n, fioRawKinds[kind].text, g)
		}
		// the scanner model reads the same bytes (no buffer in the model)
		if c != nil && (i%9 == kind%9) {
			end := len(file)
			if i+3 < len(offs) {
				end = offs[i+3]
			}
			data := file[offs[i+2]:end]
			c.Stat("big_rdobj_lines")
			c.Emit(fmt.Sprintf("FIO rdobj %s %d -", hexWire(data), offs[i+2]), fioImplReadObj(data, offs[i+2], nil))
		}
	}
	return true, ""
}

func runFIOBig(c *Ctx) {
	wireNilDict = true
	ns := fioSweep()
	for mi, mode := range fioBigModes {
		for k := range fioBigKinds {
			c.Case(fmt.Sprintf("big %s %s", mode.name, fioBigKinds[k].name), true)
			c.StatN("big_objects_written_and_read", len(ns))
			ok, detail := fioBigWriterCase(mode, k, ns)
			if !ok {
				c.Violate("big-object", "large-object-differs", detail, fmt.Sprintf("w %d %d", mi, k))
			}
		}
	}
	for k := range fioRawKinds {
		c.Case("big hand-made "+fioRawKinds[k].name, true)
		c.StatN("big_handmade_objects_read", len(ns))
		ok, detail := fioBigRawCase(c, k, ns)
		if !ok {
			c.Violate("big-object", "large-object-handmade-differs", detail, fmt.Sprintf("r %d", k))
		}
	}
}

func replayFIOBig(input string) (bool, string) {
	f := strings.Fields(input)
	ns := fioSweep()
	var a, b int
	switch {
	case len(f) == 3 && f[0] == "w":
		fmt.Sscan(f[1], &a)
		fmt.Sscan(f[2], &b)
		if a < len(fioBigModes) && b < len(fioBigKinds) {
			ok, d := fioBigWriterCase(fioBigModes[a], b, ns)
			if ok {
				d = "all objects read back"
			}
			return ok, d
		}
	case len(f) == 2 && f[0] == "r":
		fmt.Sscan(f[1], &a)
		if a < len(fioRawKinds) {
			ok, d := fioBigRawCase(nil, a, ns)
			if ok {
				d = "all objects read as written"
			}
			return ok, d
		}
	}
	return true, "unknown big-object case " + input
}

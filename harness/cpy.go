package main

import (
	"bytes"
	"errors"
	"fmt"
	"hash/fnv"
	"io"
	"sort"
	"strconv"
	"strings"

	"seehuhn.de/go/pdf"
)

// C11 — Copier reproduces the source object graph.

func init() {
	addRun("C11", "random source graphs (dicts, arrays, scalars, reference chains and pure reference cycles, free/dangling/wrong-generation references, object-stream members, streams 0..5000 bytes with 0-3 filters, /Crypt Identity and unsupported crypt filters (also into targets whose Writer.Put refuses them: encrypted with /V < 4, or a non-Identity filter), typed nil Dicts and Arrays, indirect /Length via a non-seekable writer, indirect /Filter and /DecodeParms, null dictionary entries, injected malformed and I/O-failing objects; document-level metadata absent, ordinary or Plaintext (/EncryptMetadata false for encrypted sources >= 1.6) with non-catalog /Type /Metadata streams owned by dictionaries and XObject streams, /Type /XObject and untyped streams) written by the real Writer, plus files encrypted by the Lean Spec in which /StmF, /StrF and /EFF select StdCF or Identity independently (RC4 V2, AESV2, AESV3 x 8 selections; strings, ordinary, /EmbeddedFile and metadata streams with known plaintexts) x programs of 1-6 Copy/CopyReference/Redirect calls (the object returned by Copy is written at once or only after 1-3 further calls; in a quarter of the cases a stream is open on the target Writer during the whole program, so that every Put is queued) x 8 source and 8 target versions x source/target passwords x seekable or not x human-readable target. A case is non-trivial when the program reaches at least two source objects; distinct by seed-independent shape (model input line).", runCPY)
	addReplay("C11", "copier", replayCPY)
	setCanon("C11", canonReals)
}

// ---- program generation ----

func genCpyProg(b *cpyBuilt, thorough bool) {
	cs := b.cs
	r := &Rand{s: cs.seed ^ 0x5a5a5a5a}
	var pool []pdf.Reference
	for _, nd := range cs.nodes {
		pool = append(pool, nd.ref)
	}
	if cs.catalogMeta != 0 {
		pool = append(pool, cs.catalogMeta)
	}
	pool = append(pool, cs.extraRefs...)
	real := pool[:len(pool)-len(cs.extraRefs)]
	// nodes with something below them: containers and streams
	var rich []pdf.Reference
	for _, nd := range cs.nodes {
		switch o := nd.obj.(type) {
		case pdf.Dict:
			if len(o) > 0 {
				rich = append(rich, nd.ref)
			}
		case pdf.Array:
			if len(o) > 0 {
				rich = append(rich, nd.ref)
			}
		case pdf.Reference:
			rich = append(rich, nd.ref)
		}
		if nd.kind == nkStream {
			rich = append(rich, nd.ref)
		}
	}
	pickRef := func() pdf.Reference {
		if len(rich) > 0 && r.P(3, 5) {
			return Pick(r, rich)
		}
		return Pick(r, pool)
	}
	var streams []pdf.Reference
	for _, nd := range cs.nodes {
		if nd.kind == nkStream {
			streams = append(streams, nd.ref)
		}
	}
	if cs.catalogMeta != 0 {
		streams = append(streams, cs.catalogMeta)
		rich = append(rich, cs.catalogMeta)
	}
	// the caller writes the object returned by Copy at once, or only after 1..3 further operations
	later := func() int {
		if r.P(1, 2) {
			cs.features["put-later"] = true
			return 1 + r.Intn(3)
		}
		return 0
	}
	n := 1 + r.Intn(4)
	if thorough {
		n = 1 + r.Intn(6)
	}
	if len(streams) >= 2 && r.P(1, 3) {
		// several streams handed to the caller before any of them is written
		m := 2 + r.Intn(3)
		for j := 0; j < m; j++ {
			ref := Pick(r, streams)
			if _, err := b.S.Get(ref, true); err == nil {
				cs.prog = append(cs.prog, cpyOp{kind: "cg", ref: ref, later: m - j + r.Intn(2)})
				cs.features["put-later"] = true
			}
		}
	}
	nRedirectFirst := 0
	if r.P(1, 3) {
		nRedirectFirst = 1 + r.Intn(2)
	}
	if cs.longChain > 0 {
		cs.prog = append(cs.prog, cpyOp{kind: "cr", ref: cs.longHead})
	}
	roots := len(cs.prog)
	for i := 0; i < n+nRedirectFirst; i++ {
		var op cpyOp
		k := r.Intn(12)
		if i < nRedirectFirst {
			k = 10
		}
		switch {
		case k < 6:
			op = cpyOp{kind: "cr", ref: pickRef()}
		case k < 8:
			ref := Pick(r, real)
			if len(streams) > 0 && r.P(1, 2) {
				ref = Pick(r, streams)
			}
			if _, err := b.S.Get(ref, true); err != nil {
				op = cpyOp{kind: "cr", ref: ref}
			} else {
				op = cpyOp{kind: "cg", ref: ref, later: later()}
			}
		case k < 10:
			o := cpyObj(r, 2, pool)
			if r.P(1, 2) {
				o = cpyNullify(r, o)
			}
			op = cpyOp{kind: "co", obj: o, later: later()}
		case k < 11 || roots == 0:
			op = cpyOp{kind: "rn", ref: Pick(r, pool), marker: pdf.Dict{"Redirected": pdf.Integer(i), "V": cpyScalar(r)}}
		default:
			op = cpyOp{kind: "rt", ref: Pick(r, pool), k: r.Intn(roots)}
		}
		cs.prog = append(cs.prog, op)
		roots++
	}
}

// ---- canonical dump of a target graph (must agree with Driver/CPY.lean) ----

type cpyRen struct {
	ids   map[pdf.Reference]int
	queue []pdf.Reference
}

func (st *cpyRen) idOf(r pdf.Reference) int {
	if i, ok := st.ids[r]; ok {
		return i
	}
	i := len(st.ids)
	st.ids[r] = i
	st.queue = append(st.queue, r)
	return i
}

// renWire writes the canonical form of o: null entries dropped, nil arrays as
// null, keys in byte order, references renamed in order of discovery.
func (st *cpyRen) renWire(sb *strings.Builder, o pdf.Object) {
	if cpyNil(o) {
		sb.WriteString("z")
		return
	}
	switch x := o.(type) {
	case pdf.Reference:
		fmt.Fprintf(sb, "R%d,0;", st.idOf(x))
	case pdf.Real:
		fmt.Fprintf(sb, "r%s;", realCanon(float64(x)))
	case pdf.Array:
		sb.WriteString("a")
		for _, e := range x {
			st.renWire(sb, e)
		}
		sb.WriteString("]")
	case pdf.Dict:
		sb.WriteString("d")
		for _, p := range sortedDict(x) {
			if cpyNil(p.v) {
				continue
			}
			sb.WriteString(hx([]byte(p.k)) + ";")
			st.renWire(sb, p.v)
		}
		sb.WriteString(">")
	default:
		wireTo(sb, o)
	}
}

func rawOf(g pdf.Getter, st *pdf.Stream) []byte {
	rc, err := pdf.RawStreamReader(g, st)
	if err == nil {
		raw, err2 := io.ReadAll(rc)
		rc.Close()
		if err2 == nil {
			return raw
		}
	}
	raw, _ := io.ReadAll(st.NewReader())
	return raw
}

func cpyDump(T pdf.Getter, roots []pdf.Reference) (string, error) {
	st := &cpyRen{ids: map[pdf.Reference]int{}}
	for _, r := range roots {
		st.idOf(r)
	}
	var parts []string
	for i := 0; len(st.queue) > 0; i++ {
		ref := st.queue[0]
		st.queue = st.queue[1:]
		v, err := T.Get(ref, true)
		if err != nil {
			return "", fmt.Errorf("target Get %v: %w", ref, err)
		}
		var sb strings.Builder
		fmt.Fprintf(&sb, "%d:", i)
		if stm, ok := v.(*pdf.Stream); ok {
			sb.WriteString("S")
			st.renWire(&sb, stm.Dict)
			sb.WriteString(":" + hexWire(rawOf(T, stm)))
		} else {
			sb.WriteString("O")
			st.renWire(&sb, v)
		}
		parts = append(parts, sb.String())
	}
	return strings.Join(parts, " "), nil
}

// ---- the isomorphism oracle, evaluated on the implementation only ----

type cpyIso struct {
	S, T       pdf.Getter
	fwd        map[pdf.Reference]pdf.Reference
	bwd        map[pdf.Reference]pdf.Reference
	redirected map[pdf.Reference]pdf.Reference
	queue      [][2]pdf.Reference
	key, desc  string
	visited    int

	afterFailure bool // some earlier call of the program failed

	canonMemo map[pdf.Reference]pdf.Reference
	fwdVia    map[pdf.Reference]pdf.Reference // the reference through which a source object was first reached
	nodes     map[pdf.Reference]*cpyNode      // what the harness wrote

	truth map[int64]cpyTruth // /CpyId -> the plaintext the harness wrote into that source stream
}

// cpyTruth is the plaintext of a source stream.  A PNG predictor works on whole rows: the last
// partial row comes back padded with zero bytes (in the source as in the copy).
type cpyTruth struct {
	data []byte
	row  int
}

func (t cpyTruth) padded() []byte {
	if t.row <= 1 || len(t.data)%t.row == 0 {
		return t.data
	}
	return append(append([]byte{}, t.data...), make([]byte, t.row-len(t.data)%t.row)...)
}

func (c *cpyIso) fail(key, format string, a ...any) {
	if c.key == "" {
		c.key = key
		c.desc = fmt.Sprintf(format, a...)
	}
}

// cpyChain follows the chain "N 0 obj M 0 R endobj" from s, read through g: the links, in order,
// and whether the chain ends properly (at an object which is not a reference, or at an undefined
// one) within the depth Resolve allows.
func cpyChain(g pdf.Getter, s pdf.Reference) ([]pdf.Reference, bool) {
	chain := []pdf.Reference{s}
	for cur := s; ; {
		v, err := g.Get(cur, true)
		if err != nil {
			return chain, false
		}
		r, isRef := v.(pdf.Reference)
		if !isRef {
			return chain, true
		}
		for _, x := range chain {
			if x == r {
				return chain, false
			}
		}
		if len(chain) >= 256 {
			return chain, false
		}
		chain = append(chain, r)
		cur = r
	}
}

// cpyLinks follows the chain from s as far as it goes (no depth limit; stops at a repetition).
func cpyLinks(g pdf.Getter, s pdf.Reference) []pdf.Reference {
	chain := []pdf.Reference{s}
	seen := map[pdf.Reference]bool{s: true}
	for cur := s; len(chain) < 5000; {
		v, err := g.Get(cur, true)
		if err != nil {
			break
		}
		r, isRef := v.(pdf.Reference)
		if !isRef || seen[r] {
			break
		}
		seen[r] = true
		chain = append(chain, r)
		cur = r
	}
	return chain
}

// canon is the source object a source reference stands for: the last link of its chain of
// references.  All references with the same canon must be translated to the same target.
func (c *cpyIso) canon(s pdf.Reference) pdf.Reference {
	if k, ok := c.canonMemo[s]; ok {
		return k
	}
	chain, ok := cpyChain(c.S, s)
	k := s
	if ok {
		k = chain[len(chain)-1]
	}
	c.canonMemo[s] = k
	return k
}

func (c *cpyIso) matchRef(s, t pdf.Reference, path string) {
	// a Redirect of any link of the chain decides the translation of everything before it
	chain, _ := cpyChain(c.S, s)
	for _, link := range chain {
		if rt, ok := c.redirected[link]; ok {
			if rt != t {
				c.fail("redirect-ignored", "%s: source %v (reached as %v) was redirected to %v but appears as %v", path, link, s, rt, t)
			}
			return
		}
	}
	k := c.canon(s)
	if old, ok := c.fwd[k]; ok {
		if old != t {
			if k != s || c.fwdVia[k] != s {
				c.fail("alias-not-shared", "%s: source object %v was copied to %v (reached as %v) and to %v (reached as %v): references to one object through indirect objects whose value is a reference must share the copy", path, k, old, c.fwdVia[k], t, s)
			} else {
				c.fail("sharing-lost", "%s: source %v was copied to %v and to %v", path, s, old, t)
			}
		}
		return
	}
	if old, ok := c.bwd[t]; ok && old != k {
		// not a merge if the chains of the two references meet (a chain which does not end
		// properly - malformed or unreadable link, loop - is still a chain)
		// (links beyond the depth Resolve admits included: CopyReference looks a link up in its
		// table before it looks at the depth, so the head of an over-deep chain is an alias of an
		// object copied earlier, and null otherwise)
		leads := false
		mine := map[pdf.Reference]bool{}
		for _, l := range cpyLinks(c.S, s) {
			mine[l] = true
		}
		for _, l := range append(cpyLinks(c.S, c.fwdVia[old]), old) {
			leads = leads || mine[l] // the two chains meet: both are aliases of what comes after
		}
		if !leads {
			c.fail("objects-merged", "%s: sources %v and %v both map to target %v", path, old, k, t)
		}
		return
	}
	c.fwd[k] = t
	c.fwdVia[k] = s
	c.bwd[t] = k
	c.queue = append(c.queue, [2]pdf.Reference{s, t})
}

func scalarEq(a, b pdf.Object) bool {
	switch x := a.(type) {
	case pdf.Integer:
		y, ok := b.(pdf.Integer)
		return ok && x == y
	case pdf.Real:
		y, ok := b.(pdf.Real)
		return ok && x == y
	case pdf.Boolean:
		y, ok := b.(pdf.Boolean)
		return ok && x == y
	case pdf.Name:
		y, ok := b.(pdf.Name)
		return ok && x == y
	case pdf.String:
		y, ok := b.(pdf.String)
		return ok && bytes.Equal(x, y)
	}
	return false
}

// matchObj compares a source value with a target value.  inl > 0 marks the
// /Filter and /DecodeParms positions of a stream dictionary, where the copy
// may hold the value a source reference resolves to (inl==2: the entry
// itself, inl==1: an element of the array in that entry).
func (c *cpyIso) matchObj(so, to pdf.Object, path string, inl int) {
	if c.key != "" {
		return
	}
	if sr, ok := so.(pdf.Reference); ok {
		if tr, ok := to.(pdf.Reference); ok {
			c.matchRef(sr, tr, path)
			return
		}
		if inl > 0 {
			sv, err := pdf.Resolve(c.S, sr)
			if err != nil {
				return // a malformed chain: Copy must have failed, nothing to compare
			}
			c.matchObj(sv, to, path+"^", inl)
			return
		}
		c.fail("reference-lost", "%s: source has reference %v, copy has direct %T", path, sr, to)
		return
	}
	if _, ok := to.(pdf.Reference); ok {
		c.fail("reference-invented", "%s: source has direct %T, copy has a reference", path, so)
		return
	}
	if cpyNil(so) || cpyNil(to) {
		if !(cpyNil(so) && cpyNil(to)) {
			c.fail("null-changed", "%s: source %T copy %T", path, so, to)
		}
		return
	}
	switch x := so.(type) {
	case pdf.Array:
		y, ok := to.(pdf.Array)
		if !ok {
			c.fail("type-changed", "%s: array became %T", path, to)
			return
		}
		if len(x) != len(y) {
			c.fail("array-length", "%s: array of %d elements became one of %d", path, len(x), len(y))
			return
		}
		sub := 0
		if inl == 2 {
			sub = 1
		}
		for i := range x {
			c.matchObj(x[i], y[i], fmt.Sprintf("%s[%d]", path, i), sub)
		}
	case pdf.Dict:
		y, ok := to.(pdf.Dict)
		if !ok {
			c.fail("type-changed", "%s: dict became %T", path, to)
			return
		}
		c.matchDict(x, y, path, false)
	case *pdf.Stream:
		c.fail("type-changed", "%s: direct stream", path)
	default:
		if !scalarEq(so, to) {
			c.fail("scalar-changed", "%s: %s became %s", path, wire(so), wire(to))
		}
	}
}

func (c *cpyIso) matchDict(x, y pdf.Dict, path string, streamDict bool) {
	for _, p := range sortedDict(x) {
		inl := 0
		if streamDict && (p.k == "Filter" || p.k == "DecodeParms") {
			inl = 2
		}
		if cpyNil(p.v) {
			if !cpyNil(y[p.k]) {
				c.fail("null-changed", "%s/%s: null entry became %T", path, p.k, y[p.k])
			}
			continue
		}
		tv, ok := y[p.k]
		if !ok || cpyNil(tv) {
			if inl > 0 {
				// an indirect entry which resolves to null is dropped by inlining
				if sr, isRef := p.v.(pdf.Reference); isRef {
					if sv, err := pdf.Resolve(c.S, sr); err != nil || sv == nil {
						continue
					}
				}
			}
			c.fail("key-lost", "%s: key /%s missing in the copy", path, p.k)
			return
		}
		c.matchObj(p.v, tv, path+"/"+string(p.k), inl)
	}
	for _, p := range sortedDict(y) {
		if cpyNil(p.v) {
			continue
		}
		if _, ok := x[p.k]; !ok {
			c.fail("key-invented", "%s: key /%s only in the copy", path, p.k)
			return
		}
	}
}

func (c *cpyIso) matchStream(ss, ts *pdf.Stream, path string) {
	c.matchDict(ss.Dict, ts.Dict, path, true)
	if c.key != "" {
		return
	}
	const lim = 1 << 24
	// ground truth, independent of every read path on the source: what is installed in the target
	// must decode to the plaintext the harness wrote into the source stream
	if id, ok := ss.Dict["CpyId"].(pdf.Integer); ok {
		if want, ok := c.truth[int64(id)]; ok {
			if td, terr := pdf.ReadAll(c.T, nil, ts, lim); terr == nil && !bytes.Equal(td, want.padded()) {
				sd, serr := pdf.ReadAll(c.S, nil, ss, lim)
				c.fail("stream-plaintext", "%s: the copy decodes to %d bytes which are not the %d bytes of plaintext written into the source stream (reading the source stream directly gives %d bytes, equal to the plaintext: %v, error: %v; filters %s)", path, len(td), len(want.data), len(sd), bytes.Equal(sd, want.padded()), serr, wire(ss.Dict["Filter"]))
				return
			}
		}
	}
	sd, serr := pdf.ReadAll(c.S, nil, ss, lim)
	if serr == nil {
		td, terr := pdf.ReadAll(c.T, nil, ts, lim)
		if terr != nil {
			c.fail("stream-undecodable", "%s: source stream decodes, the copy does not: %v", path, terr)
		} else if !bytes.Equal(sd, td) {
			c.fail("stream-bytes", "%s: decoded stream differs (%d vs %d bytes)", path, len(sd), len(td))
		}
		return
	}
	// the source does not decode (bogus filter data): the stored bytes must agree
	if !bytes.Equal(rawOf(c.S, ss), rawOf(c.T, ts)) {
		c.fail("stream-bytes", "%s: raw stream bytes differ", path)
	}
}

// matchTop compares a source value with the object stored at target t.
func (c *cpyIso) matchTop(sv pdf.Native, t pdf.Reference, path string, viaRef bool) {
	c.visited++
	tv, err := c.T.Get(t, true)
	if err != nil {
		c.fail("target-unreadable", "%s: target %v: %v", path, t, err)
		return
	}
	if tv == nil && !cpyNil(sv) && c.afterFailure {
		// an object written during a call that later failed refers to a number that was
		// allocated for the failing object and never written
		c.fail("dangling-target-after-failed-copy", "%s: a call that returned without error yields a reference to target %v, which was never written (an earlier call failed while copying it); the source object is a %T", path, t, sv)
		return
	}
	if _, isRef := tv.(pdf.Reference); isRef && viaRef {
		c.fail("chain-not-shortened", "%s: target %v holds a reference", path, t)
		return
	}
	if ss, ok := sv.(*pdf.Stream); ok {
		ts, ok := tv.(*pdf.Stream)
		if !ok {
			c.fail("type-changed", "%s: stream became %T", path, tv)
			return
		}
		c.matchStream(ss, ts, path)
		return
	}
	if _, ok := tv.(*pdf.Stream); ok {
		c.fail("type-changed", "%s: %T became a stream", path, sv)
		return
	}
	c.matchObj(sv, tv, path, 0)
}

func (c *cpyIso) run() {
	for len(c.queue) > 0 && c.key == "" {
		p := c.queue[0]
		c.queue = c.queue[1:]
		if len(cpyLinks(c.S, p[0])) > 256 {
			// a chain deeper than Resolve admits: null, or (if a later link was copied before) an
			// alias of that copy - depends on the order of the calls, no claim
			continue
		}
		sv, err := pdf.Resolve(c.S, p[0])
		if err != nil {
			if !pdf.IsMalformed(err) {
				continue // unreadable source: Copy reports the error, nothing to compare
			}
			// malformed or cyclic: copied as null.  But a stream which the harness wrote with the
			// real Writer is not a malformed object: if the Getter cannot hand it out, that is an
			// error to report, not a null to copy.
			if nd := c.nodes[c.canon(p[0])]; nd != nil && nd.kind == nkStream && nd.ov != ovBad && nd.ov != ovIO && nd.selfFilter == 0 && nd.aesLen == 0 {
				c.fail("stream-became-null", "%v: the source stream %v cannot be read through the Getter (%v); the copy succeeded and holds null in its place", p[0], nd.ref, err)
				return
			}
			sv = nil
		}
		c.matchTop(sv, p[1], fmt.Sprintf("%v", p[0]), true)
	}
}

// cpyPutMayRefuse tells whether Writer.Put may refuse a stream with this dictionary in a target
// whose encryption dictionary has /V tgtV (0: not encrypted): /Filter names /Crypt and either
// the crypt filter is not the Identity filter, or it is not the first filter, or the target has
// no crypt filters.  (Exactly when it is refused is what the model line says; this predicate
// only separates "an error of Put can be the right answer" from "Put has to work".)
func cpyPutMayRefuse(g pdf.Getter, d pdf.Dict, tgtV int) bool {
	res := func(o pdf.Object) pdf.Object {
		if g == nil {
			return o
		}
		v, err := pdf.Resolve(g, o)
		if err != nil {
			return nil
		}
		return v
	}
	var names []pdf.Object
	switch f := res(d["Filter"]).(type) {
	case pdf.Name:
		names = []pdf.Object{f}
	case pdf.Array:
		for _, e := range f {
			names = append(names, res(e))
		}
	}
	at := -1
	for i, n := range names {
		if n == pdf.Name("Crypt") {
			if at < 0 {
				at = i
			}
			if i > 0 {
				return true
			}
		}
	}
	if at < 0 {
		return false
	}
	if tgtV > 0 && tgtV < 4 {
		return true
	}
	var parms pdf.Object
	switch p := res(d["DecodeParms"]).(type) {
	case pdf.Dict:
		parms = p
	case pdf.Array:
		if len(p) > 0 {
			parms = res(p[0])
		}
	}
	if pd, ok := parms.(pdf.Dict); ok {
		if nm, present := pd["Name"]; present {
			n, isName := res(nm).(pdf.Name)
			return !isName || (n != "" && n != "Identity")
		}
	}
	return false
}

// cpyNil: the null object in one of its Go forms: nil, a typed nil Array, a typed nil Dict (the
// Writer writes all three as `null`, D99)
func cpyNil(o pdf.Object) bool {
	if d, ok := o.(pdf.Dict); ok && d == nil {
		return true
	}
	return isNilObj(o)
}

// cpyHasNilDict reports a typed nil Dict anywhere in o
func cpyHasNilDict(o pdf.Object) bool {
	switch x := o.(type) {
	case pdf.Dict:
		if x == nil {
			return true
		}
		for _, v := range x {
			if cpyHasNilDict(v) {
				return true
			}
		}
	case pdf.Array:
		for _, v := range x {
			if cpyHasNilDict(v) {
				return true
			}
		}
	}
	return false
}

// ---- one case against the real code ----

type cpyResult struct {
	noEmit   bool   // oracle only: no line for the model
	failed   bool   // some call of the program returned an error
	line     string // canonical implementation result
	opLine   string
	key      string // violation class, "" if the property held
	desc     string
	reached  int
	errClass string
}

// cpyNilDictKnown: Copier.CopyDict turns a typed nil Dict (which the Writer writes as `null`
// since D99, like the nil Array CopyArray keeps) into an empty dictionary.  While this stands
// (known finding nil-dict-copied-as-dict, patch fixes/D-CPY-7.diff) the cases which contain a
// typed nil Dict are judged by the oracle only: the model reads "N" as null and copies null.
// After the fix: set to false (the lines are then compared with the model like all others).
const cpyNilDictKnown = false

func cpyCaseHasNilDict(cs *cpyCase) bool {
	for _, op := range cs.prog {
		if op.kind == "co" && cpyHasNilDict(op.obj) {
			return true
		}
	}
	for _, nd := range cs.nodes {
		if nd.ov == ovObj && cpyHasNilDict(nd.ovObj) {
			return true
		}
	}
	return false
}

func runCpyCase(cs *cpyCase, thorough bool) (res cpyResult) {
	defer func() {
		if !cpyCaseHasNilDict(cs) {
			return
		}
		cs.features["nil-dict"] = true
		if cpyNilDictKnown {
			res.noEmit = true
			if res.key == "null-changed" && strings.Contains(res.desc, "pdf.Dict") {
				res.key = "nil-dict-copied-as-dict"
				res.desc += " (a typed nil Dict, written as null by the Writer, is copied as an empty dictionary)"
			}
		}
	}()
	b, err := buildSource(cs)
	if err != nil {
		// the Writer or Reader refused the generated source: not a copier case
		res.line = "skip"
		res.desc = err.Error()
		return
	}
	if !cs.fixedProg {
		genCpyProg(b, thorough)
	}

	// sources which legitimately make a copy fail
	aesOnly := cs.aesBroken && !cs.mayFail // then every failure must be a malformed-file error
	if cs.aesBroken {
		cs.mayFail = true
		res.noEmit = true // the model has no notion of ciphertext which cannot be decrypted
	}
	if cs.srcWriter && cs.srcNoReaderAt {
		for _, nd := range cs.nodes {
			if nd.kind == nkStream || nd.compressed { // object streams are streams too
				cs.mayFail = true // such a Writer cannot hand out stream data: an error is the right answer
			}
		}
	}
	var start []pdf.Reference
	for _, nd := range cs.nodes {
		start = append(start, nd.ref)
	}
	start = append(start, cs.extraRefs...)
	for _, op := range cs.prog {
		start = append(start, op.ref)
		start = refsIn(op.obj, start)
	}

	// target
	var out io.Writer
	mem := &cpyMem{}
	wo := &cpyWriteOnly{}
	if cs.tgtSeekable {
		out = mem
	} else {
		out = wo
	}
	tw, err := pdf.NewWriter(out, cs.tgtVer, &pdf.WriterOptions{UserPassword: cs.tgtPw, HumanReadable: cs.tgtHuman})
	if err != nil {
		res.line = "skip"
		res.desc = "target NewWriter: " + err.Error()
		return
	}
	pages := tw.Alloc()
	if err := tw.Put(pages, pdf.Dict{"Type": pdf.Name("Pages"), "Kids": pdf.Array{}, "Count": pdf.Integer(0)}); err != nil {
		res.line = "skip"
		res.desc = "target Put: " + err.Error()
		return
	}
	tw.GetMeta().Catalog.Pages = pages
	n0 := pages.Number() + 1
	// /V of the target's encryption dictionary (0: not encrypted).  Writer.Put refuses a stream
	// whose /Filter starts with /Crypt where crypt filters do not exist (/V < 4), and every
	// non-Identity /Crypt filter: a copy which cannot be represented in the target fails, and
	// that is the right answer as long as it fails cleanly.
	tgtV := 0
	if ed, ok := tw.GetMeta().Trailer["Encrypt"].(pdf.Dict); ok {
		if v, ok := ed["V"].(pdf.Integer); ok {
			tgtV = int(v)
		}
	}
	refusable := false // some stream of the source cannot be written to this target
	{
		saved := b.S.gets
		b.S.gets = -1 << 40
		for _, nd := range cs.nodes {
			if v, err := pdf.Resolve(b.S, nd.ref); err == nil {
				if st, ok := v.(*pdf.Stream); ok && cpyPutMayRefuse(b.S, st.Dict, tgtV) {
					refusable = true
				}
			}
		}
		b.S.gets = saved
	}
	if refusable {
		cs.mayFail = true
		aesOnly = false
		cs.features["target-refuses-crypt"] = true
		if cs.tgtOpen {
			// every Put is queued while the stream is open: the refusal surfaces when the stream is
			// closed, not in the call which handed the stream over (oracle only, see below)
			res.noEmit = true
		}
	}
	// "all copies while a stream is open on the target": Writer.Put then queues every object
	// (those of CopyReference as well as the caller's) until the stream is closed.
	var held io.WriteCloser
	if cs.tgtOpen {
		hr := tw.Alloc()
		ws, err := tw.OpenStream(hr, pdf.Dict{"Type": pdf.Name("HeldOpen")})
		if err != nil {
			res.line = "skip"
			res.desc = "target OpenStream: " + err.Error()
			return
		}
		if _, err := ws.Write([]byte("a stream which stays open while the copier works\n")); err != nil {
			res.line = "skip"
			res.desc = "target stream write: " + err.Error()
			return
		}
		held = ws
		n0 = hr.Number() + 1
	}

	exact := "x"
	if !cs.tgtSeekable {
		exact = "a" // a non-seekable Writer allocates object numbers for /Length: numbers are not compared
	}
	toks := b.sourceView(start)

	cp := pdf.NewCopier(tw, b.S)
	type outcome struct {
		ok     bool
		ref    pdf.Reference // target (if ok)
		class  string        // error class (if !ok)
		sv     pdf.Native    // source value to compare with (Copy of a value)
		viaRef bool          // CopyReference: compare as source reference sref
		sref   pdf.Reference
		skip   bool // nothing new to compare
	}
	var outs []outcome
	var executed []cpyOp
	expected := map[pdf.Reference]pdf.Reference{}
	redirected := map[pdf.Reference]pdf.Reference{}
	copiedBefore := map[pdf.Reference]bool{} // source refs (possibly) reached by earlier operations
	walked := map[pdf.Reference]bool{}       // ... whose value has been walked by markReached
	markReached := func(o pdf.Object) {
		saved := b.S.gets
		b.S.gets = -1 << 40
		defer func() { b.S.gets = saved }()
		queue := refsIn(o, nil)
		for len(queue) > 0 {
			ref := queue[0]
			queue = queue[1:]
			if walked[ref] {
				continue
			}
			walked[ref] = true
			copiedBefore[ref] = true
			if _, isRedirected := redirected[ref]; isRedirected {
				continue
			}
			if links := cpyLinks(b.S, ref); len(links) > 1 {
				stop := false
				for _, l := range links[1:] {
					copiedBefore[l] = true
					if _, isRedirected := redirected[l]; isRedirected {
						stop = true
						break
					}
				}
				if stop {
					continue
				}
			}
			v, err := pdf.Resolve(b.S, ref)
			if err != nil || v == nil {
				continue
			}
			if st, ok := v.(*pdf.Stream); ok {
				queue = refsIn(st.Dict, queue)
				for _, key := range []pdf.Name{"Filter", "DecodeParms"} {
					if fv, err := pdf.Resolve(b.S, st.Dict[key]); err == nil {
						queue = refsIn(fv, queue)
						if arr, ok := fv.(pdf.Array); ok {
							for _, e := range arr {
								if ev, err := pdf.Resolve(b.S, e); err == nil {
									queue = refsIn(ev, queue)
								}
							}
						}
					}
				}
			} else {
				queue = refsIn(v, queue)
			}
		}
	}
	markValue := func(v pdf.Native) {
		if st, ok := v.(*pdf.Stream); ok {
			markReached(st.Dict)
			markReached(pdf.Array{st.Dict["Filter"], st.Dict["DecodeParms"]})
		} else {
			markReached(v)
		}
	}

	anyFailed := false
	// Objects returned by Copier.Copy which the caller writes later ("Copy now, Put after k
	// further operations"), and a snapshot of the bytes every returned *pdf.Stream held at the
	// moment Copy returned: a returned stream is a value, later copies must not change it.
	type pendingPut struct {
		ref  pdf.Reference
		obj  pdf.Native
		wait int
	}
	var pending []pendingPut
	type streamSnap struct {
		ref  pdf.Reference
		stm  *pdf.Stream
		data []byte
		op   int
	}
	var snaps []streamSnap
	readStream := func(st *pdf.Stream) []byte {
		d, _ := io.ReadAll(st.NewReader())
		return d
	}
	var refusedRefs []pdf.Reference // numbers whose Put the target refused: nothing may be in the file under them
	putNow := func(p pendingPut) error {
		if st, ok := p.obj.(*pdf.Stream); ok && res.key == "" {
			for _, sn := range snaps {
				if sn.stm == st && !bytes.Equal(sn.data, readStream(st)) {
					res.key = "returned-stream-changed"
					res.desc = fmt.Sprintf("operation %d: the *pdf.Stream returned by Copier.Copy held %d bytes when it was returned; when it was written (as %v, after further copies) it yields %d different bytes", sn.op, len(sn.data), p.ref, len(readStream(st)))
				}
			}
		}
		err := tw.Put(p.ref, p.obj)
		if err != nil {
			if st, ok := p.obj.(*pdf.Stream); ok && cpyPutMayRefuse(nil, st.Dict, tgtV) {
				// the target cannot take this stream: the caller's Put fails, nothing is written
				refusedRefs = append(refusedRefs, p.ref)
				for k := range snaps {
					if snaps[k].stm == st {
						snaps = append(snaps[:k], snaps[k+1:]...)
						break
					}
				}
				return err
			}
			if res.key == "" {
				res.key = "put-of-copy-failed"
				res.desc = fmt.Sprintf("Writer.Put(%v, <object returned by Copier.Copy>) failed: %v", p.ref, err)
			}
		}
		return nil
	}
	// hand takes an object returned by Copy: allocate its number now, write it now or later
	hand := func(i int, op cpyOp, o pdf.Native) (pdf.Reference, error) {
		n := tw.Alloc()
		if st, ok := o.(*pdf.Stream); ok {
			snaps = append(snaps, streamSnap{ref: n, stm: st, data: readStream(st), op: i})
		}
		p := pendingPut{ref: n, obj: o, wait: op.later}
		if op.later == 0 || refusable {
			// (where the target may refuse a stream the object is written at once, so that the
			// refusal is the outcome of this operation)
			if err := putNow(p); err != nil {
				return 0, err
			}
		} else {
			pending = append(pending, p)
		}
		return n, nil
	}
	// tick is called after every operation: write what is due
	tick := func(all bool) {
		var rest []pendingPut
		for _, p := range pending {
			p.wait--
			if all || p.wait <= 0 {
				putNow(p)
			} else {
				rest = append(rest, p)
			}
		}
		pending = rest
	}
	type staleCheck struct {
		t, r pdf.Reference
	}
	var staleChecks []staleCheck
	// runOp executes one operation on the real Copier/Writer.
	runOp := func(i int, op cpyOp) (oc outcome, opErr error, panicked string) {
		b.S.gets = 0
		defer func() {
			if p := recover(); p != nil {
				panicked = fmt.Sprint(p)
			}
			if b.S.gets > cpyMaxGetsSeen {
				cpyMaxGetsSeen = b.S.gets
			}
		}()
		switch op.kind {
		case "cr":
			t, err := cp.CopyReference(op.ref)
			if err != nil {
				return oc, err, ""
			}
			return outcome{ok: true, ref: t, viaRef: true, sref: op.ref}, nil, ""
		case "cg":
			v, err := b.S.Get(op.ref, true)
			if err != nil {
				return oc, err, ""
			}
			oc.sv = v
			o, err := cp.Copy(v)
			if err != nil {
				return oc, err, ""
			}
			n, err := hand(i, op, o)
			if err != nil {
				return oc, err, ""
			}
			return outcome{ok: true, ref: n, sv: v}, nil, ""
		case "co":
			var nat pdf.Native
			if op.obj != nil {
				nat = op.obj.AsPDF(0)
			}
			oc.sv = nat
			o, err := cp.Copy(nat)
			if err != nil {
				return oc, err, ""
			}
			n, err := hand(i, op, o)
			if err != nil {
				return oc, err, ""
			}
			return outcome{ok: true, ref: n, sv: nat}, nil, ""
		case "rn":
			n := tw.Alloc()
			if err := tw.Put(n, op.marker); err != nil {
				return oc, err, ""
			}
			cp.Redirect(op.ref, n)
			return outcome{ok: true, ref: n, sv: op.marker.AsPDF(0)}, nil, ""
		case "rt":
			if op.k >= len(outs) || !outs[op.k].ok {
				return outcome{class: "gap"}, errSkipped, ""
			}
			t := outs[op.k].ref
			cp.Redirect(op.ref, t)
			return outcome{ok: true, ref: t, skip: true}, nil, ""
		}
		panic("bad op kind")
	}

	queue := append([]cpyOp{}, cs.prog...)
	for i := 0; len(queue) > 0; i++ {
		op := queue[0]
		queue = queue[1:]
		executed = append(executed, op)
		if (op.kind == "rn" || op.kind == "rt") && copiedBefore[op.ref] {
			cs.lateRedirect = true
		}
		oc, opErr, panicked := runOp(i, op)
		if panicked != "" {
			res.key = "panic"
			res.desc = fmt.Sprintf("operation %d (%s) panicked: %s", i, opToken(op), panicked)
			res.line = fmt.Sprintf("panic %d", i)
			res.opLine = fmt.Sprintf("CPY run %s n0=%d tv=%d %s", exact, n0, tgtV, strings.Join(toks, " "))
			return
		}
		if opErr != nil {
			if opErr != errSkipped {
				oc = outcome{class: errClass(opErr), sv: oc.sv}
				anyFailed = true
				res.errClass = oc.class
				if !cs.mayFail && res.key == "" {
					res.key = "unexpected-error"
					res.desc = fmt.Sprintf("operation %d (%s) failed on a source without unreadable parts: %v", i, opToken(op), opErr)
				}
				if aesOnly && oc.class != "malformed" && res.key == "" {
					res.key = "wrong-error-class"
					res.desc = fmt.Sprintf("operation %d (%s): an AES stream of the source is too short to be decrypted, a defect of the file; the copy fails with %q (class %s), which CopyReference treats as a failure of the byte source", i, opToken(op), opErr.Error(), oc.class)
				}
				// whatever the failed call copied before it failed stays copied
				switch op.kind {
				case "cr":
					markReached(op.ref)
				case "cg", "co":
					markValue(oc.sv)
				}
				// Repeat a failed CopyReference once (as one more operation of the program): it
				// must not now "succeed" with a reference to an object that was never written.
				if op.kind == "cr" && !op.retry {
					queue = append([]cpyOp{{kind: "cr", ref: op.ref, retry: true}}, queue...)
				}
			}
			outs = append(outs, oc)
			tick(false)
			continue
		}
		if op.retry && cs.tgtSeekable {
			staleChecks = append(staleChecks, staleCheck{t: oc.ref, r: op.ref}) // looked at when nothing is queued any more
		}
		switch op.kind {
		case "cr":
			if exp, ok := expected[op.ref]; !ok {
				expected[op.ref] = oc.ref
			} else if exp != oc.ref && res.key == "" {
				res.key = "second-copy-differs"
				res.desc = fmt.Sprintf("CopyReference(%v) = %v, earlier result %v", op.ref, oc.ref, exp)
			}
			markReached(op.ref)
		case "cg", "co":
			markValue(oc.sv)
		case "rn", "rt":
			redirected[op.ref] = oc.ref
			expected[op.ref] = oc.ref
		}
		outs = append(outs, oc)
		tick(false)
	}
	tick(true)
	res.reached = len(copiedBefore)

	var ops []string
	for _, op := range executed {
		ops = append(ops, opToken(op))
	}
	res.opLine = fmt.Sprintf("CPY run %s n0=%d tv=%d %s %s", exact, n0, tgtV, strings.Join(toks, " "), strings.Join(ops, " "))
	res.opLine = strings.Join(strings.Fields(res.opLine), " ")

	b.S.gets = 0
	probe := tw.Alloc().Number()

	// copying again returns the same reference and writes nothing
	var again []pdf.Reference
	for ref := range expected {
		again = append(again, ref)
	}
	sort.Slice(again, func(i, j int) bool { return again[i] < again[j] })
	for _, ref := range again {
		func() {
			defer func() {
				if p := recover(); p != nil && res.key == "" {
					res.key = "panic"
					res.desc = fmt.Sprintf("second CopyReference(%v) panicked: %v", ref, p)
				}
			}()
			b.S.gets = 0
			t, err := cp.CopyReference(ref)
			if res.key != "" {
				return
			}
			if err != nil {
				res.key = "second-copy-differs"
				res.desc = fmt.Sprintf("second CopyReference(%v) failed: %v", ref, err)
			} else if t != expected[ref] {
				res.key = "second-copy-differs"
				res.desc = fmt.Sprintf("second CopyReference(%v) = %v, first result %v", ref, t, expected[ref])
			}
		}()
	}
	if probe2 := tw.Alloc().Number(); probe2 != probe+1 && res.key == "" {
		res.key = "second-copy-writes"
		res.desc = fmt.Sprintf("repeating CopyReference allocated %d new objects", probe2-probe-1)
	}

	if held != nil {
		if err := held.Close(); err != nil {
			res.line = "close-error"
			if refusable && strings.Contains(err.Error(), "Crypt") {
				// a queued stream the target cannot take: reported when the queue is written
				res.failed = true
				res.errClass = "other"
				return
			}
			if res.key == "" {
				res.key = "deferred-put-failed"
				res.desc = "closing the stream which was open during the copies (this writes the queued objects): " + err.Error()
			}
			return
		}
	}
	for _, sc := range staleChecks {
		if res.key != "" {
			break
		}
		b.S.gets = -1 << 40
		written, gerr := tw.Get(sc.t, true)
		sv, serr := pdf.Resolve(b.S, sc.r)
		if gerr == nil && written == nil && serr == nil && sv != nil {
			res.key = "stale-trans-after-failed-copy"
			res.desc = fmt.Sprintf("CopyReference(%v) failed; repeating the call returns %v without error, but object %v was never written (the source object is a %T)", sc.r, sc.t, sc.t, sv)
		}
	}
	if err := tw.Close(); err != nil {
		res.line = "close-error"
		if res.key == "" {
			res.key = "target-close"
			res.desc = "target Close: " + err.Error()
		}
		return
	}
	data := mem.Data
	if !cs.tgtSeekable {
		data = wo.buf.Bytes()
	}
	T, err := pdf.NewReader(bytes.NewReader(data), int64(len(data)), &pdf.ReaderOptions{Password: cs.tgtPw, ErrorHandling: pdf.ErrorHandlingReport})
	if err != nil {
		res.line = "reopen-error"
		if res.key == "" {
			res.key = "target-reopen"
			res.desc = "target NewReader: " + err.Error()
		}
		return
	}

	b.S.gets = -1 << 40 // the oracle may read as much as it needs
	var okRoots []pdf.Reference
	var rs []string
	for _, oc := range outs {
		switch {
		case !oc.ok:
			rs = append(rs, "E"+oc.class)
		case exact == "x":
			rs = append(rs, fmt.Sprintf("%d,%d", oc.ref.Number(), oc.ref.Generation()))
			okRoots = append(okRoots, oc.ref)
		default:
			rs = append(rs, "-")
			okRoots = append(okRoots, oc.ref)
		}
	}
	// PDF 32000 7.6.6: crypt filters exist only where the encryption dictionary has /V 4 or 5; in
	// a /V 1..3 file a conforming reader decrypts every stream, so a stream "left in the clear"
	// behind /Crypt would be turned into garbage: no such stream may have been written.
	if tgtV > 0 && tgtV < 4 && res.key == "" {
		for n := uint32(1); n < probe; n++ {
			obj, err := T.Get(pdf.NewReference(n, 0), true)
			if st, ok := obj.(*pdf.Stream); ok && err == nil && cpyPutMayRefuse(nil, st.Dict, tgtV) {
				res.key = "crypt-filter-without-crypt-filters"
				res.desc = fmt.Sprintf("the target is encrypted with /V %d, which has no crypt filters, but object %d was written with /Filter %s", tgtV, n, wire(st.Dict["Filter"]))
				break
			}
		}
	}
	if cs.foreign != nil {
		for i, oc := range outs {
			if res.key != "" || !oc.ok || i >= len(executed) {
				continue
			}
			op := executed[i]
			if op.kind != "cr" && op.kind != "cg" {
				continue
			}
			if _, isRedirected := redirected[op.ref]; isRedirected {
				continue
			}
			if it := cs.foreign.item(op.ref); it != nil {
				res.key, res.desc = cpyEffTruth(T, cs.foreign, it, oc.ref)
			}
		}
	}
	for _, ref := range refusedRefs {
		if res.key != "" {
			break
		}
		if obj, err := T.Get(ref, true); err != nil || obj != nil {
			res.key = "refused-put-left-trace"
			res.desc = fmt.Sprintf("Writer.Put(%v, <stream returned by Copier.Copy>) was refused (the target cannot represent its /Crypt filter), yet the closed target has an entry for %v: Get returns %T, %v", ref, ref, obj, err)
		}
	}
	for _, sn := range snaps {
		if res.key != "" {
			break
		}
		tv, err := T.Get(sn.ref, true)
		ts, ok := tv.(*pdf.Stream)
		if err != nil || !ok {
			res.key = "returned-stream-changed"
			res.desc = fmt.Sprintf("operation %d: Copier.Copy returned a stream, target %v reads back as %T (%v)", sn.op, sn.ref, tv, err)
			break
		}
		if got := rawOf(T, ts); !bytes.Equal(got, sn.data) {
			res.key = "returned-stream-changed"
			res.desc = fmt.Sprintf("operation %d: the *pdf.Stream returned by Copier.Copy held %d bytes when it was returned; target %v reads back %d different bytes", sn.op, len(sn.data), sn.ref, len(got))
		}
	}
	dump, derr := cpyDump(T, okRoots)
	if derr != nil {
		res.line = "dump-error"
		if res.key == "" {
			res.key = "target-unreadable"
			res.desc = derr.Error()
		}
		return
	}
	if exact == "x" {
		res.line = fmt.Sprintf("ok next=%d roots=%s %s", probe, strings.Join(rs, ";"), dump)
	} else {
		res.line = fmt.Sprintf("ok next=- roots=%s %s", strings.Join(rs, ";"), dump)
	}
	res.line = strings.TrimRight(res.line, " ")
	if anyFailed {
		res.failed = true
	}

	if res.key != "" {
		return
	}
	if cs.lateRedirect {
		return // objects copied before a Redirect keep the old target: isomorphism is not claimed
	}
	truth := map[int64]cpyTruth{}
	for _, nd := range cs.nodes {
		if nd.kind == nkStream {
			if id, ok := nd.dict["CpyId"].(pdf.Integer); ok && !nd.noTruth {
				t := cpyTruth{data: nd.data}
				for _, f := range nd.filters {
					// a predictor works on whole rows and pads whatever it is applied to: such chains do
					// not return exactly what was written (in the source as in the copy): no ground truth
					if ff, ok := f.(pdf.FilterFlate); ok && ff.Predictor >= pdf.FlatePredictorPNGNone {
						t.row = -1
					}
				}
				if t.row >= 0 {
					truth[int64(id)] = t
				}
			}
		}
	}
	iso := &cpyIso{canonMemo: map[pdf.Reference]pdf.Reference{}, fwdVia: map[pdf.Reference]pdf.Reference{}, nodes: b.S.nodes, truth: truth, afterFailure: anyFailed, S: b.S, T: T, fwd: map[pdf.Reference]pdf.Reference{}, bwd: map[pdf.Reference]pdf.Reference{}, redirected: redirected}
	for i, oc := range outs {
		path := "op" + strconv.Itoa(i)
		switch {
		case !oc.ok || oc.skip:
		case oc.viaRef:
			iso.matchRef(oc.sref, oc.ref, path)
		default:
			iso.matchTop(oc.sv, oc.ref, path, false)
		}
	}
	iso.run()
	res.key, res.desc = iso.key, iso.desc
	return
}

var errSkipped = errors.New("operation skipped")


// ---- corpus: minimised past findings, run first on every check ----

var cpyCorpusNames = []string{"D19-stale-trans", "D19b-cycle-failure", "D4-empty-array", "D5-null-entry",
	"put-later-rc4", "put-later-aes128", "put-later-aes256", "put-later-plain",
	"open-stream-rc4", "open-stream-aes256", "open-stream-plain",
	"metadata-rc4-40", "metadata-rc4-128", "metadata-aes128", "metadata-aes256",
	"metadata-aes128-encmeta-false", "metadata-aes256-encmeta-false", "metadata-aes256-encmeta-false-enc-target",
	"alias-shared", "alias-cycle", "alias-redirect", "filter-is-self", "decodeparms-is-other-stream",
	"writer-source-readerat", "writer-source-no-readerat",
	"aes-empty-stream", "aes-iv-only", "aes-short-5", "aes-short-20"}

// cpyCorpusCase builds a fixed case.  The program is fixed too (fixedProg).
func cpyCorpusCase(name string) *cpyCase {
	cs := &cpyCase{seed: 1, features: map[string]bool{"corpus " + name: true}, fixedProg: true}
	cs.srcVer, cs.tgtVer = pdf.V1_7, pdf.V1_7
	cs.srcSeekable, cs.tgtSeekable = true, true
	ref := func(n int) pdf.Reference { return pdf.NewReference(uint32(n), 0) }
	node := func(n int, o pdf.Object) *cpyNode { return &cpyNode{ref: ref(n), kind: nkObj, obj: o} }
	switch name {
	case "D19-stale-trans":
		// 2 -> 3, 3 cannot be read: CopyReference(2) fails, and fails again when repeated
		bad := node(3, pdf.Integer(0))
		bad.ov = ovIO
		cs.nodes = []*cpyNode{node(2, pdf.Dict{"B": ref(3)}), bad}
		cs.prog = []cpyOp{{kind: "cr", ref: ref(2)}}
		cs.mayFail = true
	case "D19b-cycle-failure":
		// 3 -> {A: 2, X: 4}, 2 -> {P: 3}, 4 cannot be read: the copy of 2 made while copying 3
		// must not survive the failure of 3
		bad := node(4, pdf.Integer(0))
		bad.ov = ovIO
		cs.nodes = []*cpyNode{node(2, pdf.Dict{"P": ref(3)}), node(3, pdf.Dict{"A": ref(2), "X": ref(4)}), bad}
		cs.prog = []cpyOp{{kind: "cr", ref: ref(3)}, {kind: "cr", ref: ref(2)}}
		cs.mayFail = true
	case "D4-empty-array":
		cs.nodes = []*cpyNode{node(2, pdf.Dict{"D": pdf.Array{pdf.Array{}, pdf.Integer(0)}, "E": pdf.Array{}, "F": pdf.Dict{}})}
		cs.prog = []cpyOp{{kind: "cr", ref: ref(2)}, {kind: "co", obj: pdf.Array{}}}
	case "D5-null-entry":
		n := node(2, pdf.Dict{"A": pdf.Integer(1)})
		n.ov = ovObj
		n.ovObj = pdf.Dict{"A": nil, "B": pdf.Array{nil, pdf.Dict{"C": nil}}}
		cs.nodes = []*cpyNode{n}
		cs.prog = []cpyOp{{kind: "cr", ref: ref(2)}, {kind: "co", obj: pdf.Dict{"Z": nil}}}
	case "put-later-rc4", "put-later-aes128", "put-later-aes256", "put-later-plain",
		"open-stream-rc4", "open-stream-aes256", "open-stream-plain":
		// three streams of different lengths and filters below one dictionary.  Either the caller
		// collects the streams returned by Copy and writes them afterwards, or everything is
		// copied while a stream is open on the target (all Puts queued).
		switch {
		case strings.HasSuffix(name, "rc4"):
			cs.srcVer, cs.srcPw = pdf.V1_4, "src"
		case strings.HasSuffix(name, "aes128"):
			cs.srcVer, cs.srcPw = pdf.V1_7, "src"
		case strings.HasSuffix(name, "aes256"):
			cs.srcVer, cs.srcPw = pdf.V2_0, "src"
		}
		if strings.HasPrefix(name, "open-stream") {
			cs.tgtOpen = true
			cs.tgtPw = "tgt"
		}
		stm := func(n int, fill byte, size int, fs ...pdf.Filter) *cpyNode {
			return &cpyNode{ref: ref(n), kind: nkStream, dict: pdf.Dict{"N": pdf.Integer(n)},
				data: bytes.Repeat([]byte{fill}, size), filters: fs}
		}
		cs.nodes = []*cpyNode{
			node(2, pdf.Dict{"A": ref(3), "B": ref(4), "C": ref(5)}),
			stm(3, 'A', 49),
			stm(4, 'B', 1509, pdf.FilterASCIIHex{}),
			stm(5, 'C', 26, pdf.FilterFlate{}),
		}
		if strings.HasPrefix(name, "open-stream") {
			cs.prog = []cpyOp{{kind: "cr", ref: ref(2)}, {kind: "cg", ref: ref(4)}}
		} else {
			cs.prog = []cpyOp{{kind: "cg", ref: ref(3), later: 3}, {kind: "cg", ref: ref(4), later: 2},
				{kind: "cg", ref: ref(5), later: 2}, {kind: "cr", ref: ref(2)}}
		}
	case "metadata-rc4-40", "metadata-rc4-128", "metadata-aes128", "metadata-aes256",
		"metadata-aes128-encmeta-false", "metadata-aes256-encmeta-false", "metadata-aes256-encmeta-false-enc-target":
		// An encrypted source with document-level metadata (with /EncryptMetadata false where the
		// version allows it) and, below a page-like dictionary, metadata streams which are NOT the
		// catalog's (owned by the page, a form XObject, an image), an XObject, an untyped stream and
		// a metadata stream which opts out of encryption with /Crypt /Identity.  Only the catalog's
		// stream is exempt from encryption; all are copied, the catalog's one too.
		cs.srcPw = "src"
		cs.srcMeta = 1
		switch {
		case strings.HasPrefix(name, "metadata-rc4-40"):
			cs.srcVer = pdf.V1_3
			cs.srcMeta = 0 // metadata streams need 1.4
		case strings.HasPrefix(name, "metadata-rc4-128"):
			cs.srcVer = pdf.V1_5
		case strings.HasPrefix(name, "metadata-aes128"):
			cs.srcVer = pdf.V1_7
		default:
			cs.srcVer = pdf.V2_0
		}
		if strings.Contains(name, "encmeta-false") {
			cs.srcMeta = 2
		}
		if strings.HasSuffix(name, "enc-target") {
			cs.tgtPw = "tgt"
		}
		xml := func(who string) []byte {
			return []byte("<?xpacket begin='' id='W5M0MpCehiHzreSzNTczkc9d'?><x:xmpmeta xmlns:x='adobe:ns:meta/'>" + who + "</x:xmpmeta><?xpacket end='w'?>")
		}
		stm := func(n int, d pdf.Dict, data []byte, fs ...pdf.Filter) *cpyNode {
			d["CpyId"] = pdf.Integer(n)
			return &cpyNode{ref: ref(n), kind: nkStream, dict: d, data: data, filters: fs}
		}
		md := func() pdf.Dict { return pdf.Dict{"Type": pdf.Name("Metadata"), "Subtype": pdf.Name("XML")} }
		cs.nodes = []*cpyNode{
			node(2, pdf.Dict{"Type": pdf.Name("Page"), "Metadata": ref(3), "Form": ref(4), "Image": ref(5), "Plain": ref(8)}),
			stm(3, md(), xml("page")),
			stm(4, pdf.Dict{"Type": pdf.Name("XObject"), "Subtype": pdf.Name("Form"), "Metadata": ref(6)}, []byte("q 1 0 0 1 0 0 cm Q")),
			stm(5, pdf.Dict{"Type": pdf.Name("XObject"), "Subtype": pdf.Name("Image"), "Metadata": ref(7)}, bytes.Repeat([]byte{0x80, 0x10}, 600), pdf.FilterASCIIHex{}),
			stm(6, md(), xml("form xobject"), pdf.FilterASCII85{}),
			stm(7, md(), xml("image")),
			stm(8, pdf.Dict{}, []byte("an untyped stream")),
		}
		if cs.srcVer >= pdf.V1_2 {
			cs.nodes[4].filters = []pdf.Filter{pdf.FilterFlate{}}
		}
		if cs.srcVer >= pdf.V1_5 {
			cs.nodes[5].filters = []pdf.Filter{pdf.FilterCryptIdentity{}}
		}
		cs.prog = []cpyOp{{kind: "cr", ref: ref(2)}, {kind: "cg", ref: ref(6), later: 1}}
		if cs.srcMeta != 0 {
			cs.prog = append(cs.prog, cpyOp{kind: "cr", catMeta: true}, cpyOp{kind: "cg", catMeta: true})
		}
	case "alias-shared":
		// one stream reached directly, through alias 4 -> 3 and through alias 5 -> 4 -> 3
		st := &cpyNode{ref: ref(3), kind: nkStream, dict: pdf.Dict{"CpyId": pdf.Integer(3)}, data: bytes.Repeat([]byte("shared "), 300)}
		cs.nodes = []*cpyNode{node(2, pdf.Array{ref(3), ref(4), ref(5)}), st, node(4, ref(3)), node(5, ref(4))}
		cs.prog = []cpyOp{{kind: "cr", ref: ref(2)}, {kind: "cr", ref: ref(5)}, {kind: "cr", ref: ref(3)}, {kind: "cr", ref: ref(4)}}
	case "alias-cycle":
		// a dictionary whose /Self reaches it again through an alias
		cs.nodes = []*cpyNode{node(2, pdf.Dict{"Self": ref(3), "V": pdf.Integer(7)}), node(3, ref(2))}
		cs.prog = []cpyOp{{kind: "cr", ref: ref(2)}, {kind: "cr", ref: ref(3)}}
	case "alias-redirect":
		// Redirect(2, n) also holds when 2 is reached through the alias 3
		cs.nodes = []*cpyNode{node(2, pdf.Dict{"V": pdf.Integer(1)}), node(3, ref(2)), node(4, pdf.Array{ref(3), ref(2)})}
		cs.prog = []cpyOp{{kind: "rn", ref: ref(2), marker: pdf.Dict{"Redirected": pdf.Integer(0)}}, {kind: "cr", ref: ref(4)}}
	case "filter-is-self", "decodeparms-is-other-stream":
		// a defective source: the copy has to fail cleanly (no endless recursion, target usable)
		a := &cpyNode{ref: ref(3), kind: nkStream, dict: pdf.Dict{"CpyId": pdf.Integer(3)}, data: []byte("abc")}
		b := &cpyNode{ref: ref(4), kind: nkStream, dict: pdf.Dict{"CpyId": pdf.Integer(4)}, data: []byte("other")}
		if name == "filter-is-self" {
			a.selfFilter = 1
		} else {
			a.selfFilter = 4
		}
		cs.nodes = []*cpyNode{node(2, pdf.Dict{"S": ref(3), "T": ref(4)}), a, b}
		cs.prog = []cpyOp{{kind: "cr", ref: ref(2)}, {kind: "cr", ref: ref(4)}, {kind: "co", obj: pdf.Array{pdf.Integer(1)}}}
		cs.mayFail = true
	case "writer-source-readerat", "writer-source-no-readerat":
		cs.srcWriter = true
		cs.srcNoReaderAt = name == "writer-source-no-readerat"
		st := &cpyNode{ref: ref(3), kind: nkStream, dict: pdf.Dict{"CpyId": pdf.Integer(3)}, data: []byte("stream data in a writer")}
		cs.nodes = []*cpyNode{node(2, pdf.Dict{"S": ref(3), "V": pdf.String("x")}), st}
		cs.prog = []cpyOp{{kind: "cr", ref: ref(2)}}
	case "aes-empty-stream", "aes-iv-only", "aes-short-5", "aes-short-20":
		cs.srcVer, cs.srcPw = pdf.V1_7, "src"
		st := &cpyNode{ref: ref(3), kind: nkStream, dict: pdf.Dict{"CpyId": pdf.Integer(3)}}
		st.aesLen = 1 + map[string]int{"aes-empty-stream": 0, "aes-iv-only": 16, "aes-short-5": 5, "aes-short-20": 20}[name]
		cs.nodes = []*cpyNode{node(2, pdf.Dict{"Empty": ref(3), "Other": pdf.Integer(1)}), st}
		cs.prog = []cpyOp{{kind: "cr", ref: ref(2)}}
	default:
		return nil
	}
	return cs
}

func replayCPY(input string) (bool, string) {
	wireNilDict = true
	parts := strings.Fields(input)
	if len(parts) != 2 {
		return true, "bad replay input"
	}
	var cs *cpyCase
	if parts[0] == "corpus" {
		cs = cpyCorpusCase(parts[1])
		if cs == nil {
			return true, "unknown corpus case"
		}
	} else if parts[0] == "eff" {
		var msg string
		cs, msg = cpyEffReplay(parts[1])
		if cs == nil {
			return true, msg
		}
	} else {
		seed, err := strconv.ParseUint(parts[0], 10, 64)
		if err != nil {
			return true, "bad replay input"
		}
		cs = genCpyCase(seed, parts[1] == "t")
	}
	res := runCpyCase(cs, parts[1] == "t")
	d := cs.describe() + "\n" + res.opLine + "\n" + res.line
	if res.key != "" {
		return false, d + "\n" + res.key + ": " + res.desc
	}
	return true, d
}

func runCPY(c *Ctx) {
	wireNilDict = true // a typed nil Dict is the null object (D99); "N" on the wire, read as null
	n := 9000
	if c.Thorough {
		n = 70000
	}
	tier := "q"
	if c.Thorough {
		tier = "t"
	}
	// NewRand(k) and NewRand(k+1) walk the same splitmix64 sequence one step apart, so the
	// case seeds are drawn from a generator re-seeded by an *output* of c.R: different
	// VERIF_SEEDs then give unrelated case sequences.
	rr := &Rand{s: c.R.U64()*0xD6E8FEB86659FD93 + 0x5851F42D4C957F2D}
	skipped := 0
	for _, name := range cpyCorpusNames {
		cs := cpyCorpusCase(name)
		res := runCpyCase(cs, c.Thorough)
		if res.line == "skip" {
			c.Violate("copier", "corpus-case-not-built", name+": "+res.desc, "corpus "+name)
			continue
		}
		if !res.noEmit {
			c.Emit(res.opLine, res.line)
		}
		c.Case(cpyHash(res.opLine), true)
		c.Stat("corpus case")
		c.Sample(cs.describe() + " => " + res.line)
		if res.key != "" {
			c.Violate("copier", res.key, cs.describe()+": "+res.desc, "corpus "+name)
		}
	}
	// sources in which /StmF, /StrF and /EFF select StdCF or Identity independently (made by the Spec)
	nEff := 72
	if c.Thorough {
		nEff = 480
	}
	effCases, effInputs, effSkipped := genCpyEffCases(&Rand{s: rr.U64()}, nEff)
	for _, why := range effSkipped {
		c.Stat("crypt-filter-selection source not used")
		c.Sample("not used: " + firstWords(why, 40))
	}
	if len(effCases)*2 < nEff {
		why := "no case"
		if len(effSkipped) > 0 {
			why = effSkipped[0]
		}
		c.Violate("copier", "harness-cannot-build-sources", fmt.Sprintf("only %d of %d Spec-made sources with crypt filter selections could be used, first: %s", len(effCases), nEff, why), "corpus none")
	}
	for i, cs := range effCases {
		res := runCpyCase(cs, c.Thorough)
		if res.line == "skip" {
			c.Stat("skipped: " + firstWords(res.desc, 3))
			continue
		}
		if !res.noEmit {
			c.Emit(res.opLine, res.line)
		}
		c.Case(cpyHash(res.opLine), res.reached >= 2)
		for f := range cs.features {
			c.Stat("feature " + f)
		}
		c.Stat(fmt.Sprintf("tgt %s enc=%v", cs.tgtVer, cs.tgtPw != ""))
		if i < 2 {
			c.Sample(cs.describe() + " => " + res.line)
		}
		if res.key != "" {
			c.Violate("copier", res.key, cs.describe()+": "+res.desc, effInputs[i])
		}
	}
	for i := 0; i < n; i++ {
		seed := rr.U64()
		cs := genCpyCase(seed, c.Thorough)
		res := runCpyCase(cs, c.Thorough)
		if res.line == "skip" {
			c.Stat("skipped: " + firstWords(res.desc, 3))
			skipped++
			if skipped > 50 && skipped*5 > i+1 {
				c.Violate("copier", "harness-cannot-build-sources", fmt.Sprintf("%d of %d generated sources could not be written/read back by the real Writer/Reader, last: %s", skipped, i+1, res.desc), fmt.Sprintf("%d %s", seed, tier))
				break
			}
			continue
		}
		if !res.noEmit {
			c.Emit(res.opLine, res.line)
		}
		c.Case(cpyHash(res.opLine), res.reached >= 2)
		for f := range cs.features {
			c.Stat("feature " + f)
		}
		c.Stat(fmt.Sprintf("src %s enc=%v", cs.srcVer, cs.srcPw != ""))
		c.Stat(fmt.Sprintf("tgt %s enc=%v", cs.tgtVer, cs.tgtPw != ""))
		if res.failed {
			c.Stat("program with a failed call (last class " + res.errClass + ")")
		} else {
			c.Stat("program without failure")
		}
		if cs.lateRedirect {
			c.Stat("late redirect (iso oracle off)")
		}
		switch {
		case res.reached >= 20:
			c.Stat("reached >=20")
		case res.reached >= 5:
			c.Stat("reached 5-19")
		case res.reached >= 2:
			c.Stat("reached 2-4")
		default:
			c.Stat("reached 0-1")
		}
		if i < 6 {
			c.Sample(cs.describe() + " => " + res.line)
		}
		if i == n-1 {
			c.StatN("max Get calls in one copier operation", cpyMaxGetsSeen)
		}
		if res.key != "" {
			c.Violate("copier", res.key, cs.describe()+": "+res.desc, fmt.Sprintf("%d %s", seed, tier))
		}
	}
}

func init() { _ = cpyMaxGetsSeen }

func cpyHash(s string) string {
	h := fnv.New64a()
	h.Write([]byte(s))
	return strconv.FormatUint(h.Sum64(), 36)
}

func firstWords(s string, n int) string {
	f := strings.Fields(s)
	if len(f) > n {
		f = f[:n]
	}
	return strings.Join(f, " ")
}

package main

import (
	"bytes"
	"fmt"
	"io"
	"sort"
	"strconv"
	"strings"

	"seehuhn.de/go/pdf"
)

// FIO work package, properties C02/C03: *pdf.Placeholder values supplied by the
// caller (pdf.NewPlaceholder(w, size) … ph.Set(val)).  A placeholder is written
//
//	method 1: as its value, when Set was called before the object is written,
//	method 2: as `size` blanks which Set overwrites later (seekable sink, and
//	          only when the object is formatted directly into the file),
//	method 3: as a reference to an object which Set writes (non-seekable sink,
//	          or formatting into the body of an object stream — D43).
//
// Programs put placeholders into Put objects (any nesting, also as the whole
// object), WriteCompressed members, OpenStream dictionaries and the
// dictionaries of stream objects handed to Put; the same placeholder may occur
// several times; Set is called before the first use, at a random later point
// (also while a stream is open), twice (the second call must fail) or never
// (array elements only).  Between the uses other objects are written: a Set
// which overwrites foreign bytes (D43) damages them.
//
// Oracle (C02): the file is reopened; every object reads back as written with
// each placeholder replaced by its value — directly or through a reference
// which resolves to it (a placeholder never set: nothing, or a reference to a
// missing object); all other objects intact.  C03: the independent checker
// with the Writer's own table.  The case is replayed from its seed.

type fioPh struct {
	ph    *pdf.Placeholder
	size  int
	value pdf.Native // the value of the successful Set; nil = never set
	used  bool

	setAfterUse      bool
	direct, inObjStm bool // formatted directly into the file / into the body of an object stream
}

// fioPhMark stands for placeholder k inside an expected object tree.
type fioPhMark int

func (fioPhMark) AsPDF(pdf.OutputOptions) pdf.Native { panic("marker") }

type fioPhProg struct {
	version  pdf.Version
	human    bool
	seekable bool
	encrypt  bool
	log      []string
	objStmOnly bool // a placeholder was written only inside an object stream (seekable sink) and set afterwards
	mixed    bool // a placeholder was written both directly and inside an object stream (seekable sink)
}

func (p *fioPhProg) String() string {
	return fmt.Sprintf("v=%d human=%v seekable=%v encrypt=%v: %s", int(p.version), p.human, p.seekable, p.encrypt, strings.Join(p.log, "; "))
}

// fioPhBuild makes an object with the placeholders ks inside; it returns the
// object for the Writer and the expected tree (markers instead of placeholders).
func fioPhBuild(r *Rand, phs []*fioPh, ks []int, arraysOnly bool) (pdf.Object, pdf.Object) {
	leaf := func(k int) (pdf.Object, pdf.Object) {
		phs[k].used = true
		return phs[k].ph, fioPhMark(k)
	}
	wrap := func(o, e pdf.Object) (pdf.Object, pdf.Object) {
		switch n := r.Intn(4); {
		case n == 0 || arraysOnly:
			return pdf.Array{pdf.Integer(r.Intn(100)), o, pdf.Name("N")}, pdf.Array{pdf.Integer(0), e, pdf.Name("N")}
		case n == 1:
			return pdf.Dict{"A": o, "B": pdf.Integer(1)}, pdf.Dict{"A": e, "B": pdf.Integer(1)}
		case n == 2:
			return pdf.Dict{"K": pdf.Array{pdf.Dict{"X": o}}}, pdf.Dict{"K": pdf.Array{pdf.Dict{"X": e}}}
		default:
			return pdf.Array{o}, pdf.Array{e}
		}
	}
	if len(ks) == 1 && !arraysOnly && r.P(1, 6) {
		return leaf(ks[0]) // the placeholder is the whole object
	}
	var os, es pdf.Array
	for _, k := range ks {
		o, e := leaf(k)
		if r.Bool() || arraysOnly {
			o, e = wrap(o, e)
		}
		os, es = append(os, o), append(es, e)
	}
	if len(os) == 1 {
		o, e := os[0], es[0]
		if _, isPh := o.(*pdf.Placeholder); isPh {
			o, e = wrap(o, e)
		}
		return o, fioPhFixInts(o, e)
	}
	return os, fioPhFixInts(os, es)
}

// fioPhFixInts copies the random integers of the Writer's object into the expected tree.
func fioPhFixInts(o, e pdf.Object) pdf.Object {
	switch x := o.(type) {
	case pdf.Array:
		ea := e.(pdf.Array)
		out := make(pdf.Array, len(x))
		for i := range x {
			out[i] = fioPhFixInts(x[i], ea[i])
		}
		return out
	case pdf.Dict:
		ed := e.(pdf.Dict)
		out := pdf.Dict{}
		for k := range x {
			out[k] = fioPhFixInts(x[k], ed[k])
		}
		return out
	case *pdf.Placeholder:
		return e
	}
	return o
}

// fioPhMatch compares what the Reader returns with the expected tree.
func fioPhMatch(rd *pdf.Reader, got pdf.Object, want pdf.Object, phs []*fioPh) string {
	if m, ok := want.(fioPhMark); ok {
		val := phs[int(m)].value
		if ref, isRef := got.(pdf.Reference); isRef {
			res, err := rd.Get(ref, true)
			if err != nil {
				return fmt.Sprintf("placeholder %d: reference %v: %v", int(m), ref, err)
			}
			got = res
		}
		if val == nil {
			if got != nil {
				return fmt.Sprintf("placeholder %d was never set but reads as %s", int(m), wireNorm(got))
			}
			return ""
		}
		if !objEqual(normObj(got), normObj(val)) {
			return fmt.Sprintf("placeholder %d set to %s reads as %s", int(m), wireNorm(val), wireNorm(got))
		}
		return ""
	}
	switch w := want.(type) {
	case pdf.Array:
		g, ok := got.(pdf.Array)
		if !ok {
			return fmt.Sprintf("expected an array, got %s", wireNorm(got))
		}
		// a placeholder which was never set may have left only blanks
		var wantKept pdf.Array
		if len(g) < len(w) {
			for _, e := range w {
				if m, isM := e.(fioPhMark); isM && phs[int(m)].value == nil {
					continue
				}
				wantKept = append(wantKept, e)
			}
			w = wantKept
		}
		if len(g) != len(w) {
			return fmt.Sprintf("array of %d elements read back with %d", len(w), len(g))
		}
		for i := range w {
			if d := fioPhMatch(rd, g[i], w[i], phs); d != "" {
				return d
			}
		}
		return ""
	case pdf.Dict:
		g, ok := got.(pdf.Dict)
		if !ok {
			return fmt.Sprintf("expected a dictionary, got %s", wireNorm(got))
		}
		if len(g) != len(w) {
			return fmt.Sprintf("dictionary with %d entries read back with %d: %s", len(w), len(g), wireNorm(g))
		}
		var keys []string
		for k := range w {
			keys = append(keys, string(k))
		}
		sort.Strings(keys)
		for _, k := range keys {
			if d := fioPhMatch(rd, g[pdf.Name(k)], w[pdf.Name(k)], phs); d != "" {
				return "/" + k + ": " + d
			}
		}
		return ""
	}
	if !objEqual(normObj(got), normObj(want)) {
		return fmt.Sprintf("%s read back as %s", wireNorm(want), wireNorm(got))
	}
	return ""
}

type fioPhWritten struct {
	ref      pdf.Reference
	want     pdf.Object
	isStream bool
	data     []byte
}

// fioPhCase runs one generated placeholder program.
func fioPhCase(seed uint64, thorough bool) (prog *fioPhProg, res *fioResult, viol []fioViolation) {
	r := NewRand(seed)
	p := &fioPhProg{version: pdf.Version(1 + r.Intn(9)), human: r.P(1, 3), seekable: r.P(2, 3)}
	p.encrypt = r.P(1, 4) && p.version > pdf.V1_0
	fp := &fioProg{version: p.version, human: p.human, seekable: p.seekable, encrypt: p.encrypt, userPw: true}
	res = &fioResult{prog: fp, failedAt: -1, written: map[pdf.Reference]*fioWritten{}}
	defer func() {
		if rec := recover(); rec != nil {
			viol = append(viol, fioViolation{"writer-panic", fmt.Sprintf("panic: %v", rec)})
		}
	}()
	bad := func(key, format string, args ...any) {
		viol = append(viol, fioViolation{key, fmt.Sprintf(format, args...)})
	}
	logf := func(format string, args ...any) { p.log = append(p.log, fmt.Sprintf(format, args...)) }

	var sink io.Writer
	seekBuf, plainBuf := &fioSeekBuf{}, &fioPlainBuf{}
	if p.seekable {
		sink = seekBuf
	} else {
		sink = plainBuf
	}
	w, err := pdf.NewWriter(sink, p.version, fp.opts())
	if err != nil {
		bad("newwriter-failed", "NewWriter: %v", err)
		return p, res, viol
	}
	res.pages = w.Alloc()
	w.GetMeta().Catalog.Pages = res.pages
	res.id = w.GetMeta().ID

	nph := 1 + r.Intn(3)
	var phs []*fioPh
	for i := 0; i < nph; i++ {
		size := 8 + r.Intn(12)
		phs = append(phs, &fioPh{ph: pdf.NewPlaceholder(w, size), size: size})
	}
	genValue := func(size int) pdf.Native {
		for {
			var v pdf.Native
			switch r.Intn(5) {
			case 0:
				v = pdf.Integer(r.Intn(1000000))
			case 1:
				v = pdf.Name("V" + strconv.Itoa(r.Intn(100)))
			case 2:
				v = pdf.Array{pdf.Integer(r.Intn(50)), pdf.Name("q")}
			case 3:
				v = pdf.Real(float64(r.Intn(1000)) / 8)
			default:
				if p.encrypt {
					continue // strings in encrypted files: see fioPhEncryptedString
				}
				v = pdf.String("s" + strconv.Itoa(r.Intn(1000)))
			}
			var buf bytes.Buffer
			if pdf.Format(&buf, 0, v) == nil && buf.Len() <= size {
				return v
			}
		}
	}
	var written []fioPhWritten
	var stream io.WriteCloser
	var streamW fioPhWritten
	set := func(k int) {
		ph := phs[k]
		val := genValue(ph.size)
		err := ph.ph.Set(val)
		switch {
		case ph.value == nil && err == nil:
			ph.value = val
			ph.setAfterUse = ph.used
			logf("Set(ph%d, %s)", k, wireNorm(val))
		case ph.value == nil:
			bad("placeholder-set-failed", "first Set(ph%d, %s) failed: %v", k, wireNorm(val), err)
		case err == nil:
			bad("placeholder-set-twice-accepted", "second Set(ph%d, %s) was accepted (first value %s)", k, wireNorm(val), wireNorm(ph.value))
		default:
			logf("second Set(ph%d) refused", k)
		}
	}
	// in a third of the programs placeholder 0 is written only by WriteCompressed (D43: inside an
	// object stream no file position may be recorded)
	onlyCompressed := r.P(1, 3)
	pick := func(compressed bool) []int {
		n := 1
		if r.P(1, 4) {
			n = 2
		}
		var ks []int
		for i := 0; i < n; i++ {
			k := r.Intn(nph)
			if onlyCompressed && compressed && r.Bool() {
				k = 0
			}
			if onlyCompressed && !compressed && k == 0 {
				continue
			}
			ks = append(ks, k)
		}
		return ks
	}
	// placeholder nph-1 is never set when neverSet is true: it only occurs in arrays
	neverSet := r.P(1, 4)
	usable := func(ks []int) (out []int, arraysOnly bool) {
		for _, k := range ks {
			if neverSet && k == nph-1 {
				arraysOnly = true
			}
			out = append(out, k)
		}
		return out, arraysOnly
	}
	filler := func() {
		ref := w.Alloc()
		obj := pdf.Dict{"Filler": pdf.String(bytes.Repeat([]byte("x"), 20+r.Intn(200))), "N": pdf.Integer(r.Intn(1000))}
		if p.encrypt {
			obj = pdf.Dict{"Filler": pdf.Name(strings.Repeat("y", 20+r.Intn(100))), "N": pdf.Integer(r.Intn(1000))}
		}
		if err := w.Put(ref, obj); err != nil {
			bad("writer-rejects-valid-program", "Put(%v) of a filler object: %v", ref, err)
			return
		}
		written = append(written, fioPhWritten{ref: ref, want: obj})
		logf("Put(%v, filler)", ref)
	}
	markDirect := func(ks []int) {
		for _, k := range ks {
			phs[k].direct = true
		}
	}
	defer func() {
		for _, ph := range phs {
			if p.seekable && ph.direct && ph.inObjStm {
				p.mixed = true
			}
			if p.seekable && !ph.direct && ph.inObjStm && ph.setAfterUse {
				p.objStmOnly = true
			}
		}
	}()
	nops := 6 + r.Intn(10)
	if thorough {
		nops += r.Intn(20)
	}
	for i := 0; i < nops && len(viol) == 0; i++ {
		if stream != nil {
			switch r.Intn(4) {
			case 0:
				chunk := fioGenBody(r)
				stream.Write(chunk)
				streamW.data = append(streamW.data, chunk...)
			case 1:
				// (a second Set while a stream is open is not generated: with a reference
				// placeholder it is a queued Put, which is refused only when the stream closes)
				k := r.Intn(nph)
				if !(neverSet && k == nph-1) && phs[k].value == nil {
					set(k)
				}
			case 2:
				// an object with a placeholder, queued while the stream is open
				ks, ao := usable(pick(false))
				if len(ks) == 0 {
					continue
				}
				ref := w.Alloc()
				markDirect(ks)
				o, e := fioPhBuild(r, phs, ks, ao)
				if err := w.Put(ref, o); err != nil {
					bad("writer-rejects-valid-program", "Put(%v) while a stream is open: %v", ref, err)
				}
				written = append(written, fioPhWritten{ref: ref, want: e})
				logf("Put(%v, ph%v) queued", ref, ks)
			default:
				if err := stream.Close(); err != nil {
					bad("writer-rejects-valid-program", "closing the stream %v: %v", streamW.ref, err)
				}
				written = append(written, streamW)
				stream = nil
				logf("Close(stream %v)", streamW.ref)
			}
			continue
		}
		switch k := r.Intn(12); {
		case k < 3:
			filler()
		case k < 5:
			j := r.Intn(nph)
			if !(neverSet && j == nph-1) {
				set(j)
			}
		case k < 8: // Put
			ks, ao := usable(pick(false))
			if len(ks) == 0 {
				continue
			}
			ref := w.Alloc()
			markDirect(ks)
			o, e := fioPhBuild(r, phs, ks, ao)
			if err := w.Put(ref, o); err != nil {
				bad("writer-rejects-valid-program", "Put(%v) of an object with placeholders %v: %v", ref, ks, err)
			}
			written = append(written, fioPhWritten{ref: ref, want: e})
			logf("Put(%v, ph%v)", ref, ks)
		case k < 10: // WriteCompressed
			n := 1 + r.Intn(3)
			var refs []pdf.Reference
			var objs []pdf.Object
			var wants []pdf.Object
			var usedHere []int
			for j := 0; j < n; j++ {
				refs = append(refs, w.Alloc())
				if j == 0 || r.Bool() {
					ks, ao := usable(pick(true))
					if len(ks) > 0 {
						usedHere = append(usedHere, ks...)
						o, e := fioPhBuild(r, phs, ks, ao)
						if _, whole := o.(*pdf.Placeholder); whole {
							o, e = pdf.Array{o}, pdf.Array{e}
						}
						objs, wants = append(objs, o), append(wants, e)
						continue
					}
				}
				o := pdf.Dict{"M": pdf.Integer(r.Intn(1000))}
				objs, wants = append(objs, o), append(wants, o)
			}
			if p.version >= pdf.V1_5 && !p.human {
				for _, k := range usedHere {
					phs[k].inObjStm = true
				}
			} else {
				for _, k := range usedHere {
					phs[k].direct = true
				}
			}
			if err := w.WriteCompressed(refs, objs...); err != nil {
				bad("writer-rejects-valid-program", "WriteCompressed(%v): %v", refs, err)
			}
			for j := range refs {
				written = append(written, fioPhWritten{ref: refs[j], want: wants[j]})
			}
			logf("WriteCompressed(%v)", refs)
		case k < 11: // OpenStream with a placeholder in the dictionary
			ks, ao := usable(pick(false))
			if len(ks) == 0 || ao {
				continue
			}
			ref := w.Alloc()
			markDirect(ks[:1])
			o, e := fioPhBuild(r, phs, ks[:1], false)
			dict, want := pdf.Dict{"Sub": o, "Q": pdf.Integer(7)}, pdf.Dict{"Sub": e, "Q": pdf.Integer(7)}
			ws, err := w.OpenStream(ref, dict)
			if err != nil {
				bad("writer-rejects-valid-program", "OpenStream(%v) with a placeholder in the dictionary: %v", ref, err)
				continue
			}
			stream = ws
			streamW = fioPhWritten{ref: ref, want: want, isStream: true}
			logf("OpenStream(%v, ph%v)", ref, ks[:1])
		default: // Put of a stream object
			ks, ao := usable(pick(false))
			if len(ks) == 0 || ao {
				continue
			}
			ref := w.Alloc()
			markDirect(ks[:1])
			o, e := fioPhBuild(r, phs, ks[:1], false)
			data := fioGenBody(r)
			stm := pdf.NewStream(pdf.Dict{"Sub": o}, append([]byte(nil), data...))
			if err := w.Put(ref, stm); err != nil {
				bad("writer-rejects-valid-program", "Put(%v, stream with a placeholder): %v", ref, err)
				continue
			}
			written = append(written, fioPhWritten{ref: ref, want: pdf.Dict{"Sub": e}, isStream: true, data: data})
			logf("Put(%v, stream, ph%v)", ref, ks[:1])
		}
	}
	if stream != nil {
		if err := stream.Close(); err != nil {
			bad("writer-rejects-valid-program", "closing the stream %v: %v", streamW.ref, err)
		}
		written = append(written, streamW)
	}
	filler()
	// every placeholder which was used gets its value now, unless it is the one never set
	for k, ph := range phs {
		if ph.value == nil && !(neverSet && k == nph-1) {
			set(k)
		}
	}
	// a second Set on one of them
	if r.Bool() {
		set(r.Intn(nph))
	}
	filler()
	if len(viol) > 0 {
		return p, res, viol
	}
	if err := w.Close(); err != nil {
		bad("writer-rejects-valid-program", "Close: %v", err)
		return p, res, viol
	}
	res.xref, res.nextRef, _, _ = pdf.VerifWriterXRef(w)
	if p.seekable {
		res.file = seekBuf.buf
	} else {
		res.file = plainBuf.buf
	}
	rd, err := fioReopen(res)
	if err != nil {
		bad("reopen-failed", "NewReader on the written file: %v", err)
		return p, res, viol
	}
	for _, wr := range written {
		got, err := rd.Get(wr.ref, true)
		if err != nil {
			bad("get-failed", "Get(%v): %v", wr.ref, err)
			continue
		}
		if wr.isStream {
			stm, ok := got.(*pdf.Stream)
			if !ok {
				bad("stream-lost", "Get(%v) is %T, written a stream", wr.ref, got)
				continue
			}
			d := pdf.Dict{}
			for k, v := range stm.Dict {
				if k != "Length" {
					d[k] = v
				}
			}
			if diff := fioPhMatch(rd, d, wr.want, phs); diff != "" {
				bad("placeholder-object-differs", "dictionary of stream %v: %s", wr.ref, diff)
			}
			dr, err := pdf.DecodeStream(rd, nil, stm)
			var data []byte
			if err == nil {
				data, err = io.ReadAll(dr)
			}
			if err != nil || !bytes.Equal(data, wr.data) {
				bad("stream-data-differs", "stream %v: %d bytes written, %d read (%v)", wr.ref, len(wr.data), len(data), err)
			}
			continue
		}
		if diff := fioPhMatch(rd, got, wr.want, phs); diff != "" {
			bad("placeholder-object-differs", "Get(%v): %s", wr.ref, diff)
		}
	}
	return p, res, viol
}

func runFIOPlaceholder(c *Ctx, checker bool) {
	r := c.R.Fork()
	n := 150
	if c.Thorough {
		n = 4000
	}
	for i := 0; i < n; i++ {
		seed := r.U64()
		p, res, viol := fioPhCase(seed, c.Thorough)
		input := strconv.FormatUint(seed, 10)
		c.Case(input, len(p.log) > 3)
		c.Stat("placeholder_programs")
		if p.seekable {
			c.Stat("placeholder_seekable")
		}
		if p.encrypt {
			c.Stat("placeholder_encrypted")
		}
		if i < 3 {
			c.Sample("placeholder program: " + p.String())
		}
		if p.mixed {
			c.Stat("placeholder_mixed_methods")
		}
		if p.objStmOnly {
			c.Stat("placeholder_only_in_object_stream_set_later")
		}
		if !checker {
			for _, v := range viol {
				if p.mixed {
					// candidate defect: Set fills the reference and leaves the blanks (notes/C02.md)
					v.key = "placeholder-mixed-methods"
				}
				c.Stat("placeholder_violation_" + v.key)
				c.Violate("placeholder", v.key, v.desc+"  ["+p.String()+"]", input)
			}
			continue
		}
		if res.file == nil {
			continue // the Writer refused the program: reported by the C02 run
		}
		chk, want, _, _, err := fioChkLines(res)
		if err != nil {
			c.Violate("placeholder-wf", "file-not-parseable", "taking the written file apart: "+err.Error(), input)
			continue
		}
		c.Emit(chk, want)
	}
}

func replayFIOPlaceholder(input string) (bool, string) {
	seed, err := strconv.ParseUint(input, 10, 64)
	if err != nil {
		return true, "bad replay input"
	}
	for _, thorough := range []bool{false, true} {
		p, _, viol := fioPhCase(seed, thorough)
		if len(viol) > 0 {
			var msgs []string
			for _, v := range viol {
				msgs = append(msgs, v.key+": "+v.desc)
			}
			return false, p.String() + "\n" + strings.Join(msgs, "\n")
		}
	}
	return true, "every placeholder reads back as its value"
}

// fioPhEncryptedString: Placeholder.Set with a value containing a string in an
// encrypted file (candidate defect: on a seekable sink the plaintext is written
// into the reserved space and the Reader decrypts it).
func runFIOPhEncryptedString(c *Ctx) {
	for _, v := range []pdf.Version{pdf.V1_3, pdf.V1_4, pdf.V1_6, pdf.V2_0} {
		for _, seekable := range []bool{true, false} {
			input := fmt.Sprintf("%d %v", int(v), seekable)
			c.Case("ph-encrypted-string "+input, true)
			if d := fioPhEncryptedStringCase(v, seekable); d != "" {
				c.Violate("placeholder-string", "placeholder-string-encrypted", d, input)
			}
		}
	}
}

func fioPhEncryptedStringCase(v pdf.Version, seekable bool) (diff string) {
	defer func() {
		if rec := recover(); rec != nil {
			diff = fmt.Sprintf("panic: %v", rec)
		}
	}()
	fp := &fioProg{version: v, seekable: seekable, encrypt: true, userPw: true}
	res := &fioResult{prog: fp, failedAt: -1}
	var sink io.Writer
	seekBuf, plainBuf := &fioSeekBuf{}, &fioPlainBuf{}
	if seekable {
		sink = seekBuf
	} else {
		sink = plainBuf
	}
	w, err := pdf.NewWriter(sink, v, fp.opts())
	if err != nil {
		return "NewWriter: " + err.Error()
	}
	w.GetMeta().Catalog.Pages = w.Alloc()
	ph := pdf.NewPlaceholder(w, 120) // room for the ciphertext (AES: IV and padding, escapes)
	a := w.Alloc()
	if err := w.Put(a, pdf.Dict{"S": ph, "T": pdf.String("direct")}); err != nil {
		return "Put: " + err.Error()
	}
	if err := ph.Set(pdf.String("secret text")); err != nil {
		return "Set: " + err.Error()
	}
	if err := w.Close(); err != nil {
		return "Close: " + err.Error()
	}
	res.file = plainBuf.buf
	if seekable {
		res.file = seekBuf.buf
	}
	rd, err := fioReopen(res)
	if err != nil {
		return "NewReader: " + err.Error()
	}
	o, err := rd.Get(a, true)
	if err != nil {
		return fmt.Sprintf("PDF %d, seekable=%v: Get of the object whose placeholder was Set to a string: %v", int(v), seekable, err)
	}
	d, _ := o.(pdf.Dict)
	s, err := pdf.Resolve(rd, d["S"])
	if err != nil || !objEqual(s, pdf.String("secret text")) || !objEqual(d["T"], pdf.String("direct")) {
		return fmt.Sprintf("PDF %d, seekable=%v: /S reads as %v (%v), /T as %v; written (secret text), (direct)", int(v), seekable, s, err, d["T"])
	}
	return ""
}

func replayFIOPhEncryptedString(input string) (bool, string) {
	var v int
	var seekable bool
	if _, err := fmt.Sscanf(input, "%d %t", &v, &seekable); err != nil {
		return true, "bad replay input"
	}
	if d := fioPhEncryptedStringCase(pdf.Version(v), seekable); d != "" {
		return false, d
	}
	return true, "the string reads back"
}

func init() {
	addRun("C02", "caller-supplied placeholders (pdf.NewPlaceholder / Set): in Put objects at any nesting and as the whole object, in WriteCompressed members, in OpenStream dictionaries and in the dictionaries of stream objects; the same placeholder several times; Set before the first use, at a random later point (also while a stream is open), twice (must be refused) or never (array elements); other objects written in between; 9 versions x HumanReadable x seekable/non-seekable sink x encryption; every object must read back with the placeholders replaced by their values (directly or through a reference), all other objects intact.  Non-trivial: at least four operations; distinct by seed.", func(c *Ctx) { runFIOPlaceholder(c, false) })
	addReplay("C02", "placeholder", replayFIOPlaceholder)
	addRun("C02", "Placeholder.Set with a string value in encrypted files (4 versions x seekable/non-seekable): the string must read back. Non-trivial: always.", runFIOPhEncryptedString)
	addReplay("C02", "placeholder-string", replayFIOPhEncryptedString)
	addReplay("C03", "placeholder-wf", replayFIOPlaceholder)
	addRun("C03", "the placeholder programs of C02 (pdf.NewPlaceholder / Set in Put objects, WriteCompressed members, stream dictionaries; seekable and non-seekable sinks): each file given to the independent checker with the Writer's own cross-reference table as the expected result.  Non-trivial: at least four operations; distinct by seed.", func(c *Ctx) { runFIOPlaceholder(c, true) })
}

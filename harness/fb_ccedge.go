package main

import (
	"bytes"
	"fmt"
	"io"
	"strings"

	"seehuhn.de/go/membudget"
	"seehuhn.de/go/pdf"
)

// CCITTFax 2-D coded rows at the right edge of the line (C08 audit finding 4): token sequences
// over the mode codes of T.4/T.6 — vertical VR1..VR3 / VL1..VL3 / V0, pass, horizontal with short
// runs and with a first run longer than the line — for Columns around multiples of 8, Group 4 and
// Group 3 2-D rows, written bit by bit by the harness (the library's encoder never emits them).
//
// Oracle (on the implementation): the reader hands out one row per Read; every row has at most
// ceil(Columns/8) bytes and the whole output at most MaxRows x ceil(Columns/8) bytes (class key
// ccitt-row-overrun).  Every body also goes through the Lean model of the reader (FB cdec), for
// which `row_length` is a theorem (Props/C08fbc.lean): an implementation that emits a longer row
// differs from the model on that line.

var fbCCWhiteCodes = map[int]string{0: "00110101", 1: "000111", 2: "0111", 3: "1000", 4: "1011", 5: "1100", 6: "1110", 7: "1111",
	8: "10011", 9: "10100", 10: "00111", 11: "01000", 12: "001000", 13: "000011", 14: "110100", 15: "110101"}
var fbCCBlackCodes = map[int]string{0: "0000110111", 1: "010", 2: "11", 3: "10", 4: "011", 5: "0011", 6: "0010", 7: "00011"}

const (
	fbCCWhite64   = "11011"
	fbCCWhite1728 = "010011011"
)

var fbCCModeCodes = map[string]string{"V0": "1", "VR1": "011", "VR2": "000011", "VR3": "0000011",
	"VL1": "010", "VL2": "000010", "VL3": "0000010", "P": "0001", "H": "001"}

// fbBitString packs a string of 0s and 1s (other characters ignored) into bytes, MSB first.
func fbBitString(s string) []byte {
	var out []byte
	n := 0
	for _, ch := range s {
		if ch != '0' && ch != '1' {
			continue
		}
		if n%8 == 0 {
			out = append(out, 0)
		}
		if ch == '1' {
			out[len(out)-1] |= 0x80 >> (n % 8)
		}
		n++
	}
	return out
}

// fbCCRowsRead decodes body and returns the sizes of the reads (one row each: the reader copies
// its line buffer into a destination that is large enough).
func fbCCRowsRead(p fbCC, body []byte) (rows []int, total int, err error, panicked string) {
	defer func() {
		if q := recover(); q != nil {
			panicked = fmt.Sprint(q)
		}
	}()
	rd, err := p.filter().Decode(pdf.V1_7, bytes.NewReader(body), membudget.New(1<<28))
	if err != nil {
		return nil, 0, err, ""
	}
	defer rd.Close()
	buf := make([]byte, 2*p.lineBytes()+64)
	for total < 1<<24 {
		n, e := rd.Read(buf)
		if n > 0 {
			rows = append(rows, n)
			total += n
		}
		if e == io.EOF {
			break
		}
		if e != nil {
			return rows, total, e, ""
		}
	}
	return rows, total, nil, ""
}

// oracleCCEdge: ok, or the description of the first row that is too long.
func oracleCCEdge(p fbCC, body []byte) (ok bool, key, detail string) {
	rows, total, _, pan := fbCCRowsRead(p, body)
	if pan != "" {
		return false, "panic", "decoder panicked: " + pan
	}
	lb := p.lineBytes()
	for i, n := range rows {
		if n > lb {
			return false, "ccitt-row-overrun", fmt.Sprintf("row %d has %d bytes, Columns=%d admits %d (rows %v)", i, n, p.effCols(), lb, rows[:min(len(rows), 8)])
		}
	}
	maxRows := fbGeoCap(p.effCols())
	if p.rows > 0 && p.rows < maxRows {
		maxRows = p.rows
	}
	if total > maxRows*lb {
		return false, "ccitt-row-overrun", fmt.Sprintf("%d bytes decoded, %d rows x %d bytes admitted", total, maxRows, lb)
	}
	return true, "", ""
}

// replay input: "<cols> <k> <rows> <flags> <bodyhex>"
func replayCCEdge(input string) (bool, string) {
	a := fbFields(input)
	if len(a) != 5 {
		return true, "bad replay input"
	}
	ok, key, detail := oracleCCEdge(fbCCOf(fbAtoi(a[0]), fbAtoi(a[1]), fbAtoi(a[2]), a[3]), fbHexDecode(a[4]))
	return ok, key + " " + detail
}

// fbCCEdgeRow: the bits of one 2-D coded row as a token list.
func fbCCEdgeRow(r *Rand, cols int) (bits string, tokens []string) {
	longWhite := func() string { // a white run of at least cols+1 pixels
		if cols <= 78 {
			return fbCCWhite64 + fbCCWhiteCodes[max(cols+1-64, 0)+r.Intn(16-max(cols+1-64, 0))]
		}
		return fbCCWhite1728 + fbCCWhiteCodes[8+r.Intn(8)]
	}
	n := 1 + r.Intn(4)
	if r.P(1, 3) {
		n = 1
	}
	for i := 0; i < n; i++ {
		tok := Pick(r, []string{"VR1", "VR2", "VR3", "VR3", "V0", "VL1", "VL2", "VL3", "P", "H", "H", "Hlong", "Hlong"})
		switch tok {
		case "H":
			w, b := r.Intn(16), r.Intn(8)
			if r.Bool() { // after a black/white swap the run colours are exchanged; both orders occur
				bits += fbCCModeCodes["H"] + fbCCWhiteCodes[w] + fbCCBlackCodes[b]
			} else {
				bits += fbCCModeCodes["H"] + fbCCBlackCodes[b] + fbCCWhiteCodes[w]
			}
			tok = fmt.Sprintf("H(%d,%d)", w, b)
		case "Hlong":
			bits += fbCCModeCodes["H"] + longWhite() + fbCCBlackCodes[r.Intn(3)]
		default:
			bits += fbCCModeCodes[tok]
		}
		tokens = append(tokens, tok)
	}
	return bits, tokens
}

func runFBCCEdge(c *Ctx) {
	r := c.R.Fork()
	n := 1200
	if c.Thorough {
		n = 20000
	}
	colsList := []int{8, 8, 16, 24, 6, 7, 14, 15, 5, 9, 62, 63, 64, 72, 1726, 1727, 1728}
	type fixed struct {
		p    fbCC
		bits string
		note string
	}
	// the two demonstrations of the audit, and their Group 3 2-D forms (EOL, tag bit 0)
	fixedCases := []fixed{
		{fbCC{cols: 8, k: -1, rows: 2}, "0000011 0000011 00000000 00000000", "G4 VR3 VR3"},
		{fbCC{cols: 8, k: -1, rows: 2}, "001 11011 10011 0000110111 001 11011 10011 0000110111", "G4 H(72,0) H(72,0)"},
		{fbCC{cols: 8, k: 4, rows: 2}, "000000000001 0 0000011 000000000001 0 0000011 000000000001", "G3 2-D VR3 VR3"},
		{fbCC{cols: 16, k: -1, rows: 3, blackIs1: true}, "011 011 011", "G4 VR1 x3, BlackIs1"},
		{fbCC{cols: 8, k: -1, rows: 2, ignEOB: true}, "001 1111 010 0000011", "G4 H(7,1) then VR3 against b1=7"},
	}
	total := n + len(fixedCases)
	for i := 0; i < total; i++ {
		var p fbCC
		var body []byte
		var note string
		if i < len(fixedCases) {
			p, body, note = fixedCases[i].p, fbBitString(fixedCases[i].bits), fixedCases[i].note
		} else {
			p = fbCC{cols: Pick(r, colsList), k: Pick(r, []int{-1, -1, -1, 4}), blackIs1: r.P(1, 4), ignEOB: r.P(1, 2)}
			nrows := 1 + r.Intn(4)
			if r.Bool() {
				p.rows = nrows + r.Intn(2)
			}
			var bits string
			var toks []string
			for row := 0; row < nrows; row++ {
				if p.k > 0 {
					bits += "000000000001" + "0"
				}
				b, t := fbCCEdgeRow(r, p.cols)
				bits += b
				toks = append(toks, strings.Join(t, "."))
			}
			if p.k > 0 {
				bits += "000000000001"
			}
			if r.P(1, 3) {
				bits += "000000000001000000000001" // EOFB
			}
			body = fbBitString(bits)
			if r.P(1, 4) {
				body = append(body, 0, 0, 0)
			}
			note = strings.Join(toks, " / ")
		}
		line, _, _ := fbCCDecodeLine(p, body, r, 0, 0)
		c.Emit(fmt.Sprintf("FB cdec %s %s", p, hexWire(body)), line)
		ok, key, detail := oracleCCEdge(p, body)
		c.Case(fmt.Sprintf("ccedge:%s:%x", p, body), len(line) > 12)
		c.Stat(fmt.Sprintf("ccedge_cols_mod8_%d", p.cols%8))
		if i < len(fixedCases)+3 {
			c.Sample(fmt.Sprintf("ccitt edge %v [%s] body=%s -> %s", p, note, fbTrunc(body), fbTruncStr(line)))
		}
		if !ok {
			c.Stat("ccedge_" + key)
			c.Violate("fb-ccitt-edge", key, fmt.Sprintf("CCITTFax %v [%s]: %s", p, note, detail), fmt.Sprintf("%s %s", p, hexWire(body)))
		}
	}
}

package main

// Shared helpers of the "TR" runs: correspondence between the real Go
// functions and the Lean functions GENERATED from their source by
// tools/extract (translate_impl.go).  Driver key "TR" (lean/PdfVerif/Driver/TR.lean).

import (
	"encoding/hex"
	"fmt"
	"strings"
)

func trHex(b []byte) string {
	if len(b) == 0 {
		return "-"
	}
	return hex.EncodeToString(b)
}

func trUnhex(s string) []byte {
	if s == "-" || s == "" {
		return nil
	}
	b, _ := hex.DecodeString(s)
	return b
}

func trErr(err error) string {
	if err != nil {
		return "err"
	}
	return "nil"
}

// trCall runs f; a panic of the real code is the result "panic" (the
// generated Lean function reports a Go panic as `none`, printed "panic").
func trCall(f func() string) (res string) {
	defer func() {
		if r := recover(); r != nil {
			res = "panic"
		}
	}()
	return f()
}

// trEmit sends one line "TR <fn> <args…>" with the implementation's result.
func trEmit(c *Ctx, fn string, args []string, implRes string) {
	c.Emit("TR "+fn+" "+strings.Join(args, " "), implRes)
	c.Stat("TR:" + fn)
	if strings.HasPrefix(implRes, "panic") {
		c.Stat("TR:" + fn + ":panic")
	}
}

func trInts(xs ...int64) []string {
	out := make([]string, len(xs))
	for i, x := range xs {
		out[i] = fmt.Sprint(x)
	}
	return out
}

// trBoundaryInt returns an int64 drawn from boundaries, small values and random bit lengths.
func trBoundaryInt(r *Rand) int64 {
	switch r.Intn(8) {
	case 0:
		return Pick(r, []int64{0, 1, -1, 2, 7, 8, 255, 256, 1 << 16, 1<<16 + 1, 1 << 20, 1<<20 + 1, 1<<31 - 1, 1 << 31, 1 << 32,
			1<<62 - 1, 1 << 62, 1<<63 - 1, -1 << 63, -1<<63 + 1, 262144, 262145, 1 << 58, 1<<58 - 1})
	case 1:
		return int64(r.Intn(64)) - 8
	case 2:
		return -int64(r.U64() >> uint(1+r.Intn(63)))
	default:
		return int64(r.U64() >> uint(1+r.Intn(63)))
	}
}

package main

import (
	"bufio"
	"bytes"
	"encoding/binary"
	"fmt"
	"io"
	"os"
	"os/exec"
	"runtime"
	"strings"
	"sync"
	"syscall"
	"time"

	"seehuhn.de/go/membudget"
	"seehuhn.de/go/pdf"
)

// ---- C08: DCTDecode / JBIG2Decode on hostile headers, in a child process ----
//
// dct.Decode runs the JPEG decoder in a helper goroutine: a panic there cannot be recovered and
// kills the process.  The cases of this family are therefore executed by a child (this binary
// re-executed with VERIF_FB_CHILD=1); the parent feeds a batch of case lines and reads one result
// line per case.  A child that dies, or stops answering, is a VIOLATION with the first
// unfinished case as replay input; the remaining cases go to a fresh child.
//
// case line:   <idx> <kind> <mode> <bound> <bodyhex>
//   kind  dctA | dct0 | dct1 (ColorTransform absent/0/1) | jbig2 | jbig2+<globals hex>
//   mode  all (read to the end) | early (read a few bytes, then Close) | none (Close at once);
//         "all:w<N>": N coefficient-block visits are needed to decode the file completely — data
//         may only be returned if N <= 4 x (input + output bytes) (work proportional to size)
//   bound largest admissible decoded size (-1: only the absolute read budget applies)
// result line: E <idx> <word> <decoded bytes> <goroutines left over> <detail>

func init() {
	if os.Getenv("VERIF_FB_CHILD") != "" {
		// a runaway allocation must kill the child, not the machine
		lim := syscall.Rlimit{Cur: 6 << 30, Max: 6 << 30}
		syscall.Setrlimit(syscall.RLIMIT_AS, &lim)
		fbChildMain()
		os.Exit(0)
	}
}

const fbChildReadBudget = 64 << 20

// after this many crashed or hanging cases in one batch the rest of the batch is skipped
const fbChildMaxFailures = 4

func fbChildFilter(kind string) pdf.Filter {
	switch kind {
	case "dct0":
		return pdf.FilterDCT{ColorTransform: pdf.DCTColorTransformNone}
	case "dct1":
		return pdf.FilterDCT{ColorTransform: pdf.DCTColorTransformYCbCr}
	case "jbig2":
		return &pdf.FilterJBIG2{}
	}
	if g, ok := strings.CutPrefix(kind, "jbig2+"); ok {
		return &pdf.FilterJBIG2{Globals: fbHexDecode(g)}
	}
	return pdf.FilterDCT{}
}

// fbChildCase runs one case in this process.
func fbChildCase(kind, mode string, bound int, body []byte) (word string, n int, leaked int, detail string) {
	defer func() {
		if p := recover(); p != nil {
			word, detail = "panic", strings.ReplaceAll(fmt.Sprint(p), "\n", " ")
		}
	}()
	work := -1
	if m, w, ok := strings.Cut(mode, ":w"); ok {
		mode, work = m, fbAtoi(w)
	}
	cpu0 := fbCPUTime()
	before := runtime.NumGoroutine()
	budget := membudget.New(fbStreamBudgetOf(len(body))) // limits.StreamBudget
	t0 := time.Now()
	rd, err := fbChildFilter(kind).Decode(pdf.V2_0, bytes.NewReader(body), budget)
	word = "data"
	if err != nil {
		word, detail = "other", err.Error()
		if pdf.IsMalformed(err) {
			word = "malformed"
		}
	} else {
		limit := fbChildReadBudget
		switch mode {
		case "early":
			limit = 5
		case "none":
			limit = 0
		}
		buf := make([]byte, 1<<16)
		for n < limit {
			k, err := rd.Read(buf[:min(len(buf), limit-n)])
			n += k
			if err == io.EOF {
				break
			}
			if err != nil {
				word, detail = "other", err.Error()
				if pdf.IsMalformed(err) {
					word = "malformed"
				}
				break
			}
		}
		if mode == "all" && n >= fbChildReadBudget {
			word = "budget"
		}
		if cerr := rd.Close(); cerr != nil && word == "data" {
			detail = "Close: " + cerr.Error()
		}
	}
	// every helper goroutine must be gone once the reader is closed
	for i := 0; i < 200 && runtime.NumGoroutine() > before; i++ {
		time.Sleep(time.Millisecond * time.Duration(1+i/20))
	}
	leaked = runtime.NumGoroutine() - before
	if bound >= 0 && n > bound && mode == "all" {
		word = "toomuch"
		detail = fmt.Sprintf("%d bytes decoded, the header admits %d", n, bound)
	}
	// work proportional to input plus produced output
	if work >= 0 && word == "data" && mode == "all" && work > 4*(len(body)+n) {
		word = "overwork"
		detail = fmt.Sprintf("accepted after %d coefficient-block visits for %d input + %d output bytes", work, len(body), n)
	}
	cpu := fbCPUTime() - cpu0
	if allowed := 3*time.Second + time.Duration(200*(len(body)+n)); cpu > allowed || time.Since(t0) > 4*allowed {
		word = "slow"
		detail = fmt.Sprintf("%v CPU, %v elapsed for %d input + %d output bytes (allowed %v)", cpu, time.Since(t0), len(body), n, allowed)
	}
	detail = strings.ReplaceAll(detail, "\n", " ")
	return
}

// fbCPUTime: user + system CPU time of this process (all goroutines).
func fbCPUTime() time.Duration {
	var ru syscall.Rusage
	if syscall.Getrusage(syscall.RUSAGE_SELF, &ru) != nil {
		return 0
	}
	return time.Duration(ru.Utime.Nano() + ru.Stime.Nano())
}

func fbChildMain() {
	in := bufio.NewScanner(os.Stdin)
	in.Buffer(make([]byte, 1<<20), 1<<26)
	out := bufio.NewWriter(os.Stdout)
	for in.Scan() {
		a := strings.Fields(in.Text())
		if len(a) != 5 {
			continue
		}
		fmt.Fprintf(out, "B %s\n", a[0])
		out.Flush()
		if a[1] == "jb2s" || a[1] == "gchain" { // structured JBIG2 streams and /JBIG2Globals chains, see fb_audit.go
			var word, detail string
			var n int
			if a[1] == "jb2s" {
				word, n, detail = fbChildStructCase(a[2])
			} else {
				word, n, detail = fbChildGlobalsChain(fbAtoi(a[2]))
			}
			fmt.Fprintf(out, "E %s %s %d 0 %s\n", a[0], word, n, detail)
			out.Flush()
			continue
		}
		if strings.HasPrefix(a[1], "slurp") { // input buffering behind expanding filters, see fb_slurp.go
			word, n, detail := fbChildSlurpCase(a[1], fbAtoi(a[3]), fbHexDecode(a[4]))
			fmt.Fprintf(out, "E %s %s %d 0 %s\n", a[0], word, n, detail)
			out.Flush()
			continue
		}
		if w, ok := strings.CutPrefix(a[1], "chain:"); ok { // chain life cycles, see fb_chainleak.go
			word, n, leaked, detail := fbChildChainCase(w, a[2], fbHexDecode(a[4]))
			fmt.Fprintf(out, "E %s %s %d %d %s\n", a[0], word, n, leaked, detail)
			out.Flush()
			continue
		}
		if a[1] == "jbig2mem" || a[1] == "jbig2ledger" || a[1] == "dctmem" { // memory-measured cases, see fb_pool.go
			word, n, detail := fbChildPoolCase(a[1], fbHexDecode(a[4]), a[1] == "jbig2ledger")
			if bound := fbAtoi(a[3]); a[1] == "dctmem" && bound >= 0 && n > bound && word == "data" {
				word, detail = "toomuch", fmt.Sprintf("%d bytes decoded, the frame admits %d; %s", n, bound, detail)
			}
			fmt.Fprintf(out, "E %s %s %d 0 %s\n", a[0], word, n, detail)
			out.Flush()
			continue
		}
		word, n, leaked, detail := fbChildCase(a[1], a[2], fbAtoi(a[3]), fbHexDecode(a[4]))
		fmt.Fprintf(out, "E %s %s %d %d %s\n", a[0], word, n, leaked, detail)
		out.Flush()
	}
}

type fbChildResult struct {
	word    string
	n       int
	leaked  int
	detail  string
	crashed bool // the child died or hung while running this case
	stderr  string
}

// fbRunInChild runs the case lines (without the index field) in child processes and returns
// one result per case.
func fbRunInChild(cases []string, perCase time.Duration) []fbChildResult {
	res := make([]fbChildResult, len(cases))
	next := 0
	failures := 0
	for next < len(cases) {
		if failures >= fbChildMaxFailures {
			// the violation is established; do not spend a watchdog period on every further case
			for i := next; i < len(cases); i++ {
				res[i] = fbChildResult{word: "skipped"}
			}
			return res
		}
		cmd := exec.Command(os.Args[0])
		cmd.Env = append(os.Environ(), "VERIF_FB_CHILD=1", "GOMAXPROCS=4")
		stdin, _ := cmd.StdinPipe()
		stdout, _ := cmd.StdoutPipe()
		var stderr bytes.Buffer
		cmd.Stderr = &stderr
		if err := cmd.Start(); err != nil {
			for i := next; i < len(cases); i++ {
				res[i] = fbChildResult{word: "nochild", detail: err.Error()}
			}
			return res
		}
		first := next
		go func() {
			w := bufio.NewWriter(stdin)
			for i := first; i < len(cases); i++ {
				fmt.Fprintf(w, "%d %s\n", i, cases[i])
			}
			w.Flush()
			stdin.Close()
		}()
		lines := make(chan string, 64)
		go func() {
			sc := bufio.NewScanner(stdout)
			sc.Buffer(make([]byte, 1<<16), 1<<22)
			for sc.Scan() {
				lines <- sc.Text()
			}
			close(lines)
		}()
		running := -1
		alive := true
		for alive {
			select {
			case l, ok := <-lines:
				if !ok {
					alive = false
					break
				}
				f := strings.SplitN(l, " ", 6)
				switch {
				case len(f) >= 2 && f[0] == "B":
					running = fbAtoi(f[1])
				case len(f) >= 5 && f[0] == "E":
					i := fbAtoi(f[1])
					r := fbChildResult{word: f[2], n: fbAtoi(f[3]), leaked: fbAtoi(f[4])}
					if len(f) == 6 {
						r.detail = f[5]
					}
					if i >= 0 && i < len(res) {
						res[i] = r
						next = i + 1
					}
					running = -1
				}
			case <-time.After(perCase):
				// no progress: the child hangs in the running case
				cmd.Process.Kill()
				for range lines {
				}
				alive = false
				if running < 0 {
					running = next
				}
				res[running] = fbChildResult{word: "hang", crashed: true, detail: fmt.Sprintf("no answer within %v", perCase)}
				failures++
			}
		}
		err := cmd.Wait()
		if next < len(cases) {
			// the child ended before all cases were answered
			i := next
			if running >= 0 {
				i = running
			}
			if !res[i].crashed {
				tail := stderr.String()
				if len(tail) > 1500 {
					tail = tail[:1500]
				}
				res[i] = fbChildResult{word: "crash", crashed: true, detail: fmt.Sprintf("child process died (%v)", err), stderr: tail}
				failures++
			}
			next = i + 1
		}
	}
	return res
}

// ---- synthetic JPEGs ----

type fbJComp struct{ id, h, v, tq byte }

type fbJPEG struct {
	sof      byte // 0xC0 baseline, 0xC1 extended, 0xC2 progressive
	prec     byte
	w, h     int
	comps    []fbJComp
	adobe    int // -1 none, else the transform byte of an APP14 segment
	dri      int
	entropy  []byte
	acScan   bool // progressive: add an AC scan for the first component
	badSOS   int  // 0 ok, 1 unknown component selector, 2 table id 3, 3 Ss/Se reversed
	twoSOF   bool
	noDHT    bool
	noDQT    bool
	sofCount byte     // component count byte written into SOF (0: len(comps))
	plan     []fbScan // explicit scan plan (replaces the single default scan)
}

// fbScan: one SOS segment with its entropy-coded data.
type fbScan struct {
	comps      []int // indices into fbJPEG.comps
	ss, se, ah byte
	al         byte
	data       []byte
}

func fbSeg(marker byte, payload []byte) []byte {
	b := []byte{0xff, marker, 0, 0}
	binary.BigEndian.PutUint16(b[2:], uint16(len(payload)+2))
	return append(b, payload...)
}

// segments returns the file as a list of segments (SOI first, EOI last).
func (j fbJPEG) segments() [][]byte {
	segs := [][]byte{{0xff, 0xd8}}
	if j.adobe >= 0 {
		segs = append(segs, fbSeg(0xee, append([]byte("Adobe\x00\x64\x00\x00\x00\x00"), byte(j.adobe))))
	}
	if !j.noDQT {
		seen := map[byte]bool{}
		for _, c := range j.comps {
			if !seen[c.tq] && c.tq < 4 {
				seen[c.tq] = true
				segs = append(segs, fbSeg(0xdb, append([]byte{c.tq}, bytes.Repeat([]byte{1}, 64)...)))
			}
		}
	}
	sof := []byte{j.prec, byte(j.h >> 8), byte(j.h), byte(j.w >> 8), byte(j.w), byte(len(j.comps))}
	if j.sofCount != 0 {
		sof[5] = j.sofCount
	}
	for _, c := range j.comps {
		sof = append(sof, c.id, c.h<<4|c.v, c.tq)
	}
	segs = append(segs, fbSeg(j.sof, sof))
	if j.twoSOF {
		segs = append(segs, fbSeg(j.sof, sof))
	}
	if !j.noDHT {
		// tiny tables: one code of length 1 — DC category 0, AC end-of-block
		dc := append([]byte{0x00, 1, 0, 0, 0, 0, 0, 0, 0, 0, 0, 0, 0, 0, 0, 0, 0}, 0)
		ac := append([]byte{0x10, 1, 0, 0, 0, 0, 0, 0, 0, 0, 0, 0, 0, 0, 0, 0, 0}, 0)
		dc1 := append([]byte{0x01, 1, 1, 0, 0, 0, 0, 0, 0, 0, 0, 0, 0, 0, 0, 0, 0}, 0, 1)
		ac1 := append([]byte{0x11, 1, 1, 0, 0, 0, 0, 0, 0, 0, 0, 0, 0, 0, 0, 0, 0}, 0, 0x11)
		segs = append(segs, fbSeg(0xc4, dc), fbSeg(0xc4, ac), fbSeg(0xc4, append(dc1, ac1...)))
	}
	if j.dri > 0 {
		segs = append(segs, fbSeg(0xdd, []byte{byte(j.dri >> 8), byte(j.dri)}))
	}
	if j.plan != nil {
		for _, sc := range j.plan {
			sos := []byte{byte(len(sc.comps))}
			for _, ci := range sc.comps {
				tab := byte(0)
				if ci > 0 {
					tab = 0x11
				}
				sos = append(sos, j.comps[ci].id, tab)
			}
			sos = append(sos, sc.ss, sc.se, sc.ah<<4|sc.al)
			segs = append(segs, append(fbSeg(0xda, sos), sc.data...))
		}
		return append(segs, []byte{0xff, 0xd9})
	}
	sos := []byte{byte(len(j.comps))}
	for i, c := range j.comps {
		id, tab := c.id, byte(0)
		if i > 0 {
			tab = 0x11
		}
		switch j.badSOS {
		case 1:
			id += 40
		case 2:
			tab = 0x33
		}
		sos = append(sos, id, tab)
	}
	ss, se := byte(0), byte(63)
	if j.sof == 0xc2 {
		se = 0
	}
	if j.badSOS == 3 {
		ss, se = 63, 0
	}
	sos = append(sos, ss, se, 0)
	segs = append(segs, append(fbSeg(0xda, sos), j.entropy...))
	if j.sof == 0xc2 && j.acScan && len(j.comps) > 0 {
		segs = append(segs, append(fbSeg(0xda, []byte{1, j.comps[0].id, 0x00, 1, 63, 0}), j.entropy...))
	}
	segs = append(segs, []byte{0xff, 0xd9})
	return segs
}

// bound: decoded size the header admits (width x height x components; 3 components stay 3)
func (j fbJPEG) bound() int {
	if j.twoSOF || j.w <= 0 || j.h <= 0 {
		return 0
	}
	return j.w * j.h * len(j.comps)
}

func fbGenJPEG(r *Rand, ncomp int, hv []byte) fbJPEG {
	j := fbJPEG{sof: Pick(r, []byte{0xc0, 0xc0, 0xc2, 0xc2, 0xc1}), prec: 8, adobe: -1}
	j.w = Pick(r, []int{1, 7, 8, 9, 15, 16, 17, 31, 33})
	j.h = Pick(r, []int{1, 7, 8, 9, 15, 16, 17, 31, 33})
	for i := 0; i < ncomp; i++ {
		j.comps = append(j.comps, fbJComp{id: byte(i + 1), h: hv[2*i], v: hv[2*i+1], tq: byte(min(i, 1))})
	}
	if r.P(1, 3) {
		j.adobe = r.Intn(3)
	}
	if r.P(1, 6) {
		j.dri = 1 + r.Intn(4)
	}
	n := Pick(r, []int{0, 1, 2, 8, 40, 200})
	j.entropy = make([]byte, n)
	switch r.Intn(4) {
	case 0:
		for i := range j.entropy {
			j.entropy[i] = byte(r.U64())
			if j.entropy[i] == 0xff {
				j.entropy[i] = 0xfe
			}
		}
	case 1:
		for i := range j.entropy {
			j.entropy[i] = 0xff // stuffed / marker soup
			if i%2 == 1 {
				j.entropy[i] = Pick(r, []byte{0x00, 0xd0, 0xd1, 0xd7, 0x00})
			}
		}
	}
	j.acScan = r.P(1, 3)
	return j
}

// fbJPEGCases: the file, its truncations at every marker boundary and inside every segment.
func fbJPEGCases(r *Rand, j fbJPEG, all bool) [][]byte {
	segs := j.segments()
	var full []byte
	var cuts []int
	for _, s := range segs {
		cuts = append(cuts, len(full))
		full = append(full, s...)
	}
	out := [][]byte{full}
	for i, c := range cuts {
		if i == 0 {
			continue
		}
		if all || r.P(1, 3) {
			out = append(out, full[:c])
		}
		if c+3 < len(full) && (all || r.P(1, 6)) {
			out = append(out, full[:c+1+r.Intn(3)]) // inside the marker / length field
		}
	}
	return out
}

// ---- JBIG2 embedded streams with hostile segment headers ----

func fbJBIG2Seg(num uint32, typ byte, page byte, data []byte, claimLen uint32) []byte {
	b := make([]byte, 0, 11+len(data))
	b = binary.BigEndian.AppendUint32(b, num)
	b = append(b, typ, 0, page)
	b = binary.BigEndian.AppendUint32(b, claimLen)
	return append(b, data...)
}

func fbGenJBIG2(r *Rand) []byte {
	dims := []uint32{0, 1, 8, 17, 64, 1 << 16, 1 << 20, 1 << 31, 0xffffffff}
	var out []byte
	pi := make([]byte, 0, 19)
	pi = binary.BigEndian.AppendUint32(pi, Pick(r, dims))
	pi = binary.BigEndian.AppendUint32(pi, Pick(r, dims))
	pi = binary.BigEndian.AppendUint32(pi, 0)
	pi = binary.BigEndian.AppendUint32(pi, 0)
	pi = append(pi, byte(r.U64()), byte(r.U64())&0x80, byte(r.U64()))
	num := uint32(0)
	if r.P(5, 6) {
		out = append(out, fbJBIG2Seg(num, 48, 1, pi, 19)...)
		num++
	}
	for n := r.Intn(4); n > 0; n-- {
		typ := Pick(r, []byte{0, 4, 6, 7, 16, 20, 22, 23, 36, 38, 39, 40, 42, 43, 48, 49, 50, 51, 52, 53, 62, 1, 63})
		var data []byte
		switch typ {
		case 36, 38, 39, 40, 42, 43, 4, 6, 7, 20, 22, 23: // region segments: width, height, x, y, flags
			data = binary.BigEndian.AppendUint32(data, Pick(r, dims))
			data = binary.BigEndian.AppendUint32(data, Pick(r, dims))
			data = binary.BigEndian.AppendUint32(data, Pick(r, dims))
			data = binary.BigEndian.AppendUint32(data, Pick(r, dims))
			data = append(data, byte(r.U64()))
			data = append(data, r.Bytes(r.Intn(24))...)
		default:
			data = r.Bytes(r.Intn(24))
		}
		claim := uint32(len(data))
		switch r.Intn(6) {
		case 0:
			claim = Pick(r, []uint32{0, 1, 0xffffffff, 1 << 30, uint32(len(data)) + 1})
		}
		seg := fbJBIG2Seg(num, typ, byte(r.Intn(3)), data, claim)
		if r.P(1, 8) { // referred-to segments: count 7 = long form, or references to later segments
			seg[5] = Pick(r, []byte{0xe0, 0x20, 0x40, 0xff})
		}
		out = append(out, seg...)
		num += uint32(1 + r.Intn(300))
	}
	if r.P(1, 2) {
		out = append(out, fbJBIG2Seg(num, 49, 1, nil, 0)...)
	}
	if r.P(1, 5) && len(out) > 0 {
		out = out[:r.Intn(len(out))]
	}
	return out
}

// replay input: "<kind> <mode> <bound> <bodyhex>"
func replayChild(input string) (bool, string) {
	res := fbRunInChild([]string{input}, 30*time.Second)
	r := res[0]
	ok := (r.word == "data" || r.word == "malformed" || r.word == "budget") && r.leaked <= 0
	return ok, fmt.Sprintf("%s, %d bytes, %d goroutines left; %s %s", r.word, r.n, r.leaked, r.detail, r.stderr)
}

func runFBChild(c *Ctx) {
	r := c.R.Fork()
	var cases, notes []string
	var family []int // 0 synthetic JPEGs, 1 progressive scan floods, 2 JBIG2, 3 JBIG2 memory, 4 chain life cycles, 5 chains with Flate below DCT closed early: one child batch each
	note, fam := "", 0
	add := func(kind, mode string, bound int, body []byte) {
		cases = append(cases, fmt.Sprintf("%s %s %d %s", kind, mode, bound, hexWire(body)))
		notes = append(notes, note)
		family = append(family, fam)
	}
	kinds := []string{"dctA", "dctA", "dct0", "dct1"}
	modes := []string{"all", "all", "all", "early", "none"}
	hvVals := []byte{1, 2, 4}
	// all sampling factor combinations H,V in {1,2,4} per component: 9 (1 component), 729 (3),
	// 6561 (4; a random tenth in the quick tier), each as one synthetic file with truncations
	var combos [][]byte
	var rec func(prefix []byte, left int)
	rec = func(prefix []byte, left int) {
		if left == 0 {
			combos = append(combos, append([]byte{}, prefix...))
			return
		}
		for _, h := range hvVals {
			for _, v := range hvVals {
				rec(append(prefix, h, v), left-1)
			}
		}
	}
	rec(nil, 1)
	rec(nil, 3)
	n4 := len(combos)
	rec(nil, 4)
	// 4 components, quick tier: every vector that differs in at most one component from the two
	// vectors the decoder supports (11 11 11 11 and 22 11 11 22), plus a random tenth of the rest
	nearValid := func(hv []byte) bool {
		for _, base := range [][]byte{{1, 1, 1, 1, 1, 1, 1, 1}, {2, 2, 1, 1, 1, 1, 2, 2}} {
			diff := 0
			for k := 0; k < 4; k++ {
				if hv[2*k] != base[2*k] || hv[2*k+1] != base[2*k+1] {
					diff++
				}
			}
			if diff <= 1 {
				return true
			}
		}
		return false
	}
	for i, hv := range combos {
		if i >= n4 && !c.Thorough && !nearValid(hv) && !r.P(1, 10) {
			continue
		}
		j := fbGenJPEG(r, len(hv)/2, hv)
		allCuts := i < 9 || r.P(1, 20) || (len(hv) == 8 && nearValid(hv))
		for _, body := range fbJPEGCases(r, j, allCuts) {
			add(Pick(r, kinds), Pick(r, modes), j.bound(), body)
		}
		c.Stat(fmt.Sprintf("jpeg_ncomp_%d", len(hv)/2))
	}
	// hostile headers: dimensions, precision, sampling factors outside {1,2,4}, component counts,
	// table and selector errors, duplicated SOF
	nh := 600
	if c.Thorough {
		nh = 8000
	}
	for i := 0; i < nh; i++ {
		ncomp := Pick(r, []int{1, 3, 4, 2, 5})
		hv := make([]byte, 2*ncomp)
		for k := range hv {
			hv[k] = Pick(r, []byte{1, 1, 2, 2, 4, 0, 3, 5, 8, 15})
		}
		j := fbGenJPEG(r, ncomp, hv)
		switch r.Intn(8) {
		case 0:
			j.w, j.h = Pick(r, []int{0, 1, 65535, 40000, 16384}), Pick(r, []int{0, 1, 65535, 40000, 16384})
		case 1:
			j.prec = Pick(r, []byte{0, 1, 12, 16, 255})
		case 2:
			j.badSOS = 1 + r.Intn(3)
		case 3:
			j.twoSOF = true
		case 4:
			j.noDHT = r.Bool()
			j.noDQT = !j.noDHT
		case 5:
			j.sofCount = Pick(r, []byte{1, 2, 3, 4, 255})
		case 6:
			for k := range j.comps {
				j.comps[k].id = Pick(r, []byte{1, 1, 2, 0, 255})
				j.comps[k].tq = Pick(r, []byte{0, 1, 3, 4, 255})
			}
		}
		for _, body := range fbJPEGCases(r, j, false) {
			add(Pick(r, kinds), Pick(r, modes), -1, body)
		}
	}
	// structured scan plans: SOF0/1/2 x {single, repeated, per component, extra scans}
	for _, sp := range fbScanPlans(r, c.Thorough) {
		j := sp.build()
		var body []byte
		for _, sg := range j.segments() {
			body = append(body, sg...)
		}
		note = "[jpeg scans " + sp.String() + "]"
		add(Pick(r, kinds), "all", sp.w*sp.h*sp.ncomp, body)
		if c.Thorough || sp.repeat == 40 || sp.w >= 1024 || r.P(1, 8) {
			add("dctmem", "all", sp.w*sp.h*sp.ncomp, body) // the same with the retained heap measured
		}
		c.Stat("jpeg_scanplan_" + sp.kind)
	}
	note = ""
	nj := 400
	if c.Thorough {
		nj = 6000
	}
	fam = 2
	for i := 0; i < nj; i++ {
		add("jbig2", "all", -1, fbGenJBIG2(r))
	}
	note = ""
	// progressive JPEGs with very many scans
	fam = 1
	for _, ps := range fbProgCases(r, c.Thorough) {
		note = "[progressive " + ps.String() + "]"
		add("dctA", fmt.Sprintf("all:w%d", ps.work()), ps.w*ps.h, ps.build())
		c.Stat("prog_jpeg")
	}
	// JBIG2 pages from the library's encoder with mutated headers
	fam = 2
	seeds, errs := fbJBIG2Seeds()
	for _, e := range errs {
		c.Violate("fb-hostile-child", "jbig2-seed", "cannot build a JBIG2 seed page: "+e, "")
	}
	nm := 2500
	if c.Thorough {
		nm = 40000
	}
	for _, sd := range seeds { // the unmutated pages must decode
		note = "[jbig2 seed " + sd.name + "]"
		kind := "jbig2"
		if len(sd.globals) > 0 {
			kind += "+" + hexWire(sd.globals)
		}
		add(kind, "all", -1, fbEmitJSegs(sd.segs))
	}
	firstMut := len(cases)
	for i := 0; i < nm && len(seeds) > 0; i++ {
		sd := seeds[i%len(seeds)]
		page, globals, what := fbMutateJBIG2(r, sd)
		note = "[jbig2 " + what + "]"
		kind := "jbig2"
		if len(globals) > 0 {
			kind += "+" + hexWire(globals)
		}
		add(kind, "all", -1, page)
	}
	// JBIG2 memory accounting: structured streams, measured heap and pool ledger
	fam = 3
	for _, ps := range fbPoolSpecs(r, c.Thorough) {
		body, err := ps.build()
		if err != nil {
			c.Violate("fb-hostile-child", "jbig2-seed", "cannot build the JBIG2 memory stream "+ps.String()+": "+err.Error(), "")
			continue
		}
		total := fbStreamBudgetOf(len(body))
		note = fmt.Sprintf("[jbig2 memory %s: %d input bytes, budget %d, %d bytes stay alive if every round is decoded]", ps, len(body), total, ps.trueRetained())
		add("jbig2ledger", "all", -1, body)
		if ps.ri == 0 && !ps.extraDict && (c.Thorough || ps.rounds == 16) {
			add("jbig2mem", "all", -1, body) // the same without the hook: heap sampling alone
		}
		c.Stat("pool_streams")
	}
	// JBIG2Decode behind expanding filters: input buffering within the budget
	fam = 3
	for _, sc := range fbSlurpCases() {
		names := make(pdf.Array, len(sc.filters))
		for i, n := range sc.filters {
			names[i] = pdf.Name(n)
		}
		note = fmt.Sprintf("[slurp %s over %d bytes: %s]", strings.Join(sc.filters, " "), len(sc.body), sc.note)
		add("slurp:"+wire(pdf.Dict{"Filter": names}), "all", -1, sc.body)
		c.Stat("slurp_chain")
	}
	for _, raw := range []int{0, 300, 100000} {
		note = fmt.Sprintf("[slurp direct: FilterJBIG2.Decode on an endless reader, budget of a %d-byte stream]", raw)
		add("slurpdirect", "all", raw, []byte{0})
		add("slurpdirect", "all", raw, []byte{1, 2})
	}
	// filter chains with the DCT decoder at every position under four life cycles
	fam = 4
	{
		jpgs := [][]byte{fbJPEGBytes(true, 64, 64), fbJPEGBytes(false, 24, 16)}
		var jb2 []byte
		if len(seeds) > 0 {
			jb2 = fbEmitJSegs(seeds[0].segs)
		}
		for i, cc := range fbChainCases(r, c.Thorough) {
			dict, body := fbChainBuild(cc, jpgs[i%2], jb2)
			note = fmt.Sprintf("[chain %s %s failK=%d]", strings.Join(cc.names, ","), cc.mode, cc.failK)
			cases = append(cases, fmt.Sprintf("chain:%s %s -1 %s", wire(dict), cc.mode, hexWire(body)))
			notes = append(notes, note)
			if cc.racy() {
				family = append(family, 5)
				c.Stat("chain_flate_below_dct")
			} else {
				family = append(family, fam)
			}
			c.Stat("chain_" + cc.mode)
		}
	}
	// structured JBIG2 streams (cost in the segment structure) and /JBIG2Globals chains
	fam = 6
	for _, sp := range fbStructCases(c.Thorough) {
		note = "[jbig2 structure " + sp.String() + "]"
		cases = append(cases, fmt.Sprintf("jb2s %s -1 00", sp))
		notes = append(notes, note)
		family = append(family, fam)
		c.Stat("struct_" + sp.name)
	}
	for _, d := range fbGlobalsChainDepths(c.Thorough) {
		note = fmt.Sprintf("[JBIG2Globals chain of %d streams]", d)
		cases = append(cases, fmt.Sprintf("gchain %d -1 00", d))
		notes = append(notes, note)
		family = append(family, fam)
		c.Stat("globals_chain")
	}
	note = ""
	c.StatN("child_cases", len(cases))
	res := make([]fbChildResult, len(cases))
	var wg sync.WaitGroup
	var ms [7]int
	for f := 0; f < 7; f++ { // the families run in children side by side
		wg.Add(1)
		go func(f int) {
			defer wg.Done()
			var idx []int
			var batch []string
			for i, ff := range family {
				if ff == f {
					idx = append(idx, i)
					batch = append(batch, cases[i])
				}
			}
			t0 := time.Now()
			for k, rs := range fbRunInChild(batch, 10*time.Second) {
				res[idx[k]] = rs
			}
			ms[f] = int(time.Since(t0).Milliseconds())
		}(f)
	}
	wg.Wait()
	for f := range ms {
		c.StatN(fmt.Sprintf("child_family_%d_ms", f), ms[f])
	}
	for i := firstMut - len(seeds); i < firstMut; i++ {
		if i >= 0 && res[i].word != "data" {
			c.Violate("fb-hostile-child", "jbig2-seed", fmt.Sprintf("the valid seed page does not decode: %s %s %s", res[i].word, res[i].detail, notes[i]), cases[i])
		}
	}
	for i, rs := range res {
		c.Case("child:"+cases[i], rs.word == "data" || rs.n > 0)
		kindWord, _, _ := strings.Cut(strings.Fields(cases[i])[0], "+")
		if strings.HasPrefix(kindWord, "chain:") {
			kindWord = "chain"
		}
		if kindWord == "slurpdirect" { // correspondence: pulled bytes = the model's cap + 1
			_, av, ok1 := strings.Cut(rs.detail, "avail=")
			_, pu, ok2 := strings.Cut(rs.detail, "pulled=")
			if ok1 && ok2 {
				c.Emit("FB jbig2pull "+strings.Fields(av)[0], strings.Fields(pu)[0])
			}
		}
		if strings.HasPrefix(kindWord, "slurp") {
			kindWord = "slurp"
			if len(c.rep.Samples) < 12 {
				c.Sample(fmt.Sprintf("%s -> %s %s", notes[i], rs.word, fbTruncStr(rs.detail)))
			}
		}
		if strings.HasPrefix(notes[i], "[progressive") {
			kindWord = "prog"
		}
		classKey := "" // structured cases: every resource failure belongs to the class the spec is aimed at
		if kindWord == "jb2s" {
			sp := fbParseJ2Spec(strings.Fields(cases[i])[1])
			kindWord = "struct_" + sp.name
			switch rs.word {
			case "superlinear", "allocvolume", "unchargedwork", "overbudget", "accounting", "hang", "slow", "crash":
				classKey = sp.classKey()
			}
			if len(c.rep.Samples) < 12 && (sp.a >= 1000 || rs.word != "data") {
				c.Sample(fmt.Sprintf("%s -> %s %s", notes[i], rs.word, fbTruncStr(rs.detail)))
			}
		}
		if kindWord == "gchain" {
			depth := fbAtoi(strings.Fields(cases[i])[1])
			if (rs.word == "data" || rs.word == "malformed") && depth <= 200 {
				// correspondence: one object per reference (well below limits.MaxExtractDepth; how a
				// longer chain is cut — at the limit or earlier — is left to the oracle below)
				c.Emit(fmt.Sprintf("FB gchain %d", depth), fmt.Sprintf("%d", rs.n))
			}
			if rs.n > 256 || rs.word == "superlinear" || rs.word == "hang" || rs.word == "crash" {
				classKey = "jbig2globals-chain-depth"
				if rs.word == "data" || rs.word == "malformed" {
					rs.word = "chaindepth"
				}
			}
		}
		if classKey != "" {
			c.Stat("child_" + kindWord + "_" + rs.word)
			c.Violate("fb-hostile-child", classKey, fmt.Sprintf("%s: %s %s %s", rs.word, rs.detail, notes[i], rs.stderr), cases[i])
			continue
		}
		if strings.HasPrefix(notes[i], "[jbig2 memory") && i < 4+len(cases) && c.rep != nil && len(c.rep.Samples) < 11 && rs.word != "" {
			c.Sample(fmt.Sprintf("%s %s -> %s %s", kindWord, notes[i], rs.word, fbTruncStr(rs.detail)))
		}
		c.Stat("child_" + kindWord + "_" + rs.word)
		in := cases[i]
		if len(in) > 20000 {
			in = in[:20000]
		}
		switch rs.word {
		case "data", "malformed", "budget", "skipped":
		case "crash", "hang":
			key := "child-" + rs.word
			if family[i] == 5 && rs.word == "crash" && strings.Contains(rs.stderr, "compress/") {
				key = "chain-close-race"
			}
			c.Violate("fb-hostile-child", key, fmt.Sprintf("the decoder took the process down or did not return: %s %s %s", rs.detail, notes[i], rs.stderr), in)
		case "panic":
			c.Violate("fb-hostile-child", "panic", "decoder panicked: "+rs.detail, in)
		case "toomuch":
			c.Violate("fb-hostile-child", "unbounded-output", rs.detail+" "+notes[i], in)
		case "slow":
			key := "slow"
			if fbJBIG2EmptyGrid(cases[i]) {
				key = "jbig2-halftone-empty-grid"
			}
			c.Violate("fb-hostile-child", key, rs.detail+" "+notes[i], in)
		case "slurp":
			c.Violate("fb-hostile-child", "input-buffering-beyond-budget", rs.detail+" "+notes[i], in)
		case "heapgrowth":
			c.Violate("fb-hostile-child", "chain-heap-growth", "retained heap grew over 50 DecodeStream/Close cycles: "+rs.detail+" "+notes[i], in)
		case "overbudget":
			c.Violate("fb-hostile-child", "memory-beyond-budget", "retained heap exceeds the stream budget: "+rs.detail+" "+notes[i], in)
		case "accounting":
			c.Violate("fb-hostile-child", "budget-accounting", "retained heap exceeds what the decoder charged to the budget: "+rs.detail+" "+notes[i], in)
		case "ledger":
			c.Violate("fb-hostile-child", "pool-ledger", rs.detail+" "+notes[i], in)
		case "overwork":
			c.Violate("fb-hostile-child", "work-not-proportional", rs.detail+" "+notes[i], in)
		case "nobuild":
			c.Violate("fb-hostile-child", "jbig2-seed", "cannot build the structured case: "+rs.detail+" "+notes[i], in)
		case "nochild":
			c.Violate("fb-hostile-child", "no-child-process", rs.detail, in)
		default:
			c.Violate("fb-hostile-child", "non-malformed-error", "error is not classified as malformed input: "+rs.detail, in)
		}
		if rs.leaked > 0 && strings.HasPrefix(cases[i], "chain:") {
			c.Stat("chain_leak_" + strings.Fields(cases[i])[1])
			c.Violate("fb-hostile-child", "chain-goroutine-leak", fmt.Sprintf("%d goroutine(s) still running after 50 DecodeStream/Close cycles (%s %s) %s", rs.leaked, rs.word, rs.detail, notes[i]), in)
		} else if rs.leaked > 0 {
			c.Violate("fb-hostile-child", "goroutine-leak", fmt.Sprintf("%d goroutine(s) still running after Close (%s)", rs.leaked, rs.word), in)
		}
		if i < 2 {
			c.Sample(fmt.Sprintf("child case %s -> %s %d bytes", fbTruncStr(cases[i]), rs.word, rs.n))
		}
	}
}

// fbJBIG2EmptyGrid: the page has a halftone region with HGW = 0 and a huge HGH — the known
// class jbig2-halftone-empty-grid (checkedMul(0, HGH) passes, the row loops run HGH times).
func fbJBIG2EmptyGrid(caseLine string) bool {
	f := strings.Fields(caseLine)
	if len(f) != 4 || !strings.HasPrefix(f[0], "jbig2") {
		return false
	}
	for _, s := range fbParseJSegs(fbHexDecode(f[3])) {
		if (s.typ == 20 || s.typ == 22 || s.typ == 23) && len(s.data) >= 26 {
			hgw := binary.BigEndian.Uint32(s.data[18:])
			hgh := binary.BigEndian.Uint32(s.data[22:])
			if hgw == 0 && hgh >= 1<<26 {
				return true
			}
		}
	}
	return false
}

func fbTruncStr(s string) string {
	if len(s) > 160 {
		return s[:160] + "…"
	}
	return s
}

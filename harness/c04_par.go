package main

import (
	"fmt"
	"strconv"

	"seehuhn.de/go/pdf"
)

// C04 — spellings that Spec/C04Renders.lean (`Renders`, proved readable by
// Props/C04par.parse_any_rendering) allows but the serialiser of his_render.go never chooses:
// negative zero and signed zeros ("-0", "-00", "+000"), reals with leading zeros ("007.50", "-000."),
// names whose regular bytes outside '!'..'~' are written raw (control bytes, DEL, 0x80..0xff), and a
// bare dictionary followed by white space and comments (ReadObject consumes them while looking for
// `stream`).  The leaves are combined with ordinary ones into arrays and dictionaries with the
// white space of his_render.go.

func init() {
	addRun("C04", "conforming spellings outside the serialiser's choices: signed and negative zeros, reals with leading zeros, raw non-ASCII/control bytes in names, bare dictionaries followed by white space and comments; inside arrays and dictionaries with random white space; the real scanner must return the denoted value. Distinct by spelling; all non-trivial.", runC04Par)
	addReplay("C04", "rendering", replayC04Par)
}

type parLeaf struct {
	obj pdf.Object
	sp  []byte
}

// parRawName: 1-5 regular bytes, most of them outside '!'..'~', to be written without #-escapes
func parRawName(r *Rand) []byte {
	n := 1 + r.Intn(5)
	b := make([]byte, n)
	for i := range b {
		switch r.Intn(3) {
		case 0:
			b[i] = byte(0x80 + r.Intn(0x80))
		case 1:
			b[i] = Pick(r, []byte{1, 2, 7, 8, 0x0b, 0x0e, 0x1f, 0x7f})
		default:
			b[i] = byte('A' + r.Intn(26))
		}
	}
	return b
}

func parSpecialLeaf(r *Rand, rd *hisRenderer) parLeaf {
	switch r.Intn(4) {
	case 0: // zeros and signed integers with leading zeros
		v := int64(0)
		if r.P(1, 3) {
			v = int64(r.Intn(100))
		}
		sign := Pick(r, []string{"-", "+", "-", ""})
		zeros := ""
		for k := r.Intn(4); k > 0; k-- {
			zeros += "0"
		}
		sp := sign + zeros + strconv.FormatInt(v, 10)
		if sign == "-" {
			v = -v
		}
		return parLeaf{pdf.Integer(v), []byte(sp)}
	case 1: // reals with leading zeros
		ip := ""
		for k := 1 + r.Intn(3); k > 0; k-- {
			ip += "0"
		}
		ip += strconv.Itoa(r.Intn(50))
		fp := Pick(r, []string{"", "0", "5", "25", "500"})
		sign := Pick(r, []string{"", "", "+", "-"})
		tok := sign + ip + "." + fp
		x, _ := strconv.ParseFloat(tok, 64)
		return parLeaf{pdf.Real(x), []byte(tok)}
	case 2: // names with raw bytes outside '!'..'~'
		b := parRawName(r)
		return parLeaf{pdf.Name(b), append([]byte{'/'}, b...)}
	default:
		o := hisLexObj(r, 0)
		if _, isRef := o.(pdf.Reference); isRef {
			o = pdf.Integer(7)
		}
		return parLeaf{o, rd.obj(o)}
	}
}

func parCase(seed uint64) (data []byte, want string) {
	r := &Rand{s: seed}
	rd := &hisRenderer{r: r.Fork()}
	var obj pdf.Object
	var sp []byte
	if r.Bool() {
		n := 1 + r.Intn(4)
		arr := make(pdf.Array, n)
		toks := [][]byte{[]byte("[")}
		for i := range arr {
			l := parSpecialLeaf(r, rd)
			arr[i] = l.obj
			toks = append(toks, l.sp)
		}
		toks = append(toks, []byte("]"))
		obj, sp = arr, rd.join(toks...)
	} else {
		n := 1 + r.Intn(3)
		d := pdf.Dict{}
		toks := [][]byte{[]byte("<<")}
		for i := 0; i < n; i++ {
			name := pdf.Name(fmt.Sprintf("K%d", i))
			if r.Bool() {
				name = pdf.Name(parRawName(r))
			}
			k := parLeaf{name, append([]byte{'/'}, name...)}
			if _, dup := d[name]; dup {
				continue
			}
			v := parSpecialLeaf(r, rd)
			d[name] = v.obj
			toks = append(toks, k.sp, v.sp)
		}
		toks = append(toks, []byte(">>"))
		obj, sp = d, rd.join(toks...)
	}
	// what follows: for a dictionary white space and comments are consumed by ReadObject
	var tail []byte
	_, isDict := obj.(pdf.Dict)
	if isDict {
		tail = rd.ws(false)
	}
	term := Pick(r, []string{"", "/X", "]", ">>", "(s)", "[", "<41>"})
	if !isDict && r.Bool() {
		term = Pick(r, []string{"", " 1", "\n/X", "%c\n", "x", "stream"})
	}
	data = append(append(append([]byte(nil), sp...), tail...), term...)
	return data, "ok " + wireNorm(obj) + " " + strconv.Itoa(len(term))
}

func replayC04Par(input string) (bool, string) {
	seed, err := strconv.ParseUint(input, 10, 64)
	if err != nil {
		return true, "bad replay input"
	}
	data, want := parCase(seed)
	got := hisParseLine(data)
	if got != want {
		return false, fmt.Sprintf("rendering %q parsed as %s, denotes %s", data, truncate(got), truncate(want))
	}
	return true, fmt.Sprintf("rendering %q parsed as written", truncate(string(data)))
}

func runC04Par(c *Ctx) {
	n := 6000
	if c.Thorough {
		n = 60000
	}
	for i := 0; i < n; i++ {
		seed := c.R.U64()
		data, want := parCase(seed)
		got := hisParseLine(data)
		c.Case("par:"+string(data), true)
		if got != want {
			c.Violate("rendering", "any-rendering", fmt.Sprintf("rendering %q parsed as %s, denotes %s", truncate(string(data)), truncate(got), truncate(want)), fmt.Sprint(seed))
		}
		if i < 2 {
			c.Sample(fmt.Sprintf("rendering %q denotes %s", truncate(string(data)), truncate(want)))
		}
		c.Emit("HIS parse "+hexWire(data), got)
	}
	c.Stat("par_cases")
}

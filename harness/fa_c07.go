package main

// C07 (part A): what the library's ASCIIHex/ASCII85/RunLength/LZW encoders
// write is read back by independent codecs, and what independent encoders
// write is read back by the library.  Independent codecs: encoding/hex,
// encoding/ascii85, compress/lzw (MSB, 8 bit = EarlyChange 0),
// golang.org/x/image/tiff/lzw (decoder only, EarlyChange 1), a RunLength
// reference written from ISO 32000-1 §7.4.5, and the Lean Spec codecs
// (compiled into the driver) in both directions.

import (
	"bytes"
	stdascii85 "encoding/ascii85"
	"compress/lzw"
	"encoding/hex"
	"fmt"
	"io"
	"strings"

	tifflzw "golang.org/x/image/tiff/lzw"
)

func init() {
	addRun("C07", "FA: inputs as in C06 x {ASCIIHex, ASCII85, RunLength, LZW EarlyChange 0/1}; library output decoded by encoding/hex, encoding/ascii85, a reference RunLength decoder, compress/lzw, x/image/tiff/lzw and the Lean Spec decoders; output of encoding/hex (+ white space), encoding/ascii85, reference RunLength encoders, compress/lzw and the Lean Spec encoders decoded by the library (random read chunkings). Non-trivial: at least 2 bytes; distinct by codec+data.", runFAC07)
	addReplay("C07", "fa-foreign-reads-library", replayFAC07)
	addReplay("C07", "fa-library-reads-foreign", replayFAC07)
}

// faForeignDecode decodes library output with an independent codec.
func faForeignDecode(codec string, enc []byte) (data []byte, err error) {
	defer func() {
		if p := recover(); p != nil {
			err = fmt.Errorf("foreign decoder panicked: %v", p)
		}
	}()
	switch codec {
	case "ahex":
		// §7.4.2: white space ignored, '>' is EOD, odd digit count padded with 0
		var ds []byte
		seenEOD := false
		for _, c := range enc {
			switch c {
			case 0, 9, 10, 12, 13, 32:
				continue
			case '>':
				seenEOD = true
			default:
				ds = append(ds, c)
			}
			if seenEOD {
				break
			}
		}
		if !seenEOD {
			return nil, fmt.Errorf("no EOD marker")
		}
		if len(ds)%2 == 1 {
			ds = append(ds, '0')
		}
		return hex.DecodeString(string(ds))
	case "a85":
		i := bytes.Index(enc, []byte("~>"))
		if i < 0 {
			return nil, fmt.Errorf("no EOD marker")
		}
		body := enc[:i]
		out := make([]byte, 4*len(body)+8)
		n, _, err := stdascii85.Decode(out, body, true)
		return out[:n], err
	case "rl":
		d, ok := refRunLengthDecode(enc)
		if !ok {
			return d, fmt.Errorf("reference RunLength decoder: malformed")
		}
		return d, nil
	case "lzw0":
		r := lzw.NewReader(bytes.NewReader(enc), lzw.MSB, 8)
		defer r.Close()
		return io.ReadAll(r)
	case "lzw1":
		r := tifflzw.NewReader(bytes.NewReader(enc), tifflzw.MSB, 8)
		defer r.Close()
		return io.ReadAll(r)
	}
	return nil, fmt.Errorf("no foreign decoder for %s", codec)
}

// faForeignEncode encodes with an independent encoder (variant selects among
// several where available).  ok=false: none available in Go for this codec
// (LZW EarlyChange 1: the Lean Spec encoder is used instead).
func faForeignEncode(r *Rand, codec string, data []byte) (enc []byte, what string, ok bool) {
	switch codec {
	case "ahex":
		s := hex.EncodeToString(data)
		what = "encoding/hex lower"
		if r.Bool() {
			s = strings.ToUpper(s)
			what = "encoding/hex upper"
		}
		var b []byte
		ws := []byte{0, 9, 10, 12, 13, 32}
		mode := r.Intn(3)
		for i := 0; i < len(s); i++ {
			if mode == 1 && r.P(1, 5) || mode == 2 && i%64 == 63 {
				b = append(b, Pick(r, ws))
			}
			b = append(b, s[i])
		}
		if r.P(1, 4) {
			b = append(b, ' ')
		}
		// §7.4.2: a final odd digit stands for digit+'0'
		if len(data) > 0 && data[len(data)-1]&0x0f == 0 && r.Bool() {
			b = bytes.TrimRight(b, " ")
			b = b[:len(b)-1]
			what += " odd"
		}
		return append(b, '>'), what, true
	case "a85":
		buf := make([]byte, stdascii85.MaxEncodedLen(len(data)))
		n := stdascii85.Encode(buf, data)
		b := buf[:n]
		what = "encoding/ascii85"
		if r.Bool() {
			var w []byte
			for i, c := range b {
				if i > 0 && i%r1(r, 80) == 0 {
					w = append(w, '\n')
				}
				w = append(w, c)
			}
			b = w
			what += " wrapped"
		}
		return append(b, '~', '>'), what, true
	case "rl":
		minRun := Pick(r, []int{2, 3, 4, 200})
		return refRunLengthEncode(r, data, minRun), fmt.Sprintf("reference PackBits minRun=%d", minRun), true
	case "lzw0":
		var buf bytes.Buffer
		w := lzw.NewWriter(&buf, lzw.MSB, 8)
		w.Write(data)
		w.Close()
		return buf.Bytes(), "compress/lzw", true
	}
	return nil, "", false
}

func r1(r *Rand, n int) int { return 1 + r.Intn(n) }

func faC07ForeignReads(cd faCodec, data []byte) (enc []byte, fail string) {
	enc, err := faEncode(cd.filter, data, nil)
	if err != nil {
		return nil, fmt.Sprintf("%s: Encode failed: %v", cd.name, err)
	}
	got, err := faForeignDecode(cd.name, enc)
	if err != nil || !bytes.Equal(got, data) {
		return enc, fmt.Sprintf("%s: library encoding of %d bytes %s… (%d bytes, tail %q) is decoded by the independent codec to %d bytes %s… (err=%v)", cd.name, len(data), hx(head(data, 24)), len(enc), tail(enc, 12), len(got), hx(head(got, 24)), err)
	}
	return enc, ""
}

func faC07LibraryReads(cd faCodec, data, enc []byte, what string, rch []int) string {
	for _, ch := range [][]int{nil, rch} {
		got := faDecode(cd.filter, enc, ch, len(data)+4096)
		if got.class == "eof" && bytes.Equal(got.data, data) {
			continue
		}
		if ch != nil && cd.name == "a85" && got.class == "eof" && len(data)%4 != 0 && len(got.data) < len(data) &&
			len(got.data) >= len(data)-len(data)%4 && bytes.Equal(got.data, data[:len(got.data)]) {
			continue // the C06 finding ascii85-tail-lost-on-short-read, reported there
		}
		return fmt.Sprintf("%s: %d bytes %s… encoded by %s (%d bytes, tail %q) are decoded by the library (reads %s) to %d bytes %s… ending with %s (%v)", cd.name, len(data), hx(head(data, 24)), what, len(enc), tail(enc, 12), faChunksStr(ch), len(got.data), hx(head(got.data, 24)), got.class, got.err)
	}
	return ""
}

// replay input: "<direction>|<codec>|<hex data>|<hex foreign encoding or ->|<read chunking>"
func replayFAC07(input string) (bool, string) {
	p := strings.Split(input, "|")
	if len(p) != 5 {
		return true, "bad replay input"
	}
	cd, ok := faCodecByName(p[1])
	if !ok {
		return true, "bad codec"
	}
	unhex := func(s string) []byte {
		if s == "-" {
			return []byte{}
		}
		b, _ := hex.DecodeString(s)
		return b
	}
	data := unhex(p[2])
	if p[0] == "F" {
		_, fail := faC07ForeignReads(cd, data)
		if fail != "" {
			return false, fail
		}
		return true, "the independent decoder reads the library's output"
	}
	fail := faC07LibraryReads(cd, data, unhex(p[3]), "the recorded foreign encoder", faParseChunks(p[4]))
	if fail != "" {
		return false, fail
	}
	return true, "the library reads the foreign encoding"
}

func runFAC07(c *Ctx) {
	r := c.R.Fork()
	nRandom := 500
	maxLen := 2500
	if c.Thorough {
		nRandom = 9000
		maxLen = 9000
	}
	type job struct {
		cd   faCodec
		data []byte
	}
	var specJobs []job

	one := func(cd faCodec, data []byte, kind string) {
		c.Case(cd.name+" "+string(data), len(data) >= 2)
		c.Stat("codec_" + cd.name)
		c.Stat("kind_" + kind)
		// library -> foreign
		enc, fail := faC07ForeignReads(cd, data)
		if fail != "" {
			c.Violate("fa-foreign-reads-library", cd.name+"-foreign-reads-library", fail, "F|"+cd.name+"|"+hexWire(data)+"|-|all")
		}
		if enc != nil {
			// the Lean Spec decoder must read the library's bytes too
			c.Emit("FA sdec "+cd.name+" "+hexWire(enc), "ok "+hexWire(data))
		}
		// foreign -> library
		if fenc, what, ok := faForeignEncode(r, cd.name, data); ok {
			rch := faGenChunks(r)
			if fail := faC07LibraryReads(cd, data, fenc, what, rch); fail != "" {
				c.Violate("fa-library-reads-foreign", cd.name+"-library-reads-foreign", fail, "L|"+cd.name+"|"+hexWire(data)+"|"+hexWire(fenc)+"|"+faChunksStr(rch))
			}
			c.Stat("foreign_encoder_" + strings.Fields(what)[0])
			// three-way: Spec decoder and model decoder on the foreign encoding
			c.Emit("FA sdec "+cd.name+" "+hexWire(fenc), "ok "+hexWire(data))
			c.Emit("FA dec "+cd.name+" "+hexWire(fenc), "ok "+hexWire(data))
		}
		specJobs = append(specJobs, job{cd, data})
	}

	for _, n := range faBoundaryLens {
		for _, cd := range faCodecs {
			data, kind := faGenData(r, n)
			one(cd, data, kind)
		}
	}
	for i := 0; i < nRandom; i++ {
		n := r.Intn(maxLen)
		if r.P(1, 2) {
			n = r.Intn(300)
		}
		data, kind := faGenData(r, n)
		one(Pick(r, faCodecs), data, kind)
	}
	for _, n := range []int{254, 255, 256, 766, 767, 768, 1790, 1791, 3836, 3837, 3838, 3839, 3840, 4094, 4095, 4096, 7700} {
		for _, cd := range faCodecs[3:] {
			one(cd, faLZWBoundaryInput(r, n), "lzw-table")
		}
	}

	// Lean Spec encoders as independent encoders: their output must be read
	// back by the library (and by the foreign decoders: three-way agreement)
	byCodec := map[string][][]byte{}
	for _, j := range specJobs {
		byCodec[j.cd.name] = append(byCodec[j.cd.name], j.data)
	}
	for _, cd := range faCodecs {
		inputs := byCodec[cd.name]
		encs, ok := faSpecEncode(cd.name, inputs)
		if !ok {
			c.Stat("spec_encoder_unavailable_" + cd.name)
			continue
		}
		for i, data := range inputs {
			rch := faGenChunks(r)
			c.Stat("foreign_encoder_LeanSpec")
			if fail := faC07LibraryReads(cd, data, encs[i], "the Lean Spec encoder", rch); fail != "" {
				c.Violate("fa-library-reads-foreign", cd.name+"-library-reads-spec", fail, "L|"+cd.name+"|"+hexWire(data)+"|"+hexWire(encs[i])+"|"+faChunksStr(rch))
			}
			if got, err := faForeignDecode(cd.name, encs[i]); err != nil || !bytes.Equal(got, data) {
				// Spec and foreign codec disagree: the specification transcription is in doubt
				c.Violate("fa-library-reads-foreign", cd.name+"-spec-vs-foreign", fmt.Sprintf("%s: the Lean Spec encoding of %d bytes is not read back by the foreign decoder (err=%v)", cd.name, len(data), err), "L|"+cd.name+"|"+hexWire(data)+"|"+hexWire(encs[i])+"|all")
			}
			// the model decoder on the Spec encoding (theorem model_reads_spec, sampled)
			c.Emit("FA dec "+cd.name+" "+hexWire(encs[i]), "ok "+hexWire(data))
		}
	}
}

package main

// C14 (FNT) — ties for constants the fact extractor cannot reach: integer and
// character literals inside function bodies of the anchored Go files are read
// from the sources (VERIF_REPO) with go/ast on every run and compared with the
// lists the Lean model is built from (Model/FNTConsts.lean); the code space
// range tables of charcode (nested composite literals) are compared as data;
// the transcription of the third-party names.IsValid and of string(rune) is
// sampled.

import (
	"fmt"
	"go/ast"
	"go/parser"
	"go/token"
	"os"
	"path/filepath"
	"strconv"
	"strings"

	"seehuhn.de/go/pdf/font/charcode"
	"seehuhn.de/go/postscript/type1/names"
)

func init() {
	addRun("C14", "source ties: literals of 13 anchored function bodies re-read from the Go sources, charcode.UTF8/UCS2/Simple tables, names.IsValid on generated names, string(rune) on boundary and random runes; trivial cases (not counted as non-trivial)", runFntConsts)
}

type fntLitTarget struct {
	key, file, fn string
}

var fntLitTargets = []fntLitTarget{
	{"simple.Encode", "font/encoding/simpleenc/simple.go", "Simple.Encode"},
	{"simple.makeGlyphName", "font/encoding/simpleenc/simple.go", "Simple.makeGlyphName"},
	{"simple.Codes", "font/encoding/simpleenc/simple.go", "Simple.Codes"},
	{"simple.DefaultWidth", "font/encoding/simpleenc/simple.go", "Simple.DefaultWidth"},
	{"utf8.NewCompositeUtf8", "font/encoding/cidenc/utf8.go", "NewCompositeUtf8"},
	{"utf8.makeCode", "font/encoding/cidenc/utf8.go", "compositeUTF8.makeCode"},
	{"utf8.runeToCode", "font/encoding/cidenc/utf8.go", "runeToCode"},
	{"utf8.Codes", "font/encoding/cidenc/utf8.go", "compositeUTF8.Codes"},
	{"fixed.Codes", "font/encoding/cidenc/fixed.go", "fixed.Codes"},
	{"extract.decodeCompositeWidths", "graphics/extract/font-metrics.go", "decodeCompositeWidths"},
	{"extract.getSimpleWidths", "graphics/extract/font-metrics.go", "getSimpleWidthsErr"}, // D88: the body moved here; getSimpleWidths is a bool-only wrapper
	{"dict.setSimpleWidths", "font/dict/metrics.go", "setSimpleWidths"},
	{"dict.encodeCompositeWidths", "font/dict/metrics.go", "encodeCompositeWidths"},
}

func fntRepoRoot() string {
	if r := os.Getenv("VERIF_REPO"); r != "" {
		return r
	}
	return "/repo"
}

// fntFuncLits lists the INT and CHAR literals of a function body in source order.
func fntFuncLits(file, fn string) (string, error) {
	fset := token.NewFileSet()
	f, err := parser.ParseFile(fset, filepath.Join(fntRepoRoot(), file), nil, parser.SkipObjectResolution)
	if err != nil {
		return "", err
	}
	for _, d := range f.Decls {
		fd, ok := d.(*ast.FuncDecl)
		if !ok || fd.Body == nil {
			continue
		}
		name := fd.Name.Name
		if fd.Recv != nil && len(fd.Recv.List) == 1 {
			t := fd.Recv.List[0].Type
			if st, ok := t.(*ast.StarExpr); ok {
				t = st.X
			}
			if id, ok := t.(*ast.Ident); ok {
				name = id.Name + "." + name
			}
		}
		if name != fn {
			continue
		}
		var lits []string
		ast.Inspect(fd.Body, func(n ast.Node) bool {
			bl, ok := n.(*ast.BasicLit)
			if !ok {
				return true
			}
			switch bl.Kind {
			case token.INT:
				v, err := strconv.ParseInt(strings.ReplaceAll(bl.Value, "_", ""), 0, 64)
				if err == nil {
					lits = append(lits, fmt.Sprint(v))
				}
			case token.CHAR:
				if s, err := strconv.Unquote(bl.Value); err == nil {
					lits = append(lits, fmt.Sprint([]rune(s)[0]))
				}
			}
			return true
		})
		return strings.Join(lits, " "), nil
	}
	return "", fmt.Errorf("function %s not found in %s", fn, file)
}

func fntCSR(csr charcode.CodeSpaceRange) string {
	var parts []string
	for _, r := range csr {
		parts = append(parts, hx(r.Low)+"-"+hx(r.High))
	}
	return strings.Join(parts, ",")
}

func runFntConsts(c *Ctx) {
	for _, t := range fntLitTargets {
		lits, err := fntFuncLits(t.file, t.fn)
		if err != nil {
			lits = "error: " + err.Error()
		}
		c.Emit("FNT lits "+t.key, lits)
		c.Case("lits "+t.key, false)
	}
	c.Emit("FNT csr utf8", fntCSR(charcode.UTF8))
	c.Emit("FNT csr ucs2", fntCSR(charcode.UCS2))
	c.Emit("FNT csr simple", fntCSR(charcode.Simple))

	r := c.R.Fork()
	n := 300
	if c.Thorough {
		n = 3000
	}
	// names.IsValid
	alphabet := []byte("AZaz09._- /#\x80\xff")
	for i := 0; i < n; i++ {
		var name []byte
		switch r.Intn(4) {
		case 0:
			name = []byte(Pick(r, fntNamePool))
		case 1:
			name = []byte(names.FromUnicode(fntGenText(r)))
		default:
			k := r.Intn(36)
			for j := 0; j < k; j++ {
				name = append(name, Pick(r, alphabet))
			}
		}
		c.Emit("FNT namevalid "+hexWire(name), fmt.Sprint(b2i(names.IsValid(string(name)))))
		c.Case("namevalid", false)
	}
	// string(rune) + little-endian packing (runeToCode is unexported; this is its definition)
	runes := []rune{0, 0x7f, 0x80, 0x7ff, 0x800, 0xd7ff, 0xd800, 0xdfff, 0xe000, 0xfffd, 0xffff, 0x10000, 0x10ffff, 0x110000, 0x7fffffff}
	for i := 0; i < n; i++ {
		runes = append(runes, rune(r.Intn(0x120000)))
	}
	for _, ru := range runes {
		var code uint32
		for i, b := range []byte(string(ru)) {
			code |= uint32(b) << (8 * i)
		}
		c.Emit(fmt.Sprintf("FNT r2c %d", ru), fmt.Sprint(code))
		c.Case("r2c", false)
	}
	c.Stat("consts.lines")
}

package main

import (
	"fmt"
	"math"
	"sort"
	"strings"

	"seehuhn.de/go/pdf"
)

// ---- filter parameters: Info/toDict, MakeFilter/parse*, GetFilters, appendFilter ----

func fbB(b bool) string {
	if b {
		return "1"
	}
	return "0"
}

// fbDescFilter is the canonical description shared with the driver's descFilter.
func fbDescFilter(f pdf.Filter) string {
	switch x := f.(type) {
	case pdf.FilterASCII85:
		return "a85"
	case pdf.FilterASCIIHex:
		return "ahx"
	case pdf.FilterRunLength:
		return "rl"
	case pdf.FilterFlate:
		return fmt.Sprintf("flate:%d,%d,%d,%d", x.Predictor, x.Colors, x.BitsPerComponent, x.Columns)
	case pdf.FilterLZW:
		return fmt.Sprintf("lzw:%d,%d,%d,%d,%s", x.Predictor, x.Colors, x.BitsPerComponent, x.Columns, fbB(x.OffByOne))
	case pdf.FilterCCITTFax:
		return fmt.Sprintf("ccitt:%d,%s,%s,%d,%d,%s,%s,%d", x.K, fbB(x.EndOfLine), fbB(x.EncodedByteAlign), x.Columns, x.Rows,
			fbB(x.IgnoreEndOfBlock), fbB(x.BlackIs1), x.DamagedRowsBeforeError)
	case pdf.FilterDCT:
		return fmt.Sprintf("dct:%d", int(x.ColorTransform))
	case *pdf.FilterJBIG2:
		return "jbig2"
	case pdf.FilterJPX:
		return "jpx"
	case pdf.FilterCryptIdentity:
		return "crypt-id"
	case pdf.FilterCryptStandard:
		return "crypt-std"
	case pdf.FilterCryptNamed:
		return "crypt:" + hexWire([]byte(x.Name))
	}
	// filterNotImplemented is unexported: recover the name through Info
	if name, _, err := f.Info(pdf.V2_0); err == nil {
		return "ni:" + hexWire([]byte(name))
	}
	return fmt.Sprintf("unknown:%T", f)
}

var fbIntBoundary = []int64{0, 1, -1, 2, 3, 4, 5, 7, 8, 9, 10, 11, 12, 13, 14, 15, 16, 17, 60, 61, 256, 257, 1727, 1728, 1729, 65535, 65536, 65537,
	1<<20 - 1, 1 << 20, 1<<20 + 1, 1 << 31, 1<<31 - 1, -(1 << 31), 1 << 32, 1 << 40, math.MaxInt64, math.MaxInt64 - 1, math.MinInt64, math.MinInt64 + 1}

func fbGenInt(r *Rand) int64 {
	switch r.Intn(3) {
	case 0:
		return Pick(r, fbIntBoundary)
	case 1:
		return int64(r.Intn(40)) - 4
	}
	return int64(r.U64()) >> uint(r.Intn(64))
}

// fbGenParamValue: a value of any type for a DecodeParms key (type confusion).
func fbGenParamValue(r *Rand) pdf.Object {
	switch r.Intn(9) {
	case 0, 1, 2, 3:
		return pdf.Integer(fbGenInt(r))
	case 4:
		return pdf.Boolean(r.Bool())
	case 5:
		return pdf.Real(Pick(r, []float64{0, 1, 8, 8.5, -1, 1e30, 15}))
	case 6:
		return pdf.Name(Pick(r, []string{"true", "8", "Identity", "StdCF", "", "X"}))
	case 7:
		return pdf.String(Pick(r, []string{"", "1", "abc"}))
	}
	switch r.Intn(3) {
	case 0:
		return pdf.Array{pdf.Integer(1)}
	case 1:
		return pdf.Dict{"K": pdf.Integer(1)}
	}
	return nil
}

var fbParamKeys = []pdf.Name{"Predictor", "Colors", "BitsPerComponent", "Columns", "EarlyChange", "K", "EndOfLine", "EncodedByteAlign",
	"Rows", "EndOfBlock", "BlackIs1", "DamagedRowsBeforeError", "ColorTransform", "Name", "Other"}

func fbGenParamDict(r *Rand) pdf.Dict {
	if r.P(1, 10) {
		return nil
	}
	d := pdf.Dict{}
	n := r.Intn(7)
	for i := 0; i < n; i++ {
		k := Pick(r, fbParamKeys)
		v := fbGenParamValue(r)
		// mostly the expected type for the key, so that the clamps are exercised
		if r.P(2, 3) {
			switch k {
			case "EndOfLine", "EncodedByteAlign", "EndOfBlock", "BlackIs1":
				v = pdf.Boolean(r.Bool())
			case "Name":
				v = pdf.Name(Pick(r, []string{"Identity", "StdCF", "MyCF", ""}))
			case "Predictor":
				v = pdf.Integer(Pick(r, []int64{0, 1, 2, 3, 9, 10, 11, 12, 13, 14, 15, 16}))
			case "BitsPerComponent":
				v = pdf.Integer(Pick(r, []int64{0, 1, 2, 3, 4, 8, 16, 32}))
			default:
				v = pdf.Integer(fbGenInt(r))
			}
		}
		if v != nil {
			d[k] = v
		}
	}
	return d
}

var fbFilterNames = []pdf.Name{"ASCII85Decode", "ASCIIHexDecode", "RunLengthDecode", "FlateDecode", "FlateDecode", "LZWDecode", "LZWDecode",
	"CCITTFaxDecode", "CCITTFaxDecode", "DCTDecode", "JBIG2Decode", "JPXDecode", "Crypt", "Crypt", "Fl", "flatedecode", ""}

func fbMakeLine(name pdf.Name, d pdf.Dict) string {
	f, err := pdf.MakeFilter(name, d)
	if err != nil {
		return "err " + errClass(err)
	}
	return "ok " + fbDescFilter(f)
}

// fbEffective maps a filter value to the parameters that take effect (documented shorthands:
// 0 means the default), as parse* returns them; params_rt: MakeFilter(Info f) == effective(f).
func fbEffective(f pdf.Filter, v pdf.Version) string {
	eff := func(p pdf.FlatePredictor, c, b, col int) (pdf.FlatePredictor, int, int, int) {
		if p == 0 || p == 1 {
			return 1, 0, 0, 0
		}
		if c == 0 {
			c = 1
		}
		if b == 0 {
			b = 8
		}
		if col == 0 {
			col = 1
		}
		return p, c, b, col
	}
	switch x := f.(type) {
	case pdf.FilterFlate:
		p, c, b, col := eff(x.Predictor, x.Colors, x.BitsPerComponent, x.Columns)
		return fbDescFilter(pdf.FilterFlate{Predictor: p, Colors: c, BitsPerComponent: b, Columns: col})
	case pdf.FilterLZW:
		p, c, b, col := eff(x.Predictor, x.Colors, x.BitsPerComponent, x.Columns)
		return fbDescFilter(pdf.FilterLZW{Predictor: p, Colors: c, BitsPerComponent: b, Columns: col, OffByOne: x.OffByOne})
	case pdf.FilterCompress:
		p, c, b, col := eff(x.Predictor, x.Colors, x.BitsPerComponent, x.Columns)
		if v >= pdf.V1_2 {
			return fbDescFilter(pdf.FilterFlate{Predictor: p, Colors: c, BitsPerComponent: b, Columns: col})
		}
		return fbDescFilter(pdf.FilterLZW{Predictor: p, Colors: c, BitsPerComponent: b, Columns: col, OffByOne: true})
	case pdf.FilterCCITTFax:
		y := x
		if y.Columns == 0 {
			y.Columns = 1728
		}
		if y.K < 0 {
			y.K = -1 // every negative K selects Group 4
		}
		return fbDescFilter(y)
	}
	return fbDescFilter(f)
}

// oracleParamsRT: for a filter value accepted by validation, MakeFilter(Info f) is the
// effective f.  Input: description as printed by fbDescFilter plus version.
func oracleParamsRT(f pdf.Filter, v pdf.Version) (bool, string) {
	name, d, err := f.Info(v)
	if err != nil {
		return true, "not validated"
	}
	g, err := pdf.MakeFilter(name, d)
	if err != nil {
		return false, fmt.Sprintf("MakeFilter(%s,%v): %v", name, d, err)
	}
	want, got := fbEffective(f, v), fbDescFilter(g)
	if want != got {
		return false, fmt.Sprintf("Info gives %s %v, MakeFilter returns %s, want %s", name, d, got, want)
	}
	return true, ""
}

func fbParseFilterDesc(desc string) pdf.Filter {
	kind, rest, _ := strings.Cut(desc, ":")
	a := strings.Split(rest, ",")
	n := func(i int) int {
		if i < len(a) {
			return fbAtoi(a[i])
		}
		return 0
	}
	switch kind {
	case "flate":
		return pdf.FilterFlate{Predictor: pdf.FlatePredictor(n(0)), Colors: n(1), BitsPerComponent: n(2), Columns: n(3)}
	case "lzw":
		return pdf.FilterLZW{Predictor: pdf.FlatePredictor(n(0)), Colors: n(1), BitsPerComponent: n(2), Columns: n(3), OffByOne: n(4) == 1}
	case "compress":
		return pdf.FilterCompress{Predictor: pdf.FlatePredictor(n(0)), Colors: n(1), BitsPerComponent: n(2), Columns: n(3)}
	case "ccitt":
		return pdf.FilterCCITTFax{K: n(0), EndOfLine: n(1) == 1, EncodedByteAlign: n(2) == 1, Columns: n(3), Rows: n(4),
			IgnoreEndOfBlock: n(5) == 1, BlackIs1: n(6) == 1, DamagedRowsBeforeError: n(7)}
	}
	return pdf.FilterASCIIHex{}
}

// replay input: "<version> <filter description>"
func replayParamsRT(input string) (bool, string) {
	a := fbFields(input)
	if len(a) != 2 {
		return true, "bad replay input"
	}
	return oracleParamsRT(fbParseFilterDesc(a[1]), pdf.Version(fbAtoi(a[0])))
}

// fbGetter is a Getter without indirect objects.
type fbGetter struct{ meta pdf.MetaInfo }

func (g *fbGetter) GetMeta() *pdf.MetaInfo { return &g.meta }
func (g *fbGetter) Get(ref pdf.Reference, canObjStm bool) (pdf.Native, error) {
	return nil, nil
}

func fbGetFiltersLine(filter, parms pdf.Object) string {
	d := pdf.Dict{}
	if filter != nil {
		d["Filter"] = filter
	}
	if parms != nil {
		d["DecodeParms"] = parms
	}
	var res string
	func() {
		defer func() {
			if p := recover(); p != nil {
				res = fmt.Sprint("panic ", p)
			}
		}()
		fs, err := pdf.GetFilters(&fbGetter{meta: pdf.MetaInfo{Version: pdf.V2_0}}, nil, d)
		if err != nil {
			res = "err " + errClass(err)
			return
		}
		var parts []string
		for _, f := range fs {
			parts = append(parts, fbDescFilter(f))
		}
		if len(parts) == 0 {
			res = "ok -"
		} else {
			res = "ok " + strings.Join(parts, ";")
		}
	}()
	return res
}

// fbCanonParms: nil and empty dictionaries are the same thing in /DecodeParms.
func fbCanonParms(o pdf.Object) string {
	canon := func(o pdf.Object) pdf.Object {
		if d, ok := o.(pdf.Dict); ok && len(d) == 0 {
			return nil
		}
		return o
	}
	if a, ok := o.(pdf.Array); ok && a != nil {
		b := make(pdf.Array, len(a))
		for i, e := range a {
			b[i] = canon(e)
		}
		return wire(b)
	}
	return wire(canon(o))
}

func runFBParams(c *Ctx) {
	r := c.R.Fork()
	n := 6000
	if c.Thorough {
		n = 80000
	}
	versions := []pdf.Version{pdf.V1_0, pdf.V1_1, pdf.V1_2, pdf.V1_3, pdf.V1_4, pdf.V1_5, pdf.V1_6, pdf.V1_7, pdf.V2_0}

	genFlateFields := func() (int, int, int, int) {
		p := Pick(r, []int{0, 1, 2, 10, 11, 12, 13, 14, 15, 15, 3, 9, 16, -1})
		c_ := int(Pick(r, []int64{0, 0, 1, 2, 3, 4, 5, 60, 61, 256, 257, -1, math.MaxInt64}))
		b := Pick(r, []int{0, 0, 1, 2, 4, 8, 16, 3, 32, -8})
		col := int(Pick(r, []int64{0, 0, 1, 2, 100, 65536, 65537, 1 << 20, 1<<20 + 1, -1, math.MaxInt64}))
		if r.P(1, 3) { // no predictor: other fields must be unset
			if r.P(3, 4) {
				c_, b, col = 0, 0, 0
			}
			p = r.Intn(2)
		}
		return p, c_, b, col
	}

	for i := 0; i < n; i++ {
		v := Pick(r, versions)
		var f pdf.Filter
		var op string
		switch r.Intn(5) {
		case 0:
			p, c_, b, col := genFlateFields()
			f = pdf.FilterFlate{Predictor: pdf.FlatePredictor(p), Colors: c_, BitsPerComponent: b, Columns: col}
			op = fmt.Sprintf("FB info flate %d %d %d %d %d", v, p, c_, b, col)
		case 1:
			p, c_, b, col := genFlateFields()
			obo := r.Bool()
			f = pdf.FilterLZW{Predictor: pdf.FlatePredictor(p), Colors: c_, BitsPerComponent: b, Columns: col, OffByOne: obo}
			op = fmt.Sprintf("FB info lzw %d %d %d %d %d %s", v, p, c_, b, col, fbB(obo))
		case 2:
			p, c_, b, col := genFlateFields()
			f = pdf.FilterCompress{Predictor: pdf.FlatePredictor(p), Colors: c_, BitsPerComponent: b, Columns: col}
			op = fmt.Sprintf("FB info compress %d %d %d %d %d", v, p, c_, b, col)
		default:
			pc := fbGenCC(r)
			pc.k = int(Pick(r, []int64{0, 0, -1, -2, 1, 2, 100, math.MaxInt64, math.MinInt64}))
			pc.cols = int(Pick(r, []int64{0, 1, 8, 1727, 1728, 1729, 1 << 20, 1<<20 + 1, -1}))
			pc.rows = int(Pick(r, []int64{0, 0, 1, 5, 1 << 20, 1<<20 + 1, -1}))
			dmg := int(Pick(r, []int64{0, 0, 0, 1, 7, 1 << 20, 1<<20 + 1, -1}))
			ff := pc.filter()
			ff.DamagedRowsBeforeError = dmg
			f = ff
			op = fmt.Sprintf("FB info ccitt %d %d %d %d %s", pc.k, pc.cols, pc.rows, dmg, pc.flags())
		}
		name, d, err := f.Info(v)
		res := "err"
		if err == nil {
			res = "ok " + fbDictWire(d)
			if _, isC := f.(pdf.FilterCompress); isC {
				res = "ok " + map[pdf.Name]string{"FlateDecode": "flate", "LZWDecode": "lzw"}[name] + " " + fbDictWire(d)
			}
			c.Stat("info_ok")
		} else {
			c.Stat("info_err")
		}
		c.Emit(op, res)
		c.Case("info:"+op, err == nil && len(d) > 0)
		if err == nil {
			// the emitted dictionary through MakeFilter: implementation vs model, and the property
			c.Emit(fmt.Sprintf("FB make %s %s", hexWire([]byte(name)), fbDictWire(d)), fbMakeLine(name, d))
			ok, desc := oracleParamsRT(f, v)
			if !ok {
				c.Violate("fb-params-rt", "params-roundtrip", desc, fmt.Sprintf("%d %s", v, strings.Replace(fbDescFilterIn(f), " ", "", -1)))
			}
		}
	}

	// MakeFilter on arbitrary dictionaries (type confusion, magnitudes)
	for i := 0; i < n; i++ {
		name := Pick(r, fbFilterNames)
		d := fbGenParamDict(r)
		line := fbMakeLine(name, d)
		c.Emit(fmt.Sprintf("FB make %s %s", hexWire([]byte(name)), fbDictWire(d)), line)
		c.Case("make:"+string(name)+fbDictWire(d), len(d) > 0)
		c.Stat("make_" + strings.SplitN(strings.TrimPrefix(line, "ok "), ":", 2)[0])
		if i < 2 {
			c.Sample(fmt.Sprintf("MakeFilter %s %s -> %s", name, fbDictWire(d), line))
		}
	}

	// GetFilters: /Filter and /DecodeParms of any shape, chains around the 8-entry cap, Crypt positions
	genName := func() pdf.Object { return Pick(r, fbFilterNames) }
	for i := 0; i < n/2; i++ {
		var filter, parms pdf.Object
		switch r.Intn(8) {
		case 0:
			filter = nil
		case 1, 2:
			filter = genName()
		case 3:
			filter = fbGenParamValue(r)
		default:
			k := r.Intn(11)
			if r.P(1, 4) {
				k = 7 + r.Intn(3)
			}
			a := make(pdf.Array, k)
			for j := range a {
				a[j] = genName()
				if r.P(1, 5) {
					a[j] = pdf.Name("Crypt")
				}
				if r.P(1, 25) {
					a[j] = fbGenParamValue(r)
				}
			}
			filter = a
		}
		switch r.Intn(6) {
		case 0:
			parms = nil
		case 1, 2:
			if d := fbGenParamDict(r); d != nil {
				parms = d
			}
		case 3:
			parms = fbGenParamValue(r)
		default:
			k := r.Intn(11)
			a := make(pdf.Array, k)
			for j := range a {
				switch r.Intn(5) {
				case 0:
					a[j] = nil
				case 1:
					a[j] = fbGenParamValue(r)
				default:
					if d := fbGenParamDict(r); d != nil {
						a[j] = d
					}
				}
			}
			parms = a
		}
		line := fbGetFiltersLine(filter, parms)
		c.Emit(fmt.Sprintf("FB getf %s %s", wire(filter), wire(parms)), line)
		c.Case("getf:"+wire(filter)+wire(parms), true)
		if fl := strings.Fields(line); len(fl) >= 2 && fl[0] == "err" {
			c.Stat("getf_err_" + fl[1])
		} else {
			c.Stat("getf_ok")
		}
		if strings.HasPrefix(line, "panic") {
			c.Violate("fb-getfilters", "panic", "GetFilters panicked: "+line, wire(filter)+" "+wire(parms))
		}
		if line == "err other" {
			// C08: a malformed /Filter or /DecodeParms must be reported as malformed input
			c.Violate("fb-getfilters", "getfilters-untyped-error", fmt.Sprintf("GetFilters(/Filter %s /DecodeParms %s) returns an error that is not a MalformedFileError", wire(filter), wire(parms)), wire(filter)+" "+wire(parms))
		}
	}

	// appendFilter from arbitrary starting entries
	for i := 0; i < n/2; i++ {
		d := pdf.Dict{}
		var f0, p0 pdf.Object
		switch r.Intn(5) {
		case 0:
		case 1:
			f0 = genName()
		case 2:
			f0 = fbGenParamValue(r)
		default:
			a := make(pdf.Array, r.Intn(4))
			for j := range a {
				a[j] = genName()
			}
			f0 = a
		}
		switch r.Intn(5) {
		case 0:
		case 1:
			if dd := fbGenParamDict(r); dd != nil {
				p0 = dd
			}
		case 2:
			p0 = fbGenParamValue(r)
		default:
			a := make(pdf.Array, r.Intn(5))
			for j := range a {
				if r.Bool() {
					if dd := fbGenParamDict(r); dd != nil {
						a[j] = dd
					}
				}
			}
			p0 = a
		}
		if a, ok := f0.(pdf.Array); ok && a == nil {
			f0 = nil
		}
		if a, ok := p0.(pdf.Array); ok && a == nil {
			p0 = nil
		}
		if f0 != nil {
			d["Filter"] = f0
		}
		if p0 != nil {
			d["DecodeParms"] = p0
		}
		name := genName().(pdf.Name)
		var parms pdf.Dict
		if r.Bool() {
			parms = fbGenParamDict(r)
		}
		op := fmt.Sprintf("FB appf %s %s %s %s", wire(f0), fbCanonParmsIn(p0), hexWire([]byte(name)), fbDictWire(parms))
		pdf.VerifAppendFilter(d, name, parms)
		c.Emit(op, wire(d["Filter"])+" "+fbCanonParms(d["DecodeParms"]))
		c.Case("appf:"+op, true)
	}
	_ = sort.Strings
}

// fbCanonParmsIn: the starting /DecodeParms as sent to the model (kept as is).
func fbCanonParmsIn(o pdf.Object) string { return wire(o) }

// fbDescFilterIn: description of an input filter value (FilterCompress has its own kind).
func fbDescFilterIn(f pdf.Filter) string {
	if x, ok := f.(pdf.FilterCompress); ok {
		return fmt.Sprintf("compress:%d,%d,%d,%d", x.Predictor, x.Colors, x.BitsPerComponent, x.Columns)
	}
	return fbDescFilter(f)
}

package main

import (
	"bytes"
	"encoding/hex"
	"fmt"
	"io"
	"regexp"
	"strconv"
	"strings"
	"time"

	"seehuhn.de/go/pdf"
)

// Scanner buffer under (faulty) readers: correspondence lines "ROB scan …"
// for Model/ROBScanBuf.lean and the scanner-level oracle of C19
// (scanner_fault on the implementation) / C05 (no hang, no panic).

// robReader is the io.Reader of Model/ROBScanBuf.lean:faultySrc: at most
// chunk bytes per call (0 = no limit); mode 'n' none, 'f' every call with
// index >= k fails, 'o' only call k fails; a failing call first delivers
// up to short bytes of what the good call would have delivered.
type robReader struct {
	d     []byte
	off   int
	calls int
	chunk int
	mode  byte
	k     int
	short int
}

func (r *robReader) Read(p []byte) (int, error) {
	idx := r.calls
	r.calls++
	var good []byte
	var gerr error
	if r.off >= len(r.d) {
		gerr = io.EOF
	} else {
		w := len(p)
		if r.chunk > 0 && r.chunk < w {
			w = r.chunk
		}
		good = r.d[r.off:]
		if len(good) > w {
			good = good[:w]
		}
	}
	fail := (r.mode == 'f' && idx >= r.k) || (r.mode == 'o' && idx == r.k)
	if fail {
		if len(good) > r.short {
			good = good[:r.short]
		}
		n := copy(p, good)
		r.off += n
		return n, errInjected
	}
	n := copy(p, good)
	r.off += n
	return n, gerr
}

type scanCase struct {
	data  []byte
	chunk int
	mode  byte
	k     int
	short int
	ops   []string
}

func (sc *scanCase) line() string {
	return fmt.Sprintf("ROB scan %s %d %c %d %d 0 %s", hexWire(sc.data), sc.chunk, sc.mode, sc.k, sc.short, strings.Join(sc.ops, ";"))
}

func parseScanCase(line string) (*scanCase, error) {
	f := strings.Fields(line)
	if len(f) != 9 || f[0] != "ROB" || f[1] != "scan" {
		return nil, fmt.Errorf("not a scan line")
	}
	sc := &scanCase{}
	if f[2] != "-" {
		b, err := hex.DecodeString(f[2])
		if err != nil {
			return nil, err
		}
		sc.data = b
	}
	sc.chunk, _ = strconv.Atoi(f[3])
	sc.mode = f[4][0]
	sc.k, _ = strconv.Atoi(f[5])
	sc.short, _ = strconv.Atoi(f[6])
	sc.ops = strings.Split(f[8], ";")
	return sc, nil
}

// runScanOps executes the operations on the real scanner.  The results are
// the canonical strings of the protocol; hang reports that the watchdog fired.
func runScanOps(sc *scanCase, mode byte) (res []string, hang bool) {
	rd := &robReader{d: sc.data, chunk: sc.chunk, mode: mode, k: sc.k, short: sc.short}
	done := make(chan []string, 1)
	go func() {
		var out []string
		s := pdf.NewVerifScanner(rd, nil, robGetInt)
		for _, op := range sc.ops {
			if op == "o" { // ReadObject, last operation: class and position after success
				r, panicked := runScanObject(s)
				if panicked {
					r += "@panic"
				}
				out = append(out, r)
				break
			}
			r, panicked := runScanOp(s, op)
			if panicked {
				out = append(out, r+"@panic")
				break
			}
			out = append(out, fmt.Sprintf("%s@%d", r, s.Pos()))
		}
		done <- out
	}()
	select {
	case out := <-done:
		return out, false
	case <-time.After(5 * time.Second):
		return []string{"@hang"}, true
	}
}

// robGetInt stands for Reader.getInt of a real session (a nil function value
// would make ReadStreamData panic on a direct /Length, an artefact of the
// test hook only): direct integers only; everything else is a malformed-file
// error, which ReadStreamData treats as "length unknown" (a read error of
// getInt is returned by ReadStreamData since a2d2dfe; read errors of this
// scanner come from its reader only).
func robGetInt(o pdf.Object) (pdf.Integer, error) {
	if i, ok := o.(pdf.Integer); ok {
		return i, nil
	}
	return 0, &pdf.MalformedFileError{Err: fmt.Errorf("not an integer")}
}

func runScanObject(s *pdf.VerifScanner) (res string, panicked bool) {
	defer func() {
		if e := recover(); e != nil {
			res, panicked = "o:panic", true
		}
	}()
	_, err := s.ReadObject()
	if err != nil {
		return "o:" + errClass(err), false
	}
	return fmt.Sprintf("o:ok:%d", s.Pos()), false
}

func runScanOp(s *pdf.VerifScanner, op string) (res string, panicked bool) {
	defer func() {
		if e := recover(); e != nil {
			res = op[:1] + ":-:ok"
			panicked = true
		}
	}()
	arg := op[1:]
	switch op[0] {
	case 'p':
		n, _ := strconv.Atoi(arg)
		buf, err := s.PeekN(n)
		return fmt.Sprintf("p:%s:%s", hexWire(buf), errClass(err)), false
	case 'b':
		b, err := s.ReadByte()
		if err != nil {
			return "b:-:" + errClass(err), false
		}
		return fmt.Sprintf("b:%02x:ok", b), false
	case 'w':
		return "w:" + errClass(s.SkipWhiteSpace()), false
	case 's':
		pat, _ := hex.DecodeString(arg)
		return "s:" + errClass(s.SkipString(string(pat))), false
	case 'i':
		v, err := s.ReadInteger()
		if err != nil {
			return "i:-:" + errClass(err), false
		}
		return fmt.Sprintf("i:%d:ok", int64(v)), false
	case 'd':
		n := 0
		err := s.ScanBytes(func(b byte) bool {
			if b >= '0' && b <= '9' {
				n++
				return true
			}
			return false
		})
		return fmt.Sprintf("d:%d:%s", n, errClass(err)), false
	}
	return "bad-op", false
}

// scanFaultOracle: every operation on the faulty reader returns what it
// returns on the fault-free reader, or the injected error (after which the
// caller stops).  key names the failure class.
func scanFaultOracle(sc *scanCase) (ok bool, key, detail string) {
	faulty, hang := runScanOps(sc, sc.mode)
	if hang {
		return false, "C19-scanner-hang", "hang"
	}
	good, hang2 := runScanOps(sc, 'n')
	if hang2 {
		return false, "C19-scanner-hang", "hang (fault-free)"
	}
	for i, f := range faulty {
		if strings.HasSuffix(f, "@panic") {
			if i < len(good) && good[i] == f {
				return true, "", ""
			}
			return false, "C19-scanner-panic", "panic: " + f
		}
		if i >= len(good) {
			return false, "C19-scanner-fault", "more results than fault-free"
		}
		if f == good[i] {
			continue
		}
		fp := strings.Split(strings.SplitN(f, "@", 2)[0], ":")
		gp := strings.Split(strings.SplitN(good[i], "@", 2)[0], ":")
		if fp[len(fp)-1] == "io" {
			return true, "", ""
		}
		key := "C19-scanner-fault"
		// former finding ROB-1 (fixed upstream as D33; the class key is kept as a
		// regression detector): the refill during which the
		// reader failed after some bytes had been added (by this or an earlier Read of the same io.ReadFull) reports no error, so this
		// PeekN hands out a shortened window with a nil error
		if len(fp) == 3 && len(gp) == 3 && fp[0] == "p" && fp[2] == "ok" && fp[1] != gp[1] &&
			(fp[1] == "-" || strings.HasPrefix(gp[1], fp[1])) {
			key = "C19-peekn-short-read-error-swallowed"
		}
		if fp[0] == "s" && fp[1] == "malformed" && gp[1] == "ok" && len(sc.ops[i]) > 3 {
			key = "C19-peekn-short-read-error-swallowed"
		}
		// former finding ROB-7 (fixed upstream in 325162a; the class key is kept as a
		// regression detector, a recurrence is a VIOLATION): tryHex ignored the error
		// of its PeekN(3); when the reader failed inside a '#xx' escape the '#' was
		// kept as a literal character and, at the 4096-byte cap, the name ended in
		// "name too long" (malformed) instead of the reader's error
		if len(fp) == 2 && fp[0] == "o" && fp[1] == "malformed" && len(gp) == 3 && gp[1] == "ok" &&
			bytes.Contains(sc.data, []byte("#")) && len(sc.data) > 4096 {
			key = "C19-tryhex-peek-error-ignored"
		}
		// former finding ROB-6 (fixed upstream as D35; the class key is kept as a
		// regression detector): ReadObject ignored the error of the PeekN(6) that
		// looks for "stream" behind a dictionary (`buf, _ = s.PeekN(6)`): when the
		// reader failed inside the keyword, the stream's dictionary was returned as a
		// plain dictionary with a nil error
		if len(fp) == 3 && fp[0] == "o" && fp[1] == "ok" {
			if n, err := strconv.Atoi(fp[2]); err == nil && n >= 2 && n <= len(sc.data) &&
				bytes.HasPrefix(sc.data[n:], []byte("stream")) && bytes.Contains(sc.data[:n], []byte(">>")) {
				key = "C19-readobject-stream-peek-error-ignored"
			}
		}
		return false, key, fmt.Sprintf("op %d (%s): with fault %q, fault-free %q", i, sc.ops[i], truncate(f), truncate(good[i]))
	}
	return true, "", ""
}

func replayScan(input string) (bool, string) {
	sc, err := parseScanCase(input)
	if err != nil {
		return true, "bad replay input: " + err.Error()
	}
	ok, key, d := scanFaultOracle(sc)
	return ok, truncate(input) + "\n" + key + " " + d
}

var robLongDigits = regexp.MustCompile(`[0-9.+-]{300}`)

var robEndTokens = []string{"/A#", "/A#4", "/#", "(abc", "(a\\", "(a\\1", "<4", "<<", "<</A", "<</A 1", "<</A 1 0", "[1 2", "[1 2 R", "1 0", "tru", "nul", "fals", "+", "-.", "/", "[", "<"}

var robTokens = []string{" ", "  ", "\n", "\r\n", "\t", "\x00", "\f", "% comment\n", "%c\r", "%", "0", "1", "42", "-7", "+15", "007", "123456789", "99999999999999999999", "-", "+", "obj", "endobj", "R", "/Name", "<<", ">>", "[", "]", "(s)", "xref", "trailer", "stream\n", "12 0 obj", "1 0 R", "a"}

func genScanData(r *Rand) []byte {
	var sb strings.Builder
	if r.P(1, 12) { // an input that ends inside its only token
		sb.WriteString(Pick(r, []string{"", " ", "\n", "% c\n"}))
		sb.WriteString(Pick(r, robEndTokens))
		return []byte(sb.String())
	}
	switch r.Intn(6) {
	case 0: // empty or tiny
		n := r.Intn(3)
		for i := 0; i < n; i++ {
			sb.WriteString(Pick(r, robTokens))
		}
	case 1: // long white space / comment / digit runs across the buffer edge
		kind := r.Intn(4)
		n := 1000 + r.Intn(1200)
		if r.P(1, 4) {
			n = 4090 + r.Intn(20)
		}
		for i := 0; i < n; i++ {
			switch kind {
			case 0:
				sb.WriteByte(" \n\r\t\x00\f"[r.Intn(6)])
			case 1:
				sb.WriteByte('7')
			case 2:
				if i == 0 {
					sb.WriteByte('%')
				} else {
					sb.WriteByte('x')
				}
			default:
				sb.WriteString(Pick(r, []string{" ", "1", "%a\n", "\r"}))
			}
		}
		sb.WriteString(Pick(r, robTokens))
	case 2: // token placed at 1020..1028
		pad := 1016 + r.Intn(14)
		sb.WriteString(strings.Repeat(" ", pad))
		n := 1 + r.Intn(5)
		for i := 0; i < n; i++ {
			sb.WriteString(Pick(r, robTokens))
		}
	default:
		n := 1 + r.Intn(40)
		for i := 0; i < n; i++ {
			sb.WriteString(Pick(r, robTokens))
			if r.P(1, 10) {
				sb.WriteByte(byte(r.U64()))
			}
		}
	}
	if r.P(1, 6) { // end the input inside a token
		sb.WriteString(Pick(r, robEndTokens))
	}
	return []byte(sb.String())
}

func genScanOps(r *Rand, allowPanic bool) []string {
	n := 1 + r.Intn(10)
	ops := make([]string, 0, n)
	for i := 0; i < n; i++ {
		switch r.Intn(9) {
		case 0:
			ops = append(ops, fmt.Sprintf("p%d", Pick(r, []int{0, 1, 2, 5, 6, 20, 64, 1023, 1024})))
		case 1:
			ops = append(ops, "b")
		case 2, 3:
			ops = append(ops, "w")
		case 4:
			ops = append(ops, "s"+hex.EncodeToString([]byte(Pick(r, []string{"obj", "endobj", "R", "/", "<<", "xref", "1", " ", "trailer"}))))
		case 5, 6:
			ops = append(ops, "i")
		case 7:
			ops = append(ops, "d")
		default:
			if allowPanic && r.P(1, 20) {
				ops = append(ops, "p1025")
			} else {
				ops = append(ops, "b")
			}
		}
	}
	return ops
}

// robScanRun generates scanner cases.  With faults it serves C19, without
// C05.
func robScanRun(c *Ctx, faults bool) {
	r := c.R.Fork()
	n := 3000
	if c.Thorough {
		n = 40000
	}
	hangs := 0
	for i := 0; i < n && hangs < 2; i++ {
		sc := &scanCase{data: genScanData(r), mode: 'n'}
		sc.chunk = Pick(r, []int{0, 0, 0, 1, 7, 100, 1023, 1024, 1025})
		sc.ops = genScanOps(r, !faults)
		// C05 also sees failing readers (a hang or panic there is a C05
		// violation: defect D8 needed one), without the C19 oracle
		withFault := faults || r.P(1, 4)
		if withFault {
			sc.mode = Pick(r, []byte{'f', 'o', 'o'})
			sc.k = r.Intn(6)
			if sc.chunk == 1 || sc.chunk == 7 {
				sc.k = r.Intn(400)
			}
			sc.short = Pick(r, []int{0, 0, 1, 5, 100, 1023, 1024, 4000})
		}
		// finish with ReadObject at the current position (not after
		// digit runs of 300+ bytes: Model/Scan.lean does not model the range
		// error of strconv.ParseFloat, see its comment in readNumber)
		// (also on failing readers: the model line is computed by the buffer-level
		// parser of Model/ROBScanObj.lean over the same reader)
		if (r.P(1, 2) || len(sc.data) < 12) && !robLongDigits.Match(sc.data) {
			if r.P(1, 3) {
				sc.ops = []string{"o"}
			} else {
				sc.ops = append(sc.ops, "o")
			}
		}
		line := sc.line()
		res, hang := runScanOps(sc, sc.mode)
		c.Emit(line, strings.Join(res, ","))
		tag := "C05"
		if faults {
			tag = "C19"
		}
		c.Case(line, len(sc.data) > 0)
		c.Stat(fmt.Sprintf("scan_mode_%c", sc.mode))
		c.Stat(fmt.Sprintf("scan_len_%s", sizeBucket(len(sc.data))))
		for _, x := range res {
			parts := strings.Split(strings.SplitN(x, "@", 2)[0], ":")
			c.Stat("scan_result_" + parts[len(parts)-1])
		}
		if hang {
			hangs++
			c.Violate("scan", tag+"-scanner-hang", "scanner call did not return within 5 s: "+truncate(line), line)
			continue
		}
		for _, x := range res {
			if (strings.HasSuffix(x, "@panic") && !strings.HasPrefix(x, "p:")) || strings.HasPrefix(x, "o:panic") {
				c.Violate("scan", tag+"-scanner-panic", "scanner call panicked: "+truncate(line), line)
			}
		}
		if faults {
			if ok, key, d := scanFaultOracle(sc); !ok {
				c.Violate("scan", key, d+" in "+truncate(line), line)
			}
		}
		if i < 2 {
			c.Sample(truncate(line) + " => " + truncate(strings.Join(res, ",")))
		}
	}
}

// robObjFaultRun: ReadObject under ALL-k faults.  Every object text of a small
// corpus (every token kind, escapes, '#' names, nesting, references, a stream
// dictionary) is read through a reader that serves 1 (or 3) bytes per call
// and fails from call k on, for every k up to the end of the text, with 0 or
// 1 bytes delivered together with the error.  The line is compared with the
// buffer-level parser model (Model/ROBScanObj.lean over the same faulty
// source); the oracle is that of the theorem readObject_fault: the fault-free
// result (value class and position) or the injected error.
var robObjCorpus = []string{
	"12 ", "-3.5 ", "+.5e", "true ", "false]", "null ", "nul", "tru", "/Name ", "/A#42#4 ", "/A#", "/#4", "/A#4/B ",
	"(abc) ", "(a(b)c\\)\\101\\7x\\\n\\n) ", "(un", "<4a4B> ", "<4a4", "<4 a\n4> ", "<4x>",
	"[1 2 R /N (s) <41> true null] ", "[1 2 3 R 4 R] ", "[[[]]] ", "[1 2", "[1 2 R",
	"<</A 1/B[2 0 R]/C<</D(x)>>>> ", "<</A 1 /B 2 0 R>>x", "<< /A#41 null /B 1 >> ", "<</A>>", "<</A 1",
	"<</Length 3>>\nstream\nabc\nendstream ", "<</Length 3>>stream\r\nabc", "<<>> \n stream", "<<>> strea", "<<>> streaX",
	"[<</A 1>> stream]", "% c\n 7 ", ">", ")", "]", "xyz", "",
}

func robObjFaultRun(c *Ctx) {
	for _, txt := range robObjCorpus {
		data := []byte(txt)
		for _, chunk := range []int{1, 3} {
			for _, short := range []int{0, 1} {
				if chunk == 1 && short == 1 {
					continue
				}
				for k := 0; k <= len(data)/chunk+2; k++ {
					for _, mode := range []byte{'f', 'o'} {
						sc := &scanCase{data: data, chunk: chunk, mode: mode, k: k, short: short, ops: []string{"o"}}
						line := sc.line()
						res, hang := runScanOps(sc, mode)
						c.Emit(line, strings.Join(res, ","))
						c.Case(line, true)
						for _, x := range res {
							parts := strings.Split(strings.SplitN(x, "@", 2)[0], ":")
							c.Stat("objfault_result_" + parts[1])
						}
						if hang {
							c.Violate("scan", "C19-scanner-hang", "ReadObject did not return within 5 s: "+truncate(line), line)
							continue
						}
						if ok, key, d := scanFaultOracle(sc); !ok {
							c.Violate("scan", key, d+" in "+truncate(line), line)
						}
					}
				}
			}
		}
	}
	// former finding ROB-7 (tryHex dropped the error of its PeekN(3)): a name that reaches
	// the 4096-byte cap with a '#xx' escape as its last character; the reader
	// fails after "#4".  Only the calls around the escape are enumerated.
	long := []byte("/" + strings.Repeat("a", 4095) + "#41 ")
	for k := len(long) - 8; k <= len(long)+1; k++ {
		for _, mode := range []byte{'f', 'o'} {
			sc := &scanCase{data: long, chunk: 1, mode: mode, k: k, ops: []string{"o"}}
			line := sc.line()
			res, hang := runScanOps(sc, mode)
			c.Emit(line, strings.Join(res, ","))
			c.Case(line, true)
			if hang {
				c.Violate("scan", "C19-scanner-hang", "ReadObject did not return within 5 s: "+truncate(line), line)
				continue
			}
			if ok, key, d := scanFaultOracle(sc); !ok {
				c.Violate("scan", key, d+" in "+truncate(line), line)
			}
		}
	}
	c.Stat("objfault_all_k")
}

// robTokenSeqRun: EXHAUSTIVE short token sequences inside the two composite
// contexts of the parser, read with ReadObject and compared with the model.
// The random soups above rarely produce a particular order of a handful of
// tokens (e.g. four integers followed by two "R"), but the state the array
// and dictionary loops keep between tokens (integersSeen, the a-b-R
// look-ahead) depends on exactly that; all sequences up to a small length
// over {integer, R, other} cover every such state.
func robTokenSeqRun(c *Ctx) {
	alpha := []string{"1", "R", "/N"}
	maxArr, maxDict := 8, 6
	if c.Thorough {
		alpha = []string{"1", "0", "R", "/N", "null"}
		maxArr, maxDict = 7, 6
	}
	var emit func(prefix, suffix string, seq []string, left int)
	emit = func(prefix, suffix string, seq []string, left int) {
		data := []byte(prefix + strings.Join(seq, " ") + suffix)
		sc := &scanCase{data: data, mode: 'n', ops: []string{"o"}}
		res, hang := runScanOps(sc, 'n')
		line := sc.line()
		c.Emit(line, strings.Join(res, ","))
		c.Case(line, len(seq) > 0)
		for _, x := range res {
			if strings.HasPrefix(x, "o:panic") {
				c.Violate("scan", "C05-scanner-panic", "ReadObject panicked on "+string(data), line)
			}
		}
		if hang {
			c.Violate("scan", "C05-scanner-hang", "ReadObject did not return on "+string(data), line)
		}
		if left == 0 {
			return
		}
		for _, a := range alpha {
			emit(prefix, suffix, append(seq[:len(seq):len(seq)], a), left-1)
		}
	}
	emit("[", "]", nil, maxArr)
	emit("<</K ", ">>", nil, maxDict)
	c.Stat("scan_token_sequences_exhaustive")
}

func sizeBucket(n int) string {
	switch {
	case n == 0:
		return "0"
	case n < 64:
		return "1-63"
	case n < 1024:
		return "64-1023"
	case n < 2048:
		return "1024-2047"
	default:
		return "2048+"
	}
}
